#!/usr/bin/env python3
"""thorough_iso.py <props…> — the thorough tier of the named checks on the unchanged tree, in a snapshot copy of /verif and a scratch
worktree of /repo's HEAD (so that it can run next to other work).  One line per property."""
import os
import shutil
import subprocess
import sys
import tempfile
import time


def sh(cmd, **kw):
    return subprocess.run(cmd, shell=True, capture_output=True, text=True, **kw)


def main():
    props = sys.argv[1:]
    base = tempfile.mkdtemp(prefix="thorough.")
    wt, home = base + "/repo", base + "/verif"
    try:
        assert sh("git -C /repo worktree add -q --detach %s HEAD" % wt).returncode == 0
        sh("cp -r /verif %s" % home)
        shutil.rmtree(home + "/replays", ignore_errors=True)
        env = dict(os.environ, VERIF_HOME=home, VERIF_REPO=wt)
        for p in props:
            t = time.time()
            r = subprocess.run([home + "/check", p, "--tier", os.environ.get("ISO_TIER", "thorough")], capture_output=True, text=True, env=env, cwd=home)
            lines = [l for l in r.stdout.split("\n") if l.startswith(("VIOLATION", "KNOWN"))]
            print(p, "exit", r.returncode, "%.0fs" % (time.time() - t), [l[:160] for l in lines[:3]], flush=True)
            for l in lines[:2]:
                if l.startswith("VIOLATION"):
                    try:
                        print("   ", open(l.split("replay=")[1].split()[0]).read()[:1200], flush=True)
                    except Exception as e:
                        print("   ", e)
    finally:
        sh("git -C /repo worktree remove --force %s" % wt)
        shutil.rmtree(base, ignore_errors=True)
        sh("git -C /repo worktree prune")


if __name__ == "__main__":
    main()
