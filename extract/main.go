// Command extract reads /repo's current sources with go/ast and writes fact tables as Lean
// definitions (lean/WireV/Generated/Tables.lean).  It fails closed: an unrecognised shape in one of
// the extracted functions is an error (exit 1), which the checks report as a broken obligation.
//
// Standard library only.  The ast.* node inventory comes from reflection over the go/ast package of
// the toolchain that also builds Wire.
package main

import (
	"bytes"
	"fmt"
	"go/ast"
	"go/parser"
	"go/printer"
	"go/token"
	"go/types"
	"os"
	"reflect"
	"regexp"
	"sort"
	"strconv"
	"strings"
)

var fset = token.NewFileSet()

// extractError is what fail throws: a section of the tables that cannot be read off the current sources.
type extractError string

func fail(format string, a ...interface{}) {
	panic(extractError(fmt.Sprintf(format, a...)))
}

var broken []string

// section writes one group of definitions; if the shape of the code it reads is not recognised, the group is
// replaced by placeholders of the same types (empty lists, false, 99, "unextractable") so that only the theorems
// over this group stop checking, not the whole model.
func section(b *bytes.Buffer, name string, placeholder string, body func(w func(string, ...interface{}))) {
	var sb bytes.Buffer
	w := func(format string, a ...interface{}) { fmt.Fprintf(&sb, format, a...) }
	func() {
		defer func() {
			if r := recover(); r != nil {
				e, ok := r.(extractError)
				if !ok {
					e = extractError(fmt.Sprint(r))
				}
				fmt.Fprintf(os.Stderr, "extract: %s: %s\n", name, string(e))
				broken = append(broken, name+": "+string(e))
				sb.Reset()
				sb.WriteString("-- NOT EXTRACTED (" + strings.ReplaceAll(string(e), "\n", " ") + "): placeholders\n" + placeholder + "\n")
			}
		}()
		body(w)
	}()
	b.Write(sb.Bytes())
}

func parse(path string) *ast.File {
	f, err := parser.ParseFile(fset, path, nil, parser.ParseComments)
	if err != nil {
		fail("%v", err)
	}
	return f
}

func text(n ast.Node) string {
	var b bytes.Buffer
	printer.Fprint(&b, fset, n)
	return strings.Join(strings.Fields(b.String()), " ")
}

func findFunc(f *ast.File, recv, name string) *ast.FuncDecl {
	for _, d := range f.Decls {
		fd, ok := d.(*ast.FuncDecl)
		if !ok || fd.Name.Name != name {
			continue
		}
		r := ""
		if fd.Recv != nil && len(fd.Recv.List) == 1 {
			r = strings.TrimPrefix(text(fd.Recv.List[0].Type), "*")
		}
		if r == recv {
			return fd
		}
	}
	fail("function %s.%s not found", recv, name)
	return nil
}

func lstr(ss []string) string {
	q := make([]string, len(ss))
	for i, s := range ss {
		q[i] = fmt.Sprintf("%q", s)
	}
	return "[" + strings.Join(q, ", ") + "]"
}

// ---- cmd/wire: exit statuses ---------------------------------------------------------------

func statusOf(expr string, consts map[string]string) int {
	if v, ok := consts[expr]; ok {
		expr = v
	}
	switch expr {
	case "subcommands.ExitSuccess":
		return 0
	case "subcommands.ExitFailure":
		return 1
	case "subcommands.ExitUsageError":
		return 2
	case "subcommands.ExitStatus(2)":
		return 2
	case "subcommands.ExitStatus(1)":
		return 1
	}
	fail("unrecognised exit status expression %q", expr)
	return -1
}

type ret struct {
	guard  string
	status int
}

// returnsOf lists every return of a command's Execute with the condition of the innermost
// enclosing top-level `if` (or "" for an unconditional return), in source order.
func returnsOf(fd *ast.FuncDecl) []ret {
	consts := map[string]string{}
	var out []ret
	for _, st := range fd.Body.List {
		switch st := st.(type) {
		case *ast.DeclStmt:
			if gd, ok := st.Decl.(*ast.GenDecl); ok && gd.Tok == token.CONST {
				for _, sp := range gd.Specs {
					vs := sp.(*ast.ValueSpec)
					for i, n := range vs.Names {
						consts[n.Name] = text(vs.Values[i])
					}
				}
			}
		case *ast.IfStmt:
			ast.Inspect(st.Body, func(n ast.Node) bool {
				if _, ok := n.(*ast.FuncLit); ok {
					return false
				}
				if r, ok := n.(*ast.ReturnStmt); ok && len(r.Results) == 1 {
					out = append(out, ret{text(st.Cond), statusOf(text(r.Results[0]), consts)})
				}
				return true
			})
		case *ast.SwitchStmt:
			if st.Tag != nil {
				continue
			}
			for _, c := range st.Body.List {
				cc := c.(*ast.CaseClause)
				cond := ""
				if len(cc.List) > 0 {
					cond = text(cc.List[0])
				}
				for _, cs := range cc.Body {
					ast.Inspect(cs, func(n ast.Node) bool {
						if _, ok := n.(*ast.FuncLit); ok {
							return false
						}
						if r, ok := n.(*ast.ReturnStmt); ok && len(r.Results) == 1 {
							out = append(out, ret{cond, statusOf(text(r.Results[0]), consts)})
						}
						return true
					})
				}
			}
		case *ast.ReturnStmt:
			out = append(out, ret{"", statusOf(text(st.Results[0]), consts)})
		}
	}
	return out
}

// headerStatus finds `opts, err := newGenerateOptions(...)` and the status returned by the
// `if err != nil` that follows it.
func headerStatus(fd *ast.FuncDecl) int {
	consts := map[string]string{}
	for i, st := range fd.Body.List {
		if ds, ok := st.(*ast.DeclStmt); ok {
			if gd, ok := ds.Decl.(*ast.GenDecl); ok && gd.Tok == token.CONST {
				for _, sp := range gd.Specs {
					vs := sp.(*ast.ValueSpec)
					for k, n := range vs.Names {
						consts[n.Name] = text(vs.Values[k])
					}
				}
			}
		}
		as, ok := st.(*ast.AssignStmt)
		if !ok || len(as.Rhs) != 1 || !strings.HasPrefix(text(as.Rhs[0]), "newGenerateOptions(") {
			continue
		}
		if i+1 >= len(fd.Body.List) {
			break
		}
		ifs, ok := fd.Body.List[i+1].(*ast.IfStmt)
		if !ok || text(ifs.Cond) != "err != nil" {
			break
		}
		for _, b := range ifs.Body.List {
			if r, ok := b.(*ast.ReturnStmt); ok {
				return statusOf(text(r.Results[0]), consts)
			}
		}
	}
	fail("%s: no header-file error branch found", fd.Name.Name)
	return -1
}

// ---- copyAST ----------------------------------------------------------------------------------

type nodeInfo struct {
	name   string
	fields []string // all exported fields
	kinds  []string // child | childlist | pos | value | ignore
}

func astInventory() []nodeInfo {
	nodeT := reflect.TypeOf((*ast.Node)(nil)).Elem()
	posT := reflect.TypeOf(token.Pos(0))
	samples := []interface{}{
		&ast.ArrayType{}, &ast.AssignStmt{}, &ast.BadDecl{}, &ast.BadExpr{}, &ast.BadStmt{}, &ast.BasicLit{}, &ast.BinaryExpr{},
		&ast.BlockStmt{}, &ast.BranchStmt{}, &ast.CallExpr{}, &ast.CaseClause{}, &ast.ChanType{}, &ast.CommClause{}, &ast.Comment{},
		&ast.CommentGroup{}, &ast.CompositeLit{}, &ast.DeclStmt{}, &ast.DeferStmt{}, &ast.Ellipsis{}, &ast.EmptyStmt{}, &ast.ExprStmt{},
		&ast.Field{}, &ast.FieldList{}, &ast.ForStmt{}, &ast.FuncDecl{}, &ast.FuncLit{}, &ast.FuncType{}, &ast.GenDecl{}, &ast.GoStmt{},
		&ast.Ident{}, &ast.IfStmt{}, &ast.ImportSpec{}, &ast.IncDecStmt{}, &ast.IndexExpr{}, &ast.IndexListExpr{}, &ast.InterfaceType{},
		&ast.KeyValueExpr{}, &ast.LabeledStmt{}, &ast.MapType{}, &ast.ParenExpr{}, &ast.RangeStmt{}, &ast.ReturnStmt{}, &ast.SelectStmt{},
		&ast.SelectorExpr{}, &ast.SendStmt{}, &ast.SliceExpr{}, &ast.StarExpr{}, &ast.StructType{}, &ast.SwitchStmt{},
		&ast.TypeAssertExpr{}, &ast.TypeSpec{}, &ast.TypeSwitchStmt{}, &ast.UnaryExpr{}, &ast.ValueSpec{},
	}
	var out []nodeInfo
	for _, s := range samples {
		t := reflect.TypeOf(s).Elem()
		ni := nodeInfo{name: t.Name()}
		for i := 0; i < t.NumField(); i++ {
			f := t.Field(i)
			if f.PkgPath != "" {
				continue
			}
			kind := "value"
			ft := f.Type
			switch {
			case ft == posT:
				kind = "pos"
			case ft.Implements(nodeT) || (ft.Kind() == reflect.Interface && ft.Implements(nodeT)):
				kind = "child"
			case ft.Kind() == reflect.Slice && ft.Elem().Implements(nodeT):
				kind = "childlist"
			case f.Name == "Obj" || f.Name == "Scope" || f.Name == "Unresolved" || f.Name == "Incomplete":
				kind = "ignore" // resolver artefacts (deprecated); Incomplete is only set for sources with syntax errors
			}
			ni.fields = append(ni.fields, f.Name)
			ni.kinds = append(ni.kinds, kind)
		}
		out = append(out, ni)
	}
	return out
}

// copiedFields: for each `case *ast.X:` of copyAST, the fields its copy assigns.
func copiedFields(fd *ast.FuncDecl) (map[string][]string, []string, bool) {
	res := map[string][]string{}
	var order []string
	var sw *ast.TypeSwitchStmt
	ast.Inspect(fd.Body, func(n ast.Node) bool {
		if s, ok := n.(*ast.TypeSwitchStmt); ok && sw == nil {
			sw = s
		}
		return true
	})
	if sw == nil {
		fail("copyAST: no type switch")
	}
	defaultPanics := false
	for _, c := range sw.Body.List {
		cc := c.(*ast.CaseClause)
		if cc.List == nil {
			for _, st := range cc.Body {
				if strings.HasPrefix(text(st), "panic(") {
					defaultPanics = true
				}
			}
			continue
		}
		for _, te := range cc.List {
			tn := strings.TrimPrefix(text(te), "*ast.")
			if tn == "nil" {
				continue
			}
			fields := map[string]bool{}
			identity := false
			vars := map[string]bool{}
			for _, st := range cc.Body {
				ast.Inspect(st, func(n ast.Node) bool {
					switch n := n.(type) {
					case *ast.CompositeLit:
						if text(n.Type) == "ast."+tn {
							for _, el := range n.Elts {
								kv, ok := el.(*ast.KeyValueExpr)
								if !ok {
									fail("copyAST case %s: positional composite literal", tn)
								}
								fields[text(kv.Key)] = true
							}
						}
					case *ast.AssignStmt:
						// x := new(ast.T) ; x.F = …   and   m[node] = node
						if len(n.Lhs) == 1 && len(n.Rhs) == 1 {
							l, r := text(n.Lhs[0]), text(n.Rhs[0])
							if r == "new(ast."+tn+")" || strings.HasPrefix(r, "&ast."+tn+"{") {
								vars[l] = true
							}
							if sel, ok := n.Lhs[0].(*ast.SelectorExpr); ok && vars[text(sel.X)] {
								fields[sel.Sel.Name] = true
							}
							if l == "m[node]" && r == "node" {
								identity = true
							}
						}
					}
					return true
				})
			}
			var fl []string
			for f := range fields {
				fl = append(fl, f)
			}
			sort.Strings(fl)
			if identity {
				fl = []string{"*identity*"}
			}
			res[tn] = fl
			order = append(order, tn)
		}
	}
	return res, order, defaultPanics
}

// ---- processValue whitelist, zeroValue kinds ---------------------------------------------------------

func caseTypes(cc *ast.CaseClause) []string {
	var out []string
	for _, e := range cc.List {
		out = append(out, strings.TrimPrefix(strings.TrimPrefix(text(e), "*ast."), "*types."))
	}
	return out
}

// findWhitelist: the function that holds the expression walk of wire.Value: processValue itself, or — after the walk
// has been moved into a helper — the function of parse.go whose type switch has a case for *ast.BasicLit.
func findWhitelist(f *ast.File) *ast.FuncDecl {
	has := func(fd *ast.FuncDecl) bool {
		found := false
		if fd.Body == nil {
			return false
		}
		ast.Inspect(fd.Body, func(n ast.Node) bool {
			if s, ok := n.(*ast.TypeSwitchStmt); ok {
				for _, c := range s.Body.List {
					for _, e := range c.(*ast.CaseClause).List {
						if text(e) == "*ast.BasicLit" {
							found = true
						}
					}
				}
			}
			return true
		})
		return found
	}
	if fd := findFunc(f, "", "processValue"); has(fd) {
		return fd
	}
	for _, d := range f.Decls {
		if fd, ok := d.(*ast.FuncDecl); ok && has(fd) {
			return fd
		}
	}
	fail("no function of parse.go walks a wire.Value expression with a type switch over go/ast node kinds")
	return nil
}

func valueWhitelist(fd *ast.FuncDecl) (good []string, unaryArrowRejected bool, callRule string, defaultRejects bool) {
	callRule = "none"
	var sw *ast.TypeSwitchStmt
	ast.Inspect(fd.Body, func(n ast.Node) bool {
		if s, ok := n.(*ast.TypeSwitchStmt); ok && sw == nil {
			sw = s
		}
		return true
	})
	if sw == nil {
		fail("processValue: no type switch")
	}
	// a case rejects by setting its verdict variable to false or by returning false (whatever the variable is called)
	rejects := func(body string) bool {
		return regexp.MustCompile(`\b\w+ = false\b|\breturn false\b`).MatchString(body)
	}
	for _, c := range sw.Body.List {
		cc := c.(*ast.CaseClause)
		body := ""
		for _, st := range cc.Body {
			body += text(st) + " ; "
		}
		switch {
		case cc.List == nil:
			defaultRejects = rejects(body)
		case len(cc.List) == 1 && text(cc.List[0]) == "*ast.UnaryExpr":
			unaryArrowRejected = regexp.MustCompile(`\.Op == token\.ARROW`).MatchString(body) && rejects(body)
		case len(cc.List) == 1 && text(cc.List[0]) == "*ast.CallExpr":
			switch {
			case !rejects(body):
				callRule = "none"
			case regexp.MustCompile(`!\w+\.Types\[\w+\.Fun\]\.IsType\(\)`).MatchString(body):
				callRule = "isType" // accepted iff the callee expression denotes a type
			case strings.Contains(body, ".(*types.Signature); isFunc"):
				callRule = "signature" // rejected iff the callee's type is literally a signature
			default:
				fail("processValue: unrecognised test in the CallExpr case: %s", body)
			}
		default:
			if rejects(body) {
				fail("processValue: unexpected rejecting case %v", caseTypes(cc))
			}
			good = append(good, caseTypes(cc)...)
		}
	}
	sort.Strings(good)
	return
}

// zeroBasic: the BasicInfo flags and basic kinds the `case *types.Basic` of zeroValue tests for.
func zeroBasic(fd *ast.FuncDecl) (flags, kinds []string) {
	// Every BasicInfo flag and basic kind the `case *types.Basic` of zeroValue mentions, whether in the cases of an
	// inner switch or in the conditions of an if chain; composite flags are expanded into their components.
	composite := map[string][]string{
		"IsNumeric":   {"IsInteger", "IsFloat", "IsComplex"},
		"IsOrdered":   {"IsInteger", "IsFloat", "IsString"},
		"IsConstType": {"IsBoolean", "IsInteger", "IsFloat", "IsComplex", "IsString"},
	}
	seenF, seenK := map[string]bool{}, map[string]bool{}
	ast.Inspect(fd.Body, func(n ast.Node) bool {
		cc, ok := n.(*ast.CaseClause)
		if !ok || len(cc.List) != 1 || text(cc.List[0]) != "*types.Basic" {
			return true
		}
		for _, st := range cc.Body {
			ast.Inspect(st, func(x ast.Node) bool {
				sel, ok := x.(*ast.SelectorExpr)
				if !ok || text(sel.X) != "types" {
					return true
				}
				name := sel.Sel.Name
				switch {
				case composite[name] != nil:
					for _, f := range composite[name] {
						seenF[f] = true
					}
				case strings.HasPrefix(name, "Is"):
					seenF[name] = true
				case name != "Basic" && name != "BasicInfo" && name != "BasicKind" && name != "TypeString" && name != "Typ":
					seenK[name] = true
				}
				return true
			})
		}
		return false
	})
	for f := range seenF {
		flags = append(flags, f)
	}
	for k := range seenK {
		kinds = append(kinds, k)
	}
	sort.Strings(flags)
	sort.Strings(kinds)
	return
}

// zeroBasicReturns: for every branch of the `case *types.Basic` of zeroValue (cases of an inner switch or ifs of a chain), the
// BasicInfo flags / basic kinds its condition mentions and the string literal it returns, in source order.
func zeroBasicReturns(fd *ast.FuncDecl) (out [][2][]string) {
	composite := map[string][]string{
		"IsNumeric":   {"IsInteger", "IsFloat", "IsComplex"},
		"IsOrdered":   {"IsInteger", "IsFloat", "IsString"},
		"IsConstType": {"IsBoolean", "IsInteger", "IsFloat", "IsComplex", "IsString"},
	}
	names := func(n ast.Node) (ns []string) {
		ast.Inspect(n, func(x ast.Node) bool {
			sel, ok := x.(*ast.SelectorExpr)
			if !ok || text(sel.X) != "types" {
				return true
			}
			nm := sel.Sel.Name
			switch {
			case composite[nm] != nil:
				ns = append(ns, composite[nm]...)
			case nm != "Basic" && nm != "BasicInfo" && nm != "BasicKind" && nm != "TypeString" && nm != "Typ":
				ns = append(ns, nm)
			}
			return true
		})
		return
	}
	ret := func(body []ast.Stmt) string {
		res := "?"
		for _, st := range body {
			ast.Inspect(st, func(x ast.Node) bool {
				if r, ok := x.(*ast.ReturnStmt); ok && res == "?" && len(r.Results) == 1 {
					if bl, ok := r.Results[0].(*ast.BasicLit); ok && bl.Kind == token.STRING {
						if v, err := strconv.Unquote(bl.Value); err == nil {
							res = v
						}
					} else {
						res = "expr:" + text(r.Results[0])
					}
				}
				return true
			})
		}
		return res
	}
	ast.Inspect(fd.Body, func(n ast.Node) bool {
		cc, ok := n.(*ast.CaseClause)
		if !ok || len(cc.List) != 1 || text(cc.List[0]) != "*types.Basic" {
			return true
		}
		for _, st := range cc.Body {
			ast.Inspect(st, func(x ast.Node) bool {
				switch b := x.(type) {
				case *ast.CaseClause:
					if len(b.List) > 0 {
						var ns []string
						for _, e := range b.List {
							ns = append(ns, names(e)...)
						}
						out = append(out, [2][]string{ns, {ret(b.Body)}})
					}
					return false
				case *ast.IfStmt:
					out = append(out, [2][]string{names(b.Cond), {ret(b.Body.List)}})
					if b.Else != nil {
						return true
					}
					return false
				}
				return true
			})
		}
		return false
	})
	return
}

func zeroKinds(fd *ast.FuncDecl) (cases [][2]string, defaultPanics bool) {
	var sw *ast.TypeSwitchStmt
	ast.Inspect(fd.Body, func(n ast.Node) bool {
		if s, ok := n.(*ast.TypeSwitchStmt); ok && sw == nil {
			sw = s
		}
		return true
	})
	if sw == nil {
		fail("zeroValue: no type switch")
	}
	for _, c := range sw.Body.List {
		cc := c.(*ast.CaseClause)
		body := ""
		for _, st := range cc.Body {
			body += text(st) + " ; "
		}
		if cc.List == nil {
			defaultPanics = strings.Contains(body, "panic(")
			continue
		}
		what := "other"
		switch {
		case strings.Contains(body, `+ "{}"`):
			what = "lit"
		case strings.Contains(body, `return "nil"`):
			what = "nil"
		case strings.Contains(body, "u.Info()"):
			what = "basic"
			if strings.Contains(body, "panic(") {
				what = "basic-partial"
			}
		}
		for _, t := range caseTypes(cc) {
			cases = append(cases, [2]string{t, what})
		}
	}
	// no default clause, but whatever falls out of the switch runs into a panic at the end of the function
	if n := len(fd.Body.List); !defaultPanics && n > 0 {
		if es, ok := fd.Body.List[n-1].(*ast.ExprStmt); ok && strings.HasPrefix(text(es.X), "panic(") {
			defaultPanics = true
		}
	}
	return
}

// callsOf: the names of the functions and methods a function's body calls (identifiers and the
// selector's method name), sorted, without duplicates.
// pkgFuncs: the functions and methods declared in the files of package internal/wire that the call facts follow
// (so that moving a stage into a helper function does not hide it).
var pkgFuncs = map[string][]*ast.FuncDecl{}

func callsOf(fd *ast.FuncDecl) []string {
	seen := map[string]bool{}
	visited := map[*ast.FuncDecl]bool{}
	var walk func(fd *ast.FuncDecl)
	walk = func(fd *ast.FuncDecl) {
		if fd == nil || fd.Body == nil || visited[fd] {
			return
		}
		visited[fd] = true
		ast.Inspect(fd.Body, func(n ast.Node) bool {
			if c, ok := n.(*ast.CallExpr); ok {
				name := ""
				switch f := c.Fun.(type) {
				case *ast.Ident:
					name = f.Name
				case *ast.SelectorExpr:
					name = f.Sel.Name
				}
				if name != "" && len(pkgFuncs[name]) > 0 {
					// only functions of the package itself are facts; library calls are not
					seen[name] = true
					for _, callee := range pkgFuncs[name] {
						walk(callee)
					}
				}
			}
			return true
		})
	}
	walk(fd)
	var out []string
	for k := range seen {
		out = append(out, k)
	}
	sort.Strings(out)
	return out
}

// uncheckedAsserts: single-value type assertions x.(T) (those that panic when they fail), per
// function, in source order.  Comma-ok assertions and type switches are not listed.
func uncheckedAsserts(f *ast.File) []string {
	var out []string
	for _, d := range f.Decls {
		fd, ok := d.(*ast.FuncDecl)
		if !ok || fd.Body == nil {
			continue
		}
		checked := map[*ast.TypeAssertExpr]bool{}
		ast.Inspect(fd.Body, func(n ast.Node) bool {
			switch n := n.(type) {
			case *ast.AssignStmt:
				if len(n.Lhs) == 2 && len(n.Rhs) == 1 {
					if ta, ok := n.Rhs[0].(*ast.TypeAssertExpr); ok {
						checked[ta] = true
					}
				}
			case *ast.ValueSpec:
				if len(n.Names) == 2 && len(n.Values) == 1 {
					if ta, ok := n.Values[0].(*ast.TypeAssertExpr); ok {
						checked[ta] = true
					}
				}
			case *ast.TypeSwitchStmt:
				ast.Inspect(n.Assign, func(m ast.Node) bool {
					if ta, ok := m.(*ast.TypeAssertExpr); ok {
						checked[ta] = true
					}
					return true
				})
			}
			return true
		})
		ast.Inspect(fd.Body, func(n ast.Node) bool {
			if ta, ok := n.(*ast.TypeAssertExpr); ok && !checked[ta] && ta.Type != nil {
				out = append(out, fd.Name.Name+": "+text(ta))
			}
			return true
		})
	}
	return out
}

func main() {
	repo := "/repo"
	out := "/verif/lean/WireV/Generated/Tables.lean"
	if len(os.Args) > 1 {
		repo = os.Args[1]
	}
	if len(os.Args) > 2 {
		out = os.Args[2]
	}
	var b bytes.Buffer
	w := func(format string, a ...interface{}) { fmt.Fprintf(&b, format, a...) }
	w("/-! GENERATED by /verif/extract from the current sources of %s — do not edit; rewritten on every run. -/\n", repo)
	w("namespace WireV.Generated\n\n")

	section(&b, "command exit statuses", "def genReturns : List (String × Nat) := []\ndef diffReturns : List (String × Nat) := []\ndef checkReturns : List (String × Nat) := []\ndef showReturns : List (String × Nat) := []\ndef genHeaderStatus : Nat := 99\ndef diffHeaderStatus : Nat := 99\n", func(w func(string, ...interface{})) {
		mainf := parse(repo + "/cmd/wire/main.go")
		for _, c := range []string{"gen", "diff", "check", "show"} {
			fd := findFunc(mainf, c+"Cmd", "Execute")
			rs := returnsOf(fd)
			var items []string
			for _, r := range rs {
				items = append(items, fmt.Sprintf("(%q, %d)", r.guard, r.status))
			}
			w("/-- returns of `%sCmd.Execute`: (guarding condition, exit status), in source order -/\n", c)
			w("def %sReturns : List (String × Nat) := [%s]\n\n", c, strings.Join(items, ", "))
		}
		w("def genHeaderStatus : Nat := %d\n", headerStatus(findFunc(mainf, "genCmd", "Execute")))
		w("def diffHeaderStatus : Nat := %d\n\n", headerStatus(findFunc(mainf, "diffCmd", "Execute")))
	})
	section(&b, "copyAST cases", "def copyCases : List (String × List String) := []\ndef copyDefaultPanics : Bool := false\ndef astNodes : List (String × List (String × String)) := []\n", func(w func(string, ...interface{})) {
		cp := parse(repo + "/internal/wire/copyast.go")
		copied, order, dp := copiedFields(findFunc(cp, "", "copyAST"))
		w("/-- `copyAST`: node kinds with a case, and the fields each case copies -/\n")
		var items []string
		for _, k := range order {
			items = append(items, fmt.Sprintf("(%q, %s)", k, lstr(copied[k])))
		}
		w("def copyCases : List (String × List String) := [\n  %s]\n", strings.Join(items, ",\n  "))
		w("def copyDefaultPanics : Bool := %v\n\n", dp)
		w("/-- go/ast node structs of the toolchain: (kind, [(field, class)]) with class child | childlist | pos | value | ignore -/\n")
		items = nil
		for _, ni := range astInventory() {
			var fs []string
			for i := range ni.fields {
				fs = append(fs, fmt.Sprintf("(%q, %q)", ni.fields[i], ni.kinds[i]))
			}
			items = append(items, fmt.Sprintf("(%q, [%s])", ni.name, strings.Join(fs, ", ")))
		}
		w("def astNodes : List (String × List (String × String)) := [\n  %s]\n\n", strings.Join(items, ",\n  "))

	})
	pf := parse(repo + "/internal/wire/parse.go")
	section(&b, "processValue whitelist", "def valueGood : List String := []\ndef valueUnaryArrowRejected : Bool := false\ndef valueCallRule : String := \"unextractable\"\ndef valueDefaultRejects : Bool := false\n", func(w func(string, ...interface{})) {
		good, ua, cs, dr := valueWhitelist(findWhitelist(pf))
		w("/-- `processValue`: node kinds accepted without further test -/\n")
		w("def valueGood : List String := %s\n", lstr(good))
		w("def valueUnaryArrowRejected : Bool := %v\n", ua)
		w("/-- how the CallExpr case decides: \"isType\" | \"signature\" | \"none\" -/\n")
		w("def valueCallRule : String := %q\n", cs)
		w("def valueDefaultRejects : Bool := %v\n\n", dr)

	})
	wf := parse(repo + "/internal/wire/wire.go")
	section(&b, "zeroValue kinds", "def zeroCases : List (String × String) := []\ndef zeroDefaultPanics : Bool := false\ndef zeroBasicFlags : List String := []\ndef zeroBasicKinds : List String := []\ndef zeroBasicReturns : List (List String × String) := []\ndef basicKinds : List (String × List String) := []\n", func(w func(string, ...interface{})) {
		var items []string
		zc, zp := zeroKinds(findFunc(wf, "", "zeroValue"))
		items = nil
		for _, c := range zc {
			items = append(items, fmt.Sprintf("(%q, %q)", c[0], c[1]))
		}
		w("/-- `zeroValue`: underlying-type kinds and what is emitted for them -/\n")
		w("def zeroCases : List (String × String) := [%s]\n", strings.Join(items, ", "))
		w("def zeroDefaultPanics : Bool := %v\n", zp)
		zf, zk := zeroBasic(findFunc(wf, "", "zeroValue"))
		w("def zeroBasicFlags : List String := %s\n", lstr(zf))
		w("def zeroBasicKinds : List String := %s\n", lstr(zk))
		items = nil
		for _, br := range zeroBasicReturns(findFunc(wf, "", "zeroValue")) {
			items = append(items, fmt.Sprintf("(%s, %q)", lstr(br[0]), br[1][0]))
		}
		w("/-- the branches of the `*types.Basic` case, in order: flags / kinds tested, literal returned -/\n")
		w("def zeroBasicReturns : List (List String × String) := [%s]\n", strings.Join(items, ", "))
		items = nil
		flagNames := []struct {
			f types.BasicInfo
			n string
		}{{types.IsBoolean, "IsBoolean"}, {types.IsInteger, "IsInteger"}, {types.IsUnsigned, "IsUnsigned"}, {types.IsFloat, "IsFloat"},
			{types.IsComplex, "IsComplex"}, {types.IsString, "IsString"}, {types.IsUntyped, "IsUntyped"}}
		kindNames := map[types.BasicKind]string{types.Bool: "Bool", types.Int: "Int", types.Int8: "Int8", types.Int16: "Int16", types.Int32: "Int32",
			types.Int64: "Int64", types.Uint: "Uint", types.Uint8: "Uint8", types.Uint16: "Uint16", types.Uint32: "Uint32", types.Uint64: "Uint64",
			types.Uintptr: "Uintptr", types.Float32: "Float32", types.Float64: "Float64", types.Complex64: "Complex64", types.Complex128: "Complex128",
			types.String: "String", types.UnsafePointer: "UnsafePointer"}
		for k := types.Bool; k <= types.UnsafePointer; k++ {
			bt := types.Typ[k]
			var fl []string
			for _, fn := range flagNames {
				if bt.Info()&fn.f != 0 {
					fl = append(fl, fn.n)
				}
			}
			items = append(items, fmt.Sprintf("(%q, %s)", kindNames[k], lstr(fl)))
		}
		w("/-- the typed basic kinds of go/types with their BasicInfo flags -/\n")
		w("def basicKinds : List (String × List String) := [%s]\n\n", strings.Join(items, ", "))

	})
	for _, f := range []*ast.File{pf, wf, parse(repo + "/internal/wire/analyze.go")} {
		for _, d := range f.Decls {
			if fd, ok := d.(*ast.FuncDecl); ok {
				pkgFuncs[fd.Name.Name] = append(pkgFuncs[fd.Name.Name], fd)
			}
		}
	}
	section(&b, "call facts", "def loadCalls : List String := []\ndef injectCalls : List String := []\ndef generateInjectorsCalls : List String := []\ndef processNewSetCalls : List String := []\n", func(w func(string, ...interface{})) {
		w("/-- functions called by `Load` (wire check / show), by `gen.inject` and by `generateInjectors` (wire gen) -/\n")
		w("def loadCalls : List String := %s\n", lstr(callsOf(findFunc(pf, "", "Load"))))
		w("def injectCalls : List String := %s\n", lstr(callsOf(findFunc(wf, "gen", "inject"))))
		w("def generateInjectorsCalls : List String := %s\n", lstr(callsOf(findFunc(wf, "", "generateInjectors"))))
		w("def processNewSetCalls : List String := %s\n\n", lstr(callsOf(findFunc(pf, "objectCache", "processNewSet"))))

	})
	section(&b, "unchecked assertions", "def uncheckedAssertsParse : List String := []\ndef uncheckedAssertsWire : List String := []\ndef uncheckedAssertsAnalyze : List String := []\n", func(w func(string, ...interface{})) {
		w("/-- single-value type assertions (they panic on failure) in the front end and the generator, per function -/\n")
		w("def uncheckedAssertsParse : List String := %s\n", lstr(uncheckedAsserts(pf)))
		w("def uncheckedAssertsWire : List String := %s\n", lstr(uncheckedAsserts(wf)))
		w("def uncheckedAssertsAnalyze : List String := %s\n\n", lstr(uncheckedAsserts(parse(repo+"/internal/wire/analyze.go"))))

	})
	var kws []string
	for t := token.BREAK; t <= token.VAR; t++ {
		if t.IsKeyword() {
			kws = append(kws, t.String())
		}
	}
	sort.Strings(kws)
	w("/-- go/token keywords -/\ndef goKeywords : List String := %s\n\n", lstr(kws))
	un := types.Universe.Names()
	sort.Strings(un)
	w("/-- names of the go/types universe scope -/\ndef universeNames : List String := %s\n\n", lstr(un))
	w("/-- groups of definitions that could not be read off the sources in this run (placeholders above) -/\ndef brokenTables : List String := %s\n\n", lstr(broken))
	w("end WireV.Generated\n")
	old, _ := os.ReadFile(out)
	if !bytes.Equal(old, b.Bytes()) {
		if err := os.WriteFile(out, b.Bytes(), 0o644); err != nil {
			fail("%v", err)
		}
	}
}
