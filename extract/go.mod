module extract

go 1.21
