import WireP.Acyc.Total
import WireP.SolveS.SolveBig
import WireP.SolveS.Cleanup
