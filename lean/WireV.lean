import WireV.Basic
import WireV.PMap
import WireV.Acyclic
import WireV.Solve
import WireV.Sets
import WireV.Driver
import WireV.Emit
import WireV.Sig
