import WireV.Sets
import WireV.Emit
import WireV.Sig
import WireV.Names
import WireV.NameEmit
import WireV.Front
import WireV.Path
import WireV.Value
import WireV.Show
import WireV.Cmd
import WireV.Generated.Tables
import WireV.Rename
import WireV.Bind
import WireV.Access
import WireV.Nameable
/-! # WireV.Driver — line protocol of the unit tier (one request per line, one reply per line) -/
namespace WireV

/-- a reader over a list of naturals -/
abbrev P := StateT (List Nat) Option

def pNat : P Nat := do
  match (← get) with
  | [] => failure
  | x :: xs => set xs; pure x

def pBool : P Bool := do return (← pNat) != 0

def pMany {α : Type} (p : P α) : P (List α) := do
  let n ← pNat
  let mut out : List α := []
  for _ in [0:n] do
    out := out ++ [← p]
  return out

def pProv : P Prov := do
  let id ← pNat
  let args ← pMany pNat
  let outs ← pMany pNat
  let isStruct ← pBool
  let varargs ← pBool
  let hasCleanup ← pBool
  let hasErr ← pBool
  return { id, args, outs, isStruct, varargs, hasCleanup, hasErr }

def pVal : P Val := do return { id := ← pNat, out := ← pNat }
def pFld : P Fld := do return { id := ← pNat, parent := ← pNat, outs := ← pMany pNat }
def pBnd : P Bnd := do return { id := ← pNat, iface := ← pNat, provided := ← pNat }

def pSet : P SetDef := do
  let id ← pNat
  let hasArgs ← pBool
  let args ← if hasArgs then (some <$> pMany pNat) else pure none
  let imports ← pMany pNat
  let provs ← pMany pProv
  let vals ← pMany pVal
  let flds ← pMany pFld
  let bnds ← pMany pBnd
  return { id, args, imports, provs, vals, flds, bnds }

def joinWith (sep : String) (l : List String) : String := sep.intercalate l

def natsStr (l : List Nat) : String := joinWith "," (l.map toString)

def Err.str : Err → String
  | .multi t => s!"multi:{t}"
  | .bindMissing i p => s!"bindmissing:{i}:{p}"
  | .cycle tr => s!"cycle:{natsStr tr}"
  | .noProvider t up => s!"noprov:{t}:{natsStr up}"
  | .unusedSet i => s!"unusedset:{i}"
  | .unusedProv i => s!"unusedprov:{i}"
  | .unusedVal i => s!"unusedval:{i}"
  | .unusedBnd i => s!"unusedbnd:{i}"
  | .unusedFld i => s!"unusedfld:{i}"
  | .importFailed i => s!"importfailed:{i}"

def sortStrs (l : List String) : List String := (l.toArray.qsort (· < ·)).toList

def errsStr (es : List Err) : String := joinWith " " (sortStrs (es.map Err.str))

def Payload.str : Payload → String
  | .arg i => s!"arg:{i}"
  | .prov p => s!"prov:{p.id}"
  | .val v => s!"val:{v.id}"
  | .fld f => s!"fld:{f.id}"

def SrcId.str : SrcId → String
  | .arg i => s!"arg:{i}"
  | .imp i => s!"imp:{i}"
  | .prov i => s!"prov:{i}"
  | .val i => s!"val:{i}"
  | .fld i => s!"fld:{i}"
  | .bnd i => s!"bnd:{i}"

def pad (n : Nat) : String := let s := toString n; "".pushn '0' (6 - s.length) ++ s

def SetRes.str : SetRes → String
  | .err es => "err " ++ errsStr es
  | .ok pm sm =>
    let ents := pm.map (fun kv =>
      let src := match look kv.1 sm with | some s => s.str | none => "nosrc"
      s!"{pad kv.1}:{kv.2.t}:{kv.2.src.str}:{src}")
    joinWith " " ("ok" :: sortStrs ents)

def b2s (b : Bool) : String := if b then "1" else "0"

def CallKind.str : CallKind → String
  | .func => "func" | .struct => "struct" | .value => "value" | .field => "field"

def Call.str (c : Call) : String :=
  s!"{c.kind.str}:{c.out}:{c.srcId}:[{natsStr c.args}]:[{natsStr c.ins}]:{b2s c.varargs}{b2s c.hasCleanup}{b2s c.hasErr}{b2s c.ptrToField}"

def SolveOut.str : SolveOut → String
  | .ok cs => joinWith " " ("ok" :: cs.map Call.str)
  | .errs es => "err " ++ errsStr es
  | .stuck => "stuck"

/-- `sets`/`plan` request: order, sets, [out] -/
def runPlanner (isPlan : Bool) (toks : List Nat) : String :=
  let r : Option (String × List Nat) := (do
    let order ← pMany pNat
    let sets ← pMany pSet
    if isPlan then
      let out ← pNat
      return (planLast order sets out).str
    else
      let done := procSets order sets
      return joinWith " | " (done.map (fun (ir : Nat × SetRes) => s!"set {ir.1} {ir.2.str}"))).run toks
  match r with
  | some (s, []) => s
  | some (_, _) => "bad-request trailing"
  | none => "bad-request"

def posSrc (calls : List Call) (p : Nat) : Nat := match calls[p]? with | some c => c.srcId | none => 999999

def sigErrStr (calls : List Call) (e : Nat × Bool) : String :=
  let t := match calls[e.1]? with | some c => c.out | none => 999999
  if e.2 then s!"needcleanup:{t}" else s!"neederr:{t}"

def Ev.str (calls : List Call) : Ev → String
  | .call p => s!"call:{posSrc calls p}"
  | .cleanup p => s!"cleanup:{posSrc calls p}"

/-- `emit`/`run` request: sigCleanup sigErr [nfails ids…] then a plan request -/
def runEmit (isRun : Bool) (toks : List Nat) : String :=
  let r : Option (String × List Nat) := (do
    let sc ← pBool
    let se ← pBool
    let failIds ← if isRun then pMany pNat else pure []
    let order ← pMany pNat
    let sets ← pMany pSet
    let out ← pNat
    match planLast order sets out with
    | .ok calls =>
      let ses := sigErrors sc se calls
      if ses ≠ [] then
        return "err " ++ joinWith " " (sortStrs (ses.map (sigErrStr calls)))
      else if isRun then
        let fails := fun p => failIds.contains (posSrc calls p) && (match calls[p]? with | some c => c.hasErr | none => false)
        let (evs, oc) := runInj fails sc se calls
        let ocs := match oc with
          | .failed p nc => s!"failed:{posSrc calls p}:{b2s nc}"
          | .ok none => "ok:noclosure"
          | .ok (some _) => "ok:closure"
        return joinWith " " (["run"] ++ evs.map (Ev.str calls) ++ [ocs] ++ ["|"] ++ (runClosure oc).map (Ev.str calls))
      else
        let e := emitInj sc se calls
        let ebs := e.steps.filterMap (fun (st : EStep) => st.errBranch.map (fun (eb : ErrBranch) =>
          s!"eb:{st.pos}:[{natsStr eb.cleanups}]:{b2s eb.nilCleanup}"))
        let cl := match e.closure with | some l => s!"closure:[{natsStr l}]" | none => "closure:none"
        return joinWith " " (["ok"] ++ ebs ++ [cl, s!"retnil:{b2s e.retNilErr}"])
    | other => return other.str).run toks
  match r with
  | some (s, []) => s
  | some (_, _) => "bad-request trailing"
  | none => "bad-request"

def rkindOf : Nat → RKind
  | 1 => .error
  | 2 => .cleanup
  | _ => .other

def runSig (toks : List Nat) : String :=
  match funcOutput (toks.map rkindOf) with
  | .ok o => s!"ok {b2s o.cleanup}{b2s o.err}"
  | .error .noReturn => "err noreturn"
  | .error .second => "err second"
  | .error .third => "err third"
  | .error .tooMany => "err toomany"

def runDup (toks : List Nat) : String :=
  match dupParam toks with
  | none => "ok"
  | some t => s!"err dup:{t}"

/-- string tokens are written `=text` (so that the empty string is representable) -/
def unEq (w : String) : String := (w.drop 1).toString

def nameFuel (taken : List String) : Nat := taken.length + 40

def runNames (op : String) (ws : List String) : String :=
  let out := fun (r : Option String) => match r with | some s => "=" ++ s | none => "fuel-exhausted"
  match op, ws with
  | "disamb", name :: taken =>
    let tk := taken.map unEq
    out (disambiguate (nameFuel tk) (unEq name) (fun n => tk.contains n))
  | "export", [s] => "=" ++ exportName (unEq s)
  | "unexport", [s] => "=" ++ unexportName (unEq s)
  | "tvn", kind :: a :: b :: dflt :: tr :: taken =>
    let tk := taken.map unEq
    let shape := match kind with
      | "b" => TyShape.basic (unEq a)
      | "n" => TyShape.named (unEq a) none
      | "np" => TyShape.named (unEq a) (some (unEq b))
      | _ => TyShape.other
    let tf := if tr == "v" then valueVarTransform else unexportName
    out (typeVariableName (nameFuel tk) shape (unEq dflt) tf (fun n => tk.contains n))
  | _, _ => "bad-request"

/-- shape token: `b:=name` | `n:=obj` | `np:=obj:=pkg` | `o` -/
def parseShape (w : String) : TyShape :=
  match w.splitOn ":" with
  | ["b", a] => .basic (unEq a)
  | ["n", a] => .named (unEq a) none
  | ["np", a, b] => .named (unEq a) (some (unEq b))
  | _ => .other

/-- `namefile` request: `scope =n… ; EV …` where events are
    `Q =pkgName =path` | `V shape` | `I np (=name shape)… ns (shape isFunc hasCleanup)…`, separated by `;`.
    One reply token group per event. -/
def runNameFile (ws : List String) : String :=
  let groups := (ws.foldl (fun (acc : List (List String)) w =>
      if w == ";" then acc ++ [[]] else
      match acc.getLast? with
      | some g => acc.dropLast ++ [g ++ [w]]
      | none => [[w]]) [[]])
  match groups with
  | [] => "bad-request"
  | scope :: evs =>
    let fileScope := (scope.drop 1).map unEq
    let total := fileScope.length + 2 * ws.length + 60
    let step := fun (st : NameEnv × List String) (ev : List String) =>
      let (e, out) := st
      match ev with
      | ["Q", nm, path] =>
        match qualifyImport total e (unEq nm) (unEq path) with
        | some (r, e') => (e', out ++ ["Q=" ++ r])
        | none => (e, out ++ ["Q!fuel"])
      | ["V", sh] =>
        match valueVarName total e (parseShape sh) with
        | some (r, e') => (e', out ++ ["V=" ++ r])
        | none => (e, out ++ ["V!fuel"])
      | "I" :: np :: rest =>
        let n := np.toNat!
        let ptoks := rest.take (2 * n)
        let stoks := (rest.drop (2 * n)).drop 1
        let rec mkP : List String → List ParamInfo
          | a :: b :: t => { name := unEq a, shape := parseShape b } :: mkP t
          | _ => []
        let rec mkS : List String → List StepInfo
          | a :: b :: c :: t => { shape := parseShape a, isFunc := b == "1", hasCleanup := c == "1" } :: mkS t
          | _ => []
        match nameInjector total e (mkP ptoks) (mkS stoks) with
        | some ig => (e, out ++ [s!"I err={ig.errVar} params={",".intercalate ig.params} locals={",".intercalate ig.locals} cleanups={",".intercalate ig.cleanups}"])
        | none => (e, out ++ ["I!fuel"])
      | _ => (e, out ++ ["bad-event"])
    let (_, out) := evs.foldl step ({ fileScope := fileScope, imports := [], values := [] }, [])
    joinWith " ; " out

def pPkgOut : P PkgOut := do
  return { outPath := ← pNat, errs := ← pBool, content := ← pNat }

def pLoad : P LoadRes := do
  let ok ← pBool
  if ok then return .ok (← pMany pPkgOut) else return .loadErr

def fsStr (fs : FS) : String :=
  joinWith "," (sortStrs (fs.map (fun kv => s!"{pad kv.1}={kv.2}")))

def pFS : P FS := pMany (do return (← pNat, ← pNat))

def pOp : P Op := do
  match (← pNat) with
  | 0 => return .switch (← pNat)
  | 1 => return .gen
  | 2 => return .diff
  | 3 => return .delete (← pNat)
  | _ => return .clobber (← pNat) (← pNat)

/-- `cmd gen|diff headerOk load nUnwritable paths… fs` -/
def runCmd (toks : List Nat) : String :=
  let r : Option (String × List Nat) := (do
    let isDiff ← pBool
    let headerOk ← pBool
    let load ← pLoad
    let unw ← pMany pNat
    let fs ← pFS
    if isDiff then
      return s!"exit {diffExec Generated.diffHeaderStatus headerOk load fs} fs {fsStr fs}"
    else
      let hdr := if headerOk then (genExec true load (fun p => !unw.contains p) fs) else (fs, Generated.genHeaderStatus)
      return s!"exit {hdr.2} fs {fsStr hdr.1}").run toks
  match r with
  | some (s, []) => s
  | _ => "bad-request"

/-- `hist nvariants load… variant fs nops op…` -/
def runHist (toks : List Nat) : String :=
  let r : Option (String × List Nat) := (do
    let loads ← pMany pLoad
    let v0 ← pNat
    let fs ← pFS
    let ops ← pMany pOp
    let A : Nat → LoadRes := fun v => (loads[v]?).getD LoadRes.loadErr
    let (s, exits) := runH A Generated.diffHeaderStatus { fs := fs, variant := v0 } ops
    let es := exits.map (fun (e : Option Nat) => match e with | some n => toString n | none => "-")
    return s!"exits {joinWith "," es} fs {fsStr s.fs}").run toks
  match r with
  | some (s, []) => s
  | _ => "bad-request"

/-- `fields struct|fieldsof nf (=name ty prevented)… args…` where an arg is `=text` (string literal) or `?` -/
def runFields (ws : List String) : String :=
  match ws with
  | mode :: nfs :: rest =>
    let nf := nfs.toNat!
    let ftoks := rest.take (4 * nf)
    let atoks := rest.drop (4 * nf)
    let rec mkF : List String → List FieldDecl
      | a :: b :: c :: d :: t => { name := unEq a, ty := b.toNat!, prevented := c == "1", hidden := d == "1" } :: mkF t
      | _ => []
    let fs := mkF ftoks
    let args := atoks.map (fun w => if w == "?" then FieldArg.other else FieldArg.str (unEq w))
    let r := if mode == "struct" then structProviderArgs fs args else fieldsOfArgs fs args
    match r with
    | .ok sel => joinWith " " ("ok" :: sel.map (fun f => s!"{f.name}:{f.ty}"))
    | .error .notString => "err notstring"
    | .error (.notField _) => "err notfield"
    | .error (.prevented _) => "err prevented"
    | .error (.dup t) => s!"err dup:{t}"
    | .error .tooMany => "err toomany"
    | .error (.hidden _) => "err hidden"
  | _ => "bad-request"


/-! `bind mode usePtr #named (#m (name sig ptr)… #e (id ptr)…)… #iface (#m (name sig)…)… #args (depth kind id)…` -/
def pBTy : P BTy := do
  let d ← pNat
  let k ← pNat
  let id ← pNat
  let base : BTy := match k with | 0 => .named id | 1 => .iface id | 2 => .basic | _ => .untypedNil
  return (List.range d).foldl (fun t _ => BTy.ptr t) base

def btyStr : BTy → String
  | .named c => s!"n{c}"
  | .iface i => s!"i{i}"
  | .ptr t => "p" ++ btyStr t
  | .basic => "b"
  | .untypedNil => "nil"

def runBind (ns : List Nat) : String :=
  let p : P String := do
    let mode ← pNat
    let usePtr ← pBool
    let named ← pMany (do
      let ms ← pMany (do return ({ name := ← pNat, sig := ← pNat, ptrRecv := ← pBool } : BMethod))
      let es ← pMany (do return ((← pNat), (← pBool)))
      return (ms, es))
    let ifs ← pMany (pMany (do return ((← pNat), (← pNat))))
    let args ← pMany pBTy
    let env : BEnv := { meths := fun c => (named.getD c ([], [])).1, embeds := fun c => (named.getD c ([], [])).2,
                        imeths := fun i => ifs.getD i [] }
    let r := if mode == 0 then processBind env usePtr args else processIValue env args
    return match r with
      | .ok (i, p) => s!"ok {btyStr i} {btyStr p}"
      | .error .argCount => "err argcount"
      | .error .notIfacePtr => "err notifaceptr"
      | .error .notPtr => "err notptr"
      | .error .self => "err self"
      | .error .notImpl => "err notimpl"
      | .error .untypedNil => "err nil"
  match p.run ns with
  | some (s, []) => s
  | _ => "bad-request"


/-! `access want #nodes (0 name exported scope pkg importable | 1 #fields (name exported pkg)…)…` -/
def pANode : P ANode := do
  let tag ← pNat
  if tag == 0 then
    let name ← pNat
    let exported ← pBool
    let sc ← pNat
    let pkg ← pNat
    let importable ← pBool
    let scope : AScope := match sc with | 0 => .noPkg | 1 => .pkgName | 2 => .pkgScope | 3 => .local | _ => .member
    return .ident { name, exported, scope, pkg, importable }
  else
    let fs ← pMany (do return ({ name := ← pNat, exported := ← pBool, pkg := ← pNat } : AField))
    return .lit fs

def runAccess (ns : List Nat) : String :=
  let p : P String := do
    let want ← pNat
    let nodes ← pMany pANode
    return match accessibleFrom want nodes with
      | none => "ok"
      | some (.unexported n) => s!"err unexported {n}"
      | some (.internal n) => s!"err internal {n}"
      | some (.notPkgScope n) => s!"err notpkgscope {n}"
      | some (.setsUnexported n) => s!"err setsunexported {n}"
  match p.run ns with
  | some (s, []) => s
  | _ => "bad-request"


/-! `nameable want <type>` with `<type>` = `0 id pkg exported #args <type>…` | `1 #kids <type>…` | `2` -/
partial def pUTy : P UTy := do
  let tag ← pNat
  match tag with
  | 0 =>
    let id ← pNat
    let pkg ← pNat
    let exported ← pBool
    let args ← pMany pUTy
    return .named id pkg exported args
  | 1 => return .comp (← pMany pUTy)
  | _ => return .leaf

def runNameable (ns : List Nat) : String :=
  let p : P String := do
    let want ← pNat
    let t ← pUTy
    return match unnameable want t with
      | none => "ok"
      | some id => s!"err {id}"
  match p.run ns with
  | some (s, []) => s
  | _ => "bad-request"

/-- `rename nfs =name… nocc (=name obj|- flags)…`; flags: `r` renamable, `s` silent + renamable, `n` neither -/
def runRename (ws : List String) : String :=
  match ws with
  | nfs :: rest =>
    let nf := nfs.toNat!
    let fs := (rest.take nf).map unEq
    match rest.drop nf with
    | _nocc :: otoks =>
      let rec mk : List String → List Occ
        | a :: b :: c :: t =>
          { name := unEq a, obj := if b == "-" then none else some b.toNat!, renamable := c == "r" || c == "s", silent := c == "s" } :: mk t
        | _ => []
      let occs := mk otoks
      match renameOccs (fs.length + 2 * occs.length + goKeywords.length + 2) fs occs with
      | some ns => joinWith " " ("ok" :: ns.map (fun n => "=" ++ n))
      | none => "fuel"
    | _ => "bad-request"
  | _ => "bad-request"

def runPath (ws : List String) : String :=
  match ws with
  | ["unvendor", p] => "=" ++ unvendor (unEq p)
  | ["iswire", p] => b2s (isWireImport (unEq p))
  | ["importable", p, f] => b2s (importableFromTool (unEq p) (unEq f))
  | "frame" :: rest =>
    let rec mk : List String → List ImportEnt
      | a :: b :: c :: t => { path := unEq a, name := unEq b, differs := c == "1" } :: mk t
      | _ => []
    joinWith " ; " (frameImports (mk rest))
  | _ => "bad-request"

-- VExpr in prefix form: `( N kind e… )`, `( U 0|1 e )`, `( C t|s|n|b fn args… )`
mutual
partial def parseVExpr : List String → Option (VExpr × List String)
  | "(" :: "N" :: kind :: rest =>
    match parseVMany rest [] with
    | some (cs, r) => some (.node kind cs, r)
    | none => none
  | "(" :: "U" :: arrow :: rest =>
    match parseVExpr rest with
    | some (e, ")" :: r) => some (.unary (arrow == "1") e, r)
    | _ => none
  | "(" :: "C" :: fc :: rest =>
    let cls := match fc with | "t" => FunClass.typeExpr | "s" => .signature | "n" => .namedFunc | _ => .builtin
    match parseVExpr rest with
    | some (fn, r1) =>
      match parseVMany r1 [] with
      | some (args, r) => some (.call cls fn args, r)
      | none => none
    | none => none
  | _ => none
partial def parseVMany (ws : List String) (acc : List VExpr) : Option (List VExpr × List String) :=
  match ws with
  | ")" :: r => some (acc, r)
  | _ => match parseVExpr ws with
    | some (e, r) => parseVMany r (acc ++ [e])
    | none => none
end

def runValue (ws : List String) : String :=
  match parseVExpr ws with
  | some (e, []) => s!"{b2s (processValueOk e)} evaluates={b2s (evaluatesCall e)} funclit={b2s (hasFuncLit e)}"
  | _ => "bad-request"

/-- `gather <order> <sets> nkeys keys…`: the last set's map, keys in the given iteration order -/
def runGather (toks : List Nat) : String :=
  let r : Option (String × List Nat) := (do
    let order ← pMany pNat
    let sets ← pMany pSet
    let keys ← pMany pNat
    match (procSets order sets).getLast? with
    | some (_, .ok pm _) =>
      let g := gather pm keys
      let strs := g.groups.map (fun (gr : Grp) =>
        natsStr ((gr.inputs.toArray.qsort (· < ·)).toList) ++ "|" ++ natsStr ((gr.outputs.toArray.qsort (· < ·)).toList))
      return joinWith " " ("groups" :: sortStrs strs)
    | _ => return "err").run toks
  match r with
  | some (s, []) => s
  | _ => "bad-request"

def parseNats (ws : List String) : Option (List Nat) := ws.mapM String.toNat?

def handleLine (line : String) : String :=
  let ws := (line.splitOn " ").filter (fun w => w ≠ "")
  match ws with
  | [] => ""
  | "sets" :: rest => match parseNats rest with
    | some ns => runPlanner false ns
    | none => "bad-request nat"
  | "plan" :: rest => match parseNats rest with
    | some ns => runPlanner true ns
    | none => "bad-request nat"
  | "cmd" :: rest => match parseNats rest with
    | some ns => runCmd ns
    | none => "bad-request nat"
  | "hist" :: rest => match parseNats rest with
    | some ns => runHist ns
    | none => "bad-request nat"
  | "value" :: rest => runValue rest
  | "path" :: rest => runPath rest
  | "fields" :: rest => runFields rest
  | "rename" :: rest => runRename rest
  | "nameable" :: rest => match parseNats rest with
    | some ns => runNameable ns
    | none => "bad-request"
  | "access" :: rest => match parseNats rest with
    | some ns => runAccess ns
    | none => "bad-request"
  | "bind" :: rest => match parseNats rest with
    | some ns => runBind ns
    | none => "bad-request"
  | "namefile" :: rest => runNameFile rest
  | "disamb" :: rest => runNames "disamb" rest
  | "export" :: rest => runNames "export" rest
  | "unexport" :: rest => runNames "unexport" rest
  | "tvn" :: rest => runNames "tvn" rest
  | "sig" :: rest => match parseNats rest with
    | some ns => runSig ns
    | none => "bad-request nat"
  | "dupparam" :: rest => match parseNats rest with
    | some ns => runDup ns
    | none => "bad-request nat"
  | "gather" :: rest => match parseNats rest with
    | some ns => runGather ns
    | none => "bad-request nat"
  | "emit" :: rest => match parseNats rest with
    | some ns => runEmit false ns
    | none => "bad-request nat"
  | "run" :: rest => match parseNats rest with
    | some ns => runEmit true ns
    | none => "bad-request nat"
  | _ => "bad-op"

end WireV
