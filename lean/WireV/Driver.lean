import WireV.Sets
/-! # WireV.Driver — line protocol of the unit tier (one request per line, one reply per line) -/
namespace WireV

/-- a reader over a list of naturals -/
abbrev P := StateT (List Nat) Option

def pNat : P Nat := do
  match (← get) with
  | [] => failure
  | x :: xs => set xs; pure x

def pBool : P Bool := do return (← pNat) != 0

def pMany {α : Type} (p : P α) : P (List α) := do
  let n ← pNat
  let mut out : List α := []
  for _ in [0:n] do
    out := out ++ [← p]
  return out

def pProv : P Prov := do
  let id ← pNat
  let args ← pMany pNat
  let outs ← pMany pNat
  let isStruct ← pBool
  let varargs ← pBool
  let hasCleanup ← pBool
  let hasErr ← pBool
  return { id, args, outs, isStruct, varargs, hasCleanup, hasErr }

def pVal : P Val := do return { id := ← pNat, out := ← pNat }
def pFld : P Fld := do return { id := ← pNat, parent := ← pNat, outs := ← pMany pNat }
def pBnd : P Bnd := do return { id := ← pNat, iface := ← pNat, provided := ← pNat }

def pSet : P SetDef := do
  let id ← pNat
  let hasArgs ← pBool
  let args ← if hasArgs then (some <$> pMany pNat) else pure none
  let imports ← pMany pNat
  let provs ← pMany pProv
  let vals ← pMany pVal
  let flds ← pMany pFld
  let bnds ← pMany pBnd
  return { id, args, imports, provs, vals, flds, bnds }

def joinWith (sep : String) (l : List String) : String := sep.intercalate l

def natsStr (l : List Nat) : String := joinWith "," (l.map toString)

def Err.str : Err → String
  | .multi t => s!"multi:{t}"
  | .bindMissing i p => s!"bindmissing:{i}:{p}"
  | .cycle tr => s!"cycle:{natsStr tr}"
  | .noProvider t up => s!"noprov:{t}:{natsStr up}"
  | .unusedSet i => s!"unusedset:{i}"
  | .unusedProv i => s!"unusedprov:{i}"
  | .unusedVal i => s!"unusedval:{i}"
  | .unusedBnd i => s!"unusedbnd:{i}"
  | .unusedFld i => s!"unusedfld:{i}"
  | .importFailed i => s!"importfailed:{i}"

def sortStrs (l : List String) : List String := (l.toArray.qsort (· < ·)).toList

def errsStr (es : List Err) : String := joinWith " " (sortStrs (es.map Err.str))

def Payload.str : Payload → String
  | .arg i => s!"arg:{i}"
  | .prov p => s!"prov:{p.id}"
  | .val v => s!"val:{v.id}"
  | .fld f => s!"fld:{f.id}"

def SrcId.str : SrcId → String
  | .arg i => s!"arg:{i}"
  | .imp i => s!"imp:{i}"
  | .prov i => s!"prov:{i}"
  | .val i => s!"val:{i}"
  | .fld i => s!"fld:{i}"
  | .bnd i => s!"bnd:{i}"

def pad (n : Nat) : String := let s := toString n; "".pushn '0' (6 - s.length) ++ s

def SetRes.str : SetRes → String
  | .err es => "err " ++ errsStr es
  | .ok pm sm =>
    let ents := pm.map (fun kv =>
      let src := match look kv.1 sm with | some s => s.str | none => "nosrc"
      s!"{pad kv.1}:{kv.2.t}:{kv.2.src.str}:{src}")
    joinWith " " ("ok" :: sortStrs ents)

def b2s (b : Bool) : String := if b then "1" else "0"

def CallKind.str : CallKind → String
  | .func => "func" | .struct => "struct" | .value => "value" | .field => "field"

def Call.str (c : Call) : String :=
  s!"{c.kind.str}:{c.out}:{c.srcId}:[{natsStr c.args}]:[{natsStr c.ins}]:{b2s c.varargs}{b2s c.hasCleanup}{b2s c.hasErr}{b2s c.ptrToField}"

def SolveOut.str : SolveOut → String
  | .ok cs => joinWith " " ("ok" :: cs.map Call.str)
  | .errs es => "err " ++ errsStr es
  | .stuck => "stuck"

/-- `sets`/`plan` request: order, sets, [out] -/
def runPlanner (isPlan : Bool) (toks : List Nat) : String :=
  let r : Option (String × List Nat) := (do
    let order ← pMany pNat
    let sets ← pMany pSet
    if isPlan then
      let out ← pNat
      return (planLast order sets out).str
    else
      let done := procSets order sets
      return joinWith " | " (done.map (fun (ir : Nat × SetRes) => s!"set {ir.1} {ir.2.str}"))).run toks
  match r with
  | some (s, []) => s
  | some (_, _) => "bad-request trailing"
  | none => "bad-request"

def parseNats (ws : List String) : Option (List Nat) := ws.mapM String.toNat?

def handleLine (line : String) : String :=
  let ws := (line.splitOn " ").filter (fun w => w ≠ "")
  match ws with
  | [] => ""
  | "sets" :: rest => match parseNats rest with
    | some ns => runPlanner false ns
    | none => "bad-request nat"
  | "plan" :: rest => match parseNats rest with
    | some ns => runPlanner true ns
    | none => "bad-request nat"
  | _ => "bad-op"

end WireV
