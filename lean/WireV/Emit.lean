import WireV.Solve
/-! # WireV.Emit — the control structure `injectPass` / `funcProviderCall` emit (wire.go), by position,
and its execution under a fault plan

Names are positions here (step `k` of the call list defines local `k`, its cleanup variable and
its use of the error variable); the naming layer is `WireV.Names`.  A step that is not a provider
function call (struct literal, value reference, field selection) has no cleanup, cannot fail and
produces no event. -/
namespace WireV

/-- the `if err != nil { … }` block after an error-returning provider call -/
structure ErrBranch where
  cleanups : List Nat        -- positions whose cleanup variables are invoked, in emitted order
  nilCleanup : Bool          -- `, nil` for the cleanup result
  deriving Repr, DecidableEq, Inhabited

structure EStep where
  pos : Nat
  call : Call
  errBranch : Option ErrBranch
  deriving Repr, Inhabited

structure EInj where
  steps : List EStep
  closure : Option (List Nat)   -- body of the returned cleanup function, if the injector has one
  retNilErr : Bool              -- `, nil` for the error result
  deriving Repr, Inhabited

/-- `funcProviderCall`: `prevCleanup := len(cleanupNames)` is taken *before* the provider's own
    cleanup variable is appended; the branch runs `cleanupNames[prevCleanup-1 .. 0]`. -/
def emitFrom (sigCleanup : Bool) (pos : Nat) (acq : List Nat) : List Call → List EStep × List Nat
  | [] => ([], acq)
  | c :: cs =>
    let isFn := c.kind == CallKind.func
    let acq' := if isFn && c.hasCleanup then acq ++ [pos] else acq
    let eb := if isFn && c.hasErr then some { cleanups := acq.reverse, nilCleanup := sigCleanup : ErrBranch } else none
    let r := emitFrom sigCleanup (pos + 1) acq' cs
    ({ pos := pos, call := c, errBranch := eb } :: r.1, r.2)

/-- `injectPass` -/
def emitInj (sigCleanup sigErr : Bool) (calls : List Call) : EInj :=
  let r := emitFrom sigCleanup 0 [] calls
  { steps := r.1, closure := if sigCleanup then some r.2.reverse else none, retNilErr := sigErr }

/-- `inject`'s signature test: every planned call's cleanup / error must be declared by the injector -/
def sigErrors (sigCleanup sigErr : Bool) (calls : List Call) : List (Nat × Bool) :=
  calls.zipIdx.flatMap (fun (ci : Call × Nat) =>
    (if ci.1.hasCleanup && !sigCleanup then [(ci.2, true)] else []) ++
    (if ci.1.hasErr && !sigErr then [(ci.2, false)] else []))

inductive Ev
  | call (pos : Nat)
  | cleanup (pos : Nat)
  deriving DecidableEq, Repr, Inhabited

inductive Outcome
  | failed (pos : Nat) (nilCleanup : Bool)   -- returned (zero, [nil,] the error of step `pos`)
  | ok (closure : Option (List Nat))         -- returned (value, [closure,] [nil])
  deriving DecidableEq, Repr, Inhabited

/-- run the emitted steps; `fails pos` says whether the provider called at step `pos` returns a
    non-nil error -/
def exec (fails : Nat → Bool) (closure : Option (List Nat)) : List EStep → List Ev × Outcome
  | [] => ([], Outcome.ok closure)
  | s :: ss =>
    let evs := if s.call.kind == CallKind.func then [Ev.call s.pos] else []
    match s.errBranch with
    | some eb =>
      if fails s.pos then (evs ++ eb.cleanups.map Ev.cleanup, Outcome.failed s.pos eb.nilCleanup)
      else let r := exec fails closure ss; (evs ++ r.1, r.2)
    | none => let r := exec fails closure ss; (evs ++ r.1, r.2)

def runInj (fails : Nat → Bool) (sigCleanup sigErr : Bool) (calls : List Call) : List Ev × Outcome :=
  let e := emitInj sigCleanup sigErr calls
  exec fails e.closure e.steps

/-- invoking the returned closure -/
def runClosure : Outcome → List Ev
  | .ok (some cl) => cl.map Ev.cleanup
  | _ => []

end WireV
