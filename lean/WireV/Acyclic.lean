import WireV.Basic
/-! # WireV.Acyclic — `verifyAcyclic` (analyze.go) as an explicit stack machine

A trail is kept head-first (Go keeps the head last); the stack's top is the list head.
The outer loop over the sorted roots is folded into the initial stack: one singleton trail per
root, first root on top (processing a root only touches the entries above the remaining roots).
-/
namespace WireV

/-- the edges `verifyAcyclic` follows out of a key of the provider map -/
def succOf (pm : PMap) (t : Ty) : List Ty :=
  match look t pm with
  | some ⟨_, .prov p⟩ => p.args
  | some ⟨_, .fld f⟩ => [f.parent]
  | _ => []

/-- the trail printed by a cycle error, in Go's order: from the first occurrence of `a` to the
    head, then `a` again -/
def cycleOf (trail : List Ty) (a : Ty) : List Ty :=
  (trail.reverse.dropWhile (fun b => b != a)) ++ [a]

structure AcSt where
  visited : List Ty
  stk : List (List Ty)
  errs : List (List Ty)
deriving Repr, Inhabited

def acStep (succ : Ty → List Ty) (s : AcSt) : Option AcSt :=
  match s.stk with
  | [] => none
  | [] :: rest => some { s with stk := rest }
  | (h :: t) :: rest =>
    if h ∈ s.visited then some { s with stk := rest }
    else
      let trail := h :: t
      let back := (succ h).filter (fun a => decide (a ∈ trail))
      let kids := (succ h).filter (fun a => decide (a ∉ trail))
      some { visited := h :: s.visited
             stk := (kids.map (fun a => a :: trail)).reverse ++ rest
             errs := s.errs ++ back.map (cycleOf trail) }

def acIter (succ : Ty → List Ty) : Nat → AcSt → AcSt
  | 0, s => s
  | n + 1, s => match acStep succ s with
    | none => s
    | some s' => acIter succ n s'

def acInit (roots : List Ty) : AcSt := ⟨[], roots.map (fun r => [r]), []⟩

/-- Fuel: one pop per pushed trail; a trail is pushed per root and per out-edge of an expanded
    key, and a key is expanded at most once.  `WireP.Props.C07.va_terminates` proves that this is
    enough for every map and root list (so the analysis is linear in |V|+|E|). -/
def acFuel (pm : PMap) (roots : List Ty) : Nat :=
  roots.length + (pm.map (fun kv => (succOf pm kv.1).length)).sum

def verifyAcyclic (pm : PMap) (roots : List Ty) : AcSt :=
  acIter (succOf pm) (acFuel pm roots) (acInit roots)

end WireV
