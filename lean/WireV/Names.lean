import WireV.Basic
/-! # WireV.Names — `disambiguate`, `typeVariableName`, `export`, `unexport` (wire.go)

Strings are ASCII here (the harness only sends ASCII identifiers); `unicode.IsUpper/IsLower/
ToLower/ToUpper` are modelled by their ASCII restriction.  The freshness theorems do not depend on
the transform, so they hold for all names. -/
namespace WireV

/-- `go/token` keywords (regenerated copy: `WireV.Generated.Tables.goKeywords`, compared in `WireP`) -/
def goKeywords : List String :=
  ["break", "case", "chan", "const", "continue", "default", "defer", "else", "fallthrough", "for",
   "func", "go", "goto", "if", "import", "interface", "map", "package", "range", "return", "select",
   "struct", "switch", "type", "var"]

def isKeyword (s : String) : Bool := goKeywords.contains s

def endsInDigit (s : String) : Bool :=
  match s.toList.getLast? with
  | some c => c.isDigit
  | none => false

/-- the loop `for n := 2; ; n++` of `disambiguate`, with explicit fuel -/
def disambLoop (collides : String → Bool) (base : String) : Nat → Nat → Option String
  | 0, _ => none
  | fuel + 1, n =>
    let cand := base ++ toString n
    if !isKeyword cand && !collides cand then some cand
    else disambLoop collides base fuel (n + 1)

/-- `disambiguate(name, collides)`; `none` only if the fuel runs out (never for a finite taken
    set and `fuel > |taken| + 1`: `WireP.Props.C14`) -/
def disambiguate (fuel : Nat) (name : String) (collides : String → Bool) : Option String :=
  if !isKeyword name && !collides name then some name
  else
    let base := if endsInDigit name then name ++ "_" else name
    disambLoop collides base fuel 2

def upperFirst (s : String) : String :=
  match s.toList with
  | [] => ""
  | c :: rest => String.ofList (c.toUpper :: rest)

/-- `export` -/
def exportName (s : String) : String :=
  match s.toList with
  | [] => ""
  | c :: rest => if c.isUpper then s else String.ofList (c.toUpper :: rest)

/-- the loop of `unexport` after the first two (upper-case) runes -/
def lowerRun : List Char → List Char
  | [] => []
  | c :: rest =>
    if c.isUpper then
      match rest with
      | d :: _ => if d.isLower then c :: rest else c.toLower :: lowerRun rest
      | [] => [c.toLower]
    else c :: rest

/-- `unexport` -/
def unexportName (s : String) : String :=
  match s.toList with
  | [] => ""
  | c :: rest =>
    if !c.isUpper then s
    else match rest with
      | [] => String.ofList [c.toLower]
      | d :: _ => if !d.isUpper then String.ofList (c.toLower :: rest)
                  else String.ofList (c.toLower :: lowerRun rest)

/-- how `typeVariableName` sees a type after stripping one pointer -/
inductive TyShape
  | basic (name : String)
  | named (obj : String) (pkgName : Option String)
  | other
deriving Repr, DecidableEq, Inhabited

def shapeNames : TyShape → List String
  | .basic n => if n ≠ "" then [n] else []
  | .named obj pkg =>
    (if obj ≠ "" then [obj] else []) ++
    (match pkg with
     | some p => if p ≠ "" then [p ++ upperFirst obj] else []
     | none => [])
  | .other => []

/-- `typeVariableName(t, defaultName, transform, collides)` -/
def typeVariableName (fuel : Nat) (shape : TyShape) (defaultName : String) (transform : String → String)
    (collides : String → Bool) : Option String :=
  let names0 := shapeNames shape
  let names := (if names0 = [] then [defaultName] else names0).map transform
  match names.find? (fun n => !isKeyword n && !collides n) with
  | some n => some n
  | none => disambiguate fuel (names.headD "") collides

def valueVarTransform (name : String) : String := "_wire" ++ exportName name ++ "Value"

end WireV
