import WireV.Names
import WireV.Solve
/-! # WireV.NameEmit — the names `injectPass` invents (second, non-discarding pass) and
`qualifyImport` / value-variable naming (wire.go)

`fileScope` is what `g.pkg.Types.Scope().LookupParent(name)` answers for: the package scope of the
injector's package (with the `wireinject` tag) and the universe. -/
namespace WireV

structure NameEnv where
  fileScope : List String
  imports : List (String × String)     -- import path ↦ identifier used in the generated file
  values : List String                 -- names of the `_wire…Value` variables so far
deriving Repr, Inhabited

def NameEnv.inFileScope (e : NameEnv) (n : String) : Bool :=
  (e.imports.map (·.2)).contains n || e.values.contains n || e.fileScope.contains n

structure InjNames where
  errVar : String
  params : List String := []
  locals : List String := []
  cleanups : List String := []
deriving Repr, Inhabited

def InjNames.inInjector (e : NameEnv) (ig : InjNames) (n : String) : Bool :=
  n == ig.errVar || ig.params.contains n || ig.locals.contains n || ig.cleanups.contains n || e.inFileScope n

def InjNames.all (ig : InjNames) : List String := ig.errVar :: (ig.params ++ ig.locals ++ ig.cleanups)

/-- what the naming needs to know about a parameter / a planned call -/
structure ParamInfo where
  name : String          -- "" or "_" when the user gave none
  shape : TyShape
deriving Repr, Inhabited

structure StepInfo where
  shape : TyShape        -- of `c.out`
  isFunc : Bool
  hasCleanup : Bool
deriving Repr, Inhabited

def nameParams (fuel : Nat) (e : NameEnv) : InjNames → List ParamInfo → Option InjNames
  | ig, [] => some ig
  | ig, p :: ps =>
    let r := if p.name == "" || p.name == "_"
      then typeVariableName fuel p.shape "arg" unexportName (ig.inInjector e)
      else disambiguate fuel p.name (ig.inInjector e)
    match r with
    | none => none
    | some a => nameParams fuel e { ig with params := ig.params ++ [a] } ps

def nameSteps (fuel : Nat) (e : NameEnv) : InjNames → List StepInfo → Option InjNames
  | ig, [] => some ig
  | ig, s :: ss =>
    match typeVariableName fuel s.shape "v" unexportName (ig.inInjector e) with
    | none => none
    | some l =>
      let ig1 := { ig with locals := ig.locals ++ [l] }
      if s.isFunc && s.hasCleanup then
        match disambiguate fuel "cleanup" (ig1.inInjector e) with
        | none => none
        | some c => nameSteps fuel e { ig1 with cleanups := ig1.cleanups ++ [c] } ss
      else nameSteps fuel e ig1 ss

/-- the binders of one generated injector, in the order `injectPass` chooses them -/
def nameInjector (fuel : Nat) (e : NameEnv) (ps : List ParamInfo) (ss : List StepInfo) : Option InjNames :=
  match disambiguate fuel "err" e.inFileScope with
  | none => none
  | some ev =>
    match nameParams fuel e { errVar := ev } ps with
    | none => none
    | some ig => nameSteps fuel e ig ss

/-- `qualifyImport(name, path)` for a package other than the injector's own, path already unvendored -/
def qualifyImport (fuel : Nat) (e : NameEnv) (pkgName path : String) : Option (String × NameEnv) :=
  match e.imports.find? (fun ip => ip.1 == path) with
  | some ip => some (ip.2, e)
  | none =>
    match disambiguate fuel pkgName (fun n => n == "err" || e.inFileScope n) with
    | none => none
    | some nm => some (nm, { e with imports := e.imports ++ [(path, nm)] })

/-- the name of the package-level variable that holds a `wire.Value` expression -/
def valueVarName (fuel : Nat) (e : NameEnv) (shape : TyShape) : Option (String × NameEnv) :=
  match typeVariableName fuel shape "" valueVarTransform e.inFileScope with
  | none => none
  | some nm => some (nm, { e with values := e.values ++ [nm] })

end WireV
