import WireV.Generated.Tables
/-! # WireV.Tables — decidable facts over the regenerated tables -/
namespace WireV
open WireV.Generated

/-- node kinds of go/ast for which `copyAST` has no case (it panics on them) -/
def copyUnhandled : List String :=
  (astNodes.map (·.1)).filter (fun k => !(copyCases.map (·.1)).contains k)

/-- (kind, field) pairs that a case of `copyAST` forgets: every child node, child list and value
    (token, literal text, flag) field of the node struct must be carried over; positions are not
    required (they do not change meaning), resolver artefacts (`Obj`, `Scope`, `Unresolved`) and
    `Incomplete` are ignored -/
def copyMissing : List (String × String) :=
  astNodes.flatMap (fun (nf : String × List (String × String)) =>
    match copyCases.find? (fun c => c.1 == nf.1) with
    | none => []
    | some c =>
      if c.2 == ["*identity*"] then [] else
      (nf.2.filter (fun fc => (fc.2 == "child" || fc.2 == "childlist" || fc.2 == "value") && !c.2.contains fc.1)).map
        (fun fc => (nf.1, fc.1)))

/-- fields a case assigns that the node struct does not have (would not compile; sanity) -/
def copyUnknown : List (String × String) :=
  copyCases.flatMap (fun (c : String × List String) =>
    match astNodes.find? (fun nf => nf.1 == c.1) with
    | none => [(c.1, "*no such node*")]
    | some nf => (c.2.filter (fun f => f != "*identity*" && !(nf.2.map (·.1)).contains f)).map (fun f => (c.1, f)))

/-- expression-level node kinds that can occur in an initialiser expression -/
def exprKinds : List String :=
  ["ArrayType", "BasicLit", "BinaryExpr", "CallExpr", "ChanType", "CompositeLit", "Ellipsis", "FuncLit", "FuncType",
   "Ident", "IndexExpr", "IndexListExpr", "InterfaceType", "KeyValueExpr", "MapType", "ParenExpr", "SelectorExpr",
   "SliceExpr", "StarExpr", "StructType", "TypeAssertExpr", "UnaryExpr"]

/-- kinds whose evaluation runs user code or blocks: a call that is not a conversion, a receive,
    and a function literal is harmless to *evaluate* but is rejected as "too complex" -/
def zeroKindsAll : List String :=
  ["Array", "Basic", "Chan", "Interface", "Map", "Pointer", "Signature", "Slice", "Struct"]

def zeroUnhandled : List String := zeroKindsAll.filter (fun k => !(zeroCases.map (·.1)).contains k)

/-- substring test on character lists -/
def infixC (needle : List Char) : List Char → Bool
  | [] => needle.isEmpty
  | c :: cs => (needle.isPrefixOf (c :: cs)) || infixC needle cs

/-- single-value type assertions of the front end / generator that target a go/ast node type: such an
    assertion panics on an unexpected (but type-correct) spelling of a marker-function argument -/
def astShapeAsserts : List String :=
  (uncheckedAssertsParse ++ uncheckedAssertsWire ++ uncheckedAssertsAnalyze).filter
    (fun s => infixC "(*ast.".toList s.toList || infixC "(ast.".toList s.toList)

end WireV
