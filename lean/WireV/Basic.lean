/-! # WireV.Basic — shared vocabulary of the model

Types are interned by the harness up to `types.Identical` and are plain naturals here; the
planner of Wire only ever compares types (through `typeutil.Map`) and prints them.
Maps are association lists; the *first* entry for a key wins (`look`), and the models only ever
insert a key that is absent, so this agrees with Go's `typeutil.Map.Set`/`At`.
-/
namespace WireV

abbrev Ty := Nat

/-- `typeutil.Map.At` on an association list -/
def look {β : Type} (t : Ty) : List (Ty × β) → Option β
  | [] => none
  | (k, v) :: l => if t = k then some v else look t l

/-- A provider function or struct provider (`*Provider`); `id` is the pointer identity. -/
structure Prov where
  id : Nat
  args : List Ty
  outs : List Ty
  isStruct : Bool := false
  varargs : Bool := false
  hasCleanup : Bool := false
  hasErr : Bool := false
deriving Repr, DecidableEq, Inhabited

/-- One field selected by `wire.FieldsOf` (`*Field`). -/
structure Fld where
  id : Nat
  parent : Ty
  outs : List Ty
deriving Repr, DecidableEq, Inhabited

/-- `*Value` -/
structure Val where
  id : Nat
  out : Ty
deriving Repr, DecidableEq, Inhabited

/-- `*IfaceBinding` -/
structure Bnd where
  id : Nat
  iface : Ty
  provided : Ty
deriving Repr, DecidableEq, Inhabited

/-- what a `ProvidedType` points to -/
inductive Payload
  | arg (i : Nat)
  | prov (p : Prov)
  | val (v : Val)
  | fld (f : Fld)
deriving Repr, DecidableEq, Inhabited

/-- Go: `ProvidedType{t, p|v|a|f}`; `t` is the concrete type (`≠` the key exactly for a binding) -/
structure PT where
  t : Ty
  src : Payload
deriving Repr, DecidableEq, Inhabited

/-- Go: `providerSetSrc`, by identity of the thing it points to -/
inductive SrcId
  | arg (i : Nat)
  | imp (setId : Nat)
  | prov (id : Nat)
  | val (id : Nat)
  | fld (id : Nat)
  | bnd (id : Nat)
deriving Repr, DecidableEq, Inhabited

abbrev PMap := List (Ty × PT)
abbrev SMap := List (Ty × SrcId)

/-- The direct contents of one `wire.NewSet` / `wire.Build` call, after the front end. -/
structure SetDef where
  id : Nat
  args : Option (List Ty)          -- injector parameters (only for wire.Build)
  imports : List Nat               -- positions of earlier sets in the list of sets
  provs : List Prov
  vals : List Val
  flds : List Fld
  bnds : List Bnd
deriving Repr, Inhabited

inductive Err
  | multi (t : Ty)                                 -- "multiple bindings for t"
  | bindMissing (iface provided : Ty)              -- "wire.Bind of concrete type … does not include a provider"
  | cycle (trail : List Ty)                        -- "cycle for a: a -> … -> a"
  | noProvider (t : Ty) (neededBy : List Ty)       -- "no provider found for t (needed by …)"
  | unusedSet (setId : Nat)
  | unusedProv (id : Nat)
  | unusedVal (id : Nat)
  | unusedBnd (id : Nat)
  | unusedFld (id : Nat)
  | importFailed (setId : Nat)                     -- an imported set is itself in error
deriving Repr, DecidableEq, Inhabited

end WireV
