import WireV.Basic
/-! # WireV.Bind — `wire.Bind` and `wire.InterfaceValue` (parse.go: processBind, processInterfaceValue,
bindShouldUsePointer) together with the part of Go's method-set rule they rely on (`types.Implements`):
own methods, value and pointer receivers, methods promoted from embedded fields one level deep, shadowing
and ambiguity.  go/types itself is not verified; the correspondence stream `bind` compares this model
with the real `processBind` / `processInterfaceValue` running on go/types objects. -/
namespace WireV

/-- a declared method: name, signature (an id: identical ids = identical signatures), receiver kind -/
structure BMethod where
  name : Nat
  sig : Nat
  ptrRecv : Bool
deriving Repr, DecidableEq, Inhabited

/-- the types the two marker functions can be handed -/
inductive BTy
  | named (id : Nat)    -- a defined struct type with methods
  | iface (id : Nat)    -- a defined interface type
  | ptr (t : BTy)
  | basic               -- `int`
  | untypedNil
deriving Repr, DecidableEq, Inhabited

structure BEnv where
  /-- methods declared on the defined type -/
  meths : Nat → List BMethod
  /-- embedded fields of the defined struct type: (defined type, embedded as pointer) -/
  embeds : Nat → List (Nat × Bool)
  /-- the (flattened) method set of a defined interface: (name, signature) -/
  imeths : Nat → List (Nat × Nat)

/-- methods reachable through one embedded field, by the addressability of the embedding:
  an embedded `E` of a value gives only `E`'s value-receiver methods; of a pointer (or an embedded `*E`)
  gives all of them -/
def promotedOf (env : BEnv) (viaPtr : Bool) (e : Nat × Bool) : List BMethod :=
  (env.meths e.1).filter (fun m => !m.ptrRecv || viaPtr || e.2)

/-- names declared by the methods of an embedded field, whatever their receiver (selector lookup finds
    them all; the receiver kind only decides whether the found method is in the method set) -/
def embedNames (env : BEnv) (e : Nat × Bool) : List Nat := (env.meths e.1).map (·.name)

/-- a promoted name is usable only if exactly one embedded field declares it (same depth: otherwise ambiguous) -/
def uniqueAmong (env : BEnv) (es : List (Nat × Bool)) (n : Nat) : Bool :=
  (es.filter (fun e => (embedNames env e).contains n)).length == 1

/-- method set of the defined type `c` (`viaPtr = false`) or of `*c` (`viaPtr = true`) -/
def methodSetNamed (env : BEnv) (c : Nat) (viaPtr : Bool) : List BMethod :=
  let own := env.meths c
  let ownNames := own.map (·.name)
  let es := env.embeds c
  own.filter (fun m => !m.ptrRecv || viaPtr)
    ++ (es.flatMap (promotedOf env viaPtr)).filter (fun m => !ownNames.contains m.name && uniqueAmong env es m.name)

/-- the method set of a type, as (name, signature) pairs -/
def methodSet (env : BEnv) : BTy → List (Nat × Nat)
  | .named c => (methodSetNamed env c false).map (fun m => (m.name, m.sig))
  | .ptr (.named c) => (methodSetNamed env c true).map (fun m => (m.name, m.sig))
  | .iface i => env.imeths i
  | _ => []

/-- `types.Implements(t, i)` -/
def implementsB (env : BEnv) (t : BTy) (i : Nat) : Bool :=
  (env.imeths i).all (fun ns => (methodSet env t).contains ns)

inductive BindErr
  | argCount | notIfacePtr | notPtr | self | notImpl | untypedNil
deriving Repr, DecidableEq, Inhabited

/-- `processBind`; `usePtr` = the wire package declares `bindToUsePointer` (`bindShouldUsePointer`).
    Result: (interface type, provided type). -/
def processBind (env : BEnv) (usePtr : Bool) (args : List BTy) : Except BindErr (BTy × BTy) :=
  match args with
  | [a0, a1] =>
    match a0 with
    | .ptr (.iface i) =>
      let prov : Except BindErr BTy :=
        if usePtr then (match a1 with | .ptr p => .ok p | _ => .error .notPtr) else .ok a1
      match prov with
      | .error e => .error e
      | .ok p =>
        if p == .iface i then .error .self
        else if !implementsB env p i then .error .notImpl
        else .ok (.iface i, p)
    | _ => .error .notIfacePtr
  | _ => .error .argCount

/-- `processInterfaceValue`: result = (interface type provided, type of the expression) -/
def processIValue (env : BEnv) (args : List BTy) : Except BindErr (BTy × BTy) :=
  match args with
  | [a0, a1] =>
    match a0 with
    | .ptr (.iface i) =>
      if a1 == .untypedNil then .error .untypedNil
      else if !implementsB env a1 i then .error .notImpl
      else .ok (.iface i, a1)
    | _ => .error .notIfacePtr
  | _ => .error .argCount

end WireV
