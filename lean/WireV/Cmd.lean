import WireV.Basic
/-! # WireV.Cmd — `wire gen` / `diff` / `check` over an abstract file system (cmd/wire/main.go,
`GenerateResult.Commit`), and histories of commands (C17, C18)

File contents and paths are naturals (the harness interns bytes and paths); `0` is the empty
content (`len(out.Content) == 0`: no Wire output for the package). -/
namespace WireV

abbrev FS := List (Nat × Nat)      -- path ↦ content id; absent = no file

def fsGet (fs : FS) (p : Nat) : Option Nat := look p fs

def fsPut (fs : FS) (p c : Nat) : FS := (p, c) :: fs.filter (fun kv => kv.1 != p)

def fsDel (fs : FS) (p : Nat) : FS := fs.filter (fun kv => kv.1 != p)

/-- one element of `[]GenerateResult` -/
structure PkgOut where
  outPath : Nat
  errs : Bool          -- len(out.Errs) > 0
  content : Nat        -- 0 = empty
deriving Repr, DecidableEq, Inhabited

inductive LoadRes
  | loadErr                       -- `wire.Generate` returned errors (packages did not load)
  | ok (outs : List PkgOut)
deriving Repr, Inhabited

/-- the loop of `genCmd.Execute` -/
def genLoop (writeOk : Nat → Bool) : List PkgOut → FS → Bool → FS × Bool
  | [], fs, success => (fs, success)
  | o :: os, fs, success =>
    let success := if o.errs then false else success
    if o.content = 0 then genLoop writeOk os fs success
    else if writeOk o.outPath then genLoop writeOk os (fsPut fs o.outPath o.content) success
    else genLoop writeOk os fs false

/-- `genCmd.Execute`: exit status and new file system -/
def genExec (headerOk : Bool) (load : LoadRes) (writeOk : Nat → Bool) (fs : FS) : FS × Nat :=
  if !headerOk then (fs, 1) else
  match load with
  | .loadErr => (fs, 1)
  | .ok [] => (fs, 0)
  | .ok outs =>
    let r := genLoop writeOk outs fs true
    (r.1, if r.2 then 0 else 1)

/-- the loop of `diffCmd.Execute`: (success, hadDiff) -/
def diffLoop (fs : FS) : List PkgOut → Bool → Bool → Bool × Bool
  | [], success, hadDiff => (success, hadDiff)
  | o :: os, success, hadDiff =>
    let success := if o.errs then false else success
    if o.content = 0 then diffLoop fs os success hadDiff
    else
      let cur := (fsGet fs o.outPath).getD 0     -- "assumes the current file is empty if we can't read it"
      diffLoop fs os success (hadDiff || cur != o.content)

/-- `diffCmd.Execute`; `headerStatus` is the status returned when the header file cannot be read
    (regenerated from the source: `WireV.Generated.CmdExit`) -/
def diffExec (headerStatus : Nat) (headerOk : Bool) (load : LoadRes) (fs : FS) : Nat :=
  if !headerOk then headerStatus else
  match load with
  | .loadErr => 2
  | .ok [] => 0
  | .ok outs =>
    let r := diffLoop fs outs true false
    if !r.1 then 2 else if r.2 then 1 else 0

/-- operations of a history (C18) -/
inductive Op
  | switch (v : Nat)      -- edit the sources to variant v
  | gen
  | diff
  | delete (p : Nat)      -- delete an output file
  | clobber (p c : Nat)   -- replace an output file by arbitrary bytes carrying the !wireinject constraint
deriving Repr, DecidableEq, Inhabited

structure HState where
  fs : FS
  variant : Nat
deriving Repr, Inhabited

/-- one command; `A v` is what analysis yields for variant `v` — by H-iso it does not depend on the
    file system (the output file is excluded from loading by its build constraint) -/
def stepH (A : Nat → LoadRes) (headerStatus : Nat) (s : HState) : Op → HState × Option Nat
  | .switch v => ({ s with variant := v }, none)
  | .gen => let r := genExec true (A s.variant) (fun _ => true) s.fs; ({ s with fs := r.1 }, some r.2)
  | .diff => (s, some (diffExec headerStatus true (A s.variant) s.fs))
  | .delete p => ({ s with fs := fsDel s.fs p }, none)
  | .clobber p c => ({ s with fs := fsPut s.fs p c }, none)

def runH (A : Nat → LoadRes) (headerStatus : Nat) : HState → List Op → HState × List (Option Nat)
  | s, [] => (s, [])
  | s, op :: ops =>
    let r := stepH A headerStatus s op
    let rest := runH A headerStatus r.1 ops
    (rest.1, r.2 :: rest.2)

end WireV
