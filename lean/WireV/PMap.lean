import WireV.Basic
/-! # WireV.PMap — `buildProviderMap` (analyze.go) stage by stage -/
namespace WireV

structure BState where
  pm : PMap := []
  sm : SMap := []
  errs : List Err := []
deriving Repr, Inhabited

/-- `if prevSrc := srcMap.At(typ); prevSrc != nil { ec.add(conflict); continue }; Set; Set` -/
def BState.ins (s : BState) (t : Ty) (pt : PT) (src : SrcId) : BState :=
  match look t s.sm with
  | some _ => { s with errs := s.errs ++ [Err.multi t] }
  | none => { s with pm := (t, pt) :: s.pm, sm := (t, src) :: s.sm }

def insArgs (s : BState) (args : List Ty) : BState :=
  (args.zipIdx).foldl (fun s (ti : Ty × Nat) => s.ins ti.1 ⟨ti.1, .arg ti.2⟩ (.arg ti.2)) s

/-- one imported set: every key of its map, in the order the map is iterated -/
def insImport (s : BState) (imp : Nat × PMap) : BState :=
  imp.2.foldl (fun s (kv : Ty × PT) => s.ins kv.1 kv.2 (.imp imp.1)) s

def insProv (s : BState) (p : Prov) : BState :=
  p.outs.foldl (fun s t => s.ins t ⟨t, .prov p⟩ (.prov p.id)) s

def insVal (s : BState) (v : Val) : BState := s.ins v.out ⟨v.out, .val v⟩ (.val v.id)

def insFld (s : BState) (f : Fld) : BState :=
  f.outs.foldl (fun s t => s.ins t ⟨t, .fld f⟩ (.fld f.id)) s

/-- bindings read the provider map built so far (including earlier bindings of this set) -/
def insBnd (s : BState) (b : Bnd) : BState :=
  match look b.iface s.sm with
  | some _ => { s with errs := s.errs ++ [Err.multi b.iface] }
  | none =>
    match look b.provided s.pm with
    | none => { s with errs := s.errs ++ [Err.bindMissing b.iface b.provided] }
    | some c => { s with pm := (b.iface, c) :: s.pm, sm := (b.iface, .bnd b.id) :: s.sm }

/-- `buildProviderMap`: `imports` carries, for each imported set, its identity and its provider
    map as a list in the order `typeutil.Map.Iterate` happens to enumerate it. -/
def buildProviderMap (args : Option (List Ty)) (imports : List (Nat × PMap))
    (provs : List Prov) (vals : List Val) (flds : List Fld) (bnds : List Bnd) :
    Except (List Err) (PMap × SMap) :=
  let s0 : BState := {}
  let s1 := match args with | none => s0 | some a => insArgs s0 a
  let s2 := imports.foldl insImport s1
  if s2.errs ≠ [] then .error s2.errs else
  let s3 := provs.foldl insProv s2
  let s4 := vals.foldl insVal s3
  let s5 := flds.foldl insFld s4
  if s5.errs ≠ [] then .error s5.errs else
  let s6 := bnds.foldl insBnd s5
  if s6.errs ≠ [] then .error s6.errs else
  .ok (s6.pm, s6.sm)

end WireV
