import WireV.Names
/-! # WireV.Rename — the second pass of `rewritePkgRefs` (wire.go): renaming of local symbols of a copied
declaration that collide with names of the generated file.

The copied node is seen as the sequence of its identifier occurrences in traversal order, *after* the first
pass (package qualifiers already rewritten to the generated file's import names).  An occurrence carries the
object go/types resolved it to (`none`: no object — a qualifier or selector written by the first pass), and
whether that object may be renamed at all (`renamable`: it has a parent scope other than the package scope
and is declared inside the node; fields, methods, package-level and universe objects are not).
`silent` occurrences stand for the pre-visit of a `switch x := v.(type)` statement, where the name of the
symbolic variable is fixed before the identifiers of the statement are visited; they produce no output. -/
namespace WireV

structure Occ where
  name : String
  obj : Option Nat
  renamable : Bool
  silent : Bool
deriving Repr, DecidableEq, Inhabited

/-- the new names chosen so far: `newNames` of the Go code -/
abbrev RenSt := List (Nat × String)

def RenSt.get (st : RenSt) (k : Nat) : Option String := (st.find? (fun p => p.1 == k)).map (·.2)

/-- `inNewNames` -/
def RenSt.hasName (st : RenSt) (n : String) : Bool := st.any (fun p => p.2 == n)

/-- what `disambiguate` must avoid: `nameInFileScope(n) || inNewNames(n) || used[n]` -/
def renCollides (fs used : List String) (st : RenSt) (n : String) : Bool :=
  fs.contains n || st.hasName n || used.contains n

/-- one identifier: the new state and the name printed in the copy -/
def renStep (fuel : Nat) (fs used : List String) (st : RenSt) (o : Occ) : Option (RenSt × String) :=
  match o.obj with
  | none => some (st, o.name)
  | some k =>
    match st.get k with
    | some n => some (st, n)
    | none =>
      if !o.renamable || !(fs.contains o.name || st.hasName o.name) then some (st, o.name)
      else
        match disambiguate fuel o.name (renCollides fs used st) with
        | none => none
        | some n => some ((k, n) :: st, n)

def renLoop (fuel : Nat) (fs used : List String) : RenSt → List Occ → Option (List String)
  | _, [] => some []
  | st, o :: os =>
    match renStep fuel fs used st o with
    | none => none
    | some (st', n) =>
      match renLoop fuel fs used st' os with
      | none => none
      | some ns => some (if o.silent then ns else n :: ns)

/-- the identifiers that occur in the node (the `used` set of the Go code) -/
def usedNames (occs : List Occ) : List String := (occs.filter (fun o => !o.silent)).map (·.name)

/-- the printed names of all (non-silent) identifier occurrences of the copy -/
def renameOccs (fuel : Nat) (fs : List String) (occs : List Occ) : Option (List String) :=
  renLoop fuel fs (usedNames occs) [] occs

end WireV
