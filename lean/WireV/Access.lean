import WireV.Basic
/-! # WireV.Access — `accessibleFrom` (wire.go): may an expression written in one package be copied into another?

The walk (`ast.Inspect`, pre-order) meets identifiers and composite literals; the first offending node decides.
A request is the sequence of these nodes in visit order, each abstracted to the go/types facts the function looks at. -/
namespace WireV

/-- where the object an identifier denotes is declared -/
inductive AScope
  | noPkg       -- universe objects (`int`, `nil`, `true`): `obj.Pkg() == nil`
  | pkgName     -- an imported package's name
  | pkgScope    -- package-level declaration
  | local       -- declared in a function (parameter, variable): `obj.Parent() ∉ {nil, pkg.Scope()}`
  | member      -- struct field or method: `obj.Parent() == nil`
deriving Repr, DecidableEq, Inhabited

structure AIdent where
  name : Nat
  exported : Bool
  scope : AScope
  pkg : Nat                 -- package of the object (meaningless for noPkg / pkgName)
  importable : Bool         -- `importableFrom(pkg, want)`: Go's internal-package rule
deriving Repr, DecidableEq, Inhabited

/-- a field set positionally by a struct literal: (name, exported, package of the field) -/
structure AField where
  name : Nat
  exported : Bool
  pkg : Nat
deriving Repr, DecidableEq, Inhabited

inductive ANode
  | ident (i : AIdent)
  | lit (positional : List AField)   -- fields that the literal's unkeyed elements set; `[]` for keyed / non-struct literals
deriving Repr, DecidableEq, Inhabited

inductive AErr
  | unexported (name : Nat)
  | internal (name : Nat)
  | notPkgScope (name : Nat)
  | setsUnexported (name : Nat)
deriving Repr, DecidableEq, Inhabited

/-- the test of one identifier -/
def identErr (want : Nat) (i : AIdent) : Option AErr :=
  match i.scope with
  | .pkgName => none
  | .noPkg => none
  | s =>
    if !i.exported && i.pkg != want then some (.unexported i.name)
    else if i.pkg != want && !i.importable then some (.internal i.name)
    else if s == .local then some (.notPkgScope i.name)
    else none

/-- the test of one composite literal: the first positionally set field that is unexported elsewhere -/
def litErr (want : Nat) (fs : List AField) : Option AErr :=
  (fs.find? (fun f => !f.exported && f.pkg != want)).map (fun f => .setsUnexported f.name)

def nodeErr (want : Nat) : ANode → Option AErr
  | .ident i => identErr want i
  | .lit fs => litErr want fs

/-- `accessibleFrom`: the error of the first offending node, if any -/
def accessibleFrom (want : Nat) (nodes : List ANode) : Option AErr :=
  nodes.findSome? (nodeErr want)

end WireV
