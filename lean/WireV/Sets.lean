import WireV.PMap
import WireV.Acyclic
import WireV.Solve
/-! # WireV.Sets — `processNewSet` over a DAG of set definitions, and `inject`'s planning half -/
namespace WireV

inductive SetRes
  | ok (pm : PMap) (sm : SMap)
  | err (es : List Err)
deriving Repr, Inhabited

/-- `order` lists all types sorted by `types.TypeString` (what `verifyAcyclic` sorts its roots by) -/
def rootsOf (order : List Ty) (pm : PMap) : List Ty :=
  order.filter (fun t => (look t pm).isSome)

/-- the imported sets of `d`, or the failures that stop `processNewSet` before any analysis -/
def importsOf (done : List (Nat × SetRes)) (d : SetDef) : Except (List Err) (List (Nat × PMap)) :=
  let imps := d.imports.map (fun i => done[i]?)
  let failed := imps.filterMap (fun r => match r with
    | some (id, .err _) => some (Err.importFailed id)
    | none => some (Err.importFailed 0)
    | _ => none)
  if failed ≠ [] then .error failed else
  .ok (imps.filterMap (fun r => match r with
    | some (id, .ok pm _) => some (id, pm)
    | _ => none))

/-- the `verifyAcyclic` call of `processNewSet` and what it turns into -/
def checkAcyclic (order : List Ty) (pm : PMap) : List Err :=
  let ac := verifyAcyclic pm (rootsOf order pm)
  if ac.stk ≠ [] then [Err.cycle []]      -- unreachable (C07.va_terminates)
  else ac.errs.map Err.cycle

/-- `processNewSet` after the items have been recognised: fail if an item failed, build the
    map, then check acyclicity -/
def procSet (order : List Ty) (done : List (Nat × SetRes)) (d : SetDef) : SetRes :=
  match importsOf done d with
  | .error es => .err es
  | .ok impMaps =>
    match buildProviderMap d.args impMaps d.provs d.vals d.flds d.bnds with
    | .error es => .err es
    | .ok (pm, sm) =>
      match checkAcyclic order pm with
      | [] => .ok pm sm
      | es => .err es

def procSets (order : List Ty) (ds : List SetDef) : List (Nat × SetRes) :=
  ds.foldl (fun done d => done ++ [(d.id, procSet order done d)]) []

def impIdsOf (done : List (Nat × SetRes)) (d : SetDef) : List Nat :=
  d.imports.filterMap (fun i => (done[i]?).map (·.1))

/-- planning of one injector whose `wire.Build` set is the last definition -/
def planLast (order : List Ty) (ds : List SetDef) (out : Ty) : SolveOut :=
  let done := procSets order ds
  match ds.getLast?, done.getLast? with
  | some d, some (_, .ok pm sm) => solve pm sm d (impIdsOf done d) (d.args.getD []) out
  | _, some (_, .err es) => .errs es
  | _, _ => .errs []

end WireV
