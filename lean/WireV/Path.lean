import WireV.Basic
/-! # WireV.Path — vendor stripping (`unvendor`, `isWireImport`) and the import block of `frame` -/
namespace WireV

/-- `strings.Index`-style search: does `needle` occur in `hay` at its head? -/
def isPrefixC : List Char → List Char → Bool
  | [], _ => true
  | _ :: _, [] => false
  | a :: as, b :: bs => a == b && isPrefixC as bs

/-- all start positions of `needle` in `hay` -/
def occurrences (needle : List Char) : List Char → Nat → List Nat
  | [], i => if needle.isEmpty then [i] else []
  | c :: cs, i => (if isPrefixC needle (c :: cs) then [i] else []) ++ occurrences needle cs (i + 1)

/-- `strings.LastIndex` -/
def lastIndex (needle hay : List Char) : Option Nat := (occurrences needle hay 0).getLast?

def vendorElem : List Char := "/vendor/".toList

/-- `unvendor(path)`: strip everything up to and including the last `vendor` path element -/
def unvendorC (p : List Char) : List Char :=
  match lastIndex vendorElem p with
  | some i => p.drop (i + vendorElem.length)
  | none => if isPrefixC "vendor/".toList p then p.drop 7 else p

def unvendor (p : String) : String := String.ofList (unvendorC p.toList)

def isWireImport (p : String) : Bool := unvendor p == "github.com/google/wire"

/-- `strings.HasSuffix` -/
def isSuffixC (s h : List Char) : Bool := isPrefixC s.reverse h.reverse

/-- where the last `internal` path element of `path` starts (Go: the `switch` of `importableFrom`; a path that *is*
    `internal` or starts with `internal/` is not treated specially there, nor here) -/
def internalAt (path : List Char) : Option Nat :=
  if isSuffixC "/internal".toList path then some (path.length - "internal".length)
  else match lastIndex "/internal/".toList path with
    | some i => some (i + 1)
    | none => none

/-- `importableFrom(path, from)` (wire.go): may the package at import path `frm` import the package at `path`
    under Go's rule for internal packages?  Both paths are taken without their vendor prefix. -/
def importableFromC (path frm : List Char) : Bool :=
  let path := unvendorC path
  let frm := unvendorC frm
  match internalAt path with
  | none => true
  | some i =>
    let parent := path.take (i - 1)
    frm == parent || isPrefixC (parent ++ ['/']) frm

/-- the path go/packages gives a package that was named by a list of files: it says nothing about where the package lives -/
def syntheticPath : String := "command-line-arguments"

def importableFrom (path frm : String) : Bool := importableFromC path.toList frm.toList

/-- the whole function of wire.go: for a package named by a list of files the rule cannot be decided and is left to the compiler -/
def importableFromTool (path frm : String) : Bool := frm == syntheticPath || importableFrom path frm

/-- insertion sort on strings (Go: `sort.Strings`; bytewise = codepoint order on ASCII) -/
def insertS (x : String) : List String → List String
  | [] => [x]
  | y :: ys => if x ≤ y then x :: y :: ys else y :: insertS x ys

def sortS : List String → List String
  | [] => []
  | x :: xs => insertS x (sortS xs)

/-- one entry of `g.imports`: path ↦ (name, differs) -/
structure ImportEnt where
  path : String
  name : String
  differs : Bool
deriving Repr, DecidableEq, Inhabited

/-- the lines of the import block `frame` prints, whatever order the map is iterated in -/
def frameImports (imps : List ImportEnt) : List String :=
  (sortS (imps.map (·.path))).map (fun p =>
    match imps.find? (fun e => e.path == p) with
    | some e => if e.differs then s!"{e.name} \"{p}\"" else s!"\"{p}\""
    | none => "")

end WireV
