import WireV.Basic
/-! # WireV.Path — vendor stripping (`unvendor`, `isWireImport`) and the import block of `frame` -/
namespace WireV

/-- `strings.Index`-style search: does `needle` occur in `hay` at its head? -/
def isPrefixC : List Char → List Char → Bool
  | [], _ => true
  | _ :: _, [] => false
  | a :: as, b :: bs => a == b && isPrefixC as bs

/-- all start positions of `needle` in `hay` -/
def occurrences (needle : List Char) : List Char → Nat → List Nat
  | [], i => if needle.isEmpty then [i] else []
  | c :: cs, i => (if isPrefixC needle (c :: cs) then [i] else []) ++ occurrences needle cs (i + 1)

/-- `strings.LastIndex` -/
def lastIndex (needle hay : List Char) : Option Nat := (occurrences needle hay 0).getLast?

def vendorElem : List Char := "/vendor/".toList

/-- `unvendor(path)`: strip everything up to and including the last `vendor` path element -/
def unvendorC (p : List Char) : List Char :=
  match lastIndex vendorElem p with
  | some i => p.drop (i + vendorElem.length)
  | none => if isPrefixC "vendor/".toList p then p.drop 7 else p

def unvendor (p : String) : String := String.ofList (unvendorC p.toList)

def isWireImport (p : String) : Bool := unvendor p == "github.com/google/wire"

/-- insertion sort on strings (Go: `sort.Strings`; bytewise = codepoint order on ASCII) -/
def insertS (x : String) : List String → List String
  | [] => [x]
  | y :: ys => if x ≤ y then x :: y :: ys else y :: insertS x ys

def sortS : List String → List String
  | [] => []
  | x :: xs => insertS x (sortS xs)

/-- one entry of `g.imports`: path ↦ (name, differs) -/
structure ImportEnt where
  path : String
  name : String
  differs : Bool
deriving Repr, DecidableEq, Inhabited

/-- the lines of the import block `frame` prints, whatever order the map is iterated in -/
def frameImports (imps : List ImportEnt) : List String :=
  (sortS (imps.map (·.path))).map (fun p =>
    match imps.find? (fun e => e.path == p) with
    | some e => if e.differs then s!"{e.name} \"{p}\"" else s!"\"{p}\""
    | none => "")

end WireV
