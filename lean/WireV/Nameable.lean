import WireV.Basic
/-! # WireV.Nameable — `unnameableType` (wire.go): does a type of the injector's signature mention a defined type that the
injector's package cannot name (an unexported type of another package, reachable through an exported alias)? -/
namespace WireV

/-- a Go type, as far as the walk distinguishes: a defined type (with its type arguments), a composite of component types in the
    order the walk visits them (pointer, slice, array, channel: one; map: key, element; signature: parameters then results; struct:
    fields), or a type the walk does not enter (basic types, interfaces, type parameters) -/
inductive UTy
  | named (id pkg : Nat) (exported : Bool) (args : List UTy)
  | comp (kids : List UTy)
  | leaf
deriving Repr, Inhabited

mutual
/-- the first defined type (its id) that package `want` cannot name -/
def unnameable (want : Nat) : UTy → Option Nat
  | .named id pkg exported args => if pkg != want && !exported then some id else unnameableL want args
  | .comp kids => unnameableL want kids
  | .leaf => none
def unnameableL (want : Nat) : List UTy → Option Nat
  | [] => none
  | t :: ts =>
    match unnameable want t with
    | some x => some x
    | none => unnameableL want ts
end

mutual
/-- every defined type mentioned is exported or belongs to `want` -/
def NameableOk (want : Nat) : UTy → Prop
  | .named _ pkg exported args => (pkg = want ∨ exported = true) ∧ NameableOkL want args
  | .comp kids => NameableOkL want kids
  | .leaf => True
def NameableOkL (want : Nat) : List UTy → Prop
  | [] => True
  | t :: ts => NameableOk want t ∧ NameableOkL want ts
end

end WireV
