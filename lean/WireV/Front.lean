import WireV.Sig
/-! # WireV.Front — field selection of `wire.Struct` / `wire.FieldsOf` (parse.go: processStructProvider,
processFieldsOf, allFields, checkField, isPrevented) -/
namespace WireV

/-- one field of the struct type, in declaration order.  An embedded field is a `FieldDecl` like any other (its name is the
    name of its type): the code never consults `Var.Embedded` when selecting fields, and the `fields` stream ties that down by
    making every third synthetic field an embedded one. -/
structure FieldDecl where
  name : String
  ty : Ty
  prevented : Bool        -- tagged `wire:"-"`
  hidden : Bool := false  -- unexported, and declared by another package than the struct type (`type S other.T`)
deriving Repr, DecidableEq, Inhabited

/-- how a field-name argument is spelled -/
inductive FieldArg
  | str (s : String)      -- a string literal (interpreted or raw) denoting `s`
  | other                 -- anything else: identifier, constant, concatenation, non-string literal
deriving Repr, DecidableEq, Inhabited

inductive FieldErr
  | notString
  | notField (s : String)
  | prevented (s : String)
  | dup (t : Ty)
  | tooMany
  | hidden (s : String)
deriving Repr, DecidableEq, Inhabited

/-- `checkField` -/
def checkField (fs : List FieldDecl) : FieldArg → Except FieldErr FieldDecl
  | .other => .error .notString
  | .str s =>
    match fs.find? (fun f => f.name == s && s != "_") with
    | none => .error (.notField s)
    | some f => if f.prevented then .error (.prevented s) else .ok f

/-- `allFields(call)`: exactly one field argument and it is the literal "*" -/
def allFields (args : List FieldArg) : Bool := args == [.str "*"]

/-- a named field of `wire.Struct`: `checkField`, then the field must be settable from the struct type's package -/
def structField (fs : List FieldDecl) (a : FieldArg) : Except FieldErr FieldDecl :=
  match checkField fs a with
  | .error e => .error e
  | .ok f => if f.hidden then .error (.hidden f.name) else .ok f

/-- the `Args` of the struct provider (type, field name), before the duplicate-type test -/
def structArgs (fs : List FieldDecl) (args : List FieldArg) : Except FieldErr (List FieldDecl) :=
  if allFields args then
    let sel := fs.filter (fun f => !f.prevented && f.name != "_")
    match sel.find? (·.hidden) with
    | some f => .error (.hidden f.name)
    | none => .ok sel
  else args.mapM (structField fs)

/-- `processStructProvider` after the first argument has been recognised -/
def structProviderArgs (fs : List FieldDecl) (args : List FieldArg) : Except FieldErr (List FieldDecl) :=
  match structArgs fs args with
  | .error e => .error e
  | .ok sel =>
    match dupParam (sel.map (·.ty)) with
    | some t => .error (.dup t)
    | none => .ok sel

/-- `processFieldsOf`: the selected fields (each becomes its own `*Field`) -/
def fieldsOfArgs (fs : List FieldDecl) (args : List FieldArg) : Except FieldErr (List FieldDecl) :=
  if fs.length < args.length then .error .tooMany
  else args.mapM (checkField fs)

end WireV
