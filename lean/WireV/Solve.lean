import WireV.Basic
/-! # WireV.Solve — `solve` and `verifyArgsUsed` (analyze.go)

The stack's top is the list head.  `index` maps a type to `some n` (local-variable number) or
`none` (Go: `errAbort`); absence from the list is Go's `index.At(t) == nil`.
-/
namespace WireV

inductive CallKind | func | struct | value | field
deriving Repr, DecidableEq, Inhabited

/-- Go: `call` (the fields the planner fills; names are carried by `srcId`) -/
structure Call where
  kind : CallKind
  out : Ty
  srcId : Nat
  args : List Nat := []
  ins : List Ty := []
  varargs : Bool := false
  hasCleanup : Bool := false
  hasErr : Bool := false
  ptrToField : Bool := false
deriving Repr, DecidableEq, Inhabited

/-- Go: `frame{t, from, up}`; `up` is the chain of requesting types, nearest first
    (`from = nil` iff `up = []`) -/
structure Frame where
  t : Ty
  up : List Ty := []
deriving Repr, DecidableEq, Inhabited

abbrev Idx := Option Nat

structure SvSt where
  index : List (Ty × Idx) := []
  stk : List Frame := []
  calls : List Call := []
  used : List SrcId := []
  errs : List Err := []
deriving Repr, Inhabited

/-- dependencies of a non-binding map entry, in the order they are pushed/consumed -/
def depsOf (p : Payload) : List Ty :=
  match p with
  | .prov p => p.args
  | .fld f => [f.parent]
  | .arg _ => []
  | .val _ => []

def mkCall (t : Ty) (p : Payload) (args : List Nat) : Option Call :=
  match p with
  | .prov p => some { kind := if p.isStruct then .struct else .func, out := t, srcId := p.id,
                      args := args, ins := p.args, varargs := p.varargs,
                      hasCleanup := p.hasCleanup, hasErr := p.hasErr }
  | .val v => some { kind := .value, out := t, srcId := v.id }
  | .fld f => some { kind := .field, out := t, srcId := f.id, args := args,
                     ptrToField := f.outs.length == 2 && f.outs[1]? == some t }
  | .arg _ => none

def svStep (pm : PMap) (sm : SMap) (ng : Nat) (s : SvSt) : Option SvSt :=
  match s.stk with
  | [] => none
  | curr :: rest =>
    match look curr.t s.index with
    | some _ => some { s with stk := rest }
    | none =>
      match look curr.t pm with
      | none =>
        some { s with stk := rest, errs := s.errs ++ [Err.noProvider curr.t curr.up],
                      index := (curr.t, none) :: s.index }
      | some pt =>
        let used := match look curr.t sm with
          | some src => s.used ++ [src]
          | none => s.used
        if pt.t ≠ curr.t then
          -- interface binding: no call of its own
          match look pt.t s.index with
          | none => some { s with used := used,
                                  stk := ⟨pt.t, curr.t :: curr.up⟩ :: curr :: rest }
          | some i => some { s with used := used, stk := rest, index := (curr.t, i) :: s.index }
        else
          match pt.src with
          | .arg _ => some { s with used := used, stk := rest }
          | src =>
            let deps := depsOf src
            let missing := deps.filter (fun a => (look a s.index).isNone)
            if missing ≠ [] then
              some { s with used := used,
                            stk := missing.map (fun a => ⟨a, curr.t :: curr.up⟩) ++ curr :: rest }
            else
              let ai := deps.map (fun a => (look a s.index).join)
              if ai.any Option.isNone then
                some { s with used := used, stk := rest, index := (curr.t, none) :: s.index }
              else
                match mkCall curr.t src (ai.filterMap id) with
                | none => some { s with used := used, stk := rest }
                | some c =>
                  some { s with used := used, stk := rest,
                                index := (curr.t, some (ng + s.calls.length)) :: s.index,
                                calls := s.calls ++ [c] }

def svIter (pm : PMap) (sm : SMap) (ng : Nat) : Nat → SvSt → SvSt
  | 0, s => s
  | n + 1, s => match svStep pm sm ng s with
    | none => s
    | some s' => svIter pm sm ng n s'

def degOf (kv : Ty × PT) : Nat :=
  if kv.2.t ≠ kv.1 then 1 else (depsOf kv.2.src).length

/-- Fuel: `2 + Σ_{key} (1 + degree)`; sufficient for every acyclic map (`WireP.Props.C02`). -/
def svFuel (pm : PMap) : Nat := 2 + (pm.map (fun kv => 1 + degOf kv)).sum

def svInit (given : List Ty) (out : Ty) : SvSt :=
  { index := (given.zipIdx.map (fun ti => (ti.1, some ti.2))).reverse, stk := [⟨out, []⟩] }

/-- `verifyArgsUsed`: imports, providers, values, bindings, fields — in that order -/
def verifyArgsUsed (d : SetDef) (impIds : List Nat) (used : List SrcId) : List Err :=
  (impIds.filter (fun i => decide (SrcId.imp i ∉ used))).map Err.unusedSet ++
  ((d.provs.filter (fun p => decide (SrcId.prov p.id ∉ used))).map (fun p => Err.unusedProv p.id)) ++
  ((d.vals.filter (fun v => decide (SrcId.val v.id ∉ used))).map (fun v => Err.unusedVal v.id)) ++
  ((d.bnds.filter (fun b => decide (SrcId.bnd b.id ∉ used))).map (fun b => Err.unusedBnd b.id)) ++
  ((d.flds.filter (fun f => decide (SrcId.fld f.id ∉ used))).map (fun f => Err.unusedFld f.id))

inductive SolveOut
  | ok (calls : List Call)
  | errs (es : List Err)
  | stuck                       -- fuel exhausted: only possible on a cyclic map
deriving Repr, Inhabited

def solve (pm : PMap) (sm : SMap) (d : SetDef) (impIds : List Nat) (given : List Ty) (out : Ty) :
    SolveOut :=
  let s := svIter pm sm given.length (svFuel pm) (svInit given out)
  if s.stk ≠ [] then .stuck
  else if s.errs ≠ [] then .errs s.errs
  else
    let es := verifyArgsUsed d impIds s.used
    if es ≠ [] then .errs es else .ok s.calls

end WireV
