import WireV.Basic
/-! # WireV.Sig — `funcOutput` and the duplicate-parameter test (parse.go) -/
namespace WireV

/-- a result type as `funcOutput` sees it: identical to `error`, identical to `func()`, or neither
    (named function types, other function types, named error types, values are all `other`) -/
inductive RKind | other | error | cleanup
deriving Repr, DecidableEq, Inhabited

inductive SigErr | noReturn | second | third | tooMany
deriving Repr, DecidableEq, Inhabited

structure OutSig where
  cleanup : Bool
  err : Bool
deriving Repr, DecidableEq, Inhabited

/-- `funcOutput`: the switch on the number of results -/
def funcOutput (rs : List RKind) : Except SigErr OutSig :=
  match rs with
  | [] => .error .noReturn
  | [_] => .ok ⟨false, false⟩
  | [_, r1] =>
    if r1 = .error then .ok ⟨false, true⟩
    else if r1 = .cleanup then .ok ⟨true, false⟩
    else .error .second
  | [_, r1, r2] =>
    if r1 ≠ .cleanup then .error .second
    else if r2 ≠ .error then .error .third
    else .ok ⟨true, true⟩
  | _ => .error .tooMany

/-- `processFuncProvider` / `processStructProvider`: `for i { for j < i { if Identical(args[i], args[j]) → error naming args[j] } }` -/
def dupParamFrom (seen : List Ty) : List Ty → Option Ty
  | [] => none
  | a :: rest => if a ∈ seen then some a else dupParamFrom (seen ++ [a]) rest

def dupParam (ts : List Ty) : Option Ty := dupParamFrom [] ts

end WireV
