import WireV.Solve
/-! # WireV.Show — `gather` (cmd/wire/main.go): outputs of a provider set grouped by the inputs
they require -/
namespace WireV

structure Grp where
  inputs : List Ty       -- a set, kept in insertion order
  outputs : List Ty
deriving Repr, DecidableEq, Inhabited

/-- `inputVisited`: `none` = -1 (an input), `some i` = index into `groups` -/
structure GSt where
  groups : List Grp := []
  visited : List (Ty × Option Nat) := []
  stk : List Ty := []
deriving Repr, Inhabited

def unionTy (a b : List Ty) : List Ty := a ++ b.filter (fun t => !a.contains t)

/-- `sameTypeKeys` -/
def sameKeys (a b : List Ty) : Bool := a.length == b.length && a.all (fun t => b.contains t)

/-- the input set of a dependency that has been visited -/
def inputsOfDep (s : GSt) (a : Ty) : List Ty :=
  match look a s.visited with
  | some none => [a]
  | some (some i) => match s.groups[i]? with | some g => g.inputs | none => []
  | none => []

/-- put `curr` into the first group whose inputs are `ins`, or open a new group -/
def addToGroup (s : GSt) (curr : Ty) (ins : List Ty) (rest : List Ty) : GSt :=
  match s.groups.findIdx? (fun g => sameKeys g.inputs ins) with
  | some i =>
    { groups := s.groups.modify i (fun g => { g with outputs := g.outputs ++ [curr] })
      visited := (curr, some i) :: s.visited, stk := rest }
  | none =>
    { groups := s.groups ++ [{ inputs := ins, outputs := [curr] }]
      visited := (curr, some s.groups.length) :: s.visited, stk := rest }

def gStep (pm : PMap) (s : GSt) : Option GSt :=
  match s.stk with
  | [] => none
  | curr :: rest =>
    match look curr s.visited with
    | some _ => some { s with stk := rest }
    | none =>
      match look curr pm with
      | none => some { s with stk := rest, visited := (curr, none) :: s.visited }
      | some pt =>
        match pt.src with
        | .arg _ => some { s with stk := rest, visited := (curr, none) :: s.visited }
        | .val _ => some (addToGroup s curr [] rest)
        | src =>
          let deps := depsOf src
          let missing := deps.filter (fun a => (look a s.visited).isNone)
          if missing ≠ [] then
            -- Go pushes curr, then the unvisited dependencies in order: the last one is on top
            some { s with stk := missing.reverse ++ curr :: rest }
          else
            let ins := deps.foldl (fun acc a => unionTy acc (inputsOfDep s a)) []
            some (addToGroup s curr ins rest)

def gIter (pm : PMap) : Nat → GSt → GSt
  | 0, s => s
  | n + 1, s => match gStep pm s with
    | none => s
    | some s' => gIter pm n s'

/-- the outer loop over `set.Outputs()` (any order): start a DFS at every unvisited key -/
def gather (pm : PMap) (keys : List Ty) : GSt :=
  keys.foldl (fun s k =>
    let s1 := if (look k s.visited).isNone then { s with stk := k :: s.stk } else s
    gIter pm (2 + 2 * (pm.map (fun kv => 1 + (depsOf kv.2.src).length)).sum) s1) {}

end WireV
