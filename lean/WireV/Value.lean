import WireV.Generated.Tables
/-! # WireV.Value — the expression whitelist of `processValue` (parse.go)

`VExpr` mirrors go/ast expression trees: a node has a kind (the go/ast struct name) and children;
`UnaryExpr` carries whether its operator is `<-`; `CallExpr` carries what its callee denotes. -/
namespace WireV

/-- what the callee of a call expression is, as go/types reports it -/
inductive FunClass
  | typeExpr        -- a type: the call is a conversion
  | signature       -- a function or method value whose type is a function signature
  | namedFunc       -- a value of a named function type (`type F func()`; `var f F`)
  | builtin         -- len, new, make, …
deriving Repr, DecidableEq, Inhabited

inductive VExpr
  | node (kind : String) (children : List VExpr)
  | unary (isArrow : Bool) (x : VExpr)
  | call (fc : FunClass) (fn : VExpr) (args : List VExpr)
deriving Repr, Inhabited

/-- the `CallExpr` case, by the regenerated rule -/
def callAccepted (rule : String) (fc : FunClass) : Bool :=
  if rule == "isType" then fc == .typeExpr
  else if rule == "signature" then fc != .signature && fc != .builtin
  else true

/-- the facts the walk depends on, all regenerated from the source -/
structure WL where
  rule : String             -- CallExpr rule
  good : List String        -- kinds accepted outright
  arrowRejected : Bool      -- `case *ast.UnaryExpr: if expr.Op == token.ARROW { ok = false }`
  defaultRejects : Bool     -- `default: ok = false`
deriving Repr, Inhabited

mutual
/-- `ast.Inspect` walk of `processValue`: `true` = accepted -/
def whitelistOk (w : WL) : VExpr → Bool
  | .node kind children => (w.good.contains kind || !w.defaultRejects) && whitelistAll w children
  | .unary isArrow x => !(w.arrowRejected && isArrow) && whitelistOk w x
  | .call fc fn args => callAccepted w.rule fc && whitelistOk w fn && whitelistAll w args
def whitelistAll (w : WL) : List VExpr → Bool
  | [] => true
  | e :: es => whitelistOk w e && whitelistAll w es
end

mutual
/-- evaluating the expression (as a package-level initialiser) would call a function or method,
    or receive from a channel — somewhere in the tree -/
def evaluatesCall : VExpr → Bool
  | .node _ children => evaluatesCallAny children
  | .unary isArrow x => isArrow || evaluatesCall x
  | .call fc fn args => fc != .typeExpr || evaluatesCall fn || evaluatesCallAny args
def evaluatesCallAny : List VExpr → Bool
  | [] => false
  | e :: es => evaluatesCall e || evaluatesCallAny es
end

mutual
/-- a function literal occurs in the tree (its body could do anything when called later) -/
def hasFuncLit : VExpr → Bool
  | .node kind children => kind == "FuncLit" || hasFuncLitAny children
  | .unary _ x => hasFuncLit x
  | .call _ fn args => hasFuncLit fn || hasFuncLitAny args
def hasFuncLitAny : List VExpr → Bool
  | [] => false
  | e :: es => hasFuncLit e || hasFuncLitAny es
end

/-- the whitelist as extracted from the current source -/
def currentWL : WL :=
  { rule := Generated.valueCallRule, good := Generated.valueGood,
    arrowRejected := Generated.valueUnaryArrowRejected, defaultRejects := Generated.valueDefaultRejects }

def processValueOk (e : VExpr) : Bool := whitelistOk currentWL e

end WireV
