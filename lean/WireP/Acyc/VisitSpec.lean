import WireP.Acyc.Visit
namespace WV

structure VisitSpec (g : Graph) (T : List Ty) (h : Ty) (vis v' : List Ty) (e : Nat) : Prop where
  sub : ∀ x, x ∈ vis → x ∈ v'
  head : h ∈ v'
  only : ∀ x, x ∈ v' → x ∈ vis ∨ WPath g vis h x
  all : ∀ x, WPath g vis h x → x ∈ v'
  backedge : ∀ x w, WPath g vis h x → w ∈ g.succ x → w ∈ T → 0 < e

structure FoldSpec (g : Graph) (T : List Ty) (l : List Ty) (va vf : List Ty) (ea ef : Nat) : Prop where
  sub : ∀ x, x ∈ va → x ∈ vf
  mono : ea ≤ ef
  only : ∀ x, x ∈ vf → x ∈ va ∨ ∃ a, a ∈ l ∧ WPath g va a x
  all : ∀ b x, b ∈ l → WPath g va b x → x ∈ vf
  backedge : ∀ b x w, b ∈ l → WPath g va b x → w ∈ g.succ x → w ∈ T → ea < ef

theorem visit_seen (g : Graph) (f : Nat) (a : Ty) (T va : List Ty) (r : List Ty × Nat)
    (hv : visit g f (a :: T) va = some r) (ha : a ∈ va) : r = (va, 0) := by
  cases f with
  | zero => simp [visit] at hv
  | succ f => simp [visit, ha] at hv; exact hv.symm

/-- what one level of the recursion needs from the level below -/
def Below (g : Graph) (f : Nat) : Prop :=
  ∀ a T va v1 e1, a ∉ va → (∀ y, y ∈ T → y ∈ va) →
    visit g f (a :: T) va = some (v1, e1) → VisitSpec g (a :: T) a va v1 e1

theorem fold_spec (g : Graph) (f : Nat) (hb : Below g f) (T : List Ty) :
    ∀ (l : List Ty) (va : List Ty) (ea : Nat) (vf : List Ty) (ef : Nat),
      (∀ y, y ∈ T → y ∈ va) →
      foldKids (visit g f) T l (va, ea) = some (vf, ef) →
      FoldSpec g T l va vf ea ef := by
  intro l
  induction l with
  | nil =>
    intro va ea vf ef _ hf
    simp [foldKids] at hf
    obtain ⟨rfl, rfl⟩ := hf
    exact ⟨fun _ h => h, Nat.le_refl _, fun _ h => Or.inl h,
           fun _ _ hb => absurd hb (by simp), fun _ _ _ hb => absurd hb (by simp)⟩
  | cons a l ih =>
    intro va ea vf ef hT hf
    simp only [foldKids] at hf
    cases hv : visit g f (a :: T) va with
    | none => simp [hv] at hf
    | some r =>
      obtain ⟨v1, e1⟩ := r
      simp only [hv] at hf
      by_cases ha : a ∈ va
      · -- child already visited: nothing changes
        have := visit_seen g f a T va _ hv ha
        simp only [Prod.mk.injEq] at this
        obtain ⟨rfl, rfl⟩ := this
        have hs := ih v1 (ea + 0) vf ef hT hf
        refine ⟨hs.sub, by have := hs.mono; omega, ?_, ?_, ?_⟩
        · intro x hx
          rcases hs.only x hx with h1 | ⟨b, hbl, hp⟩
          · exact Or.inl h1
          · exact Or.inr ⟨b, List.mem_cons_of_mem _ hbl, hp⟩
        · intro b x hbm hp
          rcases List.mem_cons.mp hbm with rfl | hbl
          · exact absurd ha hp.head_white
          · exact hs.all b x hbl hp
        · intro b x w hbm hp hw hwT
          rcases List.mem_cons.mp hbm with rfl | hbl
          · exact absurd ha hp.head_white
          · have := hs.backedge b x w hbl hp hw hwT; omega
      · -- child expanded
        have hc : VisitSpec g (a :: T) a va v1 e1 := hb a T va v1 e1 ha hT hv
        have hT1 : ∀ y, y ∈ T → y ∈ v1 := fun y hy => hc.sub y (hT y hy)
        have hs := ih v1 (ea + e1) vf ef hT1 hf
        refine ⟨fun x hx => hs.sub x (hc.sub x hx), by have := hs.mono; omega, ?_, ?_, ?_⟩
        · intro x hx
          rcases hs.only x hx with h1 | ⟨b, hbl, hp⟩
          · rcases hc.only x h1 with h2 | h2
            · exact Or.inl h2
            · exact Or.inr ⟨a, List.mem_cons_self, h2⟩
          · exact Or.inr ⟨b, List.mem_cons_of_mem _ hbl, hp.mono hc.sub⟩
        · intro b x hbm hp
          rcases List.mem_cons.mp hbm with rfl | hbl
          · exact hs.sub x (hc.all x hp)
          · rcases hp.split v1 with hw | ⟨y, hy1, _, hyx⟩
            · exact hs.all b x hbl hw
            · -- the path from b meets v1 at y (white before): y is white-reachable from a
              rcases hc.only y hy1 with hyva | hay
              · exact absurd hyva hyx.head_white
              · exact hs.sub x (hc.all x (hay.trans hyx))
        · intro b x w hbm hp hw hwT
          rcases List.mem_cons.mp hbm with rfl | hbl
          · have := hc.backedge x w hp hw (List.mem_cons_of_mem _ hwT)
            have := hs.mono; omega
          · rcases hp.split v1 with hw1 | ⟨y, hy1, _, hyx⟩
            · have := hs.backedge b x w hbl hw1 hw hwT; omega
            · rcases hc.only y hy1 with hyva | hay
              · exact absurd hyva hyx.head_white
              · have := hc.backedge x w (hay.trans hyx) hw (List.mem_cons_of_mem _ hwT)
                have := hs.mono; omega

end WV
