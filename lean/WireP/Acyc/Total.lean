import WireP.Acyc.Machine
namespace WV

def unv (univ vis : List Ty) : Nat := (univ.filter (fun u => !decide (u ∈ vis))).length

theorem len_filter_mono (p q : Ty → Bool) (l : List Ty) (hpq : ∀ u, q u = true → p u = true) :
    (l.filter q).length ≤ (l.filter p).length := by
  induction l with
  | nil => simp
  | cons x xs ih =>
    simp only [List.filter_cons]
    cases hq : q x
    · cases hp : p x <;> simp <;> omega
    · have hp := hpq x hq; simp [hp]; omega

theorem len_filter_drop (p q : Ty → Bool) (l : List Ty) (h : Ty)
    (hpq : ∀ u, q u = true → p u = true) (hp : p h = true) (hq : q h = false) (hm : h ∈ l) :
    (l.filter q).length < (l.filter p).length := by
  induction l with
  | nil => cases hm
  | cons x xs ih =>
    simp only [List.filter_cons]
    by_cases hx : x = h
    · subst hx; have := len_filter_mono p q xs hpq; simp [hp, hq]; omega
    · have hm' : h ∈ xs := by
        cases hm with
        | head => exact absurd rfl hx
        | tail _ h' => exact h'
      have := ih hm'
      cases hqx : q x
      · cases hpx : p x <;> simp <;> omega
      · have hpx := hpq x hqx; simp [hpx]; omega

theorem unv_mono (univ va v1 : List Ty) (hs : ∀ x, x ∈ va → x ∈ v1) : unv univ v1 ≤ unv univ va := by
  unfold unv
  apply len_filter_mono
  intro u hu
  simp at hu ⊢
  exact fun h => hu (hs u h)

theorem unv_drop (univ vis : List Ty) (h : Ty) (hu : h ∈ univ) (hv : h ∉ vis) :
    unv univ (h :: vis) < unv univ vis := by
  unfold unv
  apply len_filter_drop _ _ univ h
  · intro u hu'; simp at hu' ⊢; exact hu'.2
  · simpa using hv
  · simp
  · exact hu

def Closed (g : Graph) (univ : List Ty) : Prop := ∀ u, u ∈ univ → ∀ a, a ∈ g.succ u → a ∈ univ

def TotalBelow (g : Graph) (univ : List Ty) (f : Nat) : Prop :=
  ∀ a T va, a ∈ univ → (∀ y, y ∈ T → y ∈ va) → unv univ va < f →
    ∃ r, visit g f (a :: T) va = some r

theorem fold_total (g : Graph) (univ : List Ty) (f : Nat) (hb : TotalBelow g univ f) (T : List Ty) :
    ∀ (l : List Ty) (va : List Ty) (ea : Nat), (∀ a, a ∈ l → a ∈ univ) →
      (∀ y, y ∈ T → y ∈ va) → unv univ va < f →
      ∃ r, foldKids (visit g f) T l (va, ea) = some r := by
  intro l
  induction l with
  | nil => intro va ea _ _ _; exact ⟨_, rfl⟩
  | cons a l ih =>
    intro va ea hl hT hf
    obtain ⟨⟨v1, e1⟩, hv⟩ := hb a T va (hl a List.mem_cons_self) hT hf
    have hsub : ∀ x, x ∈ va → x ∈ v1 := by
      by_cases ha : a ∈ va
      · have := visit_seen g f a T va _ hv ha
        simp only [Prod.mk.injEq] at this
        intro x hx; rw [this.1]; exact hx
      · exact (visit_spec g f a T va v1 e1 ha hT hv).sub
    have hle := unv_mono univ va v1 hsub
    obtain ⟨r, hr⟩ := ih v1 (ea + e1) (fun b hb' => hl b (List.mem_cons_of_mem _ hb'))
      (fun y hy => hsub y (hT y hy)) (by omega)
    exact ⟨r, by simp only [foldKids, hv]; exact hr⟩

theorem total_below_all (g : Graph) (univ : List Ty) (hc : Closed g univ) :
    ∀ f, TotalBelow g univ f := by
  intro f
  induction f with
  | zero => intro a T va _ _ hf; omega
  | succ f ih =>
    intro h t vis hu ht hf
    by_cases hh : h ∈ vis
    · exact ⟨(vis, 0), by simp [visit, hh]⟩
    · simp only [visit, hh, if_false]
      apply fold_total g univ f ih (h :: t)
      · intro a ha
        rw [List.mem_reverse, mem_kidsN] at ha
        exact hc h hu a ha.1
      · intro y hy
        rcases List.mem_cons.mp hy with rfl | hy'
        · exact List.mem_cons_self
        · exact List.mem_cons_of_mem _ (ht y hy')
      · have := unv_drop univ vis h hu hh; omega

/-- **verifyAcyclic, end to end.**  For every graph, every universe closed under successors,
    every root list inside it that contains every node with successors: the stack machine
    started on the roots reaches the empty stack, and its error count is positive iff the
    graph has a cycle. -/
theorem verifyAcyclic_spec (g : Graph) (univ roots : List Ty)
    (hc : Closed g univ) (hr : ∀ r, r ∈ roots → r ∈ univ)
    (hkeys : ∀ a, g.succ a ≠ [] → a ∈ roots) :
    ∃ n vf ef, iter g n ⟨[], roots.map (fun r => [r]), 0⟩ = some ⟨vf, [], ef⟩ ∧
      (0 < ef ↔ HasCycle g) := by
  obtain ⟨⟨vf, ef⟩, hrun⟩ :=
    fold_total g univ (univ.length + 1) (total_below_all g univ hc _) [] roots [] 0 hr
      (by simp) (by unfold unv; have := List.length_filter_le (fun u => !decide (u ∈ ([] : List Ty))) univ; omega)
  obtain ⟨n, hn⟩ := machine_refines g _ roots vf ef hrun
  exact ⟨n, vf, ef, hn, roots_spec g _ roots vf ef hkeys hrun⟩

end WV
