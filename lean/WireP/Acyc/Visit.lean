/-! Spike: recursive presentation of verifyAcyclic and its completeness (white-path argument). -/
namespace WV

abbrev Ty := Nat

structure Graph where
  succ : Ty → List Ty

/-- successors of `h` not on the trail (these get pushed), in push order -/
def kidsN (g : Graph) (trail : List Ty) (h : Ty) : List Ty :=
  (g.succ h).filter (fun a => decide (a ∉ trail))

/-- number of successors of `h` on the trail (one cycle error each) -/
def back (g : Graph) (trail : List Ty) (h : Ty) : Nat :=
  ((g.succ h).filter (fun a => decide (a ∈ trail))).length

/-- fold over the children, threading the visited set and the error count -/
def foldKids (f : List Ty → List Ty → Option (List Ty × Nat)) (trail : List Ty) :
    List Ty → List Ty × Nat → Option (List Ty × Nat)
  | [], acc => some acc
  | a :: l, acc =>
    match f (a :: trail) acc.1 with
    | none => none
    | some r => foldKids f trail l (r.1, acc.2 + r.2)

def visit (g : Graph) : Nat → List Ty → List Ty → Option (List Ty × Nat)
  | 0, _, _ => none
  | _ + 1, [], vis => some (vis, 0)
  | f + 1, h :: t, vis =>
    if h ∈ vis then some (vis, 0)
    else foldKids (visit g f) (h :: t) (kidsN g (h :: t) h).reverse (h :: vis, back g (h :: t) h)

/-- white path: every node on it (both ends included) is outside `vis` -/
inductive WPath (g : Graph) (vis : List Ty) : Ty → Ty → Prop
  | refl (a : Ty) : a ∉ vis → WPath g vis a a
  | step {a b c : Ty} : a ∉ vis → b ∈ g.succ a → WPath g vis b c → WPath g vis a c

theorem WPath.head_white {g vis a c} (h : WPath g vis a c) : a ∉ vis := by
  cases h <;> assumption

theorem WPath.trans {g vis a b c} (h1 : WPath g vis a b) (h2 : WPath g vis b c) : WPath g vis a c := by
  induction h1 with
  | refl a _ => exact h2
  | step ha hab _ ih => exact WPath.step ha hab (ih h2)

theorem WPath.mono {g vis vis' a c} (hs : ∀ x, x ∈ vis → x ∈ vis') (h : WPath g vis' a c) :
    WPath g vis a c := by
  induction h with
  | refl a ha => exact WPath.refl a (fun hx => ha (hs _ hx))
  | step ha hab _ ih => exact WPath.step (fun hx => ha (hs _ hx)) hab ih

/-- a white path either stays white w.r.t. a larger set, or hits it at some `y` from which the
    rest of the path is still white w.r.t. the smaller set -/
theorem WPath.split {g vis a c} (h : WPath g vis a c) (v1 : List Ty) :
    WPath g v1 a c ∨ ∃ y, y ∈ v1 ∧ WPath g vis a y ∧ WPath g vis y c := by
  induction h with
  | refl a ha =>
    by_cases h1 : a ∈ v1
    · exact Or.inr ⟨a, h1, WPath.refl a ha, WPath.refl a ha⟩
    · exact Or.inl (WPath.refl a h1)
  | @step a b c ha hab hbc ih =>
    by_cases h1 : a ∈ v1
    · exact Or.inr ⟨a, h1, WPath.refl a ha, WPath.step ha hab hbc⟩
    · cases ih with
      | inl hw => exact Or.inl (WPath.step h1 hab hw)
      | inr hy =>
        obtain ⟨y, hy1, hay, hyc⟩ := hy
        exact Or.inr ⟨y, hy1, WPath.step ha hab hay, hyc⟩

/-- leaving `h`: a white path from `a` either avoids `h`, or passes through `h` and then leaves
    it by an edge to a node from which the rest avoids `h`, or ends in `h` -/
theorem WPath.avoid {g vis a c} (hp : WPath g vis a c) (h : Ty) :
    WPath g (h :: vis) a c ∨ (∃ b, b ∈ g.succ h ∧ WPath g (h :: vis) b c) ∨ c = h := by
  induction hp with
  | refl a ha =>
    by_cases e : a = h
    · exact Or.inr (Or.inr e)
    · exact Or.inl (WPath.refl a (by simp [e, ha]))
  | @step a b c ha hab _ ih =>
    rcases ih with h1 | h2 | h3
    · by_cases e : a = h
      · subst e; exact Or.inr (Or.inl ⟨b, hab, h1⟩)
      · exact Or.inl (WPath.step (by simp [e, ha]) hab h1)
    · exact Or.inr (Or.inl h2)
    · exact Or.inr (Or.inr h3)

theorem WPath.from_head {g vis h c} (hp : WPath g vis h c) :
    c = h ∨ ∃ b, b ∈ g.succ h ∧ WPath g (h :: vis) b c := by
  rcases hp.avoid h with h1 | h2 | h3
  · exact absurd (List.mem_cons_self) h1.head_white
  · exact Or.inr h2
  · exact Or.inl h3

end WV
