import WireP.Acyc.VisitSpec
namespace WV

theorem mem_kidsN {g : Graph} {T : List Ty} {h b : Ty} :
    b ∈ kidsN g T h ↔ b ∈ g.succ h ∧ b ∉ T := by
  simp [kidsN]

theorem back_pos {g : Graph} {T : List Ty} {h w : Ty} (hw : w ∈ g.succ h) (hT : w ∈ T) :
    0 < back g T h := by
  unfold back
  apply List.length_pos_of_mem (a := w)
  simp [hw, hT]

theorem below_all (g : Graph) : ∀ f, Below g f := by
  intro f
  induction f with
  | zero =>
    intro a T va v1 e1 _ _ hv
    simp [visit] at hv
  | succ f ih =>
    intro h t vis v' e hh ht hv
    simp only [visit, hh, if_false] at hv
    have hT : ∀ y, y ∈ h :: t → y ∈ h :: vis := by
      intro y hy
      rcases List.mem_cons.mp hy with rfl | hy'
      · exact List.mem_cons_self
      · exact List.mem_cons_of_mem _ (ht y hy')
    have hs := fold_spec g f ih (h :: t) _ _ _ _ _ hT hv
    have hsub : ∀ x, x ∈ vis → x ∈ v' := fun x hx => hs.sub x (List.mem_cons_of_mem _ hx)
    have hhead : h ∈ v' := hs.sub h List.mem_cons_self
    -- a white path leaving h by an edge to b: b is a kid
    have kid : ∀ b x, b ∈ g.succ h → WPath g (h :: vis) b x → b ∈ (kidsN g (h :: t) h).reverse := by
      intro b x hb hp
      have hbw := hp.head_white
      rw [List.mem_reverse, mem_kidsN]
      exact ⟨hb, fun hbt => hbw (hT b hbt)⟩
    refine ⟨hsub, hhead, ?_, ?_, ?_⟩
    · intro x hx
      rcases hs.only x hx with h1 | ⟨a, hal, hp⟩
      · rcases List.mem_cons.mp h1 with rfl | h2
        · exact Or.inr (WPath.refl _ hh)
        · exact Or.inl h2
      · rw [List.mem_reverse, mem_kidsN] at hal
        exact Or.inr (WPath.step hh hal.1 (hp.mono (fun y hy => List.mem_cons_of_mem _ hy)))
    · intro x hp
      rcases hp.from_head with rfl | ⟨b, hb, hbx⟩
      · exact hhead
      · exact hs.all b x (kid b x hb hbx) hbx
    · intro x w hp hw hwT
      rcases hp.from_head with rfl | ⟨b, hb, hbx⟩
      · have := back_pos hw hwT
        have := hs.mono; omega
      · have := hs.backedge b x w (kid b x hb hbx) hbx hw hwT
        omega

theorem visit_spec (g : Graph) (f : Nat) (h : Ty) (t vis v' : List Ty) (e : Nat)
    (hh : h ∉ vis) (ht : ∀ y, y ∈ t → y ∈ vis) (hv : visit g f (h :: t) vis = some (v', e)) :
    VisitSpec g (h :: t) h vis v' e :=
  below_all g f h t vis v' e hh ht hv

end WV
