import WireP.Acyc.VisitCyc
namespace WV

/-- a cycle: `c ⟶* x ⟶ c` -/
def HasCycle (g : Graph) : Prop := ∃ c x, WPath g [] c x ∧ c ∈ g.succ x

/-- trails are stored newest first: `a :: b :: _` means there is an edge `b ⟶ a` -/
def Trail (g : Graph) : List Ty → Prop
  | [] => True
  | [_] => True
  | a :: b :: rest => a ∈ g.succ b ∧ Trail g (b :: rest)

theorem trail_path {g : Graph} : ∀ {T : List Ty} {h w : Ty}, Trail g (h :: T) → w ∈ h :: T →
    WPath g [] w h := by
  intro T
  induction T with
  | nil =>
    intro h w _ hw
    simp at hw; subst hw; exact WPath.refl _ (by simp)
  | cons b rest ih =>
    intro h w ht hw
    rcases List.mem_cons.mp hw with rfl | hw'
    · exact WPath.refl _ (by simp)
    · exact (ih ht.2 hw').snoc ht.1 (by simp)

theorem back_mem {g : Graph} {T : List Ty} {h : Ty} (hb : 0 < back g T h) :
    ∃ w, w ∈ g.succ h ∧ w ∈ T := by
  unfold back at hb
  obtain ⟨w, hw⟩ := List.exists_mem_of_length_pos hb
  simp at hw
  exact ⟨w, hw.1, hw.2⟩

def SoundBelow (g : Graph) (f : Nat) : Prop :=
  ∀ a T va v1 e1, Trail g (a :: T) → visit g f (a :: T) va = some (v1, e1) → 0 < e1 → HasCycle g

theorem fold_sound (g : Graph) (f : Nat) (hb : SoundBelow g f) (h : Ty) (t : List Ty)
    (ht : Trail g (h :: t)) :
    ∀ (l : List Ty) (va : List Ty) (ea : Nat) (vf : List Ty) (ef : Nat),
      (∀ a, a ∈ l → a ∈ g.succ h) →
      foldKids (visit g f) (h :: t) l (va, ea) = some (vf, ef) → ea < ef → HasCycle g := by
  intro l
  induction l with
  | nil => intro va ea vf ef _ hf hlt; simp [foldKids] at hf; omega
  | cons a l ih =>
    intro va ea vf ef hl hf hlt
    simp only [foldKids] at hf
    cases hv : visit g f (a :: h :: t) va with
    | none => simp [hv] at hf
    | some r =>
      obtain ⟨v1, e1⟩ := r
      simp only [hv] at hf
      by_cases he : 0 < e1
      · exact hb a (h :: t) va v1 e1 ⟨hl a List.mem_cons_self, ht⟩ hv he
      · have : e1 = 0 := by omega
        subst this
        exact ih v1 (ea + 0) vf ef (fun b hb' => hl b (List.mem_cons_of_mem _ hb')) hf (by omega)

theorem sound_below_all (g : Graph) : ∀ f, SoundBelow g f := by
  intro f
  induction f with
  | zero => intro a T va v1 e1 _ hv; simp [visit] at hv
  | succ f ih =>
    intro h t vis v' e ht hv he
    by_cases hh : h ∈ vis
    · simp [visit, hh] at hv; omega
    · simp only [visit, hh, if_false] at hv
      by_cases hbk : 0 < back g (h :: t) h
      · obtain ⟨w, hw, hwT⟩ := back_mem hbk
        exact ⟨w, h, trail_path ht hwT, hw⟩
      · have hb0 : back g (h :: t) h = 0 := by omega
        rw [hb0] at hv
        exact fold_sound g f ih h t ht _ _ _ _ _
          (fun a ha => by rw [List.mem_reverse, mem_kidsN] at ha; exact ha.1) hv he

/-- Soundness at the top level -/
theorem roots_sound (g : Graph) (f : Nat) :
    ∀ (roots : List Ty) (va : List Ty) (ea : Nat) (vf : List Ty) (ef : Nat),
    foldKids (visit g f) [] roots (va, ea) = some (vf, ef) → ea < ef → HasCycle g := by
  intro roots
  induction roots with
  | nil => intro va ea vf ef hf hlt; simp [foldKids] at hf; omega
  | cons r l ih =>
    intro va ea vf ef hf hlt
    simp only [foldKids] at hf
    cases hv : visit g f [r] va with
    | none => simp [hv] at hf
    | some res =>
      obtain ⟨v1, e1⟩ := res
      simp only [hv] at hf
      by_cases he : 0 < e1
      · exact sound_below_all g f r [] va v1 e1 trivial hv he
      · have : e1 = 0 := by omega
        subst this
        exact ih v1 (ea + 0) vf ef hf (by omega)

/-- The specification of the cycle detector (recursive presentation): if every node that has
    successors is a root (in Wire: every key of the provider map is a root, non-keys are leaves),
    a finished run reports an error iff the graph has a cycle. -/
theorem roots_spec (g : Graph) (f : Nat) (roots vf : List Ty) (ef : Nat)
    (hkeys : ∀ a, g.succ a ≠ [] → a ∈ roots)
    (hrun : foldKids (visit g f) [] roots ([], 0) = some (vf, ef)) :
    0 < ef ↔ HasCycle g := by
  constructor
  · intro he
    exact roots_sound g f roots [] 0 vf ef hrun he
  · rintro ⟨c, x, hcx, hxc⟩
    have hc : c ∈ roots := by
      apply hkeys
      cases hcx with
      | refl _ _ => exact List.ne_nil_of_mem hxc
      | step _ hab _ => exact List.ne_nil_of_mem hab
    exact roots_complete g f roots vf ef hrun c x hc hcx hxc

end WV
