import WireP.Acyc.VisitMain
namespace WV

theorem WPath.snoc {g vis a x c} (hp : WPath g vis a x) (hc : c ∈ g.succ x) (hw : c ∉ vis) :
    WPath g vis a c :=
  hp.trans (WPath.step (by
    -- x is white: it is the last node of a white path
    clear hc hw
    induction hp with
    | refl a ha => exact ha
    | step _ _ _ ih => exact ih) hc (WPath.refl c hw))

/-- where does a white path from `c` meet `h`? never, at its start, or by an edge entering `h` -/
theorem WPath.enter {g vis c x} (hp : WPath g vis c x) (h : Ty) :
    WPath g (h :: vis) c x ∨ c = h ∨ ∃ y, WPath g vis c y ∧ h ∈ g.succ y := by
  induction hp with
  | refl a ha =>
    by_cases e : a = h
    · exact Or.inr (Or.inl e)
    · exact Or.inl (WPath.refl a (by simp [e, ha]))
  | @step a b c ha hab hbc ih =>
    by_cases e : a = h
    · exact Or.inr (Or.inl e)
    · rcases ih with h1 | h2 | ⟨y, hy, hhy⟩
      · exact Or.inl (WPath.step (by simp [e, ha]) hab h1)
      · subst h2
        exact Or.inr (Or.inr ⟨a, WPath.refl a ha, hab⟩)
      · exact Or.inr (Or.inr ⟨y, WPath.step ha hab hy, hhy⟩)

def CycBelow (g : Graph) (f : Nat) : Prop :=
  ∀ a T va v1 e1, a ∉ va → (∀ y, y ∈ T → y ∈ va) →
    visit g f (a :: T) va = some (v1, e1) →
    ∀ c x, WPath g va a c → WPath g va c x → c ∈ g.succ x → 0 < e1

theorem fold_cyc (g : Graph) (f : Nat) (hb : CycBelow g f) (T : List Ty) :
    ∀ (l : List Ty) (va : List Ty) (ea : Nat) (vf : List Ty) (ef : Nat),
      (∀ y, y ∈ T → y ∈ va) →
      foldKids (visit g f) T l (va, ea) = some (vf, ef) →
      ∀ b c x, b ∈ l → WPath g va b c → WPath g va c x → c ∈ g.succ x → ea < ef := by
  intro l
  induction l with
  | nil => intro _ _ _ _ _ _ b _ _ hbm; exact absurd hbm (by simp)
  | cons a l ih =>
    intro va ea vf ef hT hf b c x hbm hbc hcx hxc
    simp only [foldKids] at hf
    cases hv : visit g f (a :: T) va with
    | none => simp [hv] at hf
    | some r =>
      obtain ⟨v1, e1⟩ := r
      simp only [hv] at hf
      by_cases ha : a ∈ va
      · have := visit_seen g f a T va _ hv ha
        simp only [Prod.mk.injEq] at this
        obtain ⟨rfl, rfl⟩ := this
        rcases List.mem_cons.mp hbm with rfl | hbl
        · exact absurd ha hbc.head_white
        · have := ih v1 (ea + 0) vf ef hT hf b c x hbl hbc hcx hxc; omega
      · have hc : VisitSpec g (a :: T) a va v1 e1 := visit_spec g f a T va v1 e1 ha hT hv
        have hcyc := hb a T va v1 e1 ha hT hv
        have hT1 : ∀ y, y ∈ T → y ∈ v1 := fun y hy => hc.sub y (hT y hy)
        have hmono := (fold_spec g f (below_all g f) T l v1 (ea + e1) vf ef hT1 hf).mono
        -- it suffices to show that either the child already reported, or the rest will
        suffices h : 0 < e1 ∨ (b ∈ l ∧ WPath g v1 b c ∧ WPath g v1 c x) by
          rcases h with h | ⟨hbl, h1, h2⟩
          · omega
          · have := ih v1 (ea + e1) vf ef hT1 hf b c x hbl h1 h2 hxc; omega
        rcases List.mem_cons.mp hbm with rfl | hbl
        · exact Or.inl (hcyc c x hbc hcx hxc)
        · rcases hbc.split v1 with hw1 | ⟨y, hy1, _, hyc⟩
          · rcases hcx.split v1 with hw2 | ⟨y, hy1, hcy, hyx⟩
            · exact Or.inr ⟨hbl, hw1, hw2⟩
            · rcases hc.only y hy1 with hyva | hay
              · exact absurd hyva hyx.head_white
              · -- a ⟶* y ⟶* x ⟶ c : the cycle through c is white-reachable from a
                have hac : WPath g va a c := (hay.trans hyx).snoc hxc hcx.head_white
                exact Or.inl (hcyc c x hac hcx hxc)
          · rcases hc.only y hy1 with hyva | hay
            · exact absurd hyva hyc.head_white
            · exact Or.inl (hcyc c x (hay.trans hyc) hcx hxc)

theorem cyc_below_all (g : Graph) : ∀ f, CycBelow g f := by
  intro f
  induction f with
  | zero => intro a T va v1 e1 _ _ hv; simp [visit] at hv
  | succ f ih =>
    intro h t vis v' e hh ht hv c x hhc hcx hxc
    have hspec := visit_spec g (f + 1) h t vis v' e hh ht hv
    simp only [visit, hh, if_false] at hv
    have hT : ∀ y, y ∈ h :: t → y ∈ h :: vis := by
      intro y hy
      rcases List.mem_cons.mp hy with rfl | hy'
      · exact List.mem_cons_self
      · exact List.mem_cons_of_mem _ (ht y hy')
    rcases hcx.enter h with havoid | rfl | ⟨y, hcy, hhy⟩
    · -- the cycle avoids h: it is white w.r.t. h :: vis and reached through a kid
      rcases hhc.from_head with rfl | ⟨b, hb, hbc⟩
      · exact absurd List.mem_cons_self havoid.head_white
      · have hbk : b ∈ (kidsN g (h :: t) h).reverse := by
          rw [List.mem_reverse, mem_kidsN]
          exact ⟨hb, fun hbt => hbc.head_white (hT b hbt)⟩
        have := fold_cyc g f ih (h :: t) _ _ _ _ _ hT hv b c x hbk hbc havoid hxc
        omega
    · -- c = h : x ⟶ h is a back edge
      exact hspec.backedge x c hcx hxc List.mem_cons_self
    · -- some y on the cycle has an edge into h
      exact hspec.backedge y h (hhc.trans hcy) hhy List.mem_cons_self

/-- Completeness at the top level: the loop over roots is `foldKids` with the empty trail.
    If some root lies on a cycle, at least one error is reported. -/
theorem roots_complete (g : Graph) (f : Nat) (roots vf : List Ty) (ef : Nat)
    (hrun : foldKids (visit g f) [] roots ([], 0) = some (vf, ef))
    (c x : Ty) (hc : c ∈ roots) (hcx : WPath g [] c x) (hxc : c ∈ g.succ x) : 0 < ef :=
  fold_cyc g f (cyc_below_all g f) [] roots [] 0 vf ef (by simp) hrun c c x hc
    (WPath.refl c (by simp)) hcx hxc

end WV
