import WireP.Acyc.VisitSound
namespace WV

/-- The stack machine, as in analyze.go: pop a trail, skip if its head is visited, otherwise
    mark it, report one error per successor on the trail, push the other successors. -/
structure St where
  visited : List Ty
  stk : List (List Ty)
  errs : Nat

def step (g : Graph) (s : St) : Option St :=
  match s.stk with
  | [] => none
  | [] :: rest => some { s with stk := rest }
  | (h :: t) :: rest =>
    if h ∈ s.visited then some { s with stk := rest }
    else some { visited := h :: s.visited
                stk := ((kidsN g (h :: t) h).map (fun a => a :: h :: t)).reverse ++ rest
                errs := s.errs + back g (h :: t) h }

def iter (g : Graph) : Nat → St → Option St
  | 0, s => some s
  | n + 1, s => (step g s).bind (iter g n)

theorem iter_add (g : Graph) (m n : Nat) (s : St) :
    iter g (m + n) s = (iter g m s).bind (iter g n) := by
  induction m generalizing s with
  | zero => simp [iter]
  | succ m ih =>
    have : m + 1 + n = (m + n) + 1 := by omega
    rw [this]
    simp only [iter]
    cases step g s with
    | none => simp
    | some s' => simp [ih]

def MachBelow (g : Graph) (f : Nat) : Prop :=
  ∀ T vis v' e', visit g f T vis = some (v', e') →
    ∀ rest e, ∃ n, iter g n ⟨vis, T :: rest, e⟩ = some ⟨v', rest, e + e'⟩

theorem fold_machine (g : Graph) (f : Nat) (hb : MachBelow g f) (T : List Ty) :
    ∀ (l : List Ty) (va : List Ty) (ea : Nat) (vf : List Ty) (ef : Nat),
      foldKids (visit g f) T l (va, ea) = some (vf, ef) →
      ∀ rest, ∃ n, iter g n ⟨va, l.map (fun a => a :: T) ++ rest, ea⟩ = some ⟨vf, rest, ef⟩ := by
  intro l
  induction l with
  | nil =>
    intro va ea vf ef hf rest
    simp [foldKids] at hf
    obtain ⟨rfl, rfl⟩ := hf
    exact ⟨0, by simp [iter]⟩
  | cons a l ih =>
    intro va ea vf ef hf rest
    simp only [foldKids] at hf
    cases hv : visit g f (a :: T) va with
    | none => simp [hv] at hf
    | some r =>
      obtain ⟨v1, e1⟩ := r
      simp only [hv] at hf
      obtain ⟨n1, h1⟩ := hb (a :: T) va v1 e1 hv (l.map (fun a => a :: T) ++ rest) ea
      obtain ⟨n2, h2⟩ := ih v1 (ea + e1) vf ef hf rest
      refine ⟨n1 + n2, ?_⟩
      rw [iter_add]
      simp only [List.map_cons, List.cons_append]
      rw [h1]
      simpa using h2

theorem mach_below_all (g : Graph) : ∀ f, MachBelow g f := by
  intro f
  induction f with
  | zero => intro T vis v' e' hv; simp [visit] at hv
  | succ f ih =>
    intro T vis v' e' hv rest e
    cases T with
    | nil =>
      simp [visit] at hv
      obtain ⟨rfl, rfl⟩ := hv
      exact ⟨1, by simp [iter, step]⟩
    | cons h t =>
      by_cases hh : h ∈ vis
      · simp [visit, hh] at hv
        obtain ⟨rfl, rfl⟩ := hv
        exact ⟨1, by simp [iter, step, hh]⟩
      · simp only [visit, hh, if_false] at hv
        -- thread the outer error count `e` through the fold
        have key : ∀ (l : List Ty) (va : List Ty) (ea : Nat) (vf : List Ty) (ef : Nat),
            foldKids (visit g f) (h :: t) l (va, ea) = some (vf, ef) →
            foldKids (visit g f) (h :: t) l (va, e + ea) = some (vf, e + ef) := by
          intro l
          induction l with
          | nil =>
            intro va ea vf ef hf
            simp [foldKids] at hf ⊢
            obtain ⟨rfl, rfl⟩ := hf
            exact ⟨rfl, rfl⟩
          | cons a l ihl =>
            intro va ea vf ef hf
            simp only [foldKids] at hf ⊢
            cases hv' : visit g f (a :: h :: t) va with
            | none => simp [hv'] at hf
            | some r =>
              simp only [hv'] at hf ⊢
              have := ihl r.1 (ea + r.2) vf ef hf
              simpa [Nat.add_assoc] using this
        have hf' := key _ _ _ _ _ hv
        obtain ⟨n, hn⟩ := fold_machine g f ih (h :: t) _ _ _ _ _ hf' rest
        refine ⟨n + 1, ?_⟩
        have : n + 1 = 1 + n := by omega
        rw [this, iter_add]
        simp only [iter, step, hh, if_false, Option.bind_some, List.map_reverse] at hn ⊢
        simpa [List.map_reverse] using hn

/-- The real loop: the initial stack holds one singleton trail per root (first root on top).
    If the recursive presentation finishes, the machine reaches the empty stack with the same
    visited set and error count. -/
theorem machine_refines (g : Graph) (f : Nat) (roots vf : List Ty) (ef : Nat)
    (hrun : foldKids (visit g f) [] roots ([], 0) = some (vf, ef)) :
    ∃ n, iter g n ⟨[], roots.map (fun r => [r]), 0⟩ = some ⟨vf, [], ef⟩ := by
  have := fold_machine g f (mach_below_all g f) [] roots [] 0 vf ef hrun []
  simpa using this

end WV
