/-! Spike: the planner `solve` of analyze.go as a stack machine, and its big-step lemma under
    well-foundedness of the dependency relation (= acyclicity, established by verifyAcyclic). -/
namespace WS

abbrev Ty := Nat

/-- what `set.For(t)` returns, reduced to what planning needs: the concrete type (`≠ t` exactly for
    an interface binding) and the dependencies (provider parameters, a field's parent, `[]` for a value) -/
structure Node where
  conc : Ty
  deps : List Ty

abbrev Idx := Option Nat        -- `none` = errAbort

def look (t : Ty) : List (Ty × Idx) → Option Idx
  | [] => none
  | (k, v) :: l => if t = k then some v else look t l

structure St where
  index : List (Ty × Idx)
  stk : List Ty                 -- top of stack = head
  calls : List (Ty × List Nat)  -- output type, argument indices
  errs : List Ty                -- "no provider found for"

def missing (s : St) (nd : Node) : List Ty := nd.deps.filter (fun a => (look a s.index).isNone)

def argIdx (s : St) (nd : Node) : List Idx := nd.deps.map (fun a => (look a s.index).join)

def step (lk : Ty → Option Node) (ng : Nat) (s : St) : Option St :=
  match s.stk with
  | [] => none
  | t :: rest =>
    match look t s.index with
    | some _ => some { s with stk := rest }
    | none =>
      match lk t with
      | none => some { s with stk := rest, errs := s.errs ++ [t], index := (t, none) :: s.index }
      | some nd =>
        if nd.conc ≠ t then
          match look nd.conc s.index with
          | none => some { s with stk := nd.conc :: t :: rest }
          | some i => some { s with stk := rest, index := (t, i) :: s.index }
        else if missing s nd ≠ [] then some { s with stk := missing s nd ++ t :: rest }
        else if (argIdx s nd).any Option.isNone then
          some { s with stk := rest, index := (t, none) :: s.index }
        else
          some { s with stk := rest, index := (t, some (ng + s.calls.length)) :: s.index,
                        calls := s.calls ++ [(t, (argIdx s nd).filterMap id)] }

def iter (lk : Ty → Option Node) (ng : Nat) : Nat → St → Option St
  | 0, s => some s
  | n + 1, s => (step lk ng s).bind (iter lk ng n)

theorem iter_add (lk : Ty → Option Node) (ng m n : Nat) (s : St) :
    iter lk ng (m + n) s = (iter lk ng m s).bind (iter lk ng n) := by
  induction m generalizing s with
  | zero => simp [iter]
  | succ m ih =>
    have : m + 1 + n = (m + n) + 1 := by omega
    rw [this]
    simp only [iter]
    cases step lk ng s with
    | none => simp
    | some s' => simp [ih]

/-- the dependency relation the planner follows -/
def dep (lk : Ty → Option Node) (t u : Ty) : Prop :=
  ∃ nd, lk t = some nd ∧ ((nd.conc ≠ t ∧ u = nd.conc) ∨ (nd.conc = t ∧ u ∈ nd.deps))

inductive Reach (lk : Ty → Option Node) : Ty → Ty → Prop
  | refl (a : Ty) : Reach lk a a
  | step {a b c : Ty} : dep lk a b → Reach lk b c → Reach lk a c

theorem Reach.trans {lk a b c} (h1 : Reach lk a b) (h2 : Reach lk b c) : Reach lk a c := by
  induction h1 with
  | refl _ => exact h2
  | step hab _ ih => exact Reach.step hab (ih h2)

theorem Reach.snoc {lk a b c} (h1 : Reach lk a b) (h2 : dep lk b c) : Reach lk a c :=
  h1.trans (Reach.step h2 (Reach.refl c))

/-- acyclicity, in the form the induction needs -/
def Acyclic (lk : Ty → Option Node) : Prop := WellFounded (fun u t => dep lk t u)

theorem no_cycle {lk} (hwf : Acyclic lk) : ∀ t d, dep lk t d → ¬ Reach lk d t := by
  intro t
  induction t using hwf.induction with
  | _ t ih =>
    intro d htd hdt
    -- rotate the cycle t ⟶ d ⟶* t to one through d, contradicting the hypothesis at d
    cases hdt with
    | refl _ => exact ih t htd t htd (Reach.refl t)
    | step hdb hbt => exact ih d htd _ hdb (hbt.snoc htd)

end WS
