/-! Spike: the cleanup / error structure emitted by `injectPass` + `funcProviderCall`, and the
    C03 / C04 theorems about its execution, for every call list and every fault plan. -/
namespace WC

structure Call where
  id : Nat
  hasCleanup : Bool
  hasErr : Bool

/-- one emitted provider step: the error branch (if any) lists the cleanups to run, already in
    the order the generated code runs them -/
structure Stmt where
  id : Nat
  errBranch : Option (List Nat)

/-- `funcProviderCall`: `prevCleanup := len(cleanupNames)` *before* the own cleanup is appended;
    the branch runs `cleanupNames[prevCleanup-1 .. 0]` -/
def emitFrom (acq : List Nat) : List Call → List Stmt × List Nat
  | [] => ([], acq)
  | c :: cs =>
    let acq' := if c.hasCleanup then acq ++ [c.id] else acq
    let st : Stmt := { id := c.id, errBranch := if c.hasErr then some acq.reverse else none }
    let r := emitFrom acq' cs
    (st :: r.1, r.2)

/-- the whole injector: steps, and the body of the returned cleanup closure -/
def emit (cs : List Call) : List Stmt × List Nat :=
  let r := emitFrom [] cs
  (r.1, r.2.reverse)

inductive Ev
  | call (id : Nat)
  | cleanup (id : Nat)
deriving DecidableEq, Repr

inductive Outcome
  | failed (id : Nat)                -- returned (zero, nil, err of provider `id`)
  | ok (closure : List Nat)          -- returned (value, closure, nil)
deriving DecidableEq, Repr

/-- run the emitted steps under a fault plan -/
def exec (fails : Nat → Bool) (closure : List Nat) : List Stmt → List Ev × Outcome
  | [] => ([], Outcome.ok closure)
  | s :: ss =>
    match s.errBranch with
    | some cl =>
      if fails s.id then (Ev.call s.id :: cl.map Ev.cleanup, Outcome.failed s.id)
      else let r := exec fails closure ss; (Ev.call s.id :: r.1, r.2)
    | none => let r := exec fails closure ss; (Ev.call s.id :: r.1, r.2)

def run (fails : Nat → Bool) (cs : List Call) : List Ev × Outcome :=
  exec fails (emit cs).2 (emit cs).1

/-- ids of the cleanup-returning calls, in acquisition order -/
def cleanupsOf (cs : List Call) : List Nat := (cs.filter (·.hasCleanup)).map (·.id)

theorem emitFrom_acq (acq : List Nat) (cs : List Call) :
    (emitFrom acq cs).2 = acq ++ cleanupsOf cs := by
  induction cs generalizing acq with
  | nil => simp [emitFrom, cleanupsOf]
  | cons c cs ih =>
    simp only [emitFrom]
    rw [ih]
    cases h : c.hasCleanup <;> simp [cleanupsOf, h]

/-- general form: starting with `acq` already acquired -/
theorem exec_spec (fails : Nat → Bool) (closure : List Nat) (acq : List Nat) (cs : List Call) :
    -- success: no error-capable call fails
    ((∀ c, c ∈ cs → ¬ (c.hasErr = true ∧ fails c.id = true)) →
      exec fails closure (emitFrom acq cs).1 = (cs.map (fun c => Ev.call c.id), Outcome.ok closure)) ∧
    -- failure at the first failing error-capable call
    (∀ pre c post, cs = pre ++ c :: post → c.hasErr = true → fails c.id = true →
      (∀ d, d ∈ pre → ¬ (d.hasErr = true ∧ fails d.id = true)) →
      exec fails closure (emitFrom acq cs).1 =
        ((pre ++ [c]).map (fun c => Ev.call c.id) ++
           ((acq ++ cleanupsOf pre).reverse).map Ev.cleanup, Outcome.failed c.id)) := by
  induction cs generalizing acq with
  | nil =>
    refine ⟨fun _ => by simp [emitFrom, exec], ?_⟩
    intro pre c post h
    cases pre <;> simp at h
  | cons x xs ih =>
    refine ⟨?_, ?_⟩
    · intro hok
      have hx := hok x List.mem_cons_self
      have hrest := (ih (if x.hasCleanup then acq ++ [x.id] else acq)).1
        (fun c hc => hok c (List.mem_cons_of_mem _ hc))
      simp only [emitFrom, exec]
      cases he : x.hasErr
      · simp [hrest]
      · have hf : fails x.id = false := by
          cases hfx : fails x.id
          · rfl
          · exact absurd ⟨he, hfx⟩ hx
        simp [hf, hrest]
    · intro pre c post hcs hce hcf hpre
      cases pre with
      | nil =>
        simp at hcs
        obtain ⟨rfl, rfl⟩ := hcs
        simp [emitFrom, exec, hce, hcf, cleanupsOf]
      | cons p pre' =>
        simp at hcs
        obtain ⟨hpx, rfl⟩ := hcs
        subst hpx
        have hp := hpre x List.mem_cons_self
        have hrest := (ih (if x.hasCleanup then acq ++ [x.id] else acq)).2 pre' c post rfl hce hcf
          (fun d hd => hpre d (List.mem_cons_of_mem _ hd))
        simp only [emitFrom, exec]
        have hacq : (if x.hasCleanup then acq ++ [x.id] else acq) ++ cleanupsOf pre'
            = acq ++ cleanupsOf (x :: pre') := by
          cases h : x.hasCleanup <;> simp [cleanupsOf, h]
        rw [hacq] at hrest
        cases he : x.hasErr
        · simp [hrest]
        · have hf : fails x.id = false := by
            cases hfx : fails x.id
            · rfl
            · exact absurd ⟨he, hfx⟩ hp
          simp [hf, hrest]

/-- **C04.** No failure: every provider is called, in order, no cleanup runs, and the returned
    closure runs the cleanups of exactly the cleanup-returning providers in reverse order. -/
theorem run_ok (fails : Nat → Bool) (cs : List Call)
    (hok : ∀ c, c ∈ cs → ¬ (c.hasErr = true ∧ fails c.id = true)) :
    run fails cs = (cs.map (fun c => Ev.call c.id), Outcome.ok (cleanupsOf cs).reverse) := by
  unfold run emit
  have := (exec_spec fails ((emitFrom [] cs).2.reverse) [] cs).1 hok
  simp only [emitFrom_acq, List.nil_append] at this ⊢
  exact this

/-- **C03.** Failure of `c` (the first failing error-capable provider): exactly the providers up
    to and including `c` are called, then the cleanups of the earlier cleanup-returning providers
    run in reverse order of acquisition — not `c`'s own — and the injector returns `c`'s error. -/
theorem run_fail (fails : Nat → Bool) (pre post : List Call) (c : Call)
    (hce : c.hasErr = true) (hcf : fails c.id = true)
    (hpre : ∀ d, d ∈ pre → ¬ (d.hasErr = true ∧ fails d.id = true)) :
    run fails (pre ++ c :: post) =
      ((pre ++ [c]).map (fun c => Ev.call c.id) ++ (cleanupsOf pre).reverse.map Ev.cleanup,
       Outcome.failed c.id) := by
  unfold run emit
  have := (exec_spec fails ((emitFrom [] (pre ++ c :: post)).2.reverse) [] (pre ++ c :: post)).2
    pre c post rfl hce hcf hpre
  simpa using this

-- non-vacuity: three providers, the middle one has a cleanup, the last one fails
example : run (fun i => i == 3) [⟨1, true, false⟩, ⟨2, true, true⟩, ⟨3, true, true⟩, ⟨4, false, false⟩]
    = ([Ev.call 1, Ev.call 2, Ev.call 3, Ev.cleanup 2, Ev.cleanup 1], Outcome.failed 3) := by decide

end WC
