import WireP.SolveS.Solve
namespace WS

structure Ext (lk : Ty → Option Node) (t : Ty) (s s' : St) : Prop where
  keep : ∀ u i, look u s.index = some i → look u s'.index = some i
  new : ∀ u, (look u s'.index).isSome → (look u s.index).isSome ∨ Reach lk t u

theorem Ext.rfl' {lk t s s'} (h : s'.index = s.index) : Ext lk t s s' :=
  ⟨fun u i hu => by rw [h]; exact hu, fun u hu => Or.inl (by rw [h] at hu; exact hu)⟩

theorem Ext.trans_sub {lk t c s s1 s2} (hr : Reach lk t c) (h1 : Ext lk t s s1) (h2 : Ext lk c s1 s2) :
    Ext lk t s s2 :=
  ⟨fun u i hu => h2.keep u i (h1.keep u i hu),
   fun u hu => by
     rcases h2.new u hu with h | h
     · exact h1.new u h
     · exact Or.inr (hr.trans h)⟩

/-- adding a fresh key `t` -/
theorem Ext.add {lk t s s'} (v : Idx) (hn : look t s.index = none) (h : s'.index = (t, v) :: s.index) :
    Ext lk t s s' := by
  refine ⟨?_, ?_⟩
  · intro u i hu
    rw [h]
    by_cases e : u = t
    · subst e; rw [hn] at hu; cases hu
    · simp [look, e, hu]
  · intro u hu
    rw [h] at hu
    by_cases e : u = t
    · subst e; exact Or.inr (Reach.refl _)
    · simp [look, e] at hu; exact Or.inl hu

theorem iter_one (lk ng s) : iter lk ng 1 s = step lk ng s := by
  simp [iter]

def Goal (lk : Ty → Option Node) (ng : Nat) (t : Ty) : Prop :=
  ∀ s rest, s.stk = t :: rest →
    ∃ n s', iter lk ng n s = some s' ∧ s'.stk = rest ∧ (look t s'.index).isSome ∧ Ext lk t s s'

/-- process a list of dependencies of `t` sitting on top of the stack -/
theorem big_list (lk : Ty → Option Node) (ng : Nat) (t : Ty)
    (ih : ∀ a, dep lk t a → Goal lk ng a) :
    ∀ (l : List Ty), (∀ a, a ∈ l → dep lk t a) → ∀ s rest, s.stk = l ++ rest →
      ∃ n s', iter lk ng n s = some s' ∧ s'.stk = rest ∧
        (∀ a, a ∈ l → (look a s'.index).isSome) ∧
        (∀ u i, look u s.index = some i → look u s'.index = some i) ∧
        (∀ u, (look u s'.index).isSome → (look u s.index).isSome ∨ ∃ a, a ∈ l ∧ Reach lk a u) := by
  intro l
  induction l with
  | nil =>
    intro _ s rest hs
    exact ⟨0, s, rfl, by simpa using hs, by simp, fun _ _ h => h, fun _ h => Or.inl h⟩
  | cons a l ihl =>
    intro hl s rest hs
    have hda := hl a List.mem_cons_self
    obtain ⟨n1, s1, h1, hs1, ha1, he1⟩ := ih a hda s (l ++ rest) (by simpa using hs)
    obtain ⟨n2, s2, h2, hs2, hl2, hk2, hn2⟩ :=
      ihl (fun b hb => hl b (List.mem_cons_of_mem _ hb)) s1 rest hs1
    refine ⟨n1 + n2, s2, by rw [iter_add, h1]; simpa using h2, hs2, ?_, ?_, ?_⟩
    · intro b hb
      rcases List.mem_cons.mp hb with rfl | hb'
      · cases hx : look b s1.index with
        | none => rw [hx] at ha1; cases ha1
        | some i => rw [hk2 b i hx]; rfl
      · exact hl2 b hb'
    · exact fun u i hu => hk2 u i (he1.keep u i hu)
    · intro u hu
      rcases hn2 u hu with h | ⟨b, hb, hbu⟩
      · rcases he1.new u h with h' | h'
        · exact Or.inl h'
        · exact Or.inr ⟨a, List.mem_cons_self, h'⟩
      · exact Or.inr ⟨b, List.mem_cons_of_mem _ hb, hbu⟩

def sDone (s : St) (rest : List Ty) (t : Ty) (v : Idx) : St :=
  { s with stk := rest, index := (t, v) :: s.index }

def sCall (s : St) (rest : List Ty) (t : Ty) (ng : Nat) (args : List Nat) : St :=
  { s with stk := rest, index := (t, some (ng + s.calls.length)) :: s.index,
           calls := s.calls ++ [(t, args)] }

theorem big (lk : Ty → Option Node) (ng : Nat) (hwf : Acyclic lk) : ∀ t, Goal lk ng t := by
  intro t
  induction t using hwf.induction with
  | _ t ih =>
    intro s rest hs
    cases hlt : look t s.index with
    | some i =>
      refine ⟨1, { s with stk := rest }, ?_, rfl, by simp [hlt], Ext.rfl' rfl⟩
      rw [iter_one]; simp [step, hs, hlt]
    | none =>
      cases hlk : lk t with
      | none =>
        refine ⟨1, { s with stk := rest, errs := s.errs ++ [t], index := (t, none) :: s.index },
          ?_, rfl, by simp [look], Ext.add none hlt rfl⟩
        rw [iter_one]; simp [step, hs, hlt, hlk]
      | some nd =>
        by_cases hb : nd.conc ≠ t
        · -- interface binding
          have hdep : dep lk t nd.conc := ⟨nd, hlk, Or.inl ⟨hb, rfl⟩⟩
          cases hlc : look nd.conc s.index with
          | some i =>
            refine ⟨1, { s with stk := rest, index := (t, i) :: s.index }, ?_, rfl,
              by simp [look], Ext.add i hlt rfl⟩
            rw [iter_one]; simp [step, hs, hlt, hlk, hb, hlc]
          | none =>
            -- push concrete, come back
            let s0 : St := { s with stk := nd.conc :: t :: rest }
            have h0 : step lk ng s = some s0 := by simp [step, hs, hlt, hlk, hb, hlc, s0]
            obtain ⟨n1, s1, h1, hs1, hc1, he1⟩ := ih nd.conc hdep s0 (t :: rest) rfl
            -- t is still un-indexed: otherwise it would be reachable from its own dependency
            have hlt1 : look t s1.index = none := by
              cases hx : look t s1.index with
              | none => rfl
              | some i =>
                rcases he1.new t (by simp [hx]) with h | h
                · simp [s0, hlt] at h
                · exact absurd h (no_cycle hwf t nd.conc hdep)
            obtain ⟨i, hi⟩ : ∃ i, look nd.conc s1.index = some i := by
              cases hx : look nd.conc s1.index with
              | none => rw [hx] at hc1; cases hc1
              | some i => exact ⟨i, rfl⟩
            let s2 : St := { s1 with stk := rest, index := (t, i) :: s1.index }
            have h2 : step lk ng s1 = some s2 := by simp [step, hs1, hlt1, hlk, hb, hi, s2]
            refine ⟨1 + (n1 + 1), s2, ?_, rfl, by simp [s2, look], ?_⟩
            · rw [iter_add, iter_one, h0]
              simp only [Option.bind_some]
              rw [iter_add, h1]
              simp only [Option.bind_some]
              rw [iter_one, h2]
            · have e01 : Ext lk t s s1 :=
                ⟨fun u j hu => he1.keep u j (by simpa [s0] using hu),
                 fun u hu => by
                   rcases he1.new u hu with h | h
                   · exact Or.inl (by simpa [s0] using h)
                   · exact Or.inr (Reach.step hdep h)⟩
              exact Ext.trans_sub (Reach.refl t) e01 (Ext.add i hlt1 rfl)
        · -- provider / value / field
          have hc : nd.conc = t := by
            by_cases e : nd.conc = t
            · exact e
            · exact absurd e hb
          have hdeps : ∀ a, a ∈ nd.deps → dep lk t a := fun a ha => ⟨nd, hlk, Or.inr ⟨hc, ha⟩⟩
          -- the last visit of `t`, from a state where every dependency is indexed
          have final : ∀ s1 : St, s1.stk = t :: rest → look t s1.index = none →
              (∀ a, a ∈ nd.deps → (look a s1.index).isSome) →
              ∃ s2, step lk ng s1 = some s2 ∧ s2.stk = rest ∧ (look t s2.index).isSome ∧ Ext lk t s1 s2 := by
            intro s1 hs1 hlt1 hall
            have hm : missing s1 nd = [] := by
              unfold missing
              rw [List.filter_eq_nil_iff]
              intro a ha
              have := hall a ha
              cases hx : look a s1.index with
              | none => rw [hx] at this; cases this
              | some _ => simp
            by_cases hab : (argIdx s1 nd).any Option.isNone = true
            · exact ⟨sDone s1 rest t none,
                by simp [step, hs1, hlt1, hlk, hb, hm, hab, sDone], rfl, by simp [look, sDone],
                Ext.add none hlt1 rfl⟩
            · exact ⟨sCall s1 rest t ng ((argIdx s1 nd).filterMap id),
                by simp [step, hs1, hlt1, hlk, hb, hm, hab, sCall], rfl, by simp [look, sCall],
                Ext.add _ hlt1 rfl⟩
          by_cases hm : missing s nd = []
          · -- all dependencies already indexed
            have hall : ∀ a, a ∈ nd.deps → (look a s.index).isSome := by
              intro a ha
              unfold missing at hm
              rw [List.filter_eq_nil_iff] at hm
              have := hm a ha
              cases hx : look a s.index with
              | none => simp [hx] at this
              | some _ => rfl
            obtain ⟨s2, h2, hs2, hi2, he2⟩ := final s hs hlt hall
            exact ⟨1, s2, by rw [iter_one, h2], hs2, hi2, he2⟩
          · -- push the missing ones, come back
            let s0 : St := { s with stk := missing s nd ++ t :: rest }
            have h0 : step lk ng s = some s0 := by simp [step, hs, hlt, hlk, hb, hm, s0]
            have hmd : ∀ a, a ∈ missing s nd → dep lk t a := by
              intro a ha
              unfold missing at ha
              exact hdeps a (List.mem_filter.mp ha).1
            obtain ⟨n1, s1, h1, hs1, hl1, hk1, hn1⟩ :=
              big_list lk ng t (fun a ha => ih a ha) (missing s nd) hmd s0 (t :: rest) rfl
            have hlt1 : look t s1.index = none := by
              cases hx : look t s1.index with
              | none => rfl
              | some i =>
                rcases hn1 t (by simp [hx]) with h | ⟨a, ha, hat⟩
                · simp [s0, hlt] at h
                · exact absurd hat (no_cycle hwf t a (hmd a ha))
            have hall : ∀ a, a ∈ nd.deps → (look a s1.index).isSome := by
              intro a ha
              cases hx : look a s.index with
              | none =>
                exact hl1 a (by unfold missing; exact List.mem_filter.mpr ⟨ha, by simp [hx]⟩)
              | some i => rw [hk1 a i (by simpa [s0] using hx)]; rfl
            obtain ⟨s2, h2, hs2, hi2, he2⟩ := final s1 hs1 hlt1 hall
            refine ⟨1 + (n1 + 1), s2, ?_, hs2, hi2, ?_⟩
            · rw [iter_add, iter_one, h0]
              simp only [Option.bind_some]
              rw [iter_add, h1]
              simp only [Option.bind_some]
              rw [iter_one, h2]
            · have e01 : Ext lk t s s1 :=
                ⟨fun u j hu => hk1 u j (by simpa [s0] using hu),
                 fun u hu => by
                   rcases hn1 u hu with h | ⟨a, ha, hau⟩
                   · exact Or.inl (by simpa [s0] using h)
                   · exact Or.inr (Reach.step (hmd a ha) hau)⟩
              exact Ext.trans_sub (Reach.refl t) e01 he2

end WS
