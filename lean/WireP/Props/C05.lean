import WireV.Sets
import WireP.Lemmas.PMapLookup
/-! # C05 — a type with two sources in one provider set is always rejected, never silently resolved

Property theorems only; helper lemmas live in `WireP/Lemmas/PMap{Basic,Ins,Bnd,Proofs,Lookup}.lean`.
The model is `WireV.buildProviderMap` (lean/WireV/PMap.lean), a transcription of
`internal/wire/analyze.go:buildProviderMap`.  `baseSources`/`allSources` (defined in
`WireP/Lemmas/PMapProofs.lean`, namespace `WireP.C05`) list every type the set mentions as provided,
one entry per source; `LookupSpec` (in `WireP/Lemmas/PMapLookup.lean`) is the record of lookup facts.
Also holds the map half of C11 (`bind_alias`, `bind_needs_concrete`). -/
namespace WireP.C05
open WireV

variable (args : Option (List Ty)) (imports : List (Nat × PMap)) (provs : List Prov)
  (vals : List Val) (flds : List Fld) (bnds : List Bnd)

/-- **Duplicates are rejected.**  If any type has two sources — argument, import, provider output,
    value, field or binding, in any combination — the result is a non-empty list of errors. -/
theorem bpm_dup_rejected (h : ¬ (allSources args imports provs vals flds bnds).Nodup) :
    ∃ es, buildProviderMap args imports provs vals flds bnds = .error es ∧ es ≠ [] :=
  WireP.PMapProofs.bpm_dup_rejected args imports provs vals flds bnds h

/-- **Never picks one.**  An accepted set has exactly one source per type. -/
theorem bpm_never_picks (pm : PMap) (sm : SMap)
    (h : buildProviderMap args imports provs vals flds bnds = .ok (pm, sm)) :
    (allSources args imports provs vals flds bnds).Nodup :=
  WireP.PMapProofs.bpm_never_picks args imports provs vals flds bnds h

/-- **A multiple-bindings error only ever names a type that really has two sources.** -/
theorem bpm_multi_named (es : List Err) (t : Ty)
    (h : buildProviderMap args imports provs vals flds bnds = .error es) (hm : Err.multi t ∈ es) :
    2 ≤ (allSources args imports provs vals flds bnds).count t :=
  WireP.PMapProofs.bpm_multi_named args imports provs vals flds bnds h hm

/-- **If the only defect is a duplicate, the error is a multiple-bindings error.** -/
theorem bpm_dup_named (h : ¬ (allSources args imports provs vals flds bnds).Nodup)
    (hp : ∀ b ∈ bnds, b.provided ∈ baseSources args imports provs vals flds) :
    ∃ es t, buildProviderMap args imports provs vals flds bnds = .error es ∧ Err.multi t ∈ es :=
  WireP.PMapProofs.bpm_dup_named args imports provs vals flds bnds h hp

/-- **What an accepted result contains**: keys are exactly the sources, each source is found
    under its type with its own payload and its own source identity, and a binding's interface key
    aliases the entry of its concrete type (fields of `LookupSpec`). -/
theorem bpm_ok_lookup (pm : PMap) (sm : SMap)
    (h : buildProviderMap args imports provs vals flds bnds = .ok (pm, sm)) :
    LookupSpec args imports provs vals flds bnds pm sm :=
  WireP.PMapProofs.bpm_ok_lookup h

/-- `LookupSpec`, spelled out (so that the statement can be read here) -/
theorem bpm_ok_lookup_unfolded (pm : PMap) (sm : SMap)
    (h : buildProviderMap args imports provs vals flds bnds = .ok (pm, sm)) :
    (∀ t, (look t pm).isSome ↔ t ∈ allSources args imports provs vals flds bnds) ∧
    (∀ t, (look t sm).isSome ↔ t ∈ allSources args imports provs vals flds bnds) ∧
    (pm.map (·.1)).Nodup ∧ (sm.map (·.1)).Nodup ∧
    (∀ i t, (args.getD [])[i]? = some t → look t pm = some ⟨t, .arg i⟩ ∧ look t sm = some (.arg i)) ∧
    (∀ ip ∈ imports, ∀ kv ∈ ip.2, look kv.1 pm = some kv.2 ∧ look kv.1 sm = some (.imp ip.1)) ∧
    (∀ p ∈ provs, ∀ t ∈ p.outs, look t pm = some ⟨t, .prov p⟩ ∧ look t sm = some (.prov p.id)) ∧
    (∀ v ∈ vals, look v.out pm = some ⟨v.out, .val v⟩ ∧ look v.out sm = some (.val v.id)) ∧
    (∀ f ∈ flds, ∀ t ∈ f.outs, look t pm = some ⟨t, .fld f⟩ ∧ look t sm = some (.fld f.id)) ∧
    (∀ b ∈ bnds, ∃ c, look b.provided pm = some c ∧ look b.iface pm = some c ∧
        look b.iface sm = some (.bnd b.id)) :=
  let s := WireP.PMapProofs.bpm_ok_lookup h
  ⟨s.pm_keys, s.sm_keys, s.pm_nodup, s.sm_nodup, s.arg, s.imp, s.prov, s.val, s.fld, s.bnd⟩

/-- C11 `bind_alias`: the interface key of a binding holds the very entry of the concrete type —
    no new source, same `PT` -/
theorem bind_alias (pm : PMap) (sm : SMap)
    (h : buildProviderMap args imports provs vals flds bnds = .ok (pm, sm)) (b : Bnd) (hb : b ∈ bnds) :
    ∃ c, look b.provided pm = some c ∧ look b.iface pm = some c ∧ look b.iface sm = some (.bnd b.id) :=
  (WireP.PMapProofs.bpm_ok_lookup h).bnd b hb

/-- C11 `bind_needs_concrete`: a binding whose concrete type has no source in the set is an error -/
theorem bind_needs_concrete (b : Bnd) (hb : b ∈ bnds)
    (hp : b.provided ∉ allSources args imports provs vals flds bnds) :
    ∃ es, buildProviderMap args imports provs vals flds bnds = .error es ∧ es ≠ [] :=
  WireP.PMapProofs.bind_needs_concrete hb hp

/-! ## non-vacuity -/

/-- one argument, one import (holding a value), a two-output provider, a value, a field, a binding -/
def exImports : List (Nat × PMap) := [(1, [(20, ⟨20, .val ⟨5, 20⟩⟩)])]
def exProv : Prov := { id := 1, args := [10], outs := [30, 31] }
def exVals : List Val := [⟨2, 40⟩]
def exFlds : List Fld := [⟨3, 30, [50]⟩]
def exBnds : List Bnd := [⟨4, 60, 30⟩]

example : allSources (some [10]) exImports [exProv] exVals exFlds exBnds = [10, 20, 30, 31, 40, 50, 60] := by
  decide
example : (allSources (some [10]) exImports [exProv] exVals exFlds exBnds).Nodup := by decide
-- the accepted instance: the hypothesis of `bpm_never_picks`/`bpm_ok_lookup` is satisfiable
example : buildProviderMap (some [10]) exImports [exProv] exVals exFlds exBnds =
    .ok ([(60, ⟨30, .prov exProv⟩), (50, ⟨50, .fld ⟨3, 30, [50]⟩⟩), (40, ⟨40, .val ⟨2, 40⟩⟩),
          (31, ⟨31, .prov exProv⟩), (30, ⟨30, .prov exProv⟩), (20, ⟨20, .val ⟨5, 20⟩⟩), (10, ⟨10, .arg 0⟩)],
         [(60, .bnd 4), (50, .fld 3), (40, .val 2), (31, .prov 1), (30, .prov 1), (20, .imp 1), (10, .arg 0)]) := by
  rfl
-- the rejected instances: the hypotheses of `bpm_dup_rejected`/`bpm_dup_named`/`bpm_multi_named` are satisfiable
example : ¬ (allSources (some [10]) exImports [exProv] (⟨9, 20⟩ :: exVals) exFlds exBnds).Nodup := by decide
example : ∀ b ∈ exBnds, b.provided ∈ baseSources (some [10]) exImports [exProv] (⟨9, 20⟩ :: exVals) exFlds := by
  decide
-- a value colliding with an imported type, and a binding colliding with a provider output
example : buildProviderMap (some [10]) exImports [exProv] (⟨9, 20⟩ :: exVals) exFlds exBnds =
    .error [Err.multi 20] := by rfl
example : buildProviderMap none [] [exProv] [] [] [⟨4, 31, 30⟩] = .error [Err.multi 31] := by rfl
example : (allSources none [] [exProv] [] [] [⟨4, 31, 30⟩]).count 31 = 2 := by decide
-- `bind_needs_concrete`
example : (⟨4, 60, 77⟩ : Bnd).provided ∉ allSources none [] [exProv] [] [] [⟨4, 60, 77⟩] := by decide
example : buildProviderMap none [] [exProv] [] [] [⟨4, 60, 77⟩] = .error [Err.bindMissing 60 77] := by rfl

end WireP.C05
