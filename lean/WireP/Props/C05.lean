import WireV.Sets
namespace WireP.C05
end WireP.C05
