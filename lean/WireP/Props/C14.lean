import WireV.NameEmit
/-! # C14 — placeholder until the name proofs (Task D) are merged -/
namespace WireP.C14
end WireP.C14
