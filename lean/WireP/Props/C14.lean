import WireP.Lemmas.NameProofsDisamb
import WireP.Lemmas.NameProofsSharp
import WireP.Lemmas.NameProofsSteps
import WireP.Lemmas.NameProofsEnv
import WireP.Lemmas.NameProofsCase
/-! # C14 — generated identifiers are fresh, distinct and never keywords

Model: `WireV.disambiguate` (the unbounded `for n := 2; ; n++` loop of wire.go with explicit fuel),
`WireV.typeVariableName`, `WireV.nameInjector` (the binders of one injector in the order
`injectPass` invents them), `WireV.qualifyImport`, `WireV.valueVarName`, `WireV.exportName`,
`WireV.unexportName`.  `collides` is any predicate that is true on a finite list `taken` only;
it is instantiated with `NameEnv.inFileScope` and `InjNames.inInjector` in the injector theorems.
Definitions used by the statements (`ImportsOK`, `bad`, `baseOf`) live in `WireP.Lemmas.NameProofs*`. -/
namespace WireP.C14
open WireV WireP.NameProofs

/-! ## 1–2 `disambiguate` -/

/-- **The unbounded loop of `disambiguate` terminates and returns a fresh non-keyword**: with
    more fuel than there are names to avoid, the result exists, does not collide, is not a keyword,
    and is `name` itself or `name[_]N` with `N ≥ 2`. -/
theorem disambiguate_fresh (fuel : Nat) (name : String) (collides : String → Bool)
    (taken : List String) (ht : ∀ n, collides n = true → n ∈ taken)
    (hf : taken.length + goKeywords.length + 1 ≤ fuel) :
    ∃ r, disambiguate fuel name collides = some r ∧ collides r = false ∧ isKeyword r = false ∧
      (r = name ∨ ∃ n, 2 ≤ n ∧
        r = (if endsInDigit name then name ++ "_" else name) ++ toString n) :=
  NameProofs.disambiguate_fresh fuel name collides taken ht hf

/-- the same with the sharp constant: the numbered candidates end in a digit, hence are never
    keywords, so only the colliding names count (`|taken| + 1` is tight: see the examples) -/
theorem disambiguate_fresh_sharp (fuel : Nat) (name : String) (collides : String → Bool)
    (taken : List String) (ht : ∀ n, collides n = true → n ∈ taken)
    (hf : taken.length + 1 ≤ fuel) :
    ∃ r, disambiguate fuel name collides = some r ∧ collides r = false ∧ isKeyword r = false ∧
      (r = name ∨ ∃ n, 2 ≤ n ∧
        r = (if endsInDigit name then name ++ "_" else name) ++ toString n) :=
  NameProofs.disambiguate_fresh_sharp fuel name collides taken ht hf

/-- whatever the fuel: a returned name is fresh and not a keyword -/
theorem disambiguate_some_spec (fuel : Nat) (name : String) (collides : String → Bool) (r : String)
    (h : disambiguate fuel name collides = some r) : collides r = false ∧ isKeyword r = false :=
  ⟨(disambiguate_some h).1, (disambiguate_some h).2.1⟩

/-- a usable name is returned unchanged -/
theorem disambiguate_keep (fuel : Nat) (name : String) (collides : String → Bool)
    (hk : isKeyword name = false) (hc : collides name = false) :
    disambiguate fuel name collides = some name :=
  NameProofs.disambiguate_keep hk hc

/-- otherwise the number appended is the least `N ≥ 2` whose candidate is usable (the Go loop
    is deterministic) -/
theorem disambiguate_least (fuel : Nat) (name : String) (collides : String → Bool) (r : String)
    (hb : (isKeyword name || collides name) = true) (h : disambiguate fuel name collides = some r) :
    ∃ n, 2 ≤ n ∧ r = (if endsInDigit name then name ++ "_" else name) ++ toString n ∧
      ∀ k, 2 ≤ k → k < n →
        (isKeyword ((if endsInDigit name then name ++ "_" else name) ++ toString k) ||
          collides ((if endsInDigit name then name ++ "_" else name) ++ toString k)) = true :=
  NameProofs.disambiguate_least hb h

/-- the candidates are pairwise distinct (what makes the pigeonhole argument work) -/
theorem candidates_injective (base : String) (m n : Nat)
    (h : base ++ toString m = base ++ toString n) : m = n :=
  cand_inj base h

/-! ## 3 `typeVariableName` -/

/-- for **any** `transform`, a returned name is fresh and not a keyword -/
theorem typeVariableName_fresh (fuel : Nat) (shape : TyShape) (defaultName : String)
    (transform : String → String) (collides : String → Bool) (r : String)
    (h : typeVariableName fuel shape defaultName transform collides = some r) :
    collides r = false ∧ isKeyword r = false :=
  typeVariableName_some h

/-- and a name is returned under the fuel bound of `disambiguate_fresh` -/
theorem typeVariableName_total (fuel : Nat) (shape : TyShape) (defaultName : String)
    (transform : String → String) (collides : String → Bool)
    (taken : List String) (ht : ∀ n, collides n = true → n ∈ taken)
    (hf : taken.length + goKeywords.length + 1 ≤ fuel) :
    ∃ r, typeVariableName fuel shape defaultName transform collides = some r :=
  typeVariableName_isSome shape defaultName transform ht hf

/-! ## 4–5 `nameInjector` -/

/-- **All binders of a generated injector are pairwise distinct, shadow nothing in file scope
    (imports, value variables, package scope, universe) and are not keywords**; one name per
    parameter, per planned call and per cleanup. -/
theorem nameInjector_distinct (fuel : Nat) (e : NameEnv) (ps : List ParamInfo) (ss : List StepInfo)
    (ig : InjNames) (h : nameInjector fuel e ps ss = some ig) :
    (ig.all.Nodup ∧ ∀ n ∈ ig.all, e.inFileScope n = false ∧ isKeyword n = false) ∧
    (ig.params.length = ps.length ∧ ig.locals.length = ss.length ∧
      ig.cleanups.length = (ss.filter (fun s => s.isFunc && s.hasCleanup)).length) :=
  ⟨(nameInjector_spec h).1, (nameInjector_spec h).2⟩

/-- the error variable is the one `disambiguate("err", …)` picks against the file scope alone -/
theorem nameInjector_errVar (fuel : Nat) (e : NameEnv) (ps : List ParamInfo) (ss : List StepInfo)
    (ig : InjNames) (h : nameInjector fuel e ps ss = some ig) :
    disambiguate fuel "err" e.inFileScope = some ig.errVar :=
  NameProofs.nameInjector_errVar h

theorem nameInjector_total (fuel : Nat) (e : NameEnv) (ps : List ParamInfo) (ss : List StepInfo)
    (hf : e.fileScope.length + e.imports.length + e.values.length + ps.length + 2 * ss.length
      + goKeywords.length + 3 ≤ fuel) :
    ∃ ig, nameInjector fuel e ps ss = some ig :=
  nameInjector_isSome ps ss hf

/-! ## 6 `qualifyImport` -/

/-- a new import gets a fresh identifier that is not `err`, not in file scope and not a keyword -/
theorem qualifyImport_fresh (fuel : Nat) (e e' : NameEnv) (pkgName path nm : String)
    (h : qualifyImport fuel e pkgName path = some (nm, e')) (hp : path ∉ e.imports.map (·.1)) :
    nm ≠ "err" ∧ e.inFileScope nm = false ∧ isKeyword nm = false ∧
      e'.imports = e.imports ++ [(path, nm)] ∧ e'.values = e.values ∧ e'.fileScope = e.fileScope :=
  NameProofs.qualifyImport_fresh h hp

/-- an already imported path gets the same identifier again and the environment is unchanged -/
theorem qualifyImport_again (fuel : Nat) (e : NameEnv) (pkgName path nm : String)
    (hnd : (e.imports.map (·.1)).Nodup) (hm : (path, nm) ∈ e.imports) :
    qualifyImport fuel e pkgName path = some (nm, e) :=
  qualifyImport_old_eq hnd hm

/-- `ImportsOK`: import identifiers pairwise distinct, paths pairwise distinct, no identifier is a
    value variable or a package-scope name — preserved by `qualifyImport` … -/
theorem qualifyImport_preserves (fuel : Nat) (e e' : NameEnv) (pkgName path nm : String)
    (h : qualifyImport fuel e pkgName path = some (nm, e')) (hi : ImportsOK e) : ImportsOK e' :=
  NameProofs.qualifyImport_preserves h hi

/-- … and by `valueVarName` -/
theorem valueVarName_preserves (fuel : Nat) (e e' : NameEnv) (shape : TyShape) (nm : String)
    (h : valueVarName fuel e shape = some (nm, e')) (hi : ImportsOK e) : ImportsOK e' :=
  NameProofs.valueVarName_preserves h hi

theorem qualifyImport_total (fuel : Nat) (e : NameEnv) (pkgName path : String)
    (hf : e.fileScope.length + e.imports.length + e.values.length + goKeywords.length + 2 ≤ fuel) :
    ∃ r, qualifyImport fuel e pkgName path = some r :=
  qualifyImport_isSome e pkgName path hf

/-! ## 7 `valueVarName` -/

/-- the new value variable is not in file scope (imports, earlier value variables, package scope,
    universe), not a keyword, and the value variables stay pairwise distinct -/
theorem valueVarName_fresh (fuel : Nat) (e e' : NameEnv) (shape : TyShape) (nm : String)
    (h : valueVarName fuel e shape = some (nm, e')) :
    e.inFileScope nm = false ∧ isKeyword nm = false ∧
      e' = { e with values := e.values ++ [nm] } ∧ (e.values.Nodup → e'.values.Nodup) :=
  NameProofs.valueVarName_fresh h

theorem valueVarName_total (fuel : Nat) (e : NameEnv) (shape : TyShape)
    (hf : e.fileScope.length + e.imports.length + e.values.length + goKeywords.length + 1 ≤ fuel) :
    ∃ r, valueVarName fuel e shape = some r :=
  valueVarName_isSome e shape hf

/-! ## 8 `export` / `unexport` -/

theorem exportName_idem (s : String) : exportName (exportName s) = exportName s :=
  NameProofs.exportName_idem s

theorem unexportName_of_not_upper (s : String)
    (h : ∀ c rest, s.toList = c :: rest → c.isUpper = false) : unexportName s = s :=
  NameProofs.unexportName_of_not_upper s h

/-! ## Non-vacuity: adversarial pools -/

example : disambiguate 40 "err" (fun n => ["err", "err2"].contains n) = some "err3" := by decide
example : disambiguate 40 "foo1" (fun n => ["foo1"].contains n) = some "foo1_2" := by decide
example : disambiguate 40 "select" (fun _ => false) = some "select2" := by decide
example : disambiguate 40 "x" (fun n => ["y"].contains n) = some "x" := by decide
/-- the fuel bound of `disambiguate_fresh` is satisfiable; too little fuel really fails -/
example : ["err", "err2"].length + goKeywords.length + 1 ≤ 40 := by decide
example : disambiguate 1 "err" (fun n => ["err", "err2"].contains n) = none := by decide
/-- `|taken| + 1` is tight: a keyword name and `|taken|` blocked candidates -/
example : disambiguate 2 "go" (fun n => ["go2", "go3"].contains n) = none := by decide
example : disambiguate 3 "go" (fun n => ["go2", "go3"].contains n) = some "go4" := by decide

/-- file scope holding `err`, the builtin `int`, an import `http` and a value variable -/
def exEnv : NameEnv :=
  { fileScope := ["err", "int", "Foo", "NewFoo"], imports := [("net/http", "http")],
    values := ["_wireIntValue"] }
/-- parameters named `err`, `cleanup`, `_` -/
def exParams : List ParamInfo :=
  [⟨"err", .basic "int"⟩, ⟨"cleanup", .basic "string"⟩, ⟨"_", .named "Select" none⟩]
/-- results named like a keyword after unexporting (`Select`), like an import (`Http`), like a
    universe name (`int`), and an unnamed type -/
def exSteps : List StepInfo :=
  [⟨.named "Select" none, true, true⟩, ⟨.named "Http" none, true, true⟩,
   ⟨.basic "int", false, false⟩, ⟨.other, true, false⟩]

example : (nameInjector 60 exEnv exParams exSteps).map
      (fun ig => (ig.errVar, ig.params, ig.locals, ig.cleanups)) =
    some ("err2", ["err3", "cleanup", "select2"], ["select3", "http2", "int2", "v"],
      ["cleanup2", "cleanup3"]) := by decide
example : exEnv.fileScope.length + exEnv.imports.length + exEnv.values.length + exParams.length
    + 2 * exSteps.length + goKeywords.length + 3 ≤ 60 := by decide

example : ImportsOK exEnv := by
  refine ⟨by decide, by decide, ?_⟩
  intro n hn
  have : n = "http" := by simpa [exEnv] using hn
  subst this; exact ⟨by decide, by decide⟩
example : (qualifyImport 40 exEnv "http" "example.com/http").map (·.1) = some "http2" := by decide
example : (qualifyImport 40 exEnv "err" "example.com/err").map (·.1) = some "err2" := by decide
example : (qualifyImport 40 exEnv "other" "net/http").map (·.1) = some "http" := by decide
example : "example.com/http" ∉ exEnv.imports.map (·.1) := by decide
example : (valueVarName 40 exEnv (.basic "int")).map (·.1) = some "_wireIntValue2" := by decide
example : (valueVarName 40 exEnv (.named "Foo" (some "bar"))).map (·.1) = some "_wireFooValue" := by
  decide
example : exportName "foo" = "Foo" ∧ exportName "Foo" = "Foo" ∧ unexportName "HTTPServer" = "httpServer"
    ∧ unexportName "foo" = "foo" := by decide

end WireP.C14
