import WireP.Lemmas.ShowProofsFinal
import WireV.Sets
import WireV.Emit
import WireV.Generated.Tables
/-! # C19 — `wire show` groups outputs by required inputs; `wire check` succeeds exactly when `wire gen` would

Property theorems only; lemmas in `WireP/Lemmas/ShowProofs{Defs,Inv,Big,Final}.lean` (namespace
`WireP.Show`).

**Part 1** — model `WireV.gather` (lean/WireV/Show.lean; cmd/wire/main.go:`gather`), the DFS that
groups every type a provider set can produce under the set of types that must be supplied from
outside.  Specification vocabulary (`WireP.Show`):

* `gdep pm a b` — the entry of `a` is not an injector argument and `b ∈ depsOf` of it (the entry of an
  interface key is the concrete entry, so these are the concrete provider's parameters);
* `GReach pm` — reflexive-transitive closure; `GAcyclic pm := WellFounded (fun b a => gdep pm a b)`;
* `Leaf pm u` — `u` has no entry, or its entry is an injector argument;
* `Need pm t u := GReach pm t u ∧ Leaf pm u` — `u` is a leaf requirement of `t`.

The only hypothesis is `GAcyclic pm`, and only for the theorems that need every DFS to finish
(`gather_terminates`, `gather_visits_keys`, `gather_partition`, `gather_order_free`); the theorems
about what the groups *mean* hold of every map.  No `Nodup` of the keys of `pm` is needed (`look`
takes the first entry, as the model does).  `gacyclic_of_acyclic` : every map the planner's front
half accepts (`ConcClosed`, `WireP.Solve.Acyclic`) is `GAcyclic`.

**Part 2** — the regenerated call-fact tables: `Load` (check / show) and `generateInjectors` +
`inject` (gen) run the same analysis stages.  **Part 3** — the model-level `check ⇔ gen` statement,
by construction. -/
namespace WireP.C19
open WireV WireP.Show

/-! ## Part 1: `gather` -/

/-- every map accepted by the planner's front half is acyclic in the sense `gather` needs -/
theorem gacyclic_of_acyclic {pm : PMap} (hcc : WireP.Solve.ConcClosed pm)
    (h : WireP.Solve.Acyclic pm) : GAcyclic pm :=
  WireP.Show.gacyclic_of_acyclic hcc h

/-- **Termination**: the fuel `2 + 2·Σ (1 + deps)` that the model gives each DFS is enough — the
    stack is empty at the end -/
theorem gather_terminates {pm : PMap} {keys : List Ty} (hac : GAcyclic pm) :
    (gather pm keys).stk = [] :=
  WireP.Show.gather_terminates hac

/-- … in fact half of it: a DFS for `k` (on top of any stack `rest`) is done after at most
    `1 + Σ (1 + deps)` steps, from every state satisfying the invariant -/
theorem gather_dfs_steps {pm : PMap} (hac : GAcyclic pm) {s : GSt} (hI : Inv pm s) (k : Ty)
    (rest : List Ty) (hs : s.stk = k :: rest) :
    ∃ n, n ≤ 1 + (pm.map (fun kv => 1 + (depsOf kv.2.src).length)).sum ∧
      (gIter pm n s).stk = rest :=
  WireP.Show.gather_dfs_steps hac hI k rest hs

theorem gather_visits_keys {pm : PMap} {keys : List Ty} (hac : GAcyclic pm) :
    ∀ k ∈ keys, (look k (gather pm keys).visited).isSome :=
  WireP.Show.gather_visits_keys hac

/-- at the end the visited types are exactly those reachable from the keys -/
theorem gather_visited_iff {pm : PMap} {keys : List Ty} (hac : GAcyclic pm) (t : Ty) :
    (look t (gather pm keys).visited).isSome ↔ ∃ k ∈ keys, GReach pm k t :=
  WireP.Show.gather_visited_iff hac t

/-- **The inputs of a group are exactly the leaf requirements of each of its outputs** (every map,
    every key list): a type assigned to group `i` is an output of that group, and the group's
    input list (duplicate-free) has exactly the members `u` that are reachable from it and have no
    entry or an injector-argument entry -/
theorem gather_inputs_spec {pm : PMap} {keys : List Ty} {k : Ty} {i : Nat}
    (h : look k (gather pm keys).visited = some (some i)) :
    ∃ g, (gather pm keys).groups[i]? = some g ∧ k ∈ g.outputs ∧ g.inputs.Nodup ∧
      ∀ u, u ∈ g.inputs ↔ (GReach pm k u ∧ Leaf pm u) :=
  WireP.Show.gather_inputs_spec h

/-- a type marked as an input (`-1` in Go) is a leaf requirement -/
theorem gather_input_leaf {pm : PMap} {keys : List Ty} {k : Ty}
    (h : look k (gather pm keys).visited = some none) : Leaf pm k :=
  WireP.Show.gather_input_leaf h

/-- a value goes to a group with no inputs -/
theorem gather_value_no_inputs {pm : PMap} {keys : List Ty} {k : Ty} {i : Nat} {pt : PT} {v : Val}
    (h : look k (gather pm keys).visited = some (some i)) (hl : look k pm = some pt)
    (hv : pt.src = .val v) :
    ∃ g, (gather pm keys).groups[i]? = some g ∧ k ∈ g.outputs ∧ g.inputs = [] :=
  WireP.Show.gather_value_no_inputs h hl hv

/-- **Partition**: every key with a non-argument entry is assigned to a group, is an output of that
    group exactly once, is an output of no other group, and that group's inputs are its
    requirements -/
theorem gather_partition {pm : PMap} {keys : List Ty} (hac : GAcyclic pm) {k : Ty} {pt : PT}
    (hk : k ∈ keys) (hl : look k pm = some pt) (hna : ∀ i, pt.src ≠ .arg i) :
    ∃ i g, look k (gather pm keys).visited = some (some i) ∧
      (gather pm keys).groups[i]? = some g ∧ k ∈ g.outputs ∧ g.outputs.Nodup ∧
      (∀ u, u ∈ g.inputs ↔ (GReach pm k u ∧ Leaf pm u)) ∧
      ∀ j g', (gather pm keys).groups[j]? = some g' → k ∈ g'.outputs → j = i :=
  WireP.Show.gather_partition hac hk hl hna

/-- conversely, nothing else is listed: every output of every group is assigned to that group, has
    a non-argument entry, and is reachable from a key -/
theorem gather_outputs_sound {pm : PMap} {keys : List Ty} {j : Nat} {g : Grp} {t : Ty}
    (hg : (gather pm keys).groups[j]? = some g) (ht : t ∈ g.outputs) :
    look t (gather pm keys).visited = some (some j) ∧
      (∃ pt, look t pm = some pt ∧ ∀ i, pt.src ≠ .arg i) ∧ ∃ k ∈ keys, GReach pm k t :=
  WireP.Show.gather_outputs_sound hg ht

/-- **Outputs with equal requirement sets are merged**: two different groups never have `sameKeys`
    inputs, nor the same members -/
theorem gather_groups_distinct {pm : PMap} {keys : List Ty} {i j : Nat} {gi gj : Grp} (hij : i ≠ j)
    (hi : (gather pm keys).groups[i]? = some gi) (hj : (gather pm keys).groups[j]? = some gj) :
    sameKeys gi.inputs gj.inputs = false ∧ ¬ ∀ u, u ∈ gi.inputs ↔ u ∈ gj.inputs :=
  WireP.Show.gather_groups_distinct hij hi hj

/-- **Order independence**: if two key lists have the same members (e.g. two iteration orders of
    `set.Outputs()`), the results are the same set of (inputs-as-set, outputs-as-set) pairs, and
    have the same number of groups -/
theorem gather_order_free {pm : PMap} {keys keys' : List Ty} (hac : GAcyclic pm)
    (hk : ∀ k, k ∈ keys ↔ k ∈ keys') :
    (∀ g ∈ (gather pm keys).groups, ∃ g' ∈ (gather pm keys').groups,
      (∀ u, u ∈ g.inputs ↔ u ∈ g'.inputs) ∧ (∀ t, t ∈ g.outputs ↔ t ∈ g'.outputs)) ∧
    (∀ g' ∈ (gather pm keys').groups, ∃ g ∈ (gather pm keys).groups,
      (∀ u, u ∈ g'.inputs ↔ u ∈ g.inputs) ∧ (∀ t, t ∈ g'.outputs ↔ t ∈ g.outputs)) ∧
    (gather pm keys).groups.length = (gather pm keys').groups.length :=
  ⟨WireP.Show.gather_order_free hac hk,
   WireP.Show.gather_order_free hac (fun k => (hk k).symm),
   Nat.le_antisymm (WireP.Show.gather_order_free_length hac hk)
     (WireP.Show.gather_order_free_length hac (fun k => (hk k).symm))⟩

theorem gather_order_free_perm {pm : PMap} {keys keys' : List Ty} (hac : GAcyclic pm)
    (hp : keys.Perm keys') :
    (∀ g ∈ (gather pm keys).groups, ∃ g' ∈ (gather pm keys').groups,
      (∀ u, u ∈ g.inputs ↔ u ∈ g'.inputs) ∧ (∀ t, t ∈ g.outputs ↔ t ∈ g'.outputs)) ∧
    (gather pm keys).groups.length = (gather pm keys').groups.length :=
  ⟨(gather_order_free hac (fun _ => hp.mem_iff)).1, (gather_order_free hac (fun _ => hp.mem_iff)).2.2⟩

/-! ### non-vacuity

`0` has no entry (a missing input), `1` is an injector argument, `2` a value, `A(2, 0) → 3`, `4` an
interface bound to `3` (its entry is `3`'s), `B(4) → 5`, `C(3) → 6`, `D(5, 6) → 7` (a diamond over
`3`), `8` a field of `7`, `E(1, 8) → 9`. -/

def pA : Prov := { id := 21, args := [2, 0], outs := [3] }
def exPm : PMap :=
  [(1, ⟨1, .arg 0⟩), (2, ⟨2, .val { id := 10, out := 2 }⟩),
   (3, ⟨3, .prov pA⟩), (4, ⟨3, .prov pA⟩),
   (5, ⟨5, .prov { id := 22, args := [4], outs := [5] }⟩),
   (6, ⟨6, .prov { id := 23, args := [3], outs := [6] }⟩),
   (7, ⟨7, .prov { id := 24, args := [5, 6], outs := [7] }⟩),
   (8, ⟨8, .fld { id := 30, parent := 7, outs := [8] }⟩),
   (9, ⟨9, .prov { id := 25, args := [1, 8], outs := [9] }⟩)]
def exKeys : List Ty := [1, 2, 3, 4, 5, 6, 7, 8, 9]

/-- the hypothesis of the theorems holds: every dependency has a smaller number -/
theorem exAcyclic : GAcyclic exPm := gacyclic_of_rank exPm id (by decide)

/-- three groups: the value needs nothing; `3 … 8` need the missing `0`; `9` needs `1` and `0` -/
example : (gather exPm exKeys).groups =
    [⟨[], [2]⟩, ⟨[0], [3, 4, 5, 6, 7, 8]⟩, ⟨[1, 0], [9]⟩] := by decide
example : (gather exPm exKeys).visited =
    [(9, some 2), (8, some 1), (7, some 1), (6, some 1), (5, some 1), (4, some 1), (3, some 1),
     (0, none), (2, some 0), (1, none)] := by decide
example : (gather exPm exKeys).stk = [] := gather_terminates exAcyclic
/-- another order of the keys: the same groups up to the order of outputs -/
example : (gather exPm exKeys.reverse).groups =
    [⟨[], [2]⟩, ⟨[0], [3, 6, 4, 5, 7, 8]⟩, ⟨[1, 0], [9]⟩] := by decide
/-- a single key: everything it needs is visited and grouped -/
example : (gather exPm [9]).groups = [⟨[], [2]⟩, ⟨[0], [3, 6, 4, 5, 7, 8]⟩, ⟨[1, 0], [9]⟩] := by
  decide
/-- the hypotheses of `gather_partition` for the binding key `4` -/
example : ∃ i g, look 4 (gather exPm exKeys).visited = some (some i) ∧
    (gather exPm exKeys).groups[i]? = some g ∧ 4 ∈ g.outputs ∧ g.outputs.Nodup ∧
    (∀ u, u ∈ g.inputs ↔ (GReach exPm 4 u ∧ Leaf exPm u)) ∧
    ∀ j g', (gather exPm exKeys).groups[j]? = some g' → 4 ∈ g'.outputs → j = i :=
  gather_partition exAcyclic (by decide) (pt := ⟨3, .prov pA⟩) rfl (by simp)

/-- `GAcyclic` is needed for termination: on a provider that needs its own output the DFS never
    finishes (the Go loop does not terminate; the model runs out of fuel) -/
example : (gather [(0, ⟨0, .prov { id := 0, args := [0], outs := [0] }⟩)] [0]).stk ≠ [] := by decide

/-! ## Part 2: the regenerated call facts — check and gen run the same analysis stages

`loadCalls` are the functions called (transitively within wire.go's `Load` and its helpers) by the
entry point of `wire check` / `wire show`; `generateInjectorsCalls` and `injectCalls` those of
`wire gen`.  The tables are regenerated from the sources on every run; the theorems are closed by
`decide` and break when a stage is dropped from either side. -/

theorem load_runs_gen_stages :
    ["findInjectorBuild", "injectorFuncSignature", "processNewSet", "solve", "injectorCallErrors"].all
      (fun f => Generated.loadCalls.contains f) = true := by decide

theorem gen_runs_stages :
    ["findInjectorBuild", "injectorFuncSignature", "processNewSet", "inject"].all
      (Generated.generateInjectorsCalls.contains ·) = true ∧
    ["funcOutput", "solve", "injectorCallErrors"].all (Generated.injectCalls.contains ·) = true := by
  decide

theorem set_stages :
    ["buildProviderMap", "verifyAcyclic"].all (Generated.processNewSetCalls.contains ·) = true := by
  decide

/-- non-vacuity: the tables are populated, and the check does detect a missing stage -/
example : 5 ≤ Generated.loadCalls.length ∧ 3 ≤ Generated.injectCalls.length ∧
    4 ≤ Generated.generateInjectorsCalls.length ∧ 2 ≤ Generated.processNewSetCalls.length := by
  decide
example : ["solve", "noSuchStage"].all (fun f => Generated.loadCalls.contains f) = false := by decide
/-- `Load` does not emit code: what gen runs in addition is output only -/
example : Generated.loadCalls.contains "writeAST" = false ∧
    Generated.injectCalls.contains "writeAST" = true := by decide

/-! ## Part 3: the model-level statement (by construction)

An injector passes iff planning its `wire.Build` set succeeds (`planLast`, i.e. `processNewSet` +
`solve` + `verifyArgsUsed`) and its signature declares what the planned calls return
(`sigErrors`, i.e. `injectorCallErrors`).  `gen` passes iff all injectors pass; `check` runs the same
on all injectors and additionally processes the package's provider-set variables. -/

/-- one injector: the type order, the set definitions ending in its `wire.Build` set, the requested
    type, and whether its signature declares a cleanup / an error -/
structure InjSpec where
  order : List Ty
  ds : List SetDef
  out : Ty
  sc : Bool
  se : Bool

def injectorOk (order : List Ty) (ds : List SetDef) (out : Ty) (sc se : Bool) : Bool :=
  match planLast order ds out with
  | .ok calls => sigErrors sc se calls == []
  | _ => false

/-- a provider-set variable is fine iff its set is accepted by `processNewSet` -/
def setOk (order : List Ty) (ds : List SetDef) : Bool :=
  match (procSets order ds).getLast? with
  | some (_, .ok _ _) => true
  | _ => false

def genOk (injs : List InjSpec) : Bool := injs.all (fun j => injectorOk j.order j.ds j.out j.sc j.se)

def checkOk (injs : List InjSpec) (sets : List (List Ty × List SetDef)) : Bool :=
  genOk injs && sets.all (fun p => setOk p.1 p.2)

theorem injectorOk_iff (order : List Ty) (ds : List SetDef) (out : Ty) (sc se : Bool) :
    injectorOk order ds out sc se = true ↔
      ∃ calls, planLast order ds out = .ok calls ∧ sigErrors sc se calls = [] := by
  unfold injectorOk
  cases planLast order ds out <;> simp

/-- `wire check` succeeds exactly when `wire gen` would and every provider-set variable is fine -/
theorem check_iff_gen (injs : List InjSpec) (sets : List (List Ty × List SetDef)) :
    checkOk injs sets = true ↔ genOk injs = true ∧ ∀ p ∈ sets, setOk p.1 p.2 = true := by
  simp [checkOk]

theorem check_fails_if_gen_fails (injs : List InjSpec) (sets : List (List Ty × List SetDef))
    (h : genOk injs = false) : checkOk injs sets = false := by
  simp [checkOk, h]

/-- on a package without provider-set variables the two verdicts coincide -/
theorem check_eq_gen_no_sets (injs : List InjSpec) : checkOk injs [] = genOk injs := by
  simp [checkOk]

/-- an injector that passes has an accepted `wire.Build` set: listing the injectors' own sets among
    the checked sets changes nothing -/
theorem injectorOk_setOk (order : List Ty) (ds : List SetDef) (out : Ty) (sc se : Bool)
    (h : injectorOk order ds out sc se = true) : setOk order ds = true := by
  obtain ⟨calls, hp, _⟩ := (injectorOk_iff order ds out sc se).mp h
  unfold planLast at hp
  unfold setOk
  simp only at hp
  split at hp
  · rename_i heq; rw [heq]
  · cases hp
  · cases hp

/-! ### non-vacuity: one set with a value and a provider returning an error -/

def exSet : SetDef :=
  { id := 1, args := some [0], imports := [],
    provs := [{ id := 20, args := [0, 1], outs := [2], hasErr := true }],
    vals := [{ id := 10, out := 1 }], flds := [], bnds := [] }
def exInj (se : Bool) : InjSpec := { order := [0, 1, 2], ds := [exSet], out := 2, sc := false, se := se }

example : planLast [0, 1, 2] [exSet] 2 =
    .ok [{ kind := .value, out := 1, srcId := 10 },
         { kind := .func, out := 2, srcId := 20, args := [0, 1], ins := [0, 1], hasErr := true }] := by
  rfl
example : genOk [exInj true] = true ∧ checkOk [exInj true] [([0, 1, 2], [exSet])] = true := by decide
/-- the injector does not declare the error: both fail -/
example : genOk [exInj false] = false ∧ checkOk [exInj false] [] = false := by decide
/-- gen passes, a provider-set variable with two sources for `1` makes check fail -/
example : genOk [exInj true] = true ∧
    checkOk [exInj true] [([0, 1, 2], [{ exSet with vals := [⟨10, 1⟩, ⟨11, 1⟩] }])] = false := by
  decide

/-! ## deviations from the brief

* `gather_inputs_spec`, `gather_groups_distinct`, `gather_input_leaf`, `gather_value_no_inputs`,
  `gather_outputs_sound` need **no** hypothesis (not even `GAcyclic`): they follow from an invariant
  of `gStep` that holds whether or not the DFS finishes.
* `gather_partition` is stated for `k ∈ keys` (as in the brief, "every key"); `gather_outputs_sound`
  and `gather_visited_iff` extend it to everything reachable from the keys.
* `gather_order_free` assumes "same members" (`Perm` is the corollary `gather_order_free_perm`) and
  is stated as mutual inclusion of the sets of (inputs, outputs) pairs plus equal length.
* `genOk` / `checkOk` take the injectors as a list of `InjSpec` records and the provider-set
  variables as pairs `(order, ds)`. -/

end WireP.C19
