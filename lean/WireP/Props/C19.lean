import WireV.Show
namespace WireP.C19
end WireP.C19
