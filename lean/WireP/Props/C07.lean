import WireV.Sets
import WireP.Lemmas.AcyclicProofs
/-! # C07 — dependency cycles are detected and analysis always terminates

Property theorems only; helper lemmas live in `WireP/Lemmas/AcyclicProofs.lean` and `WireP/Acyc/*`.
The model is `WireV.verifyAcyclic` (lean/WireV/Acyclic.lean), a transcription of the stack machine
in `internal/wire/analyze.go:verifyAcyclic`, tied to the code by the unit-tier correspondence. -/
namespace WireP.C07
open WireV

-- `Path`, `Cyclic`, `IsCycleTrail` (namespace `WireP.C07`) are defined in `WireP/Lemmas/AcyclicDefs.lean`

/-- **Termination, linear bound.**  For every provider map and every root list the detector
    empties its stack within `acFuel pm roots = |roots| + Σ_keys outdeg` steps: the running time
    does not depend on the number of paths (deep chains, wide diamonds). -/
theorem va_terminates (pm : PMap) (roots : List Ty) : (verifyAcyclic pm roots).stk = [] :=
  WireP.AcyclicProofs.va_terminates pm roots

/-- **Soundness and completeness.**  If every key of the map is a root (Go: `providerMap.Keys()`),
    the detector reports no error iff the provider graph is acyclic. -/
theorem va_spec (pm : PMap) (roots : List Ty) (hroots : ∀ k, (look k pm).isSome → k ∈ roots) :
    (verifyAcyclic pm roots).errs = [] ↔ ¬ Cyclic (succOf pm) :=
  WireP.AcyclicProofs.va_spec pm roots hroots

/-- **Every diagnostic is a real cycle.** -/
theorem va_sound (pm : PMap) (roots : List Ty) :
    ∀ tr ∈ (verifyAcyclic pm roots).errs, IsCycleTrail (succOf pm) tr :=
  WireP.AcyclicProofs.va_sound pm roots

/-- the acyclicity stage of `processNewSet` passes iff the provider graph is acyclic (given that
    the type order handed to the model lists every key, which the harness guarantees) -/
theorem checkAcyclic_spec (order : List Ty) (pm : PMap)
    (horder : ∀ k, (look k pm).isSome → k ∈ order) :
    checkAcyclic order pm = [] ↔ ¬ Cyclic (succOf pm) :=
  WireP.AcyclicProofs.checkAcyclic_spec order pm horder

/-- a set is accepted only if its provider graph is acyclic — whether or not any injector uses
    the cyclic part — and every error of a rejected cyclic set is a cycle diagnostic -/
theorem procSet_ok_acyclic (order : List Ty) (done : List (Nat × SetRes)) (d : SetDef) (pm : PMap) (sm : SMap)
    (horder : ∀ k, (look k pm).isSome → k ∈ order)
    (h : procSet order done d = .ok pm sm) : ¬ Cyclic (succOf pm) :=
  WireP.AcyclicProofs.procSet_ok_acyclic order done d pm sm horder h

-- non-vacuity: a two-node cycle through a provider and a field is reported, a diamond is not
example : (verifyAcyclic [(0, ⟨0, .prov { id := 1, args := [1], outs := [0] }⟩),
                          (1, ⟨1, .fld { id := 2, parent := 0, outs := [1] }⟩)] [0, 1]).errs = [[0, 1, 0]] := by
  decide
example : (verifyAcyclic [(0, ⟨0, .prov { id := 1, args := [1, 2], outs := [0] }⟩),
                          (1, ⟨1, .prov { id := 2, args := [3], outs := [1] }⟩),
                          (2, ⟨2, .prov { id := 3, args := [3], outs := [2] }⟩),
                          (3, ⟨3, .val { id := 4, out := 3 }⟩)] [0, 1, 2, 3]).errs = [] := by
  decide

end WireP.C07
