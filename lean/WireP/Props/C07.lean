import WireP.Acyc.Total
namespace WireP.C07
theorem spike_spec (g : WV.Graph) (univ roots : List WV.Ty)
    (hc : WV.Closed g univ) (hr : ∀ r, r ∈ roots → r ∈ univ)
    (hkeys : ∀ a, g.succ a ≠ [] → a ∈ roots) :
    ∃ n vf ef, WV.iter g n ⟨[], roots.map (fun r => [r]), 0⟩ = some ⟨vf, [], ef⟩ ∧
      (0 < ef ↔ WV.HasCycle g) := WV.verifyAcyclic_spec g univ roots hc hr hkeys
end WireP.C07
