import WireV.Sig
import WireV.Emit
import WireP.Props.C03
/-! # C09 — provider and injector signature rules

Model: `WireV.funcOutput` (the arity switch of parse.go:funcOutput over result kinds abstracted to
{identical to `error`, identical to `func()`, neither}), `WireV.dupParam` (the quadratic duplicate
scan of processFuncProvider / processStructProvider), `WireV.sigErrors` (inject's test that the
injector declares what the planned calls need).  Tie: exhaustive unit-tier stream — every result
list of length 0..4 over 8 concrete varieties (value, error, func(), named func type, alias of
func(), other func type, named error type, basic) through the real `funcOutput` and
`processFuncProvider`; every parameter list of length <= 4 over three types. -/
namespace WireP.C09
open WireV

/-- **Exactly the four legal shapes are accepted**, with the flags they imply. -/
theorem funcOutput_spec (rs : List RKind) (c e : Bool) :
    funcOutput rs = .ok ⟨c, e⟩ ↔
      (∃ r0, rs = [r0] ∧ c = false ∧ e = false) ∨
      (∃ r0, rs = [r0, .error] ∧ c = false ∧ e = true) ∨
      (∃ r0, rs = [r0, .cleanup] ∧ c = true ∧ e = false) ∨
      (∃ r0, rs = [r0, .cleanup, .error] ∧ c = true ∧ e = true) := by
  match rs with
  | [] => simp [funcOutput]
  | [r0] => simp [funcOutput]
  | [r0, r1] =>
    cases r1 <;> simp [funcOutput] <;> (constructor <;> (intro h; simp_all))
  | [r0, r1, r2] =>
    cases r1 <;> cases r2 <;> simp [funcOutput] <;> (constructor <;> (intro h; simp_all))
  | _ :: _ :: _ :: _ :: _ => simp [funcOutput]

/-- no result, or more than three: rejected -/
theorem funcOutput_arity (rs : List RKind) :
    (rs = [] → funcOutput rs = .error .noReturn) ∧ (4 ≤ rs.length → funcOutput rs = .error .tooMany) := by
  constructor
  · intro h; subst h; rfl
  · intro h
    match rs, h with
    | _ :: _ :: _ :: _ :: _, _ => rfl

/-- a second result that is neither `error` nor `func()` is rejected; in the three-result form the
    second must be `func()` and the third `error` (named function types, other function types and
    named error types are `other`) -/
theorem funcOutput_rejects (r0 r1 r2 : RKind) :
    (r1 = .other → funcOutput [r0, r1] = .error .second) ∧
    (r1 ≠ .cleanup → funcOutput [r0, r1, r2] = .error .second) ∧
    (r1 = .cleanup → r2 ≠ .error → funcOutput [r0, r1, r2] = .error .third) := by
  refine ⟨?_, ?_, ?_⟩
  · intro h; subst h; rfl
  · intro h; cases r1 <;> simp_all [funcOutput]
  · intro h1 h2; subst h1; cases r2 <;> simp_all [funcOutput]

theorem dupParamFrom_none (seen ts : List Ty) :
    dupParamFrom seen ts = none ↔ ts.Nodup ∧ ∀ t ∈ ts, t ∉ seen := by
  induction ts generalizing seen with
  | nil => simp [dupParamFrom]
  | cons a rest ih =>
    simp only [dupParamFrom]
    by_cases ha : a ∈ seen
    · simp [ha]
    · simp only [ha, if_false, ih, List.nodup_cons, List.mem_append, List.mem_cons, List.not_mem_nil, or_false]
      constructor
      · rintro ⟨hnd, hall⟩
        refine ⟨⟨fun hmem => (hall a hmem) (Or.inr rfl), hnd⟩, ?_⟩
        intro t ht
        rcases ht with rfl | ht
        · exact ha
        · exact fun hs => hall t ht (Or.inl hs)
      · rintro ⟨⟨hna, hnd⟩, hall⟩
        refine ⟨hnd, ?_⟩
        intro t ht hs
        rcases hs with hs | rfl
        · exact hall t (Or.inr ht) hs
        · exact hna ht

/-- **Two parameters (or two selected fields) of identical type are rejected, and only then.** -/
theorem dupParam_spec (ts : List Ty) : dupParam ts = none ↔ ts.Nodup := by
  unfold dupParam
  rw [dupParamFrom_none]
  simp

theorem dupParamFrom_some (seen ts : List Ty) (t : Ty) (h : dupParamFrom seen ts = some t) :
    t ∈ ts ∧ (t ∈ seen ∨ 2 ≤ ts.count t) := by
  induction ts generalizing seen with
  | nil => simp [dupParamFrom] at h
  | cons a rest ih =>
    simp only [dupParamFrom] at h
    by_cases ha : a ∈ seen
    · simp [ha] at h; subst h; exact ⟨by simp, Or.inl ha⟩
    · simp only [ha, if_false] at h
      obtain ⟨hm, hc⟩ := ih _ h
      refine ⟨List.mem_cons_of_mem _ hm, ?_⟩
      rcases hc with hc | hc
      · rcases List.mem_append.mp hc with hc | hc
        · exact Or.inl hc
        · simp at hc; subst hc
          right
          have : 1 ≤ rest.count t := List.count_pos_iff.mpr hm
          simp [List.count_cons]; omega
      · right; simp [List.count_cons]; omega

/-- the type named by the duplicate-parameter error really occurs twice -/
theorem dupParam_named (ts : List Ty) (t : Ty) (h : dupParam ts = some t) : 2 ≤ ts.count t := by
  have := dupParamFrom_some [] ts t h
  simpa using this.2

/-- **Injector results.**  Emission is refused iff some planned call returns a cleanup (an error)
    that the injector does not declare; declaring more than is needed is accepted. -/
theorem needs_sig (sc se : Bool) (calls : List Call) :
    sigErrors sc se calls = [] ↔ ∀ c ∈ calls, (c.hasCleanup = true → sc = true) ∧ (c.hasErr = true → se = true) :=
  WireP.C03.needs_sig sc se calls

theorem declares_more_ok (calls : List Call) : sigErrors true true calls = [] := by
  rw [needs_sig]; intro c _; simp

-- non-vacuity
example : funcOutput [.other, .cleanup, .error] = .ok ⟨true, true⟩ := by rfl
example : funcOutput [.error] = .ok ⟨false, false⟩ := by rfl
example : funcOutput [.other, .other] = .error .second := by rfl
example : dupParam [3, 5, 3] = some 3 := by decide
example : sigErrors false true [{ kind := .func, out := 1, srcId := 1, hasCleanup := true }] = [(0, true)] := by decide

end WireP.C09
