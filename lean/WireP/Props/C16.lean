import WireV.Front
import WireV.Path
namespace WireP.C16
end WireP.C16
