import WireV.Path
import WireP.Lemmas.PathProofs
import WireP.Lemmas.PathProofsSort
/-! # C16 — vendor stripping and the sorted import block

Model: `WireV.unvendorC` / `WireV.unvendor` / `WireV.isWireImport` (wire.go: unvendor, isWireImport;
`strings.LastIndex` is `WireV.lastIndex`), `WireV.sortS` (`sort.Strings`) and `WireV.frameImports`
(the import block printed by `frame`, iterating over the map `g.imports`). -/
namespace WireP.C16
open WireV
open WireP.PathProofs (NoVendorElem)

/-- no `vendor` path element: neither `…/vendor/…` nor a leading `vendor/` -/
theorem noVendorElem_def (p : List Char) :
    NoVendorElem p ↔ lastIndex vendorElem p = none ∧ isPrefixC "vendor/".toList p = false := Iff.rfl

/-! ## `strings.HasPrefix`, `strings.LastIndex` as modelled -/

theorem isPrefixC_iff (n h : List Char) : isPrefixC n h = true ↔ ∃ t, h = n ++ t :=
  WireP.PathProofs.isPrefixC_iff n h

/-- `lastIndex n h = some i`: `n` occurs at `i` and at no later position -/
theorem lastIndex_some_iff {n : List Char} (hn : n ≠ []) {h : List Char} {i : Nat} :
    lastIndex n h = some i ↔
      isPrefixC n (h.drop i) = true ∧ ∀ j, i < j → isPrefixC n (h.drop j) = false :=
  WireP.PathProofs.lastIndex_some_iff hn

theorem lastIndex_none_iff {n : List Char} (hn : n ≠ []) (h : List Char) :
    lastIndex n h = none ↔ ∀ j, isPrefixC n (h.drop j) = false :=
  WireP.PathProofs.lastIndex_none_iff hn h

/-! ## `unvendor` -/

/-- a path without vendor element is left alone -/
theorem unvendor_id {p : List Char} : NoVendorElem p → unvendorC p = p :=
  WireP.PathProofs.unvendor_id

/-- **Canonical form.**  Wherever a package is vendored (any prefix `q`, which may itself contain
    vendor elements), its import path is read back. -/
theorem unvendor_canonical {p : List Char} (h : NoVendorElem p) (q : List Char) :
    unvendorC (q ++ vendorElem ++ p) = p ∧ unvendorC ("vendor/".toList ++ p) = p :=
  WireP.PathProofs.unvendor_canonical h q

/-- the same on strings -/
theorem unvendor_canonical_string {p : String} (h : NoVendorElem p.toList) (q : String) :
    unvendor (q ++ "/vendor/" ++ p) = p ∧ unvendor ("vendor/" ++ p) = p :=
  WireP.PathProofs.unvendor_canonical_string h q

/-- the result never contains a vendor element … -/
theorem unvendor_noVendor (p : List Char) : NoVendorElem (unvendorC p) :=
  WireP.PathProofs.unvendor_noVendor p

/-- … hence stripping is idempotent -/
theorem unvendor_idem (p : List Char) : unvendorC (unvendorC p) = unvendorC p :=
  WireP.PathProofs.unvendor_idem p

theorem unvendor_idem_string (p : String) : unvendor (unvendor p) = unvendor p :=
  WireP.PathProofs.unvendor_idem_string p

/-- the result is a suffix of the input -/
theorem unvendor_suffix (p : List Char) : ∃ q, p = q ++ unvendorC p :=
  WireP.PathProofs.unvendor_suffix p

/-- defect D13 (fixed in the source): a path element that merely *ends* in `vendor` is not a vendor
    directory -/
theorem unvendor_govendor :
    unvendor "example.com/app/vendor/github.com/a/govendor/lib" = "github.com/a/govendor/lib" :=
  WireP.PathProofs.unvendor_lit rfl rfl (by decide)

theorem isWireImport_spec (p : String) :
    isWireImport p = true ↔ unvendor p = "github.com/google/wire" :=
  WireP.PathProofs.isWireImport_spec p

/-- a vendored copy of wire (also below a nested vendor directory, also `vendor/` at the front) is recognised;
    a package whose path merely ends like wire's is not -/
theorem isWireImport_vendored :
    isWireImport "github.com/google/wire" = true ∧
    isWireImport "example.com/app/vendor/github.com/google/wire" = true ∧
    isWireImport "example.com/app/vendor/b.org/lib/vendor/github.com/google/wire" = true ∧
    isWireImport "vendor/github.com/google/wire" = true ∧
    isWireImport "example.com/govendor/github.com/google/wire" = false ∧
    isWireImport "example.com/app/vendor/github.com/google/wire/sub" = false :=
  ⟨WireP.PathProofs.isWireImport_lit rfl rfl (by decide), WireP.PathProofs.isWireImport_lit rfl rfl (by decide),
   WireP.PathProofs.isWireImport_lit rfl rfl (by decide), WireP.PathProofs.isWireImport_lit rfl rfl (by decide),
   WireP.PathProofs.isWireImport_lit rfl rfl (by decide), WireP.PathProofs.isWireImport_lit rfl rfl (by decide)⟩

/-! ## the import block -/

theorem sortS_sorted (l : List String) : (sortS l).Pairwise (· ≤ ·) :=
  WireP.PathProofs.sortS_sorted l

theorem sortS_perm (l : List String) : (sortS l).Perm l :=
  WireP.PathProofs.sortS_perm l

theorem sortS_eq_of_perm {l l' : List String} : l.Perm l' → sortS l = sortS l' :=
  WireP.PathProofs.sortS_eq_of_perm

/-- **The import block does not depend on the iteration order of the import map.** -/
theorem frame_perm {imps imps' : List ImportEnt} :
    imps.Perm imps' → (imps.map (·.path)).Nodup → frameImports imps = frameImports imps' :=
  WireP.PathProofs.frame_perm

theorem frameImports_length (imps : List ImportEnt) : (frameImports imps).length = imps.length :=
  WireP.PathProofs.frameImports_length imps

/-- line `i` of the block is the line of the `i`-th smallest path (never the `""` fallback) -/
theorem frameImports_get {imps : List ImportEnt} (hnd : (imps.map (·.path)).Nodup) {i : Nat} {p : String} :
    (sortS (imps.map (·.path)))[i]? = some p →
    ∃ e ∈ imps, e.path = p ∧
      (frameImports imps)[i]? = some (if e.differs then s!"{e.name} \"{p}\"" else s!"\"{p}\"") :=
  WireP.PathProofs.frameImports_get hnd

/-! ## non-vacuity -/

open WireP.PathProofs in
section
-- (`…_lit rfl rfl (by decide)`: `decide` on the character lists of the literals, see `WireP.PathProofs`)
example : NoVendorElem "github.com/google/wire".toList := noVendorElem_lit rfl (by decide)
example : NoVendorElem "example.com/govendor/vendors/x".toList := noVendorElem_lit rfl (by decide)
example : ¬ NoVendorElem "a/vendor/b".toList := not_noVendorElem_lit rfl (by decide)
example : ¬ NoVendorElem "vendor/b".toList := not_noVendorElem_lit rfl (by decide)
example : lastIndex "/vendor/".toList "a/vendor/b/vendor/c".toList = some 10 := lastIndex_lit rfl rfl (by decide)
example : unvendor "a/vendor/b/vendor/c" = "c" := unvendor_lit rfl rfl (by decide)
example : unvendor "vendor/c" = "c" := unvendor_lit rfl rfl (by decide)
example : unvendor "a/vendor/vendor/c" = "c" := unvendor_lit rfl rfl (by decide)
example : unvendor "vendor/vendor/c" = "c" := unvendor_lit rfl rfl (by decide)
example : unvendor "xvendor/c" = "xvendor/c" := unvendor_lit rfl rfl (by decide)
end

def exImps : List ImportEnt :=
  [⟨"net/http", "http", false⟩, ⟨"example.com/b", "b2", true⟩, ⟨"context", "context", false⟩]
def exImps' : List ImportEnt :=
  [⟨"context", "context", false⟩, ⟨"net/http", "http", false⟩, ⟨"example.com/b", "b2", true⟩]

example : exImps.Perm exImps' := by decide
example : (exImps.map (·.path)).Nodup := by decide
example : sortS ["net/http", "example.com/b", "context"] = ["context", "example.com/b", "net/http"] := by decide
example : frameImports exImps = ["\"context\"", "b2 \"example.com/b\"", "\"net/http\""] := by decide
example : frameImports exImps' = frameImports exImps := by decide

end WireP.C16
