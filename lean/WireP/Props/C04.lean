import WireV.Emit
import WireP.Lemmas.EmitProofs
import WireP.Props.C03
/-! # C04 — the aggregated cleanup releases everything once, in reverse acquisition order

Same model as C03 (`WireV.emitInj`, `WireV.exec`, `WireV.runClosure`).  Tie: the closure body parsed
from every generated injector and the run-time trace of invoking the returned function. -/
namespace WireP.C04
open WireV WireP.EmitProofs

/-- **Success run.**  If no error-capable provider fails: every provider function is called, in
    plan order, *no cleanup event occurs before the injector returns*, and the injector returns a
    closure iff it declares a cleanup result; that closure holds the cleanups of exactly the
    cleanup-returning providers in reverse acquisition order. -/
theorem ok_trace_and_closure (fails : Nat → Bool) (sc se : Bool) (cs : List Call) (hok : NoFail fails 0 cs) :
    runInj fails sc se cs =
      ((fnPos 0 cs).map Ev.call, Outcome.ok (if sc then some (clPos 0 cs).reverse else none)) :=
  run_ok fails sc se cs hok

/-- invoking the returned function runs each provider cleanup exactly once, newest first -/
theorem ok_cleanup_trace (fails : Nat → Bool) (se : Bool) (cs : List Call) (hok : NoFail fails 0 cs) :
    runClosure (runInj fails true se cs).2 = (clPos 0 cs).reverse.map Ev.cleanup := by
  rw [run_ok fails true se cs hok]; rfl

/-- the closure is non-nil even when no provider returns a cleanup (a no-op function) -/
theorem ok_cleanup_nonnil (fails : Nat → Bool) (se : Bool) (cs : List Call) (hok : NoFail fails 0 cs) :
    ∃ cl, (runInj fails true se cs).2 = Outcome.ok (some cl) := by
  rw [run_ok fails true se cs hok]; exact ⟨_, rfl⟩

/-- no provider cleanup runs before the caller invokes the returned function -/
theorem ok_no_early_cleanup (fails : Nat → Bool) (sc se : Bool) (cs : List Call) (hok : NoFail fails 0 cs) :
    ∀ p, Ev.cleanup p ∉ (runInj fails sc se cs).1 := by
  rw [run_ok fails sc se cs hok]; simp

/-- the closure's order is strictly decreasing in the call position: together with
    `C02.solve_args_sound` (every argument of a call is defined at a smaller position) a provider's
    cleanup always runs before the cleanup of anything it was built from; each runs once -/
theorem cleanup_respects_deps (cs : List Call) : ((clPos 0 cs).reverse).Pairwise (· > ·) :=
  WireP.C03.fail_each_once_reverse cs

/-- exactly the cleanup-returning provider functions -/
theorem closure_members (cs : List Call) (p : Nat) :
    p ∈ (clPos 0 cs).reverse ↔ ∃ c, cs[p]? = some c ∧ isFn c = true ∧ c.hasCleanup = true := by
  rw [List.mem_reverse, WireP.C03.mem_clPos]
  simp

-- non-vacuity: a struct step between two cleanup-returning providers
example : runInj (fun _ => false) true false
    [{ kind := .func, out := 10, srcId := 1, hasCleanup := true },
     { kind := .struct, out := 11, srcId := 2, args := [0] },
     { kind := .func, out := 12, srcId := 3, args := [1], hasCleanup := true }]
    = ([Ev.call 0, Ev.call 2], Outcome.ok (some [2, 0])) := by decide
example : runInj (fun _ => false) true false [{ kind := .value, out := 10, srcId := 1 }]
    = ([], Outcome.ok (some [])) := by decide

end WireP.C04
