import WireV.Emit
import WireP.Lemmas.EmitProofs
import WireP.Props.C03
import WireP.Props.C02
/-! # C04 — the aggregated cleanup releases everything once, in reverse acquisition order

Same model as C03 (`WireV.emitInj`, `WireV.exec`, `WireV.runClosure`).  Tie: the closure body parsed
from every generated injector and the run-time trace of invoking the returned function. -/
namespace WireP.C04
open WireV WireP.EmitProofs

/-- **Success run.**  If no error-capable provider fails: every provider function is called, in
    plan order, *no cleanup event occurs before the injector returns*, and the injector returns a
    closure iff it declares a cleanup result; that closure holds the cleanups of exactly the
    cleanup-returning providers in reverse acquisition order. -/
theorem ok_trace_and_closure (fails : Nat → Bool) (sc se : Bool) (cs : List Call) (hok : NoFail fails 0 cs) :
    runInj fails sc se cs =
      ((fnPos 0 cs).map Ev.call, Outcome.ok (if sc then some (clPos 0 cs).reverse else none)) :=
  run_ok fails sc se cs hok

/-- invoking the returned function runs each provider cleanup exactly once, newest first -/
theorem ok_cleanup_trace (fails : Nat → Bool) (se : Bool) (cs : List Call) (hok : NoFail fails 0 cs) :
    runClosure (runInj fails true se cs).2 = (clPos 0 cs).reverse.map Ev.cleanup := by
  rw [run_ok fails true se cs hok]; rfl

/-- the closure is non-nil even when no provider returns a cleanup (a no-op function) -/
theorem ok_cleanup_nonnil (fails : Nat → Bool) (se : Bool) (cs : List Call) (hok : NoFail fails 0 cs) :
    ∃ cl, (runInj fails true se cs).2 = Outcome.ok (some cl) := by
  rw [run_ok fails true se cs hok]; exact ⟨_, rfl⟩

/-- no provider cleanup runs before the caller invokes the returned function -/
theorem ok_no_early_cleanup (fails : Nat → Bool) (sc se : Bool) (cs : List Call) (hok : NoFail fails 0 cs) :
    ∀ p, Ev.cleanup p ∉ (runInj fails sc se cs).1 := by
  rw [run_ok fails sc se cs hok]; simp

/-- the closure's order is strictly decreasing in the call position: together with
    `C02.solve_args_sound` (every argument of a call is defined at a smaller position) a provider's
    cleanup always runs before the cleanup of anything it was built from; each runs once -/
theorem cleanup_respects_deps (cs : List Call) : ((clPos 0 cs).reverse).Pairwise (· > ·) :=
  WireP.C03.fail_each_once_reverse cs

/-- exactly the cleanup-returning provider functions -/
theorem closure_members (cs : List Call) (p : Nat) :
    p ∈ (clPos 0 cs).reverse ↔ ∃ c, cs[p]? = some c ∧ isFn c = true ∧ c.hasCleanup = true := by
  rw [List.mem_reverse, WireP.C03.mem_clPos]
  simp

-- non-vacuity: a struct step between two cleanup-returning providers
example : runInj (fun _ => false) true false
    [{ kind := .func, out := 10, srcId := 1, hasCleanup := true },
     { kind := .struct, out := 11, srcId := 2, args := [0] },
     { kind := .func, out := 12, srcId := 3, args := [1], hasCleanup := true }]
    = ([Ev.call 0, Ev.call 2], Outcome.ok (some [2, 0])) := by decide
example : runInj (fun _ => false) true false [{ kind := .value, out := 10, srcId := 1 }]
    = ([], Outcome.ok (some [])) := by decide

/-! ## End to end: planner + emission

The statement of the property speaks of "anything it was built from".  `BuiltFrom` is that relation
on the planner's call list: step `q` takes the local defined by step `p` as an argument
(variable number `given.length + p`), directly or through further steps — struct literals, field
selections and value references included, which have no cleanup of their own but pass the
dependency on. -/

/-- `BuiltFrom ng cs q p`: the value of step `q` was built, directly or transitively, from the value of step `p` -/
inductive BuiltFrom (ng : Nat) (cs : List Call) : Nat → Nat → Prop
  | direct {q p : Nat} {c : Call} : cs[q]? = some c → ng + p ∈ c.args → BuiltFrom ng cs q p
  | trans {q m p : Nat} : BuiltFrom ng cs q m → BuiltFrom ng cs m p → BuiltFrom ng cs q p

/-- in the planner's output every step is built from strictly earlier steps (all graphs, all root orders) -/
theorem builtFrom_earlier {pm : PMap} {sm : SMap} {given : List Ty} {out : Ty}
    (hH : WireP.Solve.H pm given) (hg : WireP.Solve.GivenSelf pm given) {q p : Nat}
    (h : BuiltFrom given.length (WireP.Solve.final pm sm given out).calls q p) : p < q := by
  induction h with
  | @direct q p c hq ha =>
    obtain ⟨pt, _, _, _, hlen, hargs⟩ := WireP.C02.solve_args_sound_partial (sm := sm) (out := out) hH hg q c hq
    obtain ⟨j, hj, hje⟩ := List.getElem_of_mem ha
    have hj' : j < (depsOf pt.src).length := hlen ▸ hj
    have h1 := hargs j (given.length + p) ((depsOf pt.src)[j]) (by rw [List.getElem?_eq_getElem hj, hje])
      (List.getElem?_eq_getElem hj')
    omega
  | trans _ _ ih1 ih2 => omega

/-- in a strictly decreasing list the larger of two members comes first -/
theorem sublist_pair_of_pairwise_gt {l : List Nat} (hl : l.Pairwise (· > ·)) {q p : Nat}
    (hq : q ∈ l) (hp : p ∈ l) (hpq : p < q) : List.Sublist [q, p] l := by
  induction l with
  | nil => simp at hq
  | cons x xs ih =>
    rw [List.pairwise_cons] at hl
    rcases List.mem_cons.mp hq with rfl | hq'
    · rcases List.mem_cons.mp hp with rfl | hp'
      · omega
      · exact List.Sublist.cons_cons _ (List.singleton_sublist.mpr hp')
    · rcases List.mem_cons.mp hp with rfl | hp'
      · have := hl.1 q hq'; omega
      · exact List.Sublist.cons _ (ih hl.2 hq' hp')

/-- **C04 end to end.**  For every acyclic provider map, every injector-argument list and every
    requested type: if the planned injector runs to success and the caller invokes the returned
    function, then for any two cleanup-returning providers `q`, `p` where `q` was built (directly or
    transitively, through any mixture of provider, struct, field and value steps) from `p`, the
    cleanup of `q` runs strictly before the cleanup of `p`. -/
theorem cleanup_before_what_it_was_built_from {pm : PMap} {sm : SMap} {given : List Ty} {out : Ty}
    (hH : WireP.Solve.H pm given) (hg : WireP.Solve.GivenSelf pm given)
    (fails : Nat → Bool) (se : Bool)
    (hok : NoFail fails 0 (WireP.Solve.final pm sm given out).calls) {q p : Nat}
    (hb : BuiltFrom given.length (WireP.Solve.final pm sm given out).calls q p)
    (hq : q ∈ clPos 0 (WireP.Solve.final pm sm given out).calls)
    (hp : p ∈ clPos 0 (WireP.Solve.final pm sm given out).calls) :
    List.Sublist [Ev.cleanup q, Ev.cleanup p]
      (runClosure (runInj fails true se (WireP.Solve.final pm sm given out).calls).2) := by
  rw [ok_cleanup_trace fails se _ hok]
  have h := sublist_pair_of_pairwise_gt (cleanup_respects_deps _)
    (List.mem_reverse.mpr hq) (List.mem_reverse.mpr hp) (builtFrom_earlier hH hg hb)
  simpa using h.map Ev.cleanup

/-- each cleanup event occurs exactly once in the trace of the returned function -/
theorem cleanup_trace_nodup (fails : Nat → Bool) (se : Bool) (cs : List Call) (hok : NoFail fails 0 cs) :
    (runClosure (runInj fails true se cs).2).Nodup := by
  rw [ok_cleanup_trace fails se cs hok]
  rw [List.Nodup, List.pairwise_map]
  exact (cleanup_respects_deps cs).imp (fun hab h => by injection h; omega)

/-- **The failure path, end to end (C03's unwinding has the same order).**  If the planner's call list is
    `pre ++ c :: post` and the error-capable provider `c` is the first to fail, then among the cleanups the
    injector runs before returning the error, the cleanup of `q` precedes the cleanup of `p` whenever `q`
    was built from `p`. -/
theorem unwind_before_what_it_was_built_from {pm : PMap} {sm : SMap} {given : List Ty} {out : Ty}
    (hH : WireP.Solve.H pm given) (hg : WireP.Solve.GivenSelf pm given)
    (fails : Nat → Bool) (sc se : Bool) (pre post : List Call) (c : Call)
    (hcs : (WireP.Solve.final pm sm given out).calls = pre ++ c :: post)
    (hck : isFn c = true) (hce : c.hasErr = true) (hcf : fails pre.length = true)
    (hpre : NoFail fails 0 pre) {q p : Nat}
    (hb : BuiltFrom given.length (WireP.Solve.final pm sm given out).calls q p)
    (hq : q ∈ clPos 0 pre) (hp : p ∈ clPos 0 pre) :
    List.Sublist [Ev.cleanup q, Ev.cleanup p]
      (runInj fails sc se (WireP.Solve.final pm sm given out).calls).1 := by
  have hlt := builtFrom_earlier hH hg hb
  rw [hcs, WireP.C03.fail_trace_and_result fails sc se pre post c hck hce hcf hpre]
  have h := sublist_pair_of_pairwise_gt (WireP.C03.fail_each_once_reverse pre)
    (List.mem_reverse.mpr hq) (List.mem_reverse.mpr hp) hlt
  have h2 : List.Sublist [Ev.cleanup q, Ev.cleanup p] ((clPos 0 pre).reverse.map Ev.cleanup) := by
    simpa using h.map Ev.cleanup
  exact h2.trans (List.sublist_append_right _ _)

-- non-vacuity of `BuiltFrom`: step 2 is built from step 0 through the struct step 1
example : BuiltFrom 0
    [{ kind := .func, out := 10, srcId := 1, hasCleanup := true },
     { kind := .struct, out := 11, srcId := 2, args := [0] },
     { kind := .func, out := 12, srcId := 3, args := [1], hasCleanup := true }] 2 0 :=
  .trans (m := 1)
    (.direct (q := 2) (p := 1) (c := { kind := .func, out := 12, srcId := 3, args := [1], hasCleanup := true }) rfl (by simp))
    (.direct (q := 1) (p := 0) (c := { kind := .struct, out := 11, srcId := 2, args := [0] }) rfl (by simp))

end WireP.C04
