import WireV.Cmd
import WireP.Lemmas.CmdProofsList
/-! # C18 — regenerating after any history leaves the file a fresh checkout would get

Model: `WireV.stepH`, `WireV.runH` — histories of `switch v` (edit the sources), `gen`, `diff`,
`delete p`, `clobber p c` over the abstract file system.  `A : Nat → LoadRes` is what analysis yields
for each variant; by H-iso it does not depend on the file system (the generated file is excluded from
loading by its build constraint).  `hs` is the header status of `diff`.

Definitions (in `WireP.Lemmas.CmdProofsHist`, namespace `WireP.C18`):
`GoodVariant A v` — `A v = .ok outs`, `outs ≠ []`, distinct output paths, every package without errors
and with non-empty output; `outPaths (A v)` — the output paths; `freshFS A v` — what `gen` leaves
starting from the empty file system.

The unrestricted statement is FALSE (finding D11, `regen_stale_survives`): a package that has no Wire
output any more keeps its stale `wire_gen.go`, and `diff` does not notice.  Hence `…_partial`. -/
namespace WireP.C18
open WireV

/-- after any history that ends in `gen` while the current variant is a good `v`, every output file
    holds exactly what `gen` writes on a fresh checkout, and that `gen` exits 0 -/
theorem regen_fresh_partial (A : Nat → LoadRes) (hs v : Nat) (s : HState) (ops : List Op) :
    GoodVariant A v → (runH A hs s ops).1.variant = v →
    (∀ outs, A v = .ok outs → ∀ o ∈ outs,
        fsGet (runH A hs s (ops ++ [.gen])).1.fs o.outPath = some o.content) ∧
    (∀ p ∈ outPaths (A v), fsGet (runH A hs s (ops ++ [.gen])).1.fs p = fsGet (freshFS A v) p) ∧
    (runH A hs s (ops ++ [.gen])).2.getLast? = some (some 0) ∧
    (runH A hs s (ops ++ [.gen])).1.variant = v := fun hg hv =>
  WireP.CmdProofs.regen_fresh_partial A hs v hg s ops hv

/-- the form of the brief: any history, then `switch v; gen` -/
theorem regen_fresh_switch_partial (A : Nat → LoadRes) (hs v : Nat) (s : HState) (ops : List Op) :
    GoodVariant A v →
    (∀ outs, A v = .ok outs → ∀ o ∈ outs,
        fsGet (runH A hs s (ops ++ [.switch v, .gen])).1.fs o.outPath = some o.content) ∧
    (∀ p ∈ outPaths (A v), fsGet (runH A hs s (ops ++ [.switch v, .gen])).1.fs p = fsGet (freshFS A v) p) ∧
    (runH A hs s (ops ++ [.switch v, .gen])).2.getLast? = some (some 0) := fun hg =>
  WireP.CmdProofs.regen_fresh_switch_partial A hs v hg s ops

/-- paths that are not output paths of the current variant keep whatever the history left there
    (any variant, good or not) -/
theorem regen_other_paths_untouched (A : Nat → LoadRes) (hs : Nat) (s : HState) (ops : List Op) (p : Nat) :
    p ∉ outPaths (A (runH A hs s ops).1.variant) →
    fsGet (runH A hs s (ops ++ [.gen])).1.fs p = fsGet (runH A hs s ops).1.fs p :=
  WireP.CmdProofs.regen_other_paths_untouched A hs s ops p

/-- … whereas a fresh checkout has nothing there -/
theorem fresh_other_paths_absent (A : Nat → LoadRes) (v p : Nat) :
    p ∉ outPaths (A v) → fsGet (freshFS A v) p = none :=
  WireP.CmdProofs.freshFS_other A v p

/-- `gen` twice = `gen` once (pointwise) -/
theorem gen_idempotent (A : Nat → LoadRes) (hs v : Nat) (s : HState) (p : Nat) :
    GoodVariant A v → s.variant = v →
    fsGet (stepH A hs (stepH A hs s .gen).1 .gen).1.fs p = fsGet (stepH A hs s .gen).1.fs p := fun hg hv =>
  WireP.CmdProofs.gen_idempotent A hs v hg s hv p

/-- `gen` twice = `gen` once, as states (the second `gen` re-inserts the entries in the same order) -/
theorem gen_idempotent_list (A : Nat → LoadRes) (hs v : Nat) (s : HState) :
    GoodVariant A v → s.variant = v →
    (stepH A hs (stepH A hs s .gen).1 .gen).1 = (stepH A hs s .gen).1 := fun hg hv =>
  WireP.CmdProofs.gen_idempotent_list A hs v hg s hv

/-- `diff` right after `gen` reports no difference -/
theorem diff_after_gen (A : Nat → LoadRes) (hs v : Nat) (s : HState) :
    GoodVariant A v → s.variant = v →
    (stepH A hs (stepH A hs s .gen).1 .diff).2 = some 0 := fun hg hv =>
  WireP.CmdProofs.diff_after_gen A hs v hg s hv

/-- `diff` does not change the state -/
theorem diff_check_readonly (A : Nat → LoadRes) (hs : Nat) (s : HState) : (stepH A hs s .diff).1 = s :=
  WireP.CmdProofs.diff_check_readonly A hs s

/-- **finding D11**: the statement without `GoodVariant` fails.  Variant `v` has one package without
    Wire output (path 7); the file system holds a stale generated file there.  After `gen` the stale
    file is still there, `gen` and `diff` both exit 0, and a fresh checkout would have no such file. -/
theorem regen_stale_survives (A : Nat → LoadRes) (hs v : Nat) (hA : A v = .ok [⟨7, false, 0⟩]) :
    fsGet (runH A hs ⟨[(7, 5)], v⟩ [.gen, .diff]).1.fs 7 = some 5 ∧
    (runH A hs ⟨[(7, 5)], v⟩ [.gen, .diff]).2 = [some 0, some 0] ∧
    fsGet (freshFS A v) 7 = none := by
  simp only [runH, stepH, freshFS, hA]
  exact ⟨rfl, rfl, rfl⟩

/-- the same witness on a closed instance, by evaluation -/
theorem regen_stale_survives_closed :
    (runH (fun _ => .ok [⟨7, false, 0⟩]) 2 ⟨[(7, 5)], 0⟩ [.gen, .diff]).1.fs = [(7, 5)] ∧
    (runH (fun _ => .ok [⟨7, false, 0⟩]) 2 ⟨[(7, 5)], 0⟩ [.gen, .diff]).2 = [some 0, some 0] ∧
    freshFS (fun _ => .ok [⟨7, false, 0⟩]) 0 = [] := by decide

/-- hence the unrestricted claim "after `gen`, every path holds what a fresh checkout holds" is false -/
theorem regen_fresh_full_false :
    ¬ ∀ (A : Nat → LoadRes) (hs : Nat) (s : HState) (ops : List Op) (p : Nat),
        fsGet (runH A hs s (ops ++ [.gen])).1.fs p = fsGet (freshFS A (runH A hs s ops).1.variant) p := fun h =>
  absurd (h (fun _ => .ok [⟨7, false, 0⟩]) 2 ⟨[(7, 5)], 0⟩ [] 7) (by decide)

/-! ## non-vacuity: two variants, histories with delete / clobber / switch -/

private def A2 : Nat → LoadRes
  | 0 => .ok [⟨10, false, 100⟩, ⟨20, false, 200⟩]
  | 1 => .ok [⟨10, false, 101⟩, ⟨30, false, 300⟩]
  | _ => .loadErr

example : GoodVariant A2 0 := ⟨_, rfl, by decide, by decide, by decide⟩
example : GoodVariant A2 1 := ⟨_, rfl, by decide, by decide, by decide⟩

example : runH A2 2 ⟨[(20, 5)], 0⟩ [.gen, .diff, .clobber 10 66, .diff, .delete 20, .diff, .switch 1, .diff, .gen, .diff] =
    (⟨[(30, 300), (10, 101)], 1⟩,
     [some 0, some 0, none, some 1, none, some 1, none, some 1, some 0, some 0]) := rfl

/-- file 20 (an output of variant 0 only) stays behind after switching to variant 1 — "other paths" -/
example : (runH A2 2 ⟨[], 0⟩ [.gen, .switch 1, .gen]).1.fs = [(30, 300), (10, 101), (20, 200)] := by decide
example : freshFS A2 1 = [(30, 300), (10, 101)] := by decide

end WireP.C18
