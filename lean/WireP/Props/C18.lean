import WireV.Cmd
namespace WireP.C18
end WireP.C18
