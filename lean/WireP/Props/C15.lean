import WireV.Tables
/-! # C15 — `copyAST` covers go/ast (table part)

The tables `WireV.Generated.copyCases` (the cases of `copyAST` and the fields each case copies) and
`WireV.Generated.astNodes` (the node structs of go/ast of the toolchain, with their fields classified)
are regenerated from the sources on every run; the theorems below are closed by `decide` and therefore
break when either source changes in a way that violates them. -/
namespace WireP.C15
open WireV WireV.Generated

/-- every go/ast node kind has a case in `copyAST` (no node makes it panic) -/
theorem copy_total : copyUnhandled = [] := by decide

/-- every case copies every child, child-list and value field of its node struct -/
theorem copy_complete : copyMissing = [] := by decide

/-- every field a case assigns exists in the node struct, and every case is for an existing node -/
theorem copy_fields_exist : copyUnknown = [] := by decide

/-! ## non-vacuity: the tables are populated, and the checks do detect defects -/

example : 50 ≤ astNodes.length ∧ astNodes.length ≤ copyCases.length := by decide

example : (copyCases.find? (fun c => c.1 == "TypeSpec")).map (·.2.contains "TypeParams") = some true := by decide

example : ("TypeParams", "child") ∈ ((astNodes.find? (fun c => c.1 == "FuncType")).map (·.2)).getD [] := by decide

/-- the filters are not trivially empty: dropping one case / one field is detected -/
example : (["Ident", "Foo"].filter (fun k => !(copyCases.map (·.1)).contains k)) = ["Foo"] := by decide

end WireP.C15
