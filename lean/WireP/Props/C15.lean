import WireV.Tables
import WireV.Rename
import WireP.Lemmas.RenameProofs
/-! # C15 — `copyAST` covers go/ast (table part)

The tables `WireV.Generated.copyCases` (the cases of `copyAST` and the fields each case copies) and
`WireV.Generated.astNodes` (the node structs of go/ast of the toolchain, with their fields classified)
are regenerated from the sources on every run; the theorems below are closed by `decide` and therefore
break when either source changes in a way that violates them. -/
namespace WireP.C15
open WireV WireV.Generated

/-- every go/ast node kind has a case in `copyAST` (no node makes it panic) -/
theorem copy_total : copyUnhandled = [] := by decide

/-- every case copies every child, child-list and value field of its node struct -/
theorem copy_complete : copyMissing = [] := by decide

/-- every field a case assigns exists in the node struct, and every case is for an existing node -/
theorem copy_fields_exist : copyUnknown = [] := by decide

/-! ## non-vacuity: the tables are populated, and the checks do detect defects -/

example : 50 ≤ astNodes.length ∧ astNodes.length ≤ copyCases.length := by decide

example : (copyCases.find? (fun c => c.1 == "TypeSpec")).map (·.2.contains "TypeParams") = some true := by decide

example : ("TypeParams", "child") ∈ ((astNodes.find? (fun c => c.1 == "FuncType")).map (·.2)).getD [] := by decide

/-- the filters are not trivially empty: dropping one case / one field is detected -/
example : (["Ident", "Foo"].filter (fun k => !(copyCases.map (·.1)).contains k)) = ["Foo"] := by decide

/-! # C15 — the second pass of `rewritePkgRefs`: renaming of local symbols (`WireV.Rename`)

Model: `WireV.renameOccs fuel fs occs` — the copied declaration as the list of its identifier
occurrences `Occ` (name, object, `renamable`, `silent`), `fs` the names of the generated file's scope;
the result is the list of the printed names of the non-silent occurrences `vis occs`.
Definitions used by the statements (`vis`, `OccWF`, `occAt`, `Tok`, `lookupStack`, `bound`, `OuterOK`,
`ToksInRange`, `declIdx`, `useIdx`) live in `WireP.Lemmas.RenameProofs`.

`OccWF occs` (what go/types guarantees; decidable):
* two occurrences of the same object are spelled alike and agree on `renamable`;
* a silent occurrence is a renamable symbol with an object that also has a non-silent occurrence. -/
section Rename
open WireP.RenameProofs

/-- `OccWF` in the formulation with an explicit object key -/
theorem occWF_iff (occs : List Occ) :
    OccWF occs ↔
      ((∀ o1 ∈ occs, ∀ o2 ∈ occs, ∀ k, o1.obj = some k → o2.obj = some k →
          o1.name = o2.name ∧ o1.renamable = o2.renamable) ∧
       (∀ o ∈ occs, o.silent = true →
          o.renamable = true ∧ o.obj ≠ none ∧ ∃ o' ∈ occs, o'.silent = false ∧ o'.obj = o.obj)) :=
  RenameProofs.occWF_iff occs

/-- T0 **the unbounded loop of the renaming terminates**: with fuel beyond the number of names that can
    ever have to be avoided, a result exists -/
theorem rename_total (fuel : Nat) (fs : List String) (occs : List Occ)
    (hf : fs.length + 2 * occs.length + WireV.goKeywords.length + 2 ≤ fuel) :
    ∃ ns, renameOccs fuel fs occs = some ns :=
  RenameProofs.rename_total fuel fs occs hf

/-- T1 one printed name per non-silent occurrence -/
theorem rename_length (fuel : Nat) (fs : List String) (occs : List Occ) (ns : List String)
    (h : renameOccs fuel fs occs = some ns) : ns.length = (vis occs).length :=
  RenameProofs.rename_length h

/-- T2 identifiers without object (the qualifiers and selectors the first pass wrote) keep their name —
    for every occurrence list -/
theorem rename_fixed_noobj (fuel : Nat) (fs : List String) (occs : List Occ) (ns : List String)
    (h : renameOccs fuel fs occs = some ns) (i : Nat) (o : Occ) (hi : (vis occs)[i]? = some o)
    (ho : o.obj = none) : ns[i]? = some o.name :=
  RenameProofs.rename_fixed_noobj h hi ho

/-- T2 identifiers without object and identifiers of objects that are not renamable (fields, methods,
    package-level and universe objects) keep their name.  `OccWF` is needed for the second kind: see
    the counterexample below. -/
theorem rename_fixed (fuel : Nat) (fs : List String) (occs : List Occ) (ns : List String)
    (hwf : OccWF occs) (h : renameOccs fuel fs occs = some ns) (i : Nat) (o : Occ)
    (hi : (vis occs)[i]? = some o) (ho : o.obj = none ∨ o.renamable = false) :
    ns[i]? = some o.name :=
  RenameProofs.rename_fixed hwf h hi ho

/-- T3 all occurrences of one object are printed alike — also those before the place where the new
    name was chosen (a forward `goto`) -/
theorem rename_consistent (fuel : Nat) (fs : List String) (occs : List Occ) (ns : List String)
    (hwf : OccWF occs) (h : renameOccs fuel fs occs = some ns) (i j k : Nat) (oi oj : Occ)
    (hi : (vis occs)[i]? = some oi) (hj : (vis occs)[j]? = some oj)
    (hoi : oi.obj = some k) (hoj : oj.obj = some k) : ns[i]? = ns[j]? :=
  RenameProofs.rename_consistent hwf h hi hj hoi hoj

/-- T4 a changed name is fresh: not in the file scope, not an identifier of the node, not a keyword —
    for every occurrence list -/
theorem rename_fresh (fuel : Nat) (fs : List String) (occs : List Occ) (ns : List String)
    (h : renameOccs fuel fs occs = some ns) (i : Nat) (o : Occ) (n : String)
    (hi : (vis occs)[i]? = some o) (hn : ns[i]? = some n) (hne : n ≠ o.name) :
    n ∉ fs ∧ n ∉ usedNames occs ∧ isKeyword n = false :=
  RenameProofs.rename_fresh h hi hn hne

/-- T5 **no local symbol of the copy carries a name of the generated file's scope** — so no package
    qualifier written by the first pass can be captured -/
theorem rename_clears_filescope (fuel : Nat) (fs : List String) (occs : List Occ) (ns : List String)
    (hwf : OccWF occs) (h : renameOccs fuel fs occs = some ns) (i : Nat) (o : Occ) (n : String)
    (hi : (vis occs)[i]? = some o) (hr : o.renamable = true) (hob : o.obj ≠ none)
    (hn : ns[i]? = some n) : n ∉ fs :=
  RenameProofs.rename_clears_filescope hwf h hi hr hob hn

/-- T6 **nothing is merged**: two identifiers printed alike were spelled alike before, and if the
    name is a new one they denote the same object -/
theorem rename_injective (fuel : Nat) (fs : List String) (occs : List Occ) (ns : List String)
    (hwf : OccWF occs) (h : renameOccs fuel fs occs = some ns) (i j : Nat) (oi oj : Occ) (n : String)
    (hi : (vis occs)[i]? = some oi) (hj : (vis occs)[j]? = some oj)
    (hni : ns[i]? = some n) (hnj : ns[j]? = some n) :
    oi.name = oj.name ∧ (n = oi.name ∨ oi.obj = oj.obj) :=
  RenameProofs.rename_injective hwf h hi hj hni hnj

/-! ## T7 name resolution is preserved

A program over the printed identifiers: `Tok.enter`/`Tok.leave` open and close a block, `Tok.decl i`
declares identifier `i` (index into `vis occs`) in the innermost block, `Tok.use i` uses it.
`lookupStack n env` is the first hit for the name `n` from the innermost scope outwards;
`bound env0 chk nm ob loc toks` runs the program in the local scopes `loc` inside the outer scopes `env0`
and demands `lookupStack (nm i) (loc ++ env0) = some (ob i)` for every use `i` with `chk i`.
`OuterOK fs occs env0`: the outer names are names of `fs` or identifiers of the node, and the outer
objects are not renamable symbols of the node.  (All side conditions are decidable.) -/

/-- T7 (first form) a program that resolves correctly with the original names resolves correctly with
    the new names, in the same outer scopes -/
theorem rename_preserves_binding (fuel : Nat) (fs : List String) (occs : List Occ) (ns : List String)
    (env0 : List Scope) (toks : List Tok)
    (hwf : OccWF occs) (h : renameOccs fuel fs occs = some ns)
    (hidx : ToksInRange occs toks) (henv0 : OuterOK fs occs env0)
    (hb : bound env0 (fun _ => true) (fun i => (occAt occs i).name) (fun i => (occAt occs i).obj) []
      toks = true) :
    bound env0 (fun _ => true) (fun i => ns[i]?.getD "") (fun i => (occAt occs i).obj) [] toks
      = true :=
  RenameProofs.rename_preserves_binding env0 toks hwf h hidx henv0 hb

/-- T7 (second form) **the second pass repairs captured qualifiers**: the identifiers without object are
    the qualifiers the first pass wrote (names of `fs` that mean "no object" in the outer scopes);
    before the second pass a local symbol may capture them, so only the identifiers *with* an object are
    assumed to resolve correctly; if all declarations are renamable symbols, then afterwards **all**
    identifiers resolve correctly -/
theorem rename_no_capture (fuel : Nat) (fs : List String) (occs : List Occ) (ns : List String)
    (env0 : List Scope) (toks : List Tok)
    (hwf : OccWF occs) (h : renameOccs fuel fs occs = some ns)
    (hidx : ToksInRange occs toks) (henv0 : OuterOK fs occs env0)
    (hdecl : ∀ i ∈ declIdx toks, (occAt occs i).renamable = true ∧ (occAt occs i).obj ≠ none)
    (hqual : ∀ i ∈ useIdx toks, (occAt occs i).obj = none →
      (occAt occs i).name ∈ fs ∧ lookupStack (occAt occs i).name env0 = some none)
    (hb : bound env0 (fun i => (occAt occs i).obj.isSome) (fun i => (occAt occs i).name)
      (fun i => (occAt occs i).obj) [] toks = true) :
    bound env0 (fun _ => true) (fun i => ns[i]?.getD "") (fun i => (occAt occs i).obj) [] toks
      = true :=
  RenameProofs.rename_no_capture env0 toks hwf h hidx henv0 hdecl hqual hb

/-! ## non-vacuity -/

/-- generated file scope -/
def exFs : List String := ["strings", "fmt", "Println"]

/-- `goto strings` (forward use of label object 0) · qualifier `strings` written by the first pass ·
    local variable `strings2` (object 1) · the label declaration `strings:` (object 0) · the silent
    pre-visit of a type-switch variable `fmt` (object 2) · its identifier · the package-level
    function `Println` (object 3, not renamable) -/
def exOccs : List Occ :=
  [⟨"strings", some 0, true, false⟩, ⟨"strings", none, false, false⟩, ⟨"strings2", some 1, true, false⟩,
   ⟨"strings", some 0, true, false⟩, ⟨"fmt", some 2, true, true⟩, ⟨"fmt", some 2, true, false⟩,
   ⟨"Println", some 3, false, false⟩]

/-- object 0 becomes `strings3` (not `strings2`, which occurs in the node) at both places, the qualifier
    and the non-renamable `Println` stay, the silent occurrence fixes `fmt2` and prints nothing -/
example : renameOccs 60 exFs exOccs =
    some ["strings3", "strings", "strings2", "strings3", "fmt2", "Println"] := by decide
example : OccWF exOccs := by decide
example : usedNames exOccs = ["strings", "strings", "strings2", "strings", "fmt", "Println"] := by decide
/-- the fuel bound of `rename_total` is met; too little fuel really fails -/
example : exFs.length + 2 * exOccs.length + WireV.goKeywords.length + 2 ≤ 60 := by decide
example : renameOccs 1 exFs exOccs = none := by decide
/-- the hypotheses of T5 are met at index 3 (the label), the conclusion is not trivial -/
example : (vis exOccs)[3]? = some ⟨"strings", some 0, true, false⟩ ∧
    ((renameOccs 60 exFs exOccs).bind (·[3]?)) = some "strings3" ∧ "strings" ∈ exFs ∧
    "strings3" ∉ exFs := by decide
/-- … and T5 applies -/
example : "strings3" ∉ exFs :=
  rename_clears_filescope 60 exFs exOccs ["strings3", "strings", "strings2", "strings3", "fmt2", "Println"]
    (by decide) (by decide) 3 ⟨"strings", some 0, true, false⟩ "strings3" (by decide) rfl (by decide)
    (by decide)
/-- T2 for non-renamable objects needs `OccWF`: two occurrences of one object that disagree on
    `renamable` -/
example : renameOccs 60 ["a"] [⟨"a", some 0, true, false⟩, ⟨"a", some 0, false, false⟩] =
    some ["a2", "a2"] ∧ ¬ OccWF [⟨"a", some 0, true, false⟩, ⟨"a", some 0, false, false⟩] := by decide
/-- without the `used` set a new name could merge two symbols; with it `strings2` is skipped (T6) -/
example : renameOccs 60 ["x"] [⟨"x", some 0, true, false⟩, ⟨"x2", some 1, true, false⟩] =
    some ["x3", "x2"] := by decide

/-- the scopes around the node: the imports and a package-level function of the generated file -/
def exEnv0 : List Scope := [[("strings", none), ("fmt", none), ("Println", some 3)]]

/-- `{ strings: ; goto strings ; { strings2 := … ; strings.F ; switch fmt := … ; Println } }`
    (the label is in scope in the whole function body, so its declaration comes first) -/
def exToks : List Tok :=
  [.enter, .decl 3, .use 0, .enter, .decl 2, .use 1, .decl 4, .use 4, .use 5, .leave, .leave]

example : ToksInRange exOccs exToks := by decide
example : OuterOK exFs exOccs exEnv0 := by decide
example : ∀ i ∈ declIdx exToks, (occAt exOccs i).renamable = true ∧ (occAt exOccs i).obj ≠ none := by
  decide
example : ∀ i ∈ useIdx exToks, (occAt exOccs i).obj = none →
    (occAt exOccs i).name ∈ exFs ∧ lookupStack (occAt exOccs i).name exEnv0 = some none := by decide
/-- before the second pass the identifiers with an object resolve correctly … -/
example : bound exEnv0 (fun i => (occAt exOccs i).obj.isSome) (fun i => (occAt exOccs i).name)
    (fun i => (occAt exOccs i).obj) [] exToks = true := by decide
/-- … but the qualifier `strings` is captured by the label … -/
example : bound exEnv0 (fun _ => true) (fun i => (occAt exOccs i).name)
    (fun i => (occAt exOccs i).obj) [] exToks = false := by decide
/-- … and afterwards everything resolves correctly (the conclusion of `rename_no_capture`) -/
example : bound exEnv0 (fun _ => true)
    (fun i => ["strings3", "strings", "strings2", "strings3", "fmt2", "Println"][i]?.getD "")
    (fun i => (occAt exOccs i).obj) [] exToks = true := by decide
/-- the same, obtained from the theorem: all its hypotheses hold together -/
example : bound exEnv0 (fun _ => true)
    (fun i => ["strings3", "strings", "strings2", "strings3", "fmt2", "Println"][i]?.getD "")
    (fun i => (occAt exOccs i).obj) [] exToks = true :=
  rename_no_capture 60 exFs exOccs _ exEnv0 exToks (by decide) (by decide) (by decide) (by decide)
    (by decide) (by decide) (by decide)
/-- `bound` does detect a wrong resolution and unbalanced blocks -/
example : bound exEnv0 (fun _ => true) (fun i => (occAt exOccs i).name) (fun i => (occAt exOccs i).obj)
    [] [.enter, .decl 2, .use 3, .leave] = false := by decide
example : bound exEnv0 (fun _ => true) (fun i => (occAt exOccs i).name) (fun i => (occAt exOccs i).obj)
    [] [.leave] = false := by decide

end Rename

end WireP.C15
