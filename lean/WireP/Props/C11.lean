import WireP.Lemmas.SolveExample
/-! # C11 (planner half) — an interface binding is an alias, never a source of its own

Property theorems only; lemmas in `WireP/Lemmas/Solve*.lean`; model `WireV.svStep` / `solve`.
(The map half — `bind_alias`, `bind_needs_concrete` — is Task B's, about `buildProviderMap`.)

Deviation from the brief: the theorems that speak about *all reachable* types need
`GivenLeaf pm given`, which `H` does not imply — counterexamples `pmA`, `pmB` below. -/
namespace WireP.C11
open WireV WireP.Solve

/-- **A binding never produces a call of its own**: no call outputs the interface type. -/
theorem bind_no_call {pm : PMap} {sm : SMap} {given : List Ty} {out : Ty} (hH : H pm given)
    {k : Ty} {pt : PT} (hlp : look k pm = some pt) (hb : pt.t ≠ k) :
    ∀ c ∈ (final pm sm given out).calls, c.out ≠ k :=
  WireP.Solve.bind_no_call hH.concClosed hH.givenNodup hlp hb

/-- **The interface shares the concrete type's index entry** (with or without errors). -/
theorem bind_same_index_partial {pm : PMap} {sm : SMap} {given : List Ty} {out : Ty}
    (hH : H pm given) (hl : GivenLeaf pm given) {k : Ty} {pt : PT}
    (hlp : look k pm = some pt) (hb : pt.t ≠ k) (hr : Reach pm out k) :
    look k (final pm sm given out).index = look pt.t (final pm sm given out).index :=
  WireP.Solve.bind_same_index_partial hH hl hlp hb hr

/-- … and, without errors, that entry is a variable holding the concrete type -/
theorem bind_value_partial {pm : PMap} {sm : SMap} {given : List Ty} {out : Ty}
    (hH : H pm given) (hl : GivenLeaf pm given) (he : (final pm sm given out).errs = [])
    {k : Ty} {pt : PT} (hlp : look k pm = some pt) (hb : pt.t ≠ k) (hr : Reach pm out k) :
    ∃ n, look k (final pm sm given out).index = some (some n) ∧
      look pt.t (final pm sm given out).index = some (some n) ∧
      produced given (final pm sm given out).calls n = some pt.t :=
  WireP.Solve.bind_value_partial hH hl he hlp hb hr

/-- **No implicit interface satisfaction**: lookups are by type identity only, so a needed type
    that is neither given nor a key of the map is an error, whatever else is provided. -/
theorem no_implicit_iface_partial {pm : PMap} {sm : SMap} {given : List Ty} {out : Ty}
    (hH : H pm given) (hl : GivenLeaf pm given) {t : Ty}
    (hlp : look t pm = none) (hng : t ∉ given) (hr : Reach pm out t) :
    (final pm sm given out).errs ≠ [] :=
  WireP.Solve.no_implicit_iface_partial hH hl hlp hng hr

/-! ## non-vacuity -/

open WireP.Solve.Ex

example : H pmEx [0] ∧ GivenLeaf pmEx [0] := ⟨hEx, leafEx⟩
/-- `3` is bound to `2`; it is needed (by `C`), gets no call, and shares variable `2` with `2` -/
example : (look 3 pmEx).map (·.t) = some 2 := by decide
example : Reach pmEx 7 3 :=
  .step (b := 6) ⟨_, rfl, Or.inr ⟨rfl, by decide⟩⟩ <|
    .step (b := 4) ⟨_, rfl, Or.inr ⟨rfl, by decide⟩⟩ <|
      .step (b := 3) ⟨_, rfl, Or.inr ⟨rfl, by decide⟩⟩ (.refl 3)
example : (final pmEx smEx [0] 7).calls.map (·.out) = [1, 2, 4, 5, 6, 7] := by decide
example : look 3 (final pmEx smEx [0] 7).index = some (some 2) ∧
    look 2 (final pmEx smEx [0] 7).index = some (some 2) ∧
    produced [0] (final pmEx smEx [0] 7).calls 2 = some 2 := by decide
/-- without the value `1`, `1` is needed but nothing is substituted for it -/
example : H pmMiss [0] ∧ GivenLeaf pmMiss [0] ∧ look 1 pmMiss = none ∧
    (final pmMiss smMiss [0] 7).errs ≠ [] := ⟨hMiss, leafMiss, by decide, by decide⟩

/-- `GivenLeaf` cannot be dropped from `bind_same_index_partial`: with a given type `3` that is
    the key of a binding `3 ↦ 2`, `H` holds, there is no error, `3` is (trivially) reachable from
    the request `3`, and `3` is indexed while `2` is not. -/
example : H pmA [3] ∧ (final pmA [] [3] 3).errs = [] ∧ Reach pmA 3 3 ∧
    look 3 (final pmA [] [3] 3).index = some (some 0) ∧
    look 2 (final pmA [] [3] 3).index = none :=
  ⟨hA, by decide, .refl 3, by decide, by decide⟩

/-- … nor from `no_implicit_iface_partial` -/
example : H pmB [0] ∧ look 5 pmB = none ∧ 5 ∉ [0] ∧ Reach pmB 0 5 ∧
    (final pmB smB [0] 0).errs = [] :=
  ⟨hB, by decide, by decide, reachB5, by decide⟩

end WireP.C11
