import WireP.Lemmas.SolveExample
import WireP.Lemmas.BindProofs
/-! # C11 (planner half) — an interface binding is an alias, never a source of its own

Property theorems only; lemmas in `WireP/Lemmas/Solve*.lean`; model `WireV.svStep` / `solve`.
(The map half — `bind_alias`, `bind_needs_concrete` — is Task B's, about `buildProviderMap`.)

Deviation from the brief: the theorems that speak about *all reachable* types need
`GivenLeaf pm given`, which `H` does not imply — counterexamples `pmA`, `pmB` below. -/
namespace WireP.C11
open WireV WireP.Solve

/-- **A binding never produces a call of its own**: no call outputs the interface type. -/
theorem bind_no_call {pm : PMap} {sm : SMap} {given : List Ty} {out : Ty} (hH : H pm given)
    {k : Ty} {pt : PT} (hlp : look k pm = some pt) (hb : pt.t ≠ k) :
    ∀ c ∈ (final pm sm given out).calls, c.out ≠ k :=
  WireP.Solve.bind_no_call hH.concClosed hH.givenNodup hlp hb

/-- **The interface shares the concrete type's index entry** (with or without errors). -/
theorem bind_same_index_partial {pm : PMap} {sm : SMap} {given : List Ty} {out : Ty}
    (hH : H pm given) (hl : GivenLeaf pm given) {k : Ty} {pt : PT}
    (hlp : look k pm = some pt) (hb : pt.t ≠ k) (hr : Reach pm out k) :
    look k (final pm sm given out).index = look pt.t (final pm sm given out).index :=
  WireP.Solve.bind_same_index_partial hH hl hlp hb hr

/-- … and, without errors, that entry is a variable holding the concrete type -/
theorem bind_value_partial {pm : PMap} {sm : SMap} {given : List Ty} {out : Ty}
    (hH : H pm given) (hl : GivenLeaf pm given) (he : (final pm sm given out).errs = [])
    {k : Ty} {pt : PT} (hlp : look k pm = some pt) (hb : pt.t ≠ k) (hr : Reach pm out k) :
    ∃ n, look k (final pm sm given out).index = some (some n) ∧
      look pt.t (final pm sm given out).index = some (some n) ∧
      produced given (final pm sm given out).calls n = some pt.t :=
  WireP.Solve.bind_value_partial hH hl he hlp hb hr

/-- **No implicit interface satisfaction**: lookups are by type identity only, so a needed type
    that is neither given nor a key of the map is an error, whatever else is provided. -/
theorem no_implicit_iface_partial {pm : PMap} {sm : SMap} {given : List Ty} {out : Ty}
    (hH : H pm given) (hl : GivenLeaf pm given) {t : Ty}
    (hlp : look t pm = none) (hng : t ∉ given) (hr : Reach pm out t) :
    (final pm sm given out).errs ≠ [] :=
  WireP.Solve.no_implicit_iface_partial hH hl hlp hng hr

/-! ## non-vacuity -/

open WireP.Solve.Ex

example : H pmEx [0] ∧ GivenLeaf pmEx [0] := ⟨hEx, leafEx⟩
/-- `3` is bound to `2`; it is needed (by `C`), gets no call, and shares variable `2` with `2` -/
example : (look 3 pmEx).map (·.t) = some 2 := by decide
example : Reach pmEx 7 3 :=
  .step (b := 6) ⟨_, rfl, Or.inr ⟨rfl, by decide⟩⟩ <|
    .step (b := 4) ⟨_, rfl, Or.inr ⟨rfl, by decide⟩⟩ <|
      .step (b := 3) ⟨_, rfl, Or.inr ⟨rfl, by decide⟩⟩ (.refl 3)
example : (final pmEx smEx [0] 7).calls.map (·.out) = [1, 2, 4, 5, 6, 7] := by decide
example : look 3 (final pmEx smEx [0] 7).index = some (some 2) ∧
    look 2 (final pmEx smEx [0] 7).index = some (some 2) ∧
    produced [0] (final pmEx smEx [0] 7).calls 2 = some 2 := by decide
/-- without the value `1`, `1` is needed but nothing is substituted for it -/
example : H pmMiss [0] ∧ GivenLeaf pmMiss [0] ∧ look 1 pmMiss = none ∧
    (final pmMiss smMiss [0] 7).errs ≠ [] := ⟨hMiss, leafMiss, by decide, by decide⟩

/-- `GivenLeaf` cannot be dropped from `bind_same_index_partial`: with a given type `3` that is
    the key of a binding `3 ↦ 2`, `H` holds, there is no error, `3` is (trivially) reachable from
    the request `3`, and `3` is indexed while `2` is not. -/
example : H pmA [3] ∧ (final pmA [] [3] 3).errs = [] ∧ Reach pmA 3 3 ∧
    look 3 (final pmA [] [3] 3).index = some (some 0) ∧
    look 2 (final pmA [] [3] 3).index = none :=
  ⟨hA, by decide, .refl 3, by decide, by decide⟩

/-- … nor from `no_implicit_iface_partial` -/
example : H pmB [0] ∧ look 5 pmB = none ∧ 5 ∉ [0] ∧ Reach pmB 0 5 ∧
    (final pmB smB [0] 0).errs = [] :=
  ⟨hB, by decide, by decide, reachB5, by decide⟩

/-! ## front half — what `wire.Bind` and `wire.InterfaceValue` accept (`WireV.processBind`, `processIValue`)

The method-set rule (`WireV.methodSet`) is the model's restatement of `types.Implements` for defined struct types with
value and pointer receivers and one level of embedded fields; the `bind` stream ties it and the two functions to the code. -/
section front
open WireP.Bind

/-- **Acceptance, characterised**: exactly two arguments, the first a pointer to a defined interface, the second a pointer
    to the provided type (with `bindToUsePointer`), the provided type is not the interface itself and implements it. -/
theorem bind_accept_iff (env : BEnv) (usePtr : Bool) (args : List BTy) (i p : BTy) :
    processBind env usePtr args = .ok (i, p) ↔
      ∃ k, i = .iface k ∧ args = [.ptr (.iface k), if usePtr then .ptr p else p] ∧ p ≠ .iface k ∧
        implementsB env p k = true :=
  processBind_ok_iff env usePtr args i p

/-- an accepted binding: `C` is not `I`, and every method of `I` is in the method set of `C` with the same signature -/
theorem bind_accepted_implements {env : BEnv} {usePtr : Bool} {args : List BTy} {i p : BTy}
    (h : processBind env usePtr args = .ok (i, p)) :
    ∃ k, i = .iface k ∧ p ≠ i ∧ ∀ ns ∈ env.imeths k, ns ∈ methodSet env p := by
  obtain ⟨k, rfl, _, hne, himp⟩ := (processBind_ok_iff env usePtr args i p).1 h
  exact ⟨k, rfl, hne, (implementsB_iff env p k).1 himp⟩

/-- **Pointer-receiver methods do not make the value type qualify**: if the binding of `I` to the value type `C` is
    accepted, `C` declares none of `I`'s method names with a pointer receiver. -/
theorem bind_value_needs_value_receivers {env : BEnv} {usePtr : Bool} {args : List BTy} {k c : Nat}
    (hd : OwnDistinct env c) (h : processBind env usePtr args = .ok (.iface k, .named c)) :
    ∀ ns ∈ env.imeths k, ∀ o ∈ env.meths c, o.name = ns.1 → o.ptrRecv = false := by
  obtain ⟨k', hk, _, _, himp⟩ := (processBind_ok_iff env usePtr args _ _).1 h
  injection hk with hk; subst hk
  intro ns hns o ho hname
  have hmem := (implementsB_iff env (.named c) k).1 himp ns hns
  simp only [methodSet, List.mem_map] at hmem
  obtain ⟨m, hm, rfl⟩ := hmem
  exact value_methodSet_no_ptr_recv hd hm o ho hname

/-- … stated as a rejection: `wire.Bind(new(I), new(C))` with a method of `I` declared on `*C` is refused -/
theorem bind_ptr_recv_rejected {env : BEnv} {k c : Nat} {o : BMethod} {s : Nat} (hd : OwnDistinct env c)
    (ho : o ∈ env.meths c) (hp : o.ptrRecv = true) (hi : (o.name, s) ∈ env.imeths k) :
    processBind env true [.ptr (.iface k), .ptr (.named c)] = .error .notImpl := by
  have himp : implementsB env (.named c) k = false := by
    cases hb : implementsB env (.named c) k with
    | false => rfl
    | true =>
      have hmem := (implementsB_iff env (.named c) k).1 hb _ hi
      simp only [methodSet, List.mem_map] at hmem
      obtain ⟨m, hm, hms⟩ := hmem
      have := value_methodSet_no_ptr_recv hd hm o ho (by injection hms with h1 _; exact h1.symm)
      rw [hp] at this; cases this
  simp [processBind, himp]

/-- what the value type offers, its pointer offers too -/
theorem bind_pointer_accepts_more {env : BEnv} {k c : Nat}
    (h : processBind env true [.ptr (.iface k), .ptr (.named c)] = .ok (.iface k, .named c)) :
    processBind env true [.ptr (.iface k), .ptr (.ptr (.named c))] = .ok (.iface k, .ptr (.named c)) := by
  obtain ⟨k', hk, _, _, himp⟩ := (processBind_ok_iff env true _ _ _).1 h
  injection hk with hk; subst hk
  apply (processBind_ok_iff env true _ _ _).2
  refine ⟨k, rfl, ?_, ?_, ?_⟩
  · simp
  · intro h; cases h
  rw [implementsB_iff] at himp ⊢
  intro ns hns
  have := himp ns hns
  simp only [methodSet, List.mem_map] at this ⊢
  obtain ⟨m, hm, rfl⟩ := this
  exact ⟨m, methodSetNamed_mono hm, rfl⟩

/-- **Interface values**: accepted exactly when the expression is not the untyped `nil` and its type implements `I` -/
theorem ivalue_accept_iff (env : BEnv) (args : List BTy) (i p : BTy) :
    processIValue env args = .ok (i, p) ↔
      ∃ k, i = .iface k ∧ args = [.ptr (.iface k), p] ∧ p ≠ .untypedNil ∧ implementsB env p k = true :=
  processIValue_ok_iff env args i p

/-! ### non-vacuity: `T0` has `M0` (value receiver) and `M1` (pointer receiver); `T1` embeds `T0` and shadows `M0` with a
pointer-receiver method; `T2` embeds `T0` and `*T3`, which both declare `M0` -/
def envEx : BEnv where
  meths := fun c => match c with
    | 0 => [⟨0, 0, false⟩, ⟨1, 1, true⟩]
    | 1 => [⟨0, 0, true⟩]
    | 3 => [⟨0, 0, false⟩, ⟨2, 2, false⟩]
    | _ => []
  embeds := fun c => match c with
    | 1 => [(0, false)]
    | 2 => [(0, false), (3, true)]
    | _ => []
  imeths := fun i => match i with
    | 0 => [(0, 0)]
    | 1 => [(0, 0), (1, 1)]
    | 2 => [(2, 2)]
    | _ => []

example : OwnDistinct envEx 0 ∧ OwnDistinct envEx 1 := by
  constructor <;> (unfold OwnDistinct; decide)
example : processBind envEx true [.ptr (.iface 0), .ptr (.named 0)] = .ok (.iface 0, .named 0) := by rfl
example : processBind envEx true [.ptr (.iface 1), .ptr (.named 0)] = .error .notImpl := by rfl
example : processBind envEx true [.ptr (.iface 1), .ptr (.ptr (.named 0))] = .ok (.iface 1, .ptr (.named 0)) := by rfl
/-- the own pointer-receiver `M0` of `T1` shadows the promoted value-receiver `M0` of `T0` -/
example : processBind envEx true [.ptr (.iface 0), .ptr (.named 1)] = .error .notImpl := by rfl
example : processBind envEx true [.ptr (.iface 0), .ptr (.ptr (.named 1))] = .ok (.iface 0, .ptr (.named 1)) := by rfl
/-- `M0` is ambiguous in `T2`, `M2` is promoted through the embedded pointer -/
example : processBind envEx true [.ptr (.iface 0), .ptr (.ptr (.named 2))] = .error .notImpl := by rfl
example : processBind envEx true [.ptr (.iface 2), .ptr (.named 2)] = .ok (.iface 2, .named 2) := by rfl
example : processBind envEx true [.ptr (.iface 0), .ptr (.iface 0)] = .error .self := by rfl
example : processBind envEx true [.ptr (.iface 0), .ptr (.iface 1)] = .ok (.iface 0, .iface 1) := by rfl
example : processBind envEx true [.ptr (.iface 0), .named 0] = .error .notPtr := by rfl
example : processIValue envEx [.ptr (.iface 0), .named 0] = .ok (.iface 0, .named 0) := by rfl
example : processIValue envEx [.ptr (.iface 1), .named 0] = .error .notImpl := by rfl
example : processIValue envEx [.ptr (.iface 0), .untypedNil] = .error .untypedNil := by rfl

end front

end WireP.C11
