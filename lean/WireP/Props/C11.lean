import WireV.Sets
namespace WireP.C11
end WireP.C11
