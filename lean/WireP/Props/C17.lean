import WireV.Cmd
import WireV.Generated.Tables
import WireP.Lemmas.CmdProofsDiff
/-! # C17 — `wire gen` / `wire diff`: exit statuses and what is written

Model: `WireV.genExec`, `WireV.diffExec` (cmd/wire/main.go) over an abstract file system
(`fsGet`/`fsPut`; paths and contents are naturals, content `0` = "no Wire output for this package").
`writeOk`, `headerOk` and the analysis result `load` are parameters.  The table theorems at the end
are closed by `decide` over the regenerated `WireV.Generated` and tie the model's constants to the
`return` statements of the source. -/
namespace WireP.C17
open WireV

/-! ## `gen` -/

/-- `gen` exits 0 iff no package has errors and every non-empty output could be written
    (also true for `outs = []`: status 0) -/
theorem gen_exit (outs : List PkgOut) (writeOk : Nat → Bool) (fs : FS) :
    (genExec true (.ok outs) writeOk fs).2 = 0 ↔
      ∀ o ∈ outs, o.errs = false ∧ (o.content ≠ 0 → writeOk o.outPath = true) :=
  WireP.CmdProofs.gen_exit outs writeOk fs

theorem gen_exit_nil (writeOk : Nat → Bool) (fs : FS) : genExec true (.ok []) writeOk fs = (fs, 0) :=
  WireP.CmdProofs.genExec_nil writeOk fs

theorem gen_exit_loadErr (h : Bool) (writeOk : Nat → Bool) (fs : FS) : genExec h .loadErr writeOk fs = (fs, 1) :=
  WireP.CmdProofs.genExec_loadErr h writeOk fs

theorem gen_exit_header (load : LoadRes) (writeOk : Nat → Bool) (fs : FS) : genExec false load writeOk fs = (fs, 1) :=
  WireP.CmdProofs.genExec_header load writeOk fs

/-- `gen` only ever exits 0 or 1 -/
theorem gen_exit_range (h : Bool) (load : LoadRes) (writeOk : Nat → Bool) (fs : FS) :
    (genExec h load writeOk fs).2 = 0 ∨ (genExec h load writeOk fs).2 = 1 :=
  WireP.CmdProofs.genExec_status_le h load writeOk fs

/-- only `<prefix>wire_gen.go` of packages with output is ever created or modified -/
theorem gen_writes_only (h : Bool) (load : LoadRes) (writeOk : Nat → Bool) (fs : FS) (p : Nat) :
    fsGet (genExec h load writeOk fs).1 p ≠ fsGet fs p →
      h = true ∧ ∃ outs, load = .ok outs ∧ ∃ o ∈ outs, o.outPath = p ∧ o.content ≠ 0 ∧ writeOk p = true :=
  WireP.CmdProofs.gen_writes_only h load writeOk fs p

/-- a package whose analysis fails (no content) keeps its existing file -/
theorem gen_failed_untouched (h : Bool) (outs : List PkgOut) (writeOk : Nat → Bool) (fs : FS) (o : PkgOut) :
    o ∈ outs → o.content = 0 → (∀ o' ∈ outs, o'.outPath = o.outPath → o'.content = 0) →
      fsGet (genExec h (.ok outs) writeOk fs).1 o.outPath = fsGet fs o.outPath := fun _ _ hall =>
  WireP.CmdProofs.gen_failed_untouched h outs writeOk fs o.outPath (fun o' ho' hp => Or.inl (hall o' ho' hp))

/-- a failing package does not prevent output for the others -/
theorem gen_isolation (outs : List PkgOut) (writeOk : Nat → Bool) (fs : FS) (o : PkgOut) :
    (outs.map (·.outPath)).Nodup → o ∈ outs → o.content ≠ 0 → writeOk o.outPath = true →
      fsGet (genExec true (.ok outs) writeOk fs).1 o.outPath = some o.content :=
  WireP.CmdProofs.gen_isolation outs writeOk fs o

/-- the final file system, pointwise, when output paths are distinct -/
theorem gen_final_fs (outs : List PkgOut) (writeOk : Nat → Bool) (fs : FS) :
    (outs.map (·.outPath)).Nodup →
    (∀ o ∈ outs, o.content ≠ 0 → writeOk o.outPath = true →
        fsGet (genExec true (.ok outs) writeOk fs).1 o.outPath = some o.content) ∧
    (∀ o ∈ outs, o.content = 0 ∨ writeOk o.outPath = false →
        fsGet (genExec true (.ok outs) writeOk fs).1 o.outPath = fsGet fs o.outPath) ∧
    (∀ p, p ∉ outs.map (·.outPath) → fsGet (genExec true (.ok outs) writeOk fs).1 p = fsGet fs p) :=
  WireP.CmdProofs.gen_final_fs outs writeOk fs

/-! ## `diff` (read-only by construction: `diffExec` returns no file system) -/

theorem diff_exit_two (hs : Nat) (outs : List PkgOut) (fs : FS) :
    diffExec hs true (.ok outs) fs = 2 ↔ ∃ o ∈ outs, o.errs = true :=
  WireP.CmdProofs.diff_exit_two hs outs fs

theorem diff_exit_zero (hs : Nat) (outs : List PkgOut) (fs : FS) :
    diffExec hs true (.ok outs) fs = 0 ↔
      (∀ o ∈ outs, o.errs = false) ∧ ∀ o ∈ outs, o.content ≠ 0 → fsGet fs o.outPath = some o.content :=
  WireP.CmdProofs.diff_exit_zero hs outs fs

/-- status 1 means exactly: no errors, and some generated file differs (absent file = differs) -/
theorem diff_exit_one (hs : Nat) (outs : List PkgOut) (fs : FS) :
    diffExec hs true (.ok outs) fs = 1 ↔
      (∀ o ∈ outs, o.errs = false) ∧ ∃ o ∈ outs, o.content ≠ 0 ∧ fsGet fs o.outPath ≠ some o.content :=
  WireP.CmdProofs.diff_exit_one hs outs fs

theorem diff_exit_spec (hs : Nat) (outs : List PkgOut) (fs : FS) :
    (diffExec hs true (.ok outs) fs = 2 ↔ ∃ o ∈ outs, o.errs = true) ∧
    (diffExec hs true (.ok outs) fs = 0 ↔
      (∀ o ∈ outs, o.errs = false) ∧ ∀ o ∈ outs, o.content ≠ 0 → fsGet fs o.outPath = some o.content) ∧
    (diffExec hs true (.ok outs) fs = 1 ↔
      (∀ o ∈ outs, o.errs = false) ∧ ∃ o ∈ outs, o.content ≠ 0 ∧ fsGet fs o.outPath ≠ some o.content) :=
  ⟨diff_exit_two hs outs fs, diff_exit_zero hs outs fs, diff_exit_one hs outs fs⟩

theorem diff_exit_loadErr (hs : Nat) (fs : FS) : diffExec hs true .loadErr fs = 2 :=
  WireP.CmdProofs.diffExec_loadErr hs fs

theorem diff_exit_header (hs : Nat) (load : LoadRes) (fs : FS) : diffExec hs false load fs = hs :=
  WireP.CmdProofs.diffExec_header hs load fs

theorem diff_exit_range (hs : Nat) (load : LoadRes) (fs : FS) :
    diffExec hs true load fs = 0 ∨ diffExec hs true load fs = 1 ∨ diffExec hs true load fs = 2 :=
  WireP.CmdProofs.diffExec_status hs load fs

/-! ## the source: the model's constants are what the commands return -/

theorem diff_header_status : Generated.diffHeaderStatus = 2 := by decide
theorem gen_header_status : Generated.genHeaderStatus = 1 := by decide

/-- the statuses a command's `Execute` returns, read off the source: `(condition of the enclosing if, status)`.
    Stated over what the statuses *mean*, not over the literal list, so that a harmless reordering or an added
    error return does not break the tie: every status is in range, the fall-through return is success, and
    the only conditional return of 0 is the "no packages" one. -/
def returnsSound (hi : Nat) (rs : List (String × Nat)) : Bool :=
  rs.all (fun r => r.2 ≤ hi) && rs.getLast? == some ("", 0) &&
    (rs.filter (fun r => r.2 == 0)).all (fun r => r.1 == "" || r.1 == "len(outs) == 0")

theorem diff_returns_table : returnsSound 2 Generated.diffReturns = true := by decide

/-- `gen`, `check` and `show` exit 0 or 1, and 1 on every trouble -/
theorem gen_returns_table : returnsSound 1 Generated.genReturns = true := by decide

theorem check_returns_table : returnsSound 1 Generated.checkReturns = true := by decide

theorem show_returns_table : returnsSound 1 Generated.showReturns = true := by decide

/-- the sound-table predicate is not trivially true: a table whose load-error return says success is refused,
    and so is one whose statuses leave the range -/
example : returnsSound 1 [("err != nil", 0), ("", 0)] = false := by decide
example : returnsSound 1 [("err != nil", 2), ("", 0)] = false := by decide
example : returnsSound 1 [("err != nil", 1)] = false := by decide
example : Generated.genReturns ≠ [] ∧ Generated.diffReturns ≠ [] ∧ Generated.checkReturns ≠ [] ∧
    Generated.showReturns ≠ [] := by decide

/-- `diff` returns 1 for nothing but a difference, and every trouble is 2 -/
theorem diff_one_only_hadDiff :
    (Generated.diffReturns.filter (fun r => r.2 == 1)).map (·.1) = ["hadDiff"] ∧
    (Generated.diffReturns.filter (fun r => r.1 != "hadDiff" && r.1 != "" && r.1 != "len(outs) == 0")).all (fun r => r.2 == 2) = true := by
  decide

/-- with the header status of the source, `diff` with an unreadable header exits 2 -/
theorem diff_header_exit (load : LoadRes) (fs : FS) : diffExec Generated.diffHeaderStatus false load fs = 2 := by
  rw [diff_exit_header]; exact diff_header_status

/-! ## non-vacuity: three packages — one fails analysis, one generates, one cannot be written -/

private def outs3 : List PkgOut := [⟨10, true, 0⟩, ⟨20, false, 7⟩, ⟨30, false, 8⟩]
private def w3 : Nat → Bool := fun p => p != 30
private def fs3 : FS := [(10, 1), (30, 3), (99, 9)]

example : (outs3.map (·.outPath)).Nodup := by decide
example : genExec true (.ok outs3) w3 fs3 = ([(20, 7), (10, 1), (30, 3), (99, 9)], 1) := by decide
/-- the failing package keeps its file, the good one is written, the unwritable one keeps its file -/
example : fsGet (genExec true (.ok outs3) w3 fs3).1 10 = some 1
    ∧ fsGet (genExec true (.ok outs3) w3 fs3).1 20 = some 7
    ∧ fsGet (genExec true (.ok outs3) w3 fs3).1 30 = some 3 := by decide
/-- an instance of the right-hand side of `gen_exit` being true on a non-trivial list -/
example : (genExec true (.ok [⟨10, false, 0⟩, ⟨20, false, 7⟩]) (fun _ => true) fs3).2 = 0 := by decide
example : diffExec 2 true (.ok outs3) fs3 = 2 := by decide
example : diffExec 2 true (.ok [⟨20, false, 7⟩, ⟨30, false, 8⟩]) fs3 = 1 := by decide
example : diffExec 2 true (.ok [⟨20, false, 7⟩, ⟨30, false, 8⟩]) [(30, 8), (20, 7)] = 0 := by decide
/-- without distinct paths the last write wins: `gen_isolation` needs `Nodup` -/
example : fsGet (genExec true (.ok [⟨20, false, 7⟩, ⟨20, false, 8⟩]) (fun _ => true) []).1 20 = some 8 := by decide

end WireP.C17
