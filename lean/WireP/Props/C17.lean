import WireV.Cmd
namespace WireP.C17
end WireP.C17
