import WireV.Front
import WireP.Lemmas.FrontProofs
/-! # C12 — field selection of `wire.Struct` / `wire.FieldsOf`

Model: `WireV.checkField`, `WireV.allFields`, `WireV.structArgs`, `WireV.structProviderArgs`,
`WireV.fieldsOfArgs` (parse.go: checkField, allFields, processStructProvider, processFieldsOf).
A field argument is either a string literal denoting `s` (`.str s`) or anything else (`.other`);
the struct's fields are given in declaration order with their `wire:"-"` tag (`prevented`).
A blank field (name exactly `"_"`) is never selected: neither by `"*"` nor by naming it. -/
namespace WireP.C12
open WireV

/-! ## `checkField` -/

/-- field names are matched exactly as written; a blank field is never matched -/
theorem checkField_exact {fs : List FieldDecl} {s : String} {f : FieldDecl} :
    checkField fs (.str s) = .ok f → f ∈ fs ∧ f.name = s ∧ f.prevented = false ∧ f.name ≠ "_" :=
  WireP.FrontProofs.checkField_exact

theorem checkField_unknown {fs : List FieldDecl} {s : String} :
    (s = "_" ∨ ∀ f ∈ fs, f.name ≠ s) → checkField fs (.str s) = .error (.notField s) :=
  WireP.FrontProofs.checkField_unknown

theorem checkField_unknown_iff {fs : List FieldDecl} {s : String} :
    checkField fs (.str s) = .error (.notField s) ↔ (s = "_" ∨ ∀ f ∈ fs, f.name ≠ s) :=
  WireP.FrontProofs.checkField_unknown_iff

/-- the blank name `"_"` is "not a field", whatever the struct declares -/
theorem checkField_blank (fs : List FieldDecl) : checkField fs (.str "_") = .error (.notField "_") :=
  WireP.FrontProofs.checkField_blank fs

theorem checkField_prevented {fs : List FieldDecl} {s : String} {f : FieldDecl} :
    (fs.map (·.name)).Nodup → f ∈ fs → f.name = s → s ≠ "_" → f.prevented = true →
      checkField fs (.str s) = .error (.prevented s) :=
  WireP.FrontProofs.checkField_prevented

theorem checkField_found {fs : List FieldDecl} {f : FieldDecl} :
    (fs.map (·.name)).Nodup → f ∈ fs → f.name ≠ "_" → f.prevented = false →
      checkField fs (.str f.name) = .ok f :=
  WireP.FrontProofs.checkField_found

/-- anything that is not a string literal is rejected -/
theorem checkField_nonliteral (fs : List FieldDecl) : checkField fs .other = .error .notString :=
  WireP.FrontProofs.checkField_nonliteral fs

/-- matching is case sensitive: `"Foo"` selects the second field, `"FOO"` is not a field -/
theorem checkField_case_sensitive :
    checkField [⟨"foo", 0, false⟩, ⟨"Foo", 1, false⟩] (.str "Foo") = .ok ⟨"Foo", 1, false⟩ ∧
    checkField [⟨"foo", 0, false⟩, ⟨"Foo", 1, false⟩] (.str "FOO") = .error (.notField "FOO") := by
  decide

/-! ## `wire.Struct` -/

/-- `"*"`: all fields that are neither tagged `wire:"-"` nor blank, in declaration order -/
theorem structArgs_star (fs : List FieldDecl) :
    structArgs fs [.str "*"] = .ok (fs.filter (fun f => !f.prevented && f.name != "_")) :=
  WireP.FrontProofs.structArgs_star fs

/-- `"*"` selects only declared fields that are not prevented and not blank -/
theorem structArgs_star_sound {fs sel : List FieldDecl} :
    structArgs fs [.str "*"] = .ok sel → ∀ f ∈ sel, f ∈ fs ∧ f.prevented = false ∧ f.name ≠ "_" :=
  WireP.FrontProofs.structArgs_star_sound

/-- `"*"` selects every declared field that is not prevented and not blank -/
theorem structArgs_star_complete {fs sel : List FieldDecl} :
    structArgs fs [.str "*"] = .ok sel → ∀ f ∈ fs, f.prevented = false → f.name ≠ "_" → f ∈ sel :=
  WireP.FrontProofs.structArgs_star_complete

/-- `"*"` keeps the declaration order -/
theorem structArgs_star_order {fs sel : List FieldDecl} :
    structArgs fs [.str "*"] = .ok sel → sel.Sublist fs :=
  WireP.FrontProofs.structArgs_star_order

/-- otherwise: exactly the named fields, in written order -/
theorem structArgs_named {fs : List FieldDecl} {args : List FieldArg} {sel : List FieldDecl} :
    allFields args = false → structArgs fs args = .ok sel →
      sel.length = args.length ∧ ∀ (i : Nat) a f, args[i]? = some a → sel[i]? = some f →
        a = FieldArg.str f.name ∧ f ∈ fs ∧ f.prevented = false ∧ f.name ≠ "_" :=
  WireP.FrontProofs.structArgs_named

theorem structArgs_rejects {fs : List FieldDecl} {args : List FieldArg} {a : FieldArg} :
    allFields args = false → a ∈ args →
      (a = .other ∨ ∃ s, a = .str s ∧ (s = "_" ∨ (∀ f ∈ fs, f.name ≠ s) ∨
        ∃ f ∈ fs, f.name = s ∧ f.prevented ∧ (fs.map (·.name)).Nodup)) →
      ∃ e, structArgs fs args = .error e :=
  WireP.FrontProofs.structArgs_rejects

/-- `structProviderArgs` = `structArgs` + the duplicate-type test -/
theorem structProviderArgs_ok_iff {fs : List FieldDecl} {args : List FieldArg} {sel : List FieldDecl} :
    structProviderArgs fs args = .ok sel ↔ structArgs fs args = .ok sel ∧ (sel.map (·.ty)).Nodup :=
  WireP.FrontProofs.structProviderArgs_ok_iff

theorem structProviderArgs_types_nodup {fs : List FieldDecl} {args : List FieldArg} {sel : List FieldDecl} :
    structProviderArgs fs args = .ok sel → (sel.map (·.ty)).Nodup :=
  WireP.FrontProofs.structProviderArgs_types_nodup

/-- two selected fields of identical type are rejected, naming a type that occurs twice -/
theorem structProviderArgs_dup_rejected {fs : List FieldDecl} {args : List FieldArg} {sel : List FieldDecl} :
    structArgs fs args = .ok sel → ¬ (sel.map (·.ty)).Nodup →
      ∃ t, structProviderArgs fs args = .error (.dup t) ∧ 2 ≤ (sel.map (·.ty)).count t :=
  WireP.FrontProofs.structProviderArgs_dup_rejected

theorem structProviderArgs_error_passes {fs : List FieldDecl} {args : List FieldArg} {e : FieldErr} :
    structArgs fs args = .error e → structProviderArgs fs args = .error e :=
  WireP.FrontProofs.structProviderArgs_error_passes

/-! ## `wire.FieldsOf` -/

theorem fieldsOfArgs_spec {fs : List FieldDecl} {args : List FieldArg} {sel : List FieldDecl} :
    args.length ≤ fs.length → fieldsOfArgs fs args = .ok sel →
      sel.length = args.length ∧ ∀ (i : Nat) a f, args[i]? = some a → sel[i]? = some f →
        a = FieldArg.str f.name ∧ f ∈ fs ∧ f.prevented = false ∧ f.name ≠ "_" :=
  WireP.FrontProofs.fieldsOfArgs_spec

theorem fieldsOfArgs_tooMany {fs : List FieldDecl} {args : List FieldArg} :
    fs.length < args.length → fieldsOfArgs fs args = .error .tooMany :=
  WireP.FrontProofs.fieldsOfArgs_tooMany

theorem fieldsOfArgs_rejects {fs : List FieldDecl} {args : List FieldArg} {a : FieldArg} :
    a ∈ args →
      (a = .other ∨ ∃ s, a = .str s ∧ (s = "_" ∨ (∀ f ∈ fs, f.name ≠ s) ∨
        ∃ f ∈ fs, f.name = s ∧ f.prevented ∧ (fs.map (·.name)).Nodup)) →
      ∃ e, fieldsOfArgs fs args = .error e :=
  WireP.FrontProofs.fieldsOfArgs_rejects

/-- `"*"` has no special meaning for `wire.FieldsOf` -/
theorem fieldsOfArgs_star_literal {fs : List FieldDecl} :
    (∀ f ∈ fs, f.name ≠ "*") → 1 ≤ fs.length → fieldsOfArgs fs [.str "*"] = .error (.notField "*") :=
  WireP.FrontProofs.fieldsOfArgs_star_literal

/-! ## non-vacuity -/

def exFs : List FieldDecl := [⟨"A", 1, false⟩, ⟨"b", 2, true⟩, ⟨"C", 3, false⟩, ⟨"D", 1, false⟩]

example : (exFs.map (·.name)).Nodup := by decide
example : checkField exFs (.str "C") = .ok ⟨"C", 3, false⟩ := by decide
example : checkField exFs (.str "b") = .error (.prevented "b") := by decide
example : checkField exFs (.str "B") = .error (.notField "B") := by decide
example : structArgs exFs [.str "*"] = .ok [⟨"A", 1, false⟩, ⟨"C", 3, false⟩, ⟨"D", 1, false⟩] := by decide
example : allFields [.str "C", .str "A"] = false := by decide
example : structArgs exFs [.str "C", .str "A"] = .ok [⟨"C", 3, false⟩, ⟨"A", 1, false⟩] := by decide
example : structProviderArgs exFs [.str "C", .str "A"] = .ok [⟨"C", 3, false⟩, ⟨"A", 1, false⟩] := by decide
example : structArgs exFs [.str "A", .str "D"] = .ok [⟨"A", 1, false⟩, ⟨"D", 1, false⟩] := by decide
example : structProviderArgs exFs [.str "A", .str "D"] = .error (.dup 1) := by decide
example : structProviderArgs exFs [.str "*"] = .error (.dup 1) := by decide
example : structArgs exFs [.str "A", .other] = .error .notString := by decide
example : structArgs exFs [.str "A", .str "b"] = .error (.prevented "b") := by decide
example : structArgs exFs [.str "*", .str "A"] = .error (.notField "*") := by decide
example : fieldsOfArgs exFs [.str "D", .str "A"] = .ok [⟨"D", 1, false⟩, ⟨"A", 1, false⟩] := by decide
example : fieldsOfArgs exFs [.str "A", .str "A", .str "A", .str "A", .str "A"] = .error .tooMany := by decide
example : fieldsOfArgs exFs [.str "*"] = .error (.notField "*") := by decide

/-- a struct with a blank field, a field whose name merely starts with `_`, and a prevented field -/
def exBlank : List FieldDecl := [⟨"A", 1, false⟩, ⟨"_", 2, false⟩, ⟨"_x", 3, false⟩, ⟨"b", 4, true⟩]

example : (exBlank.map (·.name)).Nodup := by decide
example : structArgs exBlank [.str "*"] = .ok [⟨"A", 1, false⟩, ⟨"_x", 3, false⟩] := by decide
example : structProviderArgs exBlank [.str "*"] = .ok [⟨"A", 1, false⟩, ⟨"_x", 3, false⟩] := by decide
example : checkField exBlank (.str "_") = .error (.notField "_") := by decide
example : checkField exBlank (.str "_x") = .ok ⟨"_x", 3, false⟩ := by decide
example : checkField exBlank (.str "b") = .error (.prevented "b") := by decide
example : structArgs exBlank [.str "A", .str "_"] = .error (.notField "_") := by decide
example : structArgs exBlank [.str "_x", .str "A"] = .ok [⟨"_x", 3, false⟩, ⟨"A", 1, false⟩] := by decide
example : fieldsOfArgs exBlank [.str "_"] = .error (.notField "_") := by decide
example : fieldsOfArgs exBlank [.str "_x"] = .ok [⟨"_x", 3, false⟩] := by decide
/-- two blank fields of one type do not trip the duplicate-type test under `"*"` -/
example : structProviderArgs [⟨"_", 1, false⟩, ⟨"A", 1, false⟩, ⟨"_", 1, false⟩] [.str "*"] =
    .ok [⟨"A", 1, false⟩] := by decide

end WireP.C12
