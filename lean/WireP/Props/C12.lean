import WireV.Front
import WireP.Lemmas.FrontProofs
/-! # C12 — field selection of `wire.Struct` / `wire.FieldsOf`

Model: `WireV.checkField`, `WireV.allFields`, `WireV.structArgs`, `WireV.structProviderArgs`,
`WireV.fieldsOfArgs` (parse.go: checkField, allFields, processStructProvider, processFieldsOf).
A field argument is either a string literal denoting `s` (`.str s`) or anything else (`.other`);
the struct's fields are given in declaration order with their `wire:"-"` tag (`prevented`) and
whether they are `hidden` (unexported and declared by another package than the struct type, as in
`type S other.T`: nothing outside `other` can set such a field).
A blank field (name exactly `"_"`) is never selected: neither by `"*"` nor by naming it.
`wire.Struct` (`structField`, `structArgs`) refuses a hidden field, named or reached by `"*"`;
`wire.FieldsOf` (`fieldsOfArgs`) reads fields and is not concerned. -/
namespace WireP.C12
open WireV

/-! ## `checkField` -/

/-- field names are matched exactly as written; a blank field is never matched -/
theorem checkField_exact {fs : List FieldDecl} {s : String} {f : FieldDecl} :
    checkField fs (.str s) = .ok f → f ∈ fs ∧ f.name = s ∧ f.prevented = false ∧ f.name ≠ "_" :=
  WireP.FrontProofs.checkField_exact

theorem checkField_unknown {fs : List FieldDecl} {s : String} :
    (s = "_" ∨ ∀ f ∈ fs, f.name ≠ s) → checkField fs (.str s) = .error (.notField s) :=
  WireP.FrontProofs.checkField_unknown

theorem checkField_unknown_iff {fs : List FieldDecl} {s : String} :
    checkField fs (.str s) = .error (.notField s) ↔ (s = "_" ∨ ∀ f ∈ fs, f.name ≠ s) :=
  WireP.FrontProofs.checkField_unknown_iff

/-- the blank name `"_"` is "not a field", whatever the struct declares -/
theorem checkField_blank (fs : List FieldDecl) : checkField fs (.str "_") = .error (.notField "_") :=
  WireP.FrontProofs.checkField_blank fs

theorem checkField_prevented {fs : List FieldDecl} {s : String} {f : FieldDecl} :
    (fs.map (·.name)).Nodup → f ∈ fs → f.name = s → s ≠ "_" → f.prevented = true →
      checkField fs (.str s) = .error (.prevented s) :=
  WireP.FrontProofs.checkField_prevented

theorem checkField_found {fs : List FieldDecl} {f : FieldDecl} :
    (fs.map (·.name)).Nodup → f ∈ fs → f.name ≠ "_" → f.prevented = false →
      checkField fs (.str f.name) = .ok f :=
  WireP.FrontProofs.checkField_found

/-- anything that is not a string literal is rejected -/
theorem checkField_nonliteral (fs : List FieldDecl) : checkField fs .other = .error .notString :=
  WireP.FrontProofs.checkField_nonliteral fs

/-- matching is case sensitive: `"Foo"` selects the second field, `"FOO"` is not a field -/
theorem checkField_case_sensitive :
    checkField [⟨"foo", 0, false, false⟩, ⟨"Foo", 1, false, false⟩] (.str "Foo") = .ok ⟨"Foo", 1, false, false⟩ ∧
    checkField [⟨"foo", 0, false, false⟩, ⟨"Foo", 1, false, false⟩] (.str "FOO") = .error (.notField "FOO") := by
  decide

/-! ## `wire.Struct` -/

/-- a named field of `wire.Struct` is accepted iff `checkField` accepts it and it is not hidden -/
theorem structField_ok_iff {fs : List FieldDecl} {a : FieldArg} {f : FieldDecl} :
    structField fs a = .ok f ↔ checkField fs a = .ok f ∧ f.hidden = false :=
  WireP.FrontProofs.structField_ok_iff

/-- the errors of `checkField` come first (in particular `prevented` is reported before `hidden`) -/
theorem structField_error_passes {fs : List FieldDecl} {a : FieldArg} {e : FieldErr} :
    checkField fs a = .error e → structField fs a = .error e :=
  WireP.FrontProofs.structField_error_passes

theorem structField_hidden {fs : List FieldDecl} {s : String} {f : FieldDecl} :
    (fs.map (·.name)).Nodup → f ∈ fs → f.name = s → s ≠ "_" → f.prevented = false → f.hidden = true →
      structField fs (.str s) = .error (.hidden s) :=
  WireP.FrontProofs.structField_hidden

theorem structField_found {fs : List FieldDecl} {f : FieldDecl} :
    (fs.map (·.name)).Nodup → f ∈ fs → f.name ≠ "_" → f.prevented = false → f.hidden = false →
      structField fs (.str f.name) = .ok f :=
  WireP.FrontProofs.structField_found

/-- `"*"` succeeds exactly when none of the fields it stands for is hidden, and then selects all fields
that are neither tagged `wire:"-"` nor blank, in declaration order -/
theorem structArgs_star {fs sel : List FieldDecl} :
    structArgs fs [.str "*"] = .ok sel ↔
      sel = fs.filter (fun f => !f.prevented && f.name != "_") ∧ ∀ f ∈ sel, f.hidden = false :=
  WireP.FrontProofs.structArgs_star

/-- `"*"` fails as soon as one field it stands for cannot be set -/
theorem structArgs_star_hidden {fs : List FieldDecl} :
    (∃ f ∈ fs, f.prevented = false ∧ f.name ≠ "_" ∧ f.hidden = true) →
      ∃ n, structArgs fs [.str "*"] = .error (.hidden n) :=
  WireP.FrontProofs.structArgs_star_hidden

/-- every failure of `"*"`: the error names the FIRST field, in declaration order, that is not prevented,
not blank and hidden -/
theorem structArgs_star_error {fs : List FieldDecl} {e : FieldErr} :
    structArgs fs [.str "*"] = .error e ↔
      ∃ pre f post, fs = pre ++ f :: post ∧
        (f.prevented = false ∧ f.name ≠ "_" ∧ f.hidden = true) ∧
        (∀ g ∈ pre, g.prevented = false → g.name ≠ "_" → g.hidden = false) ∧
        e = .hidden f.name :=
  WireP.FrontProofs.structArgs_star_error

/-- `"*"` selects only declared fields that are not prevented, not blank and not hidden -/
theorem structArgs_star_sound {fs sel : List FieldDecl} :
    structArgs fs [.str "*"] = .ok sel →
      ∀ f ∈ sel, f ∈ fs ∧ f.prevented = false ∧ f.name ≠ "_" ∧ f.hidden = false :=
  WireP.FrontProofs.structArgs_star_sound

/-- when `"*"` is accepted, it selects every declared field that is not prevented and not blank -/
theorem structArgs_star_complete {fs sel : List FieldDecl} :
    structArgs fs [.str "*"] = .ok sel → ∀ f ∈ fs, f.prevented = false → f.name ≠ "_" → f ∈ sel :=
  WireP.FrontProofs.structArgs_star_complete

/-- `"*"` keeps the declaration order -/
theorem structArgs_star_order {fs sel : List FieldDecl} :
    structArgs fs [.str "*"] = .ok sel → sel.Sublist fs :=
  WireP.FrontProofs.structArgs_star_order

/-- otherwise: exactly the named fields, in written order; none of them hidden -/
theorem structArgs_named {fs : List FieldDecl} {args : List FieldArg} {sel : List FieldDecl} :
    allFields args = false → structArgs fs args = .ok sel →
      sel.length = args.length ∧ ∀ (i : Nat) a f, args[i]? = some a → sel[i]? = some f →
        a = FieldArg.str f.name ∧ f ∈ fs ∧ f.prevented = false ∧ f.name ≠ "_" ∧ f.hidden = false :=
  WireP.FrontProofs.structArgs_named

/-- whatever the arguments: no accepted `wire.Struct` sets a field its package cannot name -/
theorem structArgs_never_hidden {fs : List FieldDecl} {args : List FieldArg} {sel : List FieldDecl} :
    structArgs fs args = .ok sel → ∀ f ∈ sel, f.hidden = false :=
  WireP.FrontProofs.structArgs_never_hidden

/-- naming a hidden field is rejected -/
theorem structArgs_hidden_rejected {fs : List FieldDecl} {args : List FieldArg} {s : String} {f : FieldDecl} :
    allFields args = false → FieldArg.str s ∈ args → s ≠ "_" → (fs.map (·.name)).Nodup →
      f ∈ fs → f.name = s → f.prevented = false → f.hidden = true →
      ∃ e, structArgs fs args = .error e :=
  WireP.FrontProofs.structArgs_hidden_rejected

/-- when the hidden field is the first argument that fails, it is the one reported -/
theorem structArgs_hidden_first {fs : List FieldDecl} {pre post : List FieldArg} {s : String} {f : FieldDecl} :
    allFields (pre ++ .str s :: post) = false → (∀ a ∈ pre, ∃ g, structField fs a = .ok g) → s ≠ "_" →
      (fs.map (·.name)).Nodup → f ∈ fs → f.name = s → f.prevented = false → f.hidden = true →
      structArgs fs (pre ++ .str s :: post) = .error (.hidden s) :=
  WireP.FrontProofs.structArgs_hidden_first

theorem structArgs_rejects {fs : List FieldDecl} {args : List FieldArg} {a : FieldArg} :
    allFields args = false → a ∈ args →
      (a = .other ∨ ∃ s, a = .str s ∧ (s = "_" ∨ (∀ f ∈ fs, f.name ≠ s) ∨
        (∃ f ∈ fs, f.name = s ∧ f.prevented ∧ (fs.map (·.name)).Nodup) ∨
        (∃ f ∈ fs, f.name = s ∧ f.hidden ∧ (fs.map (·.name)).Nodup))) →
      ∃ e, structArgs fs args = .error e :=
  WireP.FrontProofs.structArgs_rejects

/-- `structProviderArgs` = `structArgs` + the duplicate-type test -/
theorem structProviderArgs_ok_iff {fs : List FieldDecl} {args : List FieldArg} {sel : List FieldDecl} :
    structProviderArgs fs args = .ok sel ↔ structArgs fs args = .ok sel ∧ (sel.map (·.ty)).Nodup :=
  WireP.FrontProofs.structProviderArgs_ok_iff

theorem structProviderArgs_never_hidden {fs : List FieldDecl} {args : List FieldArg} {sel : List FieldDecl} :
    structProviderArgs fs args = .ok sel → ∀ f ∈ sel, f.hidden = false :=
  WireP.FrontProofs.structProviderArgs_never_hidden

theorem structProviderArgs_types_nodup {fs : List FieldDecl} {args : List FieldArg} {sel : List FieldDecl} :
    structProviderArgs fs args = .ok sel → (sel.map (·.ty)).Nodup :=
  WireP.FrontProofs.structProviderArgs_types_nodup

/-- two selected fields of identical type are rejected, naming a type that occurs twice -/
theorem structProviderArgs_dup_rejected {fs : List FieldDecl} {args : List FieldArg} {sel : List FieldDecl} :
    structArgs fs args = .ok sel → ¬ (sel.map (·.ty)).Nodup →
      ∃ t, structProviderArgs fs args = .error (.dup t) ∧ 2 ≤ (sel.map (·.ty)).count t :=
  WireP.FrontProofs.structProviderArgs_dup_rejected

theorem structProviderArgs_error_passes {fs : List FieldDecl} {args : List FieldArg} {e : FieldErr} :
    structArgs fs args = .error e → structProviderArgs fs args = .error e :=
  WireP.FrontProofs.structProviderArgs_error_passes

/-! ## `wire.FieldsOf` -/

theorem fieldsOfArgs_spec {fs : List FieldDecl} {args : List FieldArg} {sel : List FieldDecl} :
    args.length ≤ fs.length → fieldsOfArgs fs args = .ok sel →
      sel.length = args.length ∧ ∀ (i : Nat) a f, args[i]? = some a → sel[i]? = some f →
        a = FieldArg.str f.name ∧ f ∈ fs ∧ f.prevented = false ∧ f.name ≠ "_" :=
  WireP.FrontProofs.fieldsOfArgs_spec

theorem fieldsOfArgs_tooMany {fs : List FieldDecl} {args : List FieldArg} :
    fs.length < args.length → fieldsOfArgs fs args = .error .tooMany :=
  WireP.FrontProofs.fieldsOfArgs_tooMany

theorem fieldsOfArgs_rejects {fs : List FieldDecl} {args : List FieldArg} {a : FieldArg} :
    a ∈ args →
      (a = .other ∨ ∃ s, a = .str s ∧ (s = "_" ∨ (∀ f ∈ fs, f.name ≠ s) ∨
        ∃ f ∈ fs, f.name = s ∧ f.prevented ∧ (fs.map (·.name)).Nodup)) →
      ∃ e, fieldsOfArgs fs args = .error e :=
  WireP.FrontProofs.fieldsOfArgs_rejects

/-- `"*"` has no special meaning for `wire.FieldsOf` -/
theorem fieldsOfArgs_star_literal {fs : List FieldDecl} :
    (∀ f ∈ fs, f.name ≠ "*") → 1 ≤ fs.length → fieldsOfArgs fs [.str "*"] = .error (.notField "*") :=
  WireP.FrontProofs.fieldsOfArgs_star_literal

/-! ## non-vacuity -/

def exFs : List FieldDecl :=
  [⟨"A", 1, false, false⟩, ⟨"b", 2, true, false⟩, ⟨"C", 3, false, false⟩, ⟨"D", 1, false, false⟩]

example : (exFs.map (·.name)).Nodup := by decide
example : checkField exFs (.str "C") = .ok ⟨"C", 3, false, false⟩ := by decide
example : checkField exFs (.str "b") = .error (.prevented "b") := by decide
example : checkField exFs (.str "B") = .error (.notField "B") := by decide
example : structArgs exFs [.str "*"] =
    .ok [⟨"A", 1, false, false⟩, ⟨"C", 3, false, false⟩, ⟨"D", 1, false, false⟩] := by decide
example : allFields [.str "C", .str "A"] = false := by decide
example : structArgs exFs [.str "C", .str "A"] = .ok [⟨"C", 3, false, false⟩, ⟨"A", 1, false, false⟩] := by decide
example : structProviderArgs exFs [.str "C", .str "A"] =
    .ok [⟨"C", 3, false, false⟩, ⟨"A", 1, false, false⟩] := by decide
example : structArgs exFs [.str "A", .str "D"] = .ok [⟨"A", 1, false, false⟩, ⟨"D", 1, false, false⟩] := by decide
example : structProviderArgs exFs [.str "A", .str "D"] = .error (.dup 1) := by decide
example : structProviderArgs exFs [.str "*"] = .error (.dup 1) := by decide
example : structArgs exFs [.str "A", .other] = .error .notString := by decide
example : structArgs exFs [.str "A", .str "b"] = .error (.prevented "b") := by decide
example : structArgs exFs [.str "*", .str "A"] = .error (.notField "*") := by decide
example : fieldsOfArgs exFs [.str "D", .str "A"] = .ok [⟨"D", 1, false, false⟩, ⟨"A", 1, false, false⟩] := by decide
example : fieldsOfArgs exFs [.str "A", .str "A", .str "A", .str "A", .str "A"] = .error .tooMany := by decide
example : fieldsOfArgs exFs [.str "*"] = .error (.notField "*") := by decide
/-- the `hidden` component defaults to `false` -/
example : ({ name := "A", ty := 1, prevented := false } : FieldDecl) = ⟨"A", 1, false, false⟩ := rfl

/-- a struct with a blank field, a field whose name merely starts with `_`, and a prevented field -/
def exBlank : List FieldDecl :=
  [⟨"A", 1, false, false⟩, ⟨"_", 2, false, false⟩, ⟨"_x", 3, false, false⟩, ⟨"b", 4, true, false⟩]

example : (exBlank.map (·.name)).Nodup := by decide
example : structArgs exBlank [.str "*"] = .ok [⟨"A", 1, false, false⟩, ⟨"_x", 3, false, false⟩] := by decide
example : structProviderArgs exBlank [.str "*"] = .ok [⟨"A", 1, false, false⟩, ⟨"_x", 3, false, false⟩] := by decide
example : checkField exBlank (.str "_") = .error (.notField "_") := by decide
example : checkField exBlank (.str "_x") = .ok ⟨"_x", 3, false, false⟩ := by decide
example : checkField exBlank (.str "b") = .error (.prevented "b") := by decide
example : structArgs exBlank [.str "A", .str "_"] = .error (.notField "_") := by decide
example : structArgs exBlank [.str "_x", .str "A"] = .ok [⟨"_x", 3, false, false⟩, ⟨"A", 1, false, false⟩] := by decide
example : fieldsOfArgs exBlank [.str "_"] = .error (.notField "_") := by decide
example : fieldsOfArgs exBlank [.str "_x"] = .ok [⟨"_x", 3, false, false⟩] := by decide
/-- two blank fields of one type do not trip the duplicate-type test under `"*"` -/
example : structProviderArgs [⟨"_", 1, false, false⟩, ⟨"A", 1, false, false⟩, ⟨"_", 1, false, false⟩] [.str "*"] =
    .ok [⟨"A", 1, false, false⟩] := by decide

/-- `type S other.T`: an exported field, a hidden one, a hidden and prevented one, a hidden blank one -/
def exHidden : List FieldDecl :=
  [⟨"A", 1, false, false⟩, ⟨"b", 2, false, true⟩, ⟨"c", 3, true, true⟩, ⟨"_", 4, false, true⟩]

example : (exHidden.map (·.name)).Nodup := by decide
example : structArgs exHidden [.str "*"] = .error (.hidden "b") := by decide
example : structProviderArgs exHidden [.str "*"] = .error (.hidden "b") := by decide
example : structArgs exHidden [.str "A"] = .ok [⟨"A", 1, false, false⟩] := by decide
example : structProviderArgs exHidden [.str "A"] = .ok [⟨"A", 1, false, false⟩] := by decide
example : structArgs exHidden [.str "A", .str "b"] = .error (.hidden "b") := by decide
example : structArgs exHidden [.str "b"] = .error (.hidden "b") := by decide
/-- `prevented` is tested first (inside `checkField`) -/
example : structArgs exHidden [.str "c"] = .error (.prevented "c") := by decide
example : structArgs exHidden [.str "_"] = .error (.notField "_") := by decide
/-- the first failing argument decides -/
example : structArgs exHidden [.str "b", .str "c"] = .error (.hidden "b") := by decide
example : structArgs exHidden [.str "c", .str "b"] = .error (.prevented "c") := by decide
example : structField exHidden (.str "b") = .error (.hidden "b") := by decide
example : structField exHidden (.str "A") = .ok ⟨"A", 1, false, false⟩ := by decide
/-- the first hidden field in declaration order is the one reported by `"*"` -/
example : structArgs [⟨"A", 1, false, false⟩, ⟨"y", 2, false, true⟩, ⟨"x", 3, false, true⟩] [.str "*"] =
    .error (.hidden "y") := by decide
/-- a hidden field that is prevented or blank does not disturb `"*"` -/
example : structArgs [⟨"A", 1, false, false⟩, ⟨"c", 3, true, true⟩, ⟨"_", 4, false, true⟩] [.str "*"] =
    .ok [⟨"A", 1, false, false⟩] := by decide
example : structProviderArgs [⟨"A", 1, false, false⟩, ⟨"c", 3, true, true⟩, ⟨"_", 4, false, true⟩] [.str "*"] =
    .ok [⟨"A", 1, false, false⟩] := by decide
/-- `wire.FieldsOf` reads the field: `hidden` plays no part -/
example : checkField exHidden (.str "b") = .ok ⟨"b", 2, false, true⟩ := by decide
example : fieldsOfArgs exHidden [.str "b"] = .ok [⟨"b", 2, false, true⟩] := by decide
example : fieldsOfArgs exHidden [.str "b", .str "A"] = .ok [⟨"b", 2, false, true⟩, ⟨"A", 1, false, false⟩] := by decide
example : fieldsOfArgs exHidden [.str "c"] = .error (.prevented "c") := by decide
/-- the hypotheses of `structArgs_star_hidden` and `structArgs_hidden_rejected` are satisfiable -/
example : ∃ f ∈ exHidden, f.prevented = false ∧ f.name ≠ "_" ∧ f.hidden = true :=
  ⟨⟨"b", 2, false, true⟩, by decide, by decide⟩

end WireP.C12
