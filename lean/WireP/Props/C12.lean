import WireV.Front
import WireV.Path
namespace WireP.C12
end WireP.C12
