import WireP.Lemmas.NameableProofs
import WireP.Props.Pipeline
import WireP.Props.C14
import WireP.Props.C09
import WireP.Props.C20
import WireP.Props.C15
import WireP.Props.C03
import WireP.Lemmas.SolveLive
import WireP.Lemmas.SolveExample
import WireP.Lemmas.ImportableProofs
/-! # C01 — successful generation yields a compilable package (aggregate, IR level)

C01 itself is decided by compiling every generated package.  Its Lean part is the IR-level
well-formedness that the other properties establish; the theorems below restate them (each a short
corollary of a theorem proved elsewhere, all hypotheses visible, no new assumption):

* `defined_before_use`, `argument_types` — from `WireP.Pipeline.planLast_ok_spec` (C02 on the whole
  modelled pipeline `WireV.planLast`);
* `every_call_used`, `last_call_returned`, `every_call_used_plan` — no local variable is "declared
  and not used" (proof in `WireP/Lemmas/SolveLive.lean`, a second machine invariant `Live`);
* `binders_distinct` — `WireP.C14.nameInjector_distinct`;
* `signature_declared` — `WireP.C03.needs_sig`;
* `zero_value_total` — `WireP.C20.zero_kinds_total`, `zero_basic_total`;
* `copied_decls_complete` — `WireP.C15.copy_total`, `copy_complete`. -/
namespace WireP.C01
open WireV WireP.Solve WireP.Pipeline

/-- **Every variable is defined before it is used, and defined once.**  In an accepted plan
    (`planLast … = .ok calls`, `given` = the injector's parameters) every argument of call number `p`
    is a variable index `< given.length + p` — an injector parameter or the result of an earlier
    call — each call has one argument per parameter of its provider, and no type is constructed by
    two calls (one local variable per constructed type), nor is a given type constructed. -/
theorem defined_before_use {order : List Ty} {ds : List SetDef} {d : SetDef} {out : Ty}
    {calls : List Call} (hbl : BuildLast ds) (hd : ds.getLast? = some d)
    (horder : OrderCovers order ds) (h : planLast order ds out = .ok calls) :
    (∀ (p : Nat) c, calls[p]? = some c → ∀ a ∈ c.args, a < (d.args.getD []).length + p) ∧
    (calls.map (·.out)).Nodup ∧ (∀ c ∈ calls, c.out ∉ d.args.getD []) := by
  obtain ⟨pm, sm, _, _, _, _, _, hs⟩ := planLast_ok_spec hbl hd horder h
  refine ⟨?_, hs.outs_nodup, hs.outs_not_given⟩
  intro p c hpc a ha
  obtain ⟨pt, _, _, _, _, hlen, hargs⟩ := hs.call_sound p c hpc
  obtain ⟨j, hj, rfl⟩ := List.mem_iff_getElem.mp ha
  have hj' : j < (depsOf pt.src).length := by omega
  exact (hargs j c.args[j] (depsOf pt.src)[j] (List.getElem?_eq_getElem hj)
    (List.getElem?_eq_getElem hj')).1

/-- **Every argument has the type its parameter wants.**  In an accepted plan, with `pm` the
    provider map of the last set: every call is for a key of the map whose entry `pt` is not an
    injector argument; it has one argument per dependency of `pt`; the variable passed for
    dependency `dd` holds exactly `resolveTy pm dd` (the dependency itself, or the concrete type an
    interface binding maps it to); and the variable the injector returns holds `resolveTy pm out`
    (it is the last call's, if there is any call). -/
theorem argument_types {order : List Ty} {ds : List SetDef} {d : SetDef} {out : Ty}
    {calls : List Call} (hbl : BuildLast ds) (hd : ds.getLast? = some d)
    (horder : OrderCovers order ds) (h : planLast order ds out = .ok calls) :
    ∃ pm sm, (procSets order ds).getLast? = some (d.id, SetRes.ok pm sm) ∧
      (∀ (p : Nat) c, calls[p]? = some c →
        ∃ pt, look c.out pm = some pt ∧ pt.t = c.out ∧ (∀ i, pt.src ≠ .arg i) ∧
          c.args.length = (depsOf pt.src).length ∧
          ∀ (j : Nat) a dd, c.args[j]? = some a → (depsOf pt.src)[j]? = some dd →
            produced (d.args.getD []) calls a = some (resolveTy pm dd)) ∧
      (∃ n, look out (final pm sm (d.args.getD []) out).index = some (some n) ∧
        produced (d.args.getD []) calls n = some (resolveTy pm out)) ∧
      (calls ≠ [] → (calls.getLast?).map (·.out) = some (resolveTy pm out)) := by
  obtain ⟨pm, sm, _, hl, _, _, _, hs⟩ := planLast_ok_spec hbl hd horder h
  refine ⟨pm, sm, hl, ?_, hs.result, hs.result_last⟩
  intro p c hpc
  obtain ⟨pt, h1, h2, h3, _, h5, h6⟩ := hs.call_sound p c hpc
  exact ⟨pt, h1, h2, h3, h5, fun j a dd ha hdd => (h6 j a dd ha hdd).2⟩

/-- **Every call's result variable is used** (Go rejects a variable that is "declared and not
    used").  In the state `solve` accepts (`errs = []`), the variable `given.length + p` of call
    number `p` is an argument of a *later* call, or it is the variable the requested type is indexed
    with — the one the injector returns.  Only the standing hypotheses `H` are needed. -/
theorem every_call_used {pm : PMap} {sm : SMap} {given : List Ty} {out : Ty} (hH : H pm given)
    (he : (final pm sm given out).errs = []) :
    ∀ (p : Nat) (c : Call), (final pm sm given out).calls[p]? = some c →
      (∃ (q : Nat) (c' : Call), p < q ∧ (final pm sm given out).calls[q]? = some c' ∧
        (given.length + p) ∈ c'.args) ∨
      look out (final pm sm given out).index = some (some (given.length + p)) :=
  WireP.Solve.every_call_used hH he

/-- **The last call is the returned one**: if there is any call, the requested type is indexed with
    the variable of the last call (no later call could use it). -/
theorem last_call_returned {pm : PMap} {sm : SMap} {given : List Ty} {out : Ty} (hH : H pm given)
    (he : (final pm sm given out).errs = []) (hc : (final pm sm given out).calls ≠ []) :
    look out (final pm sm given out).index =
      some (some (given.length + ((final pm sm given out).calls.length - 1))) :=
  WireP.Solve.last_call_returned hH he hc

/-- **The same for the whole modelled pipeline, no side hypothesis**: in an accepted plan
    (`planLast … = .ok calls`, `pm`/`sm` the maps of the last set, `given` the injector's parameters)
    every call's variable is an argument of a later call or is the returned variable, and the
    returned variable is the last call's. -/
theorem every_call_used_plan {order : List Ty} {ds : List SetDef} {d : SetDef} {out : Ty}
    {calls : List Call} (hbl : BuildLast ds) (hd : ds.getLast? = some d)
    (horder : OrderCovers order ds) (h : planLast order ds out = .ok calls) :
    ∃ pm sm, (procSets order ds).getLast? = some (d.id, SetRes.ok pm sm) ∧
      (∀ (p : Nat) (c : Call), calls[p]? = some c →
        (∃ (q : Nat) (c' : Call), p < q ∧ calls[q]? = some c' ∧
          ((d.args.getD []).length + p) ∈ c'.args) ∨
        look out (final pm sm (d.args.getD []) out).index =
          some (some ((d.args.getD []).length + p))) ∧
      (calls ≠ [] → look out (final pm sm (d.args.getD []) out).index =
        some (some ((d.args.getD []).length + (calls.length - 1)))) := by
  obtain ⟨pm, sm, hl, hs⟩ := WireP.PipelineProofs.planLast_ok_inv hd h
  obtain ⟨hH, -, -⟩ := planLast_hyps hbl hd hl (WireP.PipelineProofs.last_covered horder hl)
  obtain ⟨-, he, -, rfl⟩ := solve_ok hs
  exact ⟨pm, sm, hl, WireP.Solve.every_call_used hH he, WireP.Solve.last_call_returned hH he⟩

/-- **All binders of a generated injector are pairwise distinct**, none is a keyword, none is in
    file scope (imports, value variables, package scope, universe); one name per parameter, per
    planned call and per cleanup (`ig.all` = parameters, locals, cleanups and the error variable). -/
theorem binders_distinct (fuel : Nat) (e : NameEnv) (ps : List ParamInfo) (ss : List StepInfo)
    (ig : InjNames) (h : nameInjector fuel e ps ss = some ig) :
    (ig.all.Nodup ∧ ∀ n ∈ ig.all, e.inFileScope n = false ∧ isKeyword n = false) ∧
    (ig.params.length = ps.length ∧ ig.locals.length = ss.length ∧
      ig.cleanups.length = (ss.filter (fun s => s.isFunc && s.hasCleanup)).length) :=
  WireP.C14.nameInjector_distinct fuel e ps ss ig h

/-- **The injector declares every result its body returns.**  Emission is refused unless the
    injector's signature declares a cleanup (an error) whenever a planned call returns one. -/
theorem signature_declared (sc se : Bool) (calls : List Call) :
    sigErrors sc se calls = [] ↔
      ∀ c ∈ calls, (c.hasCleanup = true → sc = true) ∧ (c.hasErr = true → se = true) :=
  WireP.C03.needs_sig sc se calls

/-- **A zero value can be written for every type** (`zeroValue` never reaches its `panic`): every
    kind of underlying type has a case, every typed basic kind is handled by the basic branch. -/
theorem zero_value_total :
    zeroUnhandled = [] ∧
    (Generated.basicKinds.filter (fun kf =>
      !(kf.2.any (fun f => Generated.zeroBasicFlags.contains f)) &&
        !Generated.zeroBasicKinds.contains kf.1)) = [] :=
  ⟨WireP.C20.zero_kinds_total, WireP.C20.zero_basic_total⟩

/-- **Copied declarations are complete**: `copyAST` has a case for every go/ast node kind, and every
    case copies every child, child-list and value field of its node. -/
theorem copied_decls_complete : copyUnhandled = [] ∧ copyMissing = [] :=
  ⟨WireP.C15.copy_total, WireP.C15.copy_complete⟩

/-- the tables this rests on were read off the sources in this run (not placeholders) -/
example : 50 ≤ WireV.Generated.astNodes.length ∧ WireV.Generated.zeroCases ≠ [] := by decide

/-! ## non-vacuity: the accepted two-set program of `WireP.Props.Pipeline` (six calls) -/

example : (∀ (p : Nat) c, exCalls[p]? = some c → ∀ a ∈ c.args, a < [0].length + p) ∧
    (exCalls.map (·.out)).Nodup ∧ (∀ c ∈ exCalls, c.out ∉ [0]) :=
  defined_before_use (d := exBuild) (by decide) rfl (by decide) exOk

example : exCalls.length = 6 ∧ exCalls.map (·.args) = [[], [1], [0, 2], [3], [3], [4, 5]] := by
  decide

example : ∃ pm sm, (procSets exOrder exDs).getLast? = some (2, SetRes.ok pm sm) ∧
    (∀ (p : Nat) c, exCalls[p]? = some c →
      ∃ pt, look c.out pm = some pt ∧ pt.t = c.out ∧ (∀ i, pt.src ≠ .arg i) ∧
        c.args.length = (depsOf pt.src).length ∧
        ∀ (j : Nat) a dd, c.args[j]? = some a → (depsOf pt.src)[j]? = some dd →
          produced [0] exCalls a = some (resolveTy pm dd)) ∧
    (∃ n, look 7 (final pm sm [0] 7).index = some (some n) ∧
      produced [0] exCalls n = some (resolveTy pm 7)) ∧
    (exCalls ≠ [] → (exCalls.getLast?).map (·.out) = some (resolveTy pm 7)) :=
  argument_types (d := exBuild) (by decide) rfl (by decide) exOk

/-- `every_call_used` on the diamond map `pmEx` of `WireP.Solve.Ex` (six calls; `3` is an interface
    bound to `2`; `2` is shared by `C(3) → 4` and `D(2) → 5`): its hypotheses hold … -/
example : ∀ (p : Nat) (c : Call), (final WireP.Solve.Ex.pmEx WireP.Solve.Ex.smEx [0] 7).calls[p]? = some c →
    (∃ (q : Nat) (c' : Call), p < q ∧ (final WireP.Solve.Ex.pmEx WireP.Solve.Ex.smEx [0] 7).calls[q]? = some c' ∧
      ([0].length + p) ∈ c'.args) ∨
    look 7 (final WireP.Solve.Ex.pmEx WireP.Solve.Ex.smEx [0] 7).index = some (some ([0].length + p)) :=
  every_call_used WireP.Solve.Ex.hEx (by decide)

/-- … and these are the witnesses, call by call (`(p, q)`: variable `1 + p` is an argument of call
    `q > p`): the value `1` feeds `B`; `B`'s result (variable 2) feeds `C` *through the binding*
    `3 := 2` and `D` directly; `C` and `D` feed `E`; `E` feeds the field; the field's variable (6) is
    the one returned -/
example :
    (final WireP.Solve.Ex.pmEx WireP.Solve.Ex.smEx [0] 7).calls.map (fun c => (c.out, c.args)) =
      [(1, []), (2, [0, 1]), (4, [2]), (5, [2]), (6, [3, 4]), (7, [5])] ∧
    (∀ pq ∈ [(0, 1), (1, 2), (1, 3), (2, 4), (3, 4), (4, 5)], pq.1 < pq.2 ∧
      ((final WireP.Solve.Ex.pmEx WireP.Solve.Ex.smEx [0] 7).calls[pq.2]?).any
        (fun c' => decide (([0] : List Ty).length + pq.1 ∈ c'.args)) = true) ∧
    look 7 (final WireP.Solve.Ex.pmEx WireP.Solve.Ex.smEx [0] 7).index = some (some ([0].length + 5)) ∧
    (final WireP.Solve.Ex.pmEx WireP.Solve.Ex.smEx [0] 7).calls.length - 1 = 5 := by decide

/-- the same, spelled as the disjunct of the theorem that holds for each of the six calls -/
example :
    (∃ c', (final WireP.Solve.Ex.pmEx WireP.Solve.Ex.smEx [0] 7).calls[1]? = some c' ∧ 1 + 0 ∈ c'.args) ∧
    (∃ c', (final WireP.Solve.Ex.pmEx WireP.Solve.Ex.smEx [0] 7).calls[2]? = some c' ∧ 1 + 1 ∈ c'.args) ∧
    (∃ c', (final WireP.Solve.Ex.pmEx WireP.Solve.Ex.smEx [0] 7).calls[4]? = some c' ∧ 1 + 2 ∈ c'.args) ∧
    (∃ c', (final WireP.Solve.Ex.pmEx WireP.Solve.Ex.smEx [0] 7).calls[4]? = some c' ∧ 1 + 3 ∈ c'.args) ∧
    (∃ c', (final WireP.Solve.Ex.pmEx WireP.Solve.Ex.smEx [0] 7).calls[5]? = some c' ∧ 1 + 4 ∈ c'.args) ∧
    look 7 (final WireP.Solve.Ex.pmEx WireP.Solve.Ex.smEx [0] 7).index = some (some (1 + 5)) := by
  refine ⟨⟨_, rfl, ?_⟩, ⟨_, rfl, ?_⟩, ⟨_, rfl, ?_⟩, ⟨_, rfl, ?_⟩, ⟨_, rfl, ?_⟩, ?_⟩ <;> decide

/-- the pipeline form on the accepted two-set program (`exCalls`, six calls, binding `3 := 2`, the
    struct `4` shared by the field `5` and by `C`) -/
example : ∃ pm sm, (procSets exOrder exDs).getLast? = some (2, SetRes.ok pm sm) ∧
    (∀ (p : Nat) (c : Call), exCalls[p]? = some c →
      (∃ (q : Nat) (c' : Call), p < q ∧ exCalls[q]? = some c' ∧ ([0].length + p) ∈ c'.args) ∨
      look 7 (final pm sm [0] 7).index = some (some ([0].length + p))) ∧
    (exCalls ≠ [] → look 7 (final pm sm [0] 7).index = some (some ([0].length + (exCalls.length - 1)))) :=
  every_call_used_plan (d := exBuild) (by decide) rfl (by decide) exOk

example : ∀ pq ∈ [(0, 1), (1, 2), (2, 3), (2, 4), (3, 5), (4, 5)], pq.1 < pq.2 ∧
    (exCalls[pq.2]?).any (fun c' => decide (([0] : List Ty).length + pq.1 ∈ c'.args)) = true := by
  decide

/-- the naming example of C14: hypotheses of `binders_distinct` are satisfiable -/
example : ∃ ig, nameInjector 60 WireP.C14.exEnv WireP.C14.exParams WireP.C14.exSteps = some ig :=
  WireP.C14.nameInjector_total 60 _ _ _ (by decide)

example : sigErrors true true exCalls = [] := by decide
example : sigErrors true false exCalls ≠ [] := by decide

/-! ## internal packages: what a generated file may import

Model: `WireV.importableFromC path frm` (wire.go: `importableFrom`; `WireV/Path.lean`) — may the package with
import path `frm` import the package `path` under Go's rule for internal packages?  The last path element
`internal` of `path` decides (`WireV.internalAt`); both paths are read without their vendor prefix
(`WireV.unvendorC`, C16).  Proofs: `WireP/Lemmas/ImportableProofs.lean`. -/
section Importable
open WireP.PathProofs (NoVendorElem)
open WireP.ImportableProofs (InternalElemAt)

/-- `strings.HasSuffix` as modelled -/
theorem isSuffixC_iff (s h : List Char) : isSuffixC s h = true ↔ ∃ t, h = t ++ s :=
  WireP.ImportableProofs.isSuffixC_iff s h

/-- at position `k` of `path` there is `/internal`, followed by the end of the path or by `/` -/
theorem internalElemAt_def (path : List Char) (k : Nat) :
    InternalElemAt path k ↔
      ∃ suf, path.drop k = "/internal".toList ++ suf ∧ (suf = [] ∨ suf.head? = some '/') := Iff.rfl

/-- no `internal` element ⇔ `/internal` followed by the end or by `/` occurs nowhere -/
theorem internalAt_none_iff (path : List Char) :
    internalAt path = none ↔
      ¬ ∃ pre suf, path = pre ++ "/internal".toList ++ suf ∧ (suf = [] ∨ suf.head? = some '/') :=
  WireP.ImportableProofs.internalAt_none_iff path

/-- **`internalAt` finds the last `internal` element**: at `i - 1` the path goes on with `/internal`
    followed by the end or by `/`, and at no later position does it -/
theorem internalAt_last {path : List Char} {i : Nat} (h : internalAt path = some i) :
    1 ≤ i ∧
    (∃ suf, path.drop (i - 1) = "/internal".toList ++ suf ∧ (suf = [] ∨ suf.head? = some '/')) ∧
    ∀ j, i - 1 < j →
      ¬ ∃ suf, path.drop j = "/internal".toList ++ suf ∧ (suf = [] ∨ suf.head? = some '/') :=
  WireP.ImportableProofs.internalAt_last h

/-- … and that characterises it -/
theorem internalAt_some_iff {path : List Char} {i : Nat} :
    internalAt path = some i ↔
      1 ≤ i ∧ InternalElemAt path (i - 1) ∧ ∀ j, i - 1 < j → ¬ InternalElemAt path j :=
  WireP.ImportableProofs.internalAt_some_iff

/-- `parent/internal` followed by `rest` (empty, or `/…` without a further `internal` element): the
    element found is the one behind `parent` -/
theorem internalAt_shape (parent : List Char) {rest : List Char}
    (hr : rest = [] ∨ rest.head? = some '/') (hlast : internalAt rest = none) :
    internalAt (parent ++ "/internal".toList ++ rest) = some (parent.length + 1) :=
  WireP.ImportableProofs.internalAt_shape parent hr hlast

/-- conversely every path with an `internal` element has that shape, with `parent = path.take (i - 1)` -/
theorem internalAt_some_shape {path : List Char} {i : Nat} (h : internalAt path = some i) :
    ∃ rest, path = path.take (i - 1) ++ "/internal".toList ++ rest ∧
      (path.take (i - 1)).length + 1 = i ∧
      (rest = [] ∨ rest.head? = some '/') ∧ internalAt rest = none :=
  WireP.ImportableProofs.internalAt_some_shape h

/-- only the paths without their vendor prefix matter -/
theorem importableFromC_unvendor (path frm : List Char) :
    importableFromC path frm = importableFromC (unvendorC path) (unvendorC frm) :=
  WireP.ImportableProofs.importableFromC_unvendor path frm

/-- a vendored copy is treated like the package itself, whoever vendors it -/
theorem importable_vendored {path frm : List Char} (hp : NoVendorElem path) (hf : NoVendorElem frm)
    (q q' : List Char) :
    importableFromC (q ++ vendorElem ++ path) (q' ++ vendorElem ++ frm) = importableFromC path frm ∧
    importableFromC ("vendor/".toList ++ path) frm = importableFromC path frm ∧
    importableFromC path (q' ++ vendorElem ++ frm) = importableFromC path frm :=
  WireP.ImportableProofs.importable_vendored hp hf q q'

/-- **A path without `internal` element may be imported from everywhere.** -/
theorem importable_no_internal {path : List Char} (hp : NoVendorElem path)
    (h : internalAt path = none) (frm : List Char) : importableFromC path frm = true :=
  WireP.ImportableProofs.importable_no_internal hp h frm

/-- the same for arbitrary paths (vendor prefix stripped first) -/
theorem importable_no_internal_gen {path : List Char} (h : internalAt (unvendorC path) = none)
    (frm : List Char) : importableFromC path frm = true :=
  WireP.ImportableProofs.importable_no_internal_gen h frm

/-- **Go's rule.**  `parent/internal…` (the last `internal` element of the path) may be imported from
    `parent` and from below `parent`, and from nowhere else. -/
theorem importable_iff {parent rest frm : List Char}
    (hp : NoVendorElem (parent ++ "/internal".toList ++ rest)) (hf : NoVendorElem frm)
    (hr : rest = [] ∨ rest.head? = some '/') (hlast : internalAt rest = none) :
    importableFromC (parent ++ "/internal".toList ++ rest) frm = true ↔
      frm = parent ∨ ∃ x, frm = parent ++ '/' :: x :=
  WireP.ImportableProofs.importable_iff hp hf hr hlast

theorem importable_inside {parent rest frm : List Char}
    (hp : NoVendorElem (parent ++ "/internal".toList ++ rest)) (hf : NoVendorElem frm)
    (hr : rest = [] ∨ rest.head? = some '/') (hlast : internalAt rest = none)
    (hfrm : frm = parent ∨ ∃ x, frm = parent ++ '/' :: x) :
    importableFromC (parent ++ "/internal".toList ++ rest) frm = true :=
  WireP.ImportableProofs.importable_inside hp hf hr hlast hfrm

/-- a package that is neither `parent` nor below it (`parent/` is not a prefix of its path; a prefix of
    the parent's *name* is not enough) may not import -/
theorem importable_outside {parent rest frm : List Char}
    (hp : NoVendorElem (parent ++ "/internal".toList ++ rest)) (hf : NoVendorElem frm)
    (hr : rest = [] ∨ rest.head? = some '/') (hlast : internalAt rest = none)
    (hne : frm ≠ parent) (hpre : isPrefixC (parent ++ ['/']) frm = false) :
    importableFromC (parent ++ "/internal".toList ++ rest) frm = false :=
  WireP.ImportableProofs.importable_outside hp hf hr hlast hne hpre

/-- the rule with the position that `internalAt` computes instead of the shape -/
theorem importable_iff_at {path frm : List Char} {i : Nat} (hp : NoVendorElem path)
    (hf : NoVendorElem frm) (hi : internalAt path = some i) :
    importableFromC path frm = true ↔
      frm = path.take (i - 1) ∨ ∃ x, frm = path.take (i - 1) ++ '/' :: x :=
  WireP.ImportableProofs.importable_iff_at hp hf hi

/-- … and for arbitrary paths -/
theorem importable_some_gen {path frm : List Char} {i : Nat}
    (h : internalAt (unvendorC path) = some i) :
    importableFromC path frm = true ↔
      unvendorC frm = (unvendorC path).take (i - 1) ∨
      ∃ x, unvendorC frm = (unvendorC path).take (i - 1) ++ '/' :: x :=
  WireP.ImportableProofs.importable_some_gen h

/-- a package of the tree may import `parent/internal/x`: `parent` itself and `parent/sub` -/
theorem importable_self_tree {parent : List Char}
    (hp : NoVendorElem (parent ++ "/internal/x".toList)) (hpar : NoVendorElem parent)
    (hsub : NoVendorElem (parent ++ "/sub".toList)) :
    importableFromC (parent ++ "/internal/x".toList) (parent ++ "/sub".toList) = true ∧
    importableFromC (parent ++ "/internal/x".toList) parent = true :=
  WireP.ImportableProofs.importable_self_tree hp hpar hsub

/-! non-vacuity and the rule on concrete paths (`…_lit rfl rfl (by decide)`: `decide` on the character
lists of the literals, see `WireP.PathProofs`) -/
open WireP.PathProofs WireP.ImportableProofs in
section
example : importableFrom "a/lib/internal/impl" "a/lib/sub" = true := importableFrom_lit rfl rfl (by decide)
example : importableFrom "a/lib/internal/impl" "a/lib" = true := importableFrom_lit rfl rfl (by decide)
example : importableFrom "a/lib/internal/impl" "a/app" = false := importableFrom_lit rfl rfl (by decide)
/-- a prefix of the parent's *name* is not enough -/
example : importableFrom "a/lib/internal/impl" "a/libx" = false := importableFrom_lit rfl rfl (by decide)
example : importableFrom "a/lib/internal" "a/lib/sub" = true := importableFrom_lit rfl rfl (by decide)
example : importableFrom "a/lib/internal" "a" = false := importableFrom_lit rfl rfl (by decide)
/-- the last `internal` element counts -/
example : importableFrom "a/internal/b/internal/c" "a/internal/b/d" = true :=
  importableFrom_lit rfl rfl (by decide)
example : importableFrom "a/internal/b/internal/c" "a/x" = false := importableFrom_lit rfl rfl (by decide)
/-- an element that merely ends in `internal` is no `internal` element -/
example : importableFrom "a/xinternal/c" "z" = true := importableFrom_lit rfl rfl (by decide)
example : importableFrom "a/internalx/c" "z" = true := importableFrom_lit rfl rfl (by decide)
/-- a leading `internal` is not treated specially (as in the Go code) -/
example : importableFrom "internal/c" "z" = true := importableFrom_lit rfl rfl (by decide)
/-- vendor prefixes are stripped on both sides -/
example : importableFrom "vendor/a/internal/c" "a/d" = true := importableFrom_lit rfl rfl (by decide)
example : importableFrom "q/vendor/a/internal/c" "r/vendor/a/d" = true := importableFrom_lit rfl rfl (by decide)
example : importableFrom "q/vendor/a/internal/c" "q/d" = false := importableFrom_lit rfl rfl (by decide)
example : internalAt "a/lib/internal/impl".toList = some 6 := internalAt_lit rfl (by decide)
example : internalAt "a/internal/b/internal/c".toList = some 13 := internalAt_lit rfl (by decide)
example : internalAt "a/internal/b/internal".toList = some 13 := internalAt_lit rfl (by decide)
example : internalAt "a/xinternal/c".toList = none := internalAt_lit rfl (by decide)
/-- hypotheses of `importable_iff` / `importable_self_tree` on `a/lib` + `/internal` + `/impl` -/
example : NoVendorElem ("a/lib".toList ++ "/internal".toList ++ "/impl".toList) ∧
    ("/impl".toList = [] ∨ "/impl".toList.head? = some '/') ∧ internalAt "/impl".toList = none ∧
    NoVendorElem "a/lib/sub".toList ∧ NoVendorElem "a/app".toList ∧ "a/app".toList ≠ "a/lib".toList ∧
    isPrefixC ("a/lib".toList ++ ['/']) "a/app".toList = false := by decide
example : NoVendorElem ("a/lib".toList ++ "/internal/x".toList) ∧ NoVendorElem "a/lib".toList ∧
    NoVendorElem ("a/lib".toList ++ "/sub".toList) := by decide
end

end Importable

/-- a package named by a list of files has the synthetic path `command-line-arguments`: the rule is left to the compiler (D42) -/
theorem importable_synthetic (path : String) : importableFromTool path syntheticPath = true := by
  simp [importableFromTool]

/-- for every other importer the function is the internal-package rule on path elements -/
theorem importable_real (path frm : String) (h : frm ≠ syntheticPath) :
    importableFromTool path frm = importableFromC path.toList frm.toList := by
  simp [importableFromTool, importableFrom, h]

/-! ## the types an injector's signature spells (`unnameableType`, `WireV.Nameable`; D41) -/

/-- **Accepted iff every defined type mentioned can be named from the injector's package**: none is an unexported type of another
    package — at any depth: behind pointers, in slices, arrays, channels, maps, signatures, struct literals, or as a type argument. -/
theorem signature_nameable_iff (want : Nat) (t : UTy) : unnameable want t = none ↔ NameableOk want t :=
  WireP.Nameable.unnameable_none_iff want t

example : unnameable 0 (.comp [.named 1 0 false [], .named 2 1 true [.comp [.named 3 0 false []]], .leaf]) = none := by decide
/-- `[]other.Box[other.t]`: the unexported type argument is found -/
example : unnameable 0 (.comp [.named 5 1 true [.named 4 1 false []]]) = some 4 := by decide
example : unnameable 1 (.comp [.named 5 1 true [.named 4 1 false []]]) = none := by decide

end WireP.C01
