import WireP.Props.Pipeline
import WireP.Props.C14
import WireP.Props.C09
import WireP.Props.C20
import WireP.Props.C15
import WireP.Props.C03
/-! # C01 — successful generation yields a compilable package (aggregate, IR level)

C01 itself is decided by compiling every generated package.  Its Lean part is the IR-level
well-formedness that the other properties establish; the theorems below restate them (each a short
corollary of a theorem proved elsewhere, all hypotheses visible, no new assumption):

* `defined_before_use`, `argument_types` — from `WireP.Pipeline.planLast_ok_spec` (C02 on the whole
  modelled pipeline `WireV.planLast`);
* `binders_distinct` — `WireP.C14.nameInjector_distinct`;
* `signature_declared` — `WireP.C03.needs_sig`;
* `zero_value_total` — `WireP.C20.zero_kinds_total`, `zero_basic_total`;
* `copied_decls_complete` — `WireP.C15.copy_total`, `copy_complete`. -/
namespace WireP.C01
open WireV WireP.Solve WireP.Pipeline

/-- **Every variable is defined before it is used, and defined once.**  In an accepted plan
    (`planLast … = .ok calls`, `given` = the injector's parameters) every argument of call number `p`
    is a variable index `< given.length + p` — an injector parameter or the result of an earlier
    call — each call has one argument per parameter of its provider, and no type is constructed by
    two calls (one local variable per constructed type), nor is a given type constructed. -/
theorem defined_before_use {order : List Ty} {ds : List SetDef} {d : SetDef} {out : Ty}
    {calls : List Call} (hbl : BuildLast ds) (hd : ds.getLast? = some d)
    (horder : OrderCovers order ds) (h : planLast order ds out = .ok calls) :
    (∀ (p : Nat) c, calls[p]? = some c → ∀ a ∈ c.args, a < (d.args.getD []).length + p) ∧
    (calls.map (·.out)).Nodup ∧ (∀ c ∈ calls, c.out ∉ d.args.getD []) := by
  obtain ⟨pm, sm, _, _, _, _, _, hs⟩ := planLast_ok_spec hbl hd horder h
  refine ⟨?_, hs.outs_nodup, hs.outs_not_given⟩
  intro p c hpc a ha
  obtain ⟨pt, _, _, _, _, hlen, hargs⟩ := hs.call_sound p c hpc
  obtain ⟨j, hj, rfl⟩ := List.mem_iff_getElem.mp ha
  have hj' : j < (depsOf pt.src).length := by omega
  exact (hargs j c.args[j] (depsOf pt.src)[j] (List.getElem?_eq_getElem hj)
    (List.getElem?_eq_getElem hj')).1

/-- **Every argument has the type its parameter wants.**  In an accepted plan, with `pm` the
    provider map of the last set: every call is for a key of the map whose entry `pt` is not an
    injector argument; it has one argument per dependency of `pt`; the variable passed for
    dependency `dd` holds exactly `resolveTy pm dd` (the dependency itself, or the concrete type an
    interface binding maps it to); and the variable the injector returns holds `resolveTy pm out`
    (it is the last call's, if there is any call). -/
theorem argument_types {order : List Ty} {ds : List SetDef} {d : SetDef} {out : Ty}
    {calls : List Call} (hbl : BuildLast ds) (hd : ds.getLast? = some d)
    (horder : OrderCovers order ds) (h : planLast order ds out = .ok calls) :
    ∃ pm sm, (procSets order ds).getLast? = some (d.id, SetRes.ok pm sm) ∧
      (∀ (p : Nat) c, calls[p]? = some c →
        ∃ pt, look c.out pm = some pt ∧ pt.t = c.out ∧ (∀ i, pt.src ≠ .arg i) ∧
          c.args.length = (depsOf pt.src).length ∧
          ∀ (j : Nat) a dd, c.args[j]? = some a → (depsOf pt.src)[j]? = some dd →
            produced (d.args.getD []) calls a = some (resolveTy pm dd)) ∧
      (∃ n, look out (final pm sm (d.args.getD []) out).index = some (some n) ∧
        produced (d.args.getD []) calls n = some (resolveTy pm out)) ∧
      (calls ≠ [] → (calls.getLast?).map (·.out) = some (resolveTy pm out)) := by
  obtain ⟨pm, sm, _, hl, _, _, _, hs⟩ := planLast_ok_spec hbl hd horder h
  refine ⟨pm, sm, hl, ?_, hs.result, hs.result_last⟩
  intro p c hpc
  obtain ⟨pt, h1, h2, h3, _, h5, h6⟩ := hs.call_sound p c hpc
  exact ⟨pt, h1, h2, h3, h5, fun j a dd ha hdd => (h6 j a dd ha hdd).2⟩

/-- **All binders of a generated injector are pairwise distinct**, none is a keyword, none is in
    file scope (imports, value variables, package scope, universe); one name per parameter, per
    planned call and per cleanup (`ig.all` = parameters, locals, cleanups and the error variable). -/
theorem binders_distinct (fuel : Nat) (e : NameEnv) (ps : List ParamInfo) (ss : List StepInfo)
    (ig : InjNames) (h : nameInjector fuel e ps ss = some ig) :
    (ig.all.Nodup ∧ ∀ n ∈ ig.all, e.inFileScope n = false ∧ isKeyword n = false) ∧
    (ig.params.length = ps.length ∧ ig.locals.length = ss.length ∧
      ig.cleanups.length = (ss.filter (fun s => s.isFunc && s.hasCleanup)).length) :=
  WireP.C14.nameInjector_distinct fuel e ps ss ig h

/-- **The injector declares every result its body returns.**  Emission is refused unless the
    injector's signature declares a cleanup (an error) whenever a planned call returns one. -/
theorem signature_declared (sc se : Bool) (calls : List Call) :
    sigErrors sc se calls = [] ↔
      ∀ c ∈ calls, (c.hasCleanup = true → sc = true) ∧ (c.hasErr = true → se = true) :=
  WireP.C03.needs_sig sc se calls

/-- **A zero value can be written for every type** (`zeroValue` never reaches its `panic`): every
    kind of underlying type has a case, every typed basic kind is handled by the basic branch. -/
theorem zero_value_total :
    zeroUnhandled = [] ∧
    (Generated.basicKinds.filter (fun kf =>
      !(kf.2.any (fun f => Generated.zeroBasicFlags.contains f)) &&
        !Generated.zeroBasicKinds.contains kf.1)) = [] :=
  ⟨WireP.C20.zero_kinds_total, WireP.C20.zero_basic_total⟩

/-- **Copied declarations are complete**: `copyAST` has a case for every go/ast node kind, and every
    case copies every child, child-list and value field of its node. -/
theorem copied_decls_complete : copyUnhandled = [] ∧ copyMissing = [] :=
  ⟨WireP.C15.copy_total, WireP.C15.copy_complete⟩

/-! ## non-vacuity: the accepted two-set program of `WireP.Props.Pipeline` (six calls) -/

example : (∀ (p : Nat) c, exCalls[p]? = some c → ∀ a ∈ c.args, a < [0].length + p) ∧
    (exCalls.map (·.out)).Nodup ∧ (∀ c ∈ exCalls, c.out ∉ [0]) :=
  defined_before_use (d := exBuild) (by decide) rfl (by decide) exOk

example : exCalls.length = 6 ∧ exCalls.map (·.args) = [[], [1], [0, 2], [3], [3], [4, 5]] := by
  decide

example : ∃ pm sm, (procSets exOrder exDs).getLast? = some (2, SetRes.ok pm sm) ∧
    (∀ (p : Nat) c, exCalls[p]? = some c →
      ∃ pt, look c.out pm = some pt ∧ pt.t = c.out ∧ (∀ i, pt.src ≠ .arg i) ∧
        c.args.length = (depsOf pt.src).length ∧
        ∀ (j : Nat) a dd, c.args[j]? = some a → (depsOf pt.src)[j]? = some dd →
          produced [0] exCalls a = some (resolveTy pm dd)) ∧
    (∃ n, look 7 (final pm sm [0] 7).index = some (some n) ∧
      produced [0] exCalls n = some (resolveTy pm 7)) ∧
    (exCalls ≠ [] → (exCalls.getLast?).map (·.out) = some (resolveTy pm 7)) :=
  argument_types (d := exBuild) (by decide) rfl (by decide) exOk

/-- the naming example of C14: hypotheses of `binders_distinct` are satisfiable -/
example : ∃ ig, nameInjector 60 WireP.C14.exEnv WireP.C14.exParams WireP.C14.exSteps = some ig :=
  WireP.C14.nameInjector_total 60 _ _ _ (by decide)

example : sigErrors true true exCalls = [] := by decide
example : sigErrors true false exCalls ≠ [] := by decide

end WireP.C01
