import WireV.Sets
namespace WireP.C01
end WireP.C01
