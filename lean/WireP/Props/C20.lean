import WireV.Tables
/-! # C20 — no panics on valid input (table part)

`copyAST` and `zeroValue` end in `default: panic(...)`; the theorems say that the default is
unreachable: every go/ast node kind has a `copyAST` case, every kind of underlying type has a
`zeroValue` case, and every typed basic kind is handled inside the `*types.Basic` branch.
All are closed by `decide` over the regenerated tables. -/
namespace WireP.C20
open WireV WireV.Generated

theorem copy_never_panics : copyUnhandled = [] := by decide

theorem zero_kinds_total : zeroUnhandled = [] := by decide

/-- every typed basic kind is handled by the `*types.Basic` branch of `zeroValue` -/
theorem zero_basic_total :
    (Generated.basicKinds.filter (fun kf =>
      !(kf.2.any (fun f => Generated.zeroBasicFlags.contains f)) && !Generated.zeroBasicKinds.contains kf.1)) = [] := by
  decide

/-- no single-value type assertion of the front end, the planner or the generator targets a go/ast
    node type: an unexpected (type-correct) spelling of a marker-function argument cannot make such an
    assertion panic.  (Regenerated list of all `x.(T)` without comma-ok in parse.go, wire.go, analyze.go.) -/
theorem no_ast_shape_assertions : astShapeAsserts = [] := by decide

/-! ## non-vacuity -/

/-- the filter recognises the assertion that defect D3 consisted of -/
example : infixC "(*ast.".toList "processStructProvider: call.Args[0].(*ast.CallExpr)".toList = true := by decide

example : (uncheckedAssertsParse ++ uncheckedAssertsWire ++ uncheckedAssertsAnalyze).length ≥ 10 := by decide


example : copyDefaultPanics = true ∧ zeroDefaultPanics = true := by decide

example : zeroKindsAll.length = 9 ∧ zeroKindsAll.length ≤ zeroCases.length ∧ basicKinds.length = 18 := by decide

/-- `UnsafePointer` has no flag and is covered only through `zeroBasicKinds` -/
example : (basicKinds.filter (fun kf => !(kf.2.any (fun f => zeroBasicFlags.contains f)))).map (·.1) = ["UnsafePointer"] := by
  decide

/-- the check detects a missing kind -/
example : (["Basic", "Tuple"].filter (fun k => !(zeroCases.map (·.1)).contains k)) = ["Tuple"] := by decide

end WireP.C20
