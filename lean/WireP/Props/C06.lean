import WireP.Lemmas.SolveExample
/-! # C06 — a missing provider is reported, exactly when one is missing, naming the type

Property theorems only; lemmas in `WireP/Lemmas/Solve*.lean`; model `WireV.svStep` / `solve`.

Deviation from the brief: the "only if" half of `solve_missing_iff` needs `GivenLeaf pm given`
(a given type has no dependencies in the map), which `H` does not imply — counterexample `pmB`
below.  `GivenLeaf` follows from `GivenArgs` (every given type is an `.arg` entry), which is what
`buildProviderMap args …` guarantees for `given = args`. -/
namespace WireP.C06
open WireV WireP.Solve

/-- **No error iff nothing needed is missing**: the planner reports an error exactly when some
    type reachable from the requested one is neither given nor provided. -/
theorem solve_missing_iff_partial {pm : PMap} {sm : SMap} {given : List Ty} {out : Ty}
    (hH : H pm given) (hl : GivenLeaf pm given) :
    (final pm sm given out).errs = [] ↔
      ∀ u, Reach pm out u → u ∈ given ∨ (look u pm).isSome :=
  WireP.Solve.solve_missing_iff_partial hH hl

/-- the "if" half holds for every map satisfying `H` (no extra hypothesis) -/
theorem solve_missing_if {pm : PMap} {sm : SMap} {given : List Ty} {out : Ty} (hH : H pm given)
    (h : ∀ u, Reach pm out u → u ∈ given ∨ (look u pm).isSome) :
    (final pm sm given out).errs = [] :=
  WireP.Solve.solve_missing_if hH.concClosed hH.givenNodup h

/-- **Every diagnostic is true and names the type**: each error is a `noProvider t up` for a
    type `t` that is needed, not given and has no provider. -/
theorem solve_missing_named {pm : PMap} {sm : SMap} {given : List Ty} {out : Ty} (hH : H pm given) :
    ∀ e ∈ (final pm sm given out).errs, ∃ t up, e = Err.noProvider t up ∧ look t pm = none ∧
      t ∉ given ∧ Reach pm out t :=
  WireP.Solve.solve_missing_named hH.concClosed hH.givenNodup

/-- **Errors block output**: `solve` hands out a call list only if the machine stopped with an
    empty stack and no error (and then the call list is the machine's). -/
theorem solve_errs_no_calls {pm : PMap} {sm : SMap} {d : SetDef} {impIds : List Nat}
    {given : List Ty} {out : Ty} {cs : List Call}
    (h : solve pm sm d impIds given out = .ok cs) :
    (final pm sm given out).errs = [] ∧ (final pm sm given out).stk = [] ∧
      cs = (final pm sm given out).calls :=
  have := WireP.Solve.solve_ok h
  ⟨this.2.1, this.1, this.2.2.2⟩

/-! ## non-vacuity -/

open WireP.Solve.Ex

example : H pmEx [0] ∧ GivenLeaf pmEx [0] := ⟨hEx, leafEx⟩
example : (final pmEx smEx [0] 7).errs = [] := by decide

/-- the same diamond without the value `1`: one error, naming `1` and the chain of requesters -/
example : H pmMiss [0] ∧ GivenLeaf pmMiss [0] := ⟨hMiss, leafMiss⟩
example : (final pmMiss smMiss [0] 7).errs = [Err.noProvider 1 [2, 3, 4, 6, 7]] ∧
    (final pmMiss smMiss [0] 7).calls = [] := by decide
example : look 1 pmMiss = none := by decide
example : solve pmMiss smMiss dEx [] [0] 7 = .errs [Err.noProvider 1 [2, 3, 4, 6, 7]] := rfl

/-- `GivenLeaf` cannot be dropped from `solve_missing_iff_partial`: with a given type `0` that
    also has a provider needing the unprovided `5`, `H` holds and there is no error, although `5`
    is reachable, not given and not provided. -/
example : H pmB [0] ∧ (final pmB smB [0] 0).errs = [] ∧ Reach pmB 0 5 ∧ 5 ∉ [0] ∧
    look 5 pmB = none :=
  ⟨hB, by decide, reachB5, by decide, by decide⟩

end WireP.C06
