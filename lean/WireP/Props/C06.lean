import WireV.Sets
namespace WireP.C06
end WireP.C06
