import WireV.Sets
import WireP.Lemmas.PMapPerm
/-! # C10 — the result of analysing a provider set does not depend on declaration order

Property theorems only; helper lemmas live in `WireP/Lemmas/PMapPerm.lean` (and the files it imports).
`NoChainedBind`, `ImportsEach`, `ImportsPerm` are defined in `WireP/Lemmas/PMapPerm.lean`
(namespace `WireP.C10`); `baseSources`/`allSources` in `WireP/Lemmas/PMapProofs.lean` (namespace `WireP.C05`). -/
namespace WireP.C10
open WireV WireP.C05

/-- **Acceptance, characterised without reference to order.**  Without chained bindings, a set is
    accepted iff every type has one source and every binding's concrete type has a (non-binding) source. -/
theorem bpm_ok_iff (args : Option (List Ty)) (imports : List (Nat × PMap)) (provs : List Prov)
    (vals : List Val) (flds : List Fld) (bnds : List Bnd) (hnc : NoChainedBind bnds) :
    (∃ r, buildProviderMap args imports provs vals flds bnds = .ok r) ↔
      (allSources args imports provs vals flds bnds).Nodup ∧
      ∀ b ∈ bnds, b.provided ∈ baseSources args imports provs vals flds :=
  WireP.PMapProofs.bpm_ok_iff hnc

/-- the "if" half holds even with chained bindings -/
theorem bpm_ok_of (args : Option (List Ty)) (imports : List (Nat × PMap)) (provs : List Prov)
    (vals : List Val) (flds : List Fld) (bnds : List Bnd)
    (hnd : (allSources args imports provs vals flds bnds).Nodup)
    (hp : ∀ b ∈ bnds, b.provided ∈ baseSources args imports provs vals flds) :
    ∃ r, buildProviderMap args imports provs vals flds bnds = .ok r :=
  WireP.PMapProofs.bpm_ok_of hnd hp

/-- **Order independence.**  Reordering providers, values, fields, bindings and imports, and iterating
    each imported map in a different order, changes neither acceptance nor any lookup in the result —
    provided no binding's concrete type is itself bound in the same set. -/
theorem bpm_perm (args : Option (List Ty)) (imports imports' : List (Nat × PMap))
    (provs provs' : List Prov) (vals vals' : List Val) (flds flds' : List Fld) (bnds bnds' : List Bnd)
    (hi : ImportsPerm imports imports') (hp : provs.Perm provs') (hv : vals.Perm vals')
    (hf : flds.Perm flds') (hb : bnds.Perm bnds') (hnc : NoChainedBind bnds) :
    ((∃ r, buildProviderMap args imports provs vals flds bnds = .ok r) ↔
     (∃ r, buildProviderMap args imports' provs' vals' flds' bnds' = .ok r)) ∧
    ∀ pm sm pm' sm', buildProviderMap args imports provs vals flds bnds = .ok (pm, sm) →
      buildProviderMap args imports' provs' vals' flds' bnds' = .ok (pm', sm') →
      ∀ t, look t pm = look t pm' ∧ look t sm = look t sm' :=
  WireP.PMapProofs.bpm_perm hi hp hv hf hb hnc

/-- **The side condition is needed.**  With a chained binding the order of the bindings matters:
    `Bind(I,J), Bind(J,C)` (I = 0, J = 1, C = 2, `C` provided) is rejected, the other order is accepted. -/
theorem bpm_perm_fails_chained :
    ∃ (provs : List Prov) (bnds bnds' : List Bnd), bnds.Perm bnds' ∧ ¬ NoChainedBind bnds ∧
      buildProviderMap none [] provs [] [] bnds = .error [Err.bindMissing 0 1] ∧
      ∃ r, buildProviderMap none [] provs [] [] bnds' = .ok r :=
  WireP.PMapProofs.bpm_perm_fails_chained

/-! ## non-vacuity -/

def exImports : List (Nat × PMap) :=
  [(1, [(20, ⟨20, .val ⟨5, 20⟩⟩), (21, ⟨21, .val ⟨6, 21⟩⟩)]), (2, [(22, ⟨22, .val ⟨7, 22⟩⟩)])]
def exImports' : List (Nat × PMap) :=
  [(2, [(22, ⟨22, .val ⟨7, 22⟩⟩)]), (1, [(21, ⟨21, .val ⟨6, 21⟩⟩), (20, ⟨20, .val ⟨5, 20⟩⟩)])]
def exProvs : List Prov := [{ id := 1, args := [10], outs := [30, 31] }, { id := 2, args := [], outs := [32] }]
def exBnds : List Bnd := [⟨4, 60, 30⟩, ⟨5, 61, 20⟩]

instance (bnds : List Bnd) : Decidable (NoChainedBind bnds) := by unfold NoChainedBind; infer_instance

example : NoChainedBind exBnds := by decide
example : ImportsPerm exImports exImports' :=
  ⟨_, List.Perm.swap _ _ _, .cons rfl (List.Perm.refl _) (.cons rfl (List.Perm.swap _ _ _) .nil)⟩
example : (allSources (some [10]) exImports exProvs [⟨2, 40⟩] [⟨3, 30, [50]⟩] exBnds).Nodup ∧
    ∀ b ∈ exBnds, b.provided ∈ baseSources (some [10]) exImports exProvs [⟨2, 40⟩] [⟨3, 30, [50]⟩] := by
  decide
-- both orders are accepted, with differently ordered association lists
example : (buildProviderMap (some [10]) exImports exProvs [⟨2, 40⟩] [⟨3, 30, [50]⟩] exBnds).toOption.map
    (fun r => r.1.map (·.1)) = some [61, 60, 50, 40, 32, 31, 30, 22, 21, 20, 10] := by decide
example : (buildProviderMap (some [10]) exImports' exProvs.reverse [⟨2, 40⟩] [⟨3, 30, [50]⟩] exBnds.reverse).toOption.map
    (fun r => r.1.map (·.1)) = some [60, 61, 50, 40, 31, 30, 32, 20, 21, 22, 10] := by decide

end WireP.C10
