import WireV.Sets
namespace WireP.C08
end WireP.C08
