import WireP.Lemmas.SolveExample
/-! # C08 — unused providers, values, bindings, fields and imported sets are reported

Property theorems only; lemmas in `WireP/Lemmas/Solve*.lean`; model `WireV.svStep` /
`verifyArgsUsed` / `solve`.

Deviations from the brief: `used_spec` needs `GivenLeaf pm given` for its "if" half
(counterexample `pmB` below) and does *not* need `SrcTotal pm sm`; `unused_reported` is stated
per identity (`Err.unusedProv i`), since an error carries only the identity. -/
namespace WireP.C08
open WireV WireP.Solve

/-- **What is marked used**: without errors, a source is marked exactly when it is the source of
    some type that the requested type needs and that is not given. -/
theorem used_spec_partial {pm : PMap} {sm : SMap} {given : List Ty} {out : Ty}
    (hH : H pm given) (hl : GivenLeaf pm given) (he : (final pm sm given out).errs = [])
    (src : SrcId) :
    src ∈ (final pm sm given out).used ↔
      ∃ t, Reach pm out t ∧ t ∉ given ∧ look t sm = some src :=
  WireP.Solve.used_spec_partial hH hl he src

/-- the "only if" half holds without `GivenLeaf` and whether or not there are errors -/
theorem used_sound {pm : PMap} {sm : SMap} {given : List Ty} {out : Ty} (hH : H pm given) :
    ∀ src ∈ (final pm sm given out).used,
      ∃ t, Reach pm out t ∧ t ∉ given ∧ look t sm = some src :=
  WireP.Solve.used_sound hH.concClosed hH.givenNodup

/-- **Exactly the unused items are reported** (providers; the other four kinds below). -/
theorem unused_reported (d : SetDef) (impIds : List Nat) (used : List SrcId) (i : Nat) :
    Err.unusedProv i ∈ verifyArgsUsed d impIds used ↔
      (∃ p ∈ d.provs, p.id = i) ∧ SrcId.prov i ∉ used :=
  WireP.Solve.unusedProv_mem d impIds used i

theorem unused_reported_set (d : SetDef) (impIds : List Nat) (used : List SrcId) (i : Nat) :
    Err.unusedSet i ∈ verifyArgsUsed d impIds used ↔ i ∈ impIds ∧ SrcId.imp i ∉ used :=
  WireP.Solve.unusedSet_mem d impIds used i

theorem unused_reported_val (d : SetDef) (impIds : List Nat) (used : List SrcId) (i : Nat) :
    Err.unusedVal i ∈ verifyArgsUsed d impIds used ↔
      (∃ v ∈ d.vals, v.id = i) ∧ SrcId.val i ∉ used :=
  WireP.Solve.unusedVal_mem d impIds used i

theorem unused_reported_bnd (d : SetDef) (impIds : List Nat) (used : List SrcId) (i : Nat) :
    Err.unusedBnd i ∈ verifyArgsUsed d impIds used ↔
      (∃ b ∈ d.bnds, b.id = i) ∧ SrcId.bnd i ∉ used :=
  WireP.Solve.unusedBnd_mem d impIds used i

theorem unused_reported_fld (d : SetDef) (impIds : List Nat) (used : List SrcId) (i : Nat) :
    Err.unusedFld i ∈ verifyArgsUsed d impIds used ↔
      (∃ f ∈ d.flds, f.id = i) ∧ SrcId.fld i ∉ used :=
  WireP.Solve.unusedFld_mem d impIds used i

/-- `verifyArgsUsed` reports nothing else -/
theorem unused_only (d : SetDef) (impIds : List Nat) (used : List SrcId) (e : Err)
    (h : e ∈ verifyArgsUsed d impIds used) :
    (∃ i, e = .unusedSet i) ∨ (∃ i, e = .unusedProv i) ∨ (∃ i, e = .unusedVal i) ∨
      (∃ i, e = .unusedBnd i) ∨ (∃ i, e = .unusedFld i) :=
  WireP.Solve.verifyArgsUsed_kinds d impIds used e h

/-- **Unused items block output**: `solve` hands out a call list only if nothing is unused. -/
theorem solve_ok_used {pm : PMap} {sm : SMap} {d : SetDef} {impIds : List Nat}
    {given : List Ty} {out : Ty} {cs : List Call}
    (h : solve pm sm d impIds given out = .ok cs) :
    verifyArgsUsed d impIds (final pm sm given out).used = [] :=
  (WireP.Solve.solve_ok h).2.2.1

/-- end to end: if `solve` succeeds, every provider of the set is the source of a type the
    requested type needs (likewise for the other kinds, by `verifyArgsUsed_nil_iff`) -/
theorem solve_ok_all_needed {pm : PMap} {sm : SMap} {d : SetDef} {impIds : List Nat}
    {given : List Ty} {out : Ty} {cs : List Call} (hH : H pm given)
    (h : solve pm sm d impIds given out = .ok cs) :
    ∀ p ∈ d.provs, ∃ t, Reach pm out t ∧ t ∉ given ∧ look t sm = some (.prov p.id) :=
  fun p hp =>
    WireP.Solve.used_sound hH.concClosed hH.givenNodup _
      (((WireP.Solve.verifyArgsUsed_nil_iff d impIds _).mp (WireP.Solve.solve_ok h).2.2.1).2.1 p hp)

/-! ## non-vacuity -/

open WireP.Solve.Ex

example : H pmEx [0] ∧ GivenLeaf pmEx [0] ∧ (final pmEx smEx [0] 7).errs = [] :=
  ⟨hEx, leafEx, by decide⟩
example : ∀ k ∈ [0, 1, 2, 3, 4, 5, 6, 7, 8], (look k pmEx).isSome = (look k smEx).isSome :=
  srcTotalEx
/-- every source but the injector argument is marked (the binding `40` included) -/
example : ∀ src ∈ [SrcId.val 10, .prov 20, .prov 21, .prov 22, .prov 23, .bnd 40, .fld 30],
    src ∈ (final pmEx smEx [0] 7).used := by decide
example : SrcId.arg 0 ∉ (final pmEx smEx [0] 7).used := by decide
example : verifyArgsUsed dEx [] (final pmEx smEx [0] 7).used = [] := by decide
/-- one more value in the set that nothing needs: reported, and `solve` refuses -/
example : verifyArgsUsed dEx' [] (final pmEx smEx [0] 7).used = [Err.unusedVal 11] := by decide
example : solve pmEx smEx dEx' [] [0] 7 = .errs [Err.unusedVal 11] := rfl
example : solve pmEx smEx dEx [] [0] 7 = .ok (final pmEx smEx [0] 7).calls := rfl
/-- an imported set none of whose types is needed is reported as well -/
example : verifyArgsUsed dEx [9] (final pmEx smEx [0] 7).used = [Err.unusedSet 9] := by decide

/-- `GivenLeaf` cannot be dropped from `used_spec_partial`: with a given type `0` that also has a
    provider needing `1`, `H` and `SrcTotal` hold and there is no error; the value `1` is
    reachable, not given and has a source, but is not marked used. -/
example : H pmB [0] ∧ SrcTotal pmB smB ∧ (final pmB smB [0] 0).errs = [] ∧
    Reach pmB 0 1 ∧ 1 ∉ [0] ∧ look 1 smB = some (.val 2) ∧
    SrcId.val 2 ∉ (final pmB smB [0] 0).used := by
  refine ⟨hB, ?_, by decide, reachB1, by decide, by decide, by decide⟩
  intro k
  by_cases h0 : k = 0
  · subst h0; decide
  · by_cases h1 : k = 1
    · subst h1; decide
    · simp [pmB, smB, look, h0, h1]

end WireP.C08
