import WireP.Lemmas.Pipeline
/-! # Pipeline — C02 / C06 / C08 / C10 / C11 for the whole modelled pipeline, no side hypotheses

Property theorems only; lemmas in `WireP/Lemmas/Pipeline*.lean` (namespace `WireP.PipelineProofs`),
vocabulary in `WireP/Lemmas/PipelineDefs.lean` (namespace `WireP.Pipeline`).  The model is
`WireV.planLast` (lean/WireV/Sets.lean): `procSets` (= `buildProviderMap` + `verifyAcyclic` per set,
in dependency order) followed by `solve` + `verifyArgsUsed` on the last set.

The planner theorems of C02 / C06 / C08 / C11 carry the standing hypotheses `H pm given`,
`GivenArgs pm given`, `SrcTotal pm sm`.  Here they are discharged for every map the model's own
front half accepts (`planLast_hyps`), so the properties below have no hypothesis other than the
shape of the input:

* `BuildLast ds` — only the last definition (the `wire.Build` call) has injector arguments;
* `OrderCovers order ds` — the type order handed to the model lists every type some set provides
  (the harness passes all types of the program; `verifyAcyclic` takes its roots from it).

Deviations from the brief are listed at the end of the file. -/
namespace WireP.Pipeline
open WireV WireP.C05 WireP.C07 WireP.C10 WireP.Solve

/-! ## 1. the detector's "no cycle" is the planner's "well-founded" -/

/-- on a `ConcClosed` map, if the graph walked by `verifyAcyclic` has no cycle then the relation the
    planner recurses on is well-founded -/
theorem acyclic_of_not_cyclic {pm : PMap} (hcc : ConcClosed pm) (hnc : ¬ Cyclic (succOf pm)) :
    Acyclic pm :=
  WireP.PipelineProofs.acyclic_of_not_cyclic hcc hnc

/-- … and conversely: the two notions coincide -/
theorem acyclic_iff_not_cyclic {pm : PMap} (hcc : ConcClosed pm) :
    Acyclic pm ↔ ¬ Cyclic (succOf pm) :=
  WireP.PipelineProofs.acyclic_iff_not_cyclic hcc

/-! ## 2. the standing hypotheses hold of every accepted last set -/

theorem planLast_hyps {order : List Ty} {ds : List SetDef} {d : SetDef} {id : Nat} {pm : PMap}
    {sm : SMap} (hbl : BuildLast ds) (hd : ds.getLast? = some d)
    (hl : (procSets order ds).getLast? = some (id, SetRes.ok pm sm))
    (horder : ∀ k, (look k pm).isSome → k ∈ order) :
    H pm (d.args.getD []) ∧ GivenArgs pm (d.args.getD []) ∧ SrcTotal pm sm :=
  WireP.PipelineProofs.planLast_hyps hbl hd hl horder

/-- `OrderCovers` gives the `horder` hypothesis of `planLast_hyps` (and of C07) for every accepted set -/
theorem orderCovers_keys {order : List Ty} {ds : List SetDef} (h : OrderCovers order ds)
    {r : Nat × SetRes} (hr : r ∈ procSets order ds) {pm : PMap} {sm : SMap}
    (hok : r.2 = SetRes.ok pm sm) : ∀ k, (look k pm).isSome → k ∈ order :=
  WireP.PipelineProofs.procSets_covered h r hr pm sm hok

/-! ## 3. what an `.ok` verdict means -/

/-- an `.ok` verdict: the last set was accepted with some map `pm`/`sm`; that map is what
    `buildProviderMap` makes of the set's items and the maps of its imports (so C05's `LookupSpec`
    describes it); its provider graph has no cycle; and the call list satisfies **all** planner
    properties (`PlanSpec`, fields: `call_sound`, `outs_nodup`, `outs_not_given`, `only_needed`,
    `result`, `result_last`, `no_missing`, `all_used`, `bind_no_call`, `bind_value`) -/
theorem planLast_ok_spec {order : List Ty} {ds : List SetDef} {d : SetDef} {out : Ty}
    {calls : List Call} (hbl : BuildLast ds) (hd : ds.getLast? = some d)
    (horder : OrderCovers order ds) (h : planLast order ds out = .ok calls) :
    ∃ pm sm impMaps, (procSets order ds).getLast? = some (d.id, SetRes.ok pm sm) ∧
      importsOf (procSets order ds.dropLast) d = .ok impMaps ∧
      buildProviderMap d.args impMaps d.provs d.vals d.flds d.bnds = .ok (pm, sm) ∧
      ¬ Cyclic (succOf pm) ∧
      PlanSpec d (impIdsOf (procSets order ds) d) pm sm (d.args.getD []) out calls :=
  WireP.PipelineProofs.planLast_ok_spec hbl hd horder h

/-- `PlanSpec`, spelled out (so that the statement can be read here) -/
theorem planSpec_unfolded {d : SetDef} {impIds : List Nat} {pm : PMap} {sm : SMap} {given : List Ty}
    {out : Ty} {calls : List Call} (s : PlanSpec d impIds pm sm given out calls) :
    calls = (final pm sm given out).calls ∧
    -- C02: each call is `mkCall` of the one source of its output type; its arguments are earlier
    -- variables holding the (resolved) types of its dependencies, in order
    (∀ (p : Nat) c, calls[p]? = some c →
      ∃ pt, look c.out pm = some pt ∧ pt.t = c.out ∧ (∀ i, pt.src ≠ .arg i) ∧
        mkCall c.out pt.src c.args = some c ∧ c.args.length = (depsOf pt.src).length ∧
        ∀ (j : Nat) a dd, c.args[j]? = some a → (depsOf pt.src)[j]? = some dd →
          a < given.length + p ∧ produced given calls a = some (resolveTy pm dd)) ∧
    -- C02: nothing is built twice, no given type is built, only needed types are built
    (calls.map (·.out)).Nodup ∧ (∀ c ∈ calls, c.out ∉ given) ∧ (∀ c ∈ calls, Reach pm out c.out) ∧
    -- C02: the result
    (∃ n, look out (final pm sm given out).index = some (some n) ∧
      produced given calls n = some (resolveTy pm out)) ∧
    (calls ≠ [] → (calls.getLast?).map (·.out) = some (resolveTy pm out)) ∧
    -- C06: nothing needed is missing
    (∀ u, Reach pm out u → u ∈ given ∨ (look u pm).isSome) ∧
    -- C08: every direct item (imported set, provider, value, binding, field) is used
    (∀ src e, DirectItem d impIds src e → ∃ t, Reach pm out t ∧ t ∉ given ∧ look t sm = some src) ∧
    -- C11: a binding produces no call and shares the variable of its concrete type
    (∀ k pt, look k pm = some pt → pt.t ≠ k → ∀ c ∈ calls, c.out ≠ k) ∧
    (∀ k pt, look k pm = some pt → pt.t ≠ k → Reach pm out k →
      ∃ n, look k (final pm sm given out).index = some (some n) ∧
        look pt.t (final pm sm given out).index = some (some n) ∧
        produced given calls n = some pt.t) :=
  ⟨s.calls_eq, s.call_sound, s.outs_nodup, s.outs_not_given, s.only_needed, s.result, s.result_last,
    s.no_missing, s.all_used, s.bind_no_call, s.bind_value⟩

/-- `all_used`, read on the input: with distinct item identities (Go: pointers), every provider,
    value, field, binding and imported set of the last set provides a needed, non-given type -/
theorem items_used {d : SetDef} {impMaps : List (Nat × PMap)} {impIds : List Nat} {pm : PMap}
    {sm : SMap} {given : List Ty} {out : Ty}
    (hb : buildProviderMap d.args impMaps d.provs d.vals d.flds d.bnds = .ok (pm, sm))
    (hids : DistinctIds d)
    (hu : ∀ src e, DirectItem d impIds src e →
      ∃ t, Reach pm out t ∧ t ∉ given ∧ look t sm = some src) :
    (∀ p ∈ d.provs, ∃ t ∈ p.outs, Reach pm out t ∧ t ∉ given) ∧
    (∀ v ∈ d.vals, Reach pm out v.out ∧ v.out ∉ given) ∧
    (∀ f ∈ d.flds, ∃ t ∈ f.outs, Reach pm out t ∧ t ∉ given) ∧
    (∀ b ∈ d.bnds, Reach pm out b.iface ∧ b.iface ∉ given) ∧
    (∀ i ∈ impIds, ∃ ip ∈ impMaps, ip.1 = i ∧ ∃ kv ∈ ip.2, Reach pm out kv.1 ∧ kv.1 ∉ given) :=
  WireP.PipelineProofs.items_used hb hids hu

/-! ## 4. every defect class is rejected -/

/-- **(c)** a needed type that is neither given nor provided: `.errs`, the list names that type, and
    every entry of the list is a true missing-provider diagnostic -/
theorem planLast_rejects_missing {order : List Ty} {ds : List SetDef} {d : SetDef} {id : Nat}
    {pm : PMap} {sm : SMap} {out t : Ty} (hbl : BuildLast ds) (hd : ds.getLast? = some d)
    (horder : OrderCovers order ds)
    (hl : (procSets order ds).getLast? = some (id, SetRes.ok pm sm))
    (hr : Reach pm out t) (hlp : look t pm = none) (hng : t ∉ d.args.getD []) :
    ∃ es, planLast order ds out = .errs es ∧ (∃ up, Err.noProvider t up ∈ es) ∧
      ∀ e ∈ es, ∃ t' up', e = Err.noProvider t' up' ∧ look t' pm = none ∧
        t' ∉ d.args.getD [] ∧ Reach pm out t' :=
  WireP.PipelineProofs.planLast_rejects_missing hbl hd horder hl hr hlp hng

/-- **(d)** a direct item of the last set that is the source of no needed non-given type: `.errs`;
    unless a missing type pre-empts it, the list contains the item's "unused" diagnostic -/
theorem planLast_rejects_unused {order : List Ty} {ds : List SetDef} {d : SetDef} {id : Nat}
    {pm : PMap} {sm : SMap} {out : Ty} {src : SrcId} {e : Err} (hbl : BuildLast ds)
    (hd : ds.getLast? = some d) (horder : OrderCovers order ds)
    (hl : (procSets order ds).getLast? = some (id, SetRes.ok pm sm))
    (hitem : DirectItem d (impIdsOf (procSets order ds) d) src e)
    (hun : ¬ ∃ t, Reach pm out t ∧ t ∉ d.args.getD [] ∧ look t sm = some src) :
    ∃ es, planLast order ds out = .errs es ∧ es ≠ [] ∧
      ((∀ u, Reach pm out u → u ∈ d.args.getD [] ∨ (look u pm).isSome) → e ∈ es) :=
  WireP.PipelineProofs.planLast_rejects_unused hbl hd horder hl hitem hun

/-- **(b)** a cyclic last set — whether or not the requested type needs the cyclic part: `.errs`, the
    list contains a cycle diagnostic and consists of cycle diagnostics, each a real closed walk -/
theorem planLast_rejects_cycle {order : List Ty} {ds : List SetDef} {d : SetDef}
    {impMaps : List (Nat × PMap)} {pm : PMap} {sm : SMap} (out : Ty)
    (hd : ds.getLast? = some d) (horder : OrderCovers order ds)
    (himp : importsOf (procSets order ds.dropLast) d = .ok impMaps)
    (hb : buildProviderMap d.args impMaps d.provs d.vals d.flds d.bnds = .ok (pm, sm))
    (hc : Cyclic (succOf pm)) :
    ∃ es, planLast order ds out = .errs es ∧ (∃ tr, Err.cycle tr ∈ es) ∧
      ∀ e ∈ es, ∃ tr, e = Err.cycle tr ∧ IsCycleTrail (succOf pm) tr :=
  WireP.PipelineProofs.planLast_rejects_cycle out hd horder himp hb hc

/-- **(a)** a type with two sources in the last set (own items and imported maps together) -/
theorem planLast_rejects_dup {order : List Ty} {ds : List SetDef} {d : SetDef}
    {impMaps : List (Nat × PMap)} (out : Ty) (hd : ds.getLast? = some d)
    (himp : importsOf (procSets order ds.dropLast) d = .ok impMaps)
    (hdup : ¬ (allSources d.args impMaps d.provs d.vals d.flds d.bnds).Nodup) :
    ∃ es, planLast order ds out = .errs es ∧ es ≠ [] :=
  WireP.PipelineProofs.planLast_rejects_dup out hd himp hdup

/-- … named by a `multi` diagnostic if the bindings are co-located -/
theorem planLast_rejects_dup_named {order : List Ty} {ds : List SetDef} {d : SetDef}
    {impMaps : List (Nat × PMap)} (out : Ty) (hd : ds.getLast? = some d)
    (himp : importsOf (procSets order ds.dropLast) d = .ok impMaps)
    (hdup : ¬ (allSources d.args impMaps d.provs d.vals d.flds d.bnds).Nodup)
    (hp : ∀ b ∈ d.bnds, b.provided ∈ baseSources d.args impMaps d.provs d.vals d.flds) :
    ∃ es t, planLast order ds out = .errs es ∧ Err.multi t ∈ es :=
  WireP.PipelineProofs.planLast_rejects_dup_named out hd himp hdup hp

/-- **(a)** a rejected (or non-existent) set directly imported by the last one: `.errs` naming it -/
theorem planLast_rejects_import {order : List Ty} {ds : List SetDef} {d : SetDef} {i : Nat}
    (out : Ty) (hd : ds.getLast? = some d) (hi : i ∈ d.imports)
    (hf : (procSets order ds.dropLast)[i]? = none ∨
      ∃ id es, (procSets order ds.dropLast)[i]? = some (id, SetRes.err es)) :
    ∃ es, planLast order ds out = .errs es ∧
      Err.importFailed (match (procSets order ds.dropLast)[i]? with
        | some (id, _) => id | none => 0) ∈ es :=
  WireP.PipelineProofs.planLast_rejects_import out hd hi hf

/-- **(a)** a type with two sources in a set directly imported by the last one -/
theorem planLast_rejects_dup_import {order : List Ty} {ds : List SetDef} {d dj : SetDef} {j : Nat}
    {impMaps : List (Nat × PMap)} (out : Ty) (hd : ds.getLast? = some d)
    (hj : ds.dropLast[j]? = some dj) (hi : j ∈ d.imports)
    (himp : importsOf (procSets order (ds.dropLast.take j)) dj = .ok impMaps)
    (hdup : ¬ (allSources dj.args impMaps dj.provs dj.vals dj.flds dj.bnds).Nodup) :
    ∃ es, planLast order ds out = .errs es ∧ Err.importFailed dj.id ∈ es :=
  WireP.PipelineProofs.planLast_rejects_dup_import out hd hj hi himp hdup

/-- **(a)** failure propagates along imports at any depth: a set that imports a failed (or
    non-existent) set fails -/
theorem procSets_err_propagates {order : List Ty} {ds : List SetDef} {j i : Nat} {dj : SetDef}
    (h : ds[j]? = some dj) (hi : i ∈ dj.imports) (hij : i < j)
    (hf : (procSets order ds)[i]? = none ∨ ∃ id es, (procSets order ds)[i]? = some (id, SetRes.err es)) :
    ∃ es, (procSets order ds)[j]? = some (dj.id, SetRes.err es) ∧ es ≠ [] :=
  WireP.PipelineProofs.procSets_err_propagates h hi hij hf

/-! ## 5. completeness of acceptance (C10 `accept_complete`) -/

/-- **multi-set**: if every set satisfies the front-end conditions (`AllAcceptable`: imports refer
    to earlier sets, one source per type, bindings have a concrete source, no cycle), nothing the
    requested type needs is missing and every direct item of the last set is needed, the verdict
    is `.ok` -/
theorem planLast_accepts {order : List Ty} {ds : List SetDef} {d : SetDef} {out : Ty}
    (hbl : BuildLast ds) (hd : ds.getLast? = some d) (horder : OrderCovers order ds)
    (hacc : AllAcceptable order ds)
    (hneed : ∀ pm sm, (procSets order ds).getLast? = some (d.id, SetRes.ok pm sm) →
      (∀ u, Reach pm out u → u ∈ d.args.getD [] ∨ (look u pm).isSome) ∧
      ∀ src e, DirectItem d (impIdsOf (procSets order ds) d) src e →
        ∃ t, Reach pm out t ∧ t ∉ d.args.getD [] ∧ look t sm = some src) :
    ∃ calls, planLast order ds out = .ok calls :=
  WireP.PipelineProofs.planLast_accepts hbl hd horder hacc hneed

/-- **single set**, everything explicit -/
theorem planLast_accepts_single {order : List Ty} {d : SetDef} {out : Ty}
    (himp : d.imports = []) (horder : ∀ t ∈ ownSources d, t ∈ order)
    (hnd : (allSources d.args [] d.provs d.vals d.flds d.bnds).Nodup)
    (hbp : ∀ b ∈ d.bnds, b.provided ∈ baseSources d.args [] d.provs d.vals d.flds)
    (hrest : ∀ pm sm, buildProviderMap d.args [] d.provs d.vals d.flds d.bnds = .ok (pm, sm) →
      ¬ Cyclic (succOf pm) ∧
      (∀ u, Reach pm out u → u ∈ d.args.getD [] ∨ (look u pm).isSome) ∧
      ∀ src e, DirectItem d [] src e →
        ∃ t, Reach pm out t ∧ t ∉ d.args.getD [] ∧ look t sm = some src) :
    ∃ calls, planLast order [d] out = .ok calls :=
  WireP.PipelineProofs.planLast_accepts_single himp horder hnd hbp hrest

/-- the front-end conditions are not stronger than what the model checks: they hold of every
    program all of whose sets are accepted (without chained bindings) -/
theorem allAcceptable_of_all_ok {order : List Ty} {ds : List SetDef} (horder : OrderCovers order ds)
    (hnc : ∀ d ∈ ds, NoChainedBind d.bnds)
    (hall : ∀ r ∈ procSets order ds, ∃ pm sm, r.2 = SetRes.ok pm sm) : AllAcceptable order ds :=
  WireP.PipelineProofs.allAcceptable_of_all_ok horder hnc hall

/-! ## 6. order independence (C10) -/

/-- declaring the items of **every** set (imported sets included) in another order changes neither
    the verdict nor the call list, provided no set has chained bindings -/
theorem planLast_perm {order : List Ty} {ds ds' : List SetDef} {out : Ty}
    (h : List.Forall₂ SetPerm ds ds') (hnc : ∀ d ∈ ds, NoChainedBind d.bnds) (calls : List Call) :
    planLast order ds out = .ok calls ↔ planLast order ds' out = .ok calls :=
  WireP.PipelineProofs.planLast_perm h hnc calls

/-- only the last set reordered -/
theorem planLast_perm_last {order : List Ty} {pre : List SetDef} {d d' : SetDef} {out : Ty}
    (hp : SetPerm d d') (hnc : NoChainedBind d.bnds) (hpre : ∀ x ∈ pre, NoChainedBind x.bnds)
    (calls : List Call) :
    planLast order (pre ++ [d]) out = .ok calls ↔ planLast order (pre ++ [d']) out = .ok calls :=
  WireP.PipelineProofs.planLast_perm_last hp hnc hpre calls

/-! ## non-vacuity

`exA` : a library set with a value `1` and a provider `A(1) → 2`.
`exBuild` : `wire.Build` with injector argument `0`, importing `exA`, with the binding `3 := 2`, the
struct provider `B(0, 3) → 4`, the field `5` of `4`, `C(4) → 6` and `D(5, 6) → 7`; request `7`. -/

def vA : Val := { id := 10, out := 1 }
def pA : Prov := { id := 20, args := [1], outs := [2] }
def pB : Prov := { id := 21, args := [0, 3], outs := [4], isStruct := true }
def pC : Prov := { id := 22, args := [4], outs := [6], hasErr := true }
def pD : Prov := { id := 23, args := [5, 6], outs := [7] }
def bI : Bnd := { id := 40, iface := 3, provided := 2 }
def fF : Fld := { id := 30, parent := 4, outs := [5] }
def exA : SetDef :=
  { id := 1, args := none, imports := [], provs := [pA], vals := [vA], flds := [], bnds := [] }
def exBuild : SetDef :=
  { id := 2, args := some [0], imports := [0], provs := [pB, pC, pD], vals := [], flds := [fF],
    bnds := [bI] }
def exOrder : List Ty := [0, 1, 2, 3, 4, 5, 6, 7, 8]
def exDs : List SetDef := [exA, exBuild]

instance (ds : List SetDef) : Decidable (BuildLast ds) := by unfold BuildLast; infer_instance
instance (order : List Ty) (ds : List SetDef) : Decidable (OrderCovers order ds) := by
  unfold OrderCovers; infer_instance
instance (bnds : List Bnd) : Decidable (NoChainedBind bnds) := by unfold NoChainedBind; infer_instance

/-- the accepted program: six calls, in dependency order, the binding `3` resolved to variable 2 -/
def exCalls : List Call :=
  [{ kind := .value, out := 1, srcId := 10 },
   { kind := .func, out := 2, srcId := 20, args := [1], ins := [1] },
   { kind := .struct, out := 4, srcId := 21, args := [0, 2], ins := [0, 3] },
   { kind := .field, out := 5, srcId := 30, args := [3] },
   { kind := .func, out := 6, srcId := 22, args := [3], ins := [4], hasErr := true },
   { kind := .func, out := 7, srcId := 23, args := [4, 5], ins := [5, 6] }]

theorem exOk : planLast exOrder exDs 7 = .ok exCalls := by rfl

example : BuildLast exDs := by decide
example : OrderCovers exOrder exDs := by decide
example : exDs.getLast? = some exBuild := rfl
example : ∀ d ∈ exDs, NoChainedBind d.bnds := by decide
example : DistinctIds exBuild := ⟨by decide, by decide, by decide, by decide⟩
example : impIdsOf (procSets exOrder exDs) exBuild = [1] := by rfl

/-- the hypotheses of `planLast_ok_spec` hold of the example, so its conclusion does -/
example : ∃ pm sm impMaps, (procSets exOrder exDs).getLast? = some (2, SetRes.ok pm sm) ∧
    importsOf (procSets exOrder exDs.dropLast) exBuild = .ok impMaps ∧
    buildProviderMap exBuild.args impMaps exBuild.provs exBuild.vals exBuild.flds exBuild.bnds
      = .ok (pm, sm) ∧ ¬ Cyclic (succOf pm) ∧
    PlanSpec exBuild (impIdsOf (procSets exOrder exDs) exBuild) pm sm [0] 7 exCalls :=
  planLast_ok_spec (by decide) rfl (by decide) exOk

/-- the hypotheses of `planLast_accepts` hold of the example (`AllAcceptable` through
    `allAcceptable_of_all_ok`, the two "need" hypotheses through `planLast_ok_spec`) -/
theorem exAllOk : ∀ r ∈ procSets exOrder exDs, ∃ pm sm, r.2 = SetRes.ok pm sm :=
  WireP.PipelineProofs.all_ok_of_all (by rfl)

example : AllAcceptable exOrder exDs :=
  allAcceptable_of_all_ok (by decide) (by decide) exAllOk

example : ∃ calls, planLast exOrder exDs 7 = .ok calls := by
  refine planLast_accepts (d := exBuild) (by decide) rfl (by decide)
    (allAcceptable_of_all_ok (by decide) (by decide) exAllOk) ?_
  intro pm sm hl
  obtain ⟨pm', sm', _, hl', _, _, _, hs⟩ :=
    planLast_ok_spec (d := exBuild) (by decide) rfl (by decide) exOk
  rw [hl] at hl'
  cases hl'
  exact ⟨hs.no_missing, hs.all_used⟩

/-- every set reordered (providers of `exBuild` rotated, value and provider lists of `exA` as they
    are): same verdict, same calls -/
def exBuild' : SetDef := { exBuild with provs := [pD, pB, pC] }

example : List.Forall₂ SetPerm exDs [exA, exBuild'] :=
  .cons (SetPerm.refl exA) (.cons ⟨rfl, rfl, rfl, by decide, .refl _, .refl _, .refl _⟩ .nil)
example : planLast exOrder [exA, exBuild'] 7 = .ok exCalls := by rfl

/-! ### one rejected variant per error class -/

/-- (a) a second source for the imported type `2` -/
example : planLast exOrder [exA, { exBuild with vals := [{ id := 11, out := 2 }] }] 7
    = .errs [Err.multi 2] := by rfl
/-- (a) a duplicate inside the imported set -/
example : planLast exOrder [{ exA with vals := [vA, { id := 11, out := 1 }] }, exBuild] 7
    = .errs [Err.importFailed 1] := by rfl
/-- (b) `B` additionally needs `5`, the field of its own result -/
example : planLast exOrder [exA, { exBuild with provs := [{ pB with args := [0, 3, 5] }, pC, pD] }] 7
    = .errs [Err.cycle [4, 5, 4]] := by rfl
/-- (c) without the binding, `3` has no source -/
example : planLast exOrder [exA, { exBuild with bnds := [] }] 7
    = .errs [Err.noProvider 3 [4, 5, 7]] := by rfl
/-- (d) one more value that nothing needs -/
example : planLast exOrder [exA, { exBuild with vals := [{ id := 11, out := 8 }] }] 7
    = .errs [Err.unusedVal 11] := by rfl
/-- (d) an imported set none of whose types is needed (request `4` from a set that does not use `exA`) -/
example : planLast exOrder [exA, { exBuild with provs := [{ pB with args := [0] }], flds := [], bnds := [] }] 4
    = .errs [Err.unusedSet 1] := by rfl

/-! ### the hypotheses of the rejection theorems are satisfiable -/

/-- the maps of the last set of a program (if accepted), as concrete terms -/
def lastMaps (order : List Ty) (ds : List SetDef) : PMap × SMap :=
  match (procSets order ds).getLast? with
  | some (_, .ok pm sm) => (pm, sm)
  | _ => ([], [])

def exDsMiss : List SetDef := [exA, { exBuild with bnds := [] }]
def exDsUnused : List SetDef := [exA, { exBuild with vals := [{ id := 11, out := 8 }] }]
def exBuildCyc : SetDef := { exBuild with provs := [{ pB with args := [0, 3, 5] }, pC, pD] }
def exBuildDup : SetDef := { exBuild with vals := [{ id := 11, out := 2 }] }
def exImpMaps : List (Nat × PMap) := [(1, (lastMaps exOrder [exA]).1)]

/-- (c): the last set is accepted, `3` is needed (`7 → 5 → 4 → 3`), not given and has no source -/
example : ∃ es, planLast exOrder exDsMiss 7 = .errs es ∧ (∃ up, Err.noProvider 3 up ∈ es) ∧
    ∀ e ∈ es, ∃ t' up', e = Err.noProvider t' up' ∧ look t' (lastMaps exOrder exDsMiss).1 = none ∧
      t' ∉ [0] ∧ Reach (lastMaps exOrder exDsMiss).1 7 t' :=
  planLast_rejects_missing (d := { exBuild with bnds := [] }) (by decide) rfl (by decide)
    (rfl : _ = some (2, SetRes.ok (lastMaps exOrder exDsMiss).1 (lastMaps exOrder exDsMiss).2))
    (.step (b := 5) ⟨_, rfl, Or.inr ⟨rfl, by decide⟩⟩ <|
      .step (b := 4) ⟨_, rfl, Or.inr ⟨rfl, by decide⟩⟩ <|
        .step (b := 3) ⟨_, rfl, Or.inr ⟨rfl, by decide⟩⟩ (.refl 3))
    (by rfl) (by decide)

/-- (d): the last set is accepted; the value `11` provides `8` only, which the request does not need -/
example : ∃ es, planLast exOrder exDsUnused 7 = .errs es ∧ es ≠ [] ∧
    ((∀ u, Reach (lastMaps exOrder exDsUnused).1 7 u →
        u ∈ [0] ∨ (look u (lastMaps exOrder exDsUnused).1).isSome) → Err.unusedVal 11 ∈ es) :=
  planLast_rejects_unused (d := { exBuild with vals := [{ id := 11, out := 8 }] }) (by decide) rfl
    (by decide)
    (rfl : _ = some (2, SetRes.ok (lastMaps exOrder exDsUnused).1 (lastMaps exOrder exDsUnused).2))
    (.val { id := 11, out := 8 } (by decide))
    (by
      rintro ⟨t, hr, -, hl⟩
      have hS := WireP.PipelineProofs.reach_subset [7, 5, 6, 4, 0, 3, 2, 1] (by decide) (by decide) t hr
      have : ∀ t ∈ [7, 5, 6, 4, 0, 3, 2, 1],
          look t (lastMaps exOrder exDsUnused).2 ≠ some (SrcId.val 11) := by decide
      exact this t hS hl)

/-- (b): the map of the last set is built and has the cycle `4 → 5 → 4` -/
example : ∃ es, planLast exOrder [exA, exBuildCyc] 7 = .errs es ∧ ∃ tr, Err.cycle tr ∈ es :=
  have ⟨es, h1, h2, _⟩ := planLast_rejects_cycle (ds := [exA, exBuildCyc]) (d := exBuildCyc) (impMaps := exImpMaps)
    (pm := (buildProviderMap exBuildCyc.args exImpMaps exBuildCyc.provs exBuildCyc.vals
      exBuildCyc.flds exBuildCyc.bnds).toOption.get!.1)
    (sm := (buildProviderMap exBuildCyc.args exImpMaps exBuildCyc.provs exBuildCyc.vals
      exBuildCyc.flds exBuildCyc.bnds).toOption.get!.2)
    7 rfl (by decide) rfl rfl
    ⟨4, .cons (b := 5) (by decide) (.single (by decide))⟩
  ⟨es, h1, h2⟩

/-- (a): the imports of the last set are fine and `2` has two sources (imported and value `11`) -/
example : ∃ es t, planLast exOrder [exA, exBuildDup] 7 = .errs es ∧ Err.multi t ∈ es :=
  planLast_rejects_dup_named (ds := [exA, exBuildDup]) (d := exBuildDup) (impMaps := exImpMaps)
    7 rfl rfl (by decide) (by decide)

/-- (a): the imported set (position 0) has a duplicate of its own -/
example : ∃ es, planLast exOrder [{ exA with vals := [vA, { id := 11, out := 1 }] }, exBuild] 7 = .errs es ∧
    Err.importFailed 1 ∈ es :=
  planLast_rejects_dup_import (dj := { exA with vals := [vA, { id := 11, out := 1 }] }) (j := 0)
    (impMaps := []) 7 rfl rfl (by decide) rfl (by decide)

/-! ## deviations from the brief

* `SrcTotal` in `planLast_hyps` is `WireP.Solve.SrcTotal` (same text as `WireP.PMapInv.SrcTotal`).
* `horder` of `planLast_ok_spec` and of the rejection theorems is `OrderCovers order ds`, a condition
  on the input (`planLast_ok_spec'` in `PipelineSpec.lean` takes the condition on the last map).
* `planLast_rejects` is one theorem per defect class (`…_missing`, `…_unused`, `…_cycle`, `…_dup`,
  `…_dup_named`, `…_import`, `…_dup_import`, `procSets_err_propagates`).
* `planLast_rejects_unused` promises the item's own diagnostic only if no needed type is missing
  (`solve` reports missing types first and stops); the verdict is `.errs` in any case.
* `all_used` is stated with source identities; `items_used` turns it into a statement about the
  items under `DistinctIds` (without distinct identities it is false in the model: two providers
  with the same `id`, one of them needed, are both "used" for `verifyArgsUsed`).
* `planLast_accepts` is proved for any number of sets; its hypotheses about needed types are
  quantified over the (unique) accepted map of the last set.
* `planLast_perm` reorders the items of all sets; verdict and call list are compared in the form
  `= .ok calls ↔ = .ok calls` (error lists may be permuted, e.g. two `multi` diagnostics). -/

end WireP.Pipeline
