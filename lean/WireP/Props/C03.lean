import WireV.Emit
import WireV.Generated.Tables
import WireP.Lemmas.EmitProofs
/-! # C03 — a failing provider aborts the injector, returns its error, unwinds cleanups

Model: `WireV.emitInj` (what `injectPass`/`funcProviderCall` emit, by position) and `WireV.exec`
(its execution under a fault plan `fails : position → Bool`).  Tied to the code by (a) the IR of
every generated injector (error-branch cleanup lists, returned values) and (b) run-time traces of
instrumented providers under every single-failure plan — both compared with this model's output.
The *name* of the returned error variable is the naming layer's business (C14; defect D1). -/
namespace WireP.C03
open WireV WireP.EmitProofs

/-- **Abort, unwind, return the error.**  For every call list, every fault plan, and the first
    failing error-capable provider `c` (at position `|pre|`): exactly the provider functions up to
    and including `c` are called; then the cleanups of the cleanup-returning providers *before* `c`
    run, newest first; nothing else happens; the injector returns `c`'s error, and a nil cleanup iff
    it declares one. -/
theorem fail_trace_and_result (fails : Nat → Bool) (sc se : Bool) (pre post : List Call) (c : Call)
    (hck : isFn c = true) (hce : c.hasErr = true) (hcf : fails pre.length = true)
    (hpre : NoFail fails 0 pre) :
    runInj fails sc se (pre ++ c :: post) =
      ((fnPos 0 pre ++ [pre.length]).map Ev.call ++ (clPos 0 pre).reverse.map Ev.cleanup,
       Outcome.failed pre.length sc) :=
  run_fail fails sc se pre post c hck hce hcf hpre

theorem clPos_lt (pos : Nat) (cs : List Call) : ∀ p ∈ clPos pos cs, pos ≤ p ∧ p < pos + cs.length := by
  induction cs generalizing pos with
  | nil => simp [clPos]
  | cons x xs ih =>
    intro p hp
    simp only [clPos, List.mem_append] at hp
    rcases hp with hp | hp
    · split at hp
      · simp at hp; subst hp; simp
      · simp at hp
    · have := ih (pos + 1) p hp
      simp; omega

/-- the failing provider's own cleanup result is never invoked, nor is any later one -/
theorem fail_own_cleanup_not_run (pre : List Call) : ∀ p ∈ (clPos 0 pre).reverse, p < pre.length := by
  intro p hp
  have := clPos_lt 0 pre p (by simpa using hp)
  omega

theorem clPos_sorted (pos : Nat) (cs : List Call) : (clPos pos cs).Pairwise (· < ·) := by
  induction cs generalizing pos with
  | nil => simp [clPos]
  | cons x xs ih =>
    simp only [clPos]
    rw [List.pairwise_append]
    refine ⟨by split <;> simp, ih (pos + 1), ?_⟩
    intro a ha b hb
    have := clPos_lt (pos + 1) xs b hb
    split at ha
    · simp at ha; omega
    · simp at ha

/-- each earlier cleanup runs exactly once, in reverse order of acquisition -/
theorem fail_each_once_reverse (pre : List Call) :
    ((clPos 0 pre).reverse).Pairwise (· > ·) := by
  rw [List.pairwise_reverse]
  exact clPos_sorted 0 pre

/-- the cleanups that run are exactly those of the cleanup-returning provider functions before `c` -/
theorem mem_clPos (pos : Nat) (cs : List Call) (p : Nat) :
    p ∈ clPos pos cs ↔ ∃ c, cs[p - pos]? = some c ∧ pos ≤ p ∧ isFn c = true ∧ c.hasCleanup = true := by
  induction cs generalizing pos with
  | nil => simp [clPos]
  | cons x xs ih =>
    simp only [clPos, List.mem_append, ih]
    constructor
    · rintro (h | ⟨c, hc, hle, h1, h2⟩)
      · split at h
        · rename_i hx
          simp at h; subst h
          simp at hx
          exact ⟨x, by simp, by omega, hx.1, hx.2⟩
        · simp at h
      · refine ⟨c, ?_, by omega, h1, h2⟩
        have : p - pos = (p - (pos + 1)) + 1 := by omega
        rw [this]; simpa using hc
    · rintro ⟨c, hc, hle, h1, h2⟩
      by_cases hp : p = pos
      · subst hp
        simp at hc; subst hc
        left; simp [h1, h2]
      · right
        refine ⟨c, ?_, by omega, h1, h2⟩
        have : p - pos = (p - (pos + 1)) + 1 := by omega
        rw [this] at hc; simpa using hc

/-- `inject` refuses to emit unless the injector declares every result the planned calls need;
    an injector may declare more than it needs (C09) -/
theorem needs_sig (sc se : Bool) (calls : List Call) :
    sigErrors sc se calls = [] ↔ ∀ c ∈ calls, (c.hasCleanup = true → sc = true) ∧ (c.hasErr = true → se = true) := by
  unfold sigErrors
  simp only [List.flatMap_eq_nil_iff]
  constructor
  · intro h c hc
    obtain ⟨i, hi, rfl⟩ := List.mem_iff_getElem.mp hc
    have := h (calls[i], i) (by
      rw [List.mem_iff_getElem]
      exact ⟨i, by simpa using hi, by simp⟩)
    simp only [List.append_eq_nil_iff] at this
    obtain ⟨h1, h2⟩ := this
    constructor
    · intro hcl; cases sc <;> simp_all
    · intro he; cases se <;> simp_all
  · intro h ci hci
    have hc : ci.1 ∈ calls := by
      have := List.mem_zipIdx hci  -- ⟨_, _, ci.1 = calls[ci.2 - 0]⟩
      simp at this
      rw [this.2]; exact List.getElem_mem _
    obtain ⟨h1, h2⟩ := h ci.1 hc
    cases hcl : ci.1.hasCleanup <;> cases he : ci.1.hasErr <;> cases sc <;> cases se <;> simp_all

-- non-vacuity: four providers; #0 and #1 return cleanups, #2 returns a cleanup and fails
example : runInj (fun p => p == 2) true true
    [{ kind := .func, out := 10, srcId := 1, hasCleanup := true },
     { kind := .func, out := 11, srcId := 2, hasCleanup := true, hasErr := true },
     { kind := .func, out := 12, srcId := 3, hasCleanup := true, hasErr := true },
     { kind := .func, out := 13, srcId := 4 }]
    = ([Ev.call 0, Ev.call 1, Ev.call 2, Ev.cleanup 1, Ev.cleanup 0], Outcome.failed 2 true) := by decide

/-! ## the zero value next to the error (`zeroValue`, regenerated tables)

The injector returns "the zero value of its result type": which literal that is depends on the kind of the underlying type.
The tables are read off `zeroValue` on every run; the expectation is Go's (spec: "The zero value"). -/
section zero
open WireV.Generated

/-- Go's zero value of a basic kind, as a literal, by the kind's name and go/types flags -/
def goZeroLit (kf : String × List String) : String :=
  if kf.2.contains "IsBoolean" then "false"
  else if kf.2.contains "IsString" then "\"\""
  else if kf.1 == "UnsafePointer" then "nil"
  else "0"

/-- what `zeroValue` emits for a basic kind: the literal of the first branch whose condition mentions one of its flags / its kind -/
def emittedZero (kf : String × List String) : Option String :=
  (zeroBasicReturns.find? (fun c => c.1.any (fun n => kf.2.contains n || n == kf.1))).map (·.2)

/-- **every typed basic kind gets its own zero literal** (`false`, `0`, `""`, `nil` for `unsafe.Pointer`) -/
theorem zero_basic_right : (basicKinds.filter (fun kf => emittedZero kf != some (goZeroLit kf))) = [] := by decide

/-- composite kinds: `T{}` for arrays and structs, `nil` for everything that can be nil -/
theorem zero_cases_right :
    (zeroCases.filter (fun c => c.1 != "Basic" &&
      c.2 != (if c.1 == "Array" || c.1 == "Struct" then "lit" else "nil"))) = [] ∧
    (["Array", "Struct", "Chan", "Interface", "Map", "Pointer", "Signature", "Slice"].filter
      (fun k => !(zeroCases.map (·.1)).contains k)) = [] := by decide

example : emittedZero ("Bool", ["IsBoolean"]) = some "false" ∧ emittedZero ("Float64", ["IsFloat"]) = some "0" ∧
    emittedZero ("String", ["IsString"]) = some "\"\"" ∧ emittedZero ("UnsafePointer", []) = some "nil" := by decide
example : basicKinds.length = 18 := by decide
/-- the check notices a swapped literal -/
example : ((([(["IsBoolean"], "0")] : List (List String × String)).find? (fun c => c.1.any (fun n => ["IsBoolean"].contains n))).map (·.2))
    ≠ some (goZeroLit ("Bool", ["IsBoolean"])) := by decide

end zero

end WireP.C03
