import WireV.Value
import WireV.Tables
import WireP.Lemmas.ValueProofs
/-! # C13 — `wire.Value` expressions never call a function or receive from a channel

Model: `WireV.whitelistOk` (the `ast.Inspect` walk of `processValue`, parametrised by the facts
`WireV.WL` extracted from the source: the `CallExpr` rule, the list of node kinds accepted outright,
whether `<-` is rejected, whether `default:` rejects), `WireV.evaluatesCall`, `WireV.hasFuncLit`.
The table theorems (`current_*`) are closed by `decide` over the regenerated `WireV.Generated`
and break when the source changes. -/
namespace WireP.C13
open WireV

/-- with the `isType` rule for calls and `<-` rejected, an accepted expression evaluates no call
    (other than conversions) and no channel receive, anywhere in the tree -/
theorem whitelist_sound (w : WL) (e : VExpr) :
    w.rule = "isType" → w.arrowRejected = true → whitelistOk w e = true → evaluatesCall e = false :=
  WireP.ValueProofs.whitelist_sound w e

/-- with a rejecting `default:` and `FuncLit` not whitelisted, an accepted expression contains no
    function literal -/
theorem whitelist_no_funclit (w : WL) (e : VExpr) :
    w.defaultRejects = true → "FuncLit" ∉ w.good → whitelistOk w e = true → hasFuncLit e = false :=
  WireP.ValueProofs.whitelist_no_funclit w e

/-- defect D15 (fixed in the source): under the former rule `"signature"` (reject only callees whose
    type is a `*types.Signature`, and builtins) the call of a value of a *named* function type is
    accepted although evaluating it calls a function -/
theorem whitelist_unsound_signature_rule :
    ∃ e, whitelistOk { currentWL with rule := "signature" } e = true ∧ evaluatesCall e = true :=
  ⟨.call .namedFunc (.node "Ident" []) [], by decide⟩

/-! ## the current source -/

theorem current_rule : Generated.valueCallRule = "isType" := by decide
theorem current_arrow : Generated.valueUnaryArrowRejected = true := by decide
theorem current_default : Generated.valueDefaultRejects = true := by decide
theorem current_no_funclit : "FuncLit" ∉ Generated.valueGood := by decide
theorem current_no_call_kinds : "CallExpr" ∉ Generated.valueGood ∧ "UnaryExpr" ∉ Generated.valueGood := by decide

/-- what `processValue` of the current source accepts neither calls, nor receives, nor contains a
    function literal -/
theorem processValue_sound (e : VExpr) :
    processValueOk e = true → evaluatesCall e = false ∧ hasFuncLit e = false := fun h =>
  ⟨whitelist_sound currentWL e current_rule current_arrow h,
   whitelist_no_funclit currentWL e current_default current_no_funclit h⟩

/-! ## non-vacuity -/

/-- an accepted, non-trivial expression: `T(x.f) + *p` with a conversion and a non-arrow unary -/
example : processValueOk
    (.node "BinaryExpr" [.call .typeExpr (.node "Ident" []) [.node "SelectorExpr" [.node "Ident" [], .node "Ident" []]],
                         .unary false (.node "StarExpr" [.node "Ident" []])]) = true := by decide

/-- rejected: a receive, a function call, a method value call, a builtin, a function literal -/
example : processValueOk (.unary true (.node "Ident" [])) = false := by decide
example : processValueOk (.call .signature (.node "Ident" []) []) = false := by decide
example : processValueOk (.call .namedFunc (.node "Ident" []) []) = false := by decide
example : processValueOk (.call .builtin (.node "Ident" []) [.node "Ident" []]) = false := by decide
example : processValueOk (.node "FuncLit" [.node "FuncType" [], .node "BlockStmt" []]) = false := by decide
/-- rejection is deep: a call buried in a composite literal inside a conversion -/
example : processValueOk (.call .typeExpr (.node "Ident" [])
    [.node "CompositeLit" [.node "Ident" [], .node "KeyValueExpr" [.node "Ident" [], .call .signature (.node "Ident" []) []]]]) = false := by
  decide
/-- the hypotheses of `whitelist_sound` are needed: without the arrow test a receive is accepted -/
example : whitelistOk { currentWL with arrowRejected := false } (.unary true (.node "Ident" [])) = true
    ∧ evaluatesCall (.unary true (.node "Ident" [])) = true := by decide
/-- … and without a rejecting default a function literal is accepted -/
example : whitelistOk { currentWL with defaultRejects := false } (.node "FuncLit" []) = true
    ∧ hasFuncLit (.node "FuncLit" []) = true := by decide

/-! ## the written expression reaches the generated file unabridged (`copyAST`, regenerated tables) -/

/-- every expression-level node kind has a case in `copyAST`, and that case carries over every child, child list and
    value field (operator, literal text, the `Slice3` flag and `Max` of a full slice expression, `Ellipsis`, …) -/
theorem value_copy_complete :
    (exprKinds.filter (fun k => !(Generated.copyCases.map (·.1)).contains k)) = [] ∧
    (copyMissing.filter (fun kf => exprKinds.contains kf.1)) = [] := by decide

example : ("SliceExpr", "child") ∈ ((Generated.astNodes.find? (fun c => c.1 == "SliceExpr")).map
    (fun c => c.2.filter (·.1 == "Max") |>.map (fun f => (c.1, f.2)))).getD [] := by decide

end WireP.C13
