import WireV.Value
import WireV.Tables
import WireP.Lemmas.ValueProofs
import WireP.Lemmas.AccessProofs
/-! # C13 — `wire.Value` expressions never call a function or receive from a channel

Model: `WireV.whitelistOk` (the `ast.Inspect` walk of `processValue`, parametrised by the facts
`WireV.WL` extracted from the source: the `CallExpr` rule, the list of node kinds accepted outright,
whether `<-` is rejected, whether `default:` rejects), `WireV.evaluatesCall`, `WireV.hasFuncLit`.
The table theorems (`current_*`) are closed by `decide` over the regenerated `WireV.Generated`
and break when the source changes. -/
namespace WireP.C13
open WireV

/-- with the `isType` rule for calls and `<-` rejected, an accepted expression evaluates no call
    (other than conversions) and no channel receive, anywhere in the tree -/
theorem whitelist_sound (w : WL) (e : VExpr) :
    w.rule = "isType" → w.arrowRejected = true → whitelistOk w e = true → evaluatesCall e = false :=
  WireP.ValueProofs.whitelist_sound w e

/-- with a rejecting `default:` and `FuncLit` not whitelisted, an accepted expression contains no
    function literal -/
theorem whitelist_no_funclit (w : WL) (e : VExpr) :
    w.defaultRejects = true → "FuncLit" ∉ w.good → whitelistOk w e = true → hasFuncLit e = false :=
  WireP.ValueProofs.whitelist_no_funclit w e

/-- defect D15 (fixed in the source): under the former rule `"signature"` (reject only callees whose
    type is a `*types.Signature`, and builtins) the call of a value of a *named* function type is
    accepted although evaluating it calls a function -/
theorem whitelist_unsound_signature_rule :
    ∃ e, whitelistOk { currentWL with rule := "signature" } e = true ∧ evaluatesCall e = true :=
  ⟨.call .namedFunc (.node "Ident" []) [], by decide⟩

/-! ## the current source -/

theorem current_rule : Generated.valueCallRule = "isType" := by decide
theorem current_arrow : Generated.valueUnaryArrowRejected = true := by decide
theorem current_default : Generated.valueDefaultRejects = true := by decide
theorem current_no_funclit : "FuncLit" ∉ Generated.valueGood := by decide
theorem current_no_call_kinds : "CallExpr" ∉ Generated.valueGood ∧ "UnaryExpr" ∉ Generated.valueGood := by decide

/-- what `processValue` of the current source accepts neither calls, nor receives, nor contains a
    function literal -/
theorem processValue_sound (e : VExpr) :
    processValueOk e = true → evaluatesCall e = false ∧ hasFuncLit e = false := fun h =>
  ⟨whitelist_sound currentWL e current_rule current_arrow h,
   whitelist_no_funclit currentWL e current_default current_no_funclit h⟩

/-! ## non-vacuity -/

/-- an accepted, non-trivial expression: `T(x.f) + *p` with a conversion and a non-arrow unary -/
example : processValueOk
    (.node "BinaryExpr" [.call .typeExpr (.node "Ident" []) [.node "SelectorExpr" [.node "Ident" [], .node "Ident" []]],
                         .unary false (.node "StarExpr" [.node "Ident" []])]) = true := by decide

/-- rejected: a receive, a function call, a method value call, a builtin, a function literal -/
example : processValueOk (.unary true (.node "Ident" [])) = false := by decide
example : processValueOk (.call .signature (.node "Ident" []) []) = false := by decide
example : processValueOk (.call .namedFunc (.node "Ident" []) []) = false := by decide
example : processValueOk (.call .builtin (.node "Ident" []) [.node "Ident" []]) = false := by decide
example : processValueOk (.node "FuncLit" [.node "FuncType" [], .node "BlockStmt" []]) = false := by decide
/-- rejection is deep: a call buried in a composite literal inside a conversion -/
example : processValueOk (.call .typeExpr (.node "Ident" [])
    [.node "CompositeLit" [.node "Ident" [], .node "KeyValueExpr" [.node "Ident" [], .call .signature (.node "Ident" []) []]]]) = false := by
  decide
/-- the hypotheses of `whitelist_sound` are needed: without the arrow test a receive is accepted -/
example : whitelistOk { currentWL with arrowRejected := false } (.unary true (.node "Ident" [])) = true
    ∧ evaluatesCall (.unary true (.node "Ident" [])) = true := by decide
/-- … and without a rejecting default a function literal is accepted -/
example : whitelistOk { currentWL with defaultRejects := false } (.node "FuncLit" []) = true
    ∧ hasFuncLit (.node "FuncLit" []) = true := by decide

/-! ## the written expression reaches the generated file unabridged (`copyAST`, regenerated tables) -/

/-- every expression-level node kind has a case in `copyAST`, and that case carries over every child, child list and
    value field (operator, literal text, the `Slice3` flag and `Max` of a full slice expression, `Ellipsis`, …) -/
theorem value_copy_complete :
    (exprKinds.filter (fun k => !(Generated.copyCases.map (·.1)).contains k)) = [] ∧
    (copyMissing.filter (fun kf => exprKinds.contains kf.1)) = [] := by decide

example : ("SliceExpr", "child") ∈ ((Generated.astNodes.find? (fun c => c.1 == "SliceExpr")).map
    (fun c => c.2.filter (·.1 == "Max") |>.map (fun f => (c.1, f.2)))).getD [] := by decide

/-! ## expressions that mention identifiers the injector's package cannot access (`accessibleFrom`, `WireV.Access`) -/
section access
open WireP.Access

/-- **Accepted iff every node is nameable from the target package**: no unexported identifier or positionally set unexported
    field of another package, nothing of a package the target may not import (internal-package rule), nothing function-local. -/
theorem accessible_iff (want : Nat) (nodes : List ANode) :
    accessibleFrom want nodes = none ↔ ∀ n ∈ nodes, NodeOk want n :=
  accessible_none_iff want nodes

/-- an accepted expression mentions no unexported identifier of another package -/
theorem accessible_no_foreign_unexported {want : Nat} {nodes : List ANode} (h : accessibleFrom want nodes = none)
    (i : AIdent) (hi : .ident i ∈ nodes) (hs : i.scope ≠ .pkgName ∧ i.scope ≠ .noPkg) (hp : i.pkg ≠ want) :
    i.exported = true ∧ i.importable = true ∧ i.scope ≠ .local := by
  have := (accessible_none_iff want nodes).1 h _ hi
  rcases this with h1 | h1 | ⟨hl, h2 | h2⟩
  · exact absurd h1 hs.1
  · exact absurd h1 hs.2
  · exact absurd h2 hp
  · exact ⟨h2.1, h2.2, hl⟩

/-- an accepted expression sets no unexported field of another package through a positional literal -/
theorem accessible_no_foreign_positional {want : Nat} {nodes : List ANode} (h : accessibleFrom want nodes = none)
    (fs : List AField) (hl : .lit fs ∈ nodes) (f : AField) (hf : f ∈ fs) (hp : f.pkg ≠ want) : f.exported = true := by
  rcases (accessible_none_iff want nodes).1 h _ hl f hf with he | he
  · exact he
  · exact absurd he hp

/-- a rejection names the first offending node of the walk -/
theorem accessible_reports_first (want : Nat) (nodes : List ANode) (e : AErr) (h : accessibleFrom want nodes = some e) :
    ∃ pre n post, nodes = pre ++ n :: post ∧ (∀ m ∈ pre, NodeOk want m) ∧ nodeErr want n = some e :=
  accessible_some_first want nodes e h

/-! non-vacuity: `lib.Exp + lib.T{X: 1}.X` is fine from package 0; `unexp`, a positional `T{1, 2}` of package 1, a local and an
identifier of an internal package are not -/
example : accessibleFrom 0 [.ident ⟨1, false, .pkgName, 9, true⟩, .ident ⟨2, true, .pkgScope, 1, true⟩, .lit [],
    .ident ⟨3, true, .pkgScope, 1, true⟩, .ident ⟨4, true, .member, 1, true⟩] = none := by decide
example : accessibleFrom 0 [.ident ⟨2, true, .pkgScope, 1, true⟩, .ident ⟨5, false, .pkgScope, 1, true⟩] = some (.unexported 5) := by decide
example : accessibleFrom 0 [.lit [⟨4, true, 1⟩, ⟨6, false, 1⟩]] = some (.setsUnexported 6) := by decide
example : accessibleFrom 1 [.lit [⟨4, true, 1⟩, ⟨6, false, 1⟩]] = none := by decide
example : accessibleFrom 0 [.ident ⟨7, false, .local, 0, true⟩] = some (.notPkgScope 7) := by decide
example : accessibleFrom 0 [.ident ⟨8, true, .pkgScope, 2, false⟩] = some (.internal 8) := by decide

end access

end WireP.C13
