import WireV.Sets
namespace WireP.C02
end WireP.C02
