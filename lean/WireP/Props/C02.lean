import WireP.Lemmas.SolveExample
/-! # C02 — the planner emits a correct, complete, minimal, well-ordered call list

Property theorems only; helper lemmas live in `WireP/Lemmas/Solve*.lean`.  The model is
`WireV.svStep` / `svIter` / `solve` (lean/WireV/Solve.lean), a transcription of the stack machine
in `internal/wire/analyze.go:solve`.  Vocabulary (`dep`, `Reach`, `Acyclic`, `ArgsGiven`,
`ConcClosed`, `final`, `produced`, `resolveTy`, the bundle `H`) is in
`WireP/Lemmas/SolveDefs.lean`, with the text of the brief.

Deviations from the brief (see REPORT_C.md): statements that speak about the *value* held by a
variable need `GivenSelf pm given` (a given type is not the key of an interface binding), which
`H` does not imply — counterexample `pmA` below; those theorems are named `…_partial`.  Both extra
hypotheses follow from `GivenArgs` (every given type is an `.arg` entry), which is what
`buildProviderMap args …` guarantees for `given = args`. -/
namespace WireP.C02
open WireV WireP.Solve

/-- **Termination within the fuel.**  On an acyclic map the stack is empty when `solve` inspects
    the machine: `solve` never answers `.stuck`. -/
theorem solve_terminates {pm : PMap} {sm : SMap} {given : List Ty} {out : Ty} (hH : H pm given) :
    (final pm sm given out).stk = [] :=
  WireP.Solve.solve_terminates hH

/-- the same, as a statement about `solve` -/
theorem solve_not_stuck {pm : PMap} {sm : SMap} {d : SetDef} {impIds : List Nat}
    {given : List Ty} {out : Ty} (hH : H pm given) :
    solve pm sm d impIds given out ≠ .stuck :=
  fun h => WireP.Solve.solve_stuck_iff.mp h (WireP.Solve.solve_terminates hH)

/-- **Step bound.**  The stack is already empty after `n` steps for some `n < svFuel pm`
    (`svFuel pm = 2 + Σ_keys (1 + degree)` is sufficient with one unit to spare). -/
theorem solve_steps {pm : PMap} {sm : SMap} {given : List Ty} {out : Ty} (hH : H pm given) :
    ∃ n, n + 1 ≤ svFuel pm ∧ (svIter pm sm given.length n (svInit given out)).stk = [] :=
  WireP.Solve.solve_steps hH

/-- **Arguments are sound and defined before use.**  Each call is for a concrete key of the map;
    it has one argument per dependency; argument `j` is a variable defined *earlier*
    (`a < given.length + p`) and holds the value of the one source of dependency `j`'s type,
    bindings resolved to the concrete type.  (`c.ins` is the provider's parameter list for
    providers and values; for a field call the model leaves `ins` empty — see `field_ins`.) -/
theorem solve_args_sound_partial {pm : PMap} {sm : SMap} {given : List Ty} {out : Ty}
    (hH : H pm given) (hg : GivenSelf pm given) :
    ∀ (p : Nat) c, (final pm sm given out).calls[p]? = some c →
      ∃ pt, look c.out pm = some pt ∧ pt.t = c.out ∧
        ((∀ f, pt.src ≠ .fld f) → c.ins = depsOf pt.src) ∧
        c.args.length = (depsOf pt.src).length ∧
        ∀ (j : Nat) a d, c.args[j]? = some a → (depsOf pt.src)[j]? = some d →
          a < given.length + p ∧
          produced given (final pm sm given out).calls a = some (resolveTy pm d) :=
  WireP.Solve.solve_args_sound_partial hH.concClosed hH.givenNodup hg

/-- **Payload.**  Every call is `mkCall` of its own output type, the map entry of that type
    (never an injector argument) and its own argument list: kind, source identity and flags are
    those of the one source of the type. -/
theorem solve_call_payload {pm : PMap} {sm : SMap} {given : List Ty} {out : Ty} (hH : H pm given) :
    ∀ c ∈ (final pm sm given out).calls, ∃ pt, look c.out pm = some pt ∧ pt.t = c.out ∧
      (∀ i, pt.src ≠ .arg i) ∧ mkCall c.out pt.src c.args = some c :=
  WireP.Solve.solve_call_payload hH.concClosed hH.givenNodup

/-- **No type is built twice**, and no given type is built at all. -/
theorem solve_outs_nodup {pm : PMap} {sm : SMap} {given : List Ty} {out : Ty} (hH : H pm given) :
    ((final pm sm given out).calls.map (·.out)).Nodup ∧
    ∀ c ∈ (final pm sm given out).calls, c.out ∉ given :=
  WireP.Solve.solve_outs_nodup hH.concClosed hH.givenNodup

/-- **Minimality.**  Only what the requested type transitively needs is built. -/
theorem solve_only_needed {pm : PMap} {sm : SMap} {given : List Ty} {out : Ty} (hH : H pm given) :
    ∀ c ∈ (final pm sm given out).calls, Reach pm out c.out :=
  WireP.Solve.solve_only_needed hH.concClosed hH.givenNodup

/-- **The result.**  Without errors the requested type is indexed with a variable, and that
    variable holds the requested type (resolved through a binding). -/
theorem solve_result_partial {pm : PMap} {sm : SMap} {given : List Ty} {out : Ty}
    (hH : H pm given) (hg : GivenSelf pm given) (he : (final pm sm given out).errs = []) :
    ∃ n, look out (final pm sm given out).index = some (some n) ∧
      produced given (final pm sm given out).calls n = some (resolveTy pm out) :=
  WireP.Solve.solve_result_partial hH hg he

/-- what `injectPass` returns: the output of the last call is the requested type -/
theorem solve_result_last {pm : PMap} {sm : SMap} {given : List Ty} {out : Ty} (hH : H pm given)
    (hc : (final pm sm given out).calls ≠ []) (he : (final pm sm given out).errs = []) :
    ((final pm sm given out).calls.getLast?).map (·.out) = some (resolveTy pm out) :=
  WireP.Solve.solve_result_last hH hc he

/-- the two extra hypotheses used by the `…_partial` theorems (here and in C06 / C08 / C11) both
    follow from what `buildProviderMap args …` guarantees for `given = args` -/
theorem givenArgs_suffices {pm : PMap} {given : List Ty} (h : GivenArgs pm given) :
    GivenLeaf pm given ∧ GivenSelf pm given :=
  ⟨h.leaf, h.leaf.self⟩

/-! ## non-vacuity: a diamond over `2` with a binding `3 ↦ 2` and a field `7` of `6` -/

open WireP.Solve.Ex

example : H pmEx [0] := hEx
example : GivenSelf pmEx [0] := leafEx.self
example : GivenArgs pmEx [0] := by intro g hg; simp at hg; subst hg; exact ⟨0, rfl⟩
example : svFuel pmEx = 18 := by decide
example : (final pmEx smEx [0] 7).stk = [] ∧ (final pmEx smEx [0] 7).errs = [] := by decide
example : (final pmEx smEx [0] 7).calls.map (·.out) = [1, 2, 4, 5, 6, 7] := by decide
example : (final pmEx smEx [0] 7).calls.map (·.args) = [[], [0, 1], [2], [2], [3, 4], [5]] := by
  decide
example : (final pmEx smEx [0] 7).calls.map (·.kind) =
    [.value, .func, .func, .func, .struct, .field] := by decide
example : look 7 (final pmEx smEx [0] 7).index = some (some 6) ∧
    produced [0] (final pmEx smEx [0] 7).calls 6 = some 7 := by decide
example : solve pmEx smEx dEx [] [0] 7 = .ok (final pmEx smEx [0] 7).calls := rfl

/-- the brief's `c.ins = depsOf pt.src` fails for a field call: `mkCall` leaves `ins` empty -/
example : ((final pmEx smEx [0] 7).calls[5]?).map (fun c => (c.out, c.kind, c.ins)) =
    some (7, .field, []) ∧ (look 7 pmEx).map (fun pt => depsOf pt.src) = some [6] := by decide

/-- `GivenSelf` cannot be dropped from `solve_args_sound_partial`: with a given type `3` that is
    the key of a binding `3 ↦ 2`, `H` holds, the call for `4` receives variable `0`, which holds
    the given `3`, whereas the brief's statement asks for `resolveTy pmA 3 = 2`. -/
example : H pmA [3] ∧
    (final pmA [] [3] 4).calls.map (fun c => (c.out, c.args)) = [(4, [0])] ∧
    produced [3] (final pmA [] [3] 4).calls 0 = some 3 ∧ resolveTy pmA 3 = 2 :=
  ⟨hA, by decide, by decide, by decide⟩

/-- … nor from `solve_result_partial` -/
example : H pmA [3] ∧ (final pmA [] [3] 3).errs = [] ∧
    look 3 (final pmA [] [3] 3).index = some (some 0) ∧
    produced [3] (final pmA [] [3] 3).calls 0 = some 3 ∧ resolveTy pmA 3 = 2 :=
  ⟨hA, by decide, by decide, by decide, by decide⟩

end WireP.C02
