import WireP.Lemmas.PipelineDefs
import WireP.Lemmas.SolveUsed
/-! # Pipeline, part 3 — `solve`-level facts the pipeline theorems need on top of Task C

* every verdict of `solve` in terms of the final machine state (`solve_errs_of_errs`, …);
* a missing type is *named* by an error (`missing_named_in_errs`), not just "some error exists";
* `DirectItem`: the five kinds of direct items of a set, with their source identity and their
  "unused" diagnostic, so that `verifyArgsUsed` can be treated uniformly. -/
namespace WireP.PipelineProofs
open WireV WireP.Pipeline WireP.Solve

/-! ## `solve` unfolded -/

theorem solve_eq (pm : PMap) (sm : SMap) (d : SetDef) (impIds : List Nat) (given : List Ty) (out : Ty) :
    solve pm sm d impIds given out =
      (if (final pm sm given out).stk ≠ [] then SolveOut.stuck
       else if (final pm sm given out).errs ≠ [] then SolveOut.errs (final pm sm given out).errs
       else if verifyArgsUsed d impIds (final pm sm given out).used ≠ [] then
         SolveOut.errs (verifyArgsUsed d impIds (final pm sm given out).used)
       else SolveOut.ok (final pm sm given out).calls) := rfl

theorem solve_errs_of_errs {pm : PMap} {sm : SMap} {d : SetDef} {impIds : List Nat} {given : List Ty}
    {out : Ty} (hs : (final pm sm given out).stk = []) (he : (final pm sm given out).errs ≠ []) :
    solve pm sm d impIds given out = .errs (final pm sm given out).errs := by
  rw [solve_eq, if_neg (by simp [hs]), if_pos he]

theorem solve_errs_of_unused {pm : PMap} {sm : SMap} {d : SetDef} {impIds : List Nat} {given : List Ty}
    {out : Ty} (hs : (final pm sm given out).stk = []) (he : (final pm sm given out).errs = [])
    (hu : verifyArgsUsed d impIds (final pm sm given out).used ≠ []) :
    solve pm sm d impIds given out = .errs (verifyArgsUsed d impIds (final pm sm given out).used) := by
  rw [solve_eq, if_neg (by simp [hs]), if_neg (by simp [he]), if_pos hu]

theorem solve_ok_of {pm : PMap} {sm : SMap} {d : SetDef} {impIds : List Nat} {given : List Ty}
    {out : Ty} (hs : (final pm sm given out).stk = []) (he : (final pm sm given out).errs = [])
    (hu : verifyArgsUsed d impIds (final pm sm given out).used = []) :
    solve pm sm d impIds given out = .ok (final pm sm given out).calls := by
  rw [solve_eq, if_neg (by simp [hs]), if_neg (by simp [he]), if_neg (by simp [hu])]

/-! ## a missing type is named -/

/-- every indexed type without provider is a given type or is named by an error -/
def NamedInv (pm : PMap) (given : List Ty) (s : SvSt) : Prop :=
  ∀ u, look u pm = none → (look u s.index).isSome → u ∈ given ∨ ∃ up, Err.noProvider u up ∈ s.errs

theorem namedInv_init (pm : PMap) (given : List Ty) (out : Ty) : NamedInv pm given (svInit given out) :=
  fun _ _ h => Or.inl (init_isSome h)

theorem namedInv_step {pm : PMap} {sm : SMap} {ng : Nat} {given : List Ty} {s s' : SvSt}
    (hI : NamedInv pm given s) (h : Step pm sm ng s s') : NamedInv pm given s' := by
  -- an index extension by a key of the map is irrelevant; errors only grow
  have ext : ∀ (t : Ty) (v : Idx) (errs' : List Err), (∃ l, errs' = s.errs ++ l) →
      ((look t pm).isSome ∨ ∃ up, Err.noProvider t up ∈ errs') →
      ∀ u, look u pm = none → (look u ((t, v) :: s.index)).isSome →
        u ∈ given ∨ ∃ up, Err.noProvider u up ∈ errs' := by
    intro t v errs' ⟨l, hl⟩ ht u hu hi
    by_cases e : u = t
    · subst e
      rcases ht with ht | ht
      · rw [hu] at ht; cases ht
      · exact Or.inr ht
    · rw [look_cons_ne _ _ e] at hi
      rcases hI u hu hi with h | ⟨up, h⟩
      · exact Or.inl h
      · exact Or.inr ⟨up, by rw [hl]; exact List.mem_append_left _ h⟩
  cases h with
  | pop curr rest i hs hli => exact hI
  | noProv curr rest hs hli hlp =>
    exact ext curr.t none _ ⟨_, rfl⟩ (Or.inr ⟨curr.up, by simp⟩)
  | bindPush curr rest pt hs hli hlp hb hlc => exact hI
  | bindDone curr rest pt i hs hli hlp hb hlc =>
    exact ext curr.t i _ ⟨[], by simp⟩ (Or.inl (by rw [hlp]; rfl))
  | argPop curr rest pt i hs hli hlp hb hi => exact hI
  | depPush curr rest pt hs hli hlp hb ha hm => exact hI
  | abort curr rest pt hs hli hlp hb ha hm hany =>
    exact ext curr.t none _ ⟨[], by simp⟩ (Or.inl (by rw [hlp]; rfl))
  | call curr rest pt c hs hli hlp hb ha hm hany hmk =>
    exact ext curr.t _ _ ⟨[], by simp⟩ (Or.inl (by rw [hlp]; rfl))

theorem namedInv_final (pm : PMap) (sm : SMap) (given : List Ty) (out : Ty) :
    NamedInv pm given (final pm sm given out) :=
  svIter_induct (NamedInv pm given) (fun _ _ hi hs => namedInv_step hi hs) _ _
    (namedInv_init pm given out)

/-- **a needed type without source is named**: C06 says every error is true and that an error
    exists; this says the error for `t` itself is in the list -/
theorem missing_named_in_errs {pm : PMap} {sm : SMap} {given : List Ty} {out : Ty}
    (hH : H pm given) (hl : GivenLeaf pm given) {t : Ty}
    (hlp : look t pm = none) (hng : t ∉ given) (hr : Reach pm out t) :
    ∃ up, Err.noProvider t up ∈ (final pm sm given out).errs := by
  have hfr := final_run sm hH out
  have hidx := reach_indexed hfr.inv hl out t hr hfr.outIdx
  rcases namedInv_final pm sm given out t hlp hidx with h | h
  · exact absurd h hng
  · exact h

/-! ## direct items of a set -/

theorem unused_mem {d : SetDef} {impIds : List Nat} {used : List SrcId} {src : SrcId} {e : Err}
    (h : DirectItem d impIds src e) (hu : src ∉ used) : e ∈ verifyArgsUsed d impIds used := by
  cases h with
  | imp i hi => exact (unusedSet_mem d impIds used i).mpr ⟨hi, hu⟩
  | prov p hp => exact (unusedProv_mem d impIds used p.id).mpr ⟨⟨p, hp, rfl⟩, hu⟩
  | val v hv => exact (unusedVal_mem d impIds used v.id).mpr ⟨⟨v, hv, rfl⟩, hu⟩
  | bnd b hb => exact (unusedBnd_mem d impIds used b.id).mpr ⟨⟨b, hb, rfl⟩, hu⟩
  | fld f hf => exact (unusedFld_mem d impIds used f.id).mpr ⟨⟨f, hf, rfl⟩, hu⟩

theorem verifyArgsUsed_nil_iff_direct (d : SetDef) (impIds : List Nat) (used : List SrcId) :
    verifyArgsUsed d impIds used = [] ↔ ∀ src e, DirectItem d impIds src e → src ∈ used := by
  constructor
  · intro h src e hd
    apply Classical.byContradiction
    intro hu
    have := unused_mem hd hu
    rw [h] at this
    cases this
  · intro h
    rw [verifyArgsUsed_nil_iff]
    exact ⟨fun i hi => h _ _ (.imp i hi), fun p hp => h _ _ (.prov p hp),
      fun v hv => h _ _ (.val v hv), fun b hb => h _ _ (.bnd b hb), fun f hf => h _ _ (.fld f hf)⟩

/-! ## a decidable over-approximation of reachability, for concrete instances -/

/-- a list of types that contains the request and is closed under the edges of the map contains
    everything reachable -/
theorem reach_subset {pm : PMap} {out : Ty} (S : List Ty) (hout : out ∈ S)
    (hclosed : ∀ kv ∈ pm, kv.1 ∈ S → (kv.2.t ≠ kv.1 → kv.2.t ∈ S) ∧
      (kv.2.t = kv.1 → ∀ u ∈ depsOf kv.2.src, u ∈ S)) :
    ∀ u, Reach pm out u → u ∈ S := by
  intro u hr
  induction hr with
  | refl _ => exact hout
  | step hab _ ih =>
    apply ih
    obtain ⟨pt, hl, hd⟩ := hab
    have := hclosed _ (look_mem hl) hout
    rcases hd with ⟨h1, rfl⟩ | ⟨h1, h2⟩
    · exact this.1 h1
    · exact this.2 h1 _ h2

end WireP.PipelineProofs
