import WireP.Lemmas.PMapIns
/-! # PMapBnd — the binding phase of `buildProviderMap` -/
namespace WireP.PMapProofs
open WireV

/-- the errors the binding phase appends, as a function of the keys only -/
def bErrs : List Ty → List Bnd → List Err
  | _, [] => []
  | sk, b :: l =>
    if b.iface ∈ sk then Err.multi b.iface :: bErrs sk l
    else if b.provided ∈ sk then bErrs (b.iface :: sk) l
    else Err.bindMissing b.iface b.provided :: bErrs sk l

theorem insBnd_multi {s : BState} {b : Bnd} (h : b.iface ∈ keys s.sm) :
    insBnd s b = { s with errs := s.errs ++ [Err.multi b.iface] } := by
  unfold insBnd
  cases hl : look b.iface s.sm with
  | none => exact absurd h (look_eq_none_iff.mp hl)
  | some _ => rfl

theorem insBnd_missing {s : BState} {b : Bnd} (h : b.iface ∉ keys s.sm) (hp : b.provided ∉ keys s.pm) :
    insBnd s b = { s with errs := s.errs ++ [Err.bindMissing b.iface b.provided] } := by
  unfold insBnd
  rw [look_eq_none_iff.mpr h, look_eq_none_iff.mpr hp]

theorem insBnd_ok {s : BState} {b : Bnd} {c : PT} (h : b.iface ∉ keys s.sm) (hp : look b.provided s.pm = some c) :
    insBnd s b = { s with pm := (b.iface, c) :: s.pm, sm := (b.iface, .bnd b.id) :: s.sm } := by
  unfold insBnd
  rw [look_eq_none_iff.mpr h, hp]

/-- the three cases of one binding step -/
theorem insBnd_cases (s : BState) (b : Bnd) :
    (b.iface ∈ keys s.sm ∧ insBnd s b = { s with errs := s.errs ++ [Err.multi b.iface] }) ∨
    (b.iface ∉ keys s.sm ∧ b.provided ∉ keys s.pm ∧
      insBnd s b = { s with errs := s.errs ++ [Err.bindMissing b.iface b.provided] }) ∨
    (b.iface ∉ keys s.sm ∧ ∃ c, look b.provided s.pm = some c ∧
      insBnd s b = { s with pm := (b.iface, c) :: s.pm, sm := (b.iface, .bnd b.id) :: s.sm }) := by
  by_cases h : b.iface ∈ keys s.sm
  · exact Or.inl ⟨h, insBnd_multi h⟩
  · cases hp : look b.provided s.pm with
    | none => exact Or.inr (Or.inl ⟨h, look_eq_none_iff.mp hp, insBnd_missing h (look_eq_none_iff.mp hp)⟩)
    | some c => exact Or.inr (Or.inr ⟨h, c, rfl, insBnd_ok h hp⟩)

theorem insBnd_inv {s : BState} (h : Inv s) (b : Bnd) : Inv (insBnd s b) := by
  rcases insBnd_cases s b with ⟨_, e⟩ | ⟨_, _, e⟩ | ⟨_, c, _, e⟩ <;> rw [e]
  · exact h
  · exact h
  · simp only [Inv, keys_cons] at *
    rw [h]

theorem bL_inv {s : BState} (h : Inv s) (l : List Bnd) : Inv (bL s l) := by
  induction l generalizing s with
  | nil => exact h
  | cons b l ih => exact ih (insBnd_inv h b)

theorem bL_errs {s : BState} (hi : Inv s) (l : List Bnd) :
    (bL s l).errs = s.errs ++ bErrs (keys s.sm) l := by
  induction l generalizing s with
  | nil => simp [bErrs]
  | cons b l ih =>
    rw [bL_cons, ih (insBnd_inv hi b)]
    rcases insBnd_cases s b with ⟨hk, e⟩ | ⟨hk, hp, e⟩ | ⟨hk, c, hp, e⟩ <;> rw [e]
    · simp [bErrs, hk]
    · rw [hi] at hp
      simp [bErrs, hk, hp]
    · have hp' : b.provided ∈ keys s.sm := by
        rw [← hi]; exact look_isSome_iff.mp (by rw [hp]; rfl)
      simp [bErrs, hk, hp']

/-! ### pure facts about `bErrs` -/

theorem bErrs_eq_nil_of {sk : List Ty} {l : List Bnd} (hnd : (l.map (·.iface)).Nodup)
    (hd : ∀ b ∈ l, b.iface ∉ sk) (hp : ∀ b ∈ l, b.provided ∈ sk) : bErrs sk l = [] := by
  induction l generalizing sk with
  | nil => rfl
  | cons b l ih =>
    simp only [List.map_cons, List.nodup_cons] at hnd
    have h1 := hd b (List.mem_cons_self ..)
    have h2 := hp b (List.mem_cons_self ..)
    simp only [bErrs, h1, h2, if_false, if_true]
    apply ih hnd.2
    · intro b' hb' hm
      rcases List.mem_cons.mp hm with e | hm
      · exact hnd.1 (List.mem_map.mpr ⟨b', hb', e⟩)
      · exact hd b' (List.mem_cons_of_mem _ hb') hm
    · intro b' hb'
      exact List.mem_cons_of_mem _ (hp b' (List.mem_cons_of_mem _ hb'))

theorem bErrs_eq_nil {sk : List Ty} {l : List Bnd} (h : bErrs sk l = []) :
    (l.map (·.iface)).Nodup ∧ (∀ b ∈ l, b.iface ∉ sk) ∧
    (∀ b ∈ l, b.provided ∈ sk ∨ b.provided ∈ l.map (·.iface)) := by
  induction l generalizing sk with
  | nil => simp
  | cons b l ih =>
    by_cases h1 : b.iface ∈ sk
    · simp [bErrs, h1] at h
    · by_cases h2 : b.provided ∈ sk
      · simp only [bErrs, h1, h2, if_false, if_true] at h
        obtain ⟨hnd, hd, hp⟩ := ih h
        refine ⟨?_, ?_, ?_⟩
        · simp only [List.map_cons, List.nodup_cons]
          refine ⟨?_, hnd⟩
          intro hm
          obtain ⟨b', hb', e⟩ := List.mem_map.mp hm
          exact hd b' hb' (by rw [e]; exact List.mem_cons_self ..)
        · intro b' hb'
          rcases List.mem_cons.mp hb' with rfl | hb'
          · exact h1
          · exact fun hm => hd b' hb' (List.mem_cons_of_mem _ hm)
        · intro b' hb'
          rcases List.mem_cons.mp hb' with rfl | hb'
          · exact Or.inl h2
          · rcases hp b' hb' with hm | hm
            · rcases List.mem_cons.mp hm with e | hm
              · exact Or.inr (by rw [e]; simp)
              · exact Or.inl hm
            · exact Or.inr (by simp only [List.map_cons]; exact List.mem_cons_of_mem _ hm)
      · simp [bErrs, h1, h2] at h

theorem bErrs_multi {sk : List Ty} {l : List Bnd} {t : Ty} (h : Err.multi t ∈ bErrs sk l) :
    2 ≤ sk.count t + (l.map (·.iface)).count t := by
  induction l generalizing sk with
  | nil => simp [bErrs] at h
  | cons b l ih =>
    simp only [List.map_cons]
    have hmono := List.count_le_count_cons (a := t) (b := b.iface) (l := l.map (·.iface))
    by_cases h1 : b.iface ∈ sk
    · simp only [bErrs, h1, if_true, List.mem_cons] at h
      rcases h with e | h
      · cases e
        have := List.count_pos_iff.mpr h1
        simp only [List.count_cons_self]
        omega
      · have := ih h
        omega
    · by_cases h2 : b.provided ∈ sk
      · simp only [bErrs, h1, h2, if_false, if_true] at h
        have := ih h
        simp only [List.count_cons] at this ⊢
        omega
      · simp only [bErrs, h1, h2, if_false, List.mem_cons, reduceCtorEq, false_or] at h
        have := ih h
        omega

theorem bErrs_all_multi {sk : List Ty} {l : List Bnd} (hp : ∀ b ∈ l, b.provided ∈ sk) :
    ∀ e ∈ bErrs sk l, ∃ t, e = Err.multi t := by
  induction l generalizing sk with
  | nil => simp [bErrs]
  | cons b l ih =>
    have h2 := hp b (List.mem_cons_self ..)
    have hp' : ∀ b' ∈ l, b'.provided ∈ sk := fun b' hb' => hp b' (List.mem_cons_of_mem _ hb')
    by_cases h1 : b.iface ∈ sk
    · simp only [bErrs, h1, if_true, List.mem_cons]
      rintro e (rfl | he)
      · exact ⟨_, rfl⟩
      · exact ih hp' e he
    · simp only [bErrs, h1, h2, if_false, if_true]
      exact ih (fun b' hb' => List.mem_cons_of_mem _ (hp' b' hb'))

/-! ### lookups through the binding phase -/

theorem insBnd_look_pm {s : BState} (hi : Inv s) (b : Bnd) {t : Ty} {c : PT} (h : look t s.pm = some c) :
    look t (insBnd s b).pm = some c := by
  rcases insBnd_cases s b with ⟨_, e⟩ | ⟨_, _, e⟩ | ⟨hk, c', _, e⟩ <;> rw [e]
  · exact h
  · exact h
  · have ht : t ∈ keys s.sm := by rw [← hi]; exact look_isSome_iff.mp (by rw [h]; rfl)
    have : t ≠ b.iface := fun e => hk (e ▸ ht)
    simp [look_cons, this, h]

theorem insBnd_look_sm {s : BState} (b : Bnd) {t : Ty} {c : SrcId} (h : look t s.sm = some c) :
    look t (insBnd s b).sm = some c := by
  rcases insBnd_cases s b with ⟨_, e⟩ | ⟨_, _, e⟩ | ⟨hk, c', _, e⟩ <;> rw [e]
  · exact h
  · exact h
  · have ht : t ∈ keys s.sm := look_isSome_iff.mp (by rw [h]; rfl)
    have : t ≠ b.iface := fun e => hk (e ▸ ht)
    simp [look_cons, this, h]

theorem bL_look_pm {s : BState} (hi : Inv s) (l : List Bnd) {t : Ty} {c : PT} (h : look t s.pm = some c) :
    look t (bL s l).pm = some c := by
  induction l generalizing s with
  | nil => exact h
  | cons b l ih => exact ih (insBnd_inv hi b) (insBnd_look_pm hi b h)

theorem bL_look_sm {s : BState} (l : List Bnd) {t : Ty} {c : SrcId} (h : look t s.sm = some c) :
    look t (bL s l).sm = some c := by
  induction l generalizing s with
  | nil => exact h
  | cons b l ih => exact ih (insBnd_look_sm b h)

/-- when the binding phase appends no error: exact source map, and each binding aliases -/
theorem bL_clean {s : BState} (hi : Inv s) {l : List Bnd} (h : bErrs (keys s.sm) l = []) :
    (bL s l).sm = (l.map (fun b => (b.iface, SrcId.bnd b.id))).reverse ++ s.sm ∧
    ∀ b ∈ l, ∃ c, look b.provided (bL s l).pm = some c ∧ look b.iface (bL s l).pm = some c ∧
      look b.iface (bL s l).sm = some (.bnd b.id) := by
  induction l generalizing s with
  | nil => simp
  | cons b l ih =>
    rcases insBnd_cases s b with ⟨hk, e⟩ | ⟨hk, hp, e⟩ | ⟨hk, c, hp, e⟩
    · simp [bErrs, hk] at h
    · rw [hi] at hp
      simp [bErrs, hk, hp] at h
    · have hp' : b.provided ∈ keys s.sm := by
        rw [← hi]; exact look_isSome_iff.mp (by rw [hp]; rfl)
      simp only [bErrs, hk, hp', if_false, if_true] at h
      have hi' := insBnd_inv hi b
      have h' : bErrs (keys (insBnd s b).sm) l = [] := by rw [e]; exact h
      obtain ⟨hsm, hb⟩ := ih hi' h'
      rw [bL_cons]
      refine ⟨?_, ?_⟩
      · rw [hsm, e]; simp
      · intro b' hb'
        rcases List.mem_cons.mp hb' with rfl | hb'
        · have hne : b'.provided ≠ b'.iface := fun e => hk (e ▸ hp')
          refine ⟨c, bL_look_pm hi' l ?_, bL_look_pm hi' l ?_, bL_look_sm l ?_⟩
          · rw [e]; simp [look_cons, hne, hp]
          · rw [e]; simp [look_cons]
          · rw [e]; simp [look_cons]
        · exact hb b' hb'

/-- every value of the final provider map is a value of the starting one -/
theorem bL_vals {s : BState} (l : List Bnd) : ∀ kv ∈ (bL s l).pm, ∃ kv' ∈ s.pm, kv'.2 = kv.2 := by
  induction l generalizing s with
  | nil => exact fun kv h => ⟨kv, h, rfl⟩
  | cons b l ih =>
    intro kv hkv
    obtain ⟨kv', hkv', e'⟩ := ih kv hkv
    rcases insBnd_cases s b with ⟨_, e⟩ | ⟨_, _, e⟩ | ⟨hk, c, hp, e⟩ <;> rw [e] at hkv'
    · exact ⟨kv', hkv', e'⟩
    · exact ⟨kv', hkv', e'⟩
    · rcases List.mem_cons.mp hkv' with rfl | hm
      · exact ⟨_, look_mem hp, e'⟩
      · exact ⟨kv', hm, e'⟩

/-- keys only grow by interface types of the bindings -/
theorem bL_keys_sub {s : BState} (l : List Bnd) :
    ∀ t ∈ keys (bL s l).sm, t ∈ keys s.sm ∨ t ∈ l.map (·.iface) := by
  induction l generalizing s with
  | nil => exact fun t h => Or.inl h
  | cons b l ih =>
    intro t ht
    rcases ih t ht with h | h
    · rcases insBnd_cases s b with ⟨_, e⟩ | ⟨_, _, e⟩ | ⟨hk, c, hp, e⟩ <;> rw [e] at h
      · exact Or.inl h
      · exact Or.inl h
      · rcases List.mem_cons.mp h with rfl | h
        · exact Or.inr (by simp)
        · exact Or.inl h
    · exact Or.inr (by simp only [List.map_cons]; exact List.mem_cons_of_mem _ h)

end WireP.PMapProofs
