import WireV.Cmd
/-! # Lemmas for C17 — `genExec`, `diffExec` over the abstract file system -/
namespace WireP.CmdProofs
open WireV

/-! ## the file system -/

@[simp] theorem fsGet_nil (p : Nat) : fsGet [] p = none := rfl

theorem fsGet_cons (k c : Nat) (fs : FS) (p : Nat) :
    fsGet ((k, c) :: fs) p = if p = k then some c else fsGet fs p := rfl

theorem fsGet_filter_ne (fs : FS) (q p : Nat) :
    fsGet (fs.filter (fun kv => kv.1 != q)) p = if p = q then none else fsGet fs p := by
  induction fs with
  | nil => simp
  | cons kv fs ih =>
    obtain ⟨k, c⟩ := kv
    by_cases hk : k = q
    · subst hk
      simp only [List.filter_cons, bne_self_eq_false, Bool.false_eq_true, if_false, ih, fsGet_cons]
      split <;> simp_all
    · have : (k != q) = true := by simpa using hk
      simp only [List.filter_cons, this, if_true, fsGet_cons, ih]
      by_cases hp : p = k
      · subst hp; simp [hk]
      · simp [hp]

theorem fsGet_fsPut (fs : FS) (p c q : Nat) :
    fsGet (fsPut fs p c) q = if q = p then some c else fsGet fs q := by
  unfold fsPut
  rw [fsGet_cons, fsGet_filter_ne]
  split <;> simp_all

theorem fsGet_fsDel (fs : FS) (p q : Nat) :
    fsGet (fsDel fs p) q = if q = p then none else fsGet fs q := by
  unfold fsDel
  exact fsGet_filter_ne fs p q

/-! ## `genLoop` -/

theorem genLoop_nil (w : Nat → Bool) (fs : FS) (b : Bool) : genLoop w [] fs b = (fs, b) := rfl

theorem genLoop_cons (w : Nat → Bool) (o : PkgOut) (os : List PkgOut) (fs : FS) (b : Bool) :
    genLoop w (o :: os) fs b =
      if o.content = 0 then genLoop w os fs (if o.errs then false else b)
      else if w o.outPath then genLoop w os (fsPut fs o.outPath o.content) (if o.errs then false else b)
      else genLoop w os fs false := rfl

/-- the success flag: no package has errors, and every non-empty output was written -/
theorem genLoop_snd (w : Nat → Bool) : ∀ (outs : List PkgOut) (fs : FS) (b : Bool),
    (genLoop w outs fs b).2 = (b && outs.all (fun o => !o.errs && (o.content == 0 || w o.outPath)))
  | [], fs, b => by simp [genLoop_nil]
  | o :: os, fs, b => by
    rw [genLoop_cons]
    split
    · rename_i hc
      rw [genLoop_snd w os]
      cases he : o.errs <;> simp [hc, he]
    · rename_i hc
      split
      · rename_i hw
        rw [genLoop_snd w os]
        cases he : o.errs <;> simp [hw, he]
      · rename_i hw
        rw [genLoop_snd w os]
        simp [hc, hw]

/-- a path is left alone unless some package has non-empty output for it and the write succeeds -/
theorem genLoop_untouched (w : Nat → Bool) (p : Nat) : ∀ (outs : List PkgOut) (fs : FS) (b : Bool),
    (∀ o ∈ outs, o.outPath = p → o.content = 0 ∨ w p = false) →
    fsGet (genLoop w outs fs b).1 p = fsGet fs p
  | [], fs, b, _ => by simp [genLoop_nil]
  | o :: os, fs, b, h => by
    have hos : ∀ o ∈ os, o.outPath = p → o.content = 0 ∨ w p = false :=
      fun o' ho' => h o' (List.mem_cons_of_mem _ ho')
    rw [genLoop_cons]
    split
    · exact genLoop_untouched w p os _ _ hos
    · rename_i hc
      split
      · rename_i hw
        rw [genLoop_untouched w p os _ _ hos, fsGet_fsPut]
        have hne : p ≠ o.outPath := by
          intro hp
          rcases h o List.mem_cons_self hp.symm with h0 | h0
          · exact hc h0
          · rw [hp, hw] at h0; exact Bool.noConfusion h0
        simp [hne]
      · exact genLoop_untouched w p os _ _ hos

/-- with distinct output paths, a package's non-empty output that can be written is what the
    file holds at the end, whatever the other packages do -/
theorem genLoop_written (w : Nat → Bool) : ∀ (outs : List PkgOut) (fs : FS) (b : Bool) (o : PkgOut),
    (outs.map (·.outPath)).Nodup → o ∈ outs → o.content ≠ 0 → w o.outPath = true →
    fsGet (genLoop w outs fs b).1 o.outPath = some o.content
  | [], _, _, _, _, hm, _, _ => by simp at hm
  | o' :: os, fs, b, o, hnd, hm, hc, hw => by
    rw [List.map_cons, List.nodup_cons] at hnd
    rcases List.mem_cons.mp hm with rfl | hm'
    · rw [genLoop_cons, if_neg hc, if_pos hw]
      rw [genLoop_untouched w o.outPath os, fsGet_fsPut, if_pos rfl]
      intro o2 ho2 hp
      exact absurd (hp ▸ List.mem_map_of_mem ho2 : o.outPath ∈ os.map (·.outPath)) hnd.1
    · rw [genLoop_cons]
      split
      · exact genLoop_written w os _ _ o hnd.2 hm' hc hw
      · split
        · exact genLoop_written w os _ _ o hnd.2 hm' hc hw
        · exact genLoop_written w os _ _ o hnd.2 hm' hc hw

/-! ## `genExec` -/

theorem genExec_header (load : LoadRes) (w : Nat → Bool) (fs : FS) : genExec false load w fs = (fs, 1) := rfl

theorem genExec_loadErr (h : Bool) (w : Nat → Bool) (fs : FS) : genExec h .loadErr w fs = (fs, 1) := by
  cases h <;> rfl

theorem genExec_nil (w : Nat → Bool) (fs : FS) : genExec true (.ok []) w fs = (fs, 0) := rfl

theorem genExec_ok (outs : List PkgOut) (w : Nat → Bool) (fs : FS) :
    genExec true (.ok outs) w fs =
      ((genLoop w outs fs true).1, if (genLoop w outs fs true).2 then 0 else 1) := by
  cases outs with
  | nil => rfl
  | cons o os => rfl

theorem genExec_status_le (h : Bool) (load : LoadRes) (w : Nat → Bool) (fs : FS) :
    (genExec h load w fs).2 = 0 ∨ (genExec h load w fs).2 = 1 := by
  cases h
  · right; rfl
  · cases load with
    | loadErr => right; rfl
    | ok outs => rw [genExec_ok]; dsimp only; split <;> simp

theorem gen_exit (outs : List PkgOut) (w : Nat → Bool) (fs : FS) :
    (genExec true (.ok outs) w fs).2 = 0 ↔
      ∀ o ∈ outs, o.errs = false ∧ (o.content ≠ 0 → w o.outPath = true) := by
  rw [genExec_ok]
  dsimp only
  rw [genLoop_snd]
  simp only [Bool.true_and]
  constructor
  · intro h
    have h' : (outs.all fun o => !o.errs && (o.content == 0 || w o.outPath)) = true := by
      revert h; split <;> simp_all
    rw [List.all_eq_true] at h'
    intro o ho
    have := h' o ho
    simp only [Bool.and_eq_true, Bool.not_eq_true', Bool.or_eq_true, beq_iff_eq] at this
    refine ⟨this.1, fun hc => ?_⟩
    rcases this.2 with h0 | h0
    · exact absurd h0 hc
    · exact h0
  · intro h
    have h' : (outs.all fun o => !o.errs && (o.content == 0 || w o.outPath)) = true := by
      rw [List.all_eq_true]
      intro o ho
      obtain ⟨h1, h2⟩ := h o ho
      simp only [Bool.and_eq_true, Bool.not_eq_true', Bool.or_eq_true, beq_iff_eq]
      refine ⟨h1, ?_⟩
      by_cases hc : o.content = 0
      · exact Or.inl hc
      · exact Or.inr (h2 hc)
    simp [h']

theorem gen_writes_only (h : Bool) (load : LoadRes) (w : Nat → Bool) (fs : FS) (p : Nat)
    (hne : fsGet (genExec h load w fs).1 p ≠ fsGet fs p) :
    h = true ∧ ∃ outs, load = .ok outs ∧ ∃ o ∈ outs, o.outPath = p ∧ o.content ≠ 0 ∧ w p = true := by
  cases h
  · exact absurd rfl hne
  · cases load with
    | loadErr => exact absurd rfl hne
    | ok outs =>
      refine ⟨rfl, outs, rfl, ?_⟩
      rw [genExec_ok] at hne
      dsimp only at hne
      apply Classical.byContradiction
      intro hcon
      apply hne
      apply genLoop_untouched
      intro o ho hp
      by_cases hc : o.content = 0
      · exact Or.inl hc
      · right
        cases hw : w p
        · rfl
        · exact absurd ⟨o, ho, hp, hc, hw⟩ hcon

theorem gen_failed_untouched (h : Bool) (outs : List PkgOut) (w : Nat → Bool) (fs : FS) (p : Nat)
    (hall : ∀ o' ∈ outs, o'.outPath = p → o'.content = 0 ∨ w p = false) :
    fsGet (genExec h (.ok outs) w fs).1 p = fsGet fs p := by
  cases h
  · rfl
  · rw [genExec_ok]; exact genLoop_untouched w p outs fs true hall

theorem gen_isolation (outs : List PkgOut) (w : Nat → Bool) (fs : FS) (o : PkgOut)
    (hnd : (outs.map (·.outPath)).Nodup) (ho : o ∈ outs) (hc : o.content ≠ 0) (hw : w o.outPath = true) :
    fsGet (genExec true (.ok outs) w fs).1 o.outPath = some o.content := by
  rw [genExec_ok]; exact genLoop_written w outs fs true o hnd ho hc hw

end WireP.CmdProofs
