import WireP.Lemmas.CmdProofsHist
/-! # Lemmas for C18 — the file system after `gen` on a good variant, as a list -/
namespace WireP.CmdProofs
open WireV WireP.C18

/-- the entries `gen` writes, newest first -/
def outEntries (outs : List PkgOut) : FS := outs.reverse.map (fun o => (o.outPath, o.content))

/-- what is left of the previous file system: everything at other paths, order kept -/
def restFS (outs : List PkgOut) (fs : FS) : FS :=
  fs.filter (fun kv => !(outs.map (·.outPath)).contains kv.1)

theorem genLoop_good_list : ∀ (outs : List PkgOut) (fs : FS) (b : Bool),
    (outs.map (·.outPath)).Nodup → (∀ o ∈ outs, o.content ≠ 0) →
    (genLoop (fun _ => true) outs fs b).1 = outEntries outs ++ restFS outs fs
  | [], fs, b, _, _ => by
    simp only [genLoop_nil, outEntries, restFS, List.reverse_nil, List.map_nil, List.nil_append,
      List.contains_nil, Bool.not_false]
    exact (List.filter_eq_self.mpr (fun _ _ => rfl)).symm
  | o :: os, fs, b, hnd, hc => by
    rw [List.map_cons, List.nodup_cons] at hnd
    have hco : o.content ≠ 0 := hc o List.mem_cons_self
    rw [genLoop_cons, if_neg hco, if_pos rfl,
      genLoop_good_list os _ _ hnd.2 (fun o' ho' => hc o' (List.mem_cons_of_mem _ ho'))]
    have hnot : (!(os.map (·.outPath)).contains o.outPath) = true := by
      simpa using hnd.1
    unfold outEntries restFS fsPut
    rw [List.filter_cons, if_pos hnot, List.filter_filter, List.reverse_cons, List.map_append,
      List.append_assoc]
    congr 1
    rw [List.map_cons, List.map_nil, List.singleton_append]
    congr 1
    apply List.filter_congr
    intro kv _
    simp only [List.map_cons, List.contains_cons, Bool.not_or]
    rw [Bool.and_comm]
    congr 1

theorem restFS_outEntries (outs : List PkgOut) : restFS outs (outEntries outs) = [] := by
  unfold restFS outEntries
  rw [List.filter_eq_nil_iff]
  intro kv hkv
  obtain ⟨o, ho, rfl⟩ := List.mem_map.mp hkv
  have : o.outPath ∈ outs.map (·.outPath) := List.mem_map_of_mem (List.mem_reverse.mp ho)
  simpa using this

theorem restFS_restFS (outs : List PkgOut) (fs : FS) : restFS outs (restFS outs fs) = restFS outs fs := by
  unfold restFS
  rw [List.filter_filter]
  apply List.filter_congr
  intro kv _
  simp

theorem genExec_good_list (outs : List PkgOut) (fs : FS)
    (hnd : (outs.map (·.outPath)).Nodup) (hc : ∀ o ∈ outs, o.content ≠ 0) :
    (genExec true (.ok outs) (fun _ => true) fs).1 = outEntries outs ++ restFS outs fs := by
  rw [genExec_ok]; exact genLoop_good_list outs fs true hnd hc

/-- after `gen` on a good variant the file system is, as a list, the generated entries followed
    by what the history left at other paths -/
theorem gen_state_list (A : Nat → LoadRes) (hs : Nat) (s : HState) (outs : List PkgOut)
    (hA : A s.variant = .ok outs) (hnd : (outs.map (·.outPath)).Nodup) (hc : ∀ o ∈ outs, o.content ≠ 0) :
    (stepH A hs s .gen).1.fs = outEntries outs ++ restFS outs s.fs := by
  rw [stepH_gen, hA]; exact genExec_good_list outs s.fs hnd hc

theorem gen_idempotent_list (A : Nat → LoadRes) (hs v : Nat) (hg : GoodVariant A v) (s : HState)
    (hv : s.variant = v) :
    (stepH A hs (stepH A hs s .gen).1 .gen).1 = (stepH A hs s .gen).1 := by
  obtain ⟨outs, hA, _, hnd, hall⟩ := hg
  subst hv
  have hc : ∀ o ∈ outs, o.content ≠ 0 := fun o ho => (hall o ho).2
  have h1 := gen_state_list A hs s outs hA hnd hc
  have h2 := gen_state_list A hs (stepH A hs s .gen).1 outs hA hnd hc
  have hfs : (stepH A hs (stepH A hs s .gen).1 .gen).1.fs = (stepH A hs s .gen).1.fs := by
    rw [h2, h1]
    unfold restFS
    rw [List.filter_append]
    have e1 := restFS_outEntries outs
    have e2 := restFS_restFS outs s.fs
    unfold restFS at e1 e2
    rw [e1, e2, List.nil_append]
  have hvv : (stepH A hs (stepH A hs s .gen).1 .gen).1.variant = (stepH A hs s .gen).1.variant := rfl
  cases hx : (stepH A hs (stepH A hs s .gen).1 .gen).1 with
  | mk f1 v1 =>
    cases hy : (stepH A hs s .gen).1 with
    | mk f2 v2 =>
      rw [hx, hy] at hfs hvv
      simp only at hfs hvv
      rw [hfs, hvv]

/-- the fresh-checkout file system of a good variant is exactly the generated entries -/
theorem freshFS_list (A : Nat → LoadRes) (v : Nat) (outs : List PkgOut) (hA : A v = .ok outs)
    (hnd : (outs.map (·.outPath)).Nodup) (hc : ∀ o ∈ outs, o.content ≠ 0) :
    freshFS A v = outEntries outs := by
  unfold freshFS
  rw [hA, genExec_good_list outs [] hnd hc]
  simp only [restFS, List.filter_nil, List.append_nil]

end WireP.CmdProofs
