import WireP.Lemmas.CmdProofs
/-! # Lemmas for C17 — final file system of `gen`, exit status of `diff` -/
namespace WireP.CmdProofs
open WireV

theorem eq_of_nodup_paths : ∀ (outs : List PkgOut), (outs.map (·.outPath)).Nodup →
    ∀ a ∈ outs, ∀ b ∈ outs, a.outPath = b.outPath → a = b
  | [], _, a, ha, _, _, _ => by simp at ha
  | o :: os, hnd, a, ha, b, hb, hab => by
    rw [List.map_cons, List.nodup_cons] at hnd
    rcases List.mem_cons.mp ha with rfl | ha' <;> rcases List.mem_cons.mp hb with rfl | hb'
    · rfl
    · exact absurd (hab ▸ List.mem_map_of_mem hb' : a.outPath ∈ os.map (·.outPath)) hnd.1
    · exact absurd (hab ▸ List.mem_map_of_mem ha' : b.outPath ∈ os.map (·.outPath)) hnd.1
    · exact eq_of_nodup_paths os hnd.2 a ha' b hb' hab

/-- the final file system of `gen`, pointwise, when output paths are distinct -/
theorem gen_final_fs (outs : List PkgOut) (w : Nat → Bool) (fs : FS)
    (hnd : (outs.map (·.outPath)).Nodup) :
    (∀ o ∈ outs, o.content ≠ 0 → w o.outPath = true →
        fsGet (genExec true (.ok outs) w fs).1 o.outPath = some o.content) ∧
    (∀ o ∈ outs, o.content = 0 ∨ w o.outPath = false →
        fsGet (genExec true (.ok outs) w fs).1 o.outPath = fsGet fs o.outPath) ∧
    (∀ p, p ∉ outs.map (·.outPath) → fsGet (genExec true (.ok outs) w fs).1 p = fsGet fs p) := by
  refine ⟨fun o ho hc hw => gen_isolation outs w fs o hnd ho hc hw, fun o ho h => ?_, fun p hp => ?_⟩
  · apply gen_failed_untouched
    intro o' ho' hp
    have := eq_of_nodup_paths outs hnd o' ho' o ho hp
    subst this
    exact h
  · apply gen_failed_untouched
    intro o' ho' hp'
    exact absurd (hp' ▸ List.mem_map_of_mem ho' : p ∈ outs.map (·.outPath)) hp

/-! ## `diffLoop`, `diffExec` -/

theorem diffLoop_nil (fs : FS) (s d : Bool) : diffLoop fs [] s d = (s, d) := rfl

theorem diffLoop_cons (fs : FS) (o : PkgOut) (os : List PkgOut) (s d : Bool) :
    diffLoop fs (o :: os) s d =
      if o.content = 0 then diffLoop fs os (if o.errs then false else s) d
      else diffLoop fs os (if o.errs then false else s) (d || (fsGet fs o.outPath).getD 0 != o.content) := rfl

theorem diffLoop_fst (fs : FS) : ∀ (outs : List PkgOut) (s d : Bool),
    (diffLoop fs outs s d).1 = (s && outs.all (fun o => !o.errs))
  | [], s, d => by simp [diffLoop_nil]
  | o :: os, s, d => by
    rw [diffLoop_cons]
    split <;> (rw [diffLoop_fst fs os]; cases he : o.errs <;> simp [he])

theorem diffLoop_snd (fs : FS) : ∀ (outs : List PkgOut) (s d : Bool),
    (diffLoop fs outs s d).2 =
      (d || outs.any (fun o => o.content != 0 && (fsGet fs o.outPath).getD 0 != o.content))
  | [], s, d => by simp [diffLoop_nil]
  | o :: os, s, d => by
    rw [diffLoop_cons]
    split
    · rename_i hc
      rw [diffLoop_snd fs os]; simp [hc]
    · rename_i hc
      rw [diffLoop_snd fs os]
      have : (o.content != 0) = true := by simpa using hc
      simp [this, Bool.or_assoc]

theorem getD_ne_iff (x : Option Nat) (c : Nat) (hc : c ≠ 0) :
    (x.getD 0 != c) = true ↔ x ≠ some c := by
  cases x with
  | none => simp; omega
  | some y => simp

theorem diffExec_header (hs : Nat) (load : LoadRes) (fs : FS) : diffExec hs false load fs = hs := rfl

theorem diffExec_loadErr (hs : Nat) (fs : FS) : diffExec hs true .loadErr fs = 2 := rfl

theorem diffExec_ok (hs : Nat) (outs : List PkgOut) (fs : FS) :
    diffExec hs true (.ok outs) fs =
      if !(diffLoop fs outs true false).1 then 2 else if (diffLoop fs outs true false).2 then 1 else 0 := by
  cases outs with
  | nil => rfl
  | cons o os => rfl

theorem all_noerr_iff (outs : List PkgOut) :
    (outs.all (fun o => !o.errs)) = true ↔ ∀ o ∈ outs, o.errs = false := by
  simp [List.all_eq_true]

theorem any_diff_iff (fs : FS) (outs : List PkgOut) :
    (outs.any (fun o => o.content != 0 && (fsGet fs o.outPath).getD 0 != o.content)) = true ↔
      ∃ o ∈ outs, o.content ≠ 0 ∧ fsGet fs o.outPath ≠ some o.content := by
  rw [List.any_eq_true]
  constructor
  · rintro ⟨o, ho, h⟩
    rw [Bool.and_eq_true] at h
    have hc : o.content ≠ 0 := by simpa using h.1
    exact ⟨o, ho, hc, (getD_ne_iff _ _ hc).mp h.2⟩
  · rintro ⟨o, ho, hc, h⟩
    refine ⟨o, ho, ?_⟩
    rw [Bool.and_eq_true]
    exact ⟨by simpa using hc, (getD_ne_iff _ _ hc).mpr h⟩

theorem diff_exit_two (hs : Nat) (outs : List PkgOut) (fs : FS) :
    diffExec hs true (.ok outs) fs = 2 ↔ ∃ o ∈ outs, o.errs = true := by
  rw [diffExec_ok, diffLoop_fst, diffLoop_snd]
  simp only [Bool.true_and, Bool.false_or]
  by_cases h : (outs.all (fun o => !o.errs)) = true
  · have h' := (all_noerr_iff outs).mp h
    simp only [h, Bool.not_true, Bool.false_eq_true, if_false]
    constructor
    · intro h2; split at h2 <;> omega
    · rintro ⟨o, ho, he⟩; rw [h' o ho] at he; exact Bool.noConfusion he
  · have hf : (outs.all (fun o => !o.errs)) = false := by simpa using h
    simp only [hf, Bool.not_false, if_true, true_iff]
    apply Classical.byContradiction
    intro hcon
    apply h
    rw [all_noerr_iff]
    intro o ho
    cases he : o.errs
    · rfl
    · exact absurd ⟨o, ho, he⟩ hcon

theorem diff_exit_zero (hs : Nat) (outs : List PkgOut) (fs : FS) :
    diffExec hs true (.ok outs) fs = 0 ↔
      (∀ o ∈ outs, o.errs = false) ∧ ∀ o ∈ outs, o.content ≠ 0 → fsGet fs o.outPath = some o.content := by
  rw [diffExec_ok, diffLoop_fst, diffLoop_snd]
  simp only [Bool.true_and, Bool.false_or]
  rw [← all_noerr_iff]
  by_cases h : (outs.all (fun o => !o.errs)) = true
  · simp only [h, Bool.not_true, Bool.false_eq_true, if_false, true_and]
    by_cases hd : (outs.any (fun o => o.content != 0 && (fsGet fs o.outPath).getD 0 != o.content)) = true
    · simp only [hd, if_true]
      obtain ⟨o, ho, hc, hne⟩ := (any_diff_iff fs outs).mp hd
      constructor
      · intro h1; omega
      · intro hall; exact absurd (hall o ho hc) hne
    · simp only [hd, Bool.false_eq_true, if_false, true_iff]
      intro o ho hc
      apply Classical.byContradiction
      intro hne
      exact hd ((any_diff_iff fs outs).mpr ⟨o, ho, hc, hne⟩)
  · have hf : (outs.all (fun o => !o.errs)) = false := by simpa using h
    simp [hf]

theorem diff_exit_one (hs : Nat) (outs : List PkgOut) (fs : FS) :
    diffExec hs true (.ok outs) fs = 1 ↔
      (∀ o ∈ outs, o.errs = false) ∧ ∃ o ∈ outs, o.content ≠ 0 ∧ fsGet fs o.outPath ≠ some o.content := by
  rw [diffExec_ok, diffLoop_fst, diffLoop_snd]
  simp only [Bool.true_and, Bool.false_or]
  rw [← all_noerr_iff, ← any_diff_iff]
  by_cases h : (outs.all (fun o => !o.errs)) = true
  · simp only [h, Bool.not_true, Bool.false_eq_true, if_false, true_and]
    split <;> simp_all
  · have hf : (outs.all (fun o => !o.errs)) = false := by simpa using h
    simp [hf]

theorem diffExec_status (hs : Nat) (load : LoadRes) (fs : FS) :
    diffExec hs true load fs = 0 ∨ diffExec hs true load fs = 1 ∨ diffExec hs true load fs = 2 := by
  cases load with
  | loadErr => right; right; rfl
  | ok outs =>
    rw [diffExec_ok]
    split
    · simp
    · split <;> simp

end WireP.CmdProofs
