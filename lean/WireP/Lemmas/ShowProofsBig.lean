import WireP.Lemmas.ShowProofsInv
/-! # The big-step lemma for `gStep` and the fuel bound (C19)

For a `GAcyclic` map, a type `t` on top of the stack is consumed in finitely many steps, after which
`t` is visited; `cost` bounds the number of steps by the weight of the newly visited keys. -/
namespace WireP.Show
open WireV WireP.Solve

/-- weight of a type: `1 + number of dependencies` for a key of the map, `0` otherwise -/
def wt (pm : PMap) (u : Ty) : Nat :=
  match look u pm with
  | some pt => 1 + (depsOf pt.src).length
  | none => 0

def cost (pm : PMap) (ext : List (Ty × Option Nat)) : Nat := (ext.map (fun kv => wt pm kv.1)).sum

theorem cost_cons (pm : PMap) (t : Ty) (v : Option Nat) (ext : List (Ty × Option Nat)) :
    cost pm ((t, v) :: ext) = wt pm t + cost pm ext := by
  simp [cost]

theorem cost_append (pm : PMap) (e1 e2 : List (Ty × Option Nat)) :
    cost pm (e1 ++ e2) = cost pm e1 + cost pm e2 := by
  simp [cost]

theorem wt_key {pm : PMap} {t : Ty} {pt : PT} (hl : look t pm = some pt) :
    wt pm t = 1 + (depsOf pt.src).length := by
  simp [wt, hl]

/-- what a run may change in `visited` while it works on `t` -/
structure Ext (pm : PMap) (t : Ty) (s s' : GSt) : Prop where
  keep : ∀ u v, look u s.visited = some v → look u s'.visited = some v
  new : ∀ u, (look u s'.visited).isSome → (look u s.visited).isSome ∨ GReach pm t u

theorem Ext.rfl' {pm t s s'} (h : s'.visited = s.visited) : Ext pm t s s' :=
  ⟨fun u i hu => by rw [h]; exact hu, fun u hu => Or.inl (by rw [h] at hu; exact hu)⟩

theorem Ext.add {pm t s s'} (v : Option Nat) (hn : look t s.visited = none)
    (h : s'.visited = (t, v) :: s.visited) : Ext pm t s s' := by
  refine ⟨?_, ?_⟩
  · intro u i hu
    rw [h]; exact look_keep hn hu
  · intro u hu
    rw [h] at hu
    by_cases e : u = t
    · subst e; exact Or.inr (GReach.refl _)
    · rw [look_cons_ne _ _ e] at hu; exact Or.inl hu

theorem isSome_of_keep {s s' : GSt}
    (hk : ∀ u v, look u s.visited = some v → look u s'.visited = some v)
    {u : Ty} (h : (look u s.visited).isSome) : (look u s'.visited).isSome := by
  obtain ⟨i, hi⟩ := Option.isSome_iff_exists.mp h
  rw [hk u i hi]; rfl

theorem addToGroup_vis (s : GSt) (curr : Ty) (ins rest : List Ty) :
    ∃ i, (addToGroup s curr ins rest).visited = (curr, some i) :: s.visited ∧
      (addToGroup s curr ins rest).stk = rest := by
  rcases addToGroup_cases s curr ins rest with ⟨i, _, _, _, _, hv, hs⟩ | ⟨_, _, hv, hs⟩
  · exact ⟨i, hv, hs⟩
  · exact ⟨_, hv, hs⟩

def Goal (pm : PMap) (t : Ty) : Prop :=
  ∀ (s : GSt) (rest : List Ty), s.stk = t :: rest →
    ∃ n s', iterO pm n s = some s' ∧ s'.stk = rest ∧ (look t s'.visited).isSome ∧ Ext pm t s s' ∧
      ∃ ext, s'.visited = ext ++ s.visited ∧ n ≤ 1 + cost pm ext

/-- process a list of dependencies of `t` sitting on top of the stack -/
theorem big_list {pm : PMap} (t : Ty) (ih : ∀ a, gdep pm t a → Goal pm a) :
    ∀ (l : List Ty), (∀ a ∈ l, gdep pm t a) → ∀ (s : GSt) (rest : List Ty), s.stk = l ++ rest →
      ∃ n s', iterO pm n s = some s' ∧ s'.stk = rest ∧
        (∀ a ∈ l, (look a s'.visited).isSome) ∧
        (∀ u v, look u s.visited = some v → look u s'.visited = some v) ∧
        (∀ u, (look u s'.visited).isSome → (look u s.visited).isSome ∨ ∃ a ∈ l, GReach pm a u) ∧
        (∃ ext, s'.visited = ext ++ s.visited ∧ n ≤ l.length + cost pm ext) := by
  intro l
  induction l with
  | nil =>
    intro _ s rest hs
    exact ⟨0, s, rfl, by simpa using hs, by simp, fun _ _ h => h, fun _ h => Or.inl h,
      [], by simp, by simp [cost]⟩
  | cons a l ihl =>
    intro hl s rest hs
    have hda := hl a List.mem_cons_self
    obtain ⟨n1, s1, h1, hs1, ha1, he1, ext1, hx1, hc1⟩ :=
      ih a hda s (l ++ rest) (by simpa using hs)
    obtain ⟨n2, s2, h2, hs2, hl2, hk2, hn2, ext2, hx2, hc2⟩ :=
      ihl (fun b hb => hl b (List.mem_cons_of_mem _ hb)) s1 rest hs1
    refine ⟨n1 + n2, s2, iterO_comp h1 h2, hs2, ?_, ?_, ?_, ?_⟩
    · intro b hb
      rcases List.mem_cons.mp hb with rfl | hb'
      · exact isSome_of_keep hk2 ha1
      · exact hl2 b hb'
    · exact fun u i hu => hk2 u i (he1.keep u i hu)
    · intro u hu
      rcases hn2 u hu with h | ⟨b, hb, hbu⟩
      · rcases he1.new u h with h' | h'
        · exact Or.inl h'
        · exact Or.inr ⟨a, List.mem_cons_self, h'⟩
      · exact Or.inr ⟨b, List.mem_cons_of_mem _ hb, hbu⟩
    · refine ⟨ext2 ++ ext1, by rw [hx2, hx1, List.append_assoc], ?_⟩
      rw [cost_append]
      simp only [List.length_cons]
      omega

/-- **big-step lemma** -/
theorem big {pm : PMap} (hac : GAcyclic pm) : ∀ t, Goal pm t := by
  intro t
  induction t using hac.induction with
  | _ t ih =>
    intro s rest hs
    cases hv : look t s.visited with
    | some v =>
      have hst : Step pm s _ := .pop t rest v hs hv
      exact ⟨1, _, iterO_step hst, rfl, by simp [hv], Ext.rfl' rfl, [], rfl, by simp [cost]⟩
    | none =>
      have leafCase : Leaf pm t → ∃ n s', iterO pm n s = some s' ∧ s'.stk = rest ∧
          (look t s'.visited).isSome ∧ Ext pm t s s' ∧
          ∃ ext, s'.visited = ext ++ s.visited ∧ n ≤ 1 + cost pm ext := by
        intro hlf
        have hst : Step pm s _ := .leaf t rest hs hv hlf
        exact ⟨1, _, iterO_step hst, rfl, by simp [look], Ext.add none hv rfl,
          [(t, none)], rfl, by omega⟩
      cases hl : look t pm with
      | none => exact leafCase (Or.inl hl)
      | some pt =>
        by_cases hna : ∀ i, pt.src ≠ .arg i
        · have hwt := wt_key hl
          have hdeps : ∀ a ∈ depsOf pt.src, gdep pm t a := fun a ha => ⟨pt, hl, hna, ha⟩
          -- the last visit, from a state in which every dependency is visited
          have last : ∀ s1 : GSt, s1.stk = t :: rest → look t s1.visited = none →
              (∀ a ∈ depsOf pt.src, (look a s1.visited).isSome) →
              ∃ s2 v, Step pm s1 s2 ∧ s2.stk = rest ∧ s2.visited = (t, v) :: s1.visited := by
            intro s1 hs1 hv1 hall
            obtain ⟨i, hvis, hstk⟩ := addToGroup_vis s1 t (insOf s1 (depsOf pt.src)) rest
            exact ⟨_, some i, .group t rest pt hs1 hv1 hl hna (missing_of_all hall), hstk, hvis⟩
          by_cases hm : missingOf s.visited (depsOf pt.src) = []
          · obtain ⟨s2, v, hst, hs2, hv2⟩ := last s hs hv (missing_nil hm)
            refine ⟨1, s2, iterO_step hst, hs2, by rw [hv2]; simp [look], Ext.add v hv hv2,
              [(t, v)], by rw [hv2]; rfl, by omega⟩
          · -- push the unvisited dependencies, come back
            have hst0 : Step pm s { s with stk := (missingOf s.visited (depsOf pt.src)).reverse ++
                t :: rest } := .push t rest pt hs hv hl hna hm
            have hmd : ∀ a ∈ (missingOf s.visited (depsOf pt.src)).reverse, gdep pm t a := by
              intro a ha
              exact hdeps a (missing_sub (List.mem_reverse.mp ha)).1
            obtain ⟨n1, s1, h1, hs1, hl1, hk1, hn1, ext1, hx1, hc1⟩ :=
              big_list t (fun a ha => ih a ha) _ hmd
                { s with stk := (missingOf s.visited (depsOf pt.src)).reverse ++ t :: rest }
                (t :: rest) rfl
            have hv1 : look t s1.visited = none := by
              cases hx : look t s1.visited with
              | none => rfl
              | some i =>
                rcases hn1 t (by simp [hx]) with h | ⟨a, ha, hat⟩
                · simp [hv] at h
                · exact absurd hat (no_gcycle hac t a (hmd a ha))
            have hall : ∀ a ∈ depsOf pt.src, (look a s1.visited).isSome := by
              intro a ha
              cases hx : look a s.visited with
              | none =>
                have hmem : a ∈ missingOf s.visited (depsOf pt.src) := by
                  unfold missingOf; exact List.mem_filter.mpr ⟨ha, by simp [hx]⟩
                exact hl1 a (List.mem_reverse.mpr hmem)
              | some i => rw [hk1 a i hx]; rfl
            obtain ⟨s2, v, hst2, hs2, hv2⟩ := last s1 hs1 hv1 hall
            refine ⟨1 + (n1 + 1), s2,
              iterO_comp (iterO_step hst0) (iterO_comp h1 (iterO_step hst2)), hs2,
              by rw [hv2]; simp [look], ⟨?_, ?_⟩, ?_⟩
            · intro u i hu
              rw [hv2]; exact look_keep hv1 (hk1 u i hu)
            · intro u hu
              rw [hv2] at hu
              by_cases e : u = t
              · subst e; exact Or.inr (.refl _)
              · rw [look_cons_ne _ _ e] at hu
                rcases hn1 u hu with h | ⟨a, ha, hau⟩
                · exact Or.inl h
                · exact Or.inr (.step (hmd a ha) hau)
            · refine ⟨(t, v) :: ext1, by rw [hv2, hx1]; rfl, ?_⟩
              rw [cost_cons, hwt]
              have := missing_length s.visited (depsOf pt.src)
              simp only [List.length_reverse] at hc1
              omega
        · have : ∃ i, pt.src = .arg i := by
            cases hsrc : pt.src with
            | arg i => exact ⟨i, rfl⟩
            | _ => exact absurd (fun i => by simp [hsrc]) hna
          obtain ⟨i, hi⟩ := this
          exact leafCase (Or.inr ⟨pt, i, hl, hi⟩)

/-! ## the fuel bound -/

theorem wt_cons (k : Ty) (v : PT) (pm : PMap) (u : Ty) :
    wt ((k, v) :: pm) u = if u = k then 1 + (depsOf v.src).length else wt pm u := by
  unfold wt
  by_cases e : u = k
  · subst e; simp [look]
  · simp [look, e]

theorem sum_wt_cons (k : Ty) (v : PT) (pm : PMap) : ∀ (l : List Ty), l.Nodup →
    (l.map (wt ((k, v) :: pm))).sum ≤
      (if k ∈ l then 1 + (depsOf v.src).length else 0) + (l.map (wt pm)).sum := by
  intro l
  induction l with
  | nil => simp
  | cons x l ih =>
    intro hnd
    simp only [List.nodup_cons] at hnd
    have ih' := ih hnd.2
    simp only [List.map_cons, List.sum_cons, wt_cons, List.mem_cons]
    by_cases e : x = k
    · subst e
      have hnot : ¬ x ∈ l := hnd.1
      simp only [hnot, if_false] at ih'
      simp only [true_or, if_true]
      omega
    · have e' : ¬ k = x := fun h => e h.symm
      simp only [e, e', if_false, false_or]
      omega

/-- the weights of distinct types sum to at most the fuel's sum over the map -/
theorem sum_wt_le (pm : PMap) : ∀ (l : List Ty), l.Nodup →
    (l.map (wt pm)).sum ≤ (pm.map (fun kv => 1 + (depsOf kv.2.src).length)).sum := by
  induction pm with
  | nil =>
    intro l hnd
    clear hnd
    have hz : ∀ u, wt ([] : PMap) u = 0 := fun u => by simp [wt, look]
    have : (l.map (wt ([] : PMap))).sum = 0 := by
      induction l with
      | nil => rfl
      | cons x l ih => simp only [List.map_cons, List.sum_cons, hz, ih, Nat.zero_add]
    omega
  | cons kv pm ih =>
    obtain ⟨k, v⟩ := kv
    intro l hnd
    have h1 := sum_wt_cons k v pm l hnd
    have h2 := ih l hnd
    simp only [List.map_cons, List.sum_cons]
    split at h1 <;> omega

/-- the fuel `gather` gives to each DFS -/
def gFuel (pm : PMap) : Nat := 2 + 2 * (pm.map (fun kv => 1 + (depsOf kv.2.src).length)).sum

theorem cost_le_fuel {pm : PMap} {ext : List (Ty × Option Nat)} (hnd : (ext.map (·.1)).Nodup) :
    1 + cost pm ext + 1 ≤ gFuel pm := by
  have := sum_wt_le pm (ext.map (·.1)) hnd
  unfold cost gFuel
  simp only [List.map_map, Function.comp_def] at this
  omega

/-- half the fuel (`1 + Σ (1 + deps)`, plus one) already suffices -/
theorem cost_le_half {pm : PMap} {ext : List (Ty × Option Nat)} (hnd : (ext.map (·.1)).Nodup) :
    1 + cost pm ext ≤ 1 + (pm.map (fun kv => 1 + (depsOf kv.2.src).length)).sum := by
  have := sum_wt_le pm (ext.map (·.1)) hnd
  unfold cost
  simp only [List.map_map, Function.comp_def] at this
  omega

end WireP.Show
