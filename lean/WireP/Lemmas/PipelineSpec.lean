import WireP.Lemmas.PipelineDefs
import WireP.Lemmas.PipelineFront
import WireP.Lemmas.PipelineSolve
/-! # Pipeline, part 4 — what an accepted `planLast` means -/
namespace WireP.PipelineProofs
open WireV WireP.Pipeline WireP.C05 WireP.C07 WireP.Solve

/-! ## `planLast` unfolded -/

theorem planLast_eq {order : List Ty} {ds : List SetDef} {d : SetDef} (hd : ds.getLast? = some d)
    (out : Ty) :
    planLast order ds out =
      match procSet order (procSets order ds.dropLast) d with
      | .ok pm sm => solve pm sm d (impIdsOf (procSets order ds) d) (d.args.getD []) out
      | .err es => .errs es := by
  unfold planLast
  simp only [hd, procSets_getLast hd]
  cases procSet order (procSets order ds.dropLast) d <;> rfl

theorem planLast_of_ok {order : List Ty} {ds : List SetDef} {d : SetDef} (hd : ds.getLast? = some d)
    {id : Nat} {pm : PMap} {sm : SMap}
    (hl : (procSets order ds).getLast? = some (id, SetRes.ok pm sm)) (out : Ty) :
    planLast order ds out = solve pm sm d (impIdsOf (procSets order ds) d) (d.args.getD []) out := by
  rw [planLast_eq hd, (procSets_last_ok hd hl).2]

theorem planLast_of_err {order : List Ty} {ds : List SetDef} {d : SetDef} (hd : ds.getLast? = some d)
    {es : List Err} (hl : procSet order (procSets order ds.dropLast) d = .err es) (out : Ty) :
    planLast order ds out = .errs es := by
  rw [planLast_eq hd, hl]

/-- an `.ok` verdict comes from an accepted last set and an `.ok` answer of `solve` on its map -/
theorem planLast_ok_inv {order : List Ty} {ds : List SetDef} {d : SetDef} (hd : ds.getLast? = some d)
    {out : Ty} {calls : List Call} (h : planLast order ds out = .ok calls) :
    ∃ pm sm, (procSets order ds).getLast? = some (d.id, SetRes.ok pm sm) ∧
      solve pm sm d (impIdsOf (procSets order ds) d) (d.args.getD []) out = .ok calls := by
  rw [planLast_eq hd] at h
  rw [procSets_getLast hd]
  cases hp : procSet order (procSets order ds.dropLast) d with
  | ok pm sm => rw [hp] at h; exact ⟨pm, sm, rfl, h⟩
  | err es => rw [hp] at h; cases h

/-! ## the specification of an accepted plan -/

/-- the planner theorems, bundled: from the standing hypotheses and an `.ok` answer of `solve` -/
theorem planSpec_of_solve {pm : PMap} {sm : SMap} {d : SetDef} {impIds : List Nat} {given : List Ty}
    {out : Ty} {calls : List Call} (hH : H pm given) (hga : GivenArgs pm given)
    (h : solve pm sm d impIds given out = .ok calls) :
    PlanSpec d impIds pm sm given out calls := by
  obtain ⟨-, he, hu, rfl⟩ := solve_ok h
  have hl := hga.leaf
  have hcc := hH.concClosed
  have hnd := hH.givenNodup
  refine
    { calls_eq := rfl
      call_sound := ?_
      outs_nodup := (solve_outs_nodup hcc hnd).1
      outs_not_given := (solve_outs_nodup hcc hnd).2
      only_needed := solve_only_needed hcc hnd
      result := solve_result_partial hH hl.self he
      result_last := fun hc => solve_result_last hH hc he
      no_missing := (solve_missing_iff_partial hH hl).mp he
      all_used := ?_
      bind_no_call := fun k pt hlp hb => Solve.bind_no_call hcc hnd hlp hb
      bind_value := fun k pt hlp hb hr => bind_value_partial hH hl he hlp hb hr }
  · intro p c hp
    obtain ⟨pt, hlk, ht, -, hlen, hargs⟩ := solve_args_sound_partial hcc hnd hl.self p c hp
    obtain ⟨pt', hlk', -, hna, hmk⟩ := solve_call_payload (sm := sm) (out := out) hcc hnd c
      (List.mem_of_getElem? hp)
    rw [hlk] at hlk'
    cases hlk'
    exact ⟨pt, hlk, ht, hna, hmk, hlen, hargs⟩
  · intro src e hd
    exact used_sound hcc hnd src (((verifyArgsUsed_nil_iff_direct d impIds _).mp hu) src e hd)

/-- **3.** an `.ok` verdict of the whole pipeline: the last set was accepted with some map, that
    map was built by `buildProviderMap` from the set's items and its imports' maps, it has no cycle,
    and the call list satisfies every planner property -/
theorem planLast_ok_spec {order : List Ty} {ds : List SetDef} {d : SetDef} {out : Ty}
    {calls : List Call} (hbl : BuildLast ds) (hd : ds.getLast? = some d)
    (horder : OrderCovers order ds) (h : planLast order ds out = .ok calls) :
    ∃ pm sm impMaps, (procSets order ds).getLast? = some (d.id, SetRes.ok pm sm) ∧
      importsOf (procSets order ds.dropLast) d = .ok impMaps ∧
      buildProviderMap d.args impMaps d.provs d.vals d.flds d.bnds = .ok (pm, sm) ∧
      ¬ Cyclic (succOf pm) ∧
      PlanSpec d (impIdsOf (procSets order ds) d) pm sm (d.args.getD []) out calls := by
  obtain ⟨pm, sm, hl, hs⟩ := planLast_ok_inv hd h
  have hcov := last_covered horder hl
  obtain ⟨hH, hga, -⟩ := planLast_hyps hbl hd hl hcov
  obtain ⟨-, hps⟩ := procSets_last_ok hd hl
  obtain ⟨impMaps, himp, hb⟩ := PMapInv.procSet_ok hps
  exact ⟨pm, sm, impMaps, hl, himp, hb,
    AcyclicProofs.procSet_ok_acyclic order _ d pm sm hcov hps, planSpec_of_solve hH hga hs⟩

/-- the same with the coverage hypothesis stated for the last map only -/
theorem planLast_ok_spec' {order : List Ty} {ds : List SetDef} {d : SetDef} {out : Ty}
    {calls : List Call} (hbl : BuildLast ds) (hd : ds.getLast? = some d)
    (horder : ∀ id pm sm, (procSets order ds).getLast? = some (id, SetRes.ok pm sm) →
      ∀ k, (look k pm).isSome → k ∈ order)
    (h : planLast order ds out = .ok calls) :
    ∃ pm sm, (procSets order ds).getLast? = some (d.id, SetRes.ok pm sm) ∧
      PlanSpec d (impIdsOf (procSets order ds) d) pm sm (d.args.getD []) out calls := by
  obtain ⟨pm, sm, hl, hs⟩ := planLast_ok_inv hd h
  obtain ⟨hH, hga, -⟩ := planLast_hyps hbl hd hl (horder _ _ _ hl)
  exact ⟨pm, sm, hl, planSpec_of_solve hH hga hs⟩

end WireP.PipelineProofs
