import WireP.Lemmas.NameProofsBasic
/-! # `disambiguate` and `typeVariableName` (C14, items 1–3) -/
namespace WireP.NameProofs
open WireV

/-- the base of the numbered candidates -/
def baseOf (name : String) : String := if endsInDigit name then name ++ "_" else name

theorem isKeyword_mem {s : String} (h : isKeyword s = true) : s ∈ goKeywords := by
  simpa [isKeyword] using h

theorem bad_mem {collides : String → Bool} {taken : List String}
    (ht : ∀ n, collides n = true → n ∈ taken) (s : String) (h : bad collides s = true) :
    s ∈ goKeywords ++ taken := by
  simp only [bad, Bool.or_eq_true] at h
  rcases h with h | h
  · exact List.mem_append_left _ (isKeyword_mem h)
  · exact List.mem_append_right _ (ht _ h)

/-- item 2 (with the shape of the result) -/
theorem disambiguate_some {fuel : Nat} {name : String} {collides : String → Bool} {r : String}
    (h : disambiguate fuel name collides = some r) :
    collides r = false ∧ isKeyword r = false ∧
      (r = name ∨ ∃ n, 2 ≤ n ∧ n < 2 + fuel ∧ r = baseOf name ++ toString n) := by
  simp only [disambiguate] at h
  split at h
  · rename_i hc
    simp only [Option.some.injEq] at h
    subst h
    simp only [Bool.and_eq_true, Bool.not_eq_eq_eq_not, Bool.not_true] at hc
    exact ⟨hc.2, hc.1, Or.inl rfl⟩
  · obtain ⟨h1, h2, m, hm1, hm2, hm3⟩ := disambLoop_some fuel 2 h
    exact ⟨h1, h2, Or.inr ⟨m, hm1, hm2, hm3⟩⟩

/-- totality from any finite cover `avoid` of the bad names -/
theorem disambiguate_isSome_of_cover {fuel : Nat} (name : String) {collides : String → Bool}
    {avoid : List String} (hav : ∀ s, bad collides s = true → s ∈ avoid) (hf : avoid.length < fuel) :
    ∃ r, disambiguate fuel name collides = some r := by
  simp only [disambiguate]
  split
  · exact ⟨_, rfl⟩
  · exact disambLoop_isSome hav fuel 2 hf

theorem goKeywords_length : goKeywords.length = 25 := by decide

theorem disambiguate_isSome {fuel : Nat} (name : String) {collides : String → Bool}
    {taken : List String} (ht : ∀ n, collides n = true → n ∈ taken)
    (hf : taken.length + goKeywords.length + 1 ≤ fuel) :
    ∃ r, disambiguate fuel name collides = some r := by
  refine disambiguate_isSome_of_cover name (bad_mem ht) ?_
  simp only [List.length_append]
  omega

/-- item 1 -/
theorem disambiguate_fresh (fuel : Nat) (name : String) (collides : String → Bool)
    (taken : List String) (ht : ∀ n, collides n = true → n ∈ taken)
    (hf : taken.length + goKeywords.length + 1 ≤ fuel) :
    ∃ r, disambiguate fuel name collides = some r ∧ collides r = false ∧ isKeyword r = false ∧
      (r = name ∨ ∃ n, 2 ≤ n ∧
        r = (if endsInDigit name then name ++ "_" else name) ++ toString n) := by
  obtain ⟨r, hr⟩ := disambiguate_isSome name ht hf
  obtain ⟨h1, h2, h3⟩ := disambiguate_some hr
  refine ⟨r, hr, h1, h2, ?_⟩
  rcases h3 with h3 | ⟨n, hn, _, hn'⟩
  · exact Or.inl h3
  · exact Or.inr ⟨n, hn, hn'⟩

/-- a name that is already fine is kept -/
theorem disambiguate_keep {fuel : Nat} {name : String} {collides : String → Bool}
    (hk : isKeyword name = false) (hc : collides name = false) :
    disambiguate fuel name collides = some name := by
  simp [disambiguate, hk, hc]

/-- the number chosen is the least one whose candidate is free -/
theorem disambLoop_least {collides : String → Bool} {base : String} :
    ∀ (fuel n m : Nat), disambLoop collides base fuel n = some (base ++ toString m) →
      ∀ k, n ≤ k → k < m → bad collides (base ++ toString k) = true
  | 0, _, _, h => by simp [disambLoop] at h
  | fuel + 1, n, m, h => by
    simp only [disambLoop] at h
    split at h
    · simp only [Option.some.injEq] at h
      have := cand_inj base h
      intro k h1 h2; omega
    · rename_i hc
      intro k h1 h2
      by_cases hkn : k = n
      · subst hkn
        simp only [bad]
        cases hk : isKeyword (base ++ toString k) <;> cases hcl : collides (base ++ toString k) <;>
          simp_all
      · exact disambLoop_least fuel (n + 1) m h k (by omega) h2

/-- determinism of the choice: when `name` itself is unusable the result is the numbered candidate
    with the least number `≥ 2` that is free -/
theorem disambiguate_least {fuel : Nat} {name : String} {collides : String → Bool} {r : String}
    (hb : bad collides name = true) (h : disambiguate fuel name collides = some r) :
    ∃ n, 2 ≤ n ∧ r = baseOf name ++ toString n ∧
      ∀ k, 2 ≤ k → k < n → bad collides (baseOf name ++ toString k) = true := by
  simp only [disambiguate] at h
  split at h
  · rename_i hc
    exfalso
    simp only [bad] at hb
    cases hk : isKeyword name <;> cases hcl : collides name <;> simp_all
  · obtain ⟨_, _, m, hm1, _, hm3⟩ := disambLoop_some fuel 2 h
    refine ⟨m, hm1, hm3, ?_⟩
    rw [hm3] at h
    exact disambLoop_least fuel 2 m h

/-! ## `typeVariableName` -/

theorem typeVariableName_some {fuel : Nat} {shape : TyShape} {dflt : String}
    {transform : String → String} {collides : String → Bool} {r : String}
    (h : typeVariableName fuel shape dflt transform collides = some r) :
    collides r = false ∧ isKeyword r = false := by
  simp only [typeVariableName] at h
  split at h
  · rename_i n hn
    simp only [Option.some.injEq] at h
    subst h
    have := List.find?_some hn
    simp only [Bool.and_eq_true, Bool.not_eq_eq_eq_not, Bool.not_true] at this
    exact ⟨this.2, this.1⟩
  · have := disambiguate_some h
    exact ⟨this.1, this.2.1⟩

theorem typeVariableName_isSome_of_cover {fuel : Nat} (shape : TyShape) (dflt : String)
    (transform : String → String) {collides : String → Bool}
    {avoid : List String} (hav : ∀ s, bad collides s = true → s ∈ avoid) (hf : avoid.length < fuel) :
    ∃ r, typeVariableName fuel shape dflt transform collides = some r := by
  simp only [typeVariableName]
  split
  · exact ⟨_, rfl⟩
  · exact disambiguate_isSome_of_cover _ hav hf

theorem typeVariableName_isSome {fuel : Nat} (shape : TyShape) (dflt : String)
    (transform : String → String) {collides : String → Bool}
    {taken : List String} (ht : ∀ n, collides n = true → n ∈ taken)
    (hf : taken.length + goKeywords.length + 1 ≤ fuel) :
    ∃ r, typeVariableName fuel shape dflt transform collides = some r := by
  refine typeVariableName_isSome_of_cover shape dflt transform (bad_mem ht) ?_
  simp only [List.length_append]
  omega

end WireP.NameProofs
