import WireP.Lemmas.NameProofsDisamb
import WireV.NameEmit
/-! # `nameInjector` (C14, items 4–5) -/
namespace WireP.NameProofs
open WireV

/-- every identifier of the file scope, as a list -/
def scopeList (e : NameEnv) : List String := e.imports.map (·.2) ++ e.values ++ e.fileScope

theorem inFileScope_iff (e : NameEnv) (n : String) : e.inFileScope n = true ↔ n ∈ scopeList e := by
  simp [NameEnv.inFileScope, scopeList, or_assoc]

theorem inFileScope_false_iff (e : NameEnv) (n : String) :
    e.inFileScope n = false ↔ n ∉ scopeList e := by
  rw [← inFileScope_iff]; simp

theorem scopeList_length (e : NameEnv) :
    (scopeList e).length = e.imports.length + e.values.length + e.fileScope.length := by
  simp [scopeList]; omega

theorem mem_all (ig : InjNames) (n : String) :
    n ∈ ig.all ↔ n = ig.errVar ∨ n ∈ ig.params ∨ n ∈ ig.locals ∨ n ∈ ig.cleanups := by
  simp [InjNames.all]

theorem inInjector_iff (e : NameEnv) (ig : InjNames) (n : String) :
    ig.inInjector e n = true ↔ n ∈ ig.all ∨ n ∈ scopeList e := by
  simp [InjNames.inInjector, mem_all, ← inFileScope_iff, or_assoc]

theorem inInjector_false_iff (e : NameEnv) (ig : InjNames) (n : String) :
    ig.inInjector e n = false ↔ n ∉ ig.all ∧ e.inFileScope n = false := by
  rw [inFileScope_false_iff, ← not_or, ← inInjector_iff]; simp

theorem inInjector_mem (e : NameEnv) (ig : InjNames) (n : String)
    (h : ig.inInjector e n = true) : n ∈ ig.all ++ scopeList e := by
  rw [List.mem_append]; exact (inInjector_iff e ig n).1 h

/-- the invariant of the injector's binder list -/
def Inv (e : NameEnv) (ig : InjNames) : Prop :=
  ig.all.Nodup ∧ ∀ n ∈ ig.all, e.inFileScope n = false ∧ isKeyword n = false

theorem all_addParam (ig : InjNames) (a : String) :
    ({ ig with params := ig.params ++ [a] } : InjNames).all.Perm (a :: ig.all) := by
  simp only [InjNames.all]
  refine (List.Perm.cons _ ?_).trans (List.Perm.swap _ _ _)
  simp only [List.append_assoc, List.singleton_append]
  exact List.perm_middle

theorem all_addLocal (ig : InjNames) (a : String) :
    ({ ig with locals := ig.locals ++ [a] } : InjNames).all.Perm (a :: ig.all) := by
  simp only [InjNames.all]
  refine (List.Perm.cons _ ?_).trans (List.Perm.swap _ _ _)
  rw [show ig.params ++ (ig.locals ++ [a]) ++ ig.cleanups
      = (ig.params ++ ig.locals) ++ a :: ig.cleanups by simp]
  exact List.perm_middle

theorem all_addCleanup (ig : InjNames) (a : String) :
    ({ ig with cleanups := ig.cleanups ++ [a] } : InjNames).all.Perm (a :: ig.all) := by
  simp only [InjNames.all]
  refine (List.Perm.cons _ ?_).trans (List.Perm.swap _ _ _)
  rw [← List.append_assoc]
  exact List.perm_append_singleton _ _

theorem Inv_of_perm {e : NameEnv} {ig ig' : InjNames} {a : String}
    (hp : ig'.all.Perm (a :: ig.all)) (hi : Inv e ig)
    (ha : ig.inInjector e a = false) (hk : isKeyword a = false) : Inv e ig' := by
  rw [inInjector_false_iff] at ha
  refine ⟨hp.nodup_iff.2 (List.nodup_cons.2 ⟨ha.1, hi.1⟩), ?_⟩
  intro n hn
  rcases List.mem_cons.1 (hp.mem_iff.1 hn) with rfl | hn
  · exact ⟨ha.2, hk⟩
  · exact hi.2 n hn

/-- the value `r` chosen for a parameter -/
def paramChoice (fuel : Nat) (e : NameEnv) (ig : InjNames) (p : ParamInfo) : Option String :=
  if p.name == "" || p.name == "_"
  then typeVariableName fuel p.shape "arg" unexportName (ig.inInjector e)
  else disambiguate fuel p.name (ig.inInjector e)

theorem paramChoice_some {fuel e ig p a} (h : paramChoice fuel e ig p = some a) :
    ig.inInjector e a = false ∧ isKeyword a = false := by
  simp only [paramChoice] at h
  split at h
  · exact typeVariableName_some h
  · have := disambiguate_some h; exact ⟨this.1, this.2.1⟩

theorem paramChoice_isSome {fuel e ig} (p : ParamInfo)
    (hf : goKeywords.length + ig.all.length + (scopeList e).length < fuel) :
    ∃ a, paramChoice fuel e ig p = some a := by
  have hav : ∀ s, bad (ig.inInjector e) s = true → s ∈ goKeywords ++ (ig.all ++ scopeList e) :=
    bad_mem (inInjector_mem e ig)
  have hl : (goKeywords ++ (ig.all ++ scopeList e)).length < fuel := by
    simp only [List.length_append]; omega
  simp only [paramChoice]
  split
  · exact typeVariableName_isSome_of_cover _ _ _ hav hl
  · exact disambiguate_isSome_of_cover _ hav hl

theorem nameParams_cons (fuel e ig p ps) :
    nameParams fuel e ig (p :: ps) =
      match paramChoice fuel e ig p with
      | none => none
      | some a => nameParams fuel e { ig with params := ig.params ++ [a] } ps := rfl

theorem nameParams_spec {fuel : Nat} {e : NameEnv} :
    ∀ (ps : List ParamInfo) (ig ig' : InjNames), nameParams fuel e ig ps = some ig' → Inv e ig →
      Inv e ig' ∧ ig'.errVar = ig.errVar ∧ ig'.params.length = ig.params.length + ps.length ∧
        ig'.locals = ig.locals ∧ ig'.cleanups = ig.cleanups
  | [], ig, ig', h, hi => by
    simp only [nameParams, Option.some.injEq] at h
    subst h; exact ⟨hi, rfl, rfl, rfl, rfl⟩
  | p :: ps, ig, ig', h, hi => by
    rw [nameParams_cons] at h
    split at h
    · simp at h
    · rename_i a ha
      have hc := paramChoice_some ha
      have := nameParams_spec ps _ ig' h (Inv_of_perm (all_addParam ig a) hi hc.1 hc.2)
      obtain ⟨h1, h2, h3, h4, h5⟩ := this
      refine ⟨h1, h2, ?_, h4, h5⟩
      simp only [List.length_append, List.length_cons, List.length_nil] at h3 ⊢
      omega

theorem all_length (ig : InjNames) :
    ig.all.length = 1 + ig.params.length + ig.locals.length + ig.cleanups.length := by
  simp [InjNames.all]; omega

theorem nameParams_isSome {fuel : Nat} {e : NameEnv} :
    ∀ (ps : List ParamInfo) (ig : InjNames),
      goKeywords.length + ig.all.length + ps.length + (scopeList e).length ≤ fuel →
      ∃ ig', nameParams fuel e ig ps = some ig'
  | [], ig, _ => ⟨ig, rfl⟩
  | p :: ps, ig, hf => by
    rw [nameParams_cons]
    simp only [List.length_cons] at hf
    obtain ⟨a, ha⟩ := paramChoice_isSome (fuel := fuel) (e := e) (ig := ig) p (by omega)
    rw [ha]
    apply nameParams_isSome ps
    rw [(all_addParam ig a).length_eq, List.length_cons]
    omega

end WireP.NameProofs
