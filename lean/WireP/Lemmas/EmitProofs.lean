import WireV.Emit
/-! Helper lemmas for C03 / C04: execution of the emitted injector under every fault plan. -/
namespace WireP.EmitProofs
open WireV

def isFn (c : Call) : Bool := c.kind == CallKind.func

/-- positions (from `pos`) of the provider-function calls -/
def fnPos (pos : Nat) : List Call → List Nat
  | [] => []
  | c :: cs => (if isFn c then [pos] else []) ++ fnPos (pos + 1) cs

/-- positions (from `pos`) of the cleanup-returning provider-function calls, in acquisition order -/
def clPos (pos : Nat) : List Call → List Nat
  | [] => []
  | c :: cs => (if isFn c && c.hasCleanup then [pos] else []) ++ clPos (pos + 1) cs

/-- `fails` hits an error-capable provider call at some position of `cs` (numbered from `pos`) -/
def NoFail (fails : Nat → Bool) (pos : Nat) : List Call → Prop
  | [] => True
  | c :: cs => ¬ (isFn c = true ∧ c.hasErr = true ∧ fails pos = true) ∧ NoFail fails (pos + 1) cs

theorem fnPos_append (pos : Nat) (a b : List Call) :
    fnPos pos (a ++ b) = fnPos pos a ++ fnPos (pos + a.length) b := by
  induction a generalizing pos with
  | nil => simp [fnPos]
  | cons x xs ih =>
    simp only [List.cons_append, fnPos, ih, List.length_cons, List.append_assoc]
    have : pos + 1 + xs.length = pos + (xs.length + 1) := by omega
    rw [this]

theorem clPos_append (pos : Nat) (a b : List Call) :
    clPos pos (a ++ b) = clPos pos a ++ clPos (pos + a.length) b := by
  induction a generalizing pos with
  | nil => simp [clPos]
  | cons x xs ih =>
    simp only [List.cons_append, clPos, ih, List.length_cons, List.append_assoc]
    have : pos + 1 + xs.length = pos + (xs.length + 1) := by omega
    rw [this]

theorem emitFrom_acq (sc : Bool) (pos : Nat) (acq : List Nat) (cs : List Call) :
    (emitFrom sc pos acq cs).2 = acq ++ clPos pos cs := by
  induction cs generalizing pos acq with
  | nil => simp [emitFrom, clPos]
  | cons c cs ih =>
    simp only [emitFrom, clPos]
    rw [ih]
    cases h1 : (c.kind == CallKind.func) <;> cases h2 : c.hasCleanup <;> simp [isFn, h1, h2]

/-- general form, starting at position `pos` with `acq` already acquired -/
theorem exec_spec (fails : Nat → Bool) (sc : Bool) (closure : Option (List Nat)) (pos : Nat)
    (acq : List Nat) (cs : List Call) :
    (NoFail fails pos cs →
      exec fails closure (emitFrom sc pos acq cs).1 = ((fnPos pos cs).map Ev.call, Outcome.ok closure)) ∧
    (∀ pre c post, cs = pre ++ c :: post → isFn c = true → c.hasErr = true →
      fails (pos + pre.length) = true → NoFail fails pos pre →
      exec fails closure (emitFrom sc pos acq cs).1 =
        ((fnPos pos pre ++ [pos + pre.length]).map Ev.call ++
           ((acq ++ clPos pos pre).reverse).map Ev.cleanup, Outcome.failed (pos + pre.length) sc)) := by
  induction cs generalizing pos acq with
  | nil =>
    refine ⟨fun _ => by simp [emitFrom, exec, fnPos], ?_⟩
    intro pre c post h
    cases pre <;> simp at h
  | cons x xs ih =>
    refine ⟨?_, ?_⟩
    · intro hok
      obtain ⟨hx, hrest'⟩ := hok
      have hrest := (ih (pos + 1) (if (x.kind == CallKind.func) && x.hasCleanup then acq ++ [pos] else acq)).1 hrest'
      simp only [emitFrom, exec, fnPos]
      cases hk : (x.kind == CallKind.func)
      · simp [hk] at hrest
        simp [isFn, hk, hrest]
      · cases he : x.hasErr
        · simp [hk] at hrest
          simp [isFn, hk, hrest]
        · have hf : fails pos = false := by
            cases hfx : fails pos
            · rfl
            · exact absurd ⟨by simp [isFn, hk], he, hfx⟩ hx
          simp [hk] at hrest
          simp [isFn, hk, hf, hrest]
    · intro pre c post hcs hck hce hcf hpre
      cases pre with
      | nil =>
        simp at hcs
        obtain ⟨rfl, rfl⟩ := hcs
        have hk : (x.kind == CallKind.func) = true := by simpa [isFn] using hck
        simp at hcf
        simp [emitFrom, exec, hk, hce, hcf, clPos, fnPos]
      | cons p pre' =>
        simp at hcs
        obtain ⟨hpx, rfl⟩ := hcs
        subst hpx
        obtain ⟨hp, hpre'⟩ := hpre
        have hcf' : fails (pos + 1 + pre'.length) = true := by
          have : pos + 1 + pre'.length = pos + (pre'.length + 1) := by omega
          rw [this]; simpa using hcf
        have hrest := (ih (pos + 1) (if (x.kind == CallKind.func) && x.hasCleanup then acq ++ [pos] else acq)).2
          pre' c post rfl hck hce hcf' hpre'
        have hlen : pos + (x :: pre').length = pos + 1 + pre'.length := by simp; omega
        rw [hlen]
        simp only [emitFrom, exec]
        have hacq : (if (x.kind == CallKind.func) && x.hasCleanup then acq ++ [pos] else acq) ++ clPos (pos + 1) pre'
            = acq ++ clPos pos (x :: pre') := by
          cases h1 : (x.kind == CallKind.func) <;> cases h2 : x.hasCleanup <;> simp [clPos, isFn, h1, h2]
        rw [hacq] at hrest
        cases hk : (x.kind == CallKind.func)
        · simp [hk] at hrest
          simp [isFn, hk, hrest, fnPos]
        · cases he : x.hasErr
          · simp [hk] at hrest
            simp [isFn, hk, hrest, fnPos]
          · have hf : fails pos = false := by
              cases hfx : fails pos
              · rfl
              · exact absurd ⟨by simp [isFn, hk], he, hfx⟩ hp
            simp [hk] at hrest
            simp [isFn, hk, hf, hrest, fnPos]

theorem run_ok (fails : Nat → Bool) (sc se : Bool) (cs : List Call) (hok : NoFail fails 0 cs) :
    runInj fails sc se cs =
      ((fnPos 0 cs).map Ev.call, Outcome.ok (if sc then some (clPos 0 cs).reverse else none)) := by
  unfold runInj emitInj
  have := (exec_spec fails sc (if sc then some (emitFrom sc 0 [] cs).2.reverse else none) 0 [] cs).1 hok
  simp only [emitFrom_acq, List.nil_append] at this ⊢
  exact this

theorem run_fail (fails : Nat → Bool) (sc se : Bool) (pre post : List Call) (c : Call)
    (hck : isFn c = true) (hce : c.hasErr = true) (hcf : fails pre.length = true)
    (hpre : NoFail fails 0 pre) :
    runInj fails sc se (pre ++ c :: post) =
      ((fnPos 0 pre ++ [pre.length]).map Ev.call ++ (clPos 0 pre).reverse.map Ev.cleanup,
       Outcome.failed pre.length sc) := by
  unfold runInj emitInj
  have := (exec_spec fails sc (if sc then some (emitFrom sc 0 [] (pre ++ c :: post)).2.reverse else none)
    0 [] (pre ++ c :: post)).2 pre c post rfl hck hce (by simpa using hcf) hpre
  simpa using this

end WireP.EmitProofs
