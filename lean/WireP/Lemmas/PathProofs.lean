import WireV.Path
/-! # Lemmas for C16, part 1 — `isPrefixC`, `occurrences`, `lastIndex`, `unvendorC` (`WireV/Path.lean`) -/
namespace WireP.PathProofs
open WireV

/-! ## `isPrefixC` -/

theorem isPrefixC_iff (n h : List Char) : isPrefixC n h = true ↔ ∃ t, h = n ++ t := by
  induction n generalizing h with
  | nil => simp [isPrefixC]
  | cons a as ih =>
    cases h with
    | nil => simp [isPrefixC]
    | cons b bs =>
      simp only [isPrefixC, Bool.and_eq_true, beq_iff_eq, ih, List.cons_append, List.cons.injEq]
      constructor
      · rintro ⟨rfl, t, rfl⟩; exact ⟨t, rfl, rfl⟩
      · rintro ⟨t, rfl, rfl⟩; exact ⟨rfl, t, rfl⟩

theorem isPrefixC_append (n t : List Char) : isPrefixC n (n ++ t) = true :=
  (isPrefixC_iff _ _).mpr ⟨t, rfl⟩

theorem isPrefixC_nil_hay {n : List Char} (hn : n ≠ []) : isPrefixC n [] = false := by
  cases n with
  | nil => exact absurd rfl hn
  | cons a as => rfl

/-! ## `occurrences` and the recursion equation of `lastIndex` -/

theorem occurrences_shift (n : List Char) (h : List Char) (i : Nat) :
    occurrences n h i = (occurrences n h 0).map (· + i) := by
  induction h generalizing i with
  | nil => simp only [occurrences]; split <;> simp
  | cons c cs ih =>
    simp only [occurrences, List.map_append]
    rw [ih (i + 1), ih (0 + 1)]
    congr 1
    · split <;> simp
    · simp only [List.map_map]
      apply List.map_congr_left
      intro a _
      simp only [Function.comp]; omega

theorem lastIndex_nil {n : List Char} (hn : n ≠ []) : lastIndex n [] = none := by
  cases n with
  | nil => exact absurd rfl hn
  | cons a as => rfl

/-- `lastIndex` by recursion on the haystack -/
theorem lastIndex_cons (n : List Char) (c : Char) (cs : List Char) :
    lastIndex n (c :: cs) =
      match lastIndex n cs with
      | some k => some (k + 1)
      | none => if isPrefixC n (c :: cs) then some 0 else none := by
  simp only [lastIndex, occurrences, List.getLast?_append]
  rw [occurrences_shift n cs (0 + 1), List.getLast?_map]
  cases (occurrences n cs 0).getLast? with
  | some k => simp
  | none => split <;> simp

theorem lastIndex_cons_none {n : List Char} {c : Char} {cs : List Char} :
    lastIndex n (c :: cs) = none ↔ lastIndex n cs = none ∧ isPrefixC n (c :: cs) = false := by
  rw [lastIndex_cons]
  cases lastIndex n cs with
  | some k => simp
  | none => cases isPrefixC n (c :: cs) <;> simp

/-- no occurrence at all ⇔ no suffix starts with the needle -/
theorem lastIndex_none_iff {n : List Char} (hn : n ≠ []) (h : List Char) :
    lastIndex n h = none ↔ ∀ j, isPrefixC n (h.drop j) = false := by
  induction h with
  | nil => simp [lastIndex_nil hn, isPrefixC_nil_hay hn]
  | cons c cs ih =>
    rw [lastIndex_cons_none, ih]
    constructor
    · rintro ⟨h1, h2⟩ j
      cases j with
      | zero => simpa using h2
      | succ j => simpa using h1 j
    · intro hall
      exact ⟨fun j => by simpa using hall (j + 1), by simpa using hall 0⟩

theorem lastIndex_none_drop {n : List Char} (hn : n ≠ []) {h : List Char}
    (hnone : lastIndex n h = none) (j : Nat) : lastIndex n (h.drop j) = none := by
  rw [lastIndex_none_iff hn] at hnone ⊢
  intro k
  rw [List.drop_drop]
  exact hnone _

theorem lastIndex_none_isPrefixC {n : List Char} (hn : n ≠ []) {h : List Char}
    (hnone : lastIndex n h = none) : isPrefixC n h = false := by
  simpa using (lastIndex_none_iff hn h).mp hnone 0

/-- `lastIndex n h = some i`: the needle occurs at `i` and nowhere later -/
theorem lastIndex_some {n : List Char} (hn : n ≠ []) {h : List Char} {i : Nat}
    (hs : lastIndex n h = some i) :
    isPrefixC n (h.drop i) = true ∧ lastIndex n (h.drop (i + 1)) = none := by
  induction h generalizing i with
  | nil => rw [lastIndex_nil hn] at hs; cases hs
  | cons c cs ih =>
    rw [lastIndex_cons] at hs
    cases hl : lastIndex n cs with
    | some k =>
      rw [hl] at hs
      simp only [Option.some.injEq] at hs
      subst hs
      simpa using ih hl
    | none =>
      rw [hl] at hs
      simp only [] at hs
      split at hs
      · rename_i hp
        cases hs
        exact ⟨by simpa using hp, by simpa using hl⟩
      · cases hs

theorem lastIndex_some_iff {n : List Char} (hn : n ≠ []) {h : List Char} {i : Nat} :
    lastIndex n h = some i ↔
      isPrefixC n (h.drop i) = true ∧ ∀ j, i < j → isPrefixC n (h.drop j) = false := by
  constructor
  · intro hs
    obtain ⟨h1, h2⟩ := lastIndex_some hn hs
    refine ⟨h1, fun j hj => ?_⟩
    have := (lastIndex_none_iff hn _).mp h2 (j - (i + 1))
    rw [List.drop_drop] at this
    have e : i + 1 + (j - (i + 1)) = j := by omega
    rwa [e] at this
  · rintro ⟨h1, h2⟩
    cases hl : lastIndex n h with
    | none =>
      have := (lastIndex_none_iff hn h).mp hl i
      rw [h1] at this; cases this
    | some k =>
      obtain ⟨k1, k2⟩ := lastIndex_some hn hl
      have k2' := (lastIndex_none_iff hn _).mp k2
      congr 1
      rcases Nat.lt_trichotomy k i with hlt | heq | hgt
      · have := k2' (i - (k + 1))
        rw [List.drop_drop] at this
        have e : k + 1 + (i - (k + 1)) = i := by omega
        rw [e, h1] at this; cases this
      · exact heq
      · have := h2 k hgt
        rw [k1] at this; cases this

/-- placing the haystack behind any prefix `q`: the last occurrence moves by `q.length` -/
theorem lastIndex_append_some (n q : List Char) {h : List Char} {i : Nat}
    (hs : lastIndex n h = some i) : lastIndex n (q ++ h) = some (q.length + i) := by
  induction q with
  | nil => simpa using hs
  | cons c q ih =>
    rw [List.cons_append, lastIndex_cons, ih]
    simp only [List.length_cons, Option.some.injEq]; omega

/-! ## the vendor element -/

theorem vendorElem_eq : vendorElem = ['/', 'v', 'e', 'n', 'd', 'o', 'r', '/'] := by decide

theorem vendorSlash_eq : "vendor/".toList = ['v', 'e', 'n', 'd', 'o', 'r', '/'] := by decide

theorem vendorElem_ne_nil : vendorElem ≠ [] := by decide

theorem vendorElem_length : vendorElem.length = 8 := by decide

theorem vendorElem_split : vendorElem = '/' :: "vendor/".toList := by decide

/-- no `vendor` path element: neither `…/vendor/…` nor a leading `vendor/` -/
def NoVendorElem (p : List Char) : Prop :=
  lastIndex vendorElem p = none ∧ isPrefixC "vendor/".toList p = false

instance (p : List Char) : Decidable (NoVendorElem p) := by unfold NoVendorElem; infer_instance

theorem unvendor_id {p : List Char} (h : NoVendorElem p) : unvendorC p = p := by
  unfold unvendorC
  rw [h.1, h.2]
  rfl

/-- `vendor/` followed by a path without vendor element contains no `/vendor/` -/
theorem lastIndex_vendorSlash {p : List Char} (h : NoVendorElem p) :
    lastIndex vendorElem ("vendor/".toList ++ p) = none := by
  obtain ⟨h1, h2⟩ := h
  have h3 : isPrefixC vendorElem ('/' :: p) = false := by
    rw [vendorElem_split]; simpa [isPrefixC] using h2
  rw [vendorSlash_eq]
  simp only [List.cons_append, List.nil_append, lastIndex_cons_none, h1, h3, true_and]
  simp [vendorElem_eq, isPrefixC]

theorem lastIndex_vendorElem {p : List Char} (h : NoVendorElem p) :
    lastIndex vendorElem (vendorElem ++ p) = some 0 := by
  have h0 := lastIndex_vendorSlash h
  have : vendorElem ++ p = '/' :: ("vendor/".toList ++ p) := by rw [vendorElem_split]; rfl
  rw [this, lastIndex_cons, h0, ← this, isPrefixC_append]
  rfl

theorem unvendor_canonical_elem {p : List Char} (h : NoVendorElem p) (q : List Char) :
    unvendorC (q ++ vendorElem ++ p) = p := by
  have hl : lastIndex vendorElem (q ++ (vendorElem ++ p)) = some (q.length + 0) :=
    lastIndex_append_some _ q (lastIndex_vendorElem h)
  rw [List.append_assoc]
  simp only [unvendorC, hl, Nat.add_zero]
  rw [← List.append_assoc, List.drop_left' (by simp)]

theorem unvendor_canonical_lead {p : List Char} (h : NoVendorElem p) :
    unvendorC ("vendor/".toList ++ p) = p := by
  have h7 : "vendor/".toList.length = 7 := by decide
  simp only [unvendorC, lastIndex_vendorSlash h, isPrefixC_append, if_true]
  exact List.drop_left' h7

theorem unvendor_canonical {p : List Char} (h : NoVendorElem p) (q : List Char) :
    unvendorC (q ++ vendorElem ++ p) = p ∧ unvendorC ("vendor/".toList ++ p) = p :=
  ⟨unvendor_canonical_elem h q, unvendor_canonical_lead h⟩

/-! ## the result never contains a vendor element; idempotence -/

theorem drop_of_isPrefixC {n h : List Char} (hp : isPrefixC n h = true) :
    h = n ++ h.drop n.length := by
  obtain ⟨t, rfl⟩ := (isPrefixC_iff _ _).mp hp
  simp

theorem unvendor_noVendor (p : List Char) : NoVendorElem (unvendorC p) := by
  have hne := vendorElem_ne_nil
  unfold unvendorC
  cases hl : lastIndex vendorElem p with
  | some i =>
    simp only []
    obtain ⟨h1, h2⟩ := lastIndex_some hne hl
    have h2' := (lastIndex_none_iff hne _).mp h2
    have hd : p.drop i = vendorElem ++ p.drop (i + vendorElem.length) := by
      have := drop_of_isPrefixC h1
      rwa [List.drop_drop] at this
    constructor
    · have := lastIndex_none_drop hne h2 (vendorElem.length - 1)
      rw [List.drop_drop] at this
      have e : i + 1 + (vendorElem.length - 1) = i + vendorElem.length := by
        rw [vendorElem_length]
      rwa [e] at this
    · cases hp : isPrefixC "vendor/".toList (p.drop (i + vendorElem.length)) with
      | false => rfl
      | true =>
        exfalso
        obtain ⟨t, ht⟩ := (isPrefixC_iff _ _).mp hp
        -- then `/vendor/` also occurs at `i + 7`
        have h7 : p.drop (i + 1 + 6) = vendorElem ++ t := by
          have : p.drop (i + 1 + 6) = (p.drop i).drop 7 := by
            rw [List.drop_drop]
          rw [this, hd, ht, vendorElem_split]
          rfl
        have := h2' 6
        rw [List.drop_drop, h7, isPrefixC_append] at this
        cases this
  | none =>
    simp only []
    have hall := (lastIndex_none_iff hne _).mp hl
    split
    · rename_i hp
      constructor
      · exact lastIndex_none_drop hne hl 7
      · cases hp2 : isPrefixC "vendor/".toList (p.drop 7) with
        | false => rfl
        | true =>
          exfalso
          obtain ⟨t, ht⟩ := (isPrefixC_iff _ _).mp hp2
          have hp' := drop_of_isPrefixC hp
          have h7 : "vendor/".toList.length = 7 := by decide
          rw [h7, ht] at hp'
          have h6 : p.drop 6 = vendorElem ++ t := by
            rw [hp', vendorElem_split]; rfl
          have := hall 6
          rw [h6, isPrefixC_append] at this
          cases this
    · rename_i hp
      exact ⟨hl, by simpa using hp⟩

theorem unvendor_idem (p : List Char) : unvendorC (unvendorC p) = unvendorC p :=
  unvendor_id (unvendor_noVendor p)

/-- the result is a suffix of the input -/
theorem unvendor_suffix (p : List Char) : ∃ q, p = q ++ unvendorC p := by
  unfold unvendorC
  split
  · exact ⟨_, (List.take_append_drop _ _).symm⟩
  · split
    · exact ⟨_, (List.take_append_drop _ _).symm⟩
    · exact ⟨[], rfl⟩

/-! ## `String` level -/

theorem unvendor_toList (p : String) : (unvendor p).toList = unvendorC p.toList := by
  simp [unvendor]

theorem unvendor_idem_string (p : String) : unvendor (unvendor p) = unvendor p := by
  simp only [unvendor, String.toList_ofList, unvendor_idem]

theorem unvendor_id_string {p : String} (h : NoVendorElem p.toList) : unvendor p = p := by
  simp only [unvendor, unvendor_id h, String.ofList_toList]

theorem unvendor_canonical_string {p : String} (h : NoVendorElem p.toList) (q : String) :
    unvendor (q ++ "/vendor/" ++ p) = p ∧ unvendor ("vendor/" ++ p) = p := by
  have := unvendor_canonical h q.toList
  simp only [unvendor, String.toList_append]
  exact ⟨by rw [show "/vendor/".toList = vendorElem from rfl, this.1, String.ofList_toList],
         by rw [this.2, String.ofList_toList]⟩

theorem isWireImport_spec (p : String) :
    isWireImport p = true ↔ unvendor p = "github.com/google/wire" := by
  simp [isWireImport]

/-! ## cheap evaluation on string literals

The kernel unfolds a literal `"abc"` to `String.ofList ['a','b','c']` for free, whereas evaluating
`"abc".toList` through the UTF-8 representation costs seconds; these helpers let the examples be
checked by `decide` on character lists (`… rfl rfl (by decide)`). -/

theorem unvendor_lit {s r : String} {l m : List Char} (hs : s = String.ofList l)
    (hr : String.ofList m = r) (h : unvendorC l = m) : unvendor s = r := by
  subst hs; subst hr; simp [unvendor, h]

theorem isWireImport_lit {s : String} {l m : List Char} {b : Bool} (hs : s = String.ofList l)
    (hw : "github.com/google/wire" = String.ofList m) (h : decide (unvendorC l = m) = b) :
    isWireImport s = b := by
  subst hs; subst h
  rw [isWireImport, hw, unvendor]
  simp only [String.toList_ofList]
  by_cases hm : unvendorC l = m
  · simp [hm]
  · have : String.ofList (unvendorC l) ≠ String.ofList m := fun he => hm (String.ofList_injective he)
    simp [hm, this]

theorem noVendorElem_lit {s : String} {l : List Char} (hs : s = String.ofList l)
    (h : NoVendorElem l) : NoVendorElem s.toList := by
  subst hs; rwa [String.toList_ofList]

theorem not_noVendorElem_lit {s : String} {l : List Char} (hs : s = String.ofList l)
    (h : ¬ NoVendorElem l) : ¬ NoVendorElem s.toList := by
  subst hs; rwa [String.toList_ofList]

theorem lastIndex_lit {n s : String} {ln l : List Char} {r : Option Nat} (hn : n = String.ofList ln)
    (hs : s = String.ofList l) (h : lastIndex ln l = r) : lastIndex n.toList s.toList = r := by
  subst hn; subst hs; rwa [String.toList_ofList, String.toList_ofList]

end WireP.PathProofs
