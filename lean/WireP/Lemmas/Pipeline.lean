import WireP.Lemmas.PipelineDefs
import WireP.Lemmas.PipelineAcyclic
import WireP.Lemmas.PipelineFront
import WireP.Lemmas.PipelineSolve
import WireP.Lemmas.PipelineSpec
import WireP.Lemmas.PipelineReject
import WireP.Lemmas.PipelineAccept
import WireP.Lemmas.PipelineCongr
import WireP.Lemmas.PipelinePerm
import WireP.Lemmas.PipelineUsed
/-! # Pipeline lemmas, collected (Task E)

* `PipelineDefs`    — vocabulary (`namespace WireP.Pipeline`): `BuildLast`, `OrderCovers`, `DirectItem`,
                      `PlanSpec`, `SetAcceptable`, `AllAcceptable`, `SetPerm`, `DistinctIds`
* `PipelineAcyclic` — 1. `acyclic_of_not_cyclic` (and the converse)
* `PipelineFront`   — 2. `planLast_hyps`; `OrderCovers` ⇒ every key of every accepted map is in the order
* `PipelineSolve`   — `solve` unfolded; a missing type is *named*; `verifyArgsUsed` via `DirectItem`
* `PipelineSpec`    — 3. `planLast_ok_spec`
* `PipelineReject`  — 4. `planLast_rejects_{missing,unused,cycle,dup,import,…}`
* `PipelineAccept`  — 5. `planLast_accepts` (multi-set) and `planLast_accepts_single`
* `PipelineCongr`, `PipelinePerm` — 6. `planLast_perm` (all sets reordered)
* `PipelineUsed`    — `items_used`: the input-level reading of "every direct item is used" -/
