import WireV.Sets
import WireP.Lemmas.AcyclicDefs
import WireP.Lemmas.PMapProofs
import WireP.Lemmas.SolveDefs
/-! # Vocabulary of the pipeline theorems (`WireP/Props/Pipeline.lean`)

Definitions only (namespace `WireP.Pipeline`); the lemmas are in `WireP/Lemmas/Pipeline*.lean`
(namespace `WireP.PipelineProofs`). -/
namespace WireP.Pipeline
open WireV WireP.C05 WireP.C07 WireP.Solve

/-- only the last definition (the `wire.Build` call) has injector arguments -/
def BuildLast (ds : List SetDef) : Prop := ∀ d ∈ ds.dropLast, d.args = none

/-- the types a set definition itself declares as provided -/
def ownSources (d : SetDef) : List Ty :=
  d.args.getD [] ++ d.provs.flatMap (·.outs) ++ d.vals.map (·.out) ++ d.flds.flatMap (·.outs)
    ++ d.bnds.map (·.iface)

/-- the type order handed to the model lists every type some set provides (the harness passes all
    types of the program, sorted by their printed form) -/
def OrderCovers (order : List Ty) (ds : List SetDef) : Prop :=
  ∀ d ∈ ds, ∀ t ∈ ownSources d, t ∈ order

/-- `DirectItem d impIds src e`: `src` is the identity of a direct item of the set `d` (an imported
    set, a provider, a value, a binding or a field) and `e` is the diagnostic issued if it is unused -/
inductive DirectItem (d : SetDef) (impIds : List Nat) : SrcId → Err → Prop
  | imp (i : Nat) : i ∈ impIds → DirectItem d impIds (.imp i) (.unusedSet i)
  | prov (p : Prov) : p ∈ d.provs → DirectItem d impIds (.prov p.id) (.unusedProv p.id)
  | val (v : Val) : v ∈ d.vals → DirectItem d impIds (.val v.id) (.unusedVal v.id)
  | bnd (b : Bnd) : b ∈ d.bnds → DirectItem d impIds (.bnd b.id) (.unusedBnd b.id)
  | fld (f : Fld) : f ∈ d.flds → DirectItem d impIds (.fld f.id) (.unusedFld f.id)

/-- everything the planner theorems (C02, C06, C08, C11) say about a call list, for the map `pm`,
    source map `sm`, given types `given` and requested type `out`; `d`/`impIds` are the last set and
    the identities of its imported sets -/
structure PlanSpec (d : SetDef) (impIds : List Nat) (pm : PMap) (sm : SMap) (given : List Ty)
    (out : Ty) (calls : List Call) : Prop where
  /-- the call list is the machine's -/
  calls_eq : calls = (final pm sm given out).calls
  /-- C02: each call is for a concrete, non-argument key of the map, is `mkCall` of that entry, has
      one argument per dependency, and argument `j` is an earlier variable holding the (resolved)
      type of dependency `j` -/
  call_sound : ∀ (p : Nat) c, calls[p]? = some c →
    ∃ pt, look c.out pm = some pt ∧ pt.t = c.out ∧ (∀ i, pt.src ≠ .arg i) ∧
      mkCall c.out pt.src c.args = some c ∧ c.args.length = (depsOf pt.src).length ∧
      ∀ (j : Nat) a dd, c.args[j]? = some a → (depsOf pt.src)[j]? = some dd →
        a < given.length + p ∧ produced given calls a = some (resolveTy pm dd)
  /-- C02: no type is built twice -/
  outs_nodup : (calls.map (·.out)).Nodup
  /-- C02: no given type is built -/
  outs_not_given : ∀ c ∈ calls, c.out ∉ given
  /-- C02: only what the requested type needs is built -/
  only_needed : ∀ c ∈ calls, Reach pm out c.out
  /-- C02: the requested type is indexed with a variable that holds it -/
  result : ∃ n, look out (final pm sm given out).index = some (some n) ∧
    produced given calls n = some (resolveTy pm out)
  /-- C02: what `injectPass` returns -/
  result_last : calls ≠ [] → (calls.getLast?).map (·.out) = some (resolveTy pm out)
  /-- C06: nothing needed is missing -/
  no_missing : ∀ u, Reach pm out u → u ∈ given ∨ (look u pm).isSome
  /-- C08: every direct item of the set is the source of a needed, non-given type -/
  all_used : ∀ src e, DirectItem d impIds src e →
    ∃ t, Reach pm out t ∧ t ∉ given ∧ look t sm = some src
  /-- C11: a binding produces no call -/
  bind_no_call : ∀ k pt, look k pm = some pt → pt.t ≠ k → ∀ c ∈ calls, c.out ≠ k
  /-- C11: a needed binding shares the variable of its concrete type -/
  bind_value : ∀ k pt, look k pm = some pt → pt.t ≠ k → Reach pm out k →
    ∃ n, look k (final pm sm given out).index = some (some n) ∧
      look pt.t (final pm sm given out).index = some (some n) ∧
      produced given calls n = some pt.t

/-- the conditions under which the front half accepts the set `d`, given the results `done` of the
    sets before it: imports refer to earlier sets; every type has one source; every binding's
    concrete type has a (non-binding) source; the provider graph of the resulting map has no cycle -/
def SetAcceptable (done : List (Nat × SetRes)) (d : SetDef) : Prop :=
  (∀ i ∈ d.imports, i < done.length) ∧
  ∀ impMaps, importsOf done d = .ok impMaps →
    (allSources d.args impMaps d.provs d.vals d.flds d.bnds).Nodup ∧
    (∀ b ∈ d.bnds, b.provided ∈ baseSources d.args impMaps d.provs d.vals d.flds) ∧
    ∀ pm sm, buildProviderMap d.args impMaps d.provs d.vals d.flds d.bnds = .ok (pm, sm) →
      ¬ Cyclic (succOf pm)

/-- every set of the program satisfies the front-end conditions -/
def AllAcceptable (order : List Ty) (ds : List SetDef) : Prop :=
  ∀ j dj, ds[j]? = some dj → SetAcceptable (procSets order (ds.take j)) dj

/-- the same set with its items declared in another order -/
structure SetPerm (d d' : SetDef) : Prop where
  id : d.id = d'.id
  args : d.args = d'.args
  imports : d.imports = d'.imports
  provs : d.provs.Perm d'.provs
  vals : d.vals.Perm d'.vals
  flds : d.flds.Perm d'.flds
  bnds : d.bnds.Perm d'.bnds

theorem SetPerm.refl (d : SetDef) : SetPerm d d :=
  ⟨rfl, rfl, rfl, .refl _, .refl _, .refl _, .refl _⟩

theorem SetPerm.symm {d d' : SetDef} (h : SetPerm d d') : SetPerm d' d :=
  ⟨h.id.symm, h.args.symm, h.imports.symm, h.provs.symm, h.vals.symm, h.flds.symm, h.bnds.symm⟩

/-- item identities are distinct within each kind (Go: they are pointers to distinct objects) -/
structure DistinctIds (d : SetDef) : Prop where
  provs : (d.provs.map (·.id)).Nodup
  vals : (d.vals.map (·.id)).Nodup
  flds : (d.flds.map (·.id)).Nodup
  bnds : (d.bnds.map (·.id)).Nodup

end WireP.Pipeline
