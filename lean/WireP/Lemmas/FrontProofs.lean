import WireV.Front
import WireP.Props.C09
/-! # Lemmas for C12 — field selection of `wire.Struct` / `wire.FieldsOf` (`WireV/Front.lean`) -/
namespace WireP.FrontProofs
open WireV

/-- `Except` has no derived `DecidableEq` in core; needed for the `decide` examples -/
instance instDecEqExcept {ε α : Type} [DecidableEq ε] [DecidableEq α] : DecidableEq (Except ε α)
  | .ok a, .ok b => if h : a = b then isTrue (by rw [h]) else isFalse (fun h' => h (by cases h'; rfl))
  | .error a, .error b => if h : a = b then isTrue (by rw [h]) else isFalse (fun h' => h (by cases h'; rfl))
  | .ok _, .error _ => isFalse (fun h => by cases h)
  | .error _, .ok _ => isFalse (fun h => by cases h)

/-! ## `find?` by name -/

theorem find_name_some {fs : List FieldDecl} {s : String} {f : FieldDecl}
    (h : fs.find? (fun f => f.name == s) = some f) : f ∈ fs ∧ f.name = s := by
  refine ⟨List.mem_of_find?_eq_some h, ?_⟩
  have := List.find?_some h
  simpa using this

theorem find_name_none {fs : List FieldDecl} {s : String} :
    fs.find? (fun f => f.name == s) = none ↔ ∀ f ∈ fs, f.name ≠ s := by
  simp [List.find?_eq_none]

/-- with distinct names, a field is determined by its name -/
theorem name_inj {fs : List FieldDecl} (hnd : (fs.map (·.name)).Nodup) {f g : FieldDecl}
    (hf : f ∈ fs) (hg : g ∈ fs) (h : f.name = g.name) : f = g := by
  induction fs with
  | nil => cases hf
  | cons a rest ih =>
    simp only [List.map_cons, List.nodup_cons, List.mem_map, not_exists, not_and] at hnd
    rcases List.mem_cons.mp hf with rfl | hf' <;> rcases List.mem_cons.mp hg with rfl | hg'
    · rfl
    · exact absurd h.symm (hnd.1 g hg')
    · exact absurd h (hnd.1 f hf')
    · exact ih hnd.2 hf' hg'

theorem find_name_of_nodup {fs : List FieldDecl} (hnd : (fs.map (·.name)).Nodup) {f : FieldDecl}
    (hf : f ∈ fs) : fs.find? (fun g => g.name == f.name) = some f := by
  cases hfind : fs.find? (fun g => g.name == f.name) with
  | none => exact absurd rfl (find_name_none.mp hfind f hf)
  | some g =>
    obtain ⟨hg, hn⟩ := find_name_some hfind
    rw [name_inj hnd hg hf hn]

/-! ## `find?` by name, never matching the blank name `"_"` -/

theorem find_blank_eq {fs : List FieldDecl} {s : String} (hs : s ≠ "_") :
    fs.find? (fun f => f.name == s && s != "_") = fs.find? (fun f => f.name == s) := by
  have : (fun f : FieldDecl => f.name == s && s != "_") = (fun f => f.name == s) := by
    funext f; simp [hs]
  rw [this]

theorem find_blank_some {fs : List FieldDecl} {s : String} {f : FieldDecl}
    (h : fs.find? (fun f => f.name == s && s != "_") = some f) : f ∈ fs ∧ f.name = s ∧ s ≠ "_" := by
  refine ⟨List.mem_of_find?_eq_some h, ?_⟩
  have := List.find?_some h
  simpa using this

theorem find_blank_none {fs : List FieldDecl} {s : String} :
    fs.find? (fun f => f.name == s && s != "_") = none ↔ (s = "_" ∨ ∀ f ∈ fs, f.name ≠ s) := by
  by_cases hs : s = "_"
  · subst hs; simp
  · rw [find_blank_eq hs, find_name_none]; simp [hs]

/-! ## `checkField` -/

theorem checkField_exact {fs : List FieldDecl} {s : String} {f : FieldDecl}
    (h : checkField fs (.str s) = .ok f) :
    f ∈ fs ∧ f.name = s ∧ f.prevented = false ∧ f.name ≠ "_" := by
  simp only [checkField] at h
  split at h
  · cases h
  · rename_i g hg
    split at h
    · cases h
    · rename_i hp
      cases h
      obtain ⟨h1, h2, h3⟩ := find_blank_some hg
      exact ⟨h1, h2, by simpa using hp, by rw [h2]; exact h3⟩

theorem checkField_unknown_iff {fs : List FieldDecl} {s : String} :
    checkField fs (.str s) = .error (.notField s) ↔ (s = "_" ∨ ∀ f ∈ fs, f.name ≠ s) := by
  rw [← find_blank_none]
  simp only [checkField]
  constructor
  · intro h
    split at h
    · assumption
    · split at h <;> cases h
  · intro h
    rw [h]

theorem checkField_unknown {fs : List FieldDecl} {s : String} (h : s = "_" ∨ ∀ f ∈ fs, f.name ≠ s) :
    checkField fs (.str s) = .error (.notField s) :=
  checkField_unknown_iff.mpr h

/-- the blank name never denotes a field, whatever the struct declares -/
theorem checkField_blank (fs : List FieldDecl) : checkField fs (.str "_") = .error (.notField "_") :=
  checkField_unknown (.inl rfl)

theorem checkField_prevented {fs : List FieldDecl} {s : String} {f : FieldDecl}
    (hnd : (fs.map (·.name)).Nodup) (hf : f ∈ fs) (hn : f.name = s) (hb : s ≠ "_")
    (hp : f.prevented = true) :
    checkField fs (.str s) = .error (.prevented s) := by
  subst hn
  simp only [checkField, find_blank_eq hb, find_name_of_nodup hnd hf, hp, if_true]

theorem checkField_found {fs : List FieldDecl} {f : FieldDecl}
    (hnd : (fs.map (·.name)).Nodup) (hf : f ∈ fs) (hb : f.name ≠ "_") (hp : f.prevented = false) :
    checkField fs (.str f.name) = .ok f := by
  simp [checkField, find_blank_eq hb, find_name_of_nodup hnd hf, hp]

theorem checkField_nonliteral (fs : List FieldDecl) : checkField fs .other = .error .notString := rfl

/-- every outcome of `checkField` on a literal (used for the rejection theorem) -/
theorem checkField_ok_name {fs : List FieldDecl} {a : FieldArg} {f : FieldDecl}
    (h : checkField fs a = .ok f) :
    a = FieldArg.str f.name ∧ f ∈ fs ∧ f.prevented = false ∧ f.name ≠ "_" := by
  cases a with
  | other => cases h
  | str s =>
    obtain ⟨h1, h2, h3, h4⟩ := checkField_exact h
    exact ⟨by rw [h2], h1, h3, h4⟩

/-! ## `mapM` in `Except` -/

theorem mapM_ok_get {α β ε : Type} (f : α → Except ε β) :
    ∀ (l : List α) (r : List β), l.mapM f = .ok r →
      r.length = l.length ∧ ∀ (i : Nat) a b, l[i]? = some a → r[i]? = some b → f a = .ok b := by
  intro l
  induction l with
  | nil =>
    intro r h
    simp only [List.mapM_nil, pure, Except.pure] at h
    cases h
    exact ⟨rfl, by intro i a b h; simp at h⟩
  | cons a rest ih =>
    intro r h
    rw [List.mapM_cons] at h
    cases hfa : f a with
    | error e => rw [hfa] at h; cases h
    | ok b =>
      rw [hfa] at h
      cases hr : rest.mapM f with
      | error e => rw [hr] at h; cases h
      | ok bs =>
        rw [hr] at h
        cases h
        obtain ⟨ih1, ih2⟩ := ih bs hr
        refine ⟨by simp [ih1], ?_⟩
        intro i x y hx hy
        cases i with
        | zero => simp at hx hy; subst hx; subst hy; exact hfa
        | succ i => simp at hx hy; exact ih2 i x y hx hy

theorem mapM_error_of_mem {α β ε : Type} (f : α → Except ε β) :
    ∀ (l : List α) (a : α), a ∈ l → (∃ e, f a = .error e) → ∃ e, l.mapM f = .error e := by
  intro l
  induction l with
  | nil => intro a ha; cases ha
  | cons x rest ih =>
    intro a ha he
    rw [List.mapM_cons]
    cases hfx : f x with
    | error e => exact ⟨e, rfl⟩
    | ok b =>
      rcases List.mem_cons.mp ha with rfl | ha'
      · obtain ⟨e, he⟩ := he; rw [hfx] at he; cases he
      · obtain ⟨e, he'⟩ := ih a ha' he
        exact ⟨e, by rw [he']; rfl⟩

theorem mapM_checkField_spec {fs : List FieldDecl} {args : List FieldArg} {sel : List FieldDecl}
    (h : args.mapM (checkField fs) = .ok sel) :
    sel.length = args.length ∧ ∀ (i : Nat) a f, args[i]? = some a → sel[i]? = some f →
      a = FieldArg.str f.name ∧ f ∈ fs ∧ f.prevented = false ∧ f.name ≠ "_" := by
  obtain ⟨h1, h2⟩ := mapM_ok_get _ _ _ h
  exact ⟨h1, fun i a f ha hf => checkField_ok_name (h2 i a f ha hf)⟩

/-! ## more on `mapM` in `Except` -/

theorem mapM_ok_mem {α β ε : Type} (f : α → Except ε β) (l : List α) (r : List β)
    (h : l.mapM f = .ok r) : ∀ b ∈ r, ∃ a ∈ l, f a = .ok b := by
  obtain ⟨hlen, hget⟩ := mapM_ok_get f l r h
  intro b hb
  obtain ⟨i, hi, hib⟩ := List.mem_iff_getElem.mp hb
  have hi' : i < l.length := by omega
  refine ⟨l[i], List.getElem_mem hi', hget i l[i] b ?_ ?_⟩
  · exact List.getElem?_eq_getElem hi'
  · rw [List.getElem?_eq_getElem hi, hib]

/-- the first failing element decides the error -/
theorem mapM_error_first {α β ε : Type} (f : α → Except ε β) (pre : List α) (a : α) (post : List α) (e : ε)
    (hpre : ∀ x ∈ pre, ∃ b, f x = .ok b) (ha : f a = .error e) :
    (pre ++ a :: post).mapM f = .error e := by
  induction pre with
  | nil => rw [List.nil_append, List.mapM_cons, ha]; rfl
  | cons x rest ih =>
    obtain ⟨b, hb⟩ := hpre x (List.mem_cons_self ..)
    rw [List.cons_append, List.mapM_cons, hb, ih (fun y hy => hpre y (List.mem_cons_of_mem _ hy))]
    rfl

/-! ## `structField` -/

theorem structField_ok_iff {fs : List FieldDecl} {a : FieldArg} {f : FieldDecl} :
    structField fs a = .ok f ↔ checkField fs a = .ok f ∧ f.hidden = false := by
  simp only [structField]
  cases hc : checkField fs a with
  | error e => simp
  | ok g =>
    simp only []
    cases hh : g.hidden with
    | true =>
      simp only [if_true, reduceCtorEq, false_iff, not_and]
      intro he; cases he; simp [hh]
    | false =>
      simp only [Bool.false_eq_true, if_false]
      constructor
      · intro he; cases he; exact ⟨rfl, hh⟩
      · rintro ⟨he, _⟩; cases he; rfl

theorem structField_error_passes {fs : List FieldDecl} {a : FieldArg} {e : FieldErr}
    (h : checkField fs a = .error e) : structField fs a = .error e := by
  simp [structField, h]

theorem structField_hidden {fs : List FieldDecl} {s : String} {f : FieldDecl}
    (hnd : (fs.map (·.name)).Nodup) (hf : f ∈ fs) (hn : f.name = s) (hb : s ≠ "_")
    (hp : f.prevented = false) (hh : f.hidden = true) :
    structField fs (.str s) = .error (.hidden s) := by
  subst hn
  simp [structField, checkField_found hnd hf hb hp, hh]

theorem structField_found {fs : List FieldDecl} {f : FieldDecl}
    (hnd : (fs.map (·.name)).Nodup) (hf : f ∈ fs) (hb : f.name ≠ "_") (hp : f.prevented = false)
    (hh : f.hidden = false) : structField fs (.str f.name) = .ok f :=
  structField_ok_iff.mpr ⟨checkField_found hnd hf hb hp, hh⟩

theorem structField_ok_name {fs : List FieldDecl} {a : FieldArg} {f : FieldDecl}
    (h : structField fs a = .ok f) :
    a = FieldArg.str f.name ∧ f ∈ fs ∧ f.prevented = false ∧ f.name ≠ "_" ∧ f.hidden = false := by
  obtain ⟨hc, hh⟩ := structField_ok_iff.mp h
  obtain ⟨h1, h2, h3, h4⟩ := checkField_ok_name hc
  exact ⟨h1, h2, h3, h4, hh⟩

/-! ## `structArgs`, `structProviderArgs`, `fieldsOfArgs` -/

/-- `f` is selected by `"*"` and cannot be set -/
def starHidden (f : FieldDecl) : Bool := (!f.prevented && f.name != "_") && f.hidden

theorem starHidden_iff {f : FieldDecl} :
    starHidden f = true ↔ f.prevented = false ∧ f.name ≠ "_" ∧ f.hidden = true := by
  simp [starHidden, and_assoc]

theorem structArgs_star_eq (fs : List FieldDecl) :
    structArgs fs [.str "*"] =
      match fs.find? starHidden with
      | some f => .error (.hidden f.name)
      | none => .ok (fs.filter (fun f => !f.prevented && f.name != "_")) := by
  have h : allFields [.str "*"] = true := by decide
  have hf : (fs.filter (fun f => !f.prevented && f.name != "_")).find? (·.hidden) = fs.find? starHidden := by
    rw [List.find?_filter]
    congr 1; funext a
    cases hp : (!a.prevented && a.name != "_") <;> cases hh : a.hidden <;> simp [starHidden, hp, hh]
  unfold structArgs
  rw [if_pos h]
  show (match (fs.filter (fun f : FieldDecl => !f.prevented && f.name != "_")).find? (·.hidden) with
    | some f => Except.error (FieldErr.hidden f.name)
    | none => Except.ok (fs.filter (fun f : FieldDecl => !f.prevented && f.name != "_"))) = _
  rw [hf]

theorem structArgs_star {fs sel : List FieldDecl} :
    structArgs fs [.str "*"] = .ok sel ↔
      sel = fs.filter (fun f => !f.prevented && f.name != "_") ∧ ∀ f ∈ sel, f.hidden = false := by
  rw [structArgs_star_eq]
  cases hfind : fs.find? starHidden with
  | none =>
    simp only []
    have hnone : ∀ f ∈ fs.filter (fun f => !f.prevented && f.name != "_"), f.hidden = false := by
      intro f hf
      obtain ⟨hfs, hsel⟩ := List.mem_filter.mp hf
      have := List.find?_eq_none.mp hfind f hfs
      cases hh : f.hidden with
      | false => rfl
      | true => exact absurd (by simp only [starHidden, hsel, hh, Bool.and_self]) this
    constructor
    · intro he; cases he; exact ⟨rfl, hnone⟩
    · rintro ⟨rfl, _⟩; rfl
  | some g =>
    simp only [reduceCtorEq, false_iff, not_and]
    rintro rfl hall
    have hg := List.mem_of_find?_eq_some hfind
    obtain ⟨hp, hb, hh⟩ := starHidden_iff.mp (List.find?_some hfind)
    have : g ∈ fs.filter (fun f => !f.prevented && f.name != "_") := by
      simp [List.mem_filter, hg, hp, hb]
    rw [hall g this] at hh
    cases hh

/-- `"*"` fails exactly on the first field (declaration order) it stands for that cannot be set -/
theorem structArgs_star_error {fs : List FieldDecl} {e : FieldErr} :
    structArgs fs [.str "*"] = .error e ↔
      ∃ pre f post, fs = pre ++ f :: post ∧
        (f.prevented = false ∧ f.name ≠ "_" ∧ f.hidden = true) ∧
        (∀ g ∈ pre, g.prevented = false → g.name ≠ "_" → g.hidden = false) ∧
        e = .hidden f.name := by
  rw [structArgs_star_eq]
  constructor
  · intro h
    cases hfind : fs.find? starHidden with
    | none => rw [hfind] at h; cases h
    | some f =>
      rw [hfind] at h
      cases h
      obtain ⟨hf, pre, post, hfs, hpre⟩ := List.find?_eq_some_iff_append.mp hfind
      refine ⟨pre, f, post, hfs, starHidden_iff.mp hf, ?_, rfl⟩
      intro g hg hp hb
      cases hh : g.hidden with
      | false => rfl
      | true =>
        have := hpre g hg
        rw [starHidden_iff.mpr ⟨hp, hb, hh⟩] at this
        cases this
  · rintro ⟨pre, f, post, hfs, hf, hpre, rfl⟩
    have : fs.find? starHidden = some f := by
      refine List.find?_eq_some_iff_append.mpr ⟨starHidden_iff.mpr hf, pre, post, hfs, ?_⟩
      intro g hg
      cases hs : starHidden g with
      | false => rfl
      | true =>
        obtain ⟨hp, hb, hh⟩ := starHidden_iff.mp hs
        rw [hpre g hg hp hb] at hh
        cases hh
    rw [this]

theorem structArgs_star_hidden {fs : List FieldDecl}
    (h : ∃ f ∈ fs, f.prevented = false ∧ f.name ≠ "_" ∧ f.hidden = true) :
    ∃ n, structArgs fs [.str "*"] = .error (.hidden n) := by
  obtain ⟨f, hf, hsel⟩ := h
  rw [structArgs_star_eq]
  cases hfind : fs.find? starHidden with
  | none => exact absurd (starHidden_iff.mpr hsel) (List.find?_eq_none.mp hfind f hf)
  | some g => exact ⟨g.name, rfl⟩

theorem structArgs_star_sound {fs sel : List FieldDecl} (h : structArgs fs [.str "*"] = .ok sel) :
    ∀ f ∈ sel, f ∈ fs ∧ f.prevented = false ∧ f.name ≠ "_" ∧ f.hidden = false := by
  obtain ⟨hsel, hhid⟩ := structArgs_star.mp h
  intro f hf
  have hf' := hf
  rw [hsel] at hf'
  have : f ∈ fs ∧ f.prevented = false ∧ f.name ≠ "_" := by simpa [List.mem_filter] using hf'
  exact ⟨this.1, this.2.1, this.2.2, hhid f hf⟩

theorem structArgs_star_complete {fs sel : List FieldDecl} (h : structArgs fs [.str "*"] = .ok sel) :
    ∀ f ∈ fs, f.prevented = false → f.name ≠ "_" → f ∈ sel := by
  obtain ⟨rfl, _⟩ := structArgs_star.mp h
  intro f hf hp hb
  simp [List.mem_filter, hf, hp, hb]

theorem structArgs_star_order {fs sel : List FieldDecl} (h : structArgs fs [.str "*"] = .ok sel) :
    sel.Sublist fs := by
  obtain ⟨rfl, _⟩ := structArgs_star.mp h
  exact List.filter_sublist

theorem structArgs_named {fs : List FieldDecl} {args : List FieldArg} {sel : List FieldDecl}
    (hall : allFields args = false) (h : structArgs fs args = .ok sel) :
    sel.length = args.length ∧ ∀ (i : Nat) a f, args[i]? = some a → sel[i]? = some f →
      a = FieldArg.str f.name ∧ f ∈ fs ∧ f.prevented = false ∧ f.name ≠ "_" ∧ f.hidden = false := by
  simp only [structArgs, hall, Bool.false_eq_true, if_false] at h
  obtain ⟨h1, h2⟩ := mapM_ok_get _ _ _ h
  exact ⟨h1, fun i a f ha hf => structField_ok_name (h2 i a f ha hf)⟩

theorem allFields_iff {args : List FieldArg} : allFields args = true ↔ args = [.str "*"] := by
  simp [allFields]

/-- whatever the arguments: an accepted `wire.Struct` never sets a field its package cannot name -/
theorem structArgs_never_hidden {fs : List FieldDecl} {args : List FieldArg} {sel : List FieldDecl}
    (h : structArgs fs args = .ok sel) : ∀ f ∈ sel, f.hidden = false := by
  cases hall : allFields args with
  | true =>
    rw [allFields_iff.mp hall] at h
    exact (structArgs_star.mp h).2
  | false =>
    simp only [structArgs, hall, Bool.false_eq_true, if_false] at h
    intro f hf
    obtain ⟨a, _, ha⟩ := mapM_ok_mem _ _ _ h f hf
    exact (structField_ok_name ha).2.2.2.2

theorem structArgs_hidden_rejected {fs : List FieldDecl} {args : List FieldArg} {s : String} {f : FieldDecl}
    (hall : allFields args = false) (ha : FieldArg.str s ∈ args) (hb : s ≠ "_")
    (hnd : (fs.map (·.name)).Nodup) (hf : f ∈ fs) (hn : f.name = s)
    (hp : f.prevented = false) (hh : f.hidden = true) :
    ∃ e, structArgs fs args = .error e := by
  simp only [structArgs, hall, Bool.false_eq_true, if_false]
  exact mapM_error_of_mem _ _ _ ha ⟨_, structField_hidden hnd hf hn hb hp hh⟩

/-- when the hidden field is the first argument that fails, it is the one reported -/
theorem structArgs_hidden_first {fs : List FieldDecl} {pre post : List FieldArg} {s : String} {f : FieldDecl}
    (hall : allFields (pre ++ .str s :: post) = false)
    (hpre : ∀ a ∈ pre, ∃ g, structField fs a = .ok g) (hb : s ≠ "_")
    (hnd : (fs.map (·.name)).Nodup) (hf : f ∈ fs) (hn : f.name = s)
    (hp : f.prevented = false) (hh : f.hidden = true) :
    structArgs fs (pre ++ .str s :: post) = .error (.hidden s) := by
  simp only [structArgs, hall, Bool.false_eq_true, if_false]
  exact mapM_error_first _ _ _ _ _ hpre (structField_hidden hnd hf hn hb hp hh)

theorem checkField_rejects {fs : List FieldDecl} {a : FieldArg}
    (h : a = .other ∨ ∃ s, a = .str s ∧ (s = "_" ∨ (∀ f ∈ fs, f.name ≠ s) ∨
      ∃ f ∈ fs, f.name = s ∧ f.prevented ∧ (fs.map (·.name)).Nodup)) :
    ∃ e, checkField fs a = .error e := by
  rcases h with rfl | ⟨s, rfl, hb | h | ⟨f, hf, hn, hp, hnd⟩⟩
  · exact ⟨_, rfl⟩
  · exact ⟨_, checkField_unknown (.inl hb)⟩
  · exact ⟨_, checkField_unknown (.inr h)⟩
  · by_cases hb : s = "_"
    · exact ⟨_, checkField_unknown (.inl hb)⟩
    · exact ⟨_, checkField_prevented hnd hf hn hb hp⟩

theorem structField_rejects {fs : List FieldDecl} {a : FieldArg}
    (h : a = .other ∨ ∃ s, a = .str s ∧ (s = "_" ∨ (∀ f ∈ fs, f.name ≠ s) ∨
      (∃ f ∈ fs, f.name = s ∧ f.prevented ∧ (fs.map (·.name)).Nodup) ∨
      (∃ f ∈ fs, f.name = s ∧ f.hidden ∧ (fs.map (·.name)).Nodup))) :
    ∃ e, structField fs a = .error e := by
  rcases h with rfl | ⟨s, rfl, hb | h | h | ⟨f, hf, hn, hh, hnd⟩⟩
  · exact ⟨_, structField_error_passes rfl⟩
  · exact ⟨_, structField_error_passes (checkField_unknown (.inl hb))⟩
  · exact ⟨_, structField_error_passes (checkField_unknown (.inr h))⟩
  · obtain ⟨e, he⟩ := checkField_rejects (fs := fs) (a := .str s) (.inr ⟨s, rfl, .inr (.inr h)⟩)
    exact ⟨e, structField_error_passes he⟩
  · by_cases hb : s = "_"
    · exact ⟨_, structField_error_passes (checkField_unknown (.inl hb))⟩
    · cases hp : f.prevented with
      | true => exact ⟨_, structField_error_passes (checkField_prevented hnd hf hn hb hp)⟩
      | false => exact ⟨_, structField_hidden hnd hf hn hb hp hh⟩

theorem structArgs_rejects {fs : List FieldDecl} {args : List FieldArg} {a : FieldArg}
    (hall : allFields args = false) (ha : a ∈ args)
    (h : a = .other ∨ ∃ s, a = .str s ∧ (s = "_" ∨ (∀ f ∈ fs, f.name ≠ s) ∨
      (∃ f ∈ fs, f.name = s ∧ f.prevented ∧ (fs.map (·.name)).Nodup) ∨
      (∃ f ∈ fs, f.name = s ∧ f.hidden ∧ (fs.map (·.name)).Nodup))) :
    ∃ e, structArgs fs args = .error e := by
  simp only [structArgs, hall, Bool.false_eq_true, if_false]
  exact mapM_error_of_mem _ _ a ha (structField_rejects h)

theorem structProviderArgs_ok_iff {fs : List FieldDecl} {args : List FieldArg} {sel : List FieldDecl} :
    structProviderArgs fs args = .ok sel ↔ structArgs fs args = .ok sel ∧ (sel.map (·.ty)).Nodup := by
  simp only [structProviderArgs]
  cases hs : structArgs fs args with
  | error e => simp
  | ok sel' =>
    simp only []
    cases hd : dupParam (sel'.map (·.ty)) with
    | some t =>
      have : ¬ (sel'.map (·.ty)).Nodup := fun hnd => by
        rw [(WireP.C09.dupParam_spec _).mpr hnd] at hd; cases hd
      simp only [reduceCtorEq, false_iff, not_and]
      intro he; cases he; exact this
    | none =>
      have := (WireP.C09.dupParam_spec _).mp hd
      constructor
      · intro he; cases he; exact ⟨rfl, this⟩
      · rintro ⟨he, _⟩; cases he; rfl

theorem structProviderArgs_types_nodup {fs : List FieldDecl} {args : List FieldArg} {sel : List FieldDecl}
    (h : structProviderArgs fs args = .ok sel) : (sel.map (·.ty)).Nodup :=
  (structProviderArgs_ok_iff.mp h).2

theorem structProviderArgs_sub {fs : List FieldDecl} {args : List FieldArg} {sel : List FieldDecl}
    (h : structProviderArgs fs args = .ok sel) : structArgs fs args = .ok sel :=
  (structProviderArgs_ok_iff.mp h).1

theorem structProviderArgs_never_hidden {fs : List FieldDecl} {args : List FieldArg} {sel : List FieldDecl}
    (h : structProviderArgs fs args = .ok sel) : ∀ f ∈ sel, f.hidden = false :=
  structArgs_never_hidden (structProviderArgs_sub h)

theorem structProviderArgs_dup_rejected {fs : List FieldDecl} {args : List FieldArg} {sel : List FieldDecl}
    (h : structArgs fs args = .ok sel) (hd : ¬ (sel.map (·.ty)).Nodup) :
    ∃ t, structProviderArgs fs args = .error (.dup t) ∧ 2 ≤ (sel.map (·.ty)).count t := by
  simp only [structProviderArgs, h]
  cases hdp : dupParam (sel.map (·.ty)) with
  | none => exact absurd ((WireP.C09.dupParam_spec _).mp hdp) hd
  | some t => exact ⟨t, rfl, WireP.C09.dupParam_named _ _ hdp⟩

theorem structProviderArgs_error_passes {fs : List FieldDecl} {args : List FieldArg} {e : FieldErr}
    (h : structArgs fs args = .error e) : structProviderArgs fs args = .error e := by
  simp [structProviderArgs, h]

theorem fieldsOfArgs_spec {fs : List FieldDecl} {args : List FieldArg} {sel : List FieldDecl}
    (hlen : args.length ≤ fs.length) (h : fieldsOfArgs fs args = .ok sel) :
    sel.length = args.length ∧ ∀ (i : Nat) a f, args[i]? = some a → sel[i]? = some f →
      a = FieldArg.str f.name ∧ f ∈ fs ∧ f.prevented = false ∧ f.name ≠ "_" := by
  have : ¬ fs.length < args.length := by omega
  simp only [fieldsOfArgs, this, if_false] at h
  exact mapM_checkField_spec h

theorem fieldsOfArgs_tooMany {fs : List FieldDecl} {args : List FieldArg}
    (hlen : fs.length < args.length) : fieldsOfArgs fs args = .error .tooMany := by
  simp [fieldsOfArgs, hlen]

theorem fieldsOfArgs_ok_len {fs : List FieldDecl} {args : List FieldArg} {sel : List FieldDecl}
    (h : fieldsOfArgs fs args = .ok sel) : args.length ≤ fs.length := by
  simp only [fieldsOfArgs] at h
  split at h
  · cases h
  · omega

theorem fieldsOfArgs_rejects {fs : List FieldDecl} {args : List FieldArg} {a : FieldArg}
    (ha : a ∈ args)
    (h : a = .other ∨ ∃ s, a = .str s ∧ (s = "_" ∨ (∀ f ∈ fs, f.name ≠ s) ∨
      ∃ f ∈ fs, f.name = s ∧ f.prevented ∧ (fs.map (·.name)).Nodup)) :
    ∃ e, fieldsOfArgs fs args = .error e := by
  simp only [fieldsOfArgs]
  split
  · exact ⟨_, rfl⟩
  · exact mapM_error_of_mem _ _ a ha (checkField_rejects h)

/-- `"*"` has no special meaning for `wire.FieldsOf` -/
theorem fieldsOfArgs_star_literal {fs : List FieldDecl} (h : ∀ f ∈ fs, f.name ≠ "*") (h1 : 1 ≤ fs.length) :
    fieldsOfArgs fs [.str "*"] = .error (.notField "*") := by
  have : ¬ fs.length < 1 := by omega
  simp [fieldsOfArgs, this, List.mapM_cons, checkField_unknown (.inr h)]
  rfl

end WireP.FrontProofs
