import WireV.Names
/-! # `exportName` / `unexportName` sanity (C14, item 8) -/
namespace WireP.NameProofs
open WireV

theorem isLower_toUpper_false (c : Char) : c.toUpper.isLower = false := by
  simp only [Char.isLower, Char.toUpper]
  split <;> grind [UInt32.toNat_add, Char.toNat_val]

theorem toUpper_of_not_isLower {c : Char} (h : c.isLower = false) : c.toUpper = c := by
  simp only [Char.isLower, Bool.and_eq_false_iff, decide_eq_false_iff_not] at h
  simp only [Char.toUpper]
  split
  · rename_i h'; exfalso; rcases h with h | h
    · exact h h'.1
    · exact h h'.2
  · rfl

theorem toUpper_toUpper (c : Char) : c.toUpper.toUpper = c.toUpper :=
  toUpper_of_not_isLower (isLower_toUpper_false c)

theorem exportName_idem (s : String) : exportName (exportName s) = exportName s := by
  cases hs : s.toList with
  | nil =>
    have h1 : exportName s = "" := by simp [exportName, hs]
    rw [h1]; rfl
  | cons c rest =>
    by_cases hu : c.isUpper = true
    · have h1 : exportName s = s := by simp [exportName, hs, hu]
      rw [h1, h1]
    · have h1 : exportName s = String.ofList (c.toUpper :: rest) := by simp [exportName, hs, hu]
      rw [h1]
      simp only [exportName, String.toList_ofList, toUpper_toUpper]
      split <;> rfl

theorem unexportName_of_not_upper (s : String)
    (h : ∀ c rest, s.toList = c :: rest → c.isUpper = false) : unexportName s = s := by
  cases hs : s.toList with
  | nil =>
    have : s = "" := by
      apply String.toList_inj.1; simpa using hs
    subst this; rfl
  | cons c rest =>
    simp [unexportName, hs, h c rest hs]

end WireP.NameProofs
