import WireP.Lemmas.PMapProofs
/-! # PMapLookup — what an accepted `buildProviderMap` result contains (`bpm_ok_lookup`) -/

namespace WireP.C05
open WireV

/-- the full description of an accepted result -/
structure LookupSpec (args : Option (List Ty)) (imports : List (Nat × PMap)) (provs : List Prov)
    (vals : List Val) (flds : List Fld) (bnds : List Bnd) (pm : PMap) (sm : SMap) : Prop where
  pm_keys : ∀ t, (look t pm).isSome ↔ t ∈ allSources args imports provs vals flds bnds
  sm_keys : ∀ t, (look t sm).isSome ↔ t ∈ allSources args imports provs vals flds bnds
  pm_nodup : (pm.map (·.1)).Nodup
  sm_nodup : (sm.map (·.1)).Nodup
  arg : ∀ i t, (args.getD [])[i]? = some t → look t pm = some ⟨t, .arg i⟩ ∧ look t sm = some (.arg i)
  imp : ∀ ip ∈ imports, ∀ kv ∈ ip.2, look kv.1 pm = some kv.2 ∧ look kv.1 sm = some (.imp ip.1)
  prov : ∀ p ∈ provs, ∀ t ∈ p.outs, look t pm = some ⟨t, .prov p⟩ ∧ look t sm = some (.prov p.id)
  val : ∀ v ∈ vals, look v.out pm = some ⟨v.out, .val v⟩ ∧ look v.out sm = some (.val v.id)
  fld : ∀ f ∈ flds, ∀ t ∈ f.outs, look t pm = some ⟨t, .fld f⟩ ∧ look t sm = some (.fld f.id)
  bnd : ∀ b ∈ bnds, ∃ c, look b.provided pm = some c ∧ look b.iface pm = some c ∧
          look b.iface sm = some (.bnd b.id)

end WireP.C05

namespace WireP.PMapProofs
open WireV WireP.C05

theorem mem_optArgItems {args : Option (List Ty)} {i : Nat} {t : Ty} (h : (args.getD [])[i]? = some t) :
    (t, (⟨t, .arg i⟩ : PT), SrcId.arg i) ∈ optArgItems args := by
  cases args with
  | none => simp at h
  | some a =>
    simp only [optArgItems, argItems, List.mem_map]
    refine ⟨(t, i), ?_, rfl⟩
    exact List.mem_zipIdx_iff_getElem?.mpr h

section
variable {args : Option (List Ty)} {imports : List (Nat × PMap)} {provs : List Prov}
  {vals : List Val} {flds : List Fld} {bnds : List Bnd}

theorem mem_base_arg {i : Nat} {t : Ty} (h : (args.getD [])[i]? = some t) :
    (t, (⟨t, .arg i⟩ : PT), SrcId.arg i) ∈ baseItems args imports provs vals flds := by
  simp only [baseItems, items1, List.mem_append]
  exact Or.inl (Or.inl (mem_optArgItems h))

theorem mem_base_imp {ip : Nat × PMap} (hip : ip ∈ imports) {kv : Ty × PT} (hkv : kv ∈ ip.2) :
    (kv.1, kv.2, SrcId.imp ip.1) ∈ baseItems args imports provs vals flds := by
  simp only [baseItems, items1, List.mem_append, List.mem_flatMap]
  exact Or.inl (Or.inr ⟨ip, hip, List.mem_map.mpr ⟨kv, hkv, rfl⟩⟩)

theorem mem_base_prov {p : Prov} (hp : p ∈ provs) {t : Ty} (ht : t ∈ p.outs) :
    (t, (⟨t, .prov p⟩ : PT), SrcId.prov p.id) ∈ baseItems args imports provs vals flds := by
  simp only [baseItems, items2, List.mem_append, List.mem_flatMap]
  exact Or.inr (Or.inl (Or.inl ⟨p, hp, List.mem_map.mpr ⟨t, ht, rfl⟩⟩))

theorem mem_base_val {v : Val} (hv : v ∈ vals) :
    (v.out, (⟨v.out, .val v⟩ : PT), SrcId.val v.id) ∈ baseItems args imports provs vals flds := by
  simp only [baseItems, items2, List.mem_append]
  exact Or.inr (Or.inl (Or.inr (List.mem_map.mpr ⟨v, hv, rfl⟩)))

theorem mem_base_fld {f : Fld} (hf : f ∈ flds) {t : Ty} (ht : t ∈ f.outs) :
    (t, (⟨t, .fld f⟩ : PT), SrcId.fld f.id) ∈ baseItems args imports provs vals flds := by
  simp only [baseItems, items2, List.mem_append, List.mem_flatMap]
  exact Or.inr (Or.inr ⟨f, hf, List.mem_map.mpr ⟨t, ht, rfl⟩⟩)

/-- every item of the base list, classified -/
theorem mem_baseItems_cases {x : Item} (h : x ∈ baseItems args imports provs vals flds) :
    (∃ i t, (args.getD [])[i]? = some t ∧ x = (t, ⟨t, .arg i⟩, .arg i)) ∨
    (∃ ip ∈ imports, ∃ kv ∈ ip.2, x = (kv.1, kv.2, .imp ip.1)) ∨
    (∃ p ∈ provs, ∃ t ∈ p.outs, x = (t, ⟨t, .prov p⟩, .prov p.id)) ∨
    (∃ v ∈ vals, x = (v.out, ⟨v.out, .val v⟩, .val v.id)) ∨
    (∃ f ∈ flds, ∃ t ∈ f.outs, x = (t, ⟨t, .fld f⟩, .fld f.id)) := by
  simp only [baseItems, items1, items2, List.mem_append, List.mem_flatMap, List.mem_map] at h
  rcases h with (h | ⟨ip, hip, h⟩) | (⟨p, hp, h⟩ | ⟨v, hv, rfl⟩) | ⟨f, hf, h⟩
  · left
    cases args with
    | none => simp [optArgItems] at h
    | some a =>
      simp only [optArgItems, argItems, List.mem_map] at h
      obtain ⟨⟨t, i⟩, hm, rfl⟩ := h
      exact ⟨i, t, List.mem_zipIdx_iff_getElem?.mp hm, rfl⟩
  · right; left
    obtain ⟨kv, hkv, rfl⟩ := List.mem_map.mp h
    exact ⟨ip, hip, kv, hkv, rfl⟩
  · right; right; left
    obtain ⟨t, ht, rfl⟩ := List.mem_map.mp h
    exact ⟨p, hp, t, ht, rfl⟩
  · right; right; right; left
    exact ⟨v, hv, rfl⟩
  · right; right; right; right
    obtain ⟨t, ht, rfl⟩ := List.mem_map.mp h
    exact ⟨f, hf, t, ht, rfl⟩

variable {pm : PMap} {sm : SMap}

/-- in an accepted result the binding phase appended nothing -/
theorem ok_parts (h : buildProviderMap args imports provs vals flds bnds = .ok (pm, sm)) :
    (s5of args imports provs vals flds).errs = [] ∧
    bErrs (keys (s5of args imports provs vals flds).sm) bnds = [] ∧
    bL (s5of args imports provs vals flds) bnds = ⟨pm, sm, []⟩ := by
  obtain ⟨h6, hpm, hsm⟩ := (bpm_ok_iff_s6 ..).mp h
  have := s6_errs args imports provs vals flds bnds
  rw [h6, eq_comm, List.append_eq_nil_iff] at this
  refine ⟨this.1, this.2, ?_⟩
  show s6of args imports provs vals flds bnds = _
  cases hs : s6of args imports provs vals flds bnds
  rw [hs] at h6 hpm hsm
  simp only at h6 hpm hsm
  rw [h6, hpm, hsm]

theorem ok_keys (h : buildProviderMap args imports provs vals flds bnds = .ok (pm, sm)) :
    keys pm = (allSources args imports provs vals flds bnds).reverse ∧
    keys sm = (allSources args imports provs vals flds bnds).reverse := by
  obtain ⟨h5, hb, hs⟩ := ok_parts h
  have hinv : Inv (bL (s5of args imports provs vals flds) bnds) := bL_inv (s5_inv ..) _
  have hsm := (bL_clean (s5_inv args imports provs vals flds) hb).1
  rw [hs] at hsm hinv
  simp only at hsm
  have hk : keys sm = (allSources args imports provs vals flds bnds).reverse := by
    rw [hsm, keys_append, s5_keys _ _ _ _ _ h5, allSources, List.reverse_append, keys_reverse]
    simp [keys, Function.comp_def]
  exact ⟨hinv.trans hk, hk⟩

/-- once the plain-insert phases are clean, each base item is found under its key -/
theorem s5_base_item (h5 : (s5of args imports provs vals flds).errs = [])
    {x : Item} (hx : x ∈ baseItems args imports provs vals flds) :
    look x.1 (s5of args imports provs vals flds).pm = some x.2.1 ∧
    look x.1 (s5of args imports provs vals flds).sm = some x.2.2 := by
  obtain ⟨hpm5, hsm5⟩ := s5_clean _ _ _ _ _ h5
  have hnd : (baseSources args imports provs vals flds).reverse.Nodup :=
    (List.reverse_perm _).nodup_iff.mpr ((s5_clean_iff ..).mp h5)
  constructor
  · rw [hpm5]
    apply look_of_mem_nodup
    · rw [keys_reverse, keys_ent, keys_baseItems]; exact hnd
    · exact List.mem_reverse.mpr (List.mem_map.mpr ⟨x, hx, rfl⟩)
  · rw [hsm5]
    apply look_of_mem_nodup
    · rw [keys_reverse, keys_sent, keys_baseItems]; exact hnd
    · exact List.mem_reverse.mpr (List.mem_map.mpr ⟨x, hx, rfl⟩)

/-- conversely every entry of the clean base map is a base item -/
theorem s5_mem_item (h5 : (s5of args imports provs vals flds).errs = [])
    {kv : Ty × PT} (hkv : kv ∈ (s5of args imports provs vals flds).pm) :
    ∃ x ∈ baseItems args imports provs vals flds, x.1 = kv.1 ∧ x.2.1 = kv.2 := by
  rw [(s5_clean _ _ _ _ _ h5).1, List.mem_reverse, List.mem_map] at hkv
  obtain ⟨x, hx, rfl⟩ := hkv
  exact ⟨x, hx, rfl, rfl⟩

theorem ok_base_item (h : buildProviderMap args imports provs vals flds bnds = .ok (pm, sm))
    {x : Item} (hx : x ∈ baseItems args imports provs vals flds) :
    look x.1 pm = some x.2.1 ∧ look x.1 sm = some x.2.2 := by
  obtain ⟨h5, hb, hs⟩ := ok_parts h
  obtain ⟨h1, h2⟩ := s5_base_item h5 hx
  have h1' := bL_look_pm (s5_inv ..) bnds h1
  have h2' := bL_look_sm bnds h2
  rw [hs] at h1' h2'
  exact ⟨h1', h2'⟩

/-- every value stored in an accepted map is the value of some base item (bindings only alias) -/
theorem ok_mem_vals (h : buildProviderMap args imports provs vals flds bnds = .ok (pm, sm))
    {kv : Ty × PT} (hkv : kv ∈ pm) : ∃ x ∈ baseItems args imports provs vals flds, x.2.1 = kv.2 := by
  obtain ⟨h5, hb, hs⟩ := ok_parts h
  have := bL_vals (s := s5of args imports provs vals flds) bnds kv (by rw [hs]; exact hkv)
  obtain ⟨kv', hkv', e⟩ := this
  obtain ⟨x, hx, -, e'⟩ := s5_mem_item h5 hkv'
  exact ⟨x, hx, e'.trans e⟩

theorem ok_bnd (h : buildProviderMap args imports provs vals flds bnds = .ok (pm, sm))
    {b : Bnd} (hb : b ∈ bnds) :
    ∃ c, look b.provided pm = some c ∧ look b.iface pm = some c ∧ look b.iface sm = some (.bnd b.id) := by
  obtain ⟨-, hbe, hs⟩ := ok_parts h
  have := (bL_clean (s5_inv args imports provs vals flds) hbe).2 b hb
  rw [hs] at this
  exact this

theorem bpm_ok_lookup (h : buildProviderMap args imports provs vals flds bnds = .ok (pm, sm)) :
    LookupSpec args imports provs vals flds bnds pm sm := by
  obtain ⟨hk1, hk2⟩ := ok_keys h
  have hnd : (allSources args imports provs vals flds bnds).reverse.Nodup :=
    (List.reverse_perm _).nodup_iff.mpr (bpm_never_picks _ _ _ _ _ _ h)
  refine
    { pm_keys := fun t => ?_, sm_keys := fun t => ?_, pm_nodup := ?_, sm_nodup := ?_
      arg := fun i t hi => ok_base_item h (mem_base_arg hi)
      imp := fun ip hip kv hkv => ok_base_item h (mem_base_imp hip hkv)
      prov := fun p hp t ht => ok_base_item h (mem_base_prov hp ht)
      val := fun v hv => ok_base_item h (mem_base_val hv)
      fld := fun f hf t ht => ok_base_item h (mem_base_fld hf ht)
      bnd := fun b hb => ok_bnd h hb }
  · rw [look_isSome_iff, hk1, List.mem_reverse]
  · rw [look_isSome_iff, hk2, List.mem_reverse]
  · show (keys pm).Nodup
    rw [hk1]; exact hnd
  · show (keys sm).Nodup
    rw [hk2]; exact hnd

/-- a binding whose concrete type has no source at all makes the set fail -/
theorem bind_needs_concrete {b : Bnd} (hb : b ∈ bnds)
    (hp : b.provided ∉ allSources args imports provs vals flds bnds) :
    ∃ es, buildProviderMap args imports provs vals flds bnds = .error es ∧ es ≠ [] := by
  rcases bpm_ok_or_error args imports provs vals flds bnds with ⟨⟨pm, sm⟩, hr⟩ | he
  · exfalso
    have hl := bpm_ok_lookup hr
    obtain ⟨c, hc, -⟩ := hl.bnd b hb
    exact hp ((hl.pm_keys _).mp (by rw [hc]; rfl))
  · exact he

end

end WireP.PMapProofs
