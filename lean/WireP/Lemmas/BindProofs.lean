import WireV.Bind
/-! # Lemmas about `WireV.processBind` / `processIValue` and the method-set rule -/
namespace WireP.Bind
open WireV

theorem implementsB_iff (env : BEnv) (t : BTy) (i : Nat) :
    implementsB env t i = true ↔ ∀ ns ∈ env.imeths i, ns ∈ methodSet env t := by
  simp [implementsB, List.all_eq_true]

/-- where a member of the method set of `c` / `*c` comes from -/
theorem mem_methodSetNamed {env : BEnv} {c : Nat} {viaPtr : Bool} {m : BMethod}
    (h : m ∈ methodSetNamed env c viaPtr) :
    (m ∈ env.meths c ∧ (m.ptrRecv = false ∨ viaPtr = true)) ∨
    (∃ e ∈ env.embeds c, m ∈ env.meths e.1 ∧ (m.ptrRecv = false ∨ viaPtr = true ∨ e.2 = true) ∧
      (∀ o ∈ env.meths c, o.name ≠ m.name) ∧ uniqueAmong env (env.embeds c) m.name = true) := by
  simp only [methodSetNamed, List.mem_append, List.mem_filter, List.mem_flatMap, promotedOf] at h
  rcases h with ⟨hm, hr⟩ | ⟨⟨e, he, hme, hr⟩, hs⟩
  · left
    refine ⟨hm, ?_⟩
    cases hp : m.ptrRecv <;> cases hv : viaPtr <;> simp [hp, hv] at hr ⊢
  · right
    refine ⟨e, he, hme, ?_, ?_, ?_⟩
    · cases hp : m.ptrRecv <;> cases hv : viaPtr <;> cases h2 : e.2 <;> simp [hp, hv, h2] at hr ⊢
    · intro o ho hname
      simp only [Bool.and_eq_true, Bool.not_eq_true', List.contains_eq_mem, List.mem_map,
        decide_eq_false_iff_not, not_exists, not_and] at hs
      exact hs.1 o ho hname
    · simp only [Bool.and_eq_true] at hs
      exact hs.2

/-- Go's rule that a type declares a method name once -/
def OwnDistinct (env : BEnv) (c : Nat) : Prop :=
  ∀ o ∈ env.meths c, ∀ m ∈ env.meths c, o.name = m.name → o = m

/-- a value of a defined type never has a method that the type declares with a pointer receiver —
    not even through an embedded field, because the own declaration shadows every promoted one -/
theorem value_methodSet_no_ptr_recv {env : BEnv} {c : Nat} {m : BMethod} (hd : OwnDistinct env c)
    (h : m ∈ methodSetNamed env c false) : ∀ o ∈ env.meths c, o.name = m.name → o.ptrRecv = false := by
  intro o ho hname
  rcases mem_methodSetNamed h with ⟨hm, hr⟩ | ⟨e, _, _, _, hsh, _⟩
  · have := hd o ho m hm hname
    subst this
    simpa using hr
  · exact absurd hname (hsh o ho)

/-- the method set of `*c` contains that of `c` -/
theorem methodSetNamed_mono {env : BEnv} {c : Nat} {m : BMethod}
    (h : m ∈ methodSetNamed env c false) : m ∈ methodSetNamed env c true := by
  simp only [methodSetNamed, List.mem_append, List.mem_filter, List.mem_flatMap, promotedOf] at h ⊢
  rcases h with ⟨hm, _⟩ | ⟨⟨e, he, hme, _⟩, hs⟩
  · exact .inl ⟨hm, by simp⟩
  · exact .inr ⟨⟨e, he, hme, by simp⟩, hs⟩

theorem processBind_ok_iff (env : BEnv) (usePtr : Bool) (args : List BTy) (i p : BTy) :
    processBind env usePtr args = .ok (i, p) ↔
      ∃ k, i = .iface k ∧ args = [.ptr (.iface k), if usePtr then .ptr p else p] ∧ p ≠ .iface k ∧
        implementsB env p k = true := by
  rcases args with _ | ⟨a0, _ | ⟨a1, _ | ⟨a2, r⟩⟩⟩
  · simp [processBind]
  · simp [processBind]
  · cases a0 with
    | ptr t =>
      cases t with
      | iface k =>
        cases usePtr
        · simp only [processBind, Bool.false_eq_true, if_false]
          by_cases h1 : a1 = .iface k
          · subst h1; simp
            rintro x rfl rfl rfl h; exact absurd rfl h
          · by_cases h2 : implementsB env a1 k = true
            · simp [h1, h2]
              constructor
              · rintro ⟨rfl, rfl⟩; exact ⟨k, rfl, ⟨rfl, rfl⟩, h1, h2⟩
              · rintro ⟨k', rfl, ⟨hk, rfl⟩, _, _⟩; subst hk; exact ⟨rfl, rfl⟩
            · simp [h1, h2]
              rintro k' rfl hk rfl _
              subst hk; simpa using h2
        · cases a1 with
          | ptr q =>
            simp only [processBind, if_true]
            by_cases h1 : q = .iface k
            · subst h1; simp
              rintro x rfl rfl rfl h; exact absurd rfl h
            · by_cases h2 : implementsB env q k = true
              · simp [h1, h2]
                constructor
                · rintro ⟨rfl, rfl⟩; exact ⟨k, rfl, ⟨rfl, rfl⟩, h1, h2⟩
                · rintro ⟨k', rfl, ⟨hk, rfl⟩, _, _⟩; subst hk; exact ⟨rfl, rfl⟩
              · simp [h1, h2]
                rintro k' rfl hk rfl _
                subst hk; simpa using h2
          | _ => simp [processBind]
      | _ => simp [processBind]
    | _ => simp [processBind]
  · simp [processBind]

theorem processIValue_ok_iff (env : BEnv) (args : List BTy) (i p : BTy) :
    processIValue env args = .ok (i, p) ↔
      ∃ k, i = .iface k ∧ args = [.ptr (.iface k), p] ∧ p ≠ .untypedNil ∧ implementsB env p k = true := by
  constructor
  · intro h
    unfold processIValue at h
    split at h
    · split at h
      · rename_i k
        split at h
        · cases h
        · split at h
          · cases h
          · rename_i hnil himpl
            injection h with h
            injection h with hi hp
            subst hi hp
            exact ⟨k, rfl, rfl, by simpa using hnil, by simpa using himpl⟩
      · cases h
    · cases h
  · rintro ⟨k, rfl, rfl, hne, himp⟩
    simp [processIValue, hne, himp]

end WireP.Bind
