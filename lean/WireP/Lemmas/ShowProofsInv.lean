import WireP.Lemmas.ShowProofsDefs
/-! # The invariant of `WireV.gStep` (C19)

`Inv pm s` relates the `visited` table and the `groups` of a state to the specification (`Leaf`,
`Need`); it is preserved by every step (no acyclicity needed).  `InvR pm keys s` says that
everything on the stack or visited is reachable from `keys`. -/
namespace WireP.Show
open WireV WireP.Solve

structure Inv (pm : PMap) (s : GSt) : Prop where
  /-- no type is entered twice -/
  visND : (s.visited.map (·.1)).Nodup
  /-- a type marked as an input is a leaf requirement -/
  leafOk : ∀ t, look t s.visited = some none → Leaf pm t
  /-- a type assigned to group `i`: it has a non-argument entry, it is an output of that group, all
      its dependencies are visited, and the group's inputs are exactly what it requires -/
  grpOk : ∀ (t : Ty) (i : Nat), look t s.visited = some (some i) →
    ∃ g pt, s.groups[i]? = some g ∧ t ∈ g.outputs ∧ look t pm = some pt ∧ (∀ i, pt.src ≠ .arg i) ∧
      (∀ a ∈ depsOf pt.src, (look a s.visited).isSome) ∧ (∀ u, u ∈ g.inputs ↔ Need pm t u)
  /-- an output of group `j` is assigned to group `j` -/
  outOk : ∀ (j : Nat) (g : Grp) (t : Ty), s.groups[j]? = some g → t ∈ g.outputs → look t s.visited = some (some j)
  outND : ∀ (j : Nat) (g : Grp), s.groups[j]? = some g → g.outputs.Nodup
  outNE : ∀ (j : Nat) (g : Grp), s.groups[j]? = some g → g.outputs ≠ []
  inND : ∀ (j : Nat) (g : Grp), s.groups[j]? = some g → g.inputs.Nodup
  /-- different groups have different input sets -/
  distinct : ∀ (i j : Nat) (gi gj : Grp), i ≠ j → s.groups[i]? = some gi → s.groups[j]? = some gj →
    sameKeys gi.inputs gj.inputs = false

theorem Inv.init (pm : PMap) : Inv pm {} :=
  ⟨by simp, by simp [look], by simp [look], by simp, by simp, by simp, by simp, by simp⟩

theorem Inv.of_eq {pm s s'} (hg : s'.groups = s.groups) (hv : s'.visited = s.visited)
    (h : Inv pm s) : Inv pm s' := by
  obtain ⟨h1, h2, h3, h4, h5, h6, h7, h8⟩ := h
  constructor <;> (first | rw [hg, hv] | rw [hv] | rw [hg]) <;> assumption

/-! ## `insOf`, `inputsOfDep` -/

theorem mem_foldl_union (f : Ty → List Ty) (u : Ty) : ∀ (deps init : List Ty),
    u ∈ deps.foldl (fun acc a => unionTy acc (f a)) init ↔ u ∈ init ∨ ∃ a ∈ deps, u ∈ f a := by
  intro deps
  induction deps with
  | nil => simp
  | cons a deps ih =>
    intro init
    simp only [List.foldl_cons, ih, mem_unionTy, List.mem_cons]
    constructor
    · rintro ((h | h) | ⟨b, hb, h⟩)
      · exact Or.inl h
      · exact Or.inr ⟨a, Or.inl rfl, h⟩
      · exact Or.inr ⟨b, Or.inr hb, h⟩
    · rintro (h | ⟨b, rfl | hb, h⟩)
      · exact Or.inl (Or.inl h)
      · exact Or.inl (Or.inr h)
      · exact Or.inr ⟨b, hb, h⟩

theorem nodup_foldl_union (f : Ty → List Ty) : ∀ (deps init : List Ty), init.Nodup →
    (∀ a ∈ deps, (f a).Nodup) → (deps.foldl (fun acc a => unionTy acc (f a)) init).Nodup := by
  intro deps
  induction deps with
  | nil => intro init h _; simpa using h
  | cons a deps ih =>
    intro init hi hf
    simp only [List.foldl_cons]
    exact ih _ (nodup_unionTy hi (hf a List.mem_cons_self))
      (fun b hb => hf b (List.mem_cons_of_mem _ hb))

theorem mem_insOf {s : GSt} {deps : List Ty} {u : Ty} :
    u ∈ insOf s deps ↔ ∃ a ∈ deps, u ∈ inputsOfDep s a := by
  unfold insOf
  rw [mem_foldl_union (inputsOfDep s) u deps []]
  simp

theorem Inv.nodup_inputsOfDep {pm s} (h : Inv pm s) (a : Ty) : (inputsOfDep s a).Nodup := by
  unfold inputsOfDep
  split
  · simp
  · rename_i i _
    cases hg : s.groups[i]? with
    | none => simp
    | some g => exact h.inND i g hg
  · simp

theorem Inv.nodup_insOf {pm s} (h : Inv pm s) (deps : List Ty) : (insOf s deps).Nodup :=
  nodup_foldl_union _ deps [] (by simp) (fun a _ => h.nodup_inputsOfDep a)

/-- the input set recorded for a visited type is what it requires -/
theorem Inv.mem_inputsOfDep {pm s} (h : Inv pm s) {a : Ty} (hv : (look a s.visited).isSome)
    (u : Ty) : u ∈ inputsOfDep s a ↔ Need pm a u := by
  unfold inputsOfDep
  cases hl : look a s.visited with
  | none => rw [hl] at hv; cases hv
  | some v =>
    cases v with
    | none =>
      simp only [List.mem_singleton]
      exact (need_leaf (h.leafOk a hl)).symm
    | some i =>
      obtain ⟨g, pt, hg, _, _, _, _, hin⟩ := h.grpOk a i hl
      simp only [hg]
      exact hin u

theorem missing_nil {vis : List (Ty × Option Nat)} {deps : List Ty} (h : missingOf vis deps = []) :
    ∀ a ∈ deps, (look a vis).isSome := by
  intro a ha
  unfold missingOf at h
  have := List.filter_eq_nil_iff.mp h a ha
  cases hl : look a vis with
  | none => simp [hl] at this
  | some _ => rfl

theorem missing_of_all {vis : List (Ty × Option Nat)} {deps : List Ty}
    (h : ∀ a ∈ deps, (look a vis).isSome) : missingOf vis deps = [] := by
  unfold missingOf
  apply List.filter_eq_nil_iff.mpr
  intro a ha
  have := h a ha
  cases hl : look a vis with
  | none => rw [hl] at this; cases this
  | some _ => simp

theorem missing_sub {vis : List (Ty × Option Nat)} {deps : List Ty} {a : Ty}
    (h : a ∈ missingOf vis deps) : a ∈ deps ∧ look a vis = none := by
  unfold missingOf at h
  obtain ⟨h1, h2⟩ := List.mem_filter.mp h
  refine ⟨h1, ?_⟩
  cases hl : look a vis with
  | none => rfl
  | some _ => simp [hl] at h2

theorem missing_length (vis : List (Ty × Option Nat)) (deps : List Ty) :
    (missingOf vis deps).length ≤ deps.length := List.length_filter_le _ _

/-- the input set computed for a type whose dependencies are all visited -/
theorem Inv.mem_insOf_need {pm s} (h : Inv pm s) {t : Ty} {pt : PT} (hl : look t pm = some pt)
    (hna : ∀ i, pt.src ≠ .arg i) (hall : ∀ a ∈ depsOf pt.src, (look a s.visited).isSome) (u : Ty) :
    u ∈ insOf s (depsOf pt.src) ↔ Need pm t u := by
  rw [mem_insOf, need_node hl hna]
  constructor
  · rintro ⟨a, ha, hu⟩; exact ⟨a, ha, (h.mem_inputsOfDep (hall a ha) u).mp hu⟩
  · rintro ⟨a, ha, hu⟩; exact ⟨a, ha, (h.mem_inputsOfDep (hall a ha) u).mpr hu⟩

/-! ## preservation -/

theorem isSome_keep {β : Type} {t u : Ty} {v : β} {l : List (Ty × β)} (hn : look t l = none)
    (hu : (look u l).isSome) : (look u ((t, v) :: l)).isSome := by
  obtain ⟨i, hi⟩ := Option.isSome_iff_exists.mp hu
  rw [look_keep hn hi]; rfl

theorem Inv.addLeaf {pm s s'} {curr : Ty} (h : Inv pm s) (hv : look curr s.visited = none)
    (hlf : Leaf pm curr) (hg : s'.groups = s.groups) (hvis : s'.visited = (curr, none) :: s.visited) :
    Inv pm s' := by
  have hcn : curr ∉ s.visited.map (·.1) := (look_none_iff _ _).mp hv
  refine ⟨?_, ?_, ?_, ?_, ?_, ?_, ?_, ?_⟩
  · rw [hvis]; simp only [List.map_cons, List.nodup_cons]; exact ⟨hcn, h.visND⟩
  · intro t ht
    rw [hvis] at ht
    by_cases e : t = curr
    · subst e; exact hlf
    · rw [look_cons_ne _ _ e] at ht; exact h.leafOk t ht
  · intro t i ht
    rw [hvis] at ht
    by_cases e : t = curr
    · subst e; rw [look_cons_self] at ht; cases ht
    · rw [look_cons_ne _ _ e] at ht
      obtain ⟨g, pt, h1, h2, h3, h4, h5, h6⟩ := h.grpOk t i ht
      refine ⟨g, pt, by rw [hg]; exact h1, h2, h3, h4, ?_, h6⟩
      intro a ha; rw [hvis]; exact isSome_keep hv (h5 a ha)
  · intro j g t hj ht
    rw [hg] at hj
    rw [hvis]; exact look_keep hv (h.outOk j g t hj ht)
  · rw [hg]; exact h.outND
  · rw [hg]; exact h.outNE
  · rw [hg]; exact h.inND
  · rw [hg]; exact h.distinct

/-- adding `curr` to group `i` (old or new), described pointwise -/
theorem Inv.addGroup {pm s s'} {curr : Ty} {i : Nat} {gnew : Grp} {pt : PT} (h : Inv pm s)
    (hv : look curr s.visited = none) (hl : look curr pm = some pt) (hna : ∀ i, pt.src ≠ .arg i)
    (hdeps : ∀ a ∈ depsOf pt.src, (look a s.visited).isSome)
    (hvis : s'.visited = (curr, some i) :: s.visited)
    (hgrp : ∀ j, s'.groups[j]? = if j = i then some gnew else s.groups[j]?)
    (hold : ∀ g : Grp, s.groups[i]? = some g → g.inputs = gnew.inputs ∧ gnew.outputs = g.outputs ++ [curr])
    (hnew : s.groups[i]? = none → gnew.outputs = [curr])
    (hin : ∀ u, u ∈ gnew.inputs ↔ Need pm curr u) (hnd : gnew.inputs.Nodup)
    (hdist : ∀ (j : Nat) (gj : Grp), j ≠ i → s.groups[j]? = some gj →
      sameKeys gnew.inputs gj.inputs = false ∧ sameKeys gj.inputs gnew.inputs = false) :
    Inv pm s' := by
  have hcn : curr ∉ s.visited.map (·.1) := (look_none_iff _ _).mp hv
  have hcur : curr ∈ gnew.outputs := by
    cases hgi : s.groups[i]? with
    | none => rw [hnew hgi]; simp
    | some g => rw [(hold g hgi).2]; simp
  have hgi' : s'.groups[i]? = some gnew := by rw [hgrp]; simp
  have hgne : ∀ j, j ≠ i → s'.groups[j]? = s.groups[j]? := fun j hj => by rw [hgrp]; simp [hj]
  refine ⟨?_, ?_, ?_, ?_, ?_, ?_, ?_, ?_⟩
  · rw [hvis]; simp only [List.map_cons, List.nodup_cons]; exact ⟨hcn, h.visND⟩
  · intro t ht
    rw [hvis] at ht
    by_cases e : t = curr
    · subst e; rw [look_cons_self] at ht; cases ht
    · rw [look_cons_ne _ _ e] at ht; exact h.leafOk t ht
  · intro t k ht
    rw [hvis] at ht
    by_cases e : t = curr
    · subst e
      rw [look_cons_self] at ht
      cases ht
      refine ⟨gnew, pt, hgi', hcur, hl, hna, ?_, hin⟩
      intro a ha; rw [hvis]; exact isSome_keep hv (hdeps a ha)
    · rw [look_cons_ne _ _ e] at ht
      obtain ⟨g, pt', h1, h2, h3, h4, h5, h6⟩ := h.grpOk t k ht
      have h5' : ∀ a ∈ depsOf pt'.src, (look a s'.visited).isSome := by
        intro a ha; rw [hvis]; exact isSome_keep hv (h5 a ha)
      by_cases ek : k = i
      · subst ek
        obtain ⟨hi1, hi2⟩ := hold g h1
        refine ⟨gnew, pt', hgi', ?_, h3, h4, h5', ?_⟩
        · rw [hi2]; exact List.mem_append_left _ h2
        · rw [← hi1]; exact h6
      · exact ⟨g, pt', by rw [hgne k ek]; exact h1, h2, h3, h4, h5', h6⟩
  · intro j g t hj ht
    rw [hvis]
    by_cases ej : j = i
    · subst ej
      rw [hgi'] at hj; cases hj
      cases hgi : s.groups[j]? with
      | none =>
        rw [hnew hgi] at ht
        simp only [List.mem_singleton] at ht
        subst ht; exact look_cons_self _ _ _
      | some g0 =>
        rw [(hold g0 hgi).2, List.mem_append, List.mem_singleton] at ht
        rcases ht with ht | ht
        · exact look_keep hv (h.outOk j g0 t hgi ht)
        · subst ht; exact look_cons_self _ _ _
    · rw [hgne j ej] at hj
      exact look_keep hv (h.outOk j g t hj ht)
  · intro j g hj
    by_cases ej : j = i
    · subst ej
      rw [hgi'] at hj; cases hj
      cases hgi : s.groups[j]? with
      | none => rw [hnew hgi]; simp
      | some g0 =>
        rw [(hold g0 hgi).2, List.nodup_append]
        refine ⟨h.outND j g0 hgi, by simp, ?_⟩
        intro a ha b hb e
        simp only [List.mem_singleton] at hb
        subst hb; subst e
        have := h.outOk j g0 a hgi ha
        rw [hv] at this; cases this
    · rw [hgne j ej] at hj; exact h.outND j g hj
  · intro j g hj
    by_cases ej : j = i
    · subst ej
      rw [hgi'] at hj; cases hj
      exact List.ne_nil_of_mem hcur
    · rw [hgne j ej] at hj; exact h.outNE j g hj
  · intro j g hj
    by_cases ej : j = i
    · subst ej; rw [hgi'] at hj; cases hj; exact hnd
    · rw [hgne j ej] at hj; exact h.inND j g hj
  · intro a b ga gb hab ha hb
    by_cases ea : a = i
    · subst ea
      rw [hgi'] at ha; cases ha
      have hbi : b ≠ a := fun e => hab e.symm
      rw [hgne b hbi] at hb
      exact (hdist b gb hbi hb).1
    · rw [hgne a ea] at ha
      by_cases eb : b = i
      · subst eb
        rw [hgi'] at hb; cases hb
        exact (hdist a ga ea ha).2
      · rw [hgne b eb] at hb
        exact h.distinct a b ga gb hab ha hb

theorem getElem?_append_singleton {α} (l : List α) (x : α) (j : Nat) :
    (l ++ [x])[j]? = if j = l.length then some x else l[j]? := by
  rw [List.getElem?_append]
  by_cases h1 : j < l.length
  · have : j ≠ l.length := by omega
    simp [h1, this]
  · by_cases h2 : j = l.length
    · subst h2; simp
    · have h3 : l.length ≤ j := by omega
      have h4 : j - l.length ≠ 0 := by omega
      simp only [h1, if_false, h2]
      rw [List.getElem?_eq_none_iff.mpr h3]
      cases hk : j - l.length with
      | zero => exact absurd hk h4
      | succ k => simp

theorem Inv.step {pm s s'} (h : Inv pm s) (hst : Step pm s s') : Inv pm s' := by
  cases hst with
  | pop curr rest v hs hv => exact Inv.of_eq (s := s) rfl rfl h
  | leaf curr rest hs hv hlf => exact h.addLeaf hv hlf rfl rfl
  | push curr rest pt hs hv hl hna hm => exact Inv.of_eq (s := s) rfl rfl h
  | group curr rest pt hs hv hl hna hm =>
    have hall := missing_nil hm
    have hneed := h.mem_insOf_need hl hna hall
    have hinsnd := h.nodup_insOf (depsOf pt.src)
    rcases addToGroup_cases s curr (insOf s (depsOf pt.src)) rest with
      ⟨i, g, hgi, hsame, hgrp, hvis, _⟩ | ⟨hnone, hgrp, hvis, _⟩
    · -- an existing group
      have hgnd := h.inND i g hgi
      refine h.addGroup (i := i) (gnew := { g with outputs := g.outputs ++ [curr] })
        hv hl hna hall hvis ?_ ?_ ?_ ?_ hgnd ?_
      · intro j
        rw [hgrp, List.getElem?_modify]
        by_cases e : j = i
        · subst e; simp [hgi]
        · have e' : ¬ i = j := fun x => e x.symm
          simp only [e, e', if_false]
          cases s.groups[j]? <;> rfl
      · intro g' hg'
        rw [hgi] at hg'; cases hg'
        exact ⟨rfl, rfl⟩
      · intro hn; rw [hgi] at hn; cases hn
      · intro u
        rw [← hneed u]
        exact sameKeys_mem hgnd hsame u
      · intro j gj hj hgj
        exact ⟨h.distinct i j g gj (fun e => hj e.symm) hgi hgj, h.distinct j i gj g hj hgj hgi⟩
    · -- a new group
      have hlen : s.groups[s.groups.length]? = none := by simp
      refine h.addGroup (i := s.groups.length)
        (gnew := { inputs := insOf s (depsOf pt.src), outputs := [curr] })
        hv hl hna hall hvis ?_ ?_ ?_ hneed hinsnd ?_
      · intro j; rw [hgrp]; exact getElem?_append_singleton _ _ _
      · intro g hg; rw [hlen] at hg; cases hg
      · intro _; rfl
      · intro j gj _ hgj
        have hmem : gj ∈ s.groups := List.mem_of_getElem? hgj
        have h1 := hnone gj hmem
        refine ⟨?_, h1⟩
        cases hx : sameKeys (insOf s (depsOf pt.src)) gj.inputs with
        | false => rfl
        | true => rw [sameKeys_symm hinsnd hx] at h1; cases h1

theorem Inv.iterO {pm n s s'} (h : iterO pm n s = some s') (hI : Inv pm s) : Inv pm s' :=
  iterO_induct (Inv pm) (fun _ _ hp hst => hp.step hst) n s s' h hI

theorem Inv.gIter {pm} (n : Nat) {s : GSt} (hI : Inv pm s) : Inv pm (gIter pm n s) :=
  gIter_induct (Inv pm) (fun _ _ hp hst => hp.step hst) n s hI

/-! ## reachability from the keys -/

structure InvR (pm : PMap) (keys : List Ty) (s : GSt) : Prop where
  stkR : ∀ t ∈ s.stk, ∃ k ∈ keys, GReach pm k t
  visR : ∀ t, (look t s.visited).isSome → ∃ k ∈ keys, GReach pm k t

theorem InvR.init (pm : PMap) (keys : List Ty) : InvR pm keys {} :=
  ⟨by simp, by simp [look]⟩

theorem InvR.add {pm keys s s'} {curr : Ty} {rest : List Ty} {v : Option Nat} (h : InvR pm keys s)
    (hs : s.stk = curr :: rest) (hstk : s'.stk = rest) (hvis : s'.visited = (curr, v) :: s.visited) :
    InvR pm keys s' := by
  refine ⟨?_, ?_⟩
  · intro t ht; rw [hstk] at ht
    exact h.stkR t (by rw [hs]; exact List.mem_cons_of_mem _ ht)
  · intro t ht
    rw [hvis] at ht
    by_cases e : t = curr
    · subst e; exact h.stkR t (by rw [hs]; exact List.mem_cons_self)
    · rw [look_cons_ne _ _ e] at ht; exact h.visR t ht

theorem InvR.step {pm keys s s'} (h : InvR pm keys s) (hst : Step pm s s') : InvR pm keys s' := by
  cases hst with
  | pop curr rest v hs hv =>
    exact ⟨fun t ht => h.stkR t (by rw [hs]; exact List.mem_cons_of_mem _ ht), h.visR⟩
  | leaf curr rest hs hv hlf => exact h.add hs rfl rfl
  | push curr rest pt hs hv hl hna hm =>
    refine ⟨?_, h.visR⟩
    intro t ht
    simp only [List.mem_append, List.mem_reverse] at ht
    rcases ht with ht | ht
    · obtain ⟨k, hk, hr⟩ := h.stkR curr (by rw [hs]; exact List.mem_cons_self)
      exact ⟨k, hk, hr.trans (.single ⟨pt, hl, hna, (missing_sub ht).1⟩)⟩
    · exact h.stkR t (by rw [hs]; exact ht)
  | group curr rest pt hs hv hl hna hm =>
    rcases addToGroup_cases s curr (insOf s (depsOf pt.src)) rest with
      ⟨i, g, _, _, _, hvis, hstk⟩ | ⟨_, _, hvis, hstk⟩
    · exact h.add hs hstk hvis
    · exact h.add hs hstk hvis

theorem InvR.iterO {pm keys n s s'} (h : iterO pm n s = some s') (hI : InvR pm keys s) :
    InvR pm keys s' :=
  iterO_induct (InvR pm keys) (fun _ _ hp hst => hp.step hst) n s s' h hI

end WireP.Show
