import WireP.Lemmas.PMapBasic
/-! # PMapIns — the plain-insert phases of `buildProviderMap` as pure list functions -/
namespace WireP.PMapProofs
open WireV

/-- pm and sm always carry the same key list -/
def Inv (s : BState) : Prop := keys s.pm = keys s.sm

theorem inv_empty : Inv {} := rfl

/-- the errors a run of plain inserts appends, as a function of the keys only -/
def insErrs : List Ty → List Ty → List Err
  | _, [] => []
  | sk, t :: l => if t ∈ sk then Err.multi t :: insErrs sk l else insErrs (t :: sk) l

theorem ins_some {s : BState} {t : Ty} (pt : PT) (src : SrcId) (h : t ∈ keys s.sm) :
    s.ins t pt src = { s with errs := s.errs ++ [Err.multi t] } := by
  unfold BState.ins
  cases hl : look t s.sm with
  | none => exact absurd h (look_eq_none_iff.mp hl)
  | some _ => rfl

theorem ins_none {s : BState} {t : Ty} (pt : PT) (src : SrcId) (h : t ∉ keys s.sm) :
    s.ins t pt src = { s with pm := (t, pt) :: s.pm, sm := (t, src) :: s.sm } := by
  unfold BState.ins
  rw [look_eq_none_iff.mpr h]

theorem ins_inv {s : BState} (h : Inv s) (t : Ty) (pt : PT) (src : SrcId) : Inv (s.ins t pt src) := by
  by_cases hk : t ∈ keys s.sm
  · rw [ins_some pt src hk]; exact h
  · rw [ins_none pt src hk]
    simp only [Inv, keys_cons] at *
    rw [h]

theorem insL_inv {s : BState} (h : Inv s) (l : List Item) : Inv (insL s l) := by
  induction l generalizing s with
  | nil => exact h
  | cons x l ih => exact ih (ins_inv h _ _ _)

theorem insL_errs (s : BState) (l : List Item) :
    (insL s l).errs = s.errs ++ insErrs (keys s.sm) (keys l) := by
  induction l generalizing s with
  | nil => simp [insErrs]
  | cons x l ih =>
    rw [insL_cons, ih]
    by_cases hk : x.1 ∈ keys s.sm
    · rw [ins_some _ _ hk]
      simp [insErrs, hk]
    · rw [ins_none _ _ hk]
      simp [insErrs, hk]

theorem insErrs_eq_nil {sk l : List Ty} : insErrs sk l = [] ↔ l.Nodup ∧ ∀ t ∈ l, t ∉ sk := by
  induction l generalizing sk with
  | nil => simp [insErrs]
  | cons t l ih =>
    by_cases hk : t ∈ sk
    · simp [insErrs, hk]
    · simp only [insErrs, hk, if_false, ih, List.nodup_cons, List.mem_cons, not_or]
      constructor
      · rintro ⟨hnd, hd⟩
        refine ⟨⟨fun hm => (hd t hm).1 rfl, hnd⟩, ?_⟩
        rintro u (rfl | hu)
        · exact hk
        · exact (hd u hu).2
      · rintro ⟨⟨hnm, hnd⟩, hd⟩
        refine ⟨hnd, fun u hu => ⟨?_, hd u (Or.inr hu)⟩⟩
        rintro rfl
        exact hnm hu

theorem insErrs_multi {sk l : List Ty} {e : Err} (h : e ∈ insErrs sk l) :
    ∃ t, e = Err.multi t ∧ 2 ≤ sk.count t + l.count t := by
  induction l generalizing sk with
  | nil => simp [insErrs] at h
  | cons u l ih =>
    by_cases hk : u ∈ sk
    · simp only [insErrs, hk, if_true, List.mem_cons] at h
      rcases h with rfl | h
      · refine ⟨u, rfl, ?_⟩
        have := List.count_pos_iff.mpr hk
        simp only [List.count_cons_self]
        omega
      · obtain ⟨t, rfl, hc⟩ := ih h
        refine ⟨t, rfl, ?_⟩
        have := List.count_le_count_cons (a := t) (b := u) (l := l)
        omega
    · simp only [insErrs, hk, if_false] at h
      obtain ⟨t, rfl, hc⟩ := ih h
      refine ⟨t, rfl, ?_⟩
      simp only [List.count_cons] at hc ⊢
      omega

/-- when no error is appended, the maps are exactly the reversed item list on top of the old maps -/
theorem insL_clean {s : BState} {l : List Item} (h : insErrs (keys s.sm) (keys l) = []) :
    (insL s l).pm = (l.map Item.ent).reverse ++ s.pm ∧
    (insL s l).sm = (l.map Item.sent).reverse ++ s.sm := by
  induction l generalizing s with
  | nil => simp
  | cons x l ih =>
    by_cases hk : x.1 ∈ keys s.sm
    · simp [insErrs, hk] at h
    · simp only [keys_cons, insErrs, hk, if_false] at h
      rw [insL_cons, ins_none _ _ hk]
      have := ih (s := { s with pm := (x.1, x.2.1) :: s.pm, sm := (x.1, x.2.2) :: s.sm }) h
      simp only [this, List.map_cons, List.reverse_cons, List.append_assoc, List.singleton_append, Item.ent,
        Item.sent, and_self]

theorem keys_ent (l : List Item) : keys (l.map Item.ent) = keys l := by
  simp [keys, Item.ent, Function.comp_def]
theorem keys_sent (l : List Item) : keys (l.map Item.sent) = keys l := by
  simp [keys, Item.sent, Function.comp_def]
theorem keys_reverse {β : Type} (l : List (Ty × β)) : keys l.reverse = (keys l).reverse := by
  simp [keys]

end WireP.PMapProofs
