import WireP.Lemmas.AcyclicDefs
/-! # Every diagnostic of `verifyAcyclic` is a closed walk of the provider graph -/
namespace WireP.AcyclicProofs
open WireV WireP.C07

/-! ## chains -/

theorem chain_tail {R : Ty → Ty → Prop} {x : Ty} {l : List Ty} (h : List.IsChain R (x :: l)) :
    List.IsChain R l := by
  cases l with
  | nil => exact List.IsChain.nil
  | cons y l => exact (List.isChain_cons_cons.mp h).2

theorem chain_snoc {R : Ty → Ty → Prop} {a : Ty} : ∀ {l : List Ty}, List.IsChain R l →
    (∀ x, l.getLast? = some x → R x a) → List.IsChain R (l ++ [a])
  | [], _, _ => List.IsChain.singleton a
  | [b], _, hl => by
    have : R b a := hl b (by simp)
    simpa using List.IsChain.cons_cons this (List.IsChain.singleton a)
  | b :: c :: l, hc, hl => by
    have hc' := List.isChain_cons_cons.mp hc
    have ih := chain_snoc (a := a) hc'.2 (fun x hx => hl x (by simpa using hx))
    simpa using List.IsChain.cons_cons hc'.1 ih

theorem chain_dropWhile {R : Ty → Ty → Prop} (p : Ty → Bool) : ∀ {l : List Ty}, List.IsChain R l →
    List.IsChain R (l.dropWhile p)
  | [], _ => by simp
  | x :: l, hc => by
    simp only [List.dropWhile_cons]
    split
    · exact chain_dropWhile p (chain_tail hc)
    · exact hc

theorem getLast?_dropWhile (p : Ty → Bool) : ∀ (l : List Ty), l.dropWhile p ≠ [] →
    (l.dropWhile p).getLast? = l.getLast?
  | [], h => by simp at h
  | x :: l, h => by
    simp only [List.dropWhile_cons] at h ⊢
    split
    · rename_i hp
      simp only [hp, if_true] at h
      have hne : l ≠ [] := by intro e; subst e; simp at h
      rw [getLast?_dropWhile p l h]
      obtain ⟨y, l', rfl⟩ := List.exists_cons_of_ne_nil hne
      simp [List.getLast?_cons_cons]
    · rfl

theorem dropWhile_ne_head (a : Ty) : ∀ (l : List Ty), a ∈ l →
    ∃ r, l.dropWhile (fun b => b != a) = a :: r
  | [], h => by simp at h
  | x :: l, h => by
    simp only [List.dropWhile_cons]
    by_cases hx : x = a
    · subst hx; exact ⟨l, by simp⟩
    · have hm : a ∈ l := by
        rcases List.mem_cons.mp h with e | e
        · exact absurd e.symm hx
        · exact e
      obtain ⟨r, hr⟩ := dropWhile_ne_head a l hm
      exact ⟨r, by simp [hx, hr]⟩

/-! ## trails -/

/-- a trail (stored newest first) is a path of the graph when read oldest first -/
def TrailOK (succ : Ty → List Ty) (T : List Ty) : Prop :=
  List.IsChain (fun x y => y ∈ succ x) T.reverse

theorem trailOK_single (succ : Ty → List Ty) (r : Ty) : TrailOK succ [r] := by
  simp [TrailOK]

theorem trailOK_push {succ : Ty → List Ty} {h a : Ty} {t : List Ty}
    (ht : TrailOK succ (h :: t)) (ha : a ∈ succ h) : TrailOK succ (a :: h :: t) := by
  unfold TrailOK at ht ⊢
  rw [List.reverse_cons]
  apply chain_snoc ht
  intro x hx
  rw [List.getLast?_reverse] at hx
  simp at hx; subst hx; exact ha

/-- the printed trail of a back edge `h ⟶ a` with `a` on the trail is a closed walk -/
theorem cycleOf_isCycleTrail {succ : Ty → List Ty} {h a : Ty} {t : List Ty}
    (ht : TrailOK succ (h :: t)) (ha : a ∈ succ h) (hm : a ∈ h :: t) :
    IsCycleTrail succ (cycleOf (h :: t) a) := by
  unfold TrailOK at ht
  have hm' : a ∈ (h :: t).reverse := List.mem_reverse.mpr hm
  obtain ⟨r, hr⟩ := dropWhile_ne_head a _ hm'
  have hch : List.IsChain (fun x y => y ∈ succ x) (a :: r) := by
    rw [← hr]; exact chain_dropWhile _ ht
  have hlast : (a :: r).getLast? = some h := by
    rw [← hr, getLast?_dropWhile _ _ (by rw [hr]; simp), List.getLast?_reverse]; rfl
  have hcyc : cycleOf (h :: t) a = (a :: r) ++ [a] := by
    unfold cycleOf; rw [hr]
  rw [hcyc]
  refine ⟨by simp, by rw [List.getLast?_concat]; rfl, ?_⟩
  apply chain_snoc hch
  intro x hx
  rw [hlast] at hx
  simp at hx; subst hx; exact ha

/-! ## the invariant -/

structure Inv (succ : Ty → List Ty) (s : AcSt) : Prop where
  trails : ∀ T ∈ s.stk, TrailOK succ T
  errs : ∀ tr ∈ s.errs, IsCycleTrail succ tr

theorem inv_init (succ : Ty → List Ty) (roots : List Ty) : Inv succ (acInit roots) := by
  constructor
  · intro T hT
    simp only [acInit, List.mem_map] at hT
    obtain ⟨r, _, rfl⟩ := hT
    exact trailOK_single succ r
  · intro tr htr; simp [acInit] at htr

theorem inv_step (succ : Ty → List Ty) (s s' : AcSt) (hi : Inv succ s)
    (h : acStep succ s = some s') : Inv succ s' := by
  unfold acStep at h
  split at h
  · simp at h
  · rename_i rest hs
    simp only [Option.some.injEq] at h; subst h
    exact ⟨fun T hT => hi.trails T (by rw [hs]; exact List.mem_cons_of_mem _ hT), hi.errs⟩
  · rename_i hd t rest hs
    have hrest : ∀ T ∈ rest, TrailOK succ T :=
      fun T hT => hi.trails T (by rw [hs]; exact List.mem_cons_of_mem _ hT)
    have hht : TrailOK succ (hd :: t) := hi.trails _ (by rw [hs]; exact List.mem_cons_self)
    split at h
    · simp only [Option.some.injEq] at h; subst h
      exact ⟨hrest, hi.errs⟩
    · simp only [Option.some.injEq] at h; subst h
      constructor
      · intro T hT
        simp only [List.mem_append, List.mem_reverse, List.mem_map, List.mem_filter] at hT
        rcases hT with ⟨a, ⟨ha, _⟩, rfl⟩ | hT
        · exact trailOK_push hht ha
        · exact hrest T hT
      · intro tr htr
        simp only [List.mem_append, List.mem_map, List.mem_filter] at htr
        rcases htr with htr | ⟨a, ⟨ha, hm⟩, rfl⟩
        · exact hi.errs tr htr
        · exact cycleOf_isCycleTrail hht ha (by simpa using hm)

theorem inv_iter (succ : Ty → List Ty) : ∀ (n : Nat) (s : AcSt), Inv succ s →
    Inv succ (acIter succ n s) := by
  intro n
  induction n with
  | zero => intro s hs; exact hs
  | succ n ih =>
    intro s hs
    simp only [acIter]
    cases hst : acStep succ s with
    | none => exact hs
    | some s' => exact ih s' (inv_step succ s s' hs hst)

theorem va_sound (pm : PMap) (roots : List Ty) :
    ∀ tr ∈ (verifyAcyclic pm roots).errs, IsCycleTrail (succOf pm) tr :=
  (inv_iter (succOf pm) _ _ (inv_init (succOf pm) roots)).errs

end WireP.AcyclicProofs
