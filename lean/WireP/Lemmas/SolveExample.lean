import WireP.Lemmas.SolveUsed
/-! # Concrete instances for the non-vacuity examples of C02 / C06 / C08 / C11

`pmEx` : injector argument `0`; value `1`; provider `B(0,1) → 2`; interface `3` bound to `2`;
`C(3) → 4`; `D(2) → 5`; struct provider `E(4,5) → 6` (a diamond over `2`); field `7` of `6`;
`out = 7`.  `pmMiss` is the same map without the value `1`. -/
namespace WireP.Solve.Ex
open WireV

def pB : Prov := { id := 20, args := [0, 1], outs := [2] }
def pC : Prov := { id := 21, args := [3], outs := [4] }
def pD : Prov := { id := 22, args := [2], outs := [5], hasErr := true }
def pE : Prov := { id := 23, args := [4, 5], outs := [6], isStruct := true }
def vV : Val := { id := 10, out := 1 }
def fF : Fld := { id := 30, parent := 6, outs := [7] }
def bI : Bnd := { id := 40, iface := 3, provided := 2 }

def pmEx : PMap :=
  [(0, ⟨0, .arg 0⟩), (1, ⟨1, .val vV⟩), (2, ⟨2, .prov pB⟩), (3, ⟨2, .prov pB⟩),
   (4, ⟨4, .prov pC⟩), (5, ⟨5, .prov pD⟩), (6, ⟨6, .prov pE⟩), (7, ⟨7, .fld fF⟩)]

def smEx : SMap :=
  [(0, .arg 0), (1, .val 10), (2, .prov 20), (3, .bnd 40), (4, .prov 21), (5, .prov 22),
   (6, .prov 23), (7, .fld 30)]

def dEx : SetDef :=
  { id := 0, args := some [0], imports := [], provs := [pB, pC, pD, pE], vals := [vV],
    flds := [fF], bnds := [bI] }

/-- the same set with one more, unused, value -/
def dEx' : SetDef := { dEx with vals := [vV, { id := 11, out := 8 }] }

def pmMiss : PMap := pmEx.filter (fun kv => kv.1 != 1)
def smMiss : SMap := smEx.filter (fun kv => kv.1 != 1)

theorem hEx : H pmEx [0] where
  acyclic := acyclic_of_rank pmEx id (by decide)
  argsGiven := argsGiven_of_forall pmEx [0] (by decide)
  concClosed := concClosed_of_forall pmEx (by decide)
  keysNodup := by decide
  givenNodup := by decide

theorem hMiss : H pmMiss [0] where
  acyclic := acyclic_of_rank pmMiss id (by decide)
  argsGiven := argsGiven_of_forall pmMiss [0] (by decide)
  concClosed := concClosed_of_forall pmMiss (by decide)
  keysNodup := by decide
  givenNodup := by decide

theorem leafEx : GivenLeaf pmEx [0] := givenLeaf_of_forall pmEx [0] (by decide)
theorem leafMiss : GivenLeaf pmMiss [0] := givenLeaf_of_forall pmMiss [0] (by decide)
theorem srcTotalEx : ∀ k ∈ [0, 1, 2, 3, 4, 5, 6, 7, 8], (look k pmEx).isSome = (look k smEx).isSome := by
  decide

/-! ## counterexamples to statements of the brief (hypotheses that cannot be dropped) -/

/-- a *given* type that is the key of a binding: `H` holds, `GivenSelf` fails -/
def pmA : PMap :=
  [(3, ⟨2, .val { id := 7, out := 2 }⟩), (2, ⟨2, .val { id := 7, out := 2 }⟩),
   (4, ⟨4, .prov { id := 1, args := [3], outs := [4] }⟩)]

theorem hA : H pmA [3] where
  acyclic := acyclic_of_rank pmA id (by decide)
  argsGiven := argsGiven_of_forall pmA [3] (by decide)
  concClosed := concClosed_of_forall pmA (by decide)
  keysNodup := by decide
  givenNodup := by decide

/-- a *given* type that also has a provider with parameters: `H` holds, `GivenLeaf` fails -/
def pmB : PMap :=
  [(0, ⟨0, .prov { id := 1, args := [1, 5], outs := [0] }⟩), (1, ⟨1, .val { id := 2, out := 1 }⟩)]
def smB : SMap := [(0, .prov 1), (1, .val 2)]

theorem hB : H pmB [0] where
  acyclic := acyclic_of_rank pmB (fun t => if t = 0 then 1 else 0) (by decide)
  argsGiven := argsGiven_of_forall pmB [0] (by decide)
  concClosed := concClosed_of_forall pmB (by decide)
  keysNodup := by decide
  givenNodup := by decide

theorem reachB1 : Reach pmB 0 1 :=
  .step ⟨_, rfl, Or.inr ⟨rfl, by decide⟩⟩ (.refl 1)
theorem reachB5 : Reach pmB 0 5 :=
  .step ⟨_, rfl, Or.inr ⟨rfl, by decide⟩⟩ (.refl 5)

end WireP.Solve.Ex
