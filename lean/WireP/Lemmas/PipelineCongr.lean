import WireP.Lemmas.PipelineDefs
import WireV.Sets
import WireP.Lemmas.SolveDefs
/-! # Pipeline, part 7 — the machines depend on a map only through `look` (and its multiset)

`svStep`, `acStep` read the maps only through `look`; the two fuels are sums over the association
list, hence invariant under permutation.  So two maps with distinct keys that are permutations of
each other yield the same detector run and the same planner run. -/
namespace WireP.PipelineProofs
open WireV WireP.Pipeline WireP.Solve

/-! ## permutation of an association list with distinct keys -/

theorem nodup_of_keys_nodup {β : Type} {l : List (Ty × β)} (h : (l.map (·.1)).Nodup) : l.Nodup := by
  unfold List.Nodup at h ⊢
  rw [List.pairwise_map] at h
  exact h.imp (fun hne e => hne (by rw [e]))

theorem look_eq_some_iff {β : Type} {l : List (Ty × β)} (h : (l.map (·.1)).Nodup) (t : Ty) (v : β) :
    look t l = some v ↔ (t, v) ∈ l :=
  ⟨look_mem, look_of_mem_nodup h⟩

/-- permuting an association list with distinct keys does not change any lookup -/
theorem look_perm {β : Type} {l l' : List (Ty × β)} (hnd : (l.map (·.1)).Nodup) (hp : l.Perm l')
    (t : Ty) : look t l = look t l' := by
  have hnd' : (l'.map (·.1)).Nodup := (hp.map _).nodup_iff.mp hnd
  apply Option.ext
  intro v
  rw [look_eq_some_iff hnd, look_eq_some_iff hnd', hp.mem_iff]

/-- two association lists with distinct keys and the same lookups are permutations of each other -/
theorem perm_of_look {β : Type} {l l' : List (Ty × β)} (hnd : (l.map (·.1)).Nodup)
    (hnd' : (l'.map (·.1)).Nodup) (h : ∀ t, look t l = look t l') : l.Perm l' := by
  rw [List.perm_ext_iff_of_nodup (nodup_of_keys_nodup hnd) (nodup_of_keys_nodup hnd')]
  rintro ⟨t, v⟩
  rw [← look_eq_some_iff hnd, ← look_eq_some_iff hnd', h]

/-! ## the planner -/

theorem svStep_congr {pm pm' : PMap} {sm sm' : SMap} (hpm : ∀ t, look t pm = look t pm')
    (hsm : ∀ t, look t sm = look t sm') (ng : Nat) (s : SvSt) :
    svStep pm sm ng s = svStep pm' sm' ng s := by
  unfold svStep
  simp only [hpm, hsm]

theorem svIter_congr {pm pm' : PMap} {sm sm' : SMap} (hpm : ∀ t, look t pm = look t pm')
    (hsm : ∀ t, look t sm = look t sm') (ng : Nat) :
    ∀ (n : Nat) (s : SvSt), svIter pm sm ng n s = svIter pm' sm' ng n s := by
  intro n
  induction n with
  | zero => intro s; rfl
  | succ n ih =>
    intro s
    simp only [svIter, svStep_congr hpm hsm]
    cases svStep pm' sm' ng s with
    | none => rfl
    | some s' => exact ih s'

theorem svFuel_perm {pm pm' : PMap} (hp : pm.Perm pm') : svFuel pm = svFuel pm' := by
  unfold svFuel
  rw [(hp.map _).sum_nat]

/-- the state `solve` inspects is the same for two presentations of the same map -/
theorem final_congr {pm pm' : PMap} {sm sm' : SMap} (hnd : (pm.map (·.1)).Nodup) (hp : pm.Perm pm')
    (hsm : ∀ t, look t sm = look t sm') (given : List Ty) (out : Ty) :
    final pm sm given out = final pm' sm' given out := by
  unfold final
  rw [svFuel_perm hp]
  exact svIter_congr (look_perm hnd hp) hsm _ _ _

/-! ## the cycle detector -/

theorem succOf_congr {pm pm' : PMap} (hpm : ∀ t, look t pm = look t pm') :
    succOf pm = succOf pm' := by
  funext t
  unfold succOf
  rw [hpm]

theorem rootsOf_congr {pm pm' : PMap} (hpm : ∀ t, look t pm = look t pm') (order : List Ty) :
    rootsOf order pm = rootsOf order pm' := by
  unfold rootsOf
  simp only [hpm]

theorem acFuel_perm {pm pm' : PMap} (hnd : (pm.map (·.1)).Nodup) (hp : pm.Perm pm') (roots : List Ty) :
    acFuel pm roots = acFuel pm' roots := by
  unfold acFuel
  rw [succOf_congr (look_perm hnd hp), (hp.map _).sum_nat]

theorem verifyAcyclic_perm {pm pm' : PMap} (hnd : (pm.map (·.1)).Nodup) (hp : pm.Perm pm')
    (roots : List Ty) : verifyAcyclic pm roots = verifyAcyclic pm' roots := by
  unfold verifyAcyclic
  rw [acFuel_perm hnd hp, succOf_congr (look_perm hnd hp)]

theorem checkAcyclic_perm {pm pm' : PMap} (hnd : (pm.map (·.1)).Nodup) (hp : pm.Perm pm')
    (order : List Ty) : checkAcyclic order pm = checkAcyclic order pm' := by
  unfold checkAcyclic
  rw [rootsOf_congr (look_perm hnd hp), verifyAcyclic_perm hnd hp]

end WireP.PipelineProofs
