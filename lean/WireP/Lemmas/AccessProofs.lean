import WireV.Access
/-! # Lemmas about `WireV.accessibleFrom` -/
namespace WireP.Access
open WireV

/-- what "the target package can name this identifier" means -/
def IdentOk (want : Nat) (i : AIdent) : Prop :=
  i.scope = .pkgName ∨ i.scope = .noPkg ∨
    (i.scope ≠ .local ∧ (i.pkg = want ∨ (i.exported = true ∧ i.importable = true)))

/-- what "the target package can write this literal" means: every positionally set field is exported or its own -/
def LitOk (want : Nat) (fs : List AField) : Prop := ∀ f ∈ fs, f.exported = true ∨ f.pkg = want

def NodeOk (want : Nat) : ANode → Prop
  | .ident i => IdentOk want i
  | .lit fs => LitOk want fs

theorem identErr_none_iff (want : Nat) (i : AIdent) : identErr want i = none ↔ IdentOk want i := by
  unfold identErr IdentOk
  cases hs : i.scope <;> cases he : i.exported <;> cases hi : i.importable <;> by_cases hp : i.pkg = want <;> simp [hp]

theorem litErr_none_iff (want : Nat) (fs : List AField) : litErr want fs = none ↔ LitOk want fs := by
  unfold litErr LitOk
  simp only [Option.map_eq_none_iff, List.find?_eq_none]
  constructor
  · intro h f hf
    have := h f hf
    cases he : f.exported <;> by_cases hp : f.pkg = want <;> simp_all
  · intro h f hf
    rcases h f hf with he | hp <;> simp [*]

theorem nodeErr_none_iff (want : Nat) (n : ANode) : nodeErr want n = none ↔ NodeOk want n := by
  cases n with
  | ident i => exact identErr_none_iff want i
  | lit fs => exact litErr_none_iff want fs

theorem accessible_none_iff (want : Nat) (nodes : List ANode) :
    accessibleFrom want nodes = none ↔ ∀ n ∈ nodes, NodeOk want n := by
  unfold accessibleFrom
  induction nodes with
  | nil => simp
  | cons n ns ih =>
    simp only [List.findSome?_cons, List.mem_cons, forall_eq_or_imp]
    cases h : nodeErr want n with
    | none => simp [ih, (nodeErr_none_iff want n).1 h]
    | some e =>
      simp only [reduceCtorEq, false_iff, not_and]
      intro hok
      have := (nodeErr_none_iff want n).2 hok
      rw [h] at this; cases this

/-- the reported error is the error of the first offending node, all nodes before it are fine -/
theorem accessible_some_first (want : Nat) (nodes : List ANode) (e : AErr) (h : accessibleFrom want nodes = some e) :
    ∃ pre n post, nodes = pre ++ n :: post ∧ (∀ m ∈ pre, NodeOk want m) ∧ nodeErr want n = some e := by
  unfold accessibleFrom at h
  induction nodes with
  | nil => simp at h
  | cons n ns ih =>
    simp only [List.findSome?_cons] at h
    cases hn : nodeErr want n with
    | some e' =>
      rw [hn] at h
      injection h with h; subst h
      exact ⟨[], n, ns, rfl, by simp, hn⟩
    | none =>
      rw [hn] at h
      obtain ⟨pre, m, post, rfl, hpre, hm⟩ := ih h
      refine ⟨n :: pre, m, post, rfl, ?_, hm⟩
      intro x hx
      rcases List.mem_cons.1 hx with rfl | hx
      · exact (nodeErr_none_iff want _).1 hn
      · exact hpre x hx

end WireP.Access
