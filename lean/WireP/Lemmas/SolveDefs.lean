import WireV.Solve
/-! # Definitions shared by the planner proofs (Task C: C02 / C06 / C08 / C11)

Specification vocabulary for `WireV.svStep` / `svIter` / `solve`, and elementary lemmas about
`look`, `Reach`, `produced`. -/
namespace WireP.Solve
open WireV

/-- the dependency relation the planner follows: a binding key depends on its concrete type,
    a concrete key on the parameters of its provider / the parent of its field -/
def dep (pm : PMap) (t u : Ty) : Prop :=
  ∃ pt, look t pm = some pt ∧ ((pt.t ≠ t ∧ u = pt.t) ∨ (pt.t = t ∧ u ∈ depsOf pt.src))

inductive Reach (pm : PMap) : Ty → Ty → Prop
  | refl (a : Ty) : Reach pm a a
  | step {a b c : Ty} : dep pm a b → Reach pm b c → Reach pm a c

/-- acyclicity (established by `verifyAcyclic`, C07), in the form the induction needs -/
def Acyclic (pm : PMap) : Prop := WellFounded (fun u t => dep pm t u)

/-- an injector-argument entry of the map is one of the given types -/
def ArgsGiven (pm : PMap) (given : List Ty) : Prop :=
  ∀ t pt i, look t pm = some pt → pt.t = t → pt.src = .arg i → t ∈ given

/-- the concrete type of every entry is itself a key, with the same entry
    (same text as `WireP.PMapInv.ConcClosed` of Task B) -/
def ConcClosed (pm : PMap) : Prop := ∀ k pt, look k pm = some pt → look pt.t pm = some pt

/-- every key with a provider has a source and vice versa (Task B: `WireP.PMapInv.SrcTotal`) -/
def SrcTotal (pm : PMap) (sm : SMap) : Prop := ∀ k, (look k pm).isSome ↔ (look k sm).isSome

/-- the state in which `solve` inspects the machine -/
def final (pm : PMap) (sm : SMap) (given : List Ty) (out : Ty) : SvSt :=
  svIter pm sm given.length (svFuel pm) (svInit given out)

/-- the type held by local variable `n`: injector parameters first, then one per call -/
def produced (given : List Ty) (calls : List Call) (n : Nat) : Option Ty :=
  if n < given.length then given[n]? else (calls[n - given.length]?).map (·.out)

/-- the concrete type a requested type resolves to (itself unless it is a binding key) -/
def resolveTy (pm : PMap) (t : Ty) : Ty :=
  match look t pm with
  | some pt => pt.t
  | none => t

/-- the standing hypotheses of the brief -/
structure H (pm : PMap) (given : List Ty) : Prop where
  acyclic : Acyclic pm
  argsGiven : ArgsGiven pm given
  concClosed : ConcClosed pm
  keysNodup : (pm.map (·.1)).Nodup
  givenNodup : given.Nodup

/-- **extra hypothesis 1** (needed by the index-soundness theorems): a given type is not the key
    of an interface binding. -/
def GivenSelf (pm : PMap) (given : List Ty) : Prop := ∀ g ∈ given, resolveTy pm g = g

/-- **extra hypothesis 2** (needed by the completeness theorems): a given type has no
    dependencies in the map (true of every map built by `buildProviderMap args …` with
    `given = args`, where a given type is an `.arg` entry). -/
def GivenLeaf (pm : PMap) (given : List Ty) : Prop := ∀ g ∈ given, ∀ u, ¬ dep pm g u

/-- what `buildProviderMap` guarantees: every given type is an `.arg` entry -/
def GivenArgs (pm : PMap) (given : List Ty) : Prop :=
  ∀ g ∈ given, ∃ i, look g pm = some ⟨g, .arg i⟩

/-! ## `look` -/

theorem look_cons {β : Type} (u k : Ty) (v : β) (l : List (Ty × β)) :
    look u ((k, v) :: l) = if u = k then some v else look u l := rfl

theorem look_cons_self {β : Type} (k : Ty) (v : β) (l : List (Ty × β)) :
    look k ((k, v) :: l) = some v := by simp [look]

theorem look_cons_ne {β : Type} {u k : Ty} (v : β) (l : List (Ty × β)) (h : u ≠ k) :
    look u ((k, v) :: l) = look u l := by simp [look, h]

theorem look_none_iff {β : Type} (t : Ty) (l : List (Ty × β)) :
    look t l = none ↔ t ∉ l.map (·.1) := by
  induction l with
  | nil => simp [look]
  | cons kv l ih =>
    obtain ⟨k, v⟩ := kv
    by_cases e : t = k
    · simp [look, e]
    · simp [look, e, ih]

theorem look_mem {β : Type} {t : Ty} {v : β} {l : List (Ty × β)} (h : look t l = some v) :
    (t, v) ∈ l := by
  induction l with
  | nil => simp [look] at h
  | cons kv l ih =>
    obtain ⟨k, w⟩ := kv
    by_cases e : t = k
    · simp [look, e] at h; simp [e, h]
    · simp [look, e] at h; exact List.mem_cons_of_mem _ (ih h)

theorem look_of_mem_nodup {β : Type} {t : Ty} {v : β} {l : List (Ty × β)}
    (hnd : (l.map (·.1)).Nodup) (h : (t, v) ∈ l) : look t l = some v := by
  induction l with
  | nil => simp at h
  | cons kv l ih =>
    obtain ⟨k, w⟩ := kv
    simp only [List.map_cons, List.nodup_cons] at hnd
    rcases List.mem_cons.mp h with e | h'
    · cases e; simp [look]
    · have hne : t ≠ k := by
        intro e; subst e
        exact hnd.1 (List.mem_map.mpr ⟨(t, v), h', rfl⟩)
      simp [look, hne, ih hnd.2 h']

theorem look_isSome_iff {β : Type} (t : Ty) (l : List (Ty × β)) :
    (look t l).isSome ↔ t ∈ l.map (·.1) := by
  have := look_none_iff t l
  cases h : look t l with
  | none => simp [h] at this; simp [this]
  | some v => simp [h] at this; simpa using this

/-- adding a fresh key keeps every old entry -/
theorem look_keep {β : Type} {t u : Ty} {v i : β} {l : List (Ty × β)} (hn : look t l = none)
    (hu : look u l = some i) : look u ((t, v) :: l) = some i := by
  by_cases e : u = t
  · subst e; rw [hn] at hu; cases hu
  · simp [look, e, hu]

/-! ## `Reach` -/

theorem Reach.trans {pm a b c} (h1 : Reach pm a b) (h2 : Reach pm b c) : Reach pm a c := by
  induction h1 with
  | refl _ => exact h2
  | step hab _ ih => exact Reach.step hab (ih h2)

theorem Reach.snoc {pm a b c} (h1 : Reach pm a b) (h2 : dep pm b c) : Reach pm a c :=
  h1.trans (Reach.step h2 (Reach.refl c))

theorem no_cycle {pm} (hwf : Acyclic pm) : ∀ t d, dep pm t d → ¬ Reach pm d t := by
  intro t
  induction t using hwf.induction with
  | _ t ih =>
    intro d htd hdt
    cases hdt with
    | refl _ => exact ih t htd t htd (Reach.refl t)
    | step hdb hbt => exact ih d htd _ hdb (hbt.snoc htd)

/-! ## `resolveTy`, `produced` -/

theorem resolveTy_some {pm : PMap} {t : Ty} {pt : PT} (h : look t pm = some pt) :
    resolveTy pm t = pt.t := by simp [resolveTy, h]

theorem resolveTy_none {pm : PMap} {t : Ty} (h : look t pm = none) :
    resolveTy pm t = t := by simp [resolveTy, h]

theorem resolveTy_conc {pm : PMap} (hcc : ConcClosed pm) {k : Ty} {pt : PT}
    (h : look k pm = some pt) : resolveTy pm pt.t = pt.t := by
  simp [resolveTy, hcc k pt h]

theorem produced_lt {given : List Ty} {calls : List Call} {n : Nat} {t : Ty}
    (h : produced given calls n = some t) : n < given.length + calls.length := by
  unfold produced at h
  split at h
  · omega
  · cases hc : calls[n - given.length]? with
    | none => simp [hc] at h
    | some c =>
      have := (List.getElem?_eq_some_iff.mp hc).1
      omega

theorem produced_append {given : List Ty} {calls : List Call} {n : Nat} {t : Ty} (cs : List Call)
    (h : produced given calls n = some t) : produced given (calls ++ cs) n = some t := by
  have hlt := produced_lt h
  unfold produced at h ⊢
  split
  · simpa [*] using h
  · rename_i hn
    simp only [hn, if_false] at h
    rw [List.getElem?_append_left (by omega)]
    exact h

theorem produced_new (given : List Ty) (calls : List Call) (c : Call) :
    produced given (calls ++ [c]) (given.length + calls.length) = some c.out := by
  unfold produced
  simp

theorem produced_given {given : List Ty} {calls : List Call} {i : Nat} {g : Ty}
    (h : given[i]? = some g) : produced given calls i = some g := by
  have := (List.getElem?_eq_some_iff.mp h).1
  unfold produced
  rw [if_pos this, h]

/-! ## the extra hypotheses -/

theorem GivenLeaf.self {pm given} (h : GivenLeaf pm given) : GivenSelf pm given := by
  intro g hg
  cases hl : look g pm with
  | none => exact resolveTy_none hl
  | some pt =>
    rw [resolveTy_some hl]
    by_cases e : pt.t = g
    · exact e
    · exact absurd ⟨pt, hl, Or.inl ⟨e, rfl⟩⟩ (h g hg pt.t)

theorem GivenArgs.leaf {pm given} (h : GivenArgs pm given) : GivenLeaf pm given := by
  intro g hg u ⟨pt, hl, hd⟩
  obtain ⟨i, hi⟩ := h g hg
  rw [hi] at hl
  cases hl
  rcases hd with ⟨h1, _⟩ | ⟨_, h2⟩
  · exact h1 rfl
  · simp [depsOf] at h2

/-! ## decidable criteria, for concrete instances -/

/-- a rank function that strictly decreases along every edge of the map proves acyclicity -/
theorem acyclic_of_rank (pm : PMap) (rank : Ty → Nat)
    (h : ∀ kv ∈ pm, (kv.2.t ≠ kv.1 → rank kv.2.t < rank kv.1) ∧
                    (kv.2.t = kv.1 → ∀ u ∈ depsOf kv.2.src, rank u < rank kv.1)) : Acyclic pm := by
  have hsub : ∀ u t, dep pm t u → rank u < rank t := by
    intro u t ⟨pt, hl, hd⟩
    have hm := h (t, pt) (look_mem hl)
    rcases hd with ⟨h1, h2⟩ | ⟨h1, h2⟩
    · subst h2; exact hm.1 h1
    · exact hm.2 h1 u h2
  exact Subrelation.wf (fun {u t} hd => hsub u t hd) (InvImage.wf rank Nat.lt_wfRel.wf)

def isArg : Payload → Bool
  | .arg _ => true
  | _ => false

theorem argsGiven_of_forall (pm : PMap) (given : List Ty)
    (h : ∀ kv ∈ pm, isArg kv.2.src = true → kv.2.t = kv.1 → kv.1 ∈ given) : ArgsGiven pm given := by
  intro t pt i hl ht hs
  exact h (t, pt) (look_mem hl) (by simp [hs, isArg]) ht

theorem concClosed_of_forall (pm : PMap)
    (h : ∀ kv ∈ pm, look kv.1 pm = some kv.2 → look kv.2.t pm = some kv.2) : ConcClosed pm :=
  fun k pt hl => h (k, pt) (look_mem hl) hl

theorem givenLeaf_of_forall (pm : PMap) (given : List Ty)
    (h : ∀ kv ∈ pm, kv.1 ∈ given → kv.2.t = kv.1 ∧ depsOf kv.2.src = []) : GivenLeaf pm given := by
  intro g hg u ⟨pt, hl, hd⟩
  have := h (g, pt) (look_mem hl) hg
  rcases hd with ⟨h1, _⟩ | ⟨_, h2⟩
  · exact h1 this.1
  · rw [this.2] at h2; cases h2

end WireP.Solve
