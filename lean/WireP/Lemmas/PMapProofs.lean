import WireP.Lemmas.PMapBnd
/-! # PMapProofs — C05 facts about `buildProviderMap` -/

namespace WireP.C05
open WireV

/-- every type a set mentions as provided by something other than a binding, one entry per source -/
def baseSources (args : Option (List Ty)) (imports : List (Nat × PMap)) (provs : List Prov)
    (vals : List Val) (flds : List Fld) : List Ty :=
  args.getD [] ++ imports.flatMap (fun ip => ip.2.map (·.1)) ++ provs.flatMap (·.outs)
    ++ vals.map (·.out) ++ flds.flatMap (·.outs)

/-- every type a set mentions as provided, one list entry per source -/
def allSources (args : Option (List Ty)) (imports : List (Nat × PMap)) (provs : List Prov)
    (vals : List Val) (flds : List Fld) (bnds : List Bnd) : List Ty :=
  baseSources args imports provs vals flds ++ bnds.map (·.iface)

end WireP.C05

namespace WireP.PMapProofs
open WireV WireP.C05

theorem keys_argItems (a : List Ty) : keys (argItems a) = a := by
  simp only [keys, argItems, List.map_map, Function.comp_def]
  exact List.zipIdx_map_fst 0 a
theorem keys_optArgItems (args : Option (List Ty)) : keys (optArgItems args) = args.getD [] := by
  cases args with
  | none => rfl
  | some a => exact keys_argItems a
theorem keys_impItems (ip : Nat × PMap) : keys (impItems ip) = ip.2.map (·.1) := by
  simp [keys, impItems, Function.comp_def]
theorem keys_provItems (p : Prov) : keys (provItems p) = p.outs := by
  simp [keys, provItems, Function.comp_def]
theorem keys_fldItems (f : Fld) : keys (fldItems f) = f.outs := by
  simp [keys, fldItems, Function.comp_def]
theorem keys_flatMap {α : Type} (f : α → List Item) (l : List α) :
    keys (l.flatMap f) = l.flatMap (fun a => keys (f a)) := by
  simp [keys, List.map_flatMap]

theorem keys_items1 (args : Option (List Ty)) (imports : List (Nat × PMap)) :
    keys (items1 args imports) = args.getD [] ++ imports.flatMap (fun ip => ip.2.map (·.1)) := by
  simp only [items1, keys_append, keys_optArgItems, keys_flatMap, keys_impItems]
theorem keys_items2 (provs : List Prov) (vals : List Val) (flds : List Fld) :
    keys (items2 provs vals flds) = provs.flatMap (·.outs) ++ vals.map (·.out) ++ flds.flatMap (·.outs) := by
  simp only [items2, keys_append, keys_flatMap, keys_provItems, keys_fldItems]
  simp [keys, valItem, Function.comp_def]

theorem keys_baseItems (args : Option (List Ty)) (imports : List (Nat × PMap)) (provs : List Prov)
    (vals : List Val) (flds : List Fld) :
    keys (baseItems args imports provs vals flds) = baseSources args imports provs vals flds := by
  simp only [baseItems, keys_append, keys_items1, keys_items2, baseSources, List.append_assoc]

section
variable (args : Option (List Ty)) (imports : List (Nat × PMap)) (provs : List Prov)
  (vals : List Val) (flds : List Fld) (bnds : List Bnd)

theorem s2_errs : (s2of args imports).errs = insErrs [] (keys (items1 args imports)) := by
  simp [s2of, insL_errs]

theorem s5_errs : (s5of args imports provs vals flds).errs =
    insErrs [] (baseSources args imports provs vals flds) := by
  rw [s5of, insL_errs, keys_baseItems]; rfl

theorem s5_errs_s2 : ∃ es, (s5of args imports provs vals flds).errs = (s2of args imports).errs ++ es := by
  rw [s5of_eq, insL_errs]; exact ⟨_, rfl⟩

theorem s5_inv : Inv (s5of args imports provs vals flds) := insL_inv inv_empty _

theorem s5_clean_iff : (s5of args imports provs vals flds).errs = [] ↔
    (baseSources args imports provs vals flds).Nodup := by
  rw [s5_errs, insErrs_eq_nil]; simp

theorem s5_clean (h : (s5of args imports provs vals flds).errs = []) :
    (s5of args imports provs vals flds).pm = ((baseItems args imports provs vals flds).map Item.ent).reverse ∧
    (s5of args imports provs vals flds).sm = ((baseItems args imports provs vals flds).map Item.sent).reverse := by
  rw [s5_errs, ← keys_baseItems] at h
  have := insL_clean (s := {}) (l := baseItems args imports provs vals flds) h
  simpa [s5of] using this

theorem s5_keys (h : (s5of args imports provs vals flds).errs = []) :
    keys (s5of args imports provs vals flds).sm = (baseSources args imports provs vals flds).reverse := by
  rw [(s5_clean args imports provs vals flds h).2, keys_reverse, keys_sent, keys_baseItems]

theorem s6_errs : (s6of args imports provs vals flds bnds).errs =
    (s5of args imports provs vals flds).errs ++ bErrs (keys (s5of args imports provs vals flds).sm) bnds := by
  rw [s6of, bL_errs (s5_inv args imports provs vals flds)]

theorem s6_inv : Inv (s6of args imports provs vals flds bnds) := bL_inv (s5_inv ..) _

/-- the result is ok exactly when the last checkpoint carries no error -/
theorem bpm_ok_iff_s6 {pm : PMap} {sm : SMap} :
    buildProviderMap args imports provs vals flds bnds = .ok (pm, sm) ↔
      (s6of args imports provs vals flds bnds).errs = [] ∧
      (s6of args imports provs vals flds bnds).pm = pm ∧ (s6of args imports provs vals flds bnds).sm = sm := by
  rw [bpm_eq]
  obtain ⟨es, h52⟩ := s5_errs_s2 args imports provs vals flds
  have h65 := s6_errs args imports provs vals flds bnds
  by_cases h2 : (s2of args imports).errs = []
  · by_cases h5 : (s5of args imports provs vals flds).errs = []
    · by_cases h6 : (s6of args imports provs vals flds bnds).errs = []
      · simp [h2, h5, h6]
      · simp [h2, h5, h6]
    · have h6 : (s6of args imports provs vals flds bnds).errs ≠ [] := by
        rw [h65]; simp [h5]
      simp [h2, h5, h6]
  · have h5 : (s5of args imports provs vals flds).errs ≠ [] := by rw [h52]; simp [h2]
    have h6 : (s6of args imports provs vals flds bnds).errs ≠ [] := by
      rw [h65]; simp [h5]
    simp [h2, h6]

/-- an error result is one of the three checkpoints' (non-empty) error lists -/
theorem bpm_error_cases {es : List Err}
    (h : buildProviderMap args imports provs vals flds bnds = .error es) :
    es ≠ [] ∧ (es = (s2of args imports).errs ∨ es = (s5of args imports provs vals flds).errs ∨
      ((s5of args imports provs vals flds).errs = [] ∧ es = (s6of args imports provs vals flds bnds).errs)) := by
  rw [bpm_eq] at h
  by_cases h2 : (s2of args imports).errs = []
  · by_cases h5 : (s5of args imports provs vals flds).errs = []
    · by_cases h6 : (s6of args imports provs vals flds bnds).errs = []
      · simp [h2, h5, h6] at h
      · simp only [h2, h5, h6, ne_eq, not_true_eq_false, not_false_eq_true, if_false, if_true,
          Except.error.injEq] at h
        subst h
        exact ⟨h6, Or.inr (Or.inr ⟨h5, rfl⟩)⟩
    · simp only [h2, h5, ne_eq, not_true_eq_false, not_false_eq_true, if_false, if_true,
        Except.error.injEq] at h
      subst h
      exact ⟨h5, Or.inr (Or.inl rfl)⟩
  · simp only [h2, ne_eq, not_false_eq_true, if_true, Except.error.injEq] at h
    subst h
    exact ⟨h2, Or.inl rfl⟩

theorem bpm_ok_or_error :
    (∃ r, buildProviderMap args imports provs vals flds bnds = .ok r) ∨
    (∃ es, buildProviderMap args imports provs vals flds bnds = .error es ∧ es ≠ []) := by
  cases h : buildProviderMap args imports provs vals flds bnds with
  | ok r => exact Or.inl ⟨r, rfl⟩
  | error es => exact Or.inr ⟨es, rfl, (bpm_error_cases args imports provs vals flds bnds h).1⟩

/-- the last checkpoint is error-free iff the base sources are distinct and the binding phase is clean -/
theorem s6_clean_iff : (s6of args imports provs vals flds bnds).errs = [] ↔
    (baseSources args imports provs vals flds).Nodup ∧
      bErrs (baseSources args imports provs vals flds).reverse bnds = [] := by
  rw [s6_errs, List.append_eq_nil_iff]
  constructor
  · rintro ⟨h5, hb⟩
    rw [s5_keys _ _ _ _ _ h5] at hb
    exact ⟨(s5_clean_iff ..).mp h5, hb⟩
  · rintro ⟨hnd, hb⟩
    have h5 := (s5_clean_iff args imports provs vals flds).mpr hnd
    rw [s5_keys _ _ _ _ _ h5]
    exact ⟨h5, hb⟩

theorem bpm_never_picks {pm : PMap} {sm : SMap}
    (h : buildProviderMap args imports provs vals flds bnds = .ok (pm, sm)) :
    (allSources args imports provs vals flds bnds).Nodup := by
  obtain ⟨h6, -, -⟩ := (bpm_ok_iff_s6 ..).mp h
  obtain ⟨hnd, hb⟩ := (s6_clean_iff ..).mp h6
  obtain ⟨hnd', hd, -⟩ := bErrs_eq_nil hb
  rw [allSources, List.nodup_append]
  refine ⟨hnd, hnd', ?_⟩
  rintro a ha b hb rfl
  obtain ⟨b', hb', e⟩ := List.mem_map.mp hb
  exact hd b' hb' (by rw [e]; exact List.mem_reverse.mpr ha)

theorem bpm_dup_rejected (h : ¬ (allSources args imports provs vals flds bnds).Nodup) :
    ∃ es, buildProviderMap args imports provs vals flds bnds = .error es ∧ es ≠ [] := by
  rcases bpm_ok_or_error args imports provs vals flds bnds with ⟨⟨pm, sm⟩, hr⟩ | he
  · exact absurd (bpm_never_picks _ _ _ _ _ _ hr) h
  · exact he

theorem bpm_multi_named {es : List Err} {t : Ty}
    (h : buildProviderMap args imports provs vals flds bnds = .error es) (hm : Err.multi t ∈ es) :
    2 ≤ (allSources args imports provs vals flds bnds).count t := by
  obtain ⟨-, hc⟩ := bpm_error_cases _ _ _ _ _ _ h
  have hbase : baseSources args imports provs vals flds =
      keys (items1 args imports) ++ keys (items2 provs vals flds) := by
    rw [← keys_baseItems, baseItems, keys_append]
  rcases hc with rfl | rfl | ⟨h5, rfl⟩
  · rw [s2_errs] at hm
    obtain ⟨t', e, hc⟩ := insErrs_multi hm
    cases e
    simp only [allSources, hbase, List.count_append]
    simp only [List.count_nil] at hc
    omega
  · rw [s5_errs] at hm
    obtain ⟨t', e, hc⟩ := insErrs_multi hm
    cases e
    simp only [allSources, List.count_append]
    simp only [List.count_nil] at hc
    omega
  · rw [s6_errs, h5, s5_keys _ _ _ _ _ h5, List.nil_append] at hm
    have := bErrs_multi hm
    simpa [allSources, List.count_append, List.count_reverse] using this

theorem bpm_dup_named (h : ¬ (allSources args imports provs vals flds bnds).Nodup)
    (hp : ∀ b ∈ bnds, b.provided ∈ baseSources args imports provs vals flds) :
    ∃ es t, buildProviderMap args imports provs vals flds bnds = .error es ∧ Err.multi t ∈ es := by
  obtain ⟨es, he, hne⟩ := bpm_dup_rejected _ _ _ _ _ _ h
  obtain ⟨e, hmem⟩ := List.exists_mem_of_ne_nil es hne
  refine ⟨es, ?_⟩
  suffices ∃ t, e = Err.multi t by
    obtain ⟨t, rfl⟩ := this
    exact ⟨t, he, hmem⟩
  obtain ⟨-, hc⟩ := bpm_error_cases _ _ _ _ _ _ he
  rcases hc with rfl | rfl | ⟨h5, rfl⟩
  · rw [s2_errs] at hmem
    obtain ⟨t, e, -⟩ := insErrs_multi hmem
    exact ⟨t, e⟩
  · rw [s5_errs] at hmem
    obtain ⟨t, e, -⟩ := insErrs_multi hmem
    exact ⟨t, e⟩
  · rw [s6_errs, h5, s5_keys _ _ _ _ _ h5, List.nil_append] at hmem
    exact bErrs_all_multi (fun b hb => List.mem_reverse.mpr (hp b hb)) e hmem

end

end WireP.PMapProofs
