import WireP.Lemmas.SolveStep
/-! # The effect of one step, in the vocabulary of the invariants

`Eff` forgets the list manipulations of `svStep` (filters, `filterMap`, the `mkCall` payload) and
keeps what the invariants need: a step is either *quiet* (index, calls, errs unchanged) or it
*adds* one fresh index entry for the type on top of the stack, in one of four flavours. -/
namespace WireP.Solve
open WireV

/-! ## list lemmas -/

theorem missing_nil {idx : List (Ty × Idx)} {deps : List Ty} (h : missingOf idx deps = []) :
    ∀ a ∈ deps, (look a idx).isSome := by
  intro a ha
  unfold missingOf at h
  rw [List.filter_eq_nil_iff] at h
  have := h a ha
  cases hx : look a idx with
  | none => simp [hx] at this
  | some _ => rfl

theorem missing_of_all {idx : List (Ty × Idx)} {deps : List Ty}
    (h : ∀ a ∈ deps, (look a idx).isSome) : missingOf idx deps = [] := by
  unfold missingOf
  rw [List.filter_eq_nil_iff]
  intro a ha
  have := h a ha
  cases hx : look a idx with
  | none => rw [hx] at this; cases this
  | some _ => simp

theorem missing_sub {idx : List (Ty × Idx)} {deps : List Ty} {a : Ty}
    (h : a ∈ missingOf idx deps) : a ∈ deps ∧ look a idx = none := by
  unfold missingOf at h
  have := List.mem_filter.mp h
  refine ⟨this.1, ?_⟩
  cases hx : look a idx with
  | none => rfl
  | some _ => simp [hx] at this

theorem missing_length (idx : List (Ty × Idx)) (deps : List Ty) :
    (missingOf idx deps).length ≤ deps.length := by
  unfold missingOf; exact List.length_filter_le _ _

theorem filterMap_all' {α β : Type} (f : α → Option β) (l : List α) (h : ∀ x ∈ l, (f x).isSome) :
    (l.filterMap f).length = l.length ∧
    ∀ (j : Nat) a d, (l.filterMap f)[j]? = some a → l[j]? = some d → f d = some a := by
  induction l with
  | nil => simp
  | cons x l ih =>
    have hx := h x List.mem_cons_self
    obtain ⟨y, hy⟩ := Option.isSome_iff_exists.mp hx
    have ih' := ih (fun z hz => h z (List.mem_cons_of_mem _ hz))
    rw [List.filterMap_cons_some hy]
    refine ⟨by simp only [List.length_cons, ih'.1], ?_⟩
    intro j a d h1 h2
    cases j with
    | zero =>
      simp only [List.getElem?_cons_zero, Option.some.injEq] at h1 h2
      subst h1 h2; exact hy
    | succ j =>
      simp only [List.getElem?_cons_succ] at h1 h2
      exact ih'.2 j a d h1 h2

theorem filterMap_all {α β : Type} (f : α → Option β) (l : List α) (h : ∀ x ∈ l, (f x).isSome) :
    ((l.map f).filterMap id).length = l.length ∧
    ∀ (j : Nat) a d, ((l.map f).filterMap id)[j]? = some a → l[j]? = some d → f d = some a := by
  have e : (l.map f).filterMap id = l.filterMap f := by
    rw [List.filterMap_map]; rfl
  rw [e]; exact filterMap_all' f l h

theorem any_isNone_false {l : List Idx} (h : l.any Option.isNone = false) :
    ∀ x ∈ l, x.isSome := by
  intro x hx
  cases x with
  | some _ => rfl
  | none =>
    have : l.any Option.isNone = true := List.any_eq_true.mpr ⟨none, hx, rfl⟩
    rw [h] at this; cases this

theorem mkCall_spec {t : Ty} {src : Payload} {args : List Nat} {c : Call}
    (h : mkCall t src args = some c) (hl : args.length = (depsOf src).length) :
    c.args = args ∧ c.out = t := by
  cases src with
  | arg i => simp [mkCall] at h
  | prov p => simp [mkCall] at h; subst h; simp
  | val v =>
    simp [mkCall] at h; subst h
    simp [depsOf] at hl
    simp [hl]
  | fld f => simp [mkCall] at h; subst h; simp

/-! ## `usedOf` -/

theorem mem_usedOf_of_mem {sm : SMap} {t : Ty} {used : List SrcId} {src : SrcId}
    (h : src ∈ used) : src ∈ usedOf sm t used := by
  unfold usedOf
  split
  · exact List.mem_append_left _ h
  · exact h

theorem mem_usedOf_self {sm : SMap} {t : Ty} {used : List SrcId} {src : SrcId}
    (h : look t sm = some src) : src ∈ usedOf sm t used := by
  simp [usedOf, h]

theorem mem_usedOf {sm : SMap} {t : Ty} {used : List SrcId} {src : SrcId}
    (h : src ∈ usedOf sm t used) : src ∈ used ∨ look t sm = some src := by
  unfold usedOf at h
  split at h
  · rename_i src' hs
    rcases List.mem_append.mp h with h | h
    · exact Or.inl h
    · simp at h; subst h; exact Or.inr hs
  · exact Or.inl h

/-! ## effects -/

inductive Flavor (pm : PMap) (sm : SMap) (ng : Nat) (s s' : SvSt) (curr : Frame) (v : Idx) : Prop
  | noProv : look curr.t pm = none → v = none →
      s'.errs = s.errs ++ [Err.noProvider curr.t curr.up] → s'.calls = s.calls →
      s'.used = s.used → Flavor pm sm ng s s' curr v
  | bind (pt : PT) : look curr.t pm = some pt → pt.t ≠ curr.t → look pt.t s.index = some v →
      s'.errs = s.errs → s'.calls = s.calls → s'.used = usedOf sm curr.t s.used →
      Flavor pm sm ng s s' curr v
  | abort (pt : PT) (a : Ty) : look curr.t pm = some pt → pt.t = curr.t → v = none →
      look a s.index = some none →
      s'.errs = s.errs → s'.calls = s.calls → s'.used = usedOf sm curr.t s.used →
      Flavor pm sm ng s s' curr v
  | call (pt : PT) (c : Call) : look curr.t pm = some pt → pt.t = curr.t →
      v = some (ng + s.calls.length) → s'.calls = s.calls ++ [c] →
      mkCall c.out pt.src c.args = some c → c.out = curr.t →
      c.args.length = (depsOf pt.src).length →
      (∀ (j : Nat) a d, c.args[j]? = some a → (depsOf pt.src)[j]? = some d →
        look d s.index = some (some a)) →
      s'.errs = s.errs → s'.used = usedOf sm curr.t s.used →
      Flavor pm sm ng s s' curr v

inductive Eff (pm : PMap) (sm : SMap) (ng : Nat) (s s' : SvSt) : Prop
  | quiet (hi : s'.index = s.index) (hc : s'.calls = s.calls) (he : s'.errs = s.errs)
      (hu : s'.used = s.used ∨ ∃ curr ∈ s.stk, look curr.t s.index = none ∧
              (look curr.t pm).isSome ∧ s'.used = usedOf sm curr.t s.used)
      (hk : ∀ f ∈ s'.stk, f ∈ s.stk ∨ ∃ curr ∈ s.stk, dep pm curr.t f.t) : Eff pm sm ng s s'
  | add (curr : Frame) (v : Idx) (hin : curr ∈ s.stk) (hfresh : look curr.t s.index = none)
      (hi : s'.index = (curr.t, v) :: s.index) (hk : ∀ f ∈ s'.stk, f ∈ s.stk)
      (hdeps : ∀ u, dep pm curr.t u → (look u s.index).isSome)
      (hfl : Flavor pm sm ng s s' curr v) : Eff pm sm ng s s'

theorem dep_inv {pm : PMap} {t u : Ty} {pt : PT} (hl : look t pm = some pt) (h : dep pm t u) :
    (pt.t ≠ t ∧ u = pt.t) ∨ (pt.t = t ∧ u ∈ depsOf pt.src) := by
  obtain ⟨pt', hl', hd⟩ := h
  rw [hl] at hl'; cases hl'; exact hd

theorem Step.eff {pm sm ng s s'} (h : Step pm sm ng s s') : Eff pm sm ng s s' := by
  cases h with
  | pop curr rest i hs hli =>
    exact .quiet rfl rfl rfl (Or.inl rfl)
      (fun f hf => Or.inl (by rw [hs]; exact List.mem_cons_of_mem _ hf))
  | noProv curr rest hs hli hlp =>
    refine .add curr none (by rw [hs]; exact List.mem_cons_self) hli rfl
      (fun f hf => by rw [hs]; exact List.mem_cons_of_mem _ hf) ?_
      (.noProv hlp rfl rfl rfl rfl)
    intro u ⟨pt, hl, _⟩
    rw [hlp] at hl; cases hl
  | bindPush curr rest pt hs hli hlp hb hlc =>
    have hin : curr ∈ s.stk := by rw [hs]; exact List.mem_cons_self
    refine .quiet rfl rfl rfl (Or.inr ⟨curr, hin, hli, by simp [hlp], rfl⟩) ?_
    intro f hf
    rcases List.mem_cons.mp hf with e | hf'
    · exact Or.inr ⟨curr, hin, by subst e; exact ⟨pt, hlp, Or.inl ⟨hb, rfl⟩⟩⟩
    · exact Or.inl (by rw [hs]; exact hf')
  | bindDone curr rest pt i hs hli hlp hb hlc =>
    refine .add curr i (by rw [hs]; exact List.mem_cons_self) hli rfl
      (fun f hf => by rw [hs]; exact List.mem_cons_of_mem _ hf) ?_
      (.bind pt hlp hb hlc rfl rfl rfl)
    intro u hd
    rcases dep_inv hlp hd with ⟨_, h2⟩ | ⟨h1, _⟩
    · subst h2; simp [hlc]
    · exact absurd h1 hb
  | argPop curr rest pt i hs hli hlp hb hsrc =>
    have hin : curr ∈ s.stk := by rw [hs]; exact List.mem_cons_self
    exact .quiet rfl rfl rfl (Or.inr ⟨curr, hin, hli, by simp [hlp], rfl⟩)
      (fun f hf => Or.inl (by rw [hs]; exact List.mem_cons_of_mem _ hf))
  | depPush curr rest pt hs hli hlp hb hna hm =>
    have hin : curr ∈ s.stk := by rw [hs]; exact List.mem_cons_self
    refine .quiet rfl rfl rfl (Or.inr ⟨curr, hin, hli, by simp [hlp], rfl⟩) ?_
    intro f hf
    rcases List.mem_append.mp hf with hf' | hf'
    · obtain ⟨a, ha, rfl⟩ := List.mem_map.mp hf'
      exact Or.inr ⟨curr, hin, pt, hlp, Or.inr ⟨hb, (missing_sub ha).1⟩⟩
    · exact Or.inl (by rw [hs]; exact hf')
  | abort curr rest pt hs hli hlp hb hna hm ha =>
    have hall := missing_nil hm
    obtain ⟨x, hx, hxn⟩ := List.any_eq_true.mp ha
    unfold argIdx at hx
    obtain ⟨a, had, hax⟩ := List.mem_map.mp hx
    have hsome := hall a had
    have hnone : look a s.index = some none := by
      cases hl : look a s.index with
      | none => rw [hl] at hsome; cases hsome
      | some i =>
        rw [hl] at hax; simp at hax; subst hax
        cases i with
        | none => rfl
        | some _ => simp at hxn
    refine .add curr none (by rw [hs]; exact List.mem_cons_self) hli rfl
      (fun f hf => by rw [hs]; exact List.mem_cons_of_mem _ hf) ?_
      (.abort pt a hlp hb rfl hnone rfl rfl rfl)
    intro u hd
    rcases dep_inv hlp hd with ⟨h1, _⟩ | ⟨_, h2⟩
    · exact absurd hb h1
    · exact hall u h2
  | call curr rest pt c hs hli hlp hb hna hm ha hc =>
    have hall := missing_nil hm
    have hsome : ∀ d ∈ depsOf pt.src, ((look d s.index).join).isSome := by
      intro d hd
      exact any_isNone_false ha _ (by unfold argIdx; exact List.mem_map.mpr ⟨d, hd, rfl⟩)
    have hfm := filterMap_all (fun a => (look a s.index).join) (depsOf pt.src) hsome
    unfold argIdx at hc
    obtain ⟨hargs, hout⟩ := mkCall_spec hc hfm.1
    refine .add curr (some (ng + s.calls.length)) (by rw [hs]; exact List.mem_cons_self) hli rfl
      (fun f hf => by rw [hs]; exact List.mem_cons_of_mem _ hf) ?_
      (.call pt c hlp hb rfl rfl (by rw [hout, hargs]; exact hc) hout (by rw [hargs]; exact hfm.1)
        ?_ rfl rfl)
    · intro u hd
      rcases dep_inv hlp hd with ⟨h1, _⟩ | ⟨_, h2⟩
      · exact absurd hb h1
      · exact hall u h2
    · intro j a d h1 h2
      rw [hargs] at h1
      have := hfm.2 j a d h1 h2
      cases hl : look d s.index with
      | none => rw [hl] at this; cases this
      | some i => rw [hl] at this; simp at this; rw [this]

/-! ## monotonicity -/

theorem Eff.errs_mono {pm sm ng s s'} (h : Eff pm sm ng s s') : ∃ l, s'.errs = s.errs ++ l := by
  cases h with
  | quiet hi hc he hu hk => exact ⟨[], by simp [he]⟩
  | add curr v hin hfresh hi hk hdeps hfl =>
    cases hfl with
    | noProv _ _ he _ _ => exact ⟨_, he⟩
    | bind pt _ _ _ he _ _ => exact ⟨[], by simp [he]⟩
    | abort pt a _ _ _ _ he _ _ => exact ⟨[], by simp [he]⟩
    | call pt c _ _ _ _ _ _ _ _ he _ => exact ⟨[], by simp [he]⟩

theorem Eff.calls_mono {pm sm ng s s'} (h : Eff pm sm ng s s') : ∃ l, s'.calls = s.calls ++ l := by
  cases h with
  | quiet hi hc he hu hk => exact ⟨[], by simp [hc]⟩
  | add curr v hin hfresh hi hk hdeps hfl =>
    cases hfl with
    | noProv _ _ _ hc _ => exact ⟨[], by simp [hc]⟩
    | bind pt _ _ _ _ hc _ => exact ⟨[], by simp [hc]⟩
    | abort pt a _ _ _ _ _ hc _ => exact ⟨[], by simp [hc]⟩
    | call pt c _ _ _ hc _ _ _ _ _ _ => exact ⟨_, hc⟩

theorem Eff.used_mono {pm sm ng s s'} (h : Eff pm sm ng s s') :
    ∀ src ∈ s.used, src ∈ s'.used := by
  intro src hs
  cases h with
  | quiet hi hc he hu hk =>
    rcases hu with hu | ⟨_, _, _, _, hu⟩
    · rw [hu]; exact hs
    · rw [hu]; exact mem_usedOf_of_mem hs
  | add curr v hin hfresh hi hk hdeps hfl =>
    cases hfl with
    | noProv _ _ _ _ hu => rw [hu]; exact hs
    | bind pt _ _ _ _ _ hu => rw [hu]; exact mem_usedOf_of_mem hs
    | abort pt a _ _ _ _ _ _ hu => rw [hu]; exact mem_usedOf_of_mem hs
    | call pt c _ _ _ _ _ _ _ _ _ hu => rw [hu]; exact mem_usedOf_of_mem hs

end WireP.Solve
