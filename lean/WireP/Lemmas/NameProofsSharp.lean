import WireP.Lemmas.NameProofsDisamb
/-! # The sharp fuel bound for `disambiguate`: numbered candidates are never keywords -/
namespace WireP.NameProofs
open WireV

theorem endsInDigit_cand (base : String) (n : Nat) : endsInDigit (base ++ toString n) = true := by
  have hne : Nat.toDigits 10 n ≠ [] := Nat.toDigits_ne_nil
  have hrepr : (toString n).toList = Nat.toDigits 10 n := Nat.toList_repr
  simp only [endsInDigit, String.toList_append, hrepr, List.getLast?_append]
  rw [List.getLast?_eq_some_getLast hne]
  simp only [Option.some_or]
  exact Nat.isDigit_of_mem_toDigits (by omega) (by omega) (List.getLast_mem hne)

theorem keyword_not_endsInDigit : ∀ k ∈ goKeywords, endsInDigit k = false := by decide

theorem cand_not_keyword (base : String) (n : Nat) : isKeyword (base ++ toString n) = false := by
  cases h : isKeyword (base ++ toString n) with
  | false => rfl
  | true =>
    have := keyword_not_endsInDigit _ (isKeyword_mem h)
    rw [endsInDigit_cand] at this
    exact absurd this (by simp)

/-- pigeonhole with the sharp bound: only the colliding names count -/
theorem disambLoop_isSome_sharp {collides : String → Bool} {base : String} {taken : List String}
    (ht : ∀ s, collides s = true → s ∈ taken) (fuel n : Nat) (hf : taken.length < fuel) :
    ∃ r, disambLoop collides base fuel n = some r := by
  cases h : disambLoop collides base fuel n with
  | some r => exact ⟨r, rfl⟩
  | none =>
    exfalso
    have hn := disambLoop_none fuel n h
    let l := (List.range' n fuel).map (fun m => base ++ toString m)
    have hnd : l.Nodup := by
      show List.Pairwise _ _
      rw [List.pairwise_map]
      exact (List.nodup_range' (s := n) (n := fuel) 1).imp (fun hab hc => hab (cand_inj base hc))
    have hsub : l ⊆ taken := by
      intro s hs
      obtain ⟨m, hm, rfl⟩ := List.mem_map.1 hs
      rw [List.mem_range'_1] at hm
      have hb := hn m hm.1 hm.2
      simp only [bad, cand_not_keyword, Bool.false_or] at hb
      exact ht _ hb
    have := hnd.length_le_of_subset hsub
    simp [l] at this
    omega

/-- item 1 with the sharp constant `|taken| + 1` -/
theorem disambiguate_fresh_sharp (fuel : Nat) (name : String) (collides : String → Bool)
    (taken : List String) (ht : ∀ n, collides n = true → n ∈ taken)
    (hf : taken.length + 1 ≤ fuel) :
    ∃ r, disambiguate fuel name collides = some r ∧ collides r = false ∧ isKeyword r = false ∧
      (r = name ∨ ∃ n, 2 ≤ n ∧
        r = (if endsInDigit name then name ++ "_" else name) ++ toString n) := by
  have hs : ∃ r, disambiguate fuel name collides = some r := by
    simp only [disambiguate]
    split
    · exact ⟨_, rfl⟩
    · exact disambLoop_isSome_sharp ht fuel 2 (by omega)
  obtain ⟨r, hr⟩ := hs
  obtain ⟨h1, h2, h3⟩ := disambiguate_some hr
  refine ⟨r, hr, h1, h2, ?_⟩
  rcases h3 with h3 | ⟨n, hn, _, hn'⟩
  · exact Or.inl h3
  · exact Or.inr ⟨n, hn, hn'⟩

end WireP.NameProofs
