import WireP.Lemmas.PipelineDefs
import WireP.Lemmas.PipelineReject
import WireP.Lemmas.PMapPerm
/-! # Pipeline, part 6 — completeness of acceptance (C10 `accept_complete`) -/
namespace WireP.PipelineProofs
open WireV WireP.Pipeline WireP.C05 WireP.C07 WireP.Solve

/-! ## results of a prefix -/

theorem procSets_take (order : List Ty) (ds : List SetDef) (j : Nat) :
    procSets order (ds.take j) = (procSets order ds).take j := by
  by_cases hj : j ≤ ds.length
  · have hlen : (procSets order (ds.take j)).length = j := by
      rw [procSets_length, List.length_take]; omega
    have key := procSets_append order (ds.take j) (ds.drop j)
    rw [List.take_append_drop] at key
    obtain ⟨l, hl⟩ := foldl_step_prefix order (ds.drop j) (procSets order (ds.take j))
    rw [key, hl]
    exact (List.take_left' hlen).symm
  · have h1 : ds.length ≤ j := by omega
    rw [List.take_of_length_le h1, List.take_of_length_le (by rw [procSets_length]; exact h1)]

/-! ## imports of accepted sets are available -/

theorem importsOf_ok_of {done : List (Nat × SetRes)} {d : SetDef}
    (h : ∀ i ∈ d.imports, ∃ id pm sm, done[i]? = some (id, SetRes.ok pm sm)) :
    ∃ impMaps, importsOf done d = .ok impMaps := by
  unfold importsOf
  simp only []
  refine ⟨_, if_neg (fun hne => hne ?_)⟩
  apply List.filterMap_eq_nil_iff.mpr
  intro r hr
  obtain ⟨i, hi, rfl⟩ := List.mem_map.mp hr
  obtain ⟨id, pm, sm, e⟩ := h i hi
  rw [e]

/-! ## the front-end conditions -/

theorem procSet_accepts {order : List Ty} {done : List (Nat × SetRes)} {d : SetDef}
    (hdone : ∀ r ∈ done, ∃ pm sm, r.2 = SetRes.ok pm sm) (hcov : AllCovered order done)
    (hsrc : ∀ t ∈ ownSources d, t ∈ order) (hacc : SetAcceptable done d) :
    ∃ pm sm, procSet order done d = .ok pm sm := by
  obtain ⟨hrange, hrest⟩ := hacc
  obtain ⟨impMaps, himp⟩ := importsOf_ok_of (done := done) (d := d) (by
    intro i hi
    have hlt := hrange i hi
    obtain ⟨pm, sm, e⟩ := hdone done[i] (List.getElem_mem hlt)
    refine ⟨done[i].1, pm, sm, ?_⟩
    rw [List.getElem?_eq_getElem hlt, ← e])
  obtain ⟨hnd, hbp, hac⟩ := hrest impMaps himp
  obtain ⟨⟨pm, sm⟩, hb⟩ := PMapProofs.bpm_ok_of hnd hbp
  have hca : checkAcyclic order pm = [] :=
    (AcyclicProofs.checkAcyclic_spec order pm (bpm_covered hcov hsrc himp hb)).mpr (hac pm sm hb)
  refine ⟨pm, sm, ?_⟩
  unfold procSet
  rw [himp]
  simp only [hb, hca]

/-- under the front-end conditions every set is accepted -/
theorem procSets_all_ok {order : List Ty} {ds : List SetDef} (horder : OrderCovers order ds)
    (hacc : AllAcceptable order ds) :
    ∀ n, n ≤ ds.length → ∀ r ∈ procSets order (ds.take n), ∃ pm sm, r.2 = SetRes.ok pm sm := by
  intro n
  induction n with
  | zero => intro _ r hr; simp [procSets] at hr
  | succ n ih =>
    intro hn r hr
    have hlt : n < ds.length := by omega
    have hdn : ds[n]? = some ds[n] := List.getElem?_eq_getElem hlt
    have hsplit : ds.take (n + 1) = ds.take n ++ [ds[n]] := by
      rw [List.take_add_one, hdn]; rfl
    rw [hsplit, PMapInv.procSets_snoc] at hr
    rcases List.mem_append.mp hr with hr | hr
    · exact ih (by omega) r hr
    · simp only [List.mem_singleton] at hr
      subst hr
      have hsub : OrderCovers order (ds.take n) := fun d hd => horder d (List.take_subset n ds hd)
      exact procSet_accepts (ih (by omega)) (procSets_covered hsub)
        (horder _ (List.getElem_mem hlt)) (hacc n _ hdn)

/-! ## 5. completeness -/

/-- **5.** (multi-set) if every set satisfies the front-end conditions, nothing the requested type
    needs is missing from the last set's map, and every direct item of the last set is the source of
    a needed non-given type, the pipeline answers `.ok` -/
theorem planLast_accepts {order : List Ty} {ds : List SetDef} {d : SetDef} {out : Ty}
    (hbl : BuildLast ds) (hd : ds.getLast? = some d) (horder : OrderCovers order ds)
    (hacc : AllAcceptable order ds)
    (hneed : ∀ pm sm, (procSets order ds).getLast? = some (d.id, SetRes.ok pm sm) →
      (∀ u, Reach pm out u → u ∈ d.args.getD [] ∨ (look u pm).isSome) ∧
      ∀ src e, DirectItem d (impIdsOf (procSets order ds) d) src e →
        ∃ t, Reach pm out t ∧ t ∉ d.args.getD [] ∧ look t sm = some src) :
    ∃ calls, planLast order ds out = .ok calls := by
  have hall := procSets_all_ok horder hacc ds.length (Nat.le_refl _)
  rw [List.take_length] at hall
  have hlast := procSets_getLast (order := order) hd
  obtain ⟨pm, sm, hok⟩ := hall _ (List.mem_of_getLast? hlast)
  simp only at hok
  rw [hok] at hlast
  obtain ⟨hH, hga, -⟩ := planLast_hyps hbl hd hlast (last_covered horder hlast)
  obtain ⟨hmiss, hused⟩ := hneed pm sm hlast
  have he := solve_missing_if (sm := sm) hH.concClosed hH.givenNodup hmiss
  refine ⟨(final pm sm (d.args.getD []) out).calls, ?_⟩
  rw [planLast_of_ok hd hlast]
  apply solve_ok_of (solve_terminates hH) he
  rw [verifyArgsUsed_nil_iff_direct]
  intro src e hitem
  exact (used_spec_partial hH hga.leaf he src).mpr (hused src e hitem)

/-- **5.** (single set, everything explicit) a program that consists of one `wire.Build` set
    without imports is planned successfully iff … (the "if" direction): one source per type,
    co-located bindings, no cycle, nothing needed missing, nothing unused -/
theorem planLast_accepts_single {order : List Ty} {d : SetDef} {out : Ty}
    (himp : d.imports = []) (horder : ∀ t ∈ ownSources d, t ∈ order)
    (hnd : (allSources d.args [] d.provs d.vals d.flds d.bnds).Nodup)
    (hbp : ∀ b ∈ d.bnds, b.provided ∈ baseSources d.args [] d.provs d.vals d.flds)
    (hrest : ∀ pm sm, buildProviderMap d.args [] d.provs d.vals d.flds d.bnds = .ok (pm, sm) →
      ¬ Cyclic (succOf pm) ∧
      (∀ u, Reach pm out u → u ∈ d.args.getD [] ∨ (look u pm).isSome) ∧
      ∀ src e, DirectItem d [] src e →
        ∃ t, Reach pm out t ∧ t ∉ d.args.getD [] ∧ look t sm = some src) :
    ∃ calls, planLast order [d] out = .ok calls := by
  have hio : ∀ done, importsOf done d = .ok [] := by
    intro done; simp [importsOf, himp]
  have hids : ∀ done, impIdsOf done d = [] := by
    intro done; simp [impIdsOf, himp]
  have hcov : OrderCovers order [d] := by
    intro d' hd'; simp only [List.mem_singleton] at hd'; subst hd'; exact horder
  apply planLast_accepts (d := d) (by intro d' hd'; simp at hd') rfl hcov
  · intro j dj hj
    have hj0 : j = 0 := by
      have := (List.getElem?_eq_some_iff.mp hj).1
      simp at this; exact this
    subst hj0
    simp only [List.getElem?_cons_zero, Option.some.injEq] at hj
    subst hj
    refine ⟨by simp [himp], ?_⟩
    intro impMaps hi
    rw [hio] at hi
    cases hi
    exact ⟨hnd, hbp, fun pm sm hb => (hrest pm sm hb).1⟩
  · intro pm sm hl
    obtain ⟨-, hps⟩ := procSets_last_ok (ds := [d]) (d := d) rfl hl
    obtain ⟨impMaps, hi, hb⟩ := PMapInv.procSet_ok hps
    rw [hio] at hi
    cases hi
    rw [hids]
    exact (hrest pm sm hb).2

/-! ## the front-end conditions are also necessary (for a program all of whose sets are accepted) -/

/-- if every set of the program is accepted (and no set has chained bindings), every set satisfies
    the front-end conditions: `AllAcceptable` is not stronger than what the model checks -/
theorem allAcceptable_of_all_ok {order : List Ty} {ds : List SetDef} (horder : OrderCovers order ds)
    (hnc : ∀ d ∈ ds, WireP.C10.NoChainedBind d.bnds)
    (hall : ∀ r ∈ procSets order ds, ∃ pm sm, r.2 = SetRes.ok pm sm) : AllAcceptable order ds := by
  intro j dj hj
  have hjl : j < ds.length := (List.getElem?_eq_some_iff.mp hj).1
  have hmem : dj ∈ ds := List.mem_of_getElem? hj
  have hres := procSets_getElem? (order := order) hj
  obtain ⟨pm0, sm0, hok⟩ := hall _ (List.mem_of_getElem? hres)
  simp only at hok
  obtain ⟨impMaps0, himp0, hb0⟩ := PMapInv.procSet_ok hok
  have hsub : OrderCovers order (ds.take j) := fun d hd => horder d (List.take_subset j ds hd)
  refine ⟨?_, ?_⟩
  · intro i hi
    apply Classical.byContradiction
    intro hge
    have hnone : (procSets order (ds.take j))[i]? = none :=
      List.getElem?_eq_none_iff.mpr (by omega)
    obtain ⟨es, hes, -⟩ := procSet_import_failed (order := order) hi (Or.inl hnone)
    rw [hok] at hes
    cases hes
  · intro impMaps himp
    rw [himp0] at himp
    cases himp
    refine ⟨PMapProofs.bpm_never_picks _ _ _ _ _ _ hb0,
      PMapProofs.ok_bind_provided (hnc dj hmem) hb0, ?_⟩
    intro pm sm hb
    rw [hb0] at hb
    cases hb
    exact AcyclicProofs.procSet_ok_acyclic order _ dj pm0 sm0
      (bpm_covered (procSets_covered hsub) (horder dj hmem) himp0 hb0) hok

/-- a decidable form of "every set is accepted", for concrete programs -/
def isOk : SetRes → Bool
  | .ok _ _ => true
  | .err _ => false

theorem all_ok_of_all {done : List (Nat × SetRes)} (h : done.all (fun r => isOk r.2) = true) :
    ∀ r ∈ done, ∃ pm sm, r.2 = SetRes.ok pm sm := by
  intro r hr
  have := List.all_eq_true.mp h r hr
  cases hr2 : r.2 with
  | ok pm sm => exact ⟨pm, sm, rfl⟩
  | err es => rw [hr2] at this; cases this

end WireP.PipelineProofs
