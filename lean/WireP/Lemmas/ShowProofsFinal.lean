import WireP.Lemmas.ShowProofsBig
/-! # What holds of `gather pm keys` (C19)

The outer loop of `gather` as a fold of `gBody`; every DFS terminates within the fuel; the theorems
quoted by `WireP/Props/C19.lean`. -/
namespace WireP.Show
open WireV WireP.Solve

/-- one iteration of the outer loop of `gather` -/
def gBody (pm : PMap) (s : GSt) (k : Ty) : GSt :=
  gIter pm (gFuel pm) (if (look k s.visited).isNone then { s with stk := k :: s.stk } else s)

theorem gather_eq (pm : PMap) (keys : List Ty) : gather pm keys = keys.foldl (gBody pm) {} := rfl

/-! ## without acyclicity: the invariants -/

theorem gBody_inv {pm s} (k : Ty) (h : Inv pm s) : Inv pm (gBody pm s k) := by
  unfold gBody
  apply Inv.gIter
  split
  · exact Inv.of_eq (s := s) rfl rfl h
  · exact h

theorem fold_inv {pm} : ∀ (l : List Ty) (s : GSt), Inv pm s → Inv pm (l.foldl (gBody pm) s) := by
  intro l
  induction l with
  | nil => intro s h; exact h
  | cons k l ih => intro s h; exact ih _ (gBody_inv k h)

theorem gather_inv (pm : PMap) (keys : List Ty) : Inv pm (gather pm keys) :=
  fold_inv keys {} (Inv.init pm)

theorem gBody_invR {pm keys s} {k : Ty} (hk : k ∈ keys) (h : InvR pm keys s) :
    InvR pm keys (gBody pm s k) := by
  unfold gBody
  apply gIter_induct (InvR pm keys) (fun _ _ hp hst => hp.step hst)
  split
  · refine ⟨?_, h.visR⟩
    intro t ht
    rcases List.mem_cons.mp ht with rfl | ht
    · exact ⟨t, hk, .refl _⟩
    · exact h.stkR t ht
  · exact h

theorem fold_invR {pm keys} : ∀ (l : List Ty) (s : GSt), (∀ k ∈ l, k ∈ keys) → InvR pm keys s →
    InvR pm keys (l.foldl (gBody pm) s) := by
  intro l
  induction l with
  | nil => intro s _ h; exact h
  | cons k l ih =>
    intro s hl h
    exact ih _ (fun x hx => hl x (List.mem_cons_of_mem _ hx)) (gBody_invR (hl k List.mem_cons_self) h)

theorem gather_invR (pm : PMap) (keys : List Ty) : InvR pm keys (gather pm keys) :=
  fold_invR keys {} (fun _ h => h) (InvR.init pm keys)

/-! ## with acyclicity: termination -/

/-- a DFS started on an empty stack ends with an empty stack, within the fuel, having visited its
    root; nothing visited before is changed -/
theorem dfs_run {pm : PMap} (hac : GAcyclic pm) {s : GSt} (hI : Inv pm s) (k : Ty)
    (rest : List Ty) (hs : s.stk = k :: rest) :
    ∃ n s', iterO pm n s = some s' ∧ s'.stk = rest ∧ (look k s'.visited).isSome ∧
      (∀ u v, look u s.visited = some v → look u s'.visited = some v) ∧
      n ≤ 1 + (pm.map (fun kv => 1 + (depsOf kv.2.src).length)).sum := by
  obtain ⟨n, s', hn, hs', hk, he, ext, hx, hc⟩ := big hac k s rest hs
  have hI' := Inv.iterO hn hI
  have hnd : (ext.map (·.1)).Nodup := by
    have := hI'.visND
    rw [hx, List.map_append] at this
    exact (List.nodup_append.mp this).1
  have := cost_le_half (pm := pm) hnd
  exact ⟨n, s', hn, hs', hk, he.keep, by omega⟩

structure Good (pm : PMap) (s : GSt) : Prop where
  inv : Inv pm s
  stk : s.stk = []

theorem gBody_good {pm : PMap} (hac : GAcyclic pm) {s : GSt} (k : Ty) (h : Good pm s) :
    Good pm (gBody pm s k) ∧ (look k (gBody pm s k).visited).isSome ∧
      ∀ u v, look u s.visited = some v → look u (gBody pm s k).visited = some v := by
  unfold gBody
  cases hv : look k s.visited with
  | some v =>
    simp only [Option.isNone_some, Bool.false_eq_true, if_false]
    have : gIter pm (gFuel pm) s = s := gIter_of_iterO 0 _ s s rfl h.stk (Nat.zero_le _)
    rw [this]
    exact ⟨h, by simp [hv], fun _ _ hu => hu⟩
  | none =>
    simp only [Option.isNone_none, if_true]
    have hI1 : Inv pm { s with stk := k :: s.stk } := Inv.of_eq (s := s) rfl rfl h.inv
    obtain ⟨n, s', hn, hs', hk, hkeep, hle⟩ :=
      dfs_run hac hI1 k [] (by simp [h.stk])
    have hfuel : n ≤ gFuel pm := by unfold gFuel; omega
    have : gIter pm (gFuel pm) { s with stk := k :: s.stk } = s' :=
      gIter_of_iterO n _ _ s' hn hs' hfuel
    rw [this]
    exact ⟨⟨Inv.iterO hn hI1, hs'⟩, hk, hkeep⟩

theorem fold_good {pm : PMap} (hac : GAcyclic pm) : ∀ (l : List Ty) (s : GSt), Good pm s →
    Good pm (l.foldl (gBody pm) s) ∧ (∀ k ∈ l, (look k (l.foldl (gBody pm) s).visited).isSome) ∧
      ∀ u v, look u s.visited = some v → look u (l.foldl (gBody pm) s).visited = some v := by
  intro l
  induction l with
  | nil => intro s h; exact ⟨h, by simp, fun _ _ hu => hu⟩
  | cons k l ih =>
    intro s h
    obtain ⟨g1, hk1, hkeep1⟩ := gBody_good hac k h
    obtain ⟨g2, hl2, hkeep2⟩ := ih _ g1
    refine ⟨g2, ?_, fun u v hu => hkeep2 u v (hkeep1 u v hu)⟩
    intro x hx
    rcases List.mem_cons.mp hx with rfl | hx
    · obtain ⟨v, hv⟩ := Option.isSome_iff_exists.mp hk1
      simp only [List.foldl_cons]
      rw [hkeep2 x v hv]; rfl
    · exact hl2 x hx

/-! ## the theorems -/

section
variable {pm : PMap} {keys : List Ty}

theorem gather_terminates (hac : GAcyclic pm) : (gather pm keys).stk = [] :=
  (fold_good hac keys {} ⟨Inv.init pm, rfl⟩).1.stk

/-- each DFS needs at most `1 + Σ (1 + deps)` steps — half of what `gather` provides -/
theorem gather_dfs_steps (hac : GAcyclic pm) {s : GSt} (hI : Inv pm s) (k : Ty) (rest : List Ty)
    (hs : s.stk = k :: rest) :
    ∃ n, n ≤ 1 + (pm.map (fun kv => 1 + (depsOf kv.2.src).length)).sum ∧
      (gIter pm n s).stk = rest := by
  obtain ⟨n, s', hn, hs', _, _, hle⟩ := dfs_run hac hI k rest hs
  refine ⟨n, hle, ?_⟩
  cases rest with
  | nil => rw [gIter_of_iterO n n s s' hn hs' (Nat.le_refl _)]; exact hs'
  | cons r rest =>
    -- the machine has not halted: `gIter` and `iterO` agree
    have : ∀ (n : Nat) (s s' : GSt), iterO pm n s = some s' → gIter pm n s = s' := by
      intro n
      induction n with
      | zero => intro s s' h; simp [iterO] at h; exact h
      | succ n ih =>
        intro s s' h
        simp only [iterO] at h
        cases hst : gStep pm s with
        | none => simp [hst] at h
        | some s1 => rw [hst] at h; simp only [gIter, hst]; exact ih s1 s' h
    rw [this n s s' hn]; exact hs'

theorem gather_visits_keys (hac : GAcyclic pm) :
    ∀ k ∈ keys, (look k (gather pm keys).visited).isSome :=
  (fold_good hac keys {} ⟨Inv.init pm, rfl⟩).2.1

/-- a type marked as an input is a leaf requirement -/
theorem gather_input_leaf {k : Ty} (h : look k (gather pm keys).visited = some none) : Leaf pm k :=
  (gather_inv pm keys).leafOk k h

theorem gather_inputs_spec {k : Ty} {i : Nat}
    (h : look k (gather pm keys).visited = some (some i)) :
    ∃ g, (gather pm keys).groups[i]? = some g ∧ k ∈ g.outputs ∧ g.inputs.Nodup ∧
      ∀ u, u ∈ g.inputs ↔ Need pm k u := by
  obtain ⟨g, pt, h1, h2, _, _, _, h6⟩ := (gather_inv pm keys).grpOk k i h
  exact ⟨g, h1, h2, (gather_inv pm keys).inND i g h1, h6⟩

/-- a type with no dependencies (a value, a provider without parameters) is in a group without
    inputs -/
theorem gather_nodeps_no_inputs {k : Ty} {i : Nat} {pt : PT}
    (h : look k (gather pm keys).visited = some (some i)) (hl : look k pm = some pt)
    (hd : depsOf pt.src = []) :
    ∃ g, (gather pm keys).groups[i]? = some g ∧ k ∈ g.outputs ∧ g.inputs = [] := by
  obtain ⟨g, pt', h1, h2, h3, h4, _, h6⟩ := (gather_inv pm keys).grpOk k i h
  rw [hl] at h3; cases h3
  refine ⟨g, h1, h2, List.eq_nil_iff_forall_not_mem.mpr ?_⟩
  intro u hu
  obtain ⟨a, ha, _⟩ := (need_node hl h4 u).mp ((h6 u).mp hu)
  rw [hd] at ha; cases ha

theorem gather_value_no_inputs {k : Ty} {i : Nat} {pt : PT} {v : Val}
    (h : look k (gather pm keys).visited = some (some i)) (hl : look k pm = some pt)
    (hv : pt.src = .val v) :
    ∃ g, (gather pm keys).groups[i]? = some g ∧ k ∈ g.outputs ∧ g.inputs = [] :=
  gather_nodeps_no_inputs h hl (by rw [hv]; rfl)

/-- every output of every group is assigned to that group, has a non-argument entry and is
    reachable from a key -/
theorem gather_outputs_sound {j : Nat} {g : Grp} {t : Ty}
    (hg : (gather pm keys).groups[j]? = some g) (ht : t ∈ g.outputs) :
    look t (gather pm keys).visited = some (some j) ∧
      (∃ pt, look t pm = some pt ∧ ∀ i, pt.src ≠ .arg i) ∧ ∃ k ∈ keys, GReach pm k t := by
  have hv := (gather_inv pm keys).outOk j g t hg ht
  obtain ⟨_, pt, _, _, h3, h4, _, _⟩ := (gather_inv pm keys).grpOk t j hv
  exact ⟨hv, ⟨pt, h3, h4⟩, (gather_invR pm keys).visR t (by simp [hv])⟩

theorem gather_partition (hac : GAcyclic pm) {k : Ty} {pt : PT} (hk : k ∈ keys)
    (hl : look k pm = some pt) (hna : ∀ i, pt.src ≠ .arg i) :
    ∃ i g, look k (gather pm keys).visited = some (some i) ∧
      (gather pm keys).groups[i]? = some g ∧ k ∈ g.outputs ∧ g.outputs.Nodup ∧
      (∀ u, u ∈ g.inputs ↔ Need pm k u) ∧
      ∀ j g', (gather pm keys).groups[j]? = some g' → k ∈ g'.outputs → j = i := by
  have hI := gather_inv pm keys
  obtain ⟨v, hv⟩ := Option.isSome_iff_exists.mp (gather_visits_keys hac k hk)
  cases v with
  | none => exact absurd (hI.leafOk k hv) (not_leaf hl hna)
  | some i =>
    obtain ⟨g, _, h1, h2, _, _, _, h6⟩ := hI.grpOk k i hv
    refine ⟨i, g, hv, h1, h2, hI.outND i g h1, h6, ?_⟩
    intro j g' hj hkj
    have := hI.outOk j g' k hj hkj
    rw [hv] at this
    cases this; rfl

theorem gather_groups_distinct {i j : Nat} {gi gj : Grp} (hij : i ≠ j)
    (hi : (gather pm keys).groups[i]? = some gi) (hj : (gather pm keys).groups[j]? = some gj) :
    sameKeys gi.inputs gj.inputs = false ∧ ¬ ∀ u, u ∈ gi.inputs ↔ u ∈ gj.inputs := by
  have hI := gather_inv pm keys
  have hd := hI.distinct i j gi gj hij hi hj
  refine ⟨hd, fun hall => ?_⟩
  rw [sameKeys_of_mem (hI.inND i gi hi) (hI.inND j gj hj) hall] at hd
  cases hd

/-! ## order independence -/

/-- at the end, the visited types are exactly those reachable from the keys -/
theorem gather_visited_iff (hac : GAcyclic pm) (t : Ty) :
    (look t (gather pm keys).visited).isSome ↔ ∃ k ∈ keys, GReach pm k t := by
  have hI := gather_inv pm keys
  constructor
  · exact (gather_invR pm keys).visR t
  · rintro ⟨k, hk, hr⟩
    have hkv := gather_visits_keys hac k hk
    clear hk
    induction hr with
    | refl _ => exact hkv
    | @step a b c hd _ ih =>
      apply ih
      obtain ⟨pt, hl, hna, hb⟩ := hd
      obtain ⟨v, hv⟩ := Option.isSome_iff_exists.mp hkv
      cases v with
      | none => exact absurd (hI.leafOk a hv) (not_leaf hl hna)
      | some i =>
        obtain ⟨_, pt', _, _, h3, _, h5, _⟩ := hI.grpOk a i hv
        rw [hl] at h3; cases h3
        exact h5 b hb

/-- in a state satisfying the invariant, two grouped types with the same requirements are outputs
    of the same group -/
theorem Inv.same_group {s : GSt} (hI : Inv pm s) {t x : Ty} {j j2 : Nat}
    (ht : look t s.visited = some (some j)) (hx : look x s.visited = some (some j2))
    (hsame : ∀ u, Need pm x u ↔ Need pm t u) : j2 = j := by
  obtain ⟨g, _, hg, _, _, _, _, hin⟩ := hI.grpOk t j ht
  obtain ⟨g2, _, hg2, _, _, _, _, hin2⟩ := hI.grpOk x j2 hx
  by_cases e : j2 = j
  · exact e
  · have hd := hI.distinct j2 j g2 g e hg2 hg
    have : ∀ u, u ∈ g2.inputs ↔ u ∈ g.inputs := fun u => by rw [hin2 u, hin u, hsame u]
    rw [sameKeys_of_mem (hI.inND j2 g2 hg2) (hI.inND j g hg) this] at hd
    cases hd

/-- one half of order independence: every group of `gather pm keys` has a counterpart with the same
    input set and the same output set in `gather pm keys'`, if the two key lists have the same
    members -/
theorem gather_order_free (hac : GAcyclic pm) {keys' : List Ty} (hk : ∀ k, k ∈ keys ↔ k ∈ keys') :
    ∀ g ∈ (gather pm keys).groups, ∃ g' ∈ (gather pm keys').groups,
      (∀ u, u ∈ g.inputs ↔ u ∈ g'.inputs) ∧ (∀ t, t ∈ g.outputs ↔ t ∈ g'.outputs) := by
  have hI := gather_inv pm keys
  have hI' := gather_inv pm keys'
  -- a type grouped on one side is grouped on the other
  have transfer : ∀ (ka kb : List Ty), (∀ k, k ∈ ka ↔ k ∈ kb) → ∀ (t : Ty) (j : Nat),
      look t (gather pm ka).visited = some (some j) →
      ∃ j', look t (gather pm kb).visited = some (some j') := by
    intro ka kb hab t j ht
    obtain ⟨_, pt, _, _, hl, hna, _, _⟩ := (gather_inv pm ka).grpOk t j ht
    obtain ⟨k, hkk, hr⟩ := (gather_visited_iff (keys := ka) hac t).mp (by simp [ht])
    have hv' := (gather_visited_iff (keys := kb) hac t).mpr ⟨k, (hab k).mp hkk, hr⟩
    obtain ⟨v, hv⟩ := Option.isSome_iff_exists.mp hv'
    cases v with
    | none => exact absurd ((gather_inv pm kb).leafOk t hv) (not_leaf hl hna)
    | some j' => exact ⟨j', hv⟩
  intro g hg
  obtain ⟨j, hj⟩ := List.mem_iff_getElem?.mp hg
  obtain ⟨t, ht⟩ := List.exists_mem_of_ne_nil _ (hI.outNE j g hj)
  have htv := hI.outOk j g t hj ht
  obtain ⟨g0, _, hg0, _, _, _, _, hin⟩ := hI.grpOk t j htv
  rw [hj] at hg0; cases hg0
  obtain ⟨j', htv'⟩ := transfer keys keys' hk t j htv
  obtain ⟨g', _, hg', _, _, _, _, hin'⟩ := hI'.grpOk t j' htv'
  refine ⟨g', List.mem_of_getElem? hg', fun u => by rw [hin u, hin' u], fun x => ?_⟩
  constructor
  · intro hx
    have hxv := hI.outOk j g x hj hx
    obtain ⟨gx, _, hgx, _, _, _, _, hinx⟩ := hI.grpOk x j hxv
    rw [hj] at hgx; cases hgx
    obtain ⟨jx, hxv'⟩ := transfer keys keys' hk x j hxv
    have hsame : ∀ u, Need pm x u ↔ Need pm t u := fun u => by rw [← hinx u, hin u]
    have := hI'.same_group htv' hxv' hsame
    subst this
    obtain ⟨gx', _, hgx', hxo, _⟩ := hI'.grpOk x jx hxv'
    rw [hg'] at hgx'; cases hgx'
    exact hxo
  · intro hx
    have hxv' := hI'.outOk j' g' x hg' hx
    obtain ⟨gx, _, hgx, _, _, _, _, hinx⟩ := hI'.grpOk x j' hxv'
    rw [hg'] at hgx; cases hgx
    obtain ⟨jx, hxv⟩ := transfer keys' keys (fun k => (hk k).symm) x j' hxv'
    have hsame : ∀ u, Need pm x u ↔ Need pm t u := fun u => by rw [← hinx u, hin' u]
    have := hI.same_group htv hxv hsame
    subst this
    obtain ⟨gx', _, hgx', hxo, _⟩ := hI.grpOk x jx hxv
    rw [hj] at hgx'; cases hgx'
    exact hxo

/-- … and the number of groups is the same -/
theorem gather_order_free_length (hac : GAcyclic pm) {keys' : List Ty}
    (hk : ∀ k, k ∈ keys ↔ k ∈ keys') :
    (gather pm keys).groups.length ≤ (gather pm keys').groups.length := by
  -- an injection from group indices to group indices
  have hI := gather_inv pm keys
  have hI' := gather_inv pm keys'
  have hmap : ∀ j, j < (gather pm keys).groups.length →
      ∃ j', j' < (gather pm keys').groups.length ∧ ∀ g g', (gather pm keys).groups[j]? = some g →
        (gather pm keys').groups[j']? = some g' → ∀ u, u ∈ g.inputs ↔ u ∈ g'.inputs := by
    intro j hjl
    have hj : (gather pm keys).groups[j]? = some (gather pm keys).groups[j] :=
      List.getElem?_eq_getElem hjl
    obtain ⟨g', hg'm, hin, _⟩ := gather_order_free hac hk _ (List.mem_of_getElem? hj)
    obtain ⟨j', hj'⟩ := List.mem_iff_getElem?.mp hg'm
    refine ⟨j', (List.getElem?_eq_some_iff.mp hj').1, ?_⟩
    intro g g2 h1 h2
    rw [hj] at h1; cases h1
    rw [hj'] at h2; cases h2
    exact hin
  -- pigeonhole on the list of chosen indices
  let f : Nat → Nat := fun j =>
    if h : j < (gather pm keys).groups.length then Classical.choose (hmap j h) else 0
  have hf : ∀ j (h : j < (gather pm keys).groups.length),
      f j < (gather pm keys').groups.length ∧ ∀ g g', (gather pm keys).groups[j]? = some g →
        (gather pm keys').groups[f j]? = some g' → ∀ u, u ∈ g.inputs ↔ u ∈ g'.inputs := by
    intro j h
    simp only [f, h, dif_pos]
    exact Classical.choose_spec (hmap j h)
  have hinj : ∀ a b, a < (gather pm keys).groups.length → b < (gather pm keys).groups.length →
      f a = f b → a = b := by
    intro a b ha hb hab
    by_cases e : a = b
    · exact e
    · exfalso
      have hga : (gather pm keys).groups[a]? = some (gather pm keys).groups[a] :=
        List.getElem?_eq_getElem ha
      have hgb : (gather pm keys).groups[b]? = some (gather pm keys).groups[b] :=
        List.getElem?_eq_getElem hb
      obtain ⟨g', hg'⟩ : ∃ g', (gather pm keys').groups[f a]? = some g' :=
        ⟨_, List.getElem?_eq_getElem (hf a ha).1⟩
      have h1 := (hf a ha).2 _ _ hga hg'
      have h2 := (hf b hb).2 _ _ hgb (hab ▸ hg')
      exact (gather_groups_distinct e hga hgb).2 (fun u => by rw [h1 u, h2 u])
  have hnd : ((List.range (gather pm keys).groups.length).map f).Nodup := by
    unfold List.Nodup
    rw [List.pairwise_map]
    refine List.Pairwise.imp_of_mem ?_ (List.nodup_range (n := (gather pm keys).groups.length))
    intro a b ha hb hne hab
    exact hne (hinj a b (List.mem_range.mp ha) (List.mem_range.mp hb) hab)
  have hsub : (List.range (gather pm keys).groups.length).map f ⊆
      List.range (gather pm keys').groups.length := by
    intro y hy
    obtain ⟨j, hj, rfl⟩ := List.mem_map.mp hy
    exact List.mem_range.mpr (hf j (List.mem_range.mp hj)).1
  have := List.Nodup.length_le_of_subset hnd hsub
  simpa using this

end

end WireP.Show
