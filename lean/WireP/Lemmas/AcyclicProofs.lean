import WireV.Sets
import WireP.Lemmas.AcyclicDefs
import WireP.Lemmas.AcyclicTerm
import WireP.Lemmas.AcyclicSim
import WireP.Lemmas.AcyclicSound
/-! # C07 lemmas, collected

* `va_terminates` — `WireP/Lemmas/AcyclicTerm.lean` (potential argument)
* `va_spec` — `WireP/Lemmas/AcyclicSim.lean` (simulation of the spike machine `WV.step`)
* `va_sound` — `WireP/Lemmas/AcyclicSound.lean` (trail invariant)
* `checkAcyclic_spec`, `procSet_ok_acyclic` — here
The vocabulary `WireP.C07.{Path, Cyclic, IsCycleTrail}` is in `WireP/Lemmas/AcyclicDefs.lean`. -/
namespace WireP.AcyclicProofs
open WireV WireP.C07

theorem checkAcyclic_eq (order : List Ty) (pm : PMap) :
    checkAcyclic order pm = (verifyAcyclic pm (rootsOf order pm)).errs.map Err.cycle := by
  simp [checkAcyclic, va_terminates]

theorem checkAcyclic_spec (order : List Ty) (pm : PMap)
    (horder : ∀ k, (look k pm).isSome → k ∈ order) :
    checkAcyclic order pm = [] ↔ ¬ Cyclic (succOf pm) := by
  rw [checkAcyclic_eq, List.map_eq_nil_iff]
  apply va_spec
  intro k hk
  exact List.mem_filter.mpr ⟨horder k hk, hk⟩

theorem procSet_ok_acyclic (order : List Ty) (done : List (Nat × SetRes)) (d : SetDef) (pm : PMap)
    (sm : SMap) (horder : ∀ k, (look k pm).isSome → k ∈ order)
    (h : procSet order done d = .ok pm sm) : ¬ Cyclic (succOf pm) := by
  unfold procSet at h
  split at h
  · cases h
  · split at h
    · cases h
    · rename_i pm' sm' _
      split at h
      · rename_i hca
        cases h
        exact (checkAcyclic_spec order pm horder).mp hca
      · cases h

end WireP.AcyclicProofs
