import WireV.Rename
import WireP.Lemmas.NameProofsSharp
/-! # `WireV.renameOccs` — the second pass of `rewritePkgRefs` (C15, renaming part)

Helper definitions (`vis`, `OccWF`, `Inv`, `outNm`) and the proofs of the theorems restated in
`WireP.Props.C15`. -/
namespace WireP.RenameProofs
open WireV WireP.NameProofs

/-- the occurrences that are printed -/
def vis (occs : List Occ) : List Occ := occs.filter (fun o => !o.silent)

/-- what go/types guarantees about the occurrence list of one node: all occurrences of one object are
    spelled alike and agree on `renamable`; a silent occurrence (pre-visit of the symbolic variable of a
    type switch) is a renamable local symbol that also occurs as an ordinary identifier. -/
def OccWF (occs : List Occ) : Prop :=
  (∀ o1 ∈ occs, ∀ o2 ∈ occs, o1.obj ≠ none → o1.obj = o2.obj →
      o1.name = o2.name ∧ o1.renamable = o2.renamable) ∧
  (∀ o ∈ occs, o.silent = true →
      o.renamable = true ∧ o.obj ≠ none ∧ ∃ o' ∈ occs, o'.silent = false ∧ o'.obj = o.obj)

instance (occs : List Occ) : Decidable (OccWF occs) := by
  unfold OccWF; infer_instance

/-- the formulation with an explicit object key -/
theorem occWF_iff (occs : List Occ) :
    OccWF occs ↔
      ((∀ o1 ∈ occs, ∀ o2 ∈ occs, ∀ k, o1.obj = some k → o2.obj = some k →
          o1.name = o2.name ∧ o1.renamable = o2.renamable) ∧
       (∀ o ∈ occs, o.silent = true →
          o.renamable = true ∧ o.obj ≠ none ∧ ∃ o' ∈ occs, o'.silent = false ∧ o'.obj = o.obj)) := by
  constructor
  · rintro ⟨h1, h2⟩
    refine ⟨?_, h2⟩
    intro o1 ho1 o2 ho2 k hk1 hk2
    exact h1 o1 ho1 o2 ho2 (by rw [hk1]; simp) (by rw [hk1, hk2])
  · rintro ⟨h1, h2⟩
    refine ⟨?_, h2⟩
    intro o1 ho1 o2 ho2 hne heq
    cases hk : o1.obj with
    | none => exact absurd hk hne
    | some k => exact h1 o1 ho1 o2 ho2 k hk (by rw [← heq, hk])

/-! ## the state -/

/-- invariant of `newNames`: every new name is outside the file scope, is not an identifier of the
    node, is not a keyword, and no name was handed out twice -/
structure Inv (fs used : List String) (st : RenSt) : Prop where
  fresh : ∀ p ∈ st, p.2 ∉ fs ∧ p.2 ∉ used ∧ isKeyword p.2 = false
  nodup : (st.map (·.2)).Nodup

theorem inv_nil (fs used : List String) : Inv fs used [] :=
  ⟨(by intro p hp; cases hp), (by simp)⟩

theorem get_some_mem {st : RenSt} {k : Nat} {n : String} (h : st.get k = some n) : (k, n) ∈ st := by
  simp only [RenSt.get, Option.map_eq_some_iff] at h
  obtain ⟨p, hp, rfl⟩ := h
  have h1 := List.find?_some hp
  have h2 := List.mem_of_find?_eq_some hp
  simp only [beq_iff_eq] at h1
  subst h1
  exact h2

theorem get_cons_self (st : RenSt) (k : Nat) (n : String) : RenSt.get ((k, n) :: st) k = some n := by
  simp [RenSt.get]

theorem get_cons_ne (st : RenSt) {k k' : Nat} (n : String) (h : k ≠ k') :
    RenSt.get ((k, n) :: st) k' = st.get k' := by
  simp [RenSt.get, h]

theorem hasName_true {st : RenSt} {n : String} (h : st.hasName n = true) : ∃ k, (k, n) ∈ st := by
  simp only [RenSt.hasName, List.any_eq_true, beq_iff_eq] at h
  obtain ⟨p, hp, rfl⟩ := h
  exact ⟨p.1, hp⟩

theorem hasName_false {st : RenSt} {n : String} (h : st.hasName n = false) : n ∉ st.map (·.2) := by
  intro hm
  obtain ⟨p, hp, rfl⟩ := List.mem_map.1 hm
  have : st.hasName p.2 = true := by
    simp only [RenSt.hasName, List.any_eq_true, beq_iff_eq]
    exact ⟨p, hp, rfl⟩
  rw [h] at this
  cases this

/-- key lemma: a name that occurs in the node is never one of the new names, so whether a symbol is
    renamed depends on the file scope only -/
theorem hasName_of_used {fs used : List String} {st : RenSt} (hi : Inv fs used st) {n : String}
    (hn : n ∈ used) : st.hasName n = false := by
  cases h : st.hasName n with
  | false => rfl
  | true =>
    obtain ⟨k, hk⟩ := hasName_true h
    exact absurd hn (hi.fresh _ hk).2.1

theorem renCollides_false {fs used : List String} {st : RenSt} {n : String}
    (h : renCollides fs used st n = false) : n ∉ fs ∧ st.hasName n = false ∧ n ∉ used := by
  simp only [renCollides, Bool.or_eq_false_iff, List.contains_eq_mem, decide_eq_false_iff_not] at h
  exact ⟨h.1.1, h.1.2, h.2⟩

theorem renCollides_mem {fs used : List String} {st : RenSt} {n : String}
    (h : renCollides fs used st n = true) : n ∈ fs ++ st.map (·.2) ++ used := by
  simp only [renCollides, Bool.or_eq_true, List.contains_eq_mem, decide_eq_true_eq] at h
  simp only [List.mem_append]
  rcases h with (h | h) | h
  · exact Or.inl (Or.inl h)
  · obtain ⟨k, hk⟩ := hasName_true h
    exact Or.inl (Or.inr (List.mem_map.2 ⟨_, hk, rfl⟩))
  · exact Or.inr h

theorem inv_cons {fuel : Nat} {fs used : List String} {st : RenSt} (hi : Inv fs used st) {name n : String}
    (k : Nat) (h : disambiguate fuel name (renCollides fs used st) = some n) :
    Inv fs used ((k, n) :: st) := by
  obtain ⟨hc, hk, _⟩ := disambiguate_some h
  obtain ⟨h1, h2, h3⟩ := renCollides_false hc
  constructor
  · intro p hp
    rcases List.mem_cons.1 hp with rfl | hp
    · exact ⟨h1, h3, hk⟩
    · exact hi.fresh p hp
  · simp only [List.map_cons, List.nodup_cons]
    exact ⟨hasName_false h2, hi.nodup⟩

/-- two keys with the same new name are the same key -/
theorem inv_name_inj {fs used : List String} {st : RenSt} (hi : Inv fs used st) {k1 k2 : Nat} {n : String}
    (h1 : (k1, n) ∈ st) (h2 : (k2, n) ∈ st) : k1 = k2 := by
  have := hi.nodup
  clear hi
  induction st with
  | nil => cases h1
  | cons p st ih =>
    simp only [List.map_cons, List.nodup_cons] at this
    rcases List.mem_cons.1 h1 with e1 | h1
    · rcases List.mem_cons.1 h2 with e2 | h2
      · rw [← e1] at e2
        exact (Prod.mk.inj e2).1.symm
      · exfalso
        apply this.1
        rw [← e1]
        exact List.mem_map.2 ⟨_, h2, rfl⟩
    · rcases List.mem_cons.1 h2 with e2 | h2
      · exfalso
        apply this.1
        rw [← e2]
        exact List.mem_map.2 ⟨_, h1, rfl⟩
      · exact ih h1 h2 this.2

/-! ## one step -/

/-- the four ways one identifier is handled -/
inductive StepRes (fuel : Nat) (fs used : List String) (st : RenSt) (o : Occ) : RenSt → String → Prop
  | noobj : o.obj = none → StepRes fuel fs used st o st o.name
  | known (k : Nat) (n : String) : o.obj = some k → st.get k = some n → StepRes fuel fs used st o st n
  | keep (k : Nat) : o.obj = some k → st.get k = none →
      (o.renamable = false ∨ (fs.contains o.name = false ∧ st.hasName o.name = false)) →
      StepRes fuel fs used st o st o.name
  | fresh (k : Nat) (n : String) : o.obj = some k → st.get k = none → o.renamable = true →
      (fs.contains o.name || st.hasName o.name) = true →
      disambiguate fuel o.name (renCollides fs used st) = some n →
      StepRes fuel fs used st o ((k, n) :: st) n

theorem renStep_cases {fuel : Nat} {fs used : List String} {st st' : RenSt} {o : Occ} {n : String}
    (h : renStep fuel fs used st o = some (st', n)) : StepRes fuel fs used st o st' n := by
  unfold renStep at h
  split at h
  · rename_i ho
    simp only [Option.some.injEq, Prod.mk.injEq] at h
    obtain ⟨rfl, rfl⟩ := h
    exact .noobj ho
  · rename_i k ho
    split at h
    · rename_i m hg
      simp only [Option.some.injEq, Prod.mk.injEq] at h
      obtain ⟨rfl, rfl⟩ := h
      exact .known k m ho hg
    · rename_i hg
      split at h
      · rename_i hc
        simp only [Option.some.injEq, Prod.mk.injEq] at h
        obtain ⟨rfl, rfl⟩ := h
        refine .keep k ho hg ?_
        simp only [Bool.or_eq_true, Bool.not_eq_eq_eq_not, Bool.not_true, Bool.or_eq_false_iff] at hc
        exact hc
      · rename_i hc
        simp only [Bool.or_eq_true, Bool.not_eq_eq_eq_not, Bool.not_true, not_or,
          Bool.not_eq_false] at hc
        split at h
        · cases h
        · rename_i m hd
          simp only [Option.some.injEq, Prod.mk.injEq] at h
          obtain ⟨rfl, rfl⟩ := h
          refine .fresh k m ho hg hc.1 ?_ hd
          have := hc.2
          simpa using this

theorem renLoop_cons_some {fuel : Nat} {fs used : List String} {st : RenSt} {o : Occ} {os : List Occ}
    {ns : List String} (h : renLoop fuel fs used st (o :: os) = some ns) :
    ∃ st' n ns', renStep fuel fs used st o = some (st', n) ∧ renLoop fuel fs used st' os = some ns' ∧
      ns = (if o.silent then ns' else n :: ns') := by
  simp only [renLoop] at h
  split at h
  · cases h
  · rename_i st' n hs
    split at h
    · cases h
    · rename_i ns' hl
      simp only [Option.some.injEq] at h
      exact ⟨st', n, ns', hs, hl, h.symm⟩

theorem vis_cons (o : Occ) (os : List Occ) :
    vis (o :: os) = if o.silent then vis os else o :: vis os := by
  simp only [vis, List.filter_cons]
  cases o.silent <;> simp

/-! ## `Forall₂` and indices -/

/-- pointwise relation of two lists -/
inductive Forall₂ {α β : Type} (R : α → β → Prop) : List α → List β → Prop
  | nil : Forall₂ R [] []
  | cons {a b l1 l2} : R a b → Forall₂ R l1 l2 → Forall₂ R (a :: l1) (b :: l2)

theorem forall₂_length {α β : Type} {R : α → β → Prop} {l1 : List α} {l2 : List β}
    (h : Forall₂ R l1 l2) : l2.length = l1.length := by
  induction h with
  | nil => rfl
  | cons _ _ ih => simp [ih]

theorem forall₂_get {α β : Type} {R : α → β → Prop} {l1 : List α} {l2 : List β}
    (h : Forall₂ R l1 l2) : ∀ (i : Nat) (a : α), l1[i]? = some a → ∃ b, l2[i]? = some b ∧ R a b := by
  induction h with
  | nil => intro i a h; simp at h
  | cons hr _ ih =>
    intro i a h
    cases i with
    | zero =>
      simp only [List.getElem?_cons_zero, Option.some.injEq] at h
      subst h
      exact ⟨_, by simp, hr⟩
    | succ i =>
      simp only [List.getElem?_cons_succ] at h
      obtain ⟨b, hb, hR⟩ := ih i a h
      exact ⟨b, by simpa using hb, hR⟩

/-! ## what holds without well-formedness: lengths, names without object, freshness -/

/-- relation between an occurrence and its printed name that holds unconditionally -/
def WeakRel (fs used : List String) (o : Occ) (n : String) : Prop :=
  n = o.name ∨ (o.obj ≠ none ∧ n ∉ fs ∧ n ∉ used ∧ isKeyword n = false)

theorem stepRes_inv {fuel : Nat} {fs used : List String} {st st' : RenSt} {o : Occ} {n : String}
    (hi : Inv fs used st) (h : StepRes fuel fs used st o st' n) : Inv fs used st' := by
  cases h with
  | noobj _ => exact hi
  | known _ _ _ _ => exact hi
  | keep _ _ _ _ => exact hi
  | fresh k n _ _ _ _ hd => exact inv_cons hi k hd

theorem stepRes_weak {fuel : Nat} {fs used : List String} {st st' : RenSt} {o : Occ} {n : String}
    (hi : Inv fs used st) (h : StepRes fuel fs used st o st' n) : WeakRel fs used o n := by
  cases h with
  | noobj _ => exact Or.inl rfl
  | known k n ho hg =>
    exact Or.inr ⟨by rw [ho]; simp, hi.fresh _ (get_some_mem hg)⟩
  | keep _ _ _ _ => exact Or.inl rfl
  | fresh k n ho _ _ _ hd =>
    exact Or.inr ⟨by rw [ho]; simp, (inv_cons hi k hd).fresh _ (List.mem_cons_self ..)⟩

theorem renLoop_weak {fuel : Nat} {fs used : List String} :
    ∀ (occs : List Occ) (st : RenSt) (ns : List String), Inv fs used st →
      renLoop fuel fs used st occs = some ns → Forall₂ (WeakRel fs used) (vis occs) ns
  | [], st, ns, _, h => by
    simp only [renLoop, Option.some.injEq] at h
    subst h
    exact .nil
  | o :: os, st, ns, hi, h => by
    obtain ⟨st', n, ns', hs, hl, rfl⟩ := renLoop_cons_some h
    have hc := renStep_cases hs
    have ih := renLoop_weak os st' ns' (stepRes_inv hi hc) hl
    rw [vis_cons]
    cases hsil : o.silent with
    | true => simpa using ih
    | false =>
      simp only [Bool.false_eq_true, if_false]
      exact .cons (stepRes_weak hi hc) ih

/-! ## totality -/

theorem usedNames_length_le (occs : List Occ) : (usedNames occs).length ≤ occs.length := by
  simp only [usedNames, List.length_map]
  exact List.length_filter_le _ _

theorem renLoop_total {fuel : Nat} {fs used : List String} :
    ∀ (occs : List Occ) (st : RenSt),
      fs.length + (st.length + occs.length) + used.length + goKeywords.length + 1 ≤ fuel →
      ∃ ns, renLoop fuel fs used st occs = some ns
  | [], st, _ => ⟨[], rfl⟩
  | o :: os, st, hf => by
    have hstep : ∃ st' n, renStep fuel fs used st o = some (st', n) ∧ st'.length ≤ st.length + 1 := by
      unfold renStep
      split
      · exact ⟨_, _, rfl, by omega⟩
      · split
        · exact ⟨_, _, rfl, by omega⟩
        · split
          · exact ⟨_, _, rfl, by omega⟩
          · obtain ⟨r, hr⟩ := disambiguate_isSome (fuel := fuel) o.name
              (collides := renCollides fs used st) (taken := fs ++ st.map (·.2) ++ used)
              (fun n hn => renCollides_mem hn)
              (by simp only [List.length_append, List.length_map, List.length_cons] at hf ⊢; omega)
            rw [hr]
            exact ⟨_, _, rfl, by simp⟩
    obtain ⟨st', n, hs, hlen⟩ := hstep
    obtain ⟨ns', hl⟩ := renLoop_total (fuel := fuel) (fs := fs) (used := used) os st' (by
      simp only [List.length_cons] at hf; omega)
    refine ⟨if o.silent then ns' else n :: ns', ?_⟩
    simp only [renLoop, hs, hl]

/-! ## the characterisation of the output under well-formedness -/

/-- all occurrences of one object are spelled alike and agree on `renamable` (first half of `OccWF`) -/
def SameObj (occs : List Occ) : Prop :=
  ∀ o1 ∈ occs, ∀ o2 ∈ occs, o1.obj ≠ none → o1.obj = o2.obj →
    o1.name = o2.name ∧ o1.renamable = o2.renamable

theorem SameObj.tail {o : Occ} {os : List Occ} (h : SameObj (o :: os)) : SameObj os :=
  fun o1 h1 o2 h2 => h o1 (List.mem_cons_of_mem _ h1) o2 (List.mem_cons_of_mem _ h2)

/-- the printed name of an identifier `name` that resolves to `obj`, read off the final state -/
def outNm (st : RenSt) (name : String) (obj : Option Nat) : String :=
  match obj with
  | none => name
  | some k => (st.get k).getD name

/-- `st'` is a possible final state of the loop started in `st` on `occs` -/
structure Final (fs used : List String) (st : RenSt) (occs : List Occ) (st' : RenSt) : Prop where
  inv : Inv fs used st'
  mono : ∀ k n, st.get k = some n → st'.get k = some n
  origin : ∀ k, st'.get k ≠ none → st.get k ≠ none ∨
    ∃ o ∈ occs, o.obj = some k ∧ o.renamable = true ∧ fs.contains o.name = true
  complete : ∀ o ∈ occs, ∀ k, o.obj = some k → o.renamable = true → fs.contains o.name = true →
    st'.get k ≠ none

theorem final_same {fs used : List String} {st st' : RenSt} {o : Occ} {os : List Occ}
    (hf : Final fs used st os st')
    (ho : ∀ k, o.obj = some k → o.renamable = true → fs.contains o.name = true → st'.get k ≠ none) :
    Final fs used st (o :: os) st' := by
  refine ⟨hf.inv, hf.mono, ?_, ?_⟩
  · intro k hk
    rcases hf.origin k hk with h | ⟨o', ho', h⟩
    · exact Or.inl h
    · exact Or.inr ⟨o', List.mem_cons_of_mem _ ho', h⟩
  · intro o' ho'
    rcases List.mem_cons.1 ho' with rfl | ho'
    · exact ho
    · exact hf.complete o' ho'

theorem renLoop_spec {fuel : Nat} {fs used : List String} :
    ∀ (occs : List Occ) (st : RenSt) (ns : List String), Inv fs used st → SameObj occs →
      (∀ o ∈ occs, o.obj ≠ none → o.name ∈ used) →
      renLoop fuel fs used st occs = some ns →
      ∃ st', Final fs used st occs st' ∧ ns = (vis occs).map (fun o => outNm st' o.name o.obj)
  | [], st, ns, hi, _, _, h => by
    simp only [renLoop, Option.some.injEq] at h
    subst h
    refine ⟨st, ⟨hi, fun _ _ h => h, fun k hk => Or.inl hk, ?_⟩, rfl⟩
    intro o ho; cases ho
  | o :: os, st, ns, hi, hw, hu, h => by
    obtain ⟨st1, n, ns', hs, hl, rfl⟩ := renLoop_cons_some h
    have hc := renStep_cases hs
    obtain ⟨st', hf, rfl⟩ := renLoop_spec os st1 ns' (stepRes_inv hi hc) hw.tail
      (fun o' ho' => hu o' (List.mem_cons_of_mem _ ho')) hl
    -- it suffices to build the final-state record and to identify the printed name
    suffices hkey : Final fs used st (o :: os) st' ∧ n = outNm st' o.name o.obj by
      refine ⟨st', hkey.1, ?_⟩
      rw [vis_cons]
      cases o.silent with
      | true => simp
      | false => simp [hkey.2]
    cases hc with
    | noobj ho =>
      refine ⟨final_same hf ?_, by simp [outNm, ho]⟩
      intro k hk; rw [ho] at hk; cases hk
    | known k n ho hg =>
      have hg' := hf.mono k n hg
      refine ⟨final_same hf ?_, by simp [outNm, ho, hg']⟩
      intro k' hk' _ _
      rw [ho] at hk'; cases hk'
      rw [hg']; simp
    | keep k ho hg hd =>
      have hnone : st'.get k = none := by
        cases hq : st'.get k with
        | none => rfl
        | some m =>
          exfalso
          rcases hf.origin k (by rw [hq]; simp) with h1 | ⟨o2, ho2, hk2, hr2, hfs2⟩
          · exact h1 hg
          · have := hw o (List.mem_cons_self ..) o2 (List.mem_cons_of_mem _ ho2)
              (by rw [ho]; simp) (by rw [ho, hk2])
            rcases hd with hd | hd
            · rw [this.2, hr2] at hd; cases hd
            · rw [this.1, hfs2] at hd; cases hd.1
      refine ⟨final_same hf ?_, by simp [outNm, ho, hnone]⟩
      intro k' hk' hr hfs
      exfalso
      rcases hd with hd | hd
      · rw [hr] at hd; cases hd
      · rw [hfs] at hd; cases hd.1
    | fresh k n ho hg hr hcol hdis =>
      have hself : st'.get k = some n := hf.mono k n (get_cons_self st k n)
      have hfs : fs.contains o.name = true := by
        have hu' := hu o (List.mem_cons_self ..) (by rw [ho]; simp)
        rw [hasName_of_used hi hu', Bool.or_false] at hcol
        exact hcol
      refine ⟨⟨hf.inv, ?_, ?_, ?_⟩, by simp [outNm, ho, hself]⟩
      · intro k' m hk'
        have hne : k ≠ k' := by
          intro e; subst e; rw [hg] at hk'; cases hk'
        exact hf.mono k' m (by rw [get_cons_ne st n hne]; exact hk')
      · intro k' hk'
        by_cases hne : k = k'
        · subst hne
          exact Or.inr ⟨o, List.mem_cons_self .., ho, hr, hfs⟩
        · rcases hf.origin k' hk' with h1 | ⟨o2, ho2, h2⟩
          · rw [get_cons_ne st n hne] at h1
            exact Or.inl h1
          · exact Or.inr ⟨o2, List.mem_cons_of_mem _ ho2, h2⟩
      · intro o' ho'
        rcases List.mem_cons.1 ho' with rfl | ho'
        · intro k' hk' _ _
          rw [ho] at hk'; cases hk'
          rw [hself]; simp
        · exact hf.complete o' ho'

/-! ## `outNm` -/

theorem outNm_ne {st : RenSt} {name : String} {obj : Option Nat} (h : outNm st name obj ≠ name) :
    ∃ k, obj = some k ∧ st.get k = some (outNm st name obj) := by
  cases obj with
  | none => exact absurd rfl h
  | some k =>
    refine ⟨k, rfl, ?_⟩
    cases hg : st.get k with
    | none => simp [outNm, hg] at h
    | some m => simp [outNm, hg]

/-- names printed alike were spelled alike, and a new name stands for one object only.  The two
    identifiers are given as (name, object) pairs; each is either untouched by the renaming or the
    pair of an occurrence of the node. -/
theorem outNm_inj {fs used : List String} {st : RenSt} (hi : Inv fs used st) {occs : List Occ}
    (hw : SameObj occs) {n1 n2 : String} {b1 b2 : Option Nat}
    (h1 : n1 ∈ fs ∨ n1 ∈ used) (h2 : n2 ∈ fs ∨ n2 ∈ used)
    (g1 : outNm st n1 b1 ≠ n1 → ∃ o ∈ occs, o.name = n1 ∧ o.obj = b1)
    (g2 : outNm st n2 b2 ≠ n2 → ∃ o ∈ occs, o.name = n2 ∧ o.obj = b2)
    (h : outNm st n1 b1 = outNm st n2 b2) : n1 = n2 ∧ (outNm st n1 b1 = n1 ∨ b1 = b2) := by
  have hfresh : ∀ (n : String) (b : Option Nat), outNm st n b ≠ n →
      outNm st n b ∉ fs ∧ outNm st n b ∉ used := by
    intro n b hne
    obtain ⟨k, _, hk⟩ := outNm_ne hne
    have := hi.fresh _ (get_some_mem hk)
    exact ⟨this.1, this.2.1⟩
  by_cases c1 : outNm st n1 b1 = n1
  · by_cases c2 : outNm st n2 b2 = n2
    · exact ⟨by rw [← c1, ← c2, h], Or.inl c1⟩
    · exfalso
      have := hfresh n2 b2 c2
      rw [← h, c1] at this
      rcases h1 with h1 | h1
      · exact this.1 h1
      · exact this.2 h1
  · by_cases c2 : outNm st n2 b2 = n2
    · exfalso
      have := hfresh n1 b1 c1
      rw [h, c2] at this
      rcases h2 with h2 | h2
      · exact this.1 h2
      · exact this.2 h2
    · obtain ⟨k1, hb1, hk1⟩ := outNm_ne c1
      obtain ⟨k2, hb2, hk2⟩ := outNm_ne c2
      rw [h] at hk1
      have hk : k1 = k2 := inv_name_inj hi (get_some_mem hk1) (get_some_mem hk2)
      subst hk
      obtain ⟨o1, ho1, hn1, hob1⟩ := g1 c1
      obtain ⟨o2, ho2, hn2, hob2⟩ := g2 c2
      have := hw o1 ho1 o2 ho2 (by rw [hob1, hb1]; simp) (by rw [hob1, hob2, hb1, hb2])
      exact ⟨by rw [← hn1, ← hn2, this.1], Or.inr (by rw [hb1, hb2])⟩

/-! ## the theorems about `renameOccs` -/

theorem vis_mem {occs : List Occ} {i : Nat} {o : Occ} (h : (vis occs)[i]? = some o) :
    o ∈ occs ∧ o.silent = false := by
  have := List.mem_of_getElem? h
  simp only [vis, List.mem_filter, Bool.not_eq_eq_eq_not, Bool.not_true] at this
  exact this

theorem vis_used {occs : List Occ} {i : Nat} {o : Occ} (h : (vis occs)[i]? = some o) :
    o.name ∈ usedNames occs :=
  List.mem_map.2 ⟨o, List.mem_of_getElem? h, rfl⟩

theorem occWF_used {occs : List Occ} (hwf : OccWF occs) :
    ∀ o ∈ occs, o.obj ≠ none → o.name ∈ usedNames occs := by
  intro o ho hob
  cases hs : o.silent with
  | false =>
    exact List.mem_map.2 ⟨o, by simp [List.mem_filter, ho, hs], rfl⟩
  | true =>
    obtain ⟨_, _, o', ho', hs', hob'⟩ := hwf.2 o ho hs
    have := hwf.1 o ho o' ho' hob hob'.symm
    rw [this.1]
    exact List.mem_map.2 ⟨o', by simp [List.mem_filter, ho', hs'], rfl⟩

/-- the output is the original spelling, overridden by the final table of new names -/
theorem rename_spec {fuel : Nat} {fs : List String} {occs : List Occ} {ns : List String}
    (hwf : OccWF occs) (h : renameOccs fuel fs occs = some ns) :
    ∃ st', Final fs (usedNames occs) [] occs st' ∧
      ns = (vis occs).map (fun o => outNm st' o.name o.obj) :=
  renLoop_spec occs [] ns (inv_nil _ _) hwf.1 (occWF_used hwf) h

theorem final_nil_origin {fs used : List String} {occs : List Occ} {st' : RenSt}
    (hf : Final fs used [] occs st') {k : Nat} (hk : st'.get k ≠ none) :
    ∃ o ∈ occs, o.obj = some k ∧ o.renamable = true ∧ fs.contains o.name = true := by
  rcases hf.origin k hk with h | h
  · exact absurd (by simp [RenSt.get]) h
  · exact h

theorem spec_get {st' : RenSt} {occs : List Occ} {ns : List String}
    (hns : ns = (vis occs).map (fun o => outNm st' o.name o.obj)) {i : Nat} {o : Occ}
    (hi : (vis occs)[i]? = some o) : ns[i]? = some (outNm st' o.name o.obj) := by
  rw [hns, List.getElem?_map, hi]; rfl

theorem rename_total (fuel : Nat) (fs : List String) (occs : List Occ)
    (hf : fs.length + 2 * occs.length + goKeywords.length + 2 ≤ fuel) :
    ∃ ns, renameOccs fuel fs occs = some ns := by
  apply renLoop_total
  have := usedNames_length_le occs
  simp only [List.length_nil]
  omega

theorem rename_weak {fuel : Nat} {fs : List String} {occs : List Occ} {ns : List String}
    (h : renameOccs fuel fs occs = some ns) :
    Forall₂ (WeakRel fs (usedNames occs)) (vis occs) ns :=
  renLoop_weak occs [] ns (inv_nil _ _) h

theorem rename_length {fuel : Nat} {fs : List String} {occs : List Occ} {ns : List String}
    (h : renameOccs fuel fs occs = some ns) : ns.length = (vis occs).length :=
  forall₂_length (rename_weak h)

theorem rename_fixed_noobj {fuel : Nat} {fs : List String} {occs : List Occ} {ns : List String}
    (h : renameOccs fuel fs occs = some ns) {i : Nat} {o : Occ} (hi : (vis occs)[i]? = some o)
    (ho : o.obj = none) : ns[i]? = some o.name := by
  obtain ⟨n, hn, hr⟩ := forall₂_get (rename_weak h) i o hi
  rcases hr with rfl | ⟨hne, _⟩
  · exact hn
  · exact absurd ho hne

theorem rename_fixed {fuel : Nat} {fs : List String} {occs : List Occ} {ns : List String}
    (hwf : OccWF occs) (h : renameOccs fuel fs occs = some ns) {i : Nat} {o : Occ}
    (hi : (vis occs)[i]? = some o) (ho : o.obj = none ∨ o.renamable = false) :
    ns[i]? = some o.name := by
  rcases ho with ho | ho
  · exact rename_fixed_noobj h hi ho
  · obtain ⟨st', hf, hns⟩ := rename_spec hwf h
    rw [spec_get hns hi]
    cases hob : o.obj with
    | none => rfl
    | some k =>
      cases hg : st'.get k with
      | none => simp [outNm, hg]
      | some m =>
        exfalso
        obtain ⟨o2, ho2, hk2, hr2, _⟩ := final_nil_origin hf (k := k) (by rw [hg]; simp)
        have := hwf.1 o (vis_mem hi).1 o2 ho2 (by rw [hob]; simp) (by rw [hob, hk2])
        rw [this.2, hr2] at ho
        cases ho

theorem rename_consistent {fuel : Nat} {fs : List String} {occs : List Occ} {ns : List String}
    (hwf : OccWF occs) (h : renameOccs fuel fs occs = some ns) {i j k : Nat} {oi oj : Occ}
    (hi : (vis occs)[i]? = some oi) (hj : (vis occs)[j]? = some oj)
    (hoi : oi.obj = some k) (hoj : oj.obj = some k) : ns[i]? = ns[j]? := by
  obtain ⟨st', _, hns⟩ := rename_spec hwf h
  have := hwf.1 oi (vis_mem hi).1 oj (vis_mem hj).1 (by rw [hoi]; simp) (by rw [hoi, hoj])
  rw [spec_get hns hi, spec_get hns hj, this.1, hoi, hoj]

theorem rename_fresh {fuel : Nat} {fs : List String} {occs : List Occ} {ns : List String}
    (h : renameOccs fuel fs occs = some ns) {i : Nat} {o : Occ} {n : String}
    (hi : (vis occs)[i]? = some o) (hn : ns[i]? = some n) (hne : n ≠ o.name) :
    n ∉ fs ∧ n ∉ usedNames occs ∧ isKeyword n = false := by
  obtain ⟨n', hn', hr⟩ := forall₂_get (rename_weak h) i o hi
  rw [hn] at hn'
  cases hn'
  rcases hr with rfl | ⟨_, hr⟩
  · exact absurd rfl hne
  · exact hr

theorem rename_clears_filescope {fuel : Nat} {fs : List String} {occs : List Occ} {ns : List String}
    (hwf : OccWF occs) (h : renameOccs fuel fs occs = some ns) {i : Nat} {o : Occ} {n : String}
    (hi : (vis occs)[i]? = some o) (hr : o.renamable = true) (hob : o.obj ≠ none)
    (hn : ns[i]? = some n) : n ∉ fs := by
  obtain ⟨st', hf, hns⟩ := rename_spec hwf h
  rw [spec_get hns hi] at hn
  cases hn
  cases hk : o.obj with
  | none => exact absurd hk hob
  | some k =>
    cases hg : st'.get k with
    | some m =>
      simp only [outNm, hg, Option.getD_some]
      exact (hf.inv.fresh _ (get_some_mem hg)).1
    | none =>
      simp only [outNm, hg, Option.getD_none]
      intro hmem
      exact hf.complete o (vis_mem hi).1 k hk hr (by simpa using hmem) hg

theorem rename_injective {fuel : Nat} {fs : List String} {occs : List Occ} {ns : List String}
    (hwf : OccWF occs) (h : renameOccs fuel fs occs = some ns) {i j : Nat} {oi oj : Occ} {n : String}
    (hi : (vis occs)[i]? = some oi) (hj : (vis occs)[j]? = some oj)
    (hni : ns[i]? = some n) (hnj : ns[j]? = some n) :
    oi.name = oj.name ∧ (n = oi.name ∨ oi.obj = oj.obj) := by
  obtain ⟨st', hf, hns⟩ := rename_spec hwf h
  rw [spec_get hns hi] at hni
  rw [spec_get hns hj] at hnj
  cases hni
  have := outNm_inj hf.inv hwf.1 (Or.inr (vis_used hi)) (Or.inr (vis_used hj))
    (fun _ => ⟨oi, (vis_mem hi).1, rfl, rfl⟩) (fun _ => ⟨oj, (vis_mem hj).1, rfl, rfl⟩)
    (Option.some.inj hnj).symm
  exact this

/-! ## lexical scoping: name-based resolution is preserved

A program over the identifiers of the node is a flat list of tokens: `enter`/`leave` open and close a
block, `decl i` declares identifier occurrence `i` (an index into `vis occs`) in the innermost block,
`use i` is a use of occurrence `i`.  Resolution is by name, innermost scope first, through the local
scopes `loc` and then the scopes `env0` around the node (file scope, universe). -/

inductive Tok
  | enter
  | leave
  | decl (i : Nat)
  | use (i : Nat)
deriving DecidableEq, Repr

/-- the occurrences declared / used by a program -/
def declIdx (toks : List Tok) : List Nat :=
  toks.filterMap (fun t => match t with | .decl i => some i | _ => none)

def useIdx (toks : List Tok) : List Nat :=
  toks.filterMap (fun t => match t with | .use i => some i | _ => none)

theorem mem_declIdx {toks : List Tok} {i : Nat} (h : Tok.decl i ∈ toks) : i ∈ declIdx toks :=
  List.mem_filterMap.2 ⟨_, h, rfl⟩

theorem mem_useIdx {toks : List Tok} {i : Nat} (h : Tok.use i ∈ toks) : i ∈ useIdx toks :=
  List.mem_filterMap.2 ⟨_, h, rfl⟩

/-- one scope: (name, object) pairs, latest declaration first -/
abbrev Scope := List (String × Option Nat)

def lookupScope (n : String) (s : Scope) : Option (Option Nat) :=
  (s.find? (fun p => p.1 == n)).map (·.2)

/-- first hit from the innermost scope outwards -/
def lookupStack (n : String) : List Scope → Option (Option Nat)
  | [] => none
  | s :: ss =>
    match lookupScope n s with
    | some r => some r
    | none => lookupStack n ss

/-- `bound env0 chk nm ob loc toks`: every use `i` with `chk i` resolves by its name `nm i` to its
    object `ob i`; blocks are balanced and nothing is declared outside a block of the node -/
def bound (env0 : List Scope) (chk : Nat → Bool) (nm : Nat → String) (ob : Nat → Option Nat) :
    List Scope → List Tok → Bool
  | _, [] => true
  | loc, .enter :: ts => bound env0 chk nm ob ([] :: loc) ts
  | [], .leave :: _ => false
  | _ :: loc, .leave :: ts => bound env0 chk nm ob loc ts
  | [], .decl _ :: _ => false
  | s :: loc, .decl i :: ts => bound env0 chk nm ob (((nm i, ob i) :: s) :: loc) ts
  | loc, .use i :: ts =>
    (!chk i || lookupStack (nm i) (loc ++ env0) == some (ob i)) && bound env0 chk nm ob loc ts

/-- a (name, object) pair the renaming is injective on: an identifier of the node, or an outer
    declaration that the renaming leaves alone -/
def GoodPair (fs used : List String) (st : RenSt) (occs : List Occ) (p : String × Option Nat) : Prop :=
  (p.1 ∈ fs ∨ p.1 ∈ used) ∧ (outNm st p.1 p.2 ≠ p.1 → ∃ o ∈ occs, o.name = p.1 ∧ o.obj = p.2)

/-- the renaming on declarations -/
def rnPair (st : RenSt) (p : String × Option Nat) : String × Option Nat := (outNm st p.1 p.2, p.2)

theorem lookupScope_cons (n : String) (q : String × Option Nat) (s : Scope) :
    lookupScope n (q :: s) = if q.1 = n then some q.2 else lookupScope n s := by
  simp only [lookupScope, List.find?_cons]
  by_cases h : q.1 = n
  · simp [h]
  · have : (q.1 == n) = false := by simpa using h
    simp [h, this]

theorem lookupScope_rn {fs used : List String} {st : RenSt} (hi : Inv fs used st) {occs : List Occ}
    (hw : SameObj occs) {x : String} {r : Option Nat} (hu : GoodPair fs used st occs (x, r)) :
    ∀ (s : Scope), (∀ q ∈ s, GoodPair fs used st occs q) →
      (lookupScope x s = none → lookupScope (outNm st x r) (s.map (rnPair st)) = none) ∧
      (lookupScope x s = some r → lookupScope (outNm st x r) (s.map (rnPair st)) = some r)
  | [], _ => by simp [lookupScope]
  | q :: s, hg => by
    have ih := lookupScope_rn hi hw hu s (fun q' hq' => hg q' (List.mem_cons_of_mem _ hq'))
    have hq := hg q (List.mem_cons_self ..)
    simp only [List.map_cons, lookupScope_cons, rnPair]
    by_cases hx : q.1 = x
    · simp only [hx, if_true]
      refine ⟨fun h => (by cases h), fun h => ?_⟩
      simp only [Option.some.injEq] at h
      rw [h, if_pos rfl]
    · simp only [hx, if_false]
      have hne : ¬ outNm st q.1 q.2 = outNm st x r := by
        intro he
        exact hx (outNm_inj hi hw hq.1 hu.1 hq.2 hu.2 he).1
      simp only [hne, if_false]
      exact ih

theorem lookupStack_rn {fs used : List String} {st : RenSt} (hi : Inv fs used st) {occs : List Occ}
    (hw : SameObj occs) {x : String} {r : Option Nat} (hu : GoodPair fs used st occs (x, r)) :
    ∀ (env : List Scope), (∀ s ∈ env, ∀ q ∈ s, GoodPair fs used st occs q) →
      lookupStack x env = some r →
      lookupStack (outNm st x r) (env.map (fun s => s.map (rnPair st))) = some r
  | [], _, h => by simp [lookupStack] at h
  | s :: env, hg, h => by
    have hs := lookupScope_rn hi hw hu s (hg s (List.mem_cons_self ..))
    simp only [lookupStack] at h
    simp only [List.map_cons, lookupStack]
    cases hl : lookupScope x s with
    | some r' =>
      rw [hl] at h
      simp only [Option.some.injEq] at h
      subst h
      rw [hs.2 hl]
    | none =>
      rw [hl] at h
      rw [hs.1 hl]
      exact lookupStack_rn hi hw hu env (fun s' hs' => hg s' (List.mem_cons_of_mem _ hs')) h

theorem lookupStack_append_none (x : String) (e : List Scope) :
    ∀ (l : List Scope), (∀ s ∈ l, lookupScope x s = none) → lookupStack x (l ++ e) = lookupStack x e
  | [], _ => rfl
  | s :: l, h => by
    simp only [List.cons_append, lookupStack, h s (List.mem_cons_self ..)]
    exact lookupStack_append_none x e l (fun s' hs' => h s' (List.mem_cons_of_mem _ hs'))

theorem lookupScope_none_of_notin {x : String} {s : Scope} (h : ∀ q ∈ s, q.1 ≠ x) :
    lookupScope x s = none := by
  simp only [lookupScope, Option.map_eq_none_iff, List.find?_eq_none, beq_iff_eq]
  exact h

theorem map_rn_fixed {st : RenSt} {env0 : List Scope}
    (h : ∀ s ∈ env0, ∀ q ∈ s, outNm st q.1 q.2 = q.1) :
    env0.map (fun s => s.map (rnPair st)) = env0 := by
  induction env0 with
  | nil => rfl
  | cons s env ih =>
    simp only [List.map_cons]
    rw [ih (fun s' hs' => h s' (List.mem_cons_of_mem _ hs'))]
    congr 1
    have hs := h s (List.mem_cons_self ..)
    clear h ih
    induction s with
    | nil => rfl
    | cons q s ih =>
      simp only [List.map_cons]
      rw [ih (fun q' hq' => hs q' (List.mem_cons_of_mem _ hq'))]
      congr 1
      simp only [rnPair, hs q (List.mem_cons_self ..)]

/-- the general statement: `chk`/`chk'` say which uses are checked before/after; a use that is checked
    only afterwards must be a qualifier (no object) whose name is in the file scope and resolves to
    "no object" in the outer scopes, and then (`Q`) all declarations must have left the file scope -/
theorem bound_rename {fs used : List String} {st : RenSt} (hi : Inv fs used st) {occs : List Occ}
    (hw : SameObj occs) (env0 : List Scope)
    (hG0 : ∀ s ∈ env0, ∀ q ∈ s, GoodPair fs used st occs q)
    (hF0 : ∀ s ∈ env0, ∀ q ∈ s, outNm st q.1 q.2 = q.1)
    (chk chk' : Nat → Bool) (nm nm' : Nat → String) (ob : Nat → Option Nat) (Q : Prop) :
    ∀ (toks : List Tok) (loc : List Scope),
      (∀ i, (Tok.decl i ∈ toks ∨ Tok.use i ∈ toks) →
        GoodPair fs used st occs (nm i, ob i) ∧ nm' i = outNm st (nm i) (ob i)) →
      (∀ i, Tok.use i ∈ toks → chk' i = true → chk i = false →
        Q ∧ ob i = none ∧ nm i ∈ fs ∧ lookupStack (nm i) env0 = some none) →
      (Q → ∀ i, Tok.decl i ∈ toks → nm' i ∉ fs) →
      (∀ s ∈ loc, ∀ q ∈ s, GoodPair fs used st occs q) →
      (Q → ∀ s ∈ loc, ∀ q ∈ s, outNm st q.1 q.2 ∉ fs) →
      bound env0 chk nm ob loc toks = true →
      bound env0 chk' nm' ob (loc.map (fun s => s.map (rnPair st))) toks = true
  | [], _, _, _, _, _, _, _ => by simp [bound]
  | .enter :: ts, loc, hidx, hq, hd, hG, hJ, hb => by
    simp only [bound] at hb ⊢
    refine bound_rename hi hw env0 hG0 hF0 chk chk' nm nm' ob Q ts ([] :: loc)
      (fun i h => hidx i (h.imp (List.mem_cons_of_mem _) (List.mem_cons_of_mem _)))
      (fun i h => hq i (List.mem_cons_of_mem _ h))
      (fun q i h => hd q i (List.mem_cons_of_mem _ h)) ?_ ?_ hb
    · intro s hs
      rcases List.mem_cons.1 hs with rfl | hs
      · intro q hq'; cases hq'
      · exact hG s hs
    · intro q s hs
      rcases List.mem_cons.1 hs with rfl | hs
      · intro q hq'; cases hq'
      · exact hJ q s hs
  | .leave :: ts, [], _, _, _, _, _, hb => by simp [bound] at hb
  | .leave :: ts, s :: loc, hidx, hq, hd, hG, hJ, hb => by
    simp only [bound, List.map_cons] at hb ⊢
    exact bound_rename hi hw env0 hG0 hF0 chk chk' nm nm' ob Q ts loc
      (fun i h => hidx i (h.imp (List.mem_cons_of_mem _) (List.mem_cons_of_mem _)))
      (fun i h => hq i (List.mem_cons_of_mem _ h))
      (fun q i h => hd q i (List.mem_cons_of_mem _ h))
      (fun s' hs' => hG s' (List.mem_cons_of_mem _ hs'))
      (fun q s' hs' => hJ q s' (List.mem_cons_of_mem _ hs')) hb
  | .decl i :: ts, [], _, _, _, _, _, hb => by simp [bound] at hb
  | .decl i :: ts, s :: loc, hidx, hq, hd, hG, hJ, hb => by
    simp only [bound, List.map_cons] at hb ⊢
    have hi' := hidx i (Or.inl (List.mem_cons_self ..))
    have := bound_rename hi hw env0 hG0 hF0 chk chk' nm nm' ob Q ts (((nm i, ob i) :: s) :: loc)
      (fun i h => hidx i (h.imp (List.mem_cons_of_mem _) (List.mem_cons_of_mem _)))
      (fun i h => hq i (List.mem_cons_of_mem _ h))
      (fun q i h => hd q i (List.mem_cons_of_mem _ h)) ?_ ?_ hb
    · simpa only [List.map_cons, rnPair, ← hi'.2] using this
    · intro s' hs'
      rcases List.mem_cons.1 hs' with rfl | hs'
      · intro q hq'
        rcases List.mem_cons.1 hq' with rfl | hq'
        · exact hi'.1
        · exact hG s (List.mem_cons_self ..) q hq'
      · exact hG s' (List.mem_cons_of_mem _ hs')
    · intro q s' hs'
      rcases List.mem_cons.1 hs' with rfl | hs'
      · intro p hp
        rcases List.mem_cons.1 hp with rfl | hp
        · show outNm st (nm i) (ob i) ∉ fs
          rw [← hi'.2]
          exact hd q i (List.mem_cons_self ..)
        · exact hJ q s (List.mem_cons_self ..) p hp
      · exact hJ q s' (List.mem_cons_of_mem _ hs')
  | .use i :: ts, loc, hidx, hq, hd, hG, hJ, hb => by
    simp only [bound, Bool.and_eq_true] at hb ⊢
    refine ⟨?_, bound_rename hi hw env0 hG0 hF0 chk chk' nm nm' ob Q ts loc
      (fun i h => hidx i (h.imp (List.mem_cons_of_mem _) (List.mem_cons_of_mem _)))
      (fun i h => hq i (List.mem_cons_of_mem _ h))
      (fun q i h => hd q i (List.mem_cons_of_mem _ h)) hG hJ hb.2⟩
    have hi' := hidx i (Or.inr (List.mem_cons_self ..))
    cases hc' : chk' i with
    | false => rfl
    | true =>
      simp only [Bool.not_true, Bool.false_or, beq_iff_eq]
      cases hc : chk i with
      | true =>
        have h1 := hb.1
        simp only [hc, Bool.not_true, Bool.false_or, beq_iff_eq] at h1
        have := lookupStack_rn hi hw hi'.1 (loc ++ env0) (by
          intro s hs
          rcases List.mem_append.1 hs with hs | hs
          · exact hG s hs
          · exact hG0 s hs) h1
        rw [List.map_append, map_rn_fixed hF0, ← hi'.2] at this
        exact this
      | false =>
        obtain ⟨hQ, hob, hfs, hl0⟩ := hq i (List.mem_cons_self ..) hc' hc
        have hnm : nm' i = nm i := by rw [hi'.2, hob]; rfl
        rw [hnm, hob, lookupStack_append_none, hl0]
        intro s hs
        obtain ⟨s0, hs0, rfl⟩ := List.mem_map.1 hs
        apply lookupScope_none_of_notin
        intro q hq'
        obtain ⟨q0, hq0, rfl⟩ := List.mem_map.1 hq'
        intro he
        apply hJ hQ s0 hs0 q0 hq0
        simp only [rnPair] at he
        rw [he]
        exact hfs

/-- the `i`-th printed identifier of the node -/
def occAt (occs : List Occ) (i : Nat) : Occ := (vis occs)[i]?.getD default

/-- the scopes around the node: their names are names of the file scope or identifiers of the node, and
    their objects are not renamable local symbols of the node -/
def OuterOK (fs : List String) (occs : List Occ) (env0 : List Scope) : Prop :=
  ∀ s ∈ env0, ∀ p ∈ s, (p.1 ∈ fs ∨ p.1 ∈ usedNames occs) ∧
    (∀ o ∈ occs, p.2 ≠ none → o.obj = p.2 → o.renamable = false)

/-- every token refers to a printed identifier -/
def ToksInRange (occs : List Occ) (toks : List Tok) : Prop :=
  ∀ i ∈ declIdx toks ++ useIdx toks, i < (vis occs).length

instance (fs : List String) (occs : List Occ) (env0 : List Scope) : Decidable (OuterOK fs occs env0) := by
  unfold OuterOK; infer_instance

instance (occs : List Occ) (toks : List Tok) : Decidable (ToksInRange occs toks) := by
  unfold ToksInRange; infer_instance

theorem ToksInRange.lt {occs : List Occ} {toks : List Tok} (h : ToksInRange occs toks) {i : Nat}
    (hi : Tok.decl i ∈ toks ∨ Tok.use i ∈ toks) : i < (vis occs).length :=
  h i (List.mem_append.2 (hi.imp mem_declIdx mem_useIdx))

theorem binding_core {fuel : Nat} {fs : List String} {occs : List Occ} {ns : List String}
    (env0 : List Scope) (toks : List Tok) (chk : Nat → Bool) (Q : Prop)
    (hwf : OccWF occs) (h : renameOccs fuel fs occs = some ns)
    (hidx : ToksInRange occs toks) (henv0 : OuterOK fs occs env0)
    (hq : ∀ i, Tok.use i ∈ toks → chk i = false →
      Q ∧ (occAt occs i).obj = none ∧ (occAt occs i).name ∈ fs ∧
        lookupStack (occAt occs i).name env0 = some none)
    (hd : Q → ∀ i, Tok.decl i ∈ toks → (occAt occs i).renamable = true ∧ (occAt occs i).obj ≠ none)
    (hb : bound env0 chk (fun i => (occAt occs i).name) (fun i => (occAt occs i).obj) [] toks = true) :
    bound env0 (fun _ => true) (fun i => ns[i]?.getD "") (fun i => (occAt occs i).obj) [] toks
      = true := by
  obtain ⟨st', hf, hns⟩ := rename_spec hwf h
  have hat : ∀ i, i < (vis occs).length → (vis occs)[i]? = some (occAt occs i) := by
    intro i hi
    simp [occAt, List.getElem?_eq_getElem hi]
  have hF0 : ∀ s ∈ env0, ∀ q ∈ s, outNm st' q.1 q.2 = q.1 := by
    intro s hs q hq'
    cases hq2 : q.2 with
    | none => rfl
    | some k =>
      cases hg : st'.get k with
      | none => simp [outNm, hg]
      | some m =>
        exfalso
        obtain ⟨o, ho, hk, hr, _⟩ := final_nil_origin hf (k := k) (by rw [hg]; simp)
        have := (henv0 s hs q hq').2 o ho (by rw [hq2]; simp) (by rw [hk, hq2])
        rw [hr] at this
        cases this
  have hG0 : ∀ s ∈ env0, ∀ q ∈ s, GoodPair fs (usedNames occs) st' occs q := by
    intro s hs q hq'
    exact ⟨(henv0 s hs q hq').1, fun hne => absurd (hF0 s hs q hq') hne⟩
  have := bound_rename hf.inv hwf.1 env0 hG0 hF0 chk (fun _ => true)
    (fun i => (occAt occs i).name) (fun i => ns[i]?.getD "") (fun i => (occAt occs i).obj) Q toks []
    ?_ ?_ ?_ ?_ ?_ hb
  · simpa using this
  · intro i hi
    have hv := hat i (hidx.lt hi)
    refine ⟨⟨Or.inr (vis_used hv), fun _ => ⟨_, (vis_mem hv).1, rfl, rfl⟩⟩, ?_⟩
    show ns[i]?.getD "" = _
    rw [spec_get hns hv]
    rfl
  · intro i hi _ hc
    exact hq i hi hc
  · intro hQ i hi
    have hv := hat i (hidx.lt (Or.inl hi))
    obtain ⟨hr, hob⟩ := hd hQ i hi
    have hn : ns[i]? = some (ns[i]?.getD "") := by
      rw [spec_get hns hv]; rfl
    exact rename_clears_filescope hwf h hv hr hob hn
  · intro s hs; cases hs
  · intro _ s hs; cases hs

/-- T7, first form: a program that is well bound with the original names is well bound with the new
    names, in the same outer scopes -/
theorem rename_preserves_binding {fuel : Nat} {fs : List String} {occs : List Occ} {ns : List String}
    (env0 : List Scope) (toks : List Tok)
    (hwf : OccWF occs) (h : renameOccs fuel fs occs = some ns)
    (hidx : ToksInRange occs toks) (henv0 : OuterOK fs occs env0)
    (hb : bound env0 (fun _ => true) (fun i => (occAt occs i).name) (fun i => (occAt occs i).obj) []
      toks = true) :
    bound env0 (fun _ => true) (fun i => ns[i]?.getD "") (fun i => (occAt occs i).obj) [] toks
      = true :=
  binding_core env0 toks (fun _ => true) False hwf h hidx henv0
    (fun _ _ hc => by cases hc) (fun hQ => hQ.elim) hb

/-- T7, second form: the identifiers without object are the package qualifiers the first pass wrote;
    before the second pass they may be captured by a local symbol, so only the identifiers with an
    object are required to resolve correctly; afterwards *all* identifiers resolve correctly -/
theorem rename_no_capture {fuel : Nat} {fs : List String} {occs : List Occ} {ns : List String}
    (env0 : List Scope) (toks : List Tok)
    (hwf : OccWF occs) (h : renameOccs fuel fs occs = some ns)
    (hidx : ToksInRange occs toks) (henv0 : OuterOK fs occs env0)
    (hdecl : ∀ i ∈ declIdx toks, (occAt occs i).renamable = true ∧ (occAt occs i).obj ≠ none)
    (hqual : ∀ i ∈ useIdx toks, (occAt occs i).obj = none →
      (occAt occs i).name ∈ fs ∧ lookupStack (occAt occs i).name env0 = some none)
    (hb : bound env0 (fun i => (occAt occs i).obj.isSome) (fun i => (occAt occs i).name)
      (fun i => (occAt occs i).obj) [] toks = true) :
    bound env0 (fun _ => true) (fun i => ns[i]?.getD "") (fun i => (occAt occs i).obj) [] toks
      = true := by
  refine binding_core env0 toks (fun i => (occAt occs i).obj.isSome) True hwf h hidx henv0 ?_
    (fun _ i hi => hdecl i (mem_declIdx hi)) hb
  intro i hi hc
  have hob : (occAt occs i).obj = none := by
    cases hx : (occAt occs i).obj with
    | none => rfl
    | some k => simp [hx] at hc
  exact ⟨trivial, hob, hqual i (mem_useIdx hi) hob⟩

end WireP.RenameProofs
