import WireP.Lemmas.PipelineDefs
import WireP.Lemmas.PipelineAcyclic
import WireP.Lemmas.AcyclicProofs
import WireP.Lemmas.PMapInv
import WireP.Lemmas.SolveDefs
/-! # Pipeline, part 2 — every map accepted by the front half satisfies the planner's hypotheses -/
namespace WireP.PipelineProofs
open WireV WireP.Pipeline WireP.C05 WireP.C07 WireP.Solve

/-! ## the last definition and the last result -/

theorem split_last {ds : List SetDef} {d : SetDef} (hd : ds.getLast? = some d) :
    ds = ds.dropLast ++ [d] := by
  have hne : ds ≠ [] := by rintro rfl; simp at hd
  have := List.dropLast_concat_getLast hne
  rw [List.getLast?_eq_some_getLast hne] at hd
  simp only [Option.some.injEq] at hd
  rw [hd] at this
  exact this.symm

/-- the last result of `procSets` is the result of the last definition, processed after all others -/
theorem procSets_getLast {order : List Ty} {ds : List SetDef} {d : SetDef}
    (hd : ds.getLast? = some d) :
    (procSets order ds).getLast? =
      some (d.id, procSet order (procSets order ds.dropLast) d) := by
  have hs := split_last hd
  conv => lhs; rw [hs]
  rw [PMapInv.procSets_snoc, List.getLast?_concat]

theorem procSets_last_ok {order : List Ty} {ds : List SetDef} {d : SetDef}
    (hd : ds.getLast? = some d) {id : Nat} {pm : PMap} {sm : SMap}
    (h : (procSets order ds).getLast? = some (id, SetRes.ok pm sm)) :
    id = d.id ∧ procSet order (procSets order ds.dropLast) d = .ok pm sm := by
  rw [procSets_getLast hd] at h
  simp only [Option.some.injEq, Prod.mk.injEq] at h
  exact ⟨h.1.symm, h.2⟩

/-! ## `OrderCovers`: the order lists every key of every accepted map -/

def AllCovered (order : List Ty) (done : List (Nat × SetRes)) : Prop :=
  ∀ r ∈ done, ∀ pm sm, r.2 = SetRes.ok pm sm → ∀ k, (look k pm).isSome → k ∈ order

theorem bpm_covered {order : List Ty} {done : List (Nat × SetRes)} (hdone : AllCovered order done)
    {d : SetDef} (hd : ∀ t ∈ ownSources d, t ∈ order) {impMaps : List (Nat × PMap)}
    (himp : importsOf done d = .ok impMaps) {pm : PMap} {sm : SMap}
    (hb : buildProviderMap d.args impMaps d.provs d.vals d.flds d.bnds = .ok (pm, sm)) :
    ∀ k, (look k pm).isSome → k ∈ order := by
  intro k hk
  have := ((PMapProofs.bpm_ok_lookup hb).pm_keys k).mp hk
  simp only [allSources, baseSources, List.mem_append] at this
  rcases this with ((((h1 | h2) | h3) | h4) | h5) | h6
  · exact hd k (by simp only [ownSources, List.mem_append]; exact Or.inl (Or.inl (Or.inl (Or.inl h1))))
  · obtain ⟨ip, hip, hkip⟩ := List.mem_flatMap.mp h2
    obtain ⟨sm', hm⟩ := PMapInv.importsOf_ok himp ip hip
    exact hdone _ hm ip.2 sm' rfl k ((Solve.look_isSome_iff k ip.2).mpr hkip)
  · exact hd k (by simp only [ownSources, List.mem_append]; exact Or.inl (Or.inl (Or.inl (Or.inr h3))))
  · exact hd k (by simp only [ownSources, List.mem_append]; exact Or.inl (Or.inl (Or.inr h4)))
  · exact hd k (by simp only [ownSources, List.mem_append]; exact Or.inl (Or.inr h5))
  · exact hd k (by simp only [ownSources, List.mem_append]; exact Or.inr h6)

theorem procSet_covered {order : List Ty} {done : List (Nat × SetRes)} (hdone : AllCovered order done)
    {d : SetDef} (hd : ∀ t ∈ ownSources d, t ∈ order) {pm : PMap} {sm : SMap}
    (h : procSet order done d = .ok pm sm) : ∀ k, (look k pm).isSome → k ∈ order := by
  obtain ⟨impMaps, himp, hb⟩ := PMapInv.procSet_ok h
  exact bpm_covered hdone hd himp hb

theorem foldl_allCovered (order : List Ty) (ds : List SetDef) (hds : ∀ d ∈ ds, ∀ t ∈ ownSources d, t ∈ order)
    (done : List (Nat × SetRes)) (hdone : AllCovered order done) :
    AllCovered order (ds.foldl (fun done d => done ++ [(d.id, procSet order done d)]) done) := by
  induction ds generalizing done with
  | nil => exact hdone
  | cons d ds ih =>
    apply ih (fun d' hd' => hds d' (List.mem_cons_of_mem _ hd'))
    intro r hr pm sm e
    rcases List.mem_append.mp hr with hr | hr
    · exact hdone r hr pm sm e
    · simp only [List.mem_singleton] at hr
      subst hr
      exact procSet_covered hdone (hds d List.mem_cons_self) e

/-- under `OrderCovers`, every key of every accepted map is in the order -/
theorem procSets_covered {order : List Ty} {ds : List SetDef} (h : OrderCovers order ds) :
    AllCovered order (procSets order ds) :=
  foldl_allCovered order ds h [] (fun _ hr => by cases hr)

theorem orderCovers_dropLast {order : List Ty} {ds : List SetDef} (h : OrderCovers order ds) :
    OrderCovers order ds.dropLast :=
  fun d hd => h d (List.dropLast_subset ds hd)

theorem last_covered {order : List Ty} {ds : List SetDef} (h : OrderCovers order ds)
    {id : Nat} {pm : PMap} {sm : SMap}
    (hl : (procSets order ds).getLast? = some (id, SetRes.ok pm sm)) :
    ∀ k, (look k pm).isSome → k ∈ order :=
  procSets_covered h _ (List.mem_of_getLast? hl) pm sm rfl

/-! ## what `buildProviderMap` guarantees for the given types -/

theorem bpm_given_nodup {args : Option (List Ty)} {imports : List (Nat × PMap)} {provs : List Prov}
    {vals : List Val} {flds : List Fld} {bnds : List Bnd} {pm : PMap} {sm : SMap}
    (h : buildProviderMap args imports provs vals flds bnds = .ok (pm, sm)) :
    (args.getD []).Nodup := by
  have := PMapProofs.bpm_never_picks args imports provs vals flds bnds h
  simp only [allSources, baseSources, List.append_assoc] at this
  exact (List.nodup_append.mp this).1

theorem bpm_givenArgs {args : Option (List Ty)} {imports : List (Nat × PMap)} {provs : List Prov}
    {vals : List Val} {flds : List Fld} {bnds : List Bnd} {pm : PMap} {sm : SMap}
    (h : buildProviderMap args imports provs vals flds bnds = .ok (pm, sm)) :
    GivenArgs pm (args.getD []) := by
  intro g hg
  obtain ⟨i, hi⟩ := List.getElem?_of_mem hg
  exact ⟨i, ((PMapProofs.bpm_ok_lookup h).arg i g hi).1⟩

/-! ## 2. the standing hypotheses, discharged -/

/-- **2.** the map of the last set, if accepted, satisfies every standing hypothesis of the planner
    theorems, with the last set's arguments as the given types -/
theorem planLast_hyps {order : List Ty} {ds : List SetDef} {d : SetDef} {id : Nat} {pm : PMap}
    {sm : SMap} (hbl : BuildLast ds) (hd : ds.getLast? = some d)
    (hl : (procSets order ds).getLast? = some (id, SetRes.ok pm sm))
    (horder : ∀ k, (look k pm).isSome → k ∈ order) :
    Solve.H pm (d.args.getD []) ∧ Solve.GivenArgs pm (d.args.getD []) ∧ Solve.SrcTotal pm sm := by
  have hmem := List.mem_of_getLast? hl
  obtain ⟨-, hps⟩ := procSets_last_ok hd hl
  obtain ⟨impMaps, -, hb⟩ := PMapInv.procSet_ok hps
  have hcc : Solve.ConcClosed pm := PMapInv.procSets_concClosed hmem
  refine ⟨⟨?_, ?_, hcc, PMapInv.procSets_keys_nodup hmem, bpm_given_nodup hb⟩, bpm_givenArgs hb,
    PMapInv.procSets_srcTotal hmem⟩
  · exact acyclic_of_not_cyclic hcc
      (AcyclicProofs.procSet_ok_acyclic order _ d pm sm horder hps)
  · intro t pt i hlk ht hsrc
    have := PMapInv.procSets_args_given hbl hd hl t pt i hlk hsrc
    rwa [ht] at this

end WireP.PipelineProofs
