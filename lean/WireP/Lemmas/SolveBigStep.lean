import WireP.Lemmas.SolveInv
/-! # The big-step lemma for `svStep` (port of the spike `WS.big`)

For an acyclic map, a frame for `t` on top of the stack is consumed in finitely many steps, after
which `t` is indexed; the frame condition `Ext` says what may have changed meanwhile, `cost`
bounds the number of steps by the weight of the newly indexed keys. -/
namespace WireP.Solve
open WireV

/-- weight of a type: `1 + degree` for a key of the map, `0` otherwise -/
def wt (pm : PMap) (u : Ty) : Nat :=
  match look u pm with
  | some pt => 1 + degOf (u, pt)
  | none => 0

def cost (pm : PMap) (ext : List (Ty × Idx)) : Nat := (ext.map (fun kv => wt pm kv.1)).sum

theorem cost_cons (pm : PMap) (t : Ty) (v : Idx) (ext : List (Ty × Idx)) :
    cost pm ((t, v) :: ext) = wt pm t + cost pm ext := by
  simp [cost]

theorem wt_bind {pm : PMap} {t : Ty} {pt : PT} (hl : look t pm = some pt) (hb : pt.t ≠ t) :
    wt pm t = 2 := by
  simp [wt, hl, degOf, hb]

theorem wt_node {pm : PMap} {t : Ty} {pt : PT} (hl : look t pm = some pt) (hb : pt.t = t) :
    wt pm t = 1 + (depsOf pt.src).length := by
  simp [wt, hl, degOf, hb]

structure Ext (pm : PMap) (t : Ty) (s s' : SvSt) : Prop where
  keep : ∀ u i, look u s.index = some i → look u s'.index = some i
  new : ∀ u, (look u s'.index).isSome → (look u s.index).isSome ∨ Reach pm t u

theorem Ext.rfl' {pm t s s'} (h : s'.index = s.index) : Ext pm t s s' :=
  ⟨fun u i hu => by rw [h]; exact hu, fun u hu => Or.inl (by rw [h] at hu; exact hu)⟩

theorem Ext.trans_sub {pm t c s s1 s2} (hr : Reach pm t c) (h1 : Ext pm t s s1)
    (h2 : Ext pm c s1 s2) : Ext pm t s s2 :=
  ⟨fun u i hu => h2.keep u i (h1.keep u i hu),
   fun u hu => by
     rcases h2.new u hu with h | h
     · exact h1.new u h
     · exact Or.inr (hr.trans h)⟩

/-- adding a fresh key `t` -/
theorem Ext.add {pm t s s'} (v : Idx) (hn : look t s.index = none)
    (h : s'.index = (t, v) :: s.index) : Ext pm t s s' := by
  refine ⟨?_, ?_⟩
  · intro u i hu
    rw [h]; exact look_keep hn hu
  · intro u hu
    rw [h] at hu
    by_cases e : u = t
    · subst e; exact Or.inr (Reach.refl _)
    · rw [look_cons_ne _ _ e] at hu; exact Or.inl hu

theorem isSome_of_keep {s s' : SvSt} (hk : ∀ u i, look u s.index = some i → look u s'.index = some i)
    {u : Ty} (h : (look u s.index).isSome) : (look u s'.index).isSome := by
  obtain ⟨i, hi⟩ := Option.isSome_iff_exists.mp h
  rw [hk u i hi]; rfl

def Goal (pm : PMap) (sm : SMap) (given : List Ty) (out : Ty) (t : Ty) : Prop :=
  ∀ (s : SvSt) (curr : Frame) (rest : List Frame), s.stk = curr :: rest → curr.t = t →
    Inv pm sm given out s →
    ∃ n s', iterO pm sm given.length n s = some s' ∧ s'.stk = rest ∧
      (look t s'.index).isSome ∧ Ext pm t s s' ∧
      (∃ ext, s'.index = ext ++ s.index ∧ n ≤ 1 + cost pm ext) ∧
      ((look t s.index).isSome ∨ (look (resolveTy pm t) s.index).isSome → s'.calls = s.calls) ∧
      (look t s.index = none → look (resolveTy pm t) s.index = none → s'.errs = [] →
        (s'.calls.getLast?).map (·.out) = some (resolveTy pm t))

section
variable {pm : PMap} {sm : SMap} {given : List Ty} {out : Ty}

/-- process a list of dependencies of `t` sitting on top of the stack -/
theorem big_list (hcc : ConcClosed pm) (t : Ty)
    (ih : ∀ a, dep pm t a → Goal pm sm given out a) :
    ∀ (l : List Frame), (∀ f ∈ l, dep pm t f.t) → ∀ (s : SvSt) (rest : List Frame),
      s.stk = l ++ rest → Inv pm sm given out s →
      ∃ n s', iterO pm sm given.length n s = some s' ∧ s'.stk = rest ∧
        (∀ f ∈ l, (look f.t s'.index).isSome) ∧
        (∀ u i, look u s.index = some i → look u s'.index = some i) ∧
        (∀ u, (look u s'.index).isSome → (look u s.index).isSome ∨ ∃ f ∈ l, Reach pm f.t u) ∧
        (∃ ext, s'.index = ext ++ s.index ∧ n ≤ l.length + cost pm ext) := by
  intro l
  induction l with
  | nil =>
    intro _ s rest hs _
    exact ⟨0, s, rfl, by simpa using hs, by simp, fun _ _ h => h, fun _ h => Or.inl h,
      [], by simp, by simp⟩
  | cons a l ihl =>
    intro hl s rest hs hI
    have hda := hl a List.mem_cons_self
    obtain ⟨n1, s1, h1, hs1, ha1, he1, ⟨ext1, hx1, hc1⟩, _, _⟩ :=
      ih a.t hda s a (l ++ rest) (by simpa using hs) rfl hI
    have hI1 := Inv.iterO hcc h1 hI
    obtain ⟨n2, s2, h2, hs2, hl2, hk2, hn2, ⟨ext2, hx2, hc2⟩⟩ :=
      ihl (fun b hb => hl b (List.mem_cons_of_mem _ hb)) s1 rest hs1 hI1
    refine ⟨n1 + n2, s2, iterO_comp h1 h2, hs2, ?_, ?_, ?_, ?_⟩
    · intro b hb
      rcases List.mem_cons.mp hb with rfl | hb'
      · exact isSome_of_keep hk2 ha1
      · exact hl2 b hb'
    · exact fun u i hu => hk2 u i (he1.keep u i hu)
    · intro u hu
      rcases hn2 u hu with h | ⟨b, hb, hbu⟩
      · rcases he1.new u h with h' | h'
        · exact Or.inl h'
        · exact Or.inr ⟨a, List.mem_cons_self, h'⟩
      · exact Or.inr ⟨b, List.mem_cons_of_mem _ hb, hbu⟩
    · refine ⟨ext2 ++ ext1, by rw [hx2, hx1, List.append_assoc], ?_⟩
      have : cost pm (ext2 ++ ext1) = cost pm ext2 + cost pm ext1 := by simp [cost]
      rw [this]
      simp only [List.length_cons]
      omega

theorem abort_witness {idx : List (Ty × Idx)} {deps : List Ty} (hm : missingOf idx deps = [])
    (ha : (argIdx idx deps).any Option.isNone = true) : ∃ a, look a idx = some none := by
  have hall := missing_nil hm
  obtain ⟨x, hx, hxn⟩ := List.any_eq_true.mp ha
  unfold argIdx at hx
  obtain ⟨a, had, hax⟩ := List.mem_map.mp hx
  have hsome := hall a had
  refine ⟨a, ?_⟩
  cases hl : look a idx with
  | none => rw [hl] at hsome; cases hsome
  | some i =>
    rw [hl] at hax; simp at hax; subst hax
    cases i with
    | none => rfl
    | some _ => simp at hxn

theorem mkCall_out {t : Ty} {src : Payload} {args : List Nat} {c : Call}
    (h : mkCall t src args = some c) : c.out = t := by
  cases src with
  | arg i => simp [mkCall] at h
  | prov p => simp [mkCall] at h; subst h; rfl
  | val v => simp [mkCall] at h; subst h; rfl
  | fld f => simp [mkCall] at h; subst h; rfl

/-- the last visit of a concrete key, from a state where every dependency is indexed -/
theorem last_visit {curr : Frame} {rest : List Frame} {pt : PT}
    (hlp : look curr.t pm = some pt) (hb : pt.t = curr.t) (hna : ∀ i, pt.src ≠ .arg i)
    (s1 : SvSt) (hs1 : s1.stk = curr :: rest) (hI1 : Inv pm sm given out s1)
    (hlt1 : look curr.t s1.index = none)
    (hall : ∀ a ∈ depsOf pt.src, (look a s1.index).isSome) :
    ∃ s2 v, Step pm sm given.length s1 s2 ∧ s2.stk = rest ∧
      s2.index = (curr.t, v) :: s1.index ∧
      (s2.errs = [] → (s2.calls.getLast?).map (·.out) = some curr.t) := by
  have hm := missing_of_all hall
  cases ha : (argIdx s1.index (depsOf pt.src)).any Option.isNone with
  | true =>
    refine ⟨_, none, .abort curr rest pt hs1 hlt1 hlp hb hna hm ha, rfl, rfl, ?_⟩
    intro he
    obtain ⟨a, haa⟩ := abort_witness hm ha
    exact absurd he (hI1.abortErr a haa)
  | false =>
    obtain ⟨c, hc⟩ := mkCall_isSome (t := curr.t)
      ((argIdx s1.index (depsOf pt.src)).filterMap id) hna
    refine ⟨_, _, .call curr rest pt c hs1 hlt1 hlp hb hna hm ha hc, rfl, rfl, ?_⟩
    intro _
    simp [mkCall_out hc]

/-- **big-step lemma** -/
theorem big (hH : H pm given) : ∀ t, Goal pm sm given out t := by
  have hcc := hH.concClosed
  intro t
  induction t using hH.acyclic.induction with
  | _ t ih =>
    intro s curr rest hs ht hI
    subst ht
    cases hlt : look curr.t s.index with
    | some i =>
      have hst : Step pm sm given.length s _ := .pop curr rest i hs hlt
      exact ⟨1, _, iterO_step hst, rfl, by simp [hlt], Ext.rfl' rfl, ⟨[], rfl, by simp⟩,
        fun _ => rfl, fun h => by cases h⟩
    | none =>
      cases hlp : look curr.t pm with
      | none =>
        have hst : Step pm sm given.length s _ := .noProv curr rest hs hlt hlp
        refine ⟨1, _, iterO_step hst, rfl, by simp [look], Ext.add none hlt rfl,
          ⟨[(curr.t, none)], rfl, by simp⟩, fun _ => rfl, fun _ _ h => ?_⟩
        simp at h
      | some pt =>
        by_cases hb : pt.t = curr.t
        · -- provider / value / field
          have hna : ∀ i, pt.src ≠ .arg i := by
            intro i hsrc
            have := hH.argsGiven curr.t pt i hlp hb hsrc
            exact hI.not_given hlt this
          have hres : resolveTy pm curr.t = curr.t := by rw [resolveTy_some hlp, hb]
          have hdeps : ∀ a ∈ depsOf pt.src, dep pm curr.t a :=
            fun a ha => ⟨pt, hlp, Or.inr ⟨hb, ha⟩⟩
          have hwt := wt_node hlp hb
          by_cases hm : missingOf s.index (depsOf pt.src) = []
          · obtain ⟨s2, v, hst, hs2, hi2, hl2⟩ :=
              last_visit hlp hb hna s hs hI hlt (missing_nil hm)
            refine ⟨1, s2, iterO_step hst, hs2, by rw [hi2]; simp [look], Ext.add v hlt hi2,
              ⟨[(curr.t, v)], by rw [hi2]; rfl, by simp⟩, ?_, ?_⟩
            · intro h
              rw [hres] at h
              simp [hlt] at h
            · intro _ _ he
              rw [hres]; exact hl2 he
          · -- push the missing ones, come back
            have hst0 : Step pm sm given.length s _ := .depPush curr rest pt hs hlt hlp hb hna hm
            have hI0 := hI.step hcc hst0
            have hmd : ∀ f ∈ (missingOf s.index (depsOf pt.src)).map
                (fun a => (⟨a, curr.t :: curr.up⟩ : Frame)), dep pm curr.t f.t := by
              intro f hf
              obtain ⟨a, ha, rfl⟩ := List.mem_map.mp hf
              exact hdeps a (missing_sub ha).1
            obtain ⟨n1, s1, h1, hs1, hl1, hk1, hn1, ⟨ext1, hx1, hc1⟩⟩ :=
              big_list hcc curr.t (fun a ha => ih a ha) _ hmd _ (curr :: rest) rfl hI0
            have hI1 := Inv.iterO hcc h1 hI0
            have hlt1 : look curr.t s1.index = none := by
              cases hx : look curr.t s1.index with
              | none => rfl
              | some i =>
                rcases hn1 curr.t (by simp [hx]) with h | ⟨f, hf, hft⟩
                · simp [hlt] at h
                · exact absurd hft (no_cycle hH.acyclic curr.t f.t (hmd f hf))
            have hall : ∀ a ∈ depsOf pt.src, (look a s1.index).isSome := by
              intro a ha
              cases hx : look a s.index with
              | none =>
                have hmem : a ∈ missingOf s.index (depsOf pt.src) := by
                  unfold missingOf; exact List.mem_filter.mpr ⟨ha, by simp [hx]⟩
                exact hl1 ⟨a, curr.t :: curr.up⟩ (List.mem_map.mpr ⟨a, hmem, rfl⟩)
              | some i => rw [hk1 a i hx]; rfl
            obtain ⟨s2, v, hst2, hs2, hi2, hl2⟩ := last_visit hlp hb hna s1 hs1 hI1 hlt1 hall
            refine ⟨1 + (n1 + 1), s2, iterO_comp (iterO_step hst0) (iterO_comp h1 (iterO_step hst2)),
              hs2, by rw [hi2]; simp [look], ?_, ?_, ?_, ?_⟩
            · have e01 : Ext pm curr.t s s1 :=
                ⟨fun u j hu => hk1 u j hu,
                 fun u hu => by
                   rcases hn1 u hu with h | ⟨f, hf, hfu⟩
                   · exact Or.inl h
                   · exact Or.inr (Reach.step (hmd f hf) hfu)⟩
              exact Ext.trans_sub (Reach.refl _) e01 (Ext.add v hlt1 hi2)
            · refine ⟨(curr.t, v) :: ext1, by rw [hi2, hx1]; rfl, ?_⟩
              rw [cost_cons, hwt]
              have := missing_length s.index (depsOf pt.src)
              simp only [List.length_map] at hc1
              omega
            · intro h
              rw [hres] at h
              simp [hlt] at h
            · intro _ _ he
              rw [hres]; exact hl2 he
        · -- interface binding
          have hdep : dep pm curr.t pt.t := ⟨pt, hlp, Or.inl ⟨hb, rfl⟩⟩
          have hres : resolveTy pm curr.t = pt.t := resolveTy_some hlp
          have hwt := wt_bind hlp hb
          cases hlc : look pt.t s.index with
          | some i =>
            have hst : Step pm sm given.length s _ := .bindDone curr rest pt i hs hlt hlp hb hlc
            refine ⟨1, _, iterO_step hst, rfl, by simp [look], Ext.add i hlt rfl,
              ⟨[(curr.t, i)], rfl, by simp⟩, fun _ => rfl, fun _ h _ => ?_⟩
            rw [hres, hlc] at h; cases h
          | none =>
            -- push the concrete type, come back
            have hst0 : Step pm sm given.length s _ := .bindPush curr rest pt hs hlt hlp hb hlc
            have hI0 := hI.step hcc hst0
            obtain ⟨n1, s1, h1, hs1, hc1, he1, ⟨ext1, hx1, hcost1⟩, _, hL2⟩ :=
              ih pt.t hdep _ ⟨pt.t, curr.t :: curr.up⟩ (curr :: rest) rfl rfl hI0
            have hI1 := Inv.iterO hcc h1 hI0
            have hlt1 : look curr.t s1.index = none := by
              cases hx : look curr.t s1.index with
              | none => rfl
              | some i =>
                rcases he1.new curr.t (by simp [hx]) with h | h
                · simp [hlt] at h
                · exact absurd h (no_cycle hH.acyclic curr.t pt.t hdep)
            obtain ⟨i, hi⟩ := Option.isSome_iff_exists.mp hc1
            have hst2 : Step pm sm given.length s1 _ :=
              .bindDone curr rest pt i hs1 hlt1 hlp hb hi
            refine ⟨1 + (n1 + 1), _, iterO_comp (iterO_step hst0) (iterO_comp h1 (iterO_step hst2)),
              rfl, by simp [look], ?_, ?_, ?_, ?_⟩
            · have e01 : Ext pm curr.t s s1 :=
                ⟨fun u j hu => he1.keep u j hu,
                 fun u hu => by
                   rcases he1.new u hu with h | h
                   · exact Or.inl h
                   · exact Or.inr (Reach.step hdep h)⟩
              exact Ext.trans_sub (Reach.refl _) e01 (Ext.add i hlt1 rfl)
            · refine ⟨(curr.t, i) :: ext1, by simp only [hx1]; rfl, ?_⟩
              rw [cost_cons, hwt]
              omega
            · intro h
              rw [hres] at h
              simp [hlc] at h
            · intro _ _ he
              rw [hres]
              have := hL2 hlc (by rw [resolveTy_conc hcc hlp]; exact hlc) he
              rw [resolveTy_conc hcc hlp] at this
              exact this

end

end WireP.Solve
