import WireP.Lemmas.PMapLookup
/-! # PMapInv — invariants of accepted provider maps that the planner proofs rely on -/

namespace WireP.PMapInv
open WireV WireP.C05 WireP.PMapProofs

/-- the concrete type of every entry is itself a key, holding the same entry -/
def ConcClosed (pm : PMap) : Prop := ∀ k pt, look k pm = some pt → look pt.t pm = some pt

/-- provider map and source map have the same keys -/
def SrcTotal (pm : PMap) (sm : SMap) : Prop := ∀ k, (look k pm).isSome ↔ (look k sm).isSome

/-- no entry points at an injector argument -/
def NoArgEntry (pm : PMap) : Prop := ∀ kv ∈ pm, ∀ i, kv.2.src ≠ .arg i

theorem srcTotal_of_keys {pm : PMap} {sm : SMap} (h : keys pm = keys sm) : SrcTotal pm sm := by
  intro k
  rw [look_isSome_iff, look_isSome_iff, h]

/-! ### one binding step keeps `ConcClosed` -/

theorem insBnd_concClosed {s : BState} (hi : Inv s) (hc : ConcClosed s.pm) (b : Bnd) :
    ConcClosed (insBnd s b).pm := by
  rcases insBnd_cases s b with ⟨_, e⟩ | ⟨_, _, e⟩ | ⟨hk, c, hp, e⟩ <;> rw [e]
  · exact hc
  · exact hc
  · have hkey : ∀ {t : Ty} {v : PT}, look t s.pm = some v → t ≠ b.iface := by
      intro t v hv e
      apply hk
      rw [← hi, ← e]
      exact look_isSome_iff.mp (by rw [hv]; rfl)
    intro k pt hl
    simp only [look_cons] at hl ⊢
    by_cases hkb : k = b.iface
    · simp only [hkb, if_true, Option.some.injEq] at hl
      subst hl
      have := hc _ _ hp
      simp [hkey this, this]
    · simp only [hkb, if_false] at hl
      have := hc _ _ hl
      simp [hkey this, this]

theorem bL_concClosed {s : BState} (hi : Inv s) (hc : ConcClosed s.pm) (l : List Bnd) :
    ConcClosed (bL s l).pm := by
  induction l generalizing s with
  | nil => exact hc
  | cons b l ih => exact ih (insBnd_inv hi b) (insBnd_concClosed hi hc b)

section
variable {args : Option (List Ty)} {imports : List (Nat × PMap)} {provs : List Prov}
  {vals : List Val} {flds : List Fld} {bnds : List Bnd} {pm : PMap} {sm : SMap}

/-- distinct base sources force every imported map to have distinct keys -/
theorem import_keys_nodup (hnd : (baseSources args imports provs vals flds).Nodup)
    {ip : Nat × PMap} (hip : ip ∈ imports) : (keys ip.2).Nodup := by
  have h1 : (imports.flatMap (fun ip => ip.2.map (·.1))).Nodup := by
    simp only [baseSources, List.nodup_append] at hnd
    exact hnd.1.1.1.2.1
  have := (List.pairwise_flatMap.mp h1).1 ip hip
  exact this

theorem s5_concClosed (himp : ∀ ip ∈ imports, ConcClosed ip.2)
    (h5 : (s5of args imports provs vals flds).errs = []) :
    ConcClosed (s5of args imports provs vals flds).pm := by
  intro k pt hl
  obtain ⟨x, hx, hx1, hx2⟩ := s5_mem_item h5 (look_mem hl)
  simp only at hx1 hx2
  rcases mem_baseItems_cases hx with ⟨i, t, -, rfl⟩ | ⟨ip, hip, kv, hkv, rfl⟩ | ⟨p, -, t, -, rfl⟩ |
      ⟨v, -, rfl⟩ | ⟨f, -, t, -, rfl⟩
  · simp only at hx1 hx2; subst hx1 hx2; exact hl
  · simp only at hx1 hx2
    have hnd := import_keys_nodup ((s5_clean_iff ..).mp h5) hip
    have h1 : look kv.1 ip.2 = some kv.2 := look_of_mem_nodup hnd hkv
    have h2 := look_mem (himp ip hip _ _ h1)
    have := (s5_base_item h5 (mem_base_imp (args := args) (provs := provs) (vals := vals) (flds := flds)
      hip h2)).1
    simp only at this
    rw [← hx2]; exact this
  · simp only at hx1 hx2; subst hx1 hx2; exact hl
  · simp only at hx1 hx2; subst hx1 hx2; exact hl
  · simp only at hx1 hx2; subst hx1 hx2; exact hl

/-- **ConcClosed** is established by `buildProviderMap` from closed imports -/
theorem bpm_concClosed (himp : ∀ ip ∈ imports, ConcClosed ip.2)
    (h : buildProviderMap args imports provs vals flds bnds = .ok (pm, sm)) : ConcClosed pm := by
  obtain ⟨h5, -, hs⟩ := ok_parts h
  have := bL_concClosed (s5_inv args imports provs vals flds) (s5_concClosed himp h5) bnds
  rw [hs] at this
  exact this

theorem bpm_srcTotal (h : buildProviderMap args imports provs vals flds bnds = .ok (pm, sm)) :
    SrcTotal pm sm := by
  obtain ⟨h1, h2⟩ := ok_keys h
  exact srcTotal_of_keys (h1.trans h2.symm)

theorem bpm_keys_nodup (h : buildProviderMap args imports provs vals flds bnds = .ok (pm, sm)) :
    (pm.map (·.1)).Nodup := (bpm_ok_lookup h).pm_nodup

/-- membership form: an argument entry of an accepted map comes from the set's own arguments -/
theorem bpm_args_given_mem (himp : ∀ ip ∈ imports, NoArgEntry ip.2)
    (h : buildProviderMap args imports provs vals flds bnds = .ok (pm, sm)) :
    ∀ kv ∈ pm, ∀ i, kv.2.src = .arg i → kv.2.t ∈ args.getD [] := by
  intro kv hkv i hsrc
  obtain ⟨x, hx, e⟩ := ok_mem_vals h hkv
  rw [← e] at hsrc ⊢
  rcases mem_baseItems_cases hx with ⟨i, t, ht, rfl⟩ | ⟨ip, hip, kv, hkv, rfl⟩ | ⟨p, -, t, -, rfl⟩ |
      ⟨v, -, rfl⟩ | ⟨f, -, t, -, rfl⟩
  · exact List.mem_of_getElem? ht
  · exact absurd hsrc (himp ip hip kv hkv i)
  · cases hsrc
  · cases hsrc
  · cases hsrc

theorem bpm_args_given (himp : ∀ ip ∈ imports, ∀ kv ∈ ip.2, ∀ i, kv.2.src ≠ .arg i)
    (h : buildProviderMap args imports provs vals flds bnds = .ok (pm, sm)) :
    ∀ t pt i, look t pm = some pt → pt.src = .arg i → pt.t ∈ args.getD [] :=
  fun t pt i hl hsrc => bpm_args_given_mem himp h (t, pt) (look_mem hl) i hsrc

theorem bpm_noArgEntry (hargs : args = none) (himp : ∀ ip ∈ imports, NoArgEntry ip.2)
    (h : buildProviderMap args imports provs vals flds bnds = .ok (pm, sm)) : NoArgEntry pm := by
  intro kv hkv i hsrc
  have := bpm_args_given_mem himp h kv hkv i hsrc
  simp [hargs] at this

end

/-! ### lift along `procSets` -/

theorem importsOf_ok {done : List (Nat × SetRes)} {d : SetDef} {impMaps : List (Nat × PMap)}
    (h : importsOf done d = .ok impMaps) : ∀ ip ∈ impMaps, ∃ sm, (ip.1, SetRes.ok ip.2 sm) ∈ done := by
  unfold importsOf at h
  simp only at h
  split at h
  · cases h
  · simp only [Except.ok.injEq] at h
    subst h
    intro ip hip
    obtain ⟨r, hr, hm⟩ := List.mem_filterMap.mp hip
    obtain ⟨i, -, rfl⟩ := List.mem_map.mp hr
    split at hm
    · rename_i id pm sm heq
      simp only [Option.some.injEq] at hm
      subst hm
      exact ⟨sm, List.mem_of_getElem? heq⟩
    · cases hm

theorem procSet_ok {order : List Ty} {done : List (Nat × SetRes)} {d : SetDef} {pm : PMap} {sm : SMap}
    (h : procSet order done d = .ok pm sm) :
    ∃ impMaps, importsOf done d = .ok impMaps ∧
      buildProviderMap d.args impMaps d.provs d.vals d.flds d.bnds = .ok (pm, sm) := by
  unfold procSet at h
  split at h
  · cases h
  · rename_i impMaps himp
    refine ⟨impMaps, himp, ?_⟩
    split at h
    · cases h
    · rename_i pm' sm' hb
      split at h
      · cases h; exact hb
      · cases h

theorem procSets_snoc (order : List Ty) (ds : List SetDef) (d : SetDef) :
    procSets order (ds ++ [d]) = procSets order ds ++ [(d.id, procSet order (procSets order ds) d)] := by
  simp [procSets, List.foldl_append]

/-- what the planner proofs need of every accepted set -/
structure GoodSet (pm : PMap) (sm : SMap) : Prop where
  concClosed : ConcClosed pm
  srcTotal : SrcTotal pm sm
  keysNodup : (pm.map (·.1)).Nodup

def AllGood (done : List (Nat × SetRes)) : Prop :=
  ∀ r ∈ done, ∀ pm sm, r.2 = SetRes.ok pm sm → GoodSet pm sm

theorem procSet_good {order : List Ty} {done : List (Nat × SetRes)} (hd : AllGood done) {d : SetDef}
    {pm : PMap} {sm : SMap} (h : procSet order done d = .ok pm sm) : GoodSet pm sm := by
  obtain ⟨impMaps, himp, hb⟩ := procSet_ok h
  refine ⟨bpm_concClosed ?_ hb, bpm_srcTotal hb, bpm_keys_nodup hb⟩
  intro ip hip
  obtain ⟨sm', hm⟩ := importsOf_ok himp ip hip
  exact (hd _ hm ip.2 sm' rfl).concClosed

theorem foldl_allGood (order : List Ty) (ds : List SetDef) (done : List (Nat × SetRes)) (hd : AllGood done) :
    AllGood (ds.foldl (fun done d => done ++ [(d.id, procSet order done d)]) done) := by
  induction ds generalizing done with
  | nil => exact hd
  | cons d ds ih =>
    apply ih
    intro r hr pm sm e
    rcases List.mem_append.mp hr with hr | hr
    · exact hd r hr pm sm e
    · simp only [List.mem_singleton] at hr
      subst hr
      exact procSet_good hd e

/-- every accepted set of a run of `procSets` is `ConcClosed`, `SrcTotal` and has distinct keys -/
theorem procSets_good (order : List Ty) (ds : List SetDef) : AllGood (procSets order ds) :=
  foldl_allGood order ds [] (fun _ h => by cases h)

theorem procSets_concClosed {order : List Ty} {ds : List SetDef} {id : Nat} {pm : PMap} {sm : SMap}
    (h : (id, SetRes.ok pm sm) ∈ procSets order ds) : ConcClosed pm :=
  (procSets_good order ds _ h pm sm rfl).concClosed

theorem procSets_srcTotal {order : List Ty} {ds : List SetDef} {id : Nat} {pm : PMap} {sm : SMap}
    (h : (id, SetRes.ok pm sm) ∈ procSets order ds) : SrcTotal pm sm :=
  (procSets_good order ds _ h pm sm rfl).srcTotal

theorem procSets_keys_nodup {order : List Ty} {ds : List SetDef} {id : Nat} {pm : PMap} {sm : SMap}
    (h : (id, SetRes.ok pm sm) ∈ procSets order ds) : (pm.map (·.1)).Nodup :=
  (procSets_good order ds _ h pm sm rfl).keysNodup

/-! ### arguments: only the last set (the `wire.Build` call) has them -/

def AllNoArg (done : List (Nat × SetRes)) : Prop :=
  ∀ r ∈ done, ∀ pm sm, r.2 = SetRes.ok pm sm → NoArgEntry pm

theorem foldl_allNoArg (order : List Ty) (ds : List SetDef) (hargs : ∀ d ∈ ds, d.args = none)
    (done : List (Nat × SetRes)) (hd : AllNoArg done) :
    AllNoArg (ds.foldl (fun done d => done ++ [(d.id, procSet order done d)]) done) := by
  induction ds generalizing done with
  | nil => exact hd
  | cons d ds ih =>
    apply ih (fun d' hd' => hargs d' (List.mem_cons_of_mem _ hd'))
    intro r hr pm sm e
    rcases List.mem_append.mp hr with hr | hr
    · exact hd r hr pm sm e
    · simp only [List.mem_singleton] at hr
      subst hr
      obtain ⟨impMaps, himp, hb⟩ := procSet_ok e
      apply bpm_noArgEntry (hargs d (List.mem_cons_self ..)) ?_ hb
      intro ip hip
      obtain ⟨sm', hm⟩ := importsOf_ok himp ip hip
      exact hd _ hm ip.2 sm' rfl

/-- sets without arguments never contain an argument entry -/
theorem procSets_noArgEntry (order : List Ty) (ds : List SetDef) (hargs : ∀ d ∈ ds, d.args = none) :
    AllNoArg (procSets order ds) :=
  foldl_allNoArg order ds hargs [] (fun _ h => by cases h)

/-- the set processed last, after argument-free sets: every argument entry names one of its own arguments -/
theorem procSet_last_args_given {order : List Ty} {ds : List SetDef} (hargs : ∀ d ∈ ds, d.args = none)
    {d : SetDef} {pm : PMap} {sm : SMap} (h : procSet order (procSets order ds) d = .ok pm sm) :
    ∀ t pt i, look t pm = some pt → pt.src = .arg i → pt.t ∈ d.args.getD [] := by
  obtain ⟨impMaps, himp, hb⟩ := procSet_ok h
  apply bpm_args_given ?_ hb
  intro ip hip
  obtain ⟨sm', hm⟩ := importsOf_ok himp ip hip
  exact procSets_noArgEntry order ds hargs _ hm ip.2 sm' rfl

/-- the form `planLast` uses: last definition, last result -/
theorem procSets_args_given {order : List Ty} {ds : List SetDef} (hargs : ∀ d ∈ ds.dropLast, d.args = none)
    {d : SetDef} (hd : ds.getLast? = some d) {id : Nat} {pm : PMap} {sm : SMap}
    (h : (procSets order ds).getLast? = some (id, SetRes.ok pm sm)) :
    ∀ t pt i, look t pm = some pt → pt.src = .arg i → pt.t ∈ d.args.getD [] := by
  have hne : ds ≠ [] := by rintro rfl; simp at hd
  have hsplit : ds = ds.dropLast ++ [d] := by
    have := List.dropLast_concat_getLast hne
    rw [List.getLast?_eq_some_getLast hne] at hd
    simp only [Option.some.injEq] at hd
    rw [hd] at this
    exact this.symm
  rw [hsplit, procSets_snoc, List.getLast?_concat] at h
  simp only [Option.some.injEq, Prod.mk.injEq] at h
  exact procSet_last_args_given hargs h.2

/-! ### decidability and non-vacuity -/

theorem concClosed_iff (pm : PMap) :
    ConcClosed pm ↔ ∀ kv ∈ pm, look kv.1 pm = some kv.2 → look kv.2.t pm = some kv.2 := by
  constructor
  · exact fun h kv _ hl => h _ _ hl
  · exact fun h k pt hl => h (k, pt) (look_mem hl) hl

instance (pm : PMap) : Decidable (ConcClosed pm) := decidable_of_iff _ (concClosed_iff pm).symm

theorem srcTotal_iff (pm : PMap) (sm : SMap) :
    SrcTotal pm sm ↔ (∀ kv ∈ pm, (look kv.1 sm).isSome) ∧ (∀ kv ∈ sm, (look kv.1 pm).isSome) := by
  constructor
  · intro h
    refine ⟨fun kv hkv => (h kv.1).mp ?_, fun kv hkv => (h kv.1).mpr ?_⟩
    · exact look_isSome_iff.mpr (List.mem_map.mpr ⟨kv, hkv, rfl⟩)
    · exact look_isSome_iff.mpr (List.mem_map.mpr ⟨kv, hkv, rfl⟩)
  · rintro ⟨h1, h2⟩ k
    constructor
    · intro hk
      obtain ⟨kv, hkv, rfl⟩ := List.mem_map.mp (look_isSome_iff.mp hk)
      exact h1 kv hkv
    · intro hk
      obtain ⟨kv, hkv, rfl⟩ := List.mem_map.mp (look_isSome_iff.mp hk)
      exact h2 kv hkv

instance (pm : PMap) (sm : SMap) : Decidable (SrcTotal pm sm) := decidable_of_iff _ (srcTotal_iff pm sm).symm

section Examples

/-- a library set: provider `10 ← ()`, provider `30 ← (10)`, binding `60 := 30` -/
def exLib : SetDef :=
  { id := 1, args := none, imports := [], provs := [⟨1, [], [10], false, false, false, false⟩,
      ⟨2, [10], [30], false, false, false, false⟩], vals := [], flds := [], bnds := [⟨4, 60, 30⟩] }
/-- the injector's set: argument `70`, import of the library, provider `80 ← (60, 70)` -/
def exBuild : SetDef :=
  { id := 2, args := some [70], imports := [0], provs := [⟨3, [60, 70], [80], false, false, false, false⟩],
    vals := [], flds := [], bnds := [] }
def exOrder : List Ty := [10, 30, 60, 70, 80]

def exPm : PMap :=
  [(80, ⟨80, .prov ⟨3, [60, 70], [80], false, false, false, false⟩⟩),
   (10, ⟨10, .prov ⟨1, [], [10], false, false, false, false⟩⟩),
   (30, ⟨30, .prov ⟨2, [10], [30], false, false, false, false⟩⟩),
   (60, ⟨30, .prov ⟨2, [10], [30], false, false, false, false⟩⟩), (70, ⟨70, .arg 0⟩)]
def exSm : SMap := [(80, .prov 3), (10, .imp 1), (30, .imp 1), (60, .imp 1), (70, .arg 0)]

-- both sets are accepted; the hypotheses of the lifted invariants are satisfiable
example : (procSets exOrder [exLib, exBuild]).getLast? = some (2, SetRes.ok exPm exSm) := by rfl
example : ∀ d ∈ [exLib, exBuild].dropLast, d.args = none := by decide
example : ConcClosed exPm := by decide
example : SrcTotal exPm exSm := by decide
-- the invariants are not trivially true
example : ¬ ConcClosed [(60, ⟨30, .arg 0⟩)] := by decide
example : ¬ SrcTotal exPm [] := by decide
-- the theorems, applied
example : ∀ t pt i, look t exPm = some pt → pt.src = .arg i → pt.t ∈ [70] :=
  procSets_args_given (order := exOrder) (ds := [exLib, exBuild]) (by decide) rfl (id := 2) (sm := exSm) rfl

end Examples

end WireP.PMapInv
