import WireP.Lemmas.SolveFinal
/-! # `solve` and `verifyArgsUsed` unfolded -/
namespace WireP.Solve
open WireV

/-- what an `.ok` answer of `solve` means for the final machine state -/
theorem solve_ok {pm : PMap} {sm : SMap} {d : SetDef} {impIds : List Nat} {given : List Ty}
    {out : Ty} {cs : List Call} (h : solve pm sm d impIds given out = .ok cs) :
    (final pm sm given out).stk = [] ∧ (final pm sm given out).errs = [] ∧
      verifyArgsUsed d impIds (final pm sm given out).used = [] ∧
      cs = (final pm sm given out).calls := by
  unfold solve at h
  simp only [] at h
  change (if (final pm sm given out).stk ≠ [] then SolveOut.stuck
    else if (final pm sm given out).errs ≠ [] then SolveOut.errs (final pm sm given out).errs
    else if verifyArgsUsed d impIds (final pm sm given out).used ≠ [] then
      SolveOut.errs (verifyArgsUsed d impIds (final pm sm given out).used)
    else SolveOut.ok (final pm sm given out).calls) = SolveOut.ok cs at h
  split at h
  · cases h
  · rename_i h1
    split at h
    · cases h
    · rename_i h2
      split at h
      · cases h
      · rename_i h3
        cases h
        exact ⟨Decidable.not_not.mp h1, Decidable.not_not.mp h2, Decidable.not_not.mp h3, rfl⟩

/-- `solve` answers `.stuck` exactly when the fuel ran out -/
theorem solve_stuck_iff {pm : PMap} {sm : SMap} {d : SetDef} {impIds : List Nat}
    {given : List Ty} {out : Ty} :
    solve pm sm d impIds given out = .stuck ↔ (final pm sm given out).stk ≠ [] := by
  unfold solve
  change (if (final pm sm given out).stk ≠ [] then SolveOut.stuck
    else if (final pm sm given out).errs ≠ [] then SolveOut.errs (final pm sm given out).errs
    else if verifyArgsUsed d impIds (final pm sm given out).used ≠ [] then
      SolveOut.errs (verifyArgsUsed d impIds (final pm sm given out).used)
    else SolveOut.ok (final pm sm given out).calls) = SolveOut.stuck ↔ _
  constructor
  · intro h
    split at h
    · assumption
    · split at h
      · cases h
      · split at h <;> cases h
  · intro h
    rw [if_pos h]

section
variable (d : SetDef) (impIds : List Nat) (used : List SrcId)

theorem unusedSet_mem (i : Nat) :
    Err.unusedSet i ∈ verifyArgsUsed d impIds used ↔ i ∈ impIds ∧ SrcId.imp i ∉ used := by
  simp [verifyArgsUsed]

theorem unusedProv_mem (i : Nat) :
    Err.unusedProv i ∈ verifyArgsUsed d impIds used ↔
      (∃ p ∈ d.provs, p.id = i) ∧ SrcId.prov i ∉ used := by
  simp only [verifyArgsUsed, List.mem_append, List.mem_map, List.mem_filter, decide_eq_true_eq,
    reduceCtorEq, and_false, exists_false, false_or, or_false, Err.unusedProv.injEq]
  constructor
  · rintro ⟨p, ⟨hp, hu⟩, rfl⟩; exact ⟨⟨p, hp, rfl⟩, hu⟩
  · rintro ⟨⟨p, hp, rfl⟩, hu⟩; exact ⟨p, ⟨hp, hu⟩, rfl⟩

theorem unusedVal_mem (i : Nat) :
    Err.unusedVal i ∈ verifyArgsUsed d impIds used ↔
      (∃ v ∈ d.vals, v.id = i) ∧ SrcId.val i ∉ used := by
  simp only [verifyArgsUsed, List.mem_append, List.mem_map, List.mem_filter, decide_eq_true_eq,
    reduceCtorEq, and_false, exists_false, false_or, or_false, Err.unusedVal.injEq]
  constructor
  · rintro ⟨p, ⟨hp, hu⟩, rfl⟩; exact ⟨⟨p, hp, rfl⟩, hu⟩
  · rintro ⟨⟨p, hp, rfl⟩, hu⟩; exact ⟨p, ⟨hp, hu⟩, rfl⟩

theorem unusedBnd_mem (i : Nat) :
    Err.unusedBnd i ∈ verifyArgsUsed d impIds used ↔
      (∃ b ∈ d.bnds, b.id = i) ∧ SrcId.bnd i ∉ used := by
  simp only [verifyArgsUsed, List.mem_append, List.mem_map, List.mem_filter, decide_eq_true_eq,
    reduceCtorEq, and_false, exists_false, false_or, or_false, Err.unusedBnd.injEq]
  constructor
  · rintro ⟨p, ⟨hp, hu⟩, rfl⟩; exact ⟨⟨p, hp, rfl⟩, hu⟩
  · rintro ⟨⟨p, hp, rfl⟩, hu⟩; exact ⟨p, ⟨hp, hu⟩, rfl⟩

theorem unusedFld_mem (i : Nat) :
    Err.unusedFld i ∈ verifyArgsUsed d impIds used ↔
      (∃ f ∈ d.flds, f.id = i) ∧ SrcId.fld i ∉ used := by
  simp only [verifyArgsUsed, List.mem_append, List.mem_map, List.mem_filter, decide_eq_true_eq,
    reduceCtorEq, and_false, exists_false, false_or, or_false, Err.unusedFld.injEq]
  constructor
  · rintro ⟨p, ⟨hp, hu⟩, rfl⟩; exact ⟨⟨p, hp, rfl⟩, hu⟩
  · rintro ⟨⟨p, hp, rfl⟩, hu⟩; exact ⟨p, ⟨hp, hu⟩, rfl⟩

/-- `verifyArgsUsed` reports nothing but unused items -/
theorem verifyArgsUsed_kinds (e : Err) (h : e ∈ verifyArgsUsed d impIds used) :
    (∃ i, e = .unusedSet i) ∨ (∃ i, e = .unusedProv i) ∨ (∃ i, e = .unusedVal i) ∨
      (∃ i, e = .unusedBnd i) ∨ (∃ i, e = .unusedFld i) := by
  simp only [verifyArgsUsed, List.mem_append, List.mem_map] at h
  rcases h with (((⟨i, _, rfl⟩ | ⟨p, _, rfl⟩) | ⟨v, _, rfl⟩) | ⟨b, _, rfl⟩) | ⟨f, _, rfl⟩
  · exact Or.inl ⟨_, rfl⟩
  · exact Or.inr (Or.inl ⟨_, rfl⟩)
  · exact Or.inr (Or.inr (Or.inl ⟨_, rfl⟩))
  · exact Or.inr (Or.inr (Or.inr (Or.inl ⟨_, rfl⟩)))
  · exact Or.inr (Or.inr (Or.inr (Or.inr ⟨_, rfl⟩)))

/-- no unused-item error iff every import, provider, value, binding and field was used -/
theorem verifyArgsUsed_nil_iff :
    verifyArgsUsed d impIds used = [] ↔
      (∀ i ∈ impIds, SrcId.imp i ∈ used) ∧ (∀ p ∈ d.provs, SrcId.prov p.id ∈ used) ∧
      (∀ v ∈ d.vals, SrcId.val v.id ∈ used) ∧ (∀ b ∈ d.bnds, SrcId.bnd b.id ∈ used) ∧
      (∀ f ∈ d.flds, SrcId.fld f.id ∈ used) := by
  simp only [verifyArgsUsed, List.append_eq_nil_iff, List.map_eq_nil_iff, List.filter_eq_nil_iff,
    decide_eq_true_eq, Decidable.not_not, and_assoc]

end

end WireP.Solve
