import WireV.Sets
/-! # PMapBasic — association-list facts, the flat "item list" view of `buildProviderMap` -/
namespace WireP.PMapProofs
open WireV

/-! ## `look` -/

def keys {β : Type} (l : List (Ty × β)) : List Ty := l.map (·.1)

@[simp] theorem keys_nil {β : Type} : keys ([] : List (Ty × β)) = [] := rfl
@[simp] theorem keys_cons {β : Type} (x : Ty × β) (l : List (Ty × β)) : keys (x :: l) = x.1 :: keys l := rfl
@[simp] theorem keys_append {β : Type} (l₁ l₂ : List (Ty × β)) : keys (l₁ ++ l₂) = keys l₁ ++ keys l₂ := by
  simp [keys]

@[simp] theorem look_nil {β : Type} (t : Ty) : look t ([] : List (Ty × β)) = none := rfl
theorem look_cons {β : Type} (t k : Ty) (v : β) (l : List (Ty × β)) :
    look t ((k, v) :: l) = if t = k then some v else look t l := rfl

theorem look_eq_none_iff {β : Type} {t : Ty} {l : List (Ty × β)} : look t l = none ↔ t ∉ keys l := by
  induction l with
  | nil => simp
  | cons x l ih =>
    obtain ⟨k, v⟩ := x
    rw [look_cons]
    by_cases h : t = k
    · simp [h]
    · simp [h, ih]

theorem look_isSome_iff {β : Type} {t : Ty} {l : List (Ty × β)} : (look t l).isSome ↔ t ∈ keys l := by
  cases h : look t l with
  | none => simpa using look_eq_none_iff.mp h
  | some v =>
    simp only [Option.isSome_some, true_iff]
    apply Classical.byContradiction
    intro hn
    rw [look_eq_none_iff.mpr hn] at h
    cases h

theorem look_mem {β : Type} {t : Ty} {v : β} {l : List (Ty × β)} : look t l = some v → (t, v) ∈ l := by
  induction l with
  | nil => simp
  | cons x l ih =>
    obtain ⟨k, w⟩ := x
    rw [look_cons]
    by_cases h : t = k
    · simp only [h, if_true]
      intro hv
      cases hv
      simp
    · simp only [h, if_false]
      intro hv
      exact List.mem_cons_of_mem _ (ih hv)

theorem look_of_mem_nodup {β : Type} {t : Ty} {v : β} {l : List (Ty × β)} :
    (keys l).Nodup → (t, v) ∈ l → look t l = some v := by
  induction l with
  | nil => simp
  | cons x l ih =>
    obtain ⟨k, w⟩ := x
    intro hnd hm
    rw [look_cons]
    simp only [keys_cons, List.nodup_cons] at hnd
    rcases List.mem_cons.mp hm with h | h
    · cases h
      simp
    · have hk : t ∈ keys l := List.mem_map.mpr ⟨(t, v), h, rfl⟩
      have : t ≠ k := fun e => hnd.1 (e ▸ hk)
      simp only [this, if_false]
      exact ih hnd.2 h

theorem look_append {β : Type} (t : Ty) (l₁ l₂ : List (Ty × β)) :
    look t (l₁ ++ l₂) = match look t l₁ with | some v => some v | none => look t l₂ := by
  induction l₁ with
  | nil => simp
  | cons x l ih =>
    obtain ⟨k, w⟩ := x
    simp only [List.cons_append, look_cons]
    by_cases h : t = k
    · simp [h]
    · simp [h, ih]

/-! ## items -/

abbrev Item := Ty × PT × SrcId

def Item.ent (x : Item) : Ty × PT := (x.1, x.2.1)
def Item.sent (x : Item) : Ty × SrcId := (x.1, x.2.2)

def insL (s : BState) (l : List Item) : BState :=
  l.foldl (fun s x => s.ins x.1 x.2.1 x.2.2) s

@[simp] theorem insL_nil (s : BState) : insL s [] = s := rfl
@[simp] theorem insL_cons (s : BState) (x : Item) (l : List Item) :
    insL s (x :: l) = insL (s.ins x.1 x.2.1 x.2.2) l := rfl
theorem insL_append (s : BState) (l₁ l₂ : List Item) : insL s (l₁ ++ l₂) = insL (insL s l₁) l₂ := by
  simp [insL, List.foldl_append]

def argItems (a : List Ty) : List Item :=
  a.zipIdx.map (fun ti => (ti.1, ⟨ti.1, .arg ti.2⟩, .arg ti.2))
def impItems (ip : Nat × PMap) : List Item := ip.2.map (fun kv => (kv.1, kv.2, .imp ip.1))
def provItems (p : Prov) : List Item := p.outs.map (fun t => (t, ⟨t, .prov p⟩, .prov p.id))
def valItem (v : Val) : Item := (v.out, ⟨v.out, .val v⟩, .val v.id)
def fldItems (f : Fld) : List Item := f.outs.map (fun t => (t, ⟨t, .fld f⟩, .fld f.id))

def optArgItems : Option (List Ty) → List Item
  | none => []
  | some a => argItems a

def items1 (args : Option (List Ty)) (imports : List (Nat × PMap)) : List Item :=
  optArgItems args ++ imports.flatMap impItems
def items2 (provs : List Prov) (vals : List Val) (flds : List Fld) : List Item :=
  provs.flatMap provItems ++ vals.map valItem ++ flds.flatMap fldItems
def baseItems (args : Option (List Ty)) (imports : List (Nat × PMap)) (provs : List Prov)
    (vals : List Val) (flds : List Fld) : List Item :=
  items1 args imports ++ items2 provs vals flds

theorem insArgs_eq (s : BState) (a : List Ty) : insArgs s a = insL s (argItems a) := by
  simp [insArgs, insL, argItems, List.foldl_map]
theorem insImport_eq (s : BState) (ip : Nat × PMap) : insImport s ip = insL s (impItems ip) := by
  simp [insImport, insL, impItems, List.foldl_map]
theorem insProv_eq (s : BState) (p : Prov) : insProv s p = insL s (provItems p) := by
  simp [insProv, insL, provItems, List.foldl_map]
theorem insFld_eq (s : BState) (f : Fld) : insFld s f = insL s (fldItems f) := by
  simp [insFld, insL, fldItems, List.foldl_map]

theorem foldl_insImport (s : BState) (imports : List (Nat × PMap)) :
    imports.foldl insImport s = insL s (imports.flatMap impItems) := by
  induction imports generalizing s with
  | nil => rfl
  | cons ip l ih => simp [List.foldl_cons, ih, insImport_eq, insL_append]
theorem foldl_insProv (s : BState) (provs : List Prov) :
    provs.foldl insProv s = insL s (provs.flatMap provItems) := by
  induction provs generalizing s with
  | nil => rfl
  | cons ip l ih => simp [List.foldl_cons, ih, insProv_eq, insL_append]
theorem foldl_insFld (s : BState) (flds : List Fld) :
    flds.foldl insFld s = insL s (flds.flatMap fldItems) := by
  induction flds generalizing s with
  | nil => rfl
  | cons ip l ih => simp [List.foldl_cons, ih, insFld_eq, insL_append]
theorem foldl_insVal (s : BState) (vals : List Val) :
    vals.foldl insVal s = insL s (vals.map valItem) := by
  induction vals generalizing s with
  | nil => rfl
  | cons v l ih => simp [List.foldl_cons, ih, insVal, valItem]

def s2of (args : Option (List Ty)) (imports : List (Nat × PMap)) : BState :=
  insL {} (items1 args imports)
def s5of (args : Option (List Ty)) (imports : List (Nat × PMap)) (provs : List Prov)
    (vals : List Val) (flds : List Fld) : BState :=
  insL {} (baseItems args imports provs vals flds)
def bL (s : BState) (bnds : List Bnd) : BState := bnds.foldl insBnd s
def s6of (args : Option (List Ty)) (imports : List (Nat × PMap)) (provs : List Prov)
    (vals : List Val) (flds : List Fld) (bnds : List Bnd) : BState :=
  bL (s5of args imports provs vals flds) bnds

@[simp] theorem bL_nil (s : BState) : bL s [] = s := rfl
@[simp] theorem bL_cons (s : BState) (b : Bnd) (l : List Bnd) : bL s (b :: l) = bL (insBnd s b) l := rfl

theorem s5of_eq (args : Option (List Ty)) (imports : List (Nat × PMap)) (provs : List Prov)
    (vals : List Val) (flds : List Fld) :
    s5of args imports provs vals flds = insL (s2of args imports) (items2 provs vals flds) := by
  simp [s5of, s2of, baseItems, insL_append]

/-- `buildProviderMap` in terms of the three checkpoints -/
theorem bpm_eq (args : Option (List Ty)) (imports : List (Nat × PMap)) (provs : List Prov)
    (vals : List Val) (flds : List Fld) (bnds : List Bnd) :
    buildProviderMap args imports provs vals flds bnds =
      if (s2of args imports).errs ≠ [] then .error (s2of args imports).errs else
      if (s5of args imports provs vals flds).errs ≠ [] then .error (s5of args imports provs vals flds).errs else
      if (s6of args imports provs vals flds bnds).errs ≠ [] then
        .error (s6of args imports provs vals flds bnds).errs else
      .ok ((s6of args imports provs vals flds bnds).pm, (s6of args imports provs vals flds bnds).sm) := by
  unfold buildProviderMap
  cases args with
  | none =>
    simp only [foldl_insFld, foldl_insVal, foldl_insProv, foldl_insImport, ← insL_append, s6of, s5of, s2of,
      bL, baseItems, items1, items2, optArgItems, List.nil_append, List.append_assoc]
  | some a =>
    simp only [foldl_insFld, foldl_insVal, foldl_insProv, foldl_insImport, insArgs_eq, ← insL_append, s6of,
      s5of, s2of, bL, baseItems, items1, items2, optArgItems, List.append_assoc]

end WireP.PMapProofs
