import WireP.Lemmas.SolveFinal
/-! # Every call's result variable is used (Go: no "declared and not used")

`Live pm given out s` is a second invariant of the planner machine, carried next to `Inv`:

* `idxLt`  : an index entry names an existing variable;
* `argIdx` : argument `j` of a call *is* the index entry of dependency `j` (and an earlier variable);
* `callOf` : a concrete, non-given, indexed key was indexed by its own call;
* `why`    : every non-given type the machine has touched (indexed or on the stack) is the request
  itself or a direct dependency of another such type — the machine only ever visits a type because
  an un-indexed frame below it asked for it.

At the end the stack is empty, so the "asker" of a call's output type is indexed; without errors it
is indexed by its own call (or, for a binding, shares the variable and is asked for in turn), and
that call's argument list contains the variable. -/
namespace WireP.Solve
open WireV

/-- a non-given type the machine has touched: indexed, or waiting on the stack -/
def Known (given : List Ty) (s : SvSt) (x : Ty) : Prop :=
  x ∉ given ∧ ((look x s.index).isSome ∨ ∃ f ∈ s.stk, f.t = x)

structure Live (pm : PMap) (given : List Ty) (out : Ty) (s : SvSt) : Prop where
  idxLt : ∀ u n, look u s.index = some (some n) → n < given.length + s.calls.length
  argIdx : ∀ (q : Nat) c pt, s.calls[q]? = some c → look c.out pm = some pt →
    ∀ (j : Nat) a d, c.args[j]? = some a → (depsOf pt.src)[j]? = some d →
      a < given.length + q ∧ look d s.index = some (some a)
  callOf : ∀ u n pt, look u s.index = some (some n) → u ∉ given → look u pm = some pt → pt.t = u →
    given.length ≤ n ∧ ∃ c, s.calls[n - given.length]? = some c ∧ c.out = u
  why : ∀ x, Known given s x → x = out ∨ ∃ w, dep pm w x ∧ Known given s w

/-! ## the initial state -/

theorem Live.init (pm : PMap) (given : List Ty) (out : Ty) : Live pm given out (svInit given out) where
  idxLt := by
    intro u n h
    obtain ⟨i, hi, hgi⟩ := init_mem (look_mem h)
    cases hi
    have := (List.getElem?_eq_some_iff.mp hgi).1
    omega
  argIdx := by intro q c pt h; simp [svInit] at h
  callOf := by
    intro u n pt h hng
    exact absurd (init_isSome (by rw [h]; rfl)) hng
  why := by
    intro x ⟨hng, hx⟩
    rcases hx with hx | ⟨f, hf, hfx⟩
    · exact absurd (init_isSome hx) hng
    · simp [svInit] at hf
      subst hf
      exact Or.inl hfx.symm

/-! ## preservation of the index / call facts (through `Eff`) -/

section
variable {pm : PMap} {sm : SMap} {given : List Ty} {out : Ty} {s s' : SvSt}

theorem getElem?_zero_of_singleton {α : Type} {n : Nat} {c x : α} (h : [c][n]? = some x) :
    n = 0 ∧ x = c := by
  cases n with
  | zero => simp at h; exact ⟨rfl, h.symm⟩
  | succ n => simp at h

theorem pres_idxLt (hL : Live pm given out s) (he : Eff pm sm given.length s s') :
    ∀ u n, look u s'.index = some (some n) → n < given.length + s'.calls.length := by
  intro u n hu
  obtain ⟨l, hl⟩ := he.calls_mono
  have hold : ∀ u n, look u s.index = some (some n) → n < given.length + s'.calls.length := by
    intro u n h
    have := hL.idxLt u n h
    rw [hl, List.length_append]; omega
  cases he with
  | quiet hi hc he hu' hk => rw [hi] at hu; exact hold u n hu
  | add curr v hin hfresh hi hk hdeps hfl =>
    rw [hi] at hu
    by_cases e : u = curr.t
    · subst e
      rw [look_cons_self] at hu
      cases hu
      cases hfl with
      | noProv _ hv _ _ _ => cases hv
      | bind pt _ _ hlc _ _ _ => exact hold _ _ hlc
      | abort pt a _ _ hv _ _ _ _ => cases hv
      | call pt c _ _ hv hc _ _ _ _ _ _ =>
        cases hv
        rw [hc, List.length_append]; simp
    · rw [look_cons_ne _ _ e] at hu; exact hold u n hu

theorem pres_argIdx (hL : Live pm given out s) (he : Eff pm sm given.length s s') :
    ∀ (q : Nat) c pt, s'.calls[q]? = some c → look c.out pm = some pt →
      ∀ (j : Nat) a d, c.args[j]? = some a → (depsOf pt.src)[j]? = some d →
        a < given.length + q ∧ look d s'.index = some (some a) := by
  intro q c pt hqc hlp j a d haj hdj
  cases he with
  | quiet hi hc he hu hk =>
    rw [hc] at hqc; rw [hi]; exact hL.argIdx q c pt hqc hlp j a d haj hdj
  | add curr v hin hfresh hi hk hdeps hfl =>
    rw [hi]
    have hold : s.calls[q]? = some c →
        a < given.length + q ∧ look d ((curr.t, v) :: s.index) = some (some a) := by
      intro h
      have := hL.argIdx q c pt h hlp j a d haj hdj
      exact ⟨this.1, look_keep hfresh this.2⟩
    cases hfl with
    | noProv _ _ _ hc _ => rw [hc] at hqc; exact hold hqc
    | bind pt' _ _ _ _ hc _ => rw [hc] at hqc; exact hold hqc
    | abort pt' a' _ _ _ _ _ hc _ => rw [hc] at hqc; exact hold hqc
    | call pt' c' hlp' hb hv hc _ hout _ hargs _ _ =>
      rw [hc] at hqc
      by_cases hq : q < s.calls.length
      · rw [List.getElem?_append_left hq] at hqc
        exact hold hqc
      · have hq' : s.calls.length ≤ q := by omega
        rw [List.getElem?_append_right hq'] at hqc
        obtain ⟨h0, hcc⟩ := getElem?_zero_of_singleton hqc
        subst hcc
        rw [hout, hlp'] at hlp
        cases hlp
        have h1 := hargs j a d haj hdj
        have h2 := hL.idxLt d a h1
        exact ⟨by omega, look_keep hfresh h1⟩

theorem pres_callOf (hL : Live pm given out s) (he : Eff pm sm given.length s s') :
    ∀ u n pt, look u s'.index = some (some n) → u ∉ given → look u pm = some pt → pt.t = u →
      given.length ≤ n ∧ ∃ c, s'.calls[n - given.length]? = some c ∧ c.out = u := by
  intro u n pt hu hng hlp hb
  obtain ⟨l, hl⟩ := he.calls_mono
  have hold : look u s.index = some (some n) →
      given.length ≤ n ∧ ∃ c, s'.calls[n - given.length]? = some c ∧ c.out = u := by
    intro h
    obtain ⟨h1, c, hc, hco⟩ := hL.callOf u n pt h hng hlp hb
    refine ⟨h1, c, ?_, hco⟩
    rw [hl, List.getElem?_append_left (List.getElem?_eq_some_iff.mp hc).1]
    exact hc
  cases he with
  | quiet hi hc he hu' hk => rw [hi] at hu; exact hold hu
  | add curr v hin hfresh hi hk hdeps hfl =>
    rw [hi] at hu
    by_cases e : u = curr.t
    · subst e
      rw [look_cons_self] at hu
      cases hu
      cases hfl with
      | noProv _ hv _ _ _ => cases hv
      | bind pt' hlp' hb' _ _ _ _ => rw [hlp] at hlp'; cases hlp'; exact absurd hb hb'
      | abort pt' a _ _ hv _ _ _ _ => cases hv
      | call pt' c _ _ hv hc _ hout _ _ _ _ =>
        cases hv
        refine ⟨by omega, c, ?_, hout⟩
        rw [hc]
        have : given.length + s.calls.length - given.length = s.calls.length := by omega
        rw [this, List.getElem?_append_right (Nat.le_refl _)]
        simp
    · rw [look_cons_ne _ _ e] at hu; exact hold hu

/-! ## preservation of `why` (through `Step`: a frame leaves the stack only when its type is
indexed, or is an injector argument, i.e. given) -/

/-- the four facts about one step from which `why` is transported -/
theorem why_transport
    (hkeep : ∀ u, (look u s.index).isSome → (look u s'.index).isSome)
    (hgone : ∀ f ∈ s.stk, f ∈ s'.stk ∨ (look f.t s'.index).isSome ∨ f.t ∈ given)
    (hnewidx : ∀ u, (look u s'.index).isSome → (look u s.index).isSome ∨ ∃ f ∈ s.stk, f.t = u)
    (hnewstk : ∀ f ∈ s'.stk, f ∈ s.stk ∨ ∃ curr ∈ s.stk, curr.t ∉ given ∧ dep pm curr.t f.t)
    (hw : ∀ x, Known given s x → x = out ∨ ∃ w, dep pm w x ∧ Known given s w) :
    ∀ x, Known given s' x → x = out ∨ ∃ w, dep pm w x ∧ Known given s' w := by
  have hmono : ∀ x, Known given s x → Known given s' x := by
    intro x ⟨hng, hx⟩
    refine ⟨hng, ?_⟩
    rcases hx with hx | ⟨f, hf, hfx⟩
    · exact Or.inl (hkeep x hx)
    · rcases hgone f hf with h | h | h
      · exact Or.inr ⟨f, h, hfx⟩
      · exact Or.inl (by rw [← hfx]; exact h)
      · exact absurd (by rw [← hfx]; exact h) hng
  have hnew : ∀ x, Known given s' x → Known given s x ∨ ∃ w, dep pm w x ∧ Known given s w := by
    intro x ⟨hng, hx⟩
    rcases hx with hx | ⟨f, hf, hfx⟩
    · exact Or.inl ⟨hng, (hnewidx x hx)⟩
    · rcases hnewstk f hf with h | ⟨curr, hc, hcg, hd⟩
      · exact Or.inl ⟨hng, Or.inr ⟨f, h, hfx⟩⟩
      · exact Or.inr ⟨curr.t, by rw [← hfx]; exact hd, hcg, Or.inr ⟨curr, hc, rfl⟩⟩
  intro x hx
  rcases hnew x hx with h | ⟨w, hd, hkw⟩
  · rcases hw x h with h' | ⟨w, hd, hkw⟩
    · exact Or.inl h'
    · exact Or.inr ⟨w, hd, hmono w hkw⟩
  · exact Or.inr ⟨w, hd, hmono w hkw⟩

/-- a step that indexes the type on top of the stack and drops the frame -/
theorem why_add {curr : Frame} {rest : List Frame} {v : Idx}
    (hs : s.stk = curr :: rest) (hli : look curr.t s.index = none)
    (hi : s'.index = (curr.t, v) :: s.index) (hk : s'.stk = rest)
    (hw : ∀ x, Known given s x → x = out ∨ ∃ w, dep pm w x ∧ Known given s w) :
    ∀ x, Known given s' x → x = out ∨ ∃ w, dep pm w x ∧ Known given s' w := by
  refine why_transport ?_ ?_ ?_ ?_ hw
  · intro u hu; rw [hi]; exact isSome_keep hli hu
  · intro f hf
    rw [hs] at hf
    rcases List.mem_cons.mp hf with e | hf'
    · subst e; exact Or.inr (Or.inl (by rw [hi, look_cons_self]; rfl))
    · exact Or.inl (by rw [hk]; exact hf')
  · intro u hu
    rw [hi] at hu
    by_cases e : u = curr.t
    · exact Or.inr ⟨curr, by rw [hs]; exact List.mem_cons_self, e.symm⟩
    · rw [look_cons_ne _ _ e] at hu; exact Or.inl hu
  · intro f hf
    exact Or.inl (by rw [hs]; rw [hk] at hf; exact List.mem_cons_of_mem _ hf)

/-- a step that pushes frames for direct dependencies of the (un-indexed) top frame -/
theorem why_push (hI : Inv pm sm given out s) {curr : Frame} {rest l : List Frame}
    (hs : s.stk = curr :: rest) (hli : look curr.t s.index = none)
    (hi : s'.index = s.index) (hk : s'.stk = l ++ curr :: rest)
    (hl : ∀ f ∈ l, dep pm curr.t f.t)
    (hw : ∀ x, Known given s x → x = out ∨ ∃ w, dep pm w x ∧ Known given s w) :
    ∀ x, Known given s' x → x = out ∨ ∃ w, dep pm w x ∧ Known given s' w := by
  refine why_transport ?_ ?_ ?_ ?_ hw
  · intro u hu; rw [hi]; exact hu
  · intro f hf
    exact Or.inl (by rw [hk]; rw [hs] at hf; exact List.mem_append_right _ hf)
  · intro u hu; rw [hi] at hu; exact Or.inl hu
  · intro f hf
    rw [hk] at hf
    rcases List.mem_append.mp hf with h | h
    · exact Or.inr ⟨curr, by rw [hs]; exact List.mem_cons_self, hI.not_given hli, hl f h⟩
    · exact Or.inl (by rw [hs]; exact h)

/-- a step that only drops the top frame, whose type is indexed or given -/
theorem why_drop {curr : Frame} {rest : List Frame}
    (hs : s.stk = curr :: rest) (hc : (look curr.t s.index).isSome ∨ curr.t ∈ given)
    (hi : s'.index = s.index) (hk : s'.stk = rest)
    (hw : ∀ x, Known given s x → x = out ∨ ∃ w, dep pm w x ∧ Known given s w) :
    ∀ x, Known given s' x → x = out ∨ ∃ w, dep pm w x ∧ Known given s' w := by
  refine why_transport ?_ ?_ ?_ ?_ hw
  · intro u hu; rw [hi]; exact hu
  · intro f hf
    rw [hs] at hf
    rcases List.mem_cons.mp hf with e | hf'
    · subst e
      rcases hc with h | h
      · exact Or.inr (Or.inl (by rw [hi]; exact h))
      · exact Or.inr (Or.inr h)
    · exact Or.inl (by rw [hk]; exact hf')
  · intro u hu; rw [hi] at hu; exact Or.inl hu
  · intro f hf
    exact Or.inl (by rw [hs]; rw [hk] at hf; exact List.mem_cons_of_mem _ hf)

theorem pres_why (hag : ArgsGiven pm given) (hI : Inv pm sm given out s)
    (hL : Live pm given out s) (h : Step pm sm given.length s s') :
    ∀ x, Known given s' x → x = out ∨ ∃ w, dep pm w x ∧ Known given s' w := by
  cases h with
  | pop curr rest i hs hli => exact why_drop hs (Or.inl (by rw [hli]; rfl)) rfl rfl hL.why
  | noProv curr rest hs hli hlp => exact why_add hs hli rfl rfl hL.why
  | bindPush curr rest pt hs hli hlp hb hlc =>
    refine why_push (l := [⟨pt.t, curr.t :: curr.up⟩]) hI hs hli rfl rfl ?_ hL.why
    intro f hf
    simp only [List.mem_singleton] at hf
    subst hf
    exact ⟨pt, hlp, Or.inl ⟨hb, rfl⟩⟩
  | bindDone curr rest pt i hs hli hlp hb hlc => exact why_add hs hli rfl rfl hL.why
  | argPop curr rest pt i hs hli hlp hb hsrc =>
    exact why_drop hs (Or.inr (hag curr.t pt i hlp hb hsrc)) rfl rfl hL.why
  | depPush curr rest pt hs hli hlp hb hna hm =>
    refine why_push hI hs hli rfl rfl ?_ hL.why
    intro f hf
    obtain ⟨a, ha, rfl⟩ := List.mem_map.mp hf
    exact ⟨pt, hlp, Or.inr ⟨hb, (missing_sub ha).1⟩⟩
  | abort curr rest pt hs hli hlp hb hna hm ha => exact why_add hs hli rfl rfl hL.why
  | call curr rest pt c hs hli hlp hb hna hm ha hc => exact why_add hs hli rfl rfl hL.why

theorem Live.step (hag : ArgsGiven pm given) (hI : Inv pm sm given out s)
    (hL : Live pm given out s) (h : Step pm sm given.length s s') : Live pm given out s' :=
  have he := h.eff
  { idxLt := pres_idxLt hL he
    argIdx := pres_argIdx hL he
    callOf := pres_callOf hL he
    why := pres_why hag hI hL h }

end

/-- both invariants hold in the state `solve` inspects, whatever the fuel -/
theorem Live.final {pm : PMap} (sm : SMap) {given : List Ty} (hH : H pm given) (out : Ty) :
    Inv pm sm given out (final pm sm given out) ∧ Live pm given out (final pm sm given out) :=
  svIter_induct (fun s => Inv pm sm given out s ∧ Live pm given out s)
    (fun _ _ hi hs => ⟨hi.1.step hH.concClosed hs, hi.2.step hH.argsGiven hi.1 hs⟩) _ _
    ⟨Inv.init pm sm hH.givenNodup out, Live.init pm given out⟩

/-! ## the end of the run -/

section
variable {pm : PMap} {sm : SMap} {given : List Ty} {out : Ty} {s : SvSt}

/-- at the end, without errors: a touched concrete key `w` has a call, and that call's argument
    list contains the variable of each of its dependencies -/
theorem used_by_parent (hI : Inv pm sm given out s) (hL : Live pm given out s)
    (he : s.errs = []) (hs : s.stk = []) {w d : Ty} {pt : PT} (hw : Known given s w)
    (hlp : look w pm = some pt) (hb : pt.t = w) (hd : d ∈ depsOf pt.src) {m : Nat}
    (hdm : look d s.index = some (some m)) :
    ∃ (q : Nat) (c' : Call), s.calls[q]? = some c' ∧ m ∈ c'.args ∧ m < given.length + q := by
  obtain ⟨hng, hwi⟩ := hw
  have hwi' : (look w s.index).isSome := by
    rcases hwi with h | ⟨f, hf, _⟩
    · exact h
    · rw [hs] at hf; cases hf
  obtain ⟨i, hi⟩ := Option.isSome_iff_exists.mp hwi'
  cases i with
  | none => exact absurd he (hI.abortErr w hi)
  | some n =>
    obtain ⟨hn, c', hc', hout⟩ := hL.callOf w n pt hi hng hlp hb
    obtain ⟨pt', hlp', _, _, hlen⟩ := hI.callPay c' (List.mem_of_getElem? hc')
    rw [hout, hlp] at hlp'
    cases hlp'
    obtain ⟨j, hj, hjd⟩ := List.mem_iff_getElem.mp hd
    have hj' : j < c'.args.length := by omega
    have hlp'' : look c'.out pm = some pt := by rw [hout]; exact hlp
    obtain ⟨h1, h2⟩ := hL.argIdx (n - given.length) c' pt hc' hlp'' j c'.args[j] d
      (List.getElem?_eq_getElem hj') (by rw [← hjd]; exact List.getElem?_eq_getElem hj)
    rw [hdm] at h2
    simp only [Option.some.injEq] at h2
    refine ⟨n - given.length, c', hc', ?_, ?_⟩
    · rw [h2]; exact List.getElem_mem hj'
    · rw [h2]; exact h1

/-- **every call's result variable is used**: it is an argument of a later call, or it is the
    variable the injector returns -/
theorem every_call_used (hH : H pm given) (he : (final pm sm given out).errs = []) :
    ∀ (p : Nat) (c : Call), (final pm sm given out).calls[p]? = some c →
      (∃ (q : Nat) (c' : Call), p < q ∧ (final pm sm given out).calls[q]? = some c' ∧
        (given.length + p) ∈ c'.args) ∨
      look out (final pm sm given out).index = some (some (given.length + p)) := by
  intro p c hpc
  obtain ⟨hI, hL⟩ := Live.final sm hH out
  have hs : (final pm sm given out).stk = [] := solve_terminates hH
  have hidx := hI.callIdx p c hpc
  have hng := call_not_given hI hpc
  have hk : Known given (final pm sm given out) c.out := ⟨hng, Or.inl (by rw [hidx]; rfl)⟩
  -- a consumer that is a concrete key: its call takes the variable
  have consumer : ∀ {w d : Ty} {pt : PT}, Known given (final pm sm given out) w →
      look w pm = some pt → pt.t = w → d ∈ depsOf pt.src →
      look d (final pm sm given out).index = some (some (given.length + p)) →
      ∃ (q : Nat) (c' : Call), p < q ∧ (final pm sm given out).calls[q]? = some c' ∧
        (given.length + p) ∈ c'.args := by
    intro w d pt hw hlp hb hd hdm
    obtain ⟨q, c', hc', hm, hlt⟩ := used_by_parent hI hL he hs hw hlp hb hd hdm
    exact ⟨q, c', by omega, hc', hm⟩
  rcases hL.why c.out hk with e | ⟨w, ⟨pt, hlp, hd⟩, hw⟩
  · rw [e] at hidx; exact Or.inr hidx
  · rcases hd with ⟨hb, ht⟩ | ⟨hb, hmem⟩
    · -- `w` is an interface bound to `c.out`: it shares the variable, and is asked for in turn
      have hwi : (look w (final pm sm given out).index).isSome := by
        rcases hw.2 with h | ⟨f, hf, _⟩
        · exact h
        · rw [hs] at hf; cases hf
      have hwidx : look w (final pm sm given out).index = some (some (given.length + p)) := by
        rw [hI.bindIdx w pt hlp hb hw.1 hwi, ← ht]; exact hidx
      rcases hL.why w hw with e | ⟨w', ⟨pt', hlp', hd'⟩, hw'⟩
      · rw [e] at hwidx; exact Or.inr hwidx
      · rcases hd' with ⟨hb', hwt⟩ | ⟨hb', hmem'⟩
        · -- a binding to a binding key is excluded by `ConcClosed`
          have := hH.concClosed w' pt' hlp'
          rw [← hwt, hlp] at this
          cases this
          exact absurd hwt.symm hb
        · exact Or.inl (consumer hw' hlp' hb' hmem' hwidx)
    · exact Or.inl (consumer hw hlp hb hmem hidx)

/-- the variable the injector returns is the last call's (if there is any call) -/
theorem last_call_returned (hH : H pm given) (he : (final pm sm given out).errs = [])
    (hc : (final pm sm given out).calls ≠ []) :
    look out (final pm sm given out).index =
      some (some (given.length + ((final pm sm given out).calls.length - 1))) := by
  have hpos : 0 < (final pm sm given out).calls.length := List.length_pos_iff.mpr hc
  have hlt : (final pm sm given out).calls.length - 1 < (final pm sm given out).calls.length := by
    omega
  rcases every_call_used hH he _ _ (List.getElem?_eq_getElem hlt) with ⟨q, c', hq, hc', _⟩ | h
  · have := (List.getElem?_eq_some_iff.mp hc').1
    omega
  · exact h

end

end WireP.Solve
