import WireP.Lemmas.CmdProofsDiff
/-! # Lemmas for C18 — histories of commands (`stepH`, `runH`) -/

namespace WireP.C18
open WireV

/-- analysis of variant `v` succeeds, and every package has non-empty Wire output, at distinct paths -/
def GoodVariant (A : Nat → LoadRes) (v : Nat) : Prop :=
  ∃ outs, A v = .ok outs ∧ outs ≠ [] ∧ (outs.map (·.outPath)).Nodup ∧
    ∀ o ∈ outs, o.errs = false ∧ o.content ≠ 0

/-- the output paths (`<prefix>wire_gen.go` of each package) of an analysis result -/
def outPaths : LoadRes → List Nat
  | .loadErr => []
  | .ok outs => outs.map (·.outPath)

/-- what `wire gen` leaves in an otherwise empty file system (a fresh checkout has no generated file) -/
def freshFS (A : Nat → LoadRes) (v : Nat) : FS := (genExec true (A v) (fun _ => true) []).1

end WireP.C18

namespace WireP.CmdProofs
open WireV WireP.C18

theorem runH_nil (A : Nat → LoadRes) (hs : Nat) (s : HState) : runH A hs s [] = (s, []) := rfl

theorem runH_cons (A : Nat → LoadRes) (hs : Nat) (s : HState) (op : Op) (ops : List Op) :
    runH A hs s (op :: ops) =
      ((runH A hs (stepH A hs s op).1 ops).1, (stepH A hs s op).2 :: (runH A hs (stepH A hs s op).1 ops).2) := rfl

theorem runH_append (A : Nat → LoadRes) (hs : Nat) : ∀ (ops ops' : List Op) (s : HState),
    runH A hs s (ops ++ ops') =
      ((runH A hs (runH A hs s ops).1 ops').1, (runH A hs s ops).2 ++ (runH A hs (runH A hs s ops).1 ops').2)
  | [], ops', s => by simp [runH_nil]
  | op :: ops, ops', s => by
    rw [List.cons_append, runH_cons, runH_cons, runH_append A hs ops ops']
    simp

theorem runH_single (A : Nat → LoadRes) (hs : Nat) (s : HState) (op : Op) :
    runH A hs s [op] = ((stepH A hs s op).1, [(stepH A hs s op).2]) := rfl

theorem runH_snoc (A : Nat → LoadRes) (hs : Nat) (s : HState) (ops : List Op) (op : Op) :
    runH A hs s (ops ++ [op]) =
      ((stepH A hs (runH A hs s ops).1 op).1, (runH A hs s ops).2 ++ [(stepH A hs (runH A hs s ops).1 op).2]) := by
  rw [runH_append, runH_single]

theorem stepH_gen (A : Nat → LoadRes) (hs : Nat) (s : HState) :
    stepH A hs s .gen =
      ({ s with fs := (genExec true (A s.variant) (fun _ => true) s.fs).1 },
       some (genExec true (A s.variant) (fun _ => true) s.fs).2) := rfl

theorem stepH_diff (A : Nat → LoadRes) (hs : Nat) (s : HState) :
    stepH A hs s .diff = (s, some (diffExec hs true (A s.variant) s.fs)) := rfl

theorem stepH_gen_variant (A : Nat → LoadRes) (hs : Nat) (s : HState) :
    (stepH A hs s .gen).1.variant = s.variant := rfl

/-- one `gen` on a good variant: every output file holds the generated content, exit status 0 -/
theorem stepH_gen_good (A : Nat → LoadRes) (hs : Nat) (s : HState) (outs : List PkgOut)
    (hA : A s.variant = .ok outs) (hnd : (outs.map (·.outPath)).Nodup)
    (hall : ∀ o ∈ outs, o.errs = false ∧ o.content ≠ 0) :
    (∀ o ∈ outs, fsGet (stepH A hs s .gen).1.fs o.outPath = some o.content) ∧
    (stepH A hs s .gen).2 = some 0 := by
  rw [stepH_gen, hA]
  refine ⟨fun o ho => ?_, ?_⟩
  · exact gen_isolation outs _ s.fs o hnd ho (hall o ho).2 rfl
  · dsimp only
    congr 1
    rw [gen_exit]
    intro o ho
    exact ⟨(hall o ho).1, fun _ => rfl⟩

theorem gen_other_paths (A : Nat → LoadRes) (hs : Nat) (s : HState) (p : Nat)
    (hp : p ∉ outPaths (A s.variant)) :
    fsGet (stepH A hs s .gen).1.fs p = fsGet s.fs p := by
  rw [stepH_gen]
  dsimp only
  cases hA : A s.variant with
  | loadErr => rw [genExec_loadErr]
  | ok outs =>
    rw [hA] at hp
    apply gen_failed_untouched
    intro o ho hpo
    exact absurd (hpo ▸ List.mem_map_of_mem ho : p ∈ outs.map (·.outPath)) hp

theorem freshFS_good (A : Nat → LoadRes) (v : Nat) (outs : List PkgOut)
    (hA : A v = .ok outs) (hnd : (outs.map (·.outPath)).Nodup)
    (hall : ∀ o ∈ outs, o.errs = false ∧ o.content ≠ 0) :
    ∀ o ∈ outs, fsGet (freshFS A v) o.outPath = some o.content := by
  intro o ho
  unfold freshFS
  rw [hA]
  exact gen_isolation outs _ [] o hnd ho (hall o ho).2 rfl

theorem freshFS_other (A : Nat → LoadRes) (v : Nat) (p : Nat) (hp : p ∉ outPaths (A v)) :
    fsGet (freshFS A v) p = none := by
  have := gen_other_paths A 0 ⟨[], v⟩ p hp
  rw [stepH_gen] at this
  exact this

theorem regen_fresh_partial (A : Nat → LoadRes) (hs v : Nat) (hg : GoodVariant A v)
    (s : HState) (ops : List Op) (hv : (runH A hs s ops).1.variant = v) :
    (∀ outs, A v = .ok outs → ∀ o ∈ outs,
        fsGet (runH A hs s (ops ++ [.gen])).1.fs o.outPath = some o.content) ∧
    (∀ p ∈ outPaths (A v), fsGet (runH A hs s (ops ++ [.gen])).1.fs p = fsGet (freshFS A v) p) ∧
    (runH A hs s (ops ++ [.gen])).2.getLast? = some (some 0) ∧
    (runH A hs s (ops ++ [.gen])).1.variant = v := by
  obtain ⟨outs, hA, _, hnd, hall⟩ := hg
  rw [runH_snoc]
  have hA' : A (runH A hs s ops).1.variant = .ok outs := by rw [hv]; exact hA
  obtain ⟨h1, h2⟩ := stepH_gen_good A hs (runH A hs s ops).1 outs hA' hnd hall
  have key : ∀ o ∈ outs, fsGet (stepH A hs (runH A hs s ops).1 .gen).1.fs o.outPath = some o.content := h1
  refine ⟨?_, ?_, ?_, ?_⟩
  · intro outs' hA2 o ho
    have : outs' = outs := by rw [hA] at hA2; injection hA2 with h; exact h.symm
    subst this
    exact key o ho
  · intro p hp
    rw [hA] at hp
    obtain ⟨o, ho, rfl⟩ := List.mem_map.mp hp
    rw [key o ho, freshFS_good A v outs hA hnd hall o ho]
  · simp [h2]
  · exact hv

theorem regen_fresh_switch_partial (A : Nat → LoadRes) (hs v : Nat) (hg : GoodVariant A v)
    (s : HState) (ops : List Op) :
    (∀ outs, A v = .ok outs → ∀ o ∈ outs,
        fsGet (runH A hs s (ops ++ [.switch v, .gen])).1.fs o.outPath = some o.content) ∧
    (∀ p ∈ outPaths (A v), fsGet (runH A hs s (ops ++ [.switch v, .gen])).1.fs p = fsGet (freshFS A v) p) ∧
    (runH A hs s (ops ++ [.switch v, .gen])).2.getLast? = some (some 0) := by
  have e : ops ++ [Op.switch v, Op.gen] = (ops ++ [Op.switch v]) ++ [Op.gen] := by simp
  have hv : (runH A hs s (ops ++ [Op.switch v])).1.variant = v := by rw [runH_snoc]; rfl
  rw [e]
  obtain ⟨h1, h2, h3, _⟩ := regen_fresh_partial A hs v hg s (ops ++ [.switch v]) hv
  exact ⟨h1, h2, h3⟩

theorem regen_other_paths_untouched (A : Nat → LoadRes) (hs : Nat) (s : HState) (ops : List Op) (p : Nat)
    (hp : p ∉ outPaths (A (runH A hs s ops).1.variant)) :
    fsGet (runH A hs s (ops ++ [.gen])).1.fs p = fsGet (runH A hs s ops).1.fs p := by
  rw [runH_snoc]
  exact gen_other_paths A hs _ p hp

theorem gen_idempotent (A : Nat → LoadRes) (hs v : Nat) (hg : GoodVariant A v) (s : HState)
    (hv : s.variant = v) (p : Nat) :
    fsGet (stepH A hs (stepH A hs s .gen).1 .gen).1.fs p = fsGet (stepH A hs s .gen).1.fs p := by
  obtain ⟨outs, hA, _, hnd, hall⟩ := hg
  subst hv
  by_cases hp : p ∈ outPaths (A s.variant)
  · rw [hA] at hp
    obtain ⟨o, ho, rfl⟩ := List.mem_map.mp hp
    have h1 := (stepH_gen_good A hs s outs hA hnd hall).1 o ho
    have h2 := (stepH_gen_good A hs (stepH A hs s .gen).1 outs hA hnd hall).1 o ho
    rw [h1, h2]
  · exact gen_other_paths A hs (stepH A hs s .gen).1 p hp

theorem diff_after_gen (A : Nat → LoadRes) (hs v : Nat) (hg : GoodVariant A v) (s : HState)
    (hv : s.variant = v) :
    (stepH A hs (stepH A hs s .gen).1 .diff).2 = some 0 := by
  obtain ⟨outs, hA, _, hnd, hall⟩ := hg
  subst hv
  rw [stepH_diff]
  dsimp only
  congr 1
  rw [stepH_gen_variant, hA, diff_exit_zero]
  exact ⟨fun o ho => (hall o ho).1, fun o ho _ => (stepH_gen_good A hs s outs hA hnd hall).1 o ho⟩

theorem diff_check_readonly (A : Nat → LoadRes) (hs : Nat) (s : HState) :
    (stepH A hs s .diff).1 = s := rfl

end WireP.CmdProofs
