import WireP.Lemmas.PipelineDefs
import WireP.Lemmas.PipelineSpec
import WireP.Lemmas.PMapPerm
/-! # Pipeline, part 9 — "every direct item is used", stated on the input

`PlanSpec.all_used` speaks about source identities (`look t sm = some src`).  With distinct item
identities (Go: pointer identity) this is a statement about the items themselves: each provider,
value, field, binding and imported set of the last set provides a needed, non-given type. -/
namespace WireP.PipelineProofs
open WireV WireP.Pipeline WireP.C05 WireP.Solve

theorem eq_of_nodup_map {α β : Type} {f : α → β} {l : List α} (h : (l.map f).Nodup) {a b : α}
    (ha : a ∈ l) (hb : b ∈ l) (e : f a = f b) : a = b := by
  induction l with
  | nil => cases ha
  | cons x l ih =>
    simp only [List.map_cons, List.nodup_cons] at h
    rcases List.mem_cons.mp ha with ha1 | ha1
    · rcases List.mem_cons.mp hb with hb1 | hb1
      · rw [ha1, hb1]
      · exact absurd (List.mem_map.mpr ⟨b, hb1, by rw [← e, ha1]⟩) h.1
    · rcases List.mem_cons.mp hb with hb1 | hb1
      · exact absurd (List.mem_map.mpr ⟨a, ha1, by rw [e, hb1]⟩) h.1
      · exact ih h.2 ha1 hb1

section
variable {args : Option (List Ty)} {imports : List (Nat × PMap)} {provs : List Prov}
  {vals : List Val} {flds : List Fld} {bnds : List Bnd} {pm : PMap} {sm : SMap}

/-- where a source identity recorded in the source map comes from -/
theorem sm_src_cases (h : buildProviderMap args imports provs vals flds bnds = .ok (pm, sm))
    {t : Ty} {src : SrcId} (hl : look t sm = some src) :
    (∃ i, (args.getD [])[i]? = some t ∧ src = .arg i) ∨
    (∃ ip ∈ imports, ∃ kv ∈ ip.2, t = kv.1 ∧ src = .imp ip.1) ∨
    (∃ p ∈ provs, t ∈ p.outs ∧ src = .prov p.id) ∨
    (∃ v ∈ vals, t = v.out ∧ src = .val v.id) ∨
    (∃ f ∈ flds, t ∈ f.outs ∧ src = .fld f.id) ∨
    (∃ b ∈ bnds, t = b.iface ∧ src = .bnd b.id) := by
  rcases (PMapProofs.ok_look_sm_iff h t src).mp hl with ⟨v, hx⟩ | ⟨b, hb, rfl, rfl⟩
  · rcases PMapProofs.mem_baseItems_cases hx with ⟨i, t', ht, e⟩ | ⟨ip, hip, kv, hkv, e⟩ |
      ⟨p, hp, t', ht, e⟩ | ⟨v', hv, e⟩ | ⟨f, hf, t', ht, e⟩
    · cases e; exact Or.inl ⟨i, ht, rfl⟩
    · cases e; exact Or.inr (Or.inl ⟨ip, hip, kv, hkv, rfl, rfl⟩)
    · cases e; exact Or.inr (Or.inr (Or.inl ⟨p, hp, ht, rfl⟩))
    · cases e; exact Or.inr (Or.inr (Or.inr (Or.inl ⟨v', hv, rfl, rfl⟩)))
    · cases e; exact Or.inr (Or.inr (Or.inr (Or.inr (Or.inl ⟨f, hf, ht, rfl⟩))))
  · exact Or.inr (Or.inr (Or.inr (Or.inr (Or.inr ⟨b, hb, rfl, rfl⟩))))

end

/-- **every direct item provides a needed type** (input-level reading of `PlanSpec.all_used`) -/
theorem items_used {d : SetDef} {impMaps : List (Nat × PMap)} {impIds : List Nat} {pm : PMap}
    {sm : SMap} {given : List Ty} {out : Ty}
    (hb : buildProviderMap d.args impMaps d.provs d.vals d.flds d.bnds = .ok (pm, sm))
    (hids : DistinctIds d)
    (hu : ∀ src e, DirectItem d impIds src e →
      ∃ t, Reach pm out t ∧ t ∉ given ∧ look t sm = some src) :
    (∀ p ∈ d.provs, ∃ t ∈ p.outs, Reach pm out t ∧ t ∉ given) ∧
    (∀ v ∈ d.vals, Reach pm out v.out ∧ v.out ∉ given) ∧
    (∀ f ∈ d.flds, ∃ t ∈ f.outs, Reach pm out t ∧ t ∉ given) ∧
    (∀ b ∈ d.bnds, Reach pm out b.iface ∧ b.iface ∉ given) ∧
    (∀ i ∈ impIds, ∃ ip ∈ impMaps, ip.1 = i ∧ ∃ kv ∈ ip.2, Reach pm out kv.1 ∧ kv.1 ∉ given) := by
  refine ⟨?_, ?_, ?_, ?_, ?_⟩
  · intro p hp
    obtain ⟨t, hr, hng, hl⟩ := hu _ _ (.prov p hp)
    rcases sm_src_cases hb hl with ⟨_, _, e⟩ | ⟨_, _, _, _, _, e⟩ | ⟨p', hp', ht, e⟩ | ⟨_, _, _, e⟩ |
      ⟨_, _, _, e⟩ | ⟨_, _, _, e⟩ <;> try cases e
    have : p = p' := eq_of_nodup_map hids.provs hp hp' (by injection e)
    subst this
    exact ⟨t, ht, hr, hng⟩
  · intro v hv
    obtain ⟨t, hr, hng, hl⟩ := hu _ _ (.val v hv)
    rcases sm_src_cases hb hl with ⟨_, _, e⟩ | ⟨_, _, _, _, _, e⟩ | ⟨_, _, _, e⟩ | ⟨v', hv', ht, e⟩ |
      ⟨_, _, _, e⟩ | ⟨_, _, _, e⟩ <;> try cases e
    have : v = v' := eq_of_nodup_map hids.vals hv hv' (by injection e)
    subst this
    subst ht
    exact ⟨hr, hng⟩
  · intro f hf
    obtain ⟨t, hr, hng, hl⟩ := hu _ _ (.fld f hf)
    rcases sm_src_cases hb hl with ⟨_, _, e⟩ | ⟨_, _, _, _, _, e⟩ | ⟨_, _, _, e⟩ | ⟨_, _, _, e⟩ |
      ⟨f', hf', ht, e⟩ | ⟨_, _, _, e⟩ <;> try cases e
    have : f = f' := eq_of_nodup_map hids.flds hf hf' (by injection e)
    subst this
    exact ⟨t, ht, hr, hng⟩
  · intro b hbm
    obtain ⟨t, hr, hng, hl⟩ := hu _ _ (.bnd b hbm)
    rcases sm_src_cases hb hl with ⟨_, _, e⟩ | ⟨_, _, _, _, _, e⟩ | ⟨_, _, _, e⟩ | ⟨_, _, _, e⟩ |
      ⟨_, _, _, e⟩ | ⟨b', hb', ht, e⟩ <;> try cases e
    have : b = b' := eq_of_nodup_map hids.bnds hbm hb' (by injection e)
    subst this
    subst ht
    exact ⟨hr, hng⟩
  · intro i hi
    obtain ⟨t, hr, hng, hl⟩ := hu _ _ (.imp i hi)
    rcases sm_src_cases hb hl with ⟨_, _, e⟩ | ⟨ip, hip, kv, hkv, ht, e⟩ | ⟨_, _, _, e⟩ | ⟨_, _, _, e⟩ |
      ⟨_, _, _, e⟩ | ⟨_, _, _, e⟩ <;> try cases e
    subst ht
    exact ⟨ip, hip, rfl, kv, hkv, hr, hng⟩

end WireP.PipelineProofs
