import WireP.Lemmas.PipelineDefs
import Batteries.Data.List.Perm
import WireP.Lemmas.AcyclicDefs
import WireP.Lemmas.SolveDefs
/-! # Pipeline, part 1 — the detector's "no cycle" is the planner's "well-founded"

`WireP.C07.Cyclic (succOf pm)` speaks about the graph `verifyAcyclic` walks (key → parameters of the
entry), `WireP.Solve.Acyclic pm` about the relation the planner follows (binding key → concrete type →
parameters).  Under `ConcClosed` the second is well-founded as soon as the first has no cycle. -/
namespace WireP.PipelineProofs
open WireV WireP.Pipeline WireP.C07 WireP.Solve

/-! ## finite + no cycle ⇒ well-founded (direct pigeonhole argument) -/

theorem path_snoc {succ : Ty → List Ty} {a b c : Ty} (h : Path succ a b) (hbc : c ∈ succ b) :
    Path succ a c := by
  induction h with
  | single h => exact .cons h (.single hbc)
  | cons h _ ih => exact .cons h (ih hbc)

theorem path_trans {succ : Ty → List Ty} {a b c : Ty} (h : Path succ a b) (h2 : Path succ b c) :
    Path succ a c := by
  induction h with
  | single h => exact .cons h h2
  | cons h _ ih => exact .cons h (ih h2)

/-- every node below a nodup list of `n` ancestors drawn from a carrier of at most `n + k` nodes is
    accessible -/
theorem acc_of_ancestors {succ : Ty → List Ty} (carrier : List Ty)
    (hsupp : ∀ t, succ t ≠ [] → t ∈ carrier) (hnc : ¬ Cyclic succ) :
    ∀ (k : Nat) (anc : List Ty) (t : Ty), anc.Nodup → anc ⊆ carrier →
      carrier.length ≤ anc.length + k → (∀ a ∈ anc, Path succ a t) →
      Acc (fun u t => u ∈ succ t) t := by
  intro k
  induction k with
  | zero =>
    intro anc t hnd hsub hlen hpath
    refine Acc.intro _ (fun u hu => ?_)
    exfalso
    have htc : t ∈ carrier := hsupp t (by intro e; rw [e] at hu; cases hu)
    have htn : t ∉ anc := fun hm => hnc ⟨t, hpath t hm⟩
    have hnd' : (t :: anc).Nodup := List.nodup_cons.mpr ⟨htn, hnd⟩
    have hsub' : (t :: anc) ⊆ carrier := by
      intro x hx
      rcases List.mem_cons.mp hx with rfl | hx
      · exact htc
      · exact hsub hx
    have := (List.subperm_of_subset hnd' hsub').length_le
    simp only [List.length_cons] at this
    omega
  | succ k ih =>
    intro anc t hnd hsub hlen hpath
    refine Acc.intro _ (fun u hu => ?_)
    have htc : t ∈ carrier := hsupp t (by intro e; rw [e] at hu; cases hu)
    have htn : t ∉ anc := fun hm => hnc ⟨t, hpath t hm⟩
    refine ih (t :: anc) u (List.nodup_cons.mpr ⟨htn, hnd⟩) ?_ ?_ ?_
    · intro x hx
      rcases List.mem_cons.mp hx with rfl | hx
      · exact htc
      · exact hsub hx
    · simp only [List.length_cons]; omega
    · intro a ha
      rcases List.mem_cons.mp ha with rfl | ha
      · exact .single hu
      · exact path_snoc (hpath a ha) hu

/-- a finitely supported successor function without cycle is well-founded -/
theorem wf_of_not_cyclic {succ : Ty → List Ty} (carrier : List Ty)
    (hsupp : ∀ t, succ t ≠ [] → t ∈ carrier) (hnc : ¬ Cyclic succ) :
    WellFounded (fun u t => u ∈ succ t) :=
  ⟨fun t => acc_of_ancestors carrier hsupp hnc carrier.length [] t List.nodup_nil
    (by intro x hx; cases hx) (by simp) (by intro a ha; cases ha)⟩

/-! ## `succOf` against `dep` -/

theorem succOf_of_look {pm : PMap} {t : Ty} {pt : PT} (h : look t pm = some pt) :
    succOf pm t = depsOf pt.src := by
  obtain ⟨c, src⟩ := pt
  unfold succOf
  rw [h]
  cases src <;> rfl

theorem succOf_of_none {pm : PMap} {t : Ty} (h : look t pm = none) : succOf pm t = [] := by
  unfold succOf
  rw [h]

theorem succOf_supp (pm : PMap) (t : Ty) (h : succOf pm t ≠ []) : t ∈ pm.map (·.1) := by
  cases hl : look t pm with
  | none => exact absurd (succOf_of_none hl) h
  | some pt => exact (look_isSome_iff t pm).mp (by rw [hl]; rfl)

theorem succOf_wf {pm : PMap} (hnc : ¬ Cyclic (succOf pm)) :
    WellFounded (fun u t => u ∈ succOf pm t) :=
  wf_of_not_cyclic (pm.map (·.1)) (succOf_supp pm) hnc

/-- a concrete-key step of `dep` is a `succOf` edge -/
theorem dep_conc {pm : PMap} {t u : Ty} {pt : PT} (hl : look t pm = some pt) (hc : pt.t = t)
    (h : dep pm t u) : u ∈ succOf pm t := by
  obtain ⟨pt', hl', hd⟩ := h
  rw [hl] at hl'
  cases hl'
  rcases hd with ⟨h1, _⟩ | ⟨_, h2⟩
  · exact absurd hc h1
  · rw [succOf_of_look hl]; exact h2

/-- **1.** the planner's relation is well-founded on every map the detector accepts -/
theorem acyclic_of_not_cyclic {pm : PMap} (hcc : ConcClosed pm) (hnc : ¬ Cyclic (succOf pm)) :
    Acyclic pm := by
  refine ⟨fun t => ?_⟩
  induction t using (succOf_wf hnc).induction with
  | _ t ih =>
    refine Acc.intro _ (fun u hu => ?_)
    obtain ⟨pt, hl, hd⟩ := hu
    rcases hd with ⟨hb, rfl⟩ | ⟨hc, hmem⟩
    · -- binding key: one more step reaches the parameters of the shared entry
      have hl2 := hcc t pt hl
      refine Acc.intro _ (fun v hv => ?_)
      have : v ∈ succOf pm pt.t := dep_conc hl2 rfl hv
      rw [succOf_of_look hl2, ← succOf_of_look hl] at this
      exact ih v this
    · exact ih u (by rw [succOf_of_look hl]; exact hmem)

/-- conversely, a cycle of the detector's graph makes the planner's relation ill-founded
    (so the two notions coincide on `ConcClosed` maps) -/
theorem reach_of_path {pm : PMap} (hcc : ConcClosed pm) {a b : Ty} (h : Path (succOf pm) a b) :
    ∃ c, dep pm c b ∧ Reach pm a c := by
  have edge : ∀ {a b : Ty}, b ∈ succOf pm a → ∃ c, dep pm c b ∧ Reach pm a c := by
    intro a b hab
    cases hl : look a pm with
    | none => rw [succOf_of_none hl] at hab; cases hab
    | some pt =>
      rw [succOf_of_look hl] at hab
      by_cases hc : pt.t = a
      · exact ⟨a, ⟨pt, hl, Or.inr ⟨hc, hab⟩⟩, .refl a⟩
      · exact ⟨pt.t, ⟨pt, hcc a pt hl, Or.inr ⟨rfl, hab⟩⟩,
          .step ⟨pt, hl, Or.inl ⟨hc, rfl⟩⟩ (.refl _)⟩
  induction h with
  | single h => exact edge h
  | cons h _ ih =>
    obtain ⟨c, hc, hr⟩ := ih
    obtain ⟨c', hc', hr'⟩ := edge h
    exact ⟨c, hc, hr'.trans (Reach.step hc' hr)⟩

theorem not_cyclic_of_acyclic {pm : PMap} (hcc : ConcClosed pm) (h : Acyclic pm) :
    ¬ Cyclic (succOf pm) := by
  rintro ⟨a, hp⟩
  obtain ⟨c, hc, hr⟩ := reach_of_path hcc hp
  exact no_cycle h c a hc hr

theorem acyclic_iff_not_cyclic {pm : PMap} (hcc : ConcClosed pm) :
    Acyclic pm ↔ ¬ Cyclic (succOf pm) :=
  ⟨not_cyclic_of_acyclic hcc, acyclic_of_not_cyclic hcc⟩

end WireP.PipelineProofs
