import WireV.Show
import WireP.Lemmas.SolveDefs
/-! # Definitions and one-step lemmas for `WireV.gather` (Task H: C19)

Specification vocabulary (`gdep`, `GReach`, `GAcyclic`, `Leaf`, `Need`), the step relation `Step`
(`gStep pm s = some s' ↔ Step pm s s'`), what `addToGroup` does, and iteration. -/
namespace WireP.Show
open WireV WireP.Solve

/-! ## specification vocabulary -/

/-- the dependency relation `gather` follows: the entry of `a` is not an injector argument and `b`
    is one of its dependencies.  (The entry of an interface key is the concrete entry, so its
    dependencies are the concrete provider's parameters; `gather` never looks at `pt.t`.) -/
def gdep (pm : PMap) (a b : Ty) : Prop :=
  ∃ pt, look a pm = some pt ∧ (∀ i, pt.src ≠ .arg i) ∧ b ∈ depsOf pt.src

inductive GReach (pm : PMap) : Ty → Ty → Prop
  | refl (a : Ty) : GReach pm a a
  | step {a b c : Ty} : gdep pm a b → GReach pm b c → GReach pm a c

def GAcyclic (pm : PMap) : Prop := WellFounded (fun b a => gdep pm a b)

/-- a *leaf requirement*: a type that must be supplied from outside — it has no entry in the map,
    or its entry is an injector argument -/
def Leaf (pm : PMap) (u : Ty) : Prop :=
  look u pm = none ∨ ∃ pt i, look u pm = some pt ∧ pt.src = .arg i

/-- `u` is one of the inputs that `t` requires -/
def Need (pm : PMap) (t u : Ty) : Prop := GReach pm t u ∧ Leaf pm u

theorem GReach.trans {pm a b c} (h1 : GReach pm a b) (h2 : GReach pm b c) : GReach pm a c := by
  induction h1 with
  | refl _ => exact h2
  | step hab _ ih => exact GReach.step hab (ih h2)

theorem GReach.single {pm a b} (h : gdep pm a b) : GReach pm a b := .step h (.refl b)

theorem Leaf.no_dep {pm u} (h : Leaf pm u) (b : Ty) : ¬ gdep pm u b := by
  rintro ⟨pt, hl, hna, _⟩
  rcases h with h | ⟨pt', i, hl', hs⟩
  · rw [h] at hl; cases hl
  · rw [hl'] at hl; cases hl; exact hna i hs

theorem Leaf.reach_eq {pm u v} (h : Leaf pm u) (hr : GReach pm u v) : v = u := by
  cases hr with
  | refl _ => rfl
  | step hd _ => exact absurd hd (h.no_dep _)

theorem not_leaf {pm : PMap} {t : Ty} {pt : PT} (hl : look t pm = some pt)
    (hna : ∀ i, pt.src ≠ .arg i) : ¬ Leaf pm t := by
  rintro (h | ⟨pt', i, hl', hs⟩)
  · rw [h] at hl; cases hl
  · rw [hl'] at hl; cases hl; exact hna i hs

theorem need_leaf {pm a u} (h : Leaf pm a) : Need pm a u ↔ u = a :=
  ⟨fun hn => h.reach_eq hn.1, fun e => by subst e; exact ⟨.refl _, h⟩⟩

/-- the requirements of a non-leaf are those of its dependencies -/
theorem need_node {pm : PMap} {t : Ty} {pt : PT} (hl : look t pm = some pt)
    (hna : ∀ i, pt.src ≠ .arg i) (u : Ty) :
    Need pm t u ↔ ∃ a ∈ depsOf pt.src, Need pm a u := by
  constructor
  · rintro ⟨hr, hlf⟩
    cases hr with
    | refl _ => exact absurd hlf (not_leaf hl hna)
    | step hd hr' =>
      obtain ⟨pt', hl', _, hb⟩ := hd
      rw [hl] at hl'; cases hl'
      exact ⟨_, hb, hr', hlf⟩
  · rintro ⟨a, ha, hr, hlf⟩
    exact ⟨.step ⟨pt, hl, hna, ha⟩ hr, hlf⟩

theorem no_gcycle {pm} (hwf : GAcyclic pm) : ∀ t d, gdep pm t d → ¬ GReach pm d t := by
  intro t
  induction t using hwf.induction with
  | _ t ih =>
    intro d htd hdt
    cases hdt with
    | refl _ => exact ih t htd t htd (GReach.refl t)
    | step hdb hbt => exact ih d htd _ hdb (hbt.trans (.single htd))

/-! ## link with the planner's relation (`WireP.Solve.dep`) -/

/-- under `ConcClosed` an edge followed by `gather` is one or two edges of the planner's relation
    (through the concrete type of an interface binding) -/
theorem gdep_transGen {pm : PMap} (hcc : ConcClosed pm) {a b : Ty} (h : gdep pm a b) :
    Relation.TransGen (fun u t => dep pm t u) b a := by
  obtain ⟨pt, hl, _, hb⟩ := h
  by_cases e : pt.t = a
  · exact .single ⟨pt, hl, Or.inr ⟨e, hb⟩⟩
  · have h1 : dep pm a pt.t := ⟨pt, hl, Or.inl ⟨e, rfl⟩⟩
    have h2 : dep pm pt.t b := ⟨pt, hcc a pt hl, Or.inr ⟨rfl, hb⟩⟩
    exact .tail (.single h2) h1

/-- every map accepted by the planner's front half (`ConcClosed`, planner-acyclic) is acyclic for
    `gather` -/
theorem gacyclic_of_acyclic {pm : PMap} (hcc : ConcClosed pm) (h : Acyclic pm) : GAcyclic pm :=
  Subrelation.wf (fun {_ _} hd => gdep_transGen hcc hd) h.transGen

theorem reach_of_greach {pm : PMap} (hcc : ConcClosed pm) {a b : Ty} (h : GReach pm a b) :
    Reach pm a b := by
  induction h with
  | refl _ => exact .refl _
  | @step x _ _ hd _ ih =>
    obtain ⟨pt, hl, _, hb⟩ := hd
    by_cases e : pt.t = x
    · exact .step ⟨pt, hl, Or.inr ⟨e, hb⟩⟩ ih
    · exact .step ⟨pt, hl, Or.inl ⟨e, rfl⟩⟩
        (.step ⟨pt, hcc _ pt hl, Or.inr ⟨rfl, hb⟩⟩ ih)

/-- a rank function that strictly decreases along every edge proves `GAcyclic` (for examples) -/
theorem gacyclic_of_rank (pm : PMap) (rank : Ty → Nat)
    (h : ∀ kv ∈ pm, ∀ u ∈ depsOf kv.2.src, rank u < rank kv.1) : GAcyclic pm := by
  have hsub : ∀ u t, gdep pm t u → rank u < rank t := by
    intro u t ⟨pt, hl, _, hd⟩
    exact h (t, pt) (look_mem hl) u hd
  exact Subrelation.wf (fun {u t} hd => hsub u t hd) (InvImage.wf rank Nat.lt_wfRel.wf)

/-! ## `sameKeys`, `unionTy` -/

theorem mem_unionTy {a b : List Ty} {u : Ty} : u ∈ unionTy a b ↔ u ∈ a ∨ u ∈ b := by
  unfold unionTy
  simp only [List.mem_append, List.mem_filter, Bool.not_eq_true', List.contains_eq_mem,
    decide_eq_false_iff_not]
  by_cases h : u ∈ a <;> simp [h]

theorem nodup_filter {α} (p : α → Bool) {l : List α} (h : l.Nodup) : (l.filter p).Nodup :=
  List.Nodup.sublist List.filter_sublist h

theorem nodup_unionTy {a b : List Ty} (ha : a.Nodup) (hb : b.Nodup) : (unionTy a b).Nodup := by
  unfold unionTy
  rw [List.nodup_append]
  refine ⟨ha, nodup_filter _ hb, ?_⟩
  intro x hx y hy e
  subst e
  simp only [List.mem_filter, Bool.not_eq_true', List.contains_eq_mem,
    decide_eq_false_iff_not] at hy
  exact hy.2 hx

/-- pigeonhole: a duplicate-free list contained in a list that is not longer has the same members -/
theorem subset_of_nodup_subset_length : ∀ (a b : List Ty), a.Nodup → a ⊆ b → b.length ≤ a.length →
    b ⊆ a := by
  intro a
  induction a with
  | nil =>
    intro b _ _ hlen
    have : b = [] := List.eq_nil_of_length_eq_zero (by simpa using hlen)
    subst this; exact fun _ h => h
  | cons x a ih =>
    intro b hnd hsub hlen
    simp only [List.nodup_cons] at hnd
    have hxb : x ∈ b := hsub List.mem_cons_self
    have hsub' : a ⊆ b.erase x := by
      intro y hy
      have hne : y ≠ x := fun e => hnd.1 (e ▸ hy)
      exact (List.mem_erase_of_ne hne).mpr (hsub (List.mem_cons_of_mem _ hy))
    have hlen' : (b.erase x).length ≤ a.length := by
      rw [List.length_erase_of_mem hxb]
      simp only [List.length_cons] at hlen
      omega
    have := ih (b.erase x) hnd.2 hsub' hlen'
    intro y hy
    by_cases e : y = x
    · subst e; exact List.mem_cons_self
    · exact List.mem_cons_of_mem _ (this ((List.mem_erase_of_ne e).mpr hy))

theorem sameKeys_iff {a b : List Ty} :
    sameKeys a b = true ↔ a.length = b.length ∧ a ⊆ b := by
  unfold sameKeys
  simp only [Bool.and_eq_true, beq_iff_eq, List.all_eq_true, List.contains_eq_mem,
    decide_eq_true_eq]
  rfl

/-- for a duplicate-free first argument, `sameTypeKeys` means "same members" -/
theorem sameKeys_mem {a b : List Ty} (ha : a.Nodup) (h : sameKeys a b = true) (u : Ty) :
    u ∈ a ↔ u ∈ b := by
  obtain ⟨hlen, hsub⟩ := sameKeys_iff.mp h
  exact ⟨fun hu => hsub hu, fun hu => subset_of_nodup_subset_length a b ha hsub (by omega) hu⟩

theorem sameKeys_symm {a b : List Ty} (ha : a.Nodup) (h : sameKeys a b = true) :
    sameKeys b a = true := by
  obtain ⟨hlen, hsub⟩ := sameKeys_iff.mp h
  exact sameKeys_iff.mpr ⟨hlen.symm, subset_of_nodup_subset_length a b ha hsub (by omega)⟩

/-- duplicate-free lists with the same members are `sameTypeKeys` -/
theorem sameKeys_of_mem {a b : List Ty} (ha : a.Nodup) (hb : b.Nodup)
    (h : ∀ u, u ∈ a ↔ u ∈ b) : sameKeys a b = true := by
  have h1 : a ⊆ b := fun u hu => (h u).mp hu
  have h2 : b ⊆ a := fun u hu => (h u).mpr hu
  have l1 : a.length ≤ b.length := by
    by_cases hl : b.length < a.length
    · -- then a ⊆ b is impossible … use pigeonhole on (b, a) reversed
      exact absurd (List.Nodup.length_le_of_subset ha h1) (by omega)
    · omega
  have l2 : b.length ≤ a.length := List.Nodup.length_le_of_subset hb h2
  exact sameKeys_iff.mpr ⟨by omega, h1⟩

/-! ## the step relation -/

def missingOf (vis : List (Ty × Option Nat)) (deps : List Ty) : List Ty :=
  deps.filter (fun a => (look a vis).isNone)

/-- the union of the input sets of (visited) dependencies -/
def insOf (s : GSt) (deps : List Ty) : List Ty :=
  deps.foldl (fun acc a => unionTy acc (inputsOfDep s a)) []

inductive Step (pm : PMap) (s : GSt) : GSt → Prop
  | pop (curr : Ty) (rest : List Ty) (v : Option Nat) :
      s.stk = curr :: rest → look curr s.visited = some v → Step pm s { s with stk := rest }
  | leaf (curr : Ty) (rest : List Ty) :
      s.stk = curr :: rest → look curr s.visited = none → Leaf pm curr →
      Step pm s { s with stk := rest, visited := (curr, none) :: s.visited }
  | push (curr : Ty) (rest : List Ty) (pt : PT) :
      s.stk = curr :: rest → look curr s.visited = none → look curr pm = some pt →
      (∀ i, pt.src ≠ .arg i) → missingOf s.visited (depsOf pt.src) ≠ [] →
      Step pm s { s with stk := (missingOf s.visited (depsOf pt.src)).reverse ++ curr :: rest }
  | group (curr : Ty) (rest : List Ty) (pt : PT) :
      s.stk = curr :: rest → look curr s.visited = none → look curr pm = some pt →
      (∀ i, pt.src ≠ .arg i) → missingOf s.visited (depsOf pt.src) = [] →
      Step pm s (addToGroup s curr (insOf s (depsOf pt.src)) rest)

theorem step_eq {pm s s'} (h : Step pm s s') : gStep pm s = some s' := by
  cases h with
  | pop curr rest v hs hv => simp [gStep, hs, hv]
  | leaf curr rest hs hv hlf =>
    rcases hlf with hl | ⟨pt, i, hl, hsrc⟩
    · simp [gStep, hs, hv, hl]
    · simp [gStep, hs, hv, hl, hsrc]
  | push curr rest pt hs hv hl hna hm =>
    unfold missingOf at hm
    cases hsrc : pt.src with
    | arg i => exact absurd hsrc (hna i)
    | val v => rw [hsrc] at hm; simp [depsOf] at hm
    | prov p => rw [hsrc] at hm; simp [gStep, hs, hv, hl, hsrc, missingOf, hm]
    | fld f => rw [hsrc] at hm; simp [gStep, hs, hv, hl, hsrc, missingOf, hm]
  | group curr rest pt hs hv hl hna hm =>
    unfold missingOf at hm
    cases hsrc : pt.src with
    | arg i => exact absurd hsrc (hna i)
    | val v => simp [gStep, hs, hv, hl, hsrc, insOf, depsOf]
    | prov p => rw [hsrc] at hm; simp [gStep, hs, hv, hl, hsrc, insOf, hm]
    | fld f => rw [hsrc] at hm; simp [gStep, hs, hv, hl, hsrc, insOf, hm]

theorem gStep_cases {pm s s'} (h : gStep pm s = some s') : Step pm s s' := by
  have key : ∀ s'', Step pm s s'' → Step pm s s' := fun s'' hs => by
    have := step_eq hs; rw [h] at this; cases this; exact hs
  cases hs : s.stk with
  | nil => simp [gStep, hs] at h
  | cons curr rest =>
    cases hv : look curr s.visited with
    | some v => exact key _ (.pop curr rest v hs hv)
    | none =>
      cases hl : look curr pm with
      | none => exact key _ (.leaf curr rest hs hv (Or.inl hl))
      | some pt =>
        by_cases hna : ∀ i, pt.src ≠ .arg i
        · by_cases hm : missingOf s.visited (depsOf pt.src) = []
          · exact key _ (.group curr rest pt hs hv hl hna hm)
          · exact key _ (.push curr rest pt hs hv hl hna hm)
        · have : ∃ i, pt.src = .arg i := by
            cases hsrc : pt.src with
            | arg i => exact ⟨i, rfl⟩
            | _ => exact absurd (fun i => by simp [hsrc]) hna
          obtain ⟨i, hi⟩ := this
          exact key _ (.leaf curr rest hs hv (Or.inr ⟨pt, i, hl, hi⟩))

/-- a step is possible exactly when the stack is not empty -/
theorem gStep_none {pm s} : gStep pm s = none ↔ s.stk = [] := by
  constructor
  · intro h
    cases hs : s.stk with
    | nil => rfl
    | cons curr rest =>
      exfalso
      have : ∃ s', Step pm s s' := by
        cases hv : look curr s.visited with
        | some v => exact ⟨_, .pop curr rest v hs hv⟩
        | none =>
          cases hl : look curr pm with
          | none => exact ⟨_, .leaf curr rest hs hv (Or.inl hl)⟩
          | some pt =>
            by_cases hna : ∀ i, pt.src ≠ .arg i
            · by_cases hm : missingOf s.visited (depsOf pt.src) = []
              · exact ⟨_, .group curr rest pt hs hv hl hna hm⟩
              · exact ⟨_, .push curr rest pt hs hv hl hna hm⟩
            · have : ∃ i, pt.src = .arg i := by
                cases hsrc : pt.src with
                | arg i => exact ⟨i, rfl⟩
                | _ => exact absurd (fun i => by simp [hsrc]) hna
              obtain ⟨i, hi⟩ := this
              exact ⟨_, .leaf curr rest hs hv (Or.inr ⟨pt, i, hl, hi⟩)⟩
      obtain ⟨s', hs'⟩ := this
      rw [step_eq hs'] at h; cases h
  · intro h; simp [gStep, h]

/-! ## `addToGroup` -/

/-- what `addToGroup` does: either the first group with the same input set gets one more output, or
    a new group is appended -/
theorem addToGroup_cases (s : GSt) (curr : Ty) (ins rest : List Ty) :
    (∃ i g, s.groups[i]? = some g ∧ sameKeys g.inputs ins = true ∧
      (addToGroup s curr ins rest).groups =
        s.groups.modify i (fun g => { g with outputs := g.outputs ++ [curr] }) ∧
      (addToGroup s curr ins rest).visited = (curr, some i) :: s.visited ∧
      (addToGroup s curr ins rest).stk = rest) ∨
    ((∀ g ∈ s.groups, sameKeys g.inputs ins = false) ∧
      (addToGroup s curr ins rest).groups = s.groups ++ [{ inputs := ins, outputs := [curr] }] ∧
      (addToGroup s curr ins rest).visited = (curr, some s.groups.length) :: s.visited ∧
      (addToGroup s curr ins rest).stk = rest) := by
  unfold addToGroup
  cases hf : s.groups.findIdx? (fun g => sameKeys g.inputs ins) with
  | some i =>
    left
    obtain ⟨hi, hp, _⟩ := List.findIdx?_eq_some_iff_getElem.mp hf
    exact ⟨i, s.groups[i], List.getElem?_eq_getElem hi, hp, rfl, rfl, rfl⟩
  | none =>
    right
    exact ⟨List.findIdx?_eq_none_iff.mp hf, rfl, rfl, rfl⟩

/-! ## iteration -/

def iterO (pm : PMap) : Nat → GSt → Option GSt
  | 0, s => some s
  | n + 1, s => (gStep pm s).bind (iterO pm n)

theorem iterO_add (pm) (m n : Nat) (s : GSt) :
    iterO pm (m + n) s = (iterO pm m s).bind (iterO pm n) := by
  induction m generalizing s with
  | zero => simp [iterO]
  | succ m ih =>
    have : m + 1 + n = (m + n) + 1 := by omega
    rw [this]
    simp only [iterO]
    cases gStep pm s with
    | none => simp
    | some s' => simp [ih]

theorem iterO_comp {pm m n} {s s1 s2 : GSt} (h1 : iterO pm m s = some s1)
    (h2 : iterO pm n s1 = some s2) : iterO pm (m + n) s = some s2 := by
  rw [iterO_add, h1]; exact h2

theorem iterO_step {pm} {s s1 : GSt} (h : Step pm s s1) : iterO pm 1 s = some s1 := by
  simp [iterO, step_eq h]

/-- once the stack is empty the machine stays where it is -/
theorem gIter_of_iterO {pm} : ∀ (n m : Nat) (s s' : GSt),
    iterO pm n s = some s' → s'.stk = [] → n ≤ m → gIter pm m s = s' := by
  intro n
  induction n with
  | zero =>
    intro m s s' h hs _
    simp [iterO] at h
    subst h
    cases m with
    | zero => rfl
    | succ m => simp [gIter, gStep, hs]
  | succ n ih =>
    intro m s s' h hs hle
    cases m with
    | zero => omega
    | succ m =>
      simp only [iterO] at h
      cases hst : gStep pm s with
      | none => simp [hst] at h
      | some s1 =>
        rw [hst] at h
        simp only [gIter, hst]
        exact ih m s1 s' h hs (by omega)

/-- a property preserved by every step holds after any number of steps -/
theorem iterO_induct {pm} (P : GSt → Prop) (hP : ∀ s s', P s → Step pm s s' → P s') :
    ∀ (n : Nat) (s s' : GSt), iterO pm n s = some s' → P s → P s' := by
  intro n
  induction n with
  | zero => intro s s' h hp; simp [iterO] at h; subst h; exact hp
  | succ n ih =>
    intro s s' h hp
    simp only [iterO] at h
    cases hst : gStep pm s with
    | none => simp [hst] at h
    | some s1 =>
      rw [hst] at h
      exact ih s1 s' h (hP s s1 hp (gStep_cases hst))

theorem gIter_induct {pm} (P : GSt → Prop) (hP : ∀ s s', P s → Step pm s s' → P s') :
    ∀ (n : Nat) (s : GSt), P s → P (gIter pm n s) := by
  intro n
  induction n with
  | zero => intro s hp; exact hp
  | succ n ih =>
    intro s hp
    simp only [gIter]
    cases hst : gStep pm s with
    | none => exact hp
    | some s1 => exact ih s1 (hP s s1 hp (gStep_cases hst))

end WireP.Show
