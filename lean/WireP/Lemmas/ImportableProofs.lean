import WireV.Path
import WireP.Lemmas.PathProofs
/-! # Lemmas for C01 — Go's rule for internal packages (`WireV.importableFromC`, `WireV/Path.lean`)

`isSuffixC`, `internalAt` (the position of the last `internal` path element) and `importableFromC`
specified in terms of path *elements*. -/
namespace WireP.ImportableProofs
open WireV
open WireP.PathProofs

/-! ## the literals -/

theorem ie_eq : "/internal".toList = ['/', 'i', 'n', 't', 'e', 'r', 'n', 'a', 'l'] := by decide

theorem ies_eq : "/internal/".toList = ['/', 'i', 'n', 't', 'e', 'r', 'n', 'a', 'l', '/'] := by decide

theorem ies_split : "/internal/".toList = "/internal".toList ++ ['/'] := by decide

theorem ie_length : "/internal".toList.length = 9 := by decide

theorem internal_length : "internal".length = 8 := by decide

theorem ies_ne_nil : "/internal/".toList ≠ [] := by decide

/-! ## `strings.HasSuffix` -/

theorem isSuffixC_iff (s h : List Char) : isSuffixC s h = true ↔ ∃ t, h = t ++ s := by
  unfold isSuffixC
  rw [isPrefixC_iff]
  constructor
  · rintro ⟨t, ht⟩
    refine ⟨t.reverse, ?_⟩
    have := congrArg List.reverse ht
    simpa using this
  · rintro ⟨t, rfl⟩
    exact ⟨t.reverse, by simp⟩

theorem isSuffixC_append (t s : List Char) : isSuffixC s (t ++ s) = true :=
  (isSuffixC_iff _ _).mpr ⟨t, rfl⟩

/-! ## an `internal` path element at a position -/

/-- at position `k` of `path` there is `/internal`, followed by the end of the path or by `/` -/
def InternalElemAt (path : List Char) (k : Nat) : Prop :=
  ∃ suf, path.drop k = "/internal".toList ++ suf ∧ (suf = [] ∨ suf.head? = some '/')

theorem internalElemAt_iff (path : List Char) (k : Nat) :
    InternalElemAt path k ↔
      path.drop k = "/internal".toList ∨ isPrefixC "/internal/".toList (path.drop k) = true := by
  rw [isPrefixC_iff]
  constructor
  · rintro ⟨suf, hd, hs | hs⟩
    · subst hs; left; simpa using hd
    · right
      cases suf with
      | nil => cases hs
      | cons c s =>
        simp only [List.head?_cons, Option.some.injEq] at hs
        subst hs
        exact ⟨s, by rw [hd, ies_split, List.append_assoc]; rfl⟩
  · rintro (hd | ⟨t, hd⟩)
    · exact ⟨[], by simpa using hd, Or.inl rfl⟩
    · exact ⟨'/' :: t, by rw [hd, ies_split, List.append_assoc]; rfl, Or.inr rfl⟩

/-- the same with the part before the element named -/
theorem internalElemAt_iff_split (path : List Char) (k : Nat) :
    InternalElemAt path k ↔
      ∃ pre suf, pre.length = k ∧ path = pre ++ "/internal".toList ++ suf ∧
        (suf = [] ∨ suf.head? = some '/') := by
  constructor
  · rintro ⟨suf, hd, hs⟩
    have hk : k < path.length := by
      have := congrArg List.length hd
      simp only [List.length_drop, List.length_append, ie_length] at this
      omega
    refine ⟨path.take k, suf, ?_, ?_, hs⟩
    · rw [List.length_take]; omega
    · rw [List.append_assoc, ← hd, List.take_append_drop]
  · rintro ⟨pre, suf, rfl, rfl, hs⟩
    refine ⟨suf, ?_, hs⟩
    rw [List.append_assoc, List.drop_left]

theorem InternalElemAt.lt {path : List Char} {k : Nat} (h : InternalElemAt path k) :
    k + 9 ≤ path.length := by
  obtain ⟨suf, hd, _⟩ := h
  have := congrArg List.length hd
  simp only [List.length_drop, List.length_append, ie_length] at this
  omega

theorem isSuffixC_of_drop {path : List Char} {k : Nat} (h : path.drop k = "/internal".toList) :
    isSuffixC "/internal".toList path = true := by
  rw [isSuffixC_iff]
  exact ⟨path.take k, by rw [← h, List.take_append_drop]⟩

/-! ## `internalAt` -/

theorem internalAt_some {path : List Char} {i : Nat} (h : internalAt path = some i) :
    1 ≤ i ∧ InternalElemAt path (i - 1) ∧ ∀ j, i - 1 < j → ¬ InternalElemAt path j := by
  unfold internalAt at h
  split at h
  · rename_i hsuf
    obtain ⟨t, rfl⟩ := (isSuffixC_iff _ _).mp hsuf
    simp only [Option.some.injEq, List.length_append, ie_length, internal_length] at h
    subst h
    have e : t.length + 9 - 8 - 1 = t.length := by omega
    refine ⟨by omega, ?_, ?_⟩
    · rw [e]
      exact ⟨[], by simp, Or.inl rfl⟩
    · intro j hj hel
      have := hel.lt
      simp only [List.length_append, ie_length] at this
      omega
  · rename_i hsuf
    split at h
    · rename_i k hk
      simp only [Option.some.injEq] at h
      subst h
      obtain ⟨h1, h2⟩ := (lastIndex_some_iff ies_ne_nil).mp hk
      refine ⟨by omega, ?_, ?_⟩
      · rw [internalElemAt_iff]; right; simpa using h1
      · intro j hj hel
        rw [internalElemAt_iff] at hel
        rcases hel with hd | hp
        · exact hsuf (isSuffixC_of_drop hd)
        · rw [h2 j (by omega)] at hp; cases hp
    · cases h

theorem internalAt_none_iff_elem (path : List Char) :
    internalAt path = none ↔ ∀ k, ¬ InternalElemAt path k := by
  constructor
  · intro h k hel
    unfold internalAt at h
    split at h
    · cases h
    · rename_i hsuf
      split at h
      · cases h
      · rename_i hl
        rw [internalElemAt_iff] at hel
        rcases hel with hd | hp
        · exact hsuf (isSuffixC_of_drop hd)
        · rw [(lastIndex_none_iff ies_ne_nil path).mp hl k] at hp; cases hp
  · intro h
    cases hi : internalAt path with
    | none => rfl
    | some i => exact absurd (internalAt_some hi).2.1 (h _)

theorem internalAt_some_iff {path : List Char} {i : Nat} :
    internalAt path = some i ↔
      1 ≤ i ∧ InternalElemAt path (i - 1) ∧ ∀ j, i - 1 < j → ¬ InternalElemAt path j := by
  refine ⟨internalAt_some, ?_⟩
  rintro ⟨h1, h2, h3⟩
  cases hi : internalAt path with
  | none => exact absurd h2 ((internalAt_none_iff_elem path).mp hi _)
  | some i' =>
    obtain ⟨k1, k2, k3⟩ := internalAt_some hi
    congr 1
    rcases Nat.lt_trichotomy (i' - 1) (i - 1) with hlt | heq | hgt
    · exact absurd h2 (k3 _ hlt)
    · omega
    · exact absurd k2 (h3 _ hgt)

/-- no `internal` element ⇔ `/internal` followed by the end or by `/` occurs nowhere -/
theorem internalAt_none_iff (path : List Char) :
    internalAt path = none ↔
      ¬ ∃ pre suf, path = pre ++ "/internal".toList ++ suf ∧ (suf = [] ∨ suf.head? = some '/') := by
  rw [internalAt_none_iff_elem]
  constructor
  · rintro h ⟨pre, suf, hp, hs⟩
    exact h pre.length ((internalElemAt_iff_split _ _).mpr ⟨pre, suf, rfl, hp, hs⟩)
  · intro h k hel
    obtain ⟨pre, suf, _, hp, hs⟩ := (internalElemAt_iff_split _ _).mp hel
    exact h ⟨pre, suf, hp, hs⟩

/-- `/internal` does not overlap itself: inside `/internal` no `/internal` starts -/
theorem no_overlap {m : Nat} (h1 : 1 ≤ m) (h2 : m ≤ 8) (rest suf : List Char) :
    ("/internal".toList ++ rest).drop m ≠ "/internal".toList ++ suf := by
  rw [ie_eq]
  have : m = 1 ∨ m = 2 ∨ m = 3 ∨ m = 4 ∨ m = 5 ∨ m = 6 ∨ m = 7 ∨ m = 8 := by omega
  rcases this with rfl | rfl | rfl | rfl | rfl | rfl | rfl | rfl <;> simp

/-- **The shape of a path whose last `internal` element follows `parent`.** -/
theorem internalAt_shape (parent : List Char) {rest : List Char}
    (hr : rest = [] ∨ rest.head? = some '/') (hlast : internalAt rest = none) :
    internalAt (parent ++ "/internal".toList ++ rest) = some (parent.length + 1) := by
  rw [internalAt_some_iff]
  refine ⟨by omega, ?_, ?_⟩
  · exact (internalElemAt_iff_split _ _).mpr ⟨parent, rest, by omega, rfl, hr⟩
  · intro j hj hel
    have hj' : parent.length < j := by omega
    obtain ⟨suf, hd, hs⟩ := hel
    have e : (parent ++ "/internal".toList ++ rest).drop j =
        ("/internal".toList ++ rest).drop (j - parent.length) := by
      rw [List.append_assoc, List.drop_append, List.drop_eq_nil_of_le (by omega), List.nil_append]
    rw [e] at hd
    by_cases hm : j - parent.length ≤ 8
    · exact no_overlap (by omega) hm rest suf hd
    · have e2 : ("/internal".toList ++ rest).drop (j - parent.length) =
          rest.drop (j - parent.length - 9) := by
        rw [List.drop_append, List.drop_eq_nil_of_le (by rw [ie_length]; omega), List.nil_append,
          ie_length]
      rw [e2] at hd
      exact (internalAt_none_iff_elem rest).mp hlast _ ⟨suf, hd, hs⟩

/-- conversely every path with an `internal` element has that shape, with `parent = path.take (i - 1)` -/
theorem internalAt_some_shape {path : List Char} {i : Nat} (h : internalAt path = some i) :
    ∃ rest, path = path.take (i - 1) ++ "/internal".toList ++ rest ∧
      (path.take (i - 1)).length + 1 = i ∧
      (rest = [] ∨ rest.head? = some '/') ∧ internalAt rest = none := by
  obtain ⟨h1, ⟨rest, hd, hr⟩, h3⟩ := internalAt_some h
  have hlt := InternalElemAt.lt ⟨rest, hd, hr⟩
  have hlen : (path.take (i - 1)).length = i - 1 := by rw [List.length_take]; omega
  refine ⟨rest, ?_, by omega, hr, ?_⟩
  · rw [List.append_assoc, ← hd, List.take_append_drop]
  · rw [internalAt_none_iff_elem]
    rintro k ⟨suf, hk, hs⟩
    refine h3 (i - 1 + 9 + k) (by omega) ⟨suf, ?_, hs⟩
    rw [← hk, ← List.drop_drop, ← List.drop_drop, hd, ← ie_length, List.drop_left]

/-- **`internalAt` finds the last `internal` element**: at `i - 1` the path goes on with `/internal`
    followed by the end or by `/`, and at no later position does it -/
theorem internalAt_last {path : List Char} {i : Nat} (h : internalAt path = some i) :
    1 ≤ i ∧
    (∃ suf, path.drop (i - 1) = "/internal".toList ++ suf ∧ (suf = [] ∨ suf.head? = some '/')) ∧
    ∀ j, i - 1 < j →
      ¬ ∃ suf, path.drop j = "/internal".toList ++ suf ∧ (suf = [] ∨ suf.head? = some '/') :=
  internalAt_some h

/-! ## `importableFromC` -/

/-- only the paths without their vendor prefix matter -/
theorem importableFromC_unvendor (path frm : List Char) :
    importableFromC path frm = importableFromC (unvendorC path) (unvendorC frm) := by
  simp only [importableFromC, unvendor_idem]

theorem importableFromC_congr {p p' f f' : List Char} (hp : unvendorC p = unvendorC p')
    (hf : unvendorC f = unvendorC f') : importableFromC p f = importableFromC p' f' := by
  simp only [importableFromC, hp, hf]

/-- a vendored copy is treated like the package itself, whoever vendors it -/
theorem importable_vendored {path frm : List Char} (hp : NoVendorElem path) (hf : NoVendorElem frm)
    (q q' : List Char) :
    importableFromC (q ++ vendorElem ++ path) (q' ++ vendorElem ++ frm) = importableFromC path frm ∧
    importableFromC ("vendor/".toList ++ path) frm = importableFromC path frm ∧
    importableFromC path (q' ++ vendorElem ++ frm) = importableFromC path frm := by
  refine ⟨importableFromC_congr ?_ ?_, importableFromC_congr ?_ rfl, importableFromC_congr rfl ?_⟩
  · rw [unvendor_canonical_elem hp, unvendor_id hp]
  · rw [unvendor_canonical_elem hf, unvendor_id hf]
  · rw [unvendor_canonical_lead hp, unvendor_id hp]
  · rw [unvendor_canonical_elem hf, unvendor_id hf]

theorem importable_no_internal_gen {path : List Char} (h : internalAt (unvendorC path) = none)
    (frm : List Char) : importableFromC path frm = true := by
  simp only [importableFromC, h]

theorem importable_some_gen {path frm : List Char} {i : Nat}
    (h : internalAt (unvendorC path) = some i) :
    importableFromC path frm = true ↔
      unvendorC frm = (unvendorC path).take (i - 1) ∨
      ∃ x, unvendorC frm = (unvendorC path).take (i - 1) ++ '/' :: x := by
  simp only [importableFromC, h, Bool.or_eq_true, beq_iff_eq, isPrefixC_iff, List.append_assoc,
    List.cons_append, List.nil_append]

theorem importable_no_internal {path : List Char} (hp : NoVendorElem path)
    (h : internalAt path = none) (frm : List Char) : importableFromC path frm = true :=
  importable_no_internal_gen (by rwa [unvendor_id hp]) frm

/-- **Go's rule.**  `parent/internal…` (the last `internal` element of the path) may be imported from
    `parent` and from below `parent`, and from nowhere else. -/
theorem importable_iff {parent rest frm : List Char}
    (hp : NoVendorElem (parent ++ "/internal".toList ++ rest)) (hf : NoVendorElem frm)
    (hr : rest = [] ∨ rest.head? = some '/') (hlast : internalAt rest = none) :
    importableFromC (parent ++ "/internal".toList ++ rest) frm = true ↔
      frm = parent ∨ ∃ x, frm = parent ++ '/' :: x := by
  have hi : internalAt (unvendorC (parent ++ "/internal".toList ++ rest)) = some (parent.length + 1) := by
    rw [unvendor_id hp]; exact internalAt_shape parent hr hlast
  rw [importable_some_gen hi, unvendor_id hp, unvendor_id hf]
  have : (parent ++ "/internal".toList ++ rest).take (parent.length + 1 - 1) = parent := by
    rw [List.append_assoc, Nat.add_sub_cancel, List.take_left]
  rw [this]

theorem importable_inside {parent rest frm : List Char}
    (hp : NoVendorElem (parent ++ "/internal".toList ++ rest)) (hf : NoVendorElem frm)
    (hr : rest = [] ∨ rest.head? = some '/') (hlast : internalAt rest = none)
    (hfrm : frm = parent ∨ ∃ x, frm = parent ++ '/' :: x) :
    importableFromC (parent ++ "/internal".toList ++ rest) frm = true :=
  (importable_iff hp hf hr hlast).mpr hfrm

theorem importable_outside {parent rest frm : List Char}
    (hp : NoVendorElem (parent ++ "/internal".toList ++ rest)) (hf : NoVendorElem frm)
    (hr : rest = [] ∨ rest.head? = some '/') (hlast : internalAt rest = none)
    (hne : frm ≠ parent) (hpre : isPrefixC (parent ++ ['/']) frm = false) :
    importableFromC (parent ++ "/internal".toList ++ rest) frm = false := by
  cases hb : importableFromC (parent ++ "/internal".toList ++ rest) frm with
  | false => rfl
  | true =>
    exfalso
    rcases (importable_iff hp hf hr hlast).mp hb with h | ⟨x, h⟩
    · exact hne h
    · have : isPrefixC (parent ++ ['/']) frm = true :=
        (isPrefixC_iff _ _).mpr ⟨x, by rw [h, List.append_assoc]; rfl⟩
      rw [this] at hpre; cases hpre

/-- the same with the position that `internalAt` computes instead of the shape -/
theorem importable_iff_at {path frm : List Char} {i : Nat} (hp : NoVendorElem path)
    (hf : NoVendorElem frm) (hi : internalAt path = some i) :
    importableFromC path frm = true ↔
      frm = path.take (i - 1) ∨ ∃ x, frm = path.take (i - 1) ++ '/' :: x := by
  have hi' : internalAt (unvendorC path) = some i := by rwa [unvendor_id hp]
  rw [importable_some_gen hi', unvendor_id hp, unvendor_id hf]

/-- a package of the tree may import `parent/internal/x`: `parent` itself and `parent/sub` -/
theorem importable_self_tree {parent : List Char}
    (hp : NoVendorElem (parent ++ "/internal/x".toList)) (hpar : NoVendorElem parent)
    (hsub : NoVendorElem (parent ++ "/sub".toList)) :
    importableFromC (parent ++ "/internal/x".toList) (parent ++ "/sub".toList) = true ∧
    importableFromC (parent ++ "/internal/x".toList) parent = true := by
  have e : parent ++ "/internal/x".toList = parent ++ "/internal".toList ++ "/x".toList := by
    rw [List.append_assoc]; rfl
  rw [e] at hp ⊢
  have hr : "/x".toList = [] ∨ "/x".toList.head? = some '/' := Or.inr rfl
  have hl : internalAt "/x".toList = none := by decide
  exact ⟨importable_inside hp hsub hr hl (Or.inr ⟨"sub".toList, rfl⟩),
    importable_inside hp hpar hr hl (Or.inl rfl)⟩

/-! ## cheap evaluation on string literals (see `WireP.PathProofs`) -/

theorem importableFrom_lit {s t : String} {l m : List Char} {b : Bool} (hs : s = String.ofList l)
    (ht : t = String.ofList m) (h : importableFromC l m = b) : importableFrom s t = b := by
  subst hs; subst ht
  rwa [importableFrom, String.toList_ofList, String.toList_ofList]

theorem internalAt_lit {s : String} {l : List Char} {r : Option Nat} (hs : s = String.ofList l)
    (h : internalAt l = r) : internalAt s.toList = r := by
  subst hs; rwa [String.toList_ofList]

end WireP.ImportableProofs
