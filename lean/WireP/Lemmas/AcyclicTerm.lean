import WireV.Acyclic
/-! # Termination of `verifyAcyclic` within `acFuel` steps (potential argument) -/
namespace WireP.AcyclicProofs
open WireV

/-! ## weighted filter sums -/

theorem sum_filter_mono {α : Type} (w : α → Nat) (p q : α → Bool) (l : List α)
    (hpq : ∀ u, q u = true → p u = true) :
    ((l.filter q).map w).sum ≤ ((l.filter p).map w).sum := by
  induction l with
  | nil => simp
  | cons x xs ih =>
    simp only [List.filter_cons]
    cases hq : q x
    · cases hp : p x <;> simp <;> omega
    · have hp := hpq x hq; simp [hp]; omega

theorem sum_filter_drop {α : Type} (w : α → Nat) (p q : α → Bool) (l : List α) (x : α)
    (hpq : ∀ u, q u = true → p u = true) (hp : p x = true) (hq : q x = false) (hm : x ∈ l) :
    ((l.filter q).map w).sum + w x ≤ ((l.filter p).map w).sum := by
  induction l with
  | nil => cases hm
  | cons y ys ih =>
    simp only [List.filter_cons]
    by_cases hy : y = x
    · subst hy
      have := sum_filter_mono w p q ys hpq
      simp [hp, hq]; omega
    · have hm' : x ∈ ys := by
        cases hm with
        | head => exact absurd rfl hy
        | tail _ h' => exact h'
      have := ih hm'
      cases hqy : q y
      · cases hpy : p y <;> simp <;> omega
      · have hpy := hpq y hqy; simp [hpy]; omega

/-! ## `look` and `succOf` -/

theorem look_none_of_not_mem {β : Type} (t : Ty) (l : List (Ty × β)) (h : ∀ kv ∈ l, kv.1 ≠ t) :
    look t l = none := by
  induction l with
  | nil => rfl
  | cons kv l ih =>
    obtain ⟨k, v⟩ := kv
    have hk : t ≠ k := fun e => h (k, v) List.mem_cons_self e.symm
    simp only [look, hk, if_false]
    exact ih (fun kv' hkv => h kv' (List.mem_cons_of_mem _ hkv))

theorem exists_key_of_look {β : Type} (t : Ty) (l : List (Ty × β)) (h : (look t l).isSome) :
    ∃ kv ∈ l, kv.1 = t := by
  false_or_by_contra
  rename_i hn
  have : look t l = none := look_none_of_not_mem t l (fun kv hkv e => hn ⟨kv, hkv, e⟩)
  simp [this] at h

theorem succOf_eq_nil_of_look_none (pm : PMap) (t : Ty) (h : look t pm = none) : succOf pm t = [] := by
  simp [succOf, h]

theorem look_isSome_of_succOf_ne_nil (pm : PMap) (t : Ty) (h : succOf pm t ≠ []) :
    (look t pm).isSome := by
  cases hl : look t pm with
  | none => exact absurd (succOf_eq_nil_of_look_none pm t hl) h
  | some _ => rfl

/-! ## the potential -/

/-- remaining out-degree of the keys not yet expanded (a key listed twice is counted twice) -/
def rem (pm : PMap) (vis : List Ty) : Nat :=
  ((pm.filter (fun kv => !decide (kv.1 ∈ vis))).map (fun kv => (succOf pm kv.1).length)).sum

def pot (pm : PMap) (s : AcSt) : Nat := s.stk.length + rem pm s.visited

theorem rem_nil (pm : PMap) : rem pm [] = (pm.map (fun kv => (succOf pm kv.1).length)).sum := by
  unfold rem
  have : pm.filter (fun kv => !decide (kv.1 ∈ ([] : List Ty))) = pm :=
    List.filter_eq_self.mpr (by simp)
  rw [this]

theorem rem_cons_le (pm : PMap) (vis : List Ty) (h : Ty) (hh : h ∉ vis) :
    rem pm (h :: vis) + (succOf pm h).length ≤ rem pm vis := by
  unfold rem
  by_cases hk : ∃ kv ∈ pm, kv.1 = h
  · obtain ⟨kv, hkv, rfl⟩ := hk
    exact sum_filter_drop (fun kv : Ty × PT => (succOf pm kv.1).length)
      (fun kv' => !decide (kv'.1 ∈ vis)) (fun kv' => !decide (kv'.1 ∈ kv.1 :: vis)) pm kv
      (by intro u hu; simp at hu ⊢; exact hu.2) (by simpa using hh) (by simp) hkv
  · have hnone : look h pm = none :=
      look_none_of_not_mem h pm (fun kv hkv e => hk ⟨kv, hkv, e⟩)
    rw [succOf_eq_nil_of_look_none pm h hnone]
    have := sum_filter_mono (fun kv : Ty × PT => (succOf pm kv.1).length)
      (fun kv => !decide (kv.1 ∈ vis)) (fun kv => !decide (kv.1 ∈ h :: vis)) pm
      (by intro u hu; simp at hu ⊢; exact hu.2)
    simpa using this

theorem pot_init (pm : PMap) (roots : List Ty) : pot pm (acInit roots) = acFuel pm roots := by
  simp [pot, acInit, acFuel, rem_nil]

theorem acStep_none {succ : Ty → List Ty} {s : AcSt} (h : acStep succ s = none) : s.stk = [] := by
  unfold acStep at h
  split at h
  · assumption
  · simp at h
  · split at h <;> simp at h

theorem acStep_of_nil {succ : Ty → List Ty} {s : AcSt} (h : s.stk = []) : acStep succ s = none := by
  unfold acStep; simp [h]

/-- every step strictly decreases the potential -/
theorem pot_step (pm : PMap) (s s' : AcSt) (h : acStep (succOf pm) s = some s') :
    pot pm s' < pot pm s := by
  unfold acStep at h
  split at h
  · simp at h
  · rename_i rest hs
    simp only [Option.some.injEq] at h; subst h
    simp [pot, hs]
  · rename_i hd t rest hs
    split at h
    · simp only [Option.some.injEq] at h; subst h
      simp [pot, hs]
    · rename_i hv
      simp only [Option.some.injEq] at h; subst h
      have h1 := rem_cons_le pm s.visited hd hv
      have h2 := List.length_filter_le (fun a => decide (a ∉ hd :: t)) (succOf pm hd)
      simp only [pot, hs, List.length_append, List.length_reverse, List.length_map, List.length_cons]
      omega

theorem acIter_stk_nil (pm : PMap) : ∀ (n : Nat) (s : AcSt), pot pm s ≤ n →
    (acIter (succOf pm) n s).stk = [] := by
  intro n
  induction n with
  | zero =>
    intro s hs
    have : s.stk.length = 0 := by unfold pot at hs; omega
    simpa [acIter] using List.eq_nil_of_length_eq_zero this
  | succ n ih =>
    intro s hs
    simp only [acIter]
    cases hst : acStep (succOf pm) s with
    | none => exact acStep_none hst
    | some s' =>
      have := pot_step pm s s' hst
      exact ih s' (by omega)

theorem va_terminates (pm : PMap) (roots : List Ty) : (verifyAcyclic pm roots).stk = [] :=
  acIter_stk_nil pm _ _ (by rw [pot_init]; exact Nat.le_refl _)

end WireP.AcyclicProofs
