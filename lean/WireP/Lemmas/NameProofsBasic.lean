import WireV.Names
import Std.Data.String.ToNat
/-! # Lemmas about `WireV.disambLoop` / `WireV.disambiguate` (C14, part 1) -/
namespace WireP.NameProofs
open WireV

theorem toString_nat_inj {m n : Nat} (h : toString m = toString n) : m = n :=
  Nat.repr_injective h

/-- the candidates `base ++ toString n` are pairwise distinct -/
theorem cand_inj (base : String) {m n : Nat} (h : base ++ toString m = base ++ toString n) : m = n :=
  toString_nat_inj ((String.append_right_inj base).1 h)

/-- names that `disambiguate` has to avoid -/
def bad (collides : String → Bool) (s : String) : Bool := isKeyword s || collides s

theorem disambLoop_some {collides : String → Bool} {base : String} :
    ∀ (fuel n : Nat) {r : String}, disambLoop collides base fuel n = some r →
      collides r = false ∧ isKeyword r = false ∧ ∃ m, n ≤ m ∧ m < n + fuel ∧ r = base ++ toString m
  | 0, _, _, h => by simp [disambLoop] at h
  | fuel + 1, n, r, h => by
    simp only [disambLoop] at h
    split at h
    · rename_i hc
      simp only [Option.some.injEq] at h
      subst h
      simp only [Bool.and_eq_true, Bool.not_eq_eq_eq_not, Bool.not_true] at hc
      exact ⟨hc.2, hc.1, n, Nat.le_refl _, by omega, rfl⟩
    · obtain ⟨h1, h2, m, hm1, hm2, hm3⟩ := disambLoop_some fuel (n + 1) h
      exact ⟨h1, h2, m, by omega, by omega, hm3⟩

theorem disambLoop_none {collides : String → Bool} {base : String} :
    ∀ (fuel n : Nat), disambLoop collides base fuel n = none →
      ∀ m, n ≤ m → m < n + fuel → bad collides (base ++ toString m) = true
  | 0, _, _ => by intro m h1 h2; omega
  | fuel + 1, n, h => by
    simp only [disambLoop] at h
    split at h
    · simp at h
    · rename_i hc
      intro m h1 h2
      by_cases hmn : m = n
      · subst hmn
        simp only [bad]
        cases hk : isKeyword (base ++ toString m) <;> cases hcl : collides (base ++ toString m) <;>
          simp_all
      · exact disambLoop_none fuel (n + 1) h m (by omega) (by omega)

/-- pigeonhole: the loop cannot fail if it is allowed more iterations than there are bad names -/
theorem disambLoop_isSome {collides : String → Bool} {base : String} {avoid : List String}
    (hav : ∀ s, bad collides s = true → s ∈ avoid) (fuel n : Nat) (hf : avoid.length < fuel) :
    ∃ r, disambLoop collides base fuel n = some r := by
  cases h : disambLoop collides base fuel n with
  | some r => exact ⟨r, rfl⟩
  | none =>
    exfalso
    have hn := disambLoop_none fuel n h
    let l := (List.range' n fuel).map (fun m => base ++ toString m)
    have hnd : l.Nodup := by
      show List.Pairwise _ _
      rw [List.pairwise_map]
      exact (List.nodup_range' (s := n) (n := fuel) 1).imp (fun hab hc => hab (cand_inj base hc))
    have hsub : l ⊆ avoid := by
      intro s hs
      obtain ⟨m, hm, rfl⟩ := List.mem_map.1 hs
      rw [List.mem_range'_1] at hm
      exact hav _ (hn m hm.1 hm.2)
    have := hnd.length_le_of_subset hsub
    simp [l] at this
    omega
