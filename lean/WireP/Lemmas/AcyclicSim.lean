import WireP.Acyc.Total
import WireP.Lemmas.AcyclicDefs
import WireP.Lemmas.AcyclicTerm
/-! # `WireV.acStep` simulates the spike machine `WV.step`; completeness and soundness of the
error *count* are inherited from `WV.verifyAcyclic_spec` -/
namespace WireP.AcyclicProofs
open WireV WireP.C07

/-- forget the text of the diagnostics -/
def abs (s : AcSt) : WV.St := ⟨s.visited, s.stk, s.errs.length⟩

theorem step_sim (succ : Ty → List Ty) (s : AcSt) :
    WV.step ⟨succ⟩ (abs s) = (acStep succ s).map abs := by
  obtain ⟨vis, stk, errs⟩ := s
  match stk with
  | [] => rfl
  | [] :: rest => rfl
  | (h :: t) :: rest =>
    by_cases hh : h ∈ vis
    · simp [WV.step, acStep, abs, hh]
    · simp [WV.step, acStep, abs, hh, WV.kidsN, WV.back]

theorem iter_sim (succ : Ty → List Ty) : ∀ (n : Nat) (s : AcSt) (t : WV.St),
    WV.iter ⟨succ⟩ n (abs s) = some t → abs (acIter succ n s) = t := by
  intro n
  induction n with
  | zero => intro s t h; simpa [WV.iter, acIter] using h
  | succ n ih =>
    intro s t h
    simp only [WV.iter, step_sim] at h
    simp only [acIter]
    cases hst : acStep succ s with
    | none => simp [hst] at h
    | some s' =>
      simp only [hst, Option.map_some, Option.bind_some] at h
      exact ih s' t h

theorem acIter_of_nil (succ : Ty → List Ty) (n : Nat) (s : AcSt) (h : s.stk = []) :
    acIter succ n s = s := by
  cases n with
  | zero => rfl
  | succ n => simp [acIter, acStep_of_nil h]

theorem acIter_add (succ : Ty → List Ty) (m n : Nat) (s : AcSt) :
    acIter succ (m + n) s = acIter succ n (acIter succ m s) := by
  induction m generalizing s with
  | zero => simp [acIter]
  | succ m ih =>
    have : m + 1 + n = (m + n) + 1 := by omega
    rw [this]
    simp only [acIter]
    cases hst : acStep succ s with
    | none => simp [acIter_of_nil succ n s (acStep_none hst)]
    | some s' => exact ih s'

/-- the halted state is unique -/
theorem acIter_halt_unique (succ : Ty → List Ty) (m n : Nat) (s : AcSt)
    (hm : (acIter succ m s).stk = []) (hn : (acIter succ n s).stk = []) :
    acIter succ m s = acIter succ n s := by
  rcases Nat.le_total m n with h | h
  · obtain ⟨k, rfl⟩ := Nat.exists_eq_add_of_le h
    rw [acIter_add, acIter_of_nil succ k _ hm]
  · obtain ⟨k, rfl⟩ := Nat.exists_eq_add_of_le h
    rw [acIter_add, acIter_of_nil succ k _ hn]

/-! ## `Cyclic` vs the spike's `HasCycle` -/

theorem path_of_wpath {succ : Ty → List Ty} {a x c : Ty}
    (h : WV.WPath ⟨succ⟩ [] a x) (hc : c ∈ succ x) : Path succ a c := by
  induction h with
  | refl a _ => exact Path.single hc
  | step _ hab _ ih => exact Path.cons hab (ih hc)

theorem wpath_of_path {succ : Ty → List Ty} {a c : Ty} (h : Path succ a c) :
    ∃ x, WV.WPath ⟨succ⟩ [] a x ∧ c ∈ succ x := by
  induction h with
  | @single a b hab => exact ⟨a, WV.WPath.refl a (by simp), hab⟩
  | @cons a b c hab _ ih =>
    obtain ⟨x, hbx, hxc⟩ := ih
    exact ⟨x, WV.WPath.step (by simp) hab hbx, hxc⟩

theorem hasCycle_iff_cyclic (succ : Ty → List Ty) : WV.HasCycle ⟨succ⟩ ↔ Cyclic succ := by
  constructor
  · rintro ⟨c, x, hcx, hxc⟩; exact ⟨c, path_of_wpath hcx hxc⟩
  · rintro ⟨a, ha⟩
    obtain ⟨x, hax, hxa⟩ := wpath_of_path ha
    exact ⟨a, x, hax, hxa⟩

/-! ## the universe -/

def univOf (pm : PMap) (roots : List Ty) : List Ty :=
  roots ++ pm.flatMap (fun kv => succOf pm kv.1)

theorem univOf_closed (pm : PMap) (roots : List Ty) : WV.Closed ⟨succOf pm⟩ (univOf pm roots) := by
  intro u _ a ha
  have hs : (look u pm).isSome := look_isSome_of_succOf_ne_nil pm u (List.ne_nil_of_mem ha)
  obtain ⟨kv, hkv, rfl⟩ := exists_key_of_look u pm hs
  exact List.mem_append_right _ (List.mem_flatMap.mpr ⟨kv, hkv, ha⟩)

theorem va_spec (pm : PMap) (roots : List Ty) (hroots : ∀ k, (look k pm).isSome → k ∈ roots) :
    (verifyAcyclic pm roots).errs = [] ↔ ¬ Cyclic (succOf pm) := by
  obtain ⟨n, vf, ef, hn, hcyc⟩ := WV.verifyAcyclic_spec ⟨succOf pm⟩ (univOf pm roots) roots
    (univOf_closed pm roots) (fun r hr => List.mem_append_left _ hr)
    (fun a ha => hroots a (look_isSome_of_succOf_ne_nil pm a ha))
  have hsim := iter_sim (succOf pm) n (acInit roots) _ hn
  have hstk : (acIter (succOf pm) n (acInit roots)).stk = [] := by
    have := congrArg WV.St.stk hsim; simpa [abs] using this
  have herr : (acIter (succOf pm) n (acInit roots)).errs.length = ef := by
    have := congrArg WV.St.errs hsim; simpa [abs] using this
  have heq : verifyAcyclic pm roots = acIter (succOf pm) n (acInit roots) :=
    acIter_halt_unique _ _ _ _ (va_terminates pm roots) hstk
  rw [heq, ← hasCycle_iff_cyclic, ← hcyc, ← herr, ← List.length_eq_zero_iff]
  omega

end WireP.AcyclicProofs
