import WireP.Lemmas.NameProofsInj
/-! # `qualifyImport`, `valueVarName` (C14, items 6–7) -/
namespace WireP.NameProofs
open WireV

/-- the invariant of the import table of a generated file -/
def ImportsOK (e : NameEnv) : Prop :=
  (e.imports.map (·.2)).Nodup ∧ (e.imports.map (·.1)).Nodup ∧
    ∀ n ∈ e.imports.map (·.2), n ∉ e.values ∧ n ∉ e.fileScope

theorem inFileScope_false_parts {e : NameEnv} {n : String} (h : e.inFileScope n = false) :
    n ∉ e.imports.map (·.2) ∧ n ∉ e.values ∧ n ∉ e.fileScope := by
  rw [inFileScope_false_iff] at h
  simp only [scopeList, List.mem_append, not_or] at h
  exact ⟨h.1.1, h.1.2, h.2⟩

theorem find_path_none {e : NameEnv} {path : String} :
    e.imports.find? (fun ip => ip.1 == path) = none ↔ path ∉ e.imports.map (·.1) := by
  simp only [List.find?_eq_none, List.mem_map, not_exists, not_and]
  constructor
  · intro h ip hip heq; exact h ip hip (by simp [heq])
  · intro h ip hip hc; exact h ip hip (by simpa using hc)

def qiCollides (e : NameEnv) : String → Bool := fun n => n == "err" || e.inFileScope n

theorem qualifyImport_new {fuel : Nat} {e e' : NameEnv} {pkgName path nm : String}
    (h : qualifyImport fuel e pkgName path = some (nm, e')) (hp : path ∉ e.imports.map (·.1)) :
    disambiguate fuel pkgName (qiCollides e) = some nm ∧
      e' = { e with imports := e.imports ++ [(path, nm)] } := by
  simp only [qualifyImport, find_path_none.2 hp] at h
  split at h
  · simp at h
  · rename_i nm' hd
    simp only [Option.some.injEq, Prod.mk.injEq] at h
    obtain ⟨rfl, rfl⟩ := h
    exact ⟨hd, rfl⟩

/-- item 6, first half -/
theorem qualifyImport_fresh {fuel : Nat} {e e' : NameEnv} {pkgName path nm : String}
    (h : qualifyImport fuel e pkgName path = some (nm, e')) (hp : path ∉ e.imports.map (·.1)) :
    nm ≠ "err" ∧ e.inFileScope nm = false ∧ isKeyword nm = false ∧
      e'.imports = e.imports ++ [(path, nm)] ∧ e'.values = e.values ∧ e'.fileScope = e.fileScope := by
  obtain ⟨hd, rfl⟩ := qualifyImport_new h hp
  have := disambiguate_some hd
  have hc := this.1
  simp only [qiCollides, Bool.or_eq_false_iff, beq_eq_false_iff_ne] at hc
  exact ⟨hc.1, hc.2, this.2.1, rfl, rfl, rfl⟩

/-- an already imported path keeps its name and leaves the environment alone -/
theorem qualifyImport_old {fuel : Nat} {e : NameEnv} {pkgName path : String}
    (hp : path ∈ e.imports.map (·.1)) :
    ∃ nm, qualifyImport fuel e pkgName path = some (nm, e) ∧ (path, nm) ∈ e.imports := by
  cases hf : e.imports.find? (fun ip => ip.1 == path) with
  | none => exact absurd hp (find_path_none.1 hf)
  | some ip =>
    refine ⟨ip.2, by simp [qualifyImport, hf], ?_⟩
    have h1 := List.find?_some hf
    have h2 := List.mem_of_find?_eq_some hf
    simp only [beq_iff_eq] at h1
    rw [← h1]; exact h2

theorem snd_unique {l : List (String × String)} {p a b : String}
    (hnd : (l.map (·.1)).Nodup) (ha : (p, a) ∈ l) (hb : (p, b) ∈ l) : a = b := by
  induction l with
  | nil => simp at ha
  | cons x xs ih =>
    simp only [List.map_cons, List.nodup_cons, List.mem_map, not_exists, not_and] at hnd
    rcases List.mem_cons.1 ha with rfl | ha' <;> rcases List.mem_cons.1 hb with hb' | hb'
    · simpa using hb'.symm
    · exact (hnd.1 (p, b) hb' rfl).elim
    · subst hb'; exact (hnd.1 (p, a) ha' rfl).elim
    · exact ih hnd.2 ha' hb'

/-- with distinct paths, *the* name registered for the path is returned -/
theorem qualifyImport_old_eq {fuel : Nat} {e : NameEnv} {pkgName path nm : String}
    (hnd : (e.imports.map (·.1)).Nodup) (hm : (path, nm) ∈ e.imports) :
    qualifyImport fuel e pkgName path = some (nm, e) := by
  obtain ⟨nm', h1, h2⟩ := qualifyImport_old (fuel := fuel) (e := e) (pkgName := pkgName)
    (path := path) (List.mem_map.2 ⟨_, hm, rfl⟩)
  have : nm' = nm := snd_unique hnd h2 hm
  rw [h1, this]

theorem qualifyImport_cases {fuel : Nat} {e e' : NameEnv} {pkgName path nm : String}
    (h : qualifyImport fuel e pkgName path = some (nm, e')) :
    (path ∈ e.imports.map (·.1) ∧ e' = e ∧ (path, nm) ∈ e.imports) ∨
    (path ∉ e.imports.map (·.1) ∧ nm ≠ "err" ∧ e.inFileScope nm = false ∧ isKeyword nm = false ∧
      e' = { e with imports := e.imports ++ [(path, nm)] }) := by
  by_cases hp : path ∈ e.imports.map (·.1)
  · obtain ⟨nm', h1, h2⟩ := qualifyImport_old (fuel := fuel) (e := e) (pkgName := pkgName) hp
    rw [h1] at h
    simp only [Option.some.injEq, Prod.mk.injEq] at h
    obtain ⟨rfl, rfl⟩ := h
    exact Or.inl ⟨hp, rfl, h2⟩
  · have := qualifyImport_fresh h hp
    exact Or.inr ⟨hp, this.1, this.2.1, this.2.2.1, (qualifyImport_new h hp).2⟩

/-- item 6, second half -/
theorem qualifyImport_preserves {fuel : Nat} {e e' : NameEnv} {pkgName path nm : String}
    (h : qualifyImport fuel e pkgName path = some (nm, e')) (hi : ImportsOK e) : ImportsOK e' := by
  rcases qualifyImport_cases h with ⟨_, rfl, _⟩ | ⟨hp, _, hs, _, rfl⟩
  · exact hi
  · obtain ⟨i1, i2, i3⟩ := hi
    obtain ⟨s1, s2, s3⟩ := inFileScope_false_parts hs
    refine ⟨?_, ?_, ?_⟩
    · simp only [List.map_append, List.map_cons, List.map_nil]
      exact List.nodup_append.2 ⟨i1, by simp, by
        intro a ha b hb; simp only [List.mem_cons, List.not_mem_nil, or_false] at hb
        subst hb; intro hc; subst hc; exact s1 ha⟩
    · simp only [List.map_append, List.map_cons, List.map_nil]
      exact List.nodup_append.2 ⟨i2, by simp, by
        intro a ha b hb; simp only [List.mem_cons, List.not_mem_nil, or_false] at hb
        subst hb; intro hc; subst hc; exact hp ha⟩
    · intro n hn
      simp only [List.map_append, List.map_cons, List.map_nil, List.mem_append, List.mem_cons,
        List.not_mem_nil, or_false] at hn
      rcases hn with hn | rfl
      · exact i3 n hn
      · exact ⟨s2, s3⟩

theorem qualifyImport_isSome {fuel : Nat} (e : NameEnv) (pkgName path : String)
    (hf : e.fileScope.length + e.imports.length + e.values.length + goKeywords.length + 2 ≤ fuel) :
    ∃ r, qualifyImport fuel e pkgName path = some r := by
  simp only [qualifyImport]
  split
  · exact ⟨_, rfl⟩
  · have hav : ∀ s, bad (fun n => n == "err" || e.inFileScope n) s = true →
        s ∈ goKeywords ++ ("err" :: scopeList e) := by
      refine bad_mem ?_
      intro n hn
      simp only [Bool.or_eq_true, beq_iff_eq] at hn
      rcases hn with rfl | hn
      · exact List.mem_cons_self
      · exact List.mem_cons_of_mem _ ((inFileScope_iff e n).1 hn)
    obtain ⟨r, hr⟩ := disambiguate_isSome_of_cover (fuel := fuel) pkgName hav
      (by simp only [List.length_append, List.length_cons, scopeList_length]; omega)
    simp only [hr]
    exact ⟨_, rfl⟩

/-! ## `valueVarName` -/

/-- item 7 -/
theorem valueVarName_fresh {fuel : Nat} {e e' : NameEnv} {shape : TyShape} {nm : String}
    (h : valueVarName fuel e shape = some (nm, e')) :
    e.inFileScope nm = false ∧ isKeyword nm = false ∧
      e' = { e with values := e.values ++ [nm] } ∧ (e.values.Nodup → e'.values.Nodup) := by
  simp only [valueVarName] at h
  split at h
  · simp at h
  · rename_i nm' ht
    simp only [Option.some.injEq, Prod.mk.injEq] at h
    obtain ⟨rfl, rfl⟩ := h
    have := typeVariableName_some ht
    refine ⟨this.1, this.2, rfl, ?_⟩
    intro hnd
    have hv := (inFileScope_false_parts this.1).2.1
    exact List.nodup_append.2 ⟨hnd, by simp, by
      intro a ha b hb; simp only [List.mem_cons, List.not_mem_nil, or_false] at hb
      subst hb; intro hc; subst hc; exact hv ha⟩

theorem valueVarName_preserves {fuel : Nat} {e e' : NameEnv} {shape : TyShape} {nm : String}
    (h : valueVarName fuel e shape = some (nm, e')) (hi : ImportsOK e) : ImportsOK e' := by
  obtain ⟨hs, _, rfl, _⟩ := valueVarName_fresh h
  obtain ⟨i1, i2, i3⟩ := hi
  refine ⟨i1, i2, ?_⟩
  intro n hn
  have := i3 n hn
  refine ⟨?_, this.2⟩
  simp only [List.mem_append, List.mem_cons, List.not_mem_nil, or_false, not_or]
  refine ⟨this.1, ?_⟩
  rintro rfl
  exact (inFileScope_false_parts hs).1 hn

theorem valueVarName_isSome {fuel : Nat} (e : NameEnv) (shape : TyShape)
    (hf : e.fileScope.length + e.imports.length + e.values.length + goKeywords.length + 1 ≤ fuel) :
    ∃ r, valueVarName fuel e shape = some r := by
  simp only [valueVarName]
  obtain ⟨r, hr⟩ := typeVariableName_isSome_of_cover (fuel := fuel) shape "" valueVarTransform
    (collides := e.inFileScope) (avoid := goKeywords ++ scopeList e)
    (bad_mem (fun n h => (inFileScope_iff e n).1 h))
    (by simp only [List.length_append, scopeList_length]; omega)
  simp only [hr]
  exact ⟨_, rfl⟩

end WireP.NameProofs
