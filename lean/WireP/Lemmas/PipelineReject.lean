import WireP.Lemmas.PipelineDefs
import WireP.Lemmas.PipelineSpec
/-! # Pipeline, part 5 — every defect class is rejected by `planLast` -/
namespace WireP.PipelineProofs
open WireV WireP.Pipeline WireP.C05 WireP.C07 WireP.Solve

/-! ## (c) a reachable type without source -/

/-- **4(c).** if the last set is accepted and the requested type needs a type that is neither given
    nor provided, the verdict is `.errs`, the list names that type, and every entry of the list is a
    true missing-provider diagnostic -/
theorem planLast_rejects_missing {order : List Ty} {ds : List SetDef} {d : SetDef} {id : Nat}
    {pm : PMap} {sm : SMap} {out t : Ty} (hbl : BuildLast ds) (hd : ds.getLast? = some d)
    (horder : OrderCovers order ds)
    (hl : (procSets order ds).getLast? = some (id, SetRes.ok pm sm))
    (hr : Reach pm out t) (hlp : look t pm = none) (hng : t ∉ d.args.getD []) :
    ∃ es, planLast order ds out = .errs es ∧ (∃ up, Err.noProvider t up ∈ es) ∧
      ∀ e ∈ es, ∃ t' up', e = Err.noProvider t' up' ∧ look t' pm = none ∧
        t' ∉ d.args.getD [] ∧ Reach pm out t' := by
  obtain ⟨hH, hga, -⟩ := planLast_hyps hbl hd hl (last_covered horder hl)
  obtain ⟨up, hup⟩ := missing_named_in_errs (sm := sm) hH hga.leaf hlp hng hr
  refine ⟨(final pm sm (d.args.getD []) out).errs, ?_, ⟨up, hup⟩,
    solve_missing_named hH.concClosed hH.givenNodup⟩
  rw [planLast_of_ok hd hl]
  exact solve_errs_of_errs (solve_terminates hH) (by intro e; rw [e] at hup; cases hup)

/-! ## (d) an unused direct item -/

/-- **4(d).** if the last set is accepted and one of its direct items (imported set, provider,
    value, binding, field) is the source of no needed non-given type, the verdict is `.errs`; unless
    a missing type pre-empts it, the list contains the item's "unused" diagnostic -/
theorem planLast_rejects_unused {order : List Ty} {ds : List SetDef} {d : SetDef} {id : Nat}
    {pm : PMap} {sm : SMap} {out : Ty} {src : SrcId} {e : Err} (hbl : BuildLast ds)
    (hd : ds.getLast? = some d) (horder : OrderCovers order ds)
    (hl : (procSets order ds).getLast? = some (id, SetRes.ok pm sm))
    (hitem : DirectItem d (impIdsOf (procSets order ds) d) src e)
    (hun : ¬ ∃ t, Reach pm out t ∧ t ∉ d.args.getD [] ∧ look t sm = some src) :
    ∃ es, planLast order ds out = .errs es ∧ es ≠ [] ∧
      ((∀ u, Reach pm out u → u ∈ d.args.getD [] ∨ (look u pm).isSome) → e ∈ es) := by
  obtain ⟨hH, hga, -⟩ := planLast_hyps hbl hd hl (last_covered horder hl)
  have hnu : src ∉ (final pm sm (d.args.getD []) out).used :=
    fun hu => hun (used_sound hH.concClosed hH.givenNodup src hu)
  have hmem := unused_mem hitem hnu
  rw [planLast_of_ok hd hl]
  by_cases he : (final pm sm (d.args.getD []) out).errs = []
  · refine ⟨_, solve_errs_of_unused (solve_terminates hH) he ?_, ?_, fun _ => hmem⟩
    · intro e0; rw [e0] at hmem; cases hmem
    · intro e0; rw [e0] at hmem; cases hmem
  · refine ⟨_, solve_errs_of_errs (solve_terminates hH) he, he, fun hall => ?_⟩
    exact absurd (solve_missing_if hH.concClosed hH.givenNodup hall) he

/-! ## (b) a cyclic last set -/

theorem procSet_of_cyclic {order : List Ty} {done : List (Nat × SetRes)} {d : SetDef}
    {impMaps : List (Nat × PMap)} {pm : PMap} {sm : SMap}
    (himp : importsOf done d = .ok impMaps)
    (hb : buildProviderMap d.args impMaps d.provs d.vals d.flds d.bnds = .ok (pm, sm))
    (hne : checkAcyclic order pm ≠ []) :
    procSet order done d = .err (checkAcyclic order pm) := by
  unfold procSet
  rw [himp]
  -- `simp` reduces both matches; the side condition of the catch-all alternative
  -- (`checkAcyclic order pm ≠ []`) is discharged from the context (`hne`)
  simp only [hb]

/-- **4(b).** if the map of the last set is built but has a cycle — whether or not the requested
    type needs the cyclic part — the verdict is `.errs`, the list is non-empty and consists of
    cycle diagnostics, each of which is a real closed walk of the provider graph -/
theorem planLast_rejects_cycle {order : List Ty} {ds : List SetDef} {d : SetDef}
    {impMaps : List (Nat × PMap)} {pm : PMap} {sm : SMap} (out : Ty)
    (hd : ds.getLast? = some d) (horder : OrderCovers order ds)
    (himp : importsOf (procSets order ds.dropLast) d = .ok impMaps)
    (hb : buildProviderMap d.args impMaps d.provs d.vals d.flds d.bnds = .ok (pm, sm))
    (hc : Cyclic (succOf pm)) :
    ∃ es, planLast order ds out = .errs es ∧ (∃ tr, Err.cycle tr ∈ es) ∧
      ∀ e ∈ es, ∃ tr, e = Err.cycle tr ∧ IsCycleTrail (succOf pm) tr := by
  have hcov : ∀ k, (look k pm).isSome → k ∈ order :=
    bpm_covered (procSets_covered (orderCovers_dropLast horder))
      (horder d (List.mem_of_getLast? hd)) himp hb
  have hne : checkAcyclic order pm ≠ [] :=
    fun h => ((AcyclicProofs.checkAcyclic_spec order pm hcov).mp h) hc
  have hall : ∀ e ∈ checkAcyclic order pm, ∃ tr, e = Err.cycle tr ∧ IsCycleTrail (succOf pm) tr := by
    intro e he
    rw [AcyclicProofs.checkAcyclic_eq] at he
    obtain ⟨tr, htr, rfl⟩ := List.mem_map.mp he
    exact ⟨tr, rfl, AcyclicProofs.va_sound pm _ tr htr⟩
  refine ⟨_, planLast_of_err hd (procSet_of_cyclic himp hb hne) out, ?_, hall⟩
  cases hca : checkAcyclic order pm with
  | nil => exact absurd hca hne
  | cons e es =>
    obtain ⟨tr, rfl, -⟩ := hall e (by rw [hca]; exact List.mem_cons_self)
    exact ⟨tr, List.mem_cons_self⟩

/-! ## (a) a duplicate source -/

theorem procSet_of_bpm_error {order : List Ty} {done : List (Nat × SetRes)} {d : SetDef}
    {impMaps : List (Nat × PMap)} {es : List Err} (himp : importsOf done d = .ok impMaps)
    (hb : buildProviderMap d.args impMaps d.provs d.vals d.flds d.bnds = .error es) :
    procSet order done d = .err es := by
  unfold procSet
  rw [himp]
  simp only [hb]

/-- a set with a type that has two sources (its own items and the maps of its imports taken
    together) is rejected -/
theorem procSet_dup_rejected {order : List Ty} {done : List (Nat × SetRes)} {d : SetDef}
    {impMaps : List (Nat × PMap)} (himp : importsOf done d = .ok impMaps)
    (hdup : ¬ (allSources d.args impMaps d.provs d.vals d.flds d.bnds).Nodup) :
    ∃ es, procSet order done d = .err es ∧ es ≠ [] := by
  obtain ⟨es, hb, hne⟩ := PMapProofs.bpm_dup_rejected d.args impMaps d.provs d.vals d.flds d.bnds hdup
  exact ⟨es, procSet_of_bpm_error himp hb, hne⟩

/-- **4(a), last set.** a duplicate source in the last set -/
theorem planLast_rejects_dup {order : List Ty} {ds : List SetDef} {d : SetDef}
    {impMaps : List (Nat × PMap)} (out : Ty) (hd : ds.getLast? = some d)
    (himp : importsOf (procSets order ds.dropLast) d = .ok impMaps)
    (hdup : ¬ (allSources d.args impMaps d.provs d.vals d.flds d.bnds).Nodup) :
    ∃ es, planLast order ds out = .errs es ∧ es ≠ [] := by
  obtain ⟨es, hp, hne⟩ := procSet_dup_rejected (order := order) himp hdup
  exact ⟨es, planLast_of_err hd hp out, hne⟩

/-- … and, if all bindings are co-located, a `multi` diagnostic is among the errors -/
theorem planLast_rejects_dup_named {order : List Ty} {ds : List SetDef} {d : SetDef}
    {impMaps : List (Nat × PMap)} (out : Ty) (hd : ds.getLast? = some d)
    (himp : importsOf (procSets order ds.dropLast) d = .ok impMaps)
    (hdup : ¬ (allSources d.args impMaps d.provs d.vals d.flds d.bnds).Nodup)
    (hp : ∀ b ∈ d.bnds, b.provided ∈ baseSources d.args impMaps d.provs d.vals d.flds) :
    ∃ es t, planLast order ds out = .errs es ∧ Err.multi t ∈ es := by
  obtain ⟨es, t, hb, hm⟩ :=
    PMapProofs.bpm_dup_named d.args impMaps d.provs d.vals d.flds d.bnds hdup hp
  exact ⟨es, t, planLast_of_err hd (procSet_of_bpm_error himp hb) out, hm⟩

/-! ### failures propagate along imports -/

/-- a set that imports a failed (or non-existent) set fails, naming it -/
theorem procSet_import_failed {order : List Ty} {done : List (Nat × SetRes)} {d : SetDef} {i : Nat}
    (hi : i ∈ d.imports)
    (hf : done[i]? = none ∨ ∃ id es, done[i]? = some (id, SetRes.err es)) :
    ∃ es, procSet order done d = .err es ∧
      Err.importFailed (match done[i]? with | some (id, _) => id | none => 0) ∈ es := by
  let failed := (d.imports.map (fun i => done[i]?)).filterMap (fun r => match r with
    | some (id, SetRes.err _) => some (Err.importFailed id)
    | none => some (Err.importFailed 0)
    | _ => none)
  have hmem : Err.importFailed (match done[i]? with | some (id, _) => id | none => 0) ∈ failed := by
    refine List.mem_filterMap.mpr ⟨done[i]?, List.mem_map.mpr ⟨i, hi, rfl⟩, ?_⟩
    rcases hf with hf | ⟨id, es, hf⟩ <;> rw [hf]
  have hne : failed ≠ [] := by intro e; rw [e] at hmem; cases hmem
  have himp : importsOf done d = .error failed := by
    unfold importsOf
    simp only []
    exact if_pos hne
  refine ⟨failed, ?_, hmem⟩
  unfold procSet
  rw [himp]

theorem procSets_append (order : List Ty) (a b : List SetDef) :
    procSets order (a ++ b) =
      b.foldl (fun done d => done ++ [(d.id, procSet order done d)]) (procSets order a) := by
  simp [procSets, List.foldl_append]

theorem foldl_step_prefix (order : List Ty) (b : List SetDef) (init : List (Nat × SetRes)) :
    ∃ l, b.foldl (fun done d => done ++ [(d.id, procSet order done d)]) init = init ++ l := by
  induction b generalizing init with
  | nil => exact ⟨[], by simp⟩
  | cons d b ih =>
    obtain ⟨l, hl⟩ := ih (init ++ [(d.id, procSet order init d)])
    exact ⟨(d.id, procSet order init d) :: l, by simp [List.foldl_cons, hl]⟩

theorem foldl_step_length (order : List Ty) (b : List SetDef) (init : List (Nat × SetRes)) :
    (b.foldl (fun done d => done ++ [(d.id, procSet order done d)]) init).length =
      init.length + b.length := by
  induction b generalizing init with
  | nil => simp
  | cons d b ih => rw [List.foldl_cons, ih]; simp; omega

theorem procSets_length (order : List Ty) (ds : List SetDef) :
    (procSets order ds).length = ds.length := by
  unfold procSets
  rw [foldl_step_length]
  simp

/-- the `j`-th result is the result of the `j`-th definition, processed after its predecessors -/
theorem procSets_getElem? {order : List Ty} {ds : List SetDef} {j : Nat} {dj : SetDef}
    (h : ds[j]? = some dj) :
    (procSets order ds)[j]? = some (dj.id, procSet order (procSets order (ds.take j)) dj) := by
  have hj : j < ds.length := (List.getElem?_eq_some_iff.mp h).1
  have hsplit : ds = (ds.take j ++ [dj]) ++ ds.drop (j + 1) := by
    have hdj : ds[j] = dj := (List.getElem?_eq_some_iff.mp h).2
    rw [List.append_assoc, List.singleton_append, ← hdj, List.getElem_cons_drop, List.take_append_drop]
  have hlen : (procSets order (ds.take j)).length = j := by
    rw [procSets_length, List.length_take]; omega
  conv => lhs; rw [hsplit]
  rw [procSets_append]
  obtain ⟨l, hl⟩ := foldl_step_prefix order (ds.drop (j + 1)) (procSets order (ds.take j ++ [dj]))
  rw [hl, PMapInv.procSets_snoc, List.append_assoc, List.getElem?_append_right (by omega)]
  simp [hlen]

/-- failure propagates: if the `j`-th set imports a set whose result is an error (or that does not
    exist), the `j`-th result is an error too -/
theorem procSets_err_propagates {order : List Ty} {ds : List SetDef} {j i : Nat} {dj : SetDef}
    (h : ds[j]? = some dj) (hi : i ∈ dj.imports) (hij : i < j)
    (hf : (procSets order ds)[i]? = none ∨ ∃ id es, (procSets order ds)[i]? = some (id, SetRes.err es)) :
    ∃ es, (procSets order ds)[j]? = some (dj.id, SetRes.err es) ∧ es ≠ [] := by
  have hj : j < ds.length := (List.getElem?_eq_some_iff.mp h).1
  have hpre : (procSets order (ds.take j))[i]? = (procSets order ds)[i]? := by
    cases hdi : ds[i]? with
    | none => have := List.getElem?_eq_none_iff.mp hdi; omega
    | some di =>
      have h1 : (ds.take j)[i]? = some di := by rw [List.getElem?_take_of_lt hij]; exact hdi
      rw [procSets_getElem? hdi, procSets_getElem? h1, List.take_take, Nat.min_eq_left (by omega)]
  rw [← hpre] at hf
  obtain ⟨es, hes, hm⟩ := procSet_import_failed (order := order) hi hf
  refine ⟨es, ?_, by intro e; rw [e] at hm; cases hm⟩
  rw [procSets_getElem? h, hes]

/-- **4(a), imported set.** if a set directly imported by the last one is rejected — for example
    (`procSet_dup_rejected`) because one of its types has two sources — the verdict is `.errs`
    and the list names the imported set -/
theorem planLast_rejects_import {order : List Ty} {ds : List SetDef} {d : SetDef} {i : Nat}
    (out : Ty) (hd : ds.getLast? = some d) (hi : i ∈ d.imports)
    (hf : (procSets order ds.dropLast)[i]? = none ∨
      ∃ id es, (procSets order ds.dropLast)[i]? = some (id, SetRes.err es)) :
    ∃ es, planLast order ds out = .errs es ∧
      Err.importFailed (match (procSets order ds.dropLast)[i]? with
        | some (id, _) => id | none => 0) ∈ es := by
  obtain ⟨es, hes, hm⟩ := procSet_import_failed (order := order) hi hf
  exact ⟨es, planLast_of_err hd hes out, hm⟩

/-- **4(a), imported set with a duplicate.**  `dj` is the `j`-th definition, it is directly imported
    by the last one, its own imports are fine, and one of its types has two sources -/
theorem planLast_rejects_dup_import {order : List Ty} {ds : List SetDef} {d dj : SetDef} {j : Nat}
    {impMaps : List (Nat × PMap)} (out : Ty) (hd : ds.getLast? = some d)
    (hj : ds.dropLast[j]? = some dj) (hi : j ∈ d.imports)
    (himp : importsOf (procSets order (ds.dropLast.take j)) dj = .ok impMaps)
    (hdup : ¬ (allSources dj.args impMaps dj.provs dj.vals dj.flds dj.bnds).Nodup) :
    ∃ es, planLast order ds out = .errs es ∧ Err.importFailed dj.id ∈ es := by
  obtain ⟨es', hp, -⟩ := procSet_dup_rejected (order := order) himp hdup
  have hres : (procSets order ds.dropLast)[j]? = some (dj.id, SetRes.err es') := by
    rw [procSets_getElem? hj, hp]
  obtain ⟨es, hes, hm⟩ := planLast_rejects_import (order := order) out hd hi (Or.inr ⟨_, _, hres⟩)
  rw [hres] at hm
  exact ⟨es, hes, hm⟩

end WireP.PipelineProofs
