import WireP.Lemmas.NameProofsInj
/-! # `nameSteps`, `nameInjector` (C14, items 4–5) -/
namespace WireP.NameProofs
open WireV

/-- steps that get a cleanup variable -/
def cleanupSteps (ss : List StepInfo) : List StepInfo := ss.filter (fun s => s.isFunc && s.hasCleanup)

theorem tvn_inj_isSome {fuel e ig} (shape : TyShape) (dflt : String) (tr : String → String)
    (hf : goKeywords.length + ig.all.length + (scopeList e).length < fuel) :
    ∃ a, typeVariableName fuel shape dflt tr (InjNames.inInjector e ig) = some a := by
  refine typeVariableName_isSome_of_cover _ _ _ (bad_mem (inInjector_mem e ig)) ?_
  simp only [List.length_append]; omega

theorem disamb_inj_isSome {fuel e ig} (name : String)
    (hf : goKeywords.length + ig.all.length + (scopeList e).length < fuel) :
    ∃ a, disambiguate fuel name (InjNames.inInjector e ig) = some a := by
  refine disambiguate_isSome_of_cover _ (bad_mem (inInjector_mem e ig)) ?_
  simp only [List.length_append]; omega

theorem nameSteps_spec {fuel : Nat} {e : NameEnv} :
    ∀ (ss : List StepInfo) (ig ig' : InjNames), nameSteps fuel e ig ss = some ig' → Inv e ig →
      Inv e ig' ∧ ig'.errVar = ig.errVar ∧ ig'.params = ig.params ∧
        ig'.locals.length = ig.locals.length + ss.length ∧
        ig'.cleanups.length = ig.cleanups.length + (cleanupSteps ss).length
  | [], ig, ig', h, hi => by
    simp only [nameSteps, Option.some.injEq] at h
    subst h; exact ⟨hi, rfl, rfl, rfl, rfl⟩
  | s :: ss, ig, ig', h, hi => by
    simp only [nameSteps] at h
    split at h
    · simp at h
    · rename_i l hl
      have hc := typeVariableName_some hl
      have hi1 := Inv_of_perm (all_addLocal ig l) hi hc.1 hc.2
      split at h
      · rename_i hcl
        split at h
        · simp at h
        · rename_i c hcd
          have hd := disambiguate_some hcd
          have hi2 := Inv_of_perm (all_addCleanup _ c) hi1 hd.1 hd.2.1
          obtain ⟨h1, h2, h3, h4, h5⟩ := nameSteps_spec ss _ ig' h hi2
          refine ⟨h1, h2, h3, ?_, ?_⟩
          · simp only [List.length_append, List.length_cons, List.length_nil] at h4 ⊢; omega
          · simp only [cleanupSteps, List.filter_cons, hcl, if_true, List.length_append,
              List.length_cons, List.length_nil] at h5 ⊢
            omega
      · rename_i hcl
        obtain ⟨h1, h2, h3, h4, h5⟩ := nameSteps_spec ss _ ig' h hi1
        refine ⟨h1, h2, h3, ?_, ?_⟩
        · simp only [List.length_append, List.length_cons, List.length_nil] at h4 ⊢; omega
        · simp only [cleanupSteps, List.filter_cons, hcl] at h5 ⊢
          simpa using h5

theorem nameSteps_isSome {fuel : Nat} {e : NameEnv} :
    ∀ (ss : List StepInfo) (ig : InjNames),
      goKeywords.length + ig.all.length + 2 * ss.length + (scopeList e).length ≤ fuel →
      ∃ ig', nameSteps fuel e ig ss = some ig'
  | [], ig, _ => ⟨ig, rfl⟩
  | s :: ss, ig, hf => by
    simp only [List.length_cons, all_length] at hf
    simp only [nameSteps]
    obtain ⟨l, hl⟩ := tvn_inj_isSome (fuel := fuel) (e := e) (ig := ig) s.shape "v" unexportName
      (by simp only [all_length]; omega)
    simp only [hl]
    split
    · obtain ⟨c, hc⟩ := disamb_inj_isSome (fuel := fuel) (e := e)
        (ig := { ig with locals := ig.locals ++ [l] }) "cleanup"
        (by simp only [all_length, List.length_append, List.length_cons, List.length_nil]; omega)
      simp only [hc]
      apply nameSteps_isSome ss
      simp only [all_length, List.length_append, List.length_cons, List.length_nil]
      omega
    · apply nameSteps_isSome ss
      simp only [all_length, List.length_append, List.length_cons, List.length_nil]
      omega

theorem Inv_init {fuel : Nat} {e : NameEnv} {ev : String}
    (h : disambiguate fuel "err" e.inFileScope = some ev) : Inv e { errVar := ev } := by
  have := disambiguate_some h
  refine ⟨by simp [InjNames.all], ?_⟩
  intro n hn
  simp only [InjNames.all, List.append_nil, List.mem_cons, List.not_mem_nil, or_false] at hn
  subst hn
  exact ⟨this.1, this.2.1⟩

/-- item 4 -/
theorem nameInjector_spec {fuel : Nat} {e : NameEnv} {ps : List ParamInfo} {ss : List StepInfo}
    {ig : InjNames} (h : nameInjector fuel e ps ss = some ig) :
    Inv e ig ∧ ig.params.length = ps.length ∧ ig.locals.length = ss.length ∧
      ig.cleanups.length = (cleanupSteps ss).length := by
  simp only [nameInjector] at h
  split at h
  · simp at h
  · rename_i ev hev
    split at h
    · simp at h
    · rename_i ig1 hp
      obtain ⟨a1, _, a3, a4, a5⟩ := nameParams_spec ps _ ig1 hp (Inv_init hev)
      obtain ⟨b1, _, b3, b4, b5⟩ := nameSteps_spec ss ig1 ig h a1
      refine ⟨b1, ?_, ?_, ?_⟩
      · rw [b3, a3]; simp
      · rw [b4, a4]; simp
      · rw [b5, a5]; simp

/-- the error variable of the injector -/
theorem nameInjector_errVar {fuel : Nat} {e : NameEnv} {ps : List ParamInfo} {ss : List StepInfo}
    {ig : InjNames} (h : nameInjector fuel e ps ss = some ig) :
    disambiguate fuel "err" e.inFileScope = some ig.errVar := by
  simp only [nameInjector] at h
  split at h
  · simp at h
  · rename_i ev hev
    split at h
    · simp at h
    · rename_i ig1 hp
      obtain ⟨_, a2, _⟩ := nameParams_spec ps _ ig1 hp (Inv_init hev)
      obtain ⟨_, b2, _⟩ := nameSteps_spec ss ig1 ig h (nameParams_spec ps _ ig1 hp (Inv_init hev)).1
      rw [hev, b2, a2]

/-- item 5 -/
theorem nameInjector_isSome {fuel : Nat} {e : NameEnv} (ps : List ParamInfo) (ss : List StepInfo)
    (hf : e.fileScope.length + e.imports.length + e.values.length + ps.length + 2 * ss.length
      + goKeywords.length + 3 ≤ fuel) :
    ∃ ig, nameInjector fuel e ps ss = some ig := by
  have hs := scopeList_length e
  simp only [nameInjector]
  obtain ⟨ev, hev⟩ := disambiguate_isSome_of_cover (fuel := fuel) "err"
    (collides := e.inFileScope) (avoid := goKeywords ++ scopeList e)
    (bad_mem (fun n h => (inFileScope_iff e n).1 h)) (by simp only [List.length_append]; omega)
  simp only [hev]
  obtain ⟨ig1, hp⟩ := nameParams_isSome (fuel := fuel) (e := e) ps { errVar := ev }
    (by simp only [all_length]; simp only [List.length_nil]; omega)
  simp only [hp]
  obtain ⟨_, _, a3, a4, a5⟩ := nameParams_spec ps _ ig1 hp (Inv_init hev)
  apply nameSteps_isSome ss
  rw [all_length, a3, a4, a5]
  simp only [List.length_nil]
  omega

end WireP.NameProofs
