import WireV.Nameable
/-! # `unnameable` finds nothing iff every defined type mentioned can be named -/
namespace WireP.Nameable
open WireV

mutual
theorem unnameable_none_iff (want : Nat) : (t : UTy) → (unnameable want t = none ↔ NameableOk want t)
  | .named id pkg exported args => by
    have ih := unnameableL_none_iff want args
    unfold unnameable NameableOk
    by_cases hp : pkg = want
    · subst hp; simp [ih]
    · cases exported <;> simp [hp, ih]
  | .comp kids => by
    have ih := unnameableL_none_iff want kids
    unfold unnameable NameableOk
    exact ih
  | .leaf => by simp [unnameable, NameableOk]
theorem unnameableL_none_iff (want : Nat) : (ts : List UTy) → (unnameableL want ts = none ↔ NameableOkL want ts)
  | [] => by simp [unnameableL, NameableOkL]
  | t :: ts => by
    have ih1 := unnameable_none_iff want t
    have ih2 := unnameableL_none_iff want ts
    unfold unnameableL NameableOkL
    cases h : unnameable want t with
    | none => simp [ih2, ih1.1 h]
    | some x =>
      simp only [reduceCtorEq, false_iff, not_and]
      intro hok
      have := ih1.2 hok
      rw [h] at this; cases this
end

end WireP.Nameable
