import WireP.Lemmas.PipelineDefs
import WireP.Lemmas.PipelineCongr
import WireP.Lemmas.PipelineSpec
import WireP.Lemmas.PMapPerm
/-! # Pipeline, part 8 — the plan does not depend on declaration order (C10 for `planLast`)

Every set of the program may list its providers, values, fields and bindings in another order
(`SetPerm`); the maps of the accepted sets are then permutations of each other (`ResRel`), hence —
`PipelineCongr` — the detector and the planner run identically. -/
namespace WireP.PipelineProofs
open WireV WireP.Pipeline WireP.C05 WireP.C10 WireP.Solve

/-- two results of `procSet` that agree up to the enumeration order of the maps (and up to the
    wording of the errors) -/
inductive ResRel : SetRes → SetRes → Prop
  | ok {pm pm' : PMap} {sm sm' : SMap} : (pm.map (·.1)).Nodup → (sm.map (·.1)).Nodup →
      pm.Perm pm' → sm.Perm sm' → ResRel (.ok pm sm) (.ok pm' sm')
  | err {es es' : List Err} : ResRel (.err es) (.err es')

def ResEq (r r' : Nat × SetRes) : Prop := r.1 = r'.1 ∧ ResRel r.2 r'.2

/-! ## `Forall₂` helpers -/

theorem forall₂_append {α β : Type} {R : α → β → Prop} {a : List α} {a' : List β} {b : List α}
    {b' : List β} (h1 : List.Forall₂ R a a') (h2 : List.Forall₂ R b b') :
    List.Forall₂ R (a ++ b) (a' ++ b') := by
  induction h1 with
  | nil => exact h2
  | cons h _ ih => exact .cons h ih

theorem forall₂_length {α β : Type} {R : α → β → Prop} {a : List α} {a' : List β}
    (h : List.Forall₂ R a a') : a.length = a'.length := by
  induction h with
  | nil => rfl
  | cons _ _ ih => simp [ih]

theorem forall₂_getElem? {α β : Type} {R : α → β → Prop} {a : List α} {a' : List β}
    (h : List.Forall₂ R a a') (i : Nat) :
    (a[i]? = none ∧ a'[i]? = none) ∨ ∃ x y, a[i]? = some x ∧ a'[i]? = some y ∧ R x y := by
  induction h generalizing i with
  | nil => exact Or.inl ⟨rfl, rfl⟩
  | cons hxy _ ih =>
    cases i with
    | zero => exact Or.inr ⟨_, _, rfl, rfl, hxy⟩
    | succ i => simpa using ih i

theorem forall₂_getLast? {α β : Type} {R : α → β → Prop} {a : List α} {a' : List β}
    (h : List.Forall₂ R a a') :
    (a.getLast? = none ∧ a'.getLast? = none) ∨
      ∃ x y, a.getLast? = some x ∧ a'.getLast? = some y ∧ R x y := by
  rw [List.getLast?_eq_getElem?, List.getLast?_eq_getElem?, ← forall₂_length h]
  exact forall₂_getElem? h _

theorem forall₂_flip {α β : Type} {R : α → β → Prop} {a : List α} {a' : List β}
    (h : List.Forall₂ R a a') : List.Forall₂ (fun y x => R x y) a' a := by
  induction h with
  | nil => exact .nil
  | cons h _ ih => exact .cons h ih

theorem forall₂_refl {α : Type} {R : α → α → Prop} (hr : ∀ x, R x x) (a : List α) :
    List.Forall₂ R a a := by
  induction a with
  | nil => exact .nil
  | cons x a ih => exact .cons (hr x) ih

/-! ## `importsOf` on related results -/

def failOf : Option (Nat × SetRes) → Option Err
  | some (id, .err _) => some (Err.importFailed id)
  | none => some (Err.importFailed 0)
  | _ => none

def goodOf : Option (Nat × SetRes) → Option (Nat × PMap)
  | some (id, .ok pm _) => some (id, pm)
  | _ => none

theorem importsOf_eq (done : List (Nat × SetRes)) (d : SetDef) :
    importsOf done d =
      if (d.imports.map (fun i => done[i]?)).filterMap failOf ≠ [] then
        .error ((d.imports.map (fun i => done[i]?)).filterMap failOf)
      else .ok ((d.imports.map (fun i => done[i]?)).filterMap goodOf) := by
  rfl

theorem failOf_rel {done done' : List (Nat × SetRes)} (h : List.Forall₂ ResEq done done') (i : Nat) :
    failOf done[i]? = failOf done'[i]? := by
  rcases forall₂_getElem? h i with ⟨h1, h2⟩ | ⟨⟨id, r⟩, ⟨id', r'⟩, h1, h2, hid, hr⟩
  · rw [h1, h2]
  · rw [h1, h2]
    simp only at hid hr
    subst hid
    cases hr <;> rfl

theorem goodOf_rel {done done' : List (Nat × SetRes)} (h : List.Forall₂ ResEq done done') (i : Nat) :
    (goodOf done[i]? = none ∧ goodOf done'[i]? = none) ∨
      ∃ a b, goodOf done[i]? = some a ∧ goodOf done'[i]? = some b ∧ a.1 = b.1 ∧ a.2.Perm b.2 := by
  rcases forall₂_getElem? h i with ⟨h1, h2⟩ | ⟨⟨id, r⟩, ⟨id', r'⟩, h1, h2, hid, hr⟩
  · rw [h1, h2]; exact Or.inl ⟨rfl, rfl⟩
  · rw [h1, h2]
    simp only at hid hr
    subst hid
    cases hr with
    | ok _ _ hp _ => exact Or.inr ⟨_, _, rfl, rfl, rfl, hp⟩
    | err => exact Or.inl ⟨rfl, rfl⟩

theorem good_list_rel {done done' : List (Nat × SetRes)} (h : List.Forall₂ ResEq done done')
    (is : List Nat) :
    ImportsEach ((is.map (fun i => done[i]?)).filterMap goodOf)
      ((is.map (fun i => done'[i]?)).filterMap goodOf) := by
  induction is with
  | nil => exact .nil
  | cons i is ih =>
    simp only [List.map_cons, List.filterMap_cons]
    rcases goodOf_rel h i with ⟨h1, h2⟩ | ⟨a, b, h1, h2, hid, hp⟩
    · rw [h1, h2]; exact ih
    · rw [h1, h2]; exact .cons hid hp ih

theorem fail_list_rel {done done' : List (Nat × SetRes)} (h : List.Forall₂ ResEq done done')
    (is : List Nat) :
    (is.map (fun i => done[i]?)).filterMap failOf = (is.map (fun i => done'[i]?)).filterMap failOf := by
  induction is with
  | nil => rfl
  | cons i is ih => simp only [List.map_cons, List.filterMap_cons, failOf_rel h i, ih]

/-- related results give the same import failure or related imported maps -/
theorem importsOf_rel {done done' : List (Nat × SetRes)} (h : List.Forall₂ ResEq done done')
    {d d' : SetDef} (hi : d.imports = d'.imports) :
    (∃ es, importsOf done d = .error es ∧ importsOf done' d' = .error es) ∨
      ∃ m m', importsOf done d = .ok m ∧ importsOf done' d' = .ok m' ∧ ImportsEach m m' := by
  rw [importsOf_eq, importsOf_eq, ← hi, ← fail_list_rel h]
  by_cases hf : (d.imports.map (fun i => done[i]?)).filterMap failOf ≠ []
  · rw [if_pos hf, if_pos hf]; exact Or.inl ⟨_, rfl, rfl⟩
  · rw [if_neg hf, if_neg hf]; exact Or.inr ⟨_, _, rfl, rfl, good_list_rel h _⟩

/-! ## one set -/

theorem procSet_of_imports_error {order : List Ty} {done : List (Nat × SetRes)} {d : SetDef}
    {es : List Err} (h : importsOf done d = .error es) : procSet order done d = .err es := by
  unfold procSet
  rw [h]

theorem procSet_of_bpm_err {order : List Ty} {done : List (Nat × SetRes)} {d : SetDef}
    {m : List (Nat × PMap)} {es : List Err} (himp : importsOf done d = .ok m)
    (hb : buildProviderMap d.args m d.provs d.vals d.flds d.bnds = .error es) :
    procSet order done d = .err es := by
  unfold procSet
  rw [himp]
  simp only [hb]

theorem procSet_of_bpm_ok {order : List Ty} {done : List (Nat × SetRes)} {d : SetDef}
    {m : List (Nat × PMap)} {pm : PMap} {sm : SMap} (himp : importsOf done d = .ok m)
    (hb : buildProviderMap d.args m d.provs d.vals d.flds d.bnds = .ok (pm, sm)) :
    procSet order done d =
      match checkAcyclic order pm with
      | [] => .ok pm sm
      | es => .err es := by
  unfold procSet
  rw [himp]
  simp only [hb]
  rfl

/-- the result of one set does not depend on the order of its items nor on the enumeration order of
    the maps it imports -/
theorem procSet_rel {order : List Ty} {done done' : List (Nat × SetRes)}
    (h : List.Forall₂ ResEq done done') {d d' : SetDef} (hp : SetPerm d d')
    (hnc : NoChainedBind d.bnds) :
    ResRel (procSet order done d) (procSet order done' d') := by
  rcases importsOf_rel h hp.imports with ⟨es, h1, h2⟩ | ⟨m, m', h1, h2, hm⟩
  · rw [procSet_of_imports_error h1, procSet_of_imports_error h2]; exact .err
  · have hperm := PMapProofs.bpm_perm (args := d.args) ⟨m, List.Perm.refl _, hm⟩ hp.provs hp.vals
      hp.flds hp.bnds hnc
    rw [hp.args] at hperm
    cases hb : buildProviderMap d.args m d.provs d.vals d.flds d.bnds with
    | error es =>
      cases hb' : buildProviderMap d'.args m' d'.provs d'.vals d'.flds d'.bnds with
      | error es' => rw [procSet_of_bpm_err h1 hb, procSet_of_bpm_err h2 hb']; exact .err
      | ok r' =>
        rw [← hp.args] at hb'
        obtain ⟨r, hr⟩ := hperm.1.mpr ⟨r', by rw [← hp.args]; exact hb'⟩
        rw [← hp.args, hb] at hr
        cases hr
    | ok r =>
      obtain ⟨pm, sm⟩ := r
      obtain ⟨⟨pm', sm'⟩, hb'⟩ := hperm.1.mp ⟨_, by rw [← hp.args]; exact hb⟩
      have hlook := hperm.2 pm sm pm' sm' (by rw [← hp.args]; exact hb) hb'
      have s := PMapProofs.bpm_ok_lookup hb
      have s' := PMapProofs.bpm_ok_lookup hb'
      have hpp : pm.Perm pm' := perm_of_look s.pm_nodup s'.pm_nodup (fun t => (hlook t).1)
      have hsp : sm.Perm sm' := perm_of_look s.sm_nodup s'.sm_nodup (fun t => (hlook t).2)
      rw [procSet_of_bpm_ok h1 hb, procSet_of_bpm_ok h2 hb', ← checkAcyclic_perm s.pm_nodup hpp]
      cases checkAcyclic order pm with
      | nil => exact .ok s.pm_nodup s.sm_nodup hpp hsp
      | cons e es => exact .err

/-! ## all sets -/

theorem foldl_rel {order : List Ty} {ds ds' : List SetDef} (h : List.Forall₂ SetPerm ds ds')
    (hnc : ∀ d ∈ ds, NoChainedBind d.bnds) :
    ∀ {done done' : List (Nat × SetRes)}, List.Forall₂ ResEq done done' →
      List.Forall₂ ResEq (ds.foldl (fun done d => done ++ [(d.id, procSet order done d)]) done)
        (ds'.foldl (fun done d => done ++ [(d.id, procSet order done d)]) done') := by
  induction h with
  | nil => intro done done' hd; exact hd
  | @cons d d' ds ds' hp _ ih =>
    intro done done' hd
    simp only [List.foldl_cons]
    apply ih (fun x hx => hnc x (List.mem_cons_of_mem _ hx))
    exact forall₂_append hd
      (.cons ⟨hp.id, procSet_rel hd hp (hnc d List.mem_cons_self)⟩ .nil)

theorem procSets_rel {order : List Ty} {ds ds' : List SetDef} (h : List.Forall₂ SetPerm ds ds')
    (hnc : ∀ d ∈ ds, NoChainedBind d.bnds) :
    List.Forall₂ ResEq (procSets order ds) (procSets order ds') :=
  foldl_rel h hnc .nil

/-! ## identities of the imported sets -/

theorem impIdsOf_rel {done done' : List (Nat × SetRes)} (h : List.Forall₂ ResEq done done')
    {d d' : SetDef} (hi : d.imports = d'.imports) : impIdsOf done d = impIdsOf done' d' := by
  unfold impIdsOf
  rw [← hi]
  generalize d.imports = is
  induction is with
  | nil => rfl
  | cons i is ih =>
    have : (done[i]?).map (·.1) = (done'[i]?).map (·.1) := by
      rcases forall₂_getElem? h i with ⟨h1, h2⟩ | ⟨x, y, h1, h2, hid, -⟩
      · rw [h1, h2]
      · rw [h1, h2]; simp [hid]
    simp only [List.filterMap_cons, this, ih]

theorem verifyArgsUsed_perm_nil {d d' : SetDef} (hp : SetPerm d d') (impIds : List Nat)
    (used : List SrcId) (h : verifyArgsUsed d impIds used = []) :
    verifyArgsUsed d' impIds used = [] := by
  rw [verifyArgsUsed_nil_iff] at h ⊢
  obtain ⟨h1, h2, h3, h4, h5⟩ := h
  exact ⟨h1, fun p hp' => h2 p (hp.provs.mem_iff.mpr hp'), fun v hv => h3 v (hp.vals.mem_iff.mpr hv),
    fun b hb => h4 b (hp.bnds.mem_iff.mpr hb), fun f hf => h5 f (hp.flds.mem_iff.mpr hf)⟩

/-! ## 6. the plan -/

theorem planLast_perm_mp {order : List Ty} {ds ds' : List SetDef} {out : Ty}
    (h : List.Forall₂ SetPerm ds ds') (hnc : ∀ d ∈ ds, NoChainedBind d.bnds) {calls : List Call}
    (hok : planLast order ds out = .ok calls) : planLast order ds' out = .ok calls := by
  have hrel := procSets_rel (order := order) h hnc
  -- the last definitions
  rcases forall₂_getLast? h with ⟨hn, -⟩ | ⟨d, d', hd, hd', hp⟩
  · have hnil : ds = [] := List.getLast?_eq_none_iff.mp hn
    subst hnil
    simp [planLast, procSets] at hok
  obtain ⟨pm, sm, hl, hs⟩ := planLast_ok_inv hd hok
  -- the last results
  rcases forall₂_getLast? hrel with ⟨hn, -⟩ | ⟨r, r', hr, hr', hid, hrr⟩
  · rw [hn] at hl; cases hl
  rw [hl] at hr
  cases hr
  obtain ⟨id', res'⟩ := r'
  simp only at hid hrr
  cases hrr with
  | @ok _ pm' _ sm' hnd hnds hpp hsp =>
    obtain ⟨h1, h2, h3, rfl⟩ := solve_ok hs
    have hfin := final_congr hnd hpp (look_perm hnds hsp) (d.args.getD []) out
    rw [planLast_of_ok hd' hr', ← impIdsOf_rel hrel hp.imports, ← hp.args, hfin]
    apply solve_ok_of
    · rw [← hfin]; exact h1
    · rw [← hfin]; exact h2
    · rw [← hfin]; exact verifyArgsUsed_perm_nil hp _ _ h3

theorem forall₂_setPerm_symm {ds ds' : List SetDef} (h : List.Forall₂ SetPerm ds ds') :
    List.Forall₂ SetPerm ds' ds := by
  induction h with
  | nil => exact .nil
  | cons h _ ih => exact .cons h.symm ih

theorem forall₂_mem_right {α β : Type} {R : α → β → Prop} {a : List α} {a' : List β}
    (h : List.Forall₂ R a a') {y : β} (hy : y ∈ a') : ∃ x ∈ a, R x y := by
  induction h with
  | nil => cases hy
  | cons hxy _ ih =>
    rcases List.mem_cons.mp hy with rfl | hy
    · exact ⟨_, List.mem_cons_self, hxy⟩
    · obtain ⟨x, hx, hr⟩ := ih hy
      exact ⟨x, List.mem_cons_of_mem _ hx, hr⟩

/-- **6.** declaring the items of every set in another order changes neither the verdict nor the
    call list, provided no set has chained bindings -/
theorem planLast_perm {order : List Ty} {ds ds' : List SetDef} {out : Ty}
    (h : List.Forall₂ SetPerm ds ds') (hnc : ∀ d ∈ ds, NoChainedBind d.bnds) (calls : List Call) :
    planLast order ds out = .ok calls ↔ planLast order ds' out = .ok calls := by
  refine ⟨planLast_perm_mp h hnc, planLast_perm_mp (forall₂_setPerm_symm h) ?_⟩
  intro d' hd'
  obtain ⟨d, hd, hp⟩ := forall₂_mem_right h hd'
  exact PMapProofs.noChainedBind_perm hp.bnds (hnc d hd)

/-- the version of the brief: only the last set is reordered -/
theorem planLast_perm_last {order : List Ty} {pre : List SetDef} {d d' : SetDef} {out : Ty}
    (hp : SetPerm d d') (hnc : NoChainedBind d.bnds) (hpre : ∀ x ∈ pre, NoChainedBind x.bnds)
    (calls : List Call) :
    planLast order (pre ++ [d]) out = .ok calls ↔ planLast order (pre ++ [d']) out = .ok calls := by
  apply planLast_perm (forall₂_append (forall₂_refl SetPerm.refl pre) (.cons hp .nil))
  intro x hx
  rcases List.mem_append.mp hx with hx | hx
  · exact hpre x hx
  · simp only [List.mem_singleton] at hx; subst hx; exact hnc

end WireP.PipelineProofs
