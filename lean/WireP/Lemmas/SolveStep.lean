import WireP.Lemmas.SolveDefs
/-! # One-step lemmas for `WireV.svStep`

`Step pm sm ng s s'` lists the eight things a step can do; `step_eq` / `svStep_cases` show that
`svStep pm sm ng s = some s' ↔ Step pm sm ng s s'`. -/
namespace WireP.Solve
open WireV

/-- what the step does to `used` when it looks at an un-indexed key of the map -/
def usedOf (sm : SMap) (t : Ty) (used : List SrcId) : List SrcId :=
  match look t sm with
  | some src => used ++ [src]
  | none => used

def missingOf (idx : List (Ty × Idx)) (deps : List Ty) : List Ty :=
  deps.filter (fun a => (look a idx).isNone)

def argIdx (idx : List (Ty × Idx)) (deps : List Ty) : List Idx :=
  deps.map (fun a => (look a idx).join)

inductive Step (pm : PMap) (sm : SMap) (ng : Nat) (s : SvSt) : SvSt → Prop
  | pop (curr : Frame) (rest : List Frame) (i : Idx) :
      s.stk = curr :: rest → look curr.t s.index = some i →
      Step pm sm ng s { s with stk := rest }
  | noProv (curr : Frame) (rest : List Frame) :
      s.stk = curr :: rest → look curr.t s.index = none → look curr.t pm = none →
      Step pm sm ng s { s with stk := rest, errs := s.errs ++ [Err.noProvider curr.t curr.up],
                               index := (curr.t, none) :: s.index }
  | bindPush (curr : Frame) (rest : List Frame) (pt : PT) :
      s.stk = curr :: rest → look curr.t s.index = none → look curr.t pm = some pt →
      pt.t ≠ curr.t → look pt.t s.index = none →
      Step pm sm ng s { s with used := usedOf sm curr.t s.used,
                               stk := ⟨pt.t, curr.t :: curr.up⟩ :: curr :: rest }
  | bindDone (curr : Frame) (rest : List Frame) (pt : PT) (i : Idx) :
      s.stk = curr :: rest → look curr.t s.index = none → look curr.t pm = some pt →
      pt.t ≠ curr.t → look pt.t s.index = some i →
      Step pm sm ng s { s with used := usedOf sm curr.t s.used, stk := rest,
                               index := (curr.t, i) :: s.index }
  | argPop (curr : Frame) (rest : List Frame) (pt : PT) (i : Nat) :
      s.stk = curr :: rest → look curr.t s.index = none → look curr.t pm = some pt →
      pt.t = curr.t → pt.src = .arg i →
      Step pm sm ng s { s with used := usedOf sm curr.t s.used, stk := rest }
  | depPush (curr : Frame) (rest : List Frame) (pt : PT) :
      s.stk = curr :: rest → look curr.t s.index = none → look curr.t pm = some pt →
      pt.t = curr.t → (∀ i, pt.src ≠ .arg i) → missingOf s.index (depsOf pt.src) ≠ [] →
      Step pm sm ng s { s with used := usedOf sm curr.t s.used,
                               stk := (missingOf s.index (depsOf pt.src)).map
                                        (fun a => ⟨a, curr.t :: curr.up⟩) ++ curr :: rest }
  | abort (curr : Frame) (rest : List Frame) (pt : PT) :
      s.stk = curr :: rest → look curr.t s.index = none → look curr.t pm = some pt →
      pt.t = curr.t → (∀ i, pt.src ≠ .arg i) → missingOf s.index (depsOf pt.src) = [] →
      (argIdx s.index (depsOf pt.src)).any Option.isNone = true →
      Step pm sm ng s { s with used := usedOf sm curr.t s.used, stk := rest,
                               index := (curr.t, none) :: s.index }
  | call (curr : Frame) (rest : List Frame) (pt : PT) (c : Call) :
      s.stk = curr :: rest → look curr.t s.index = none → look curr.t pm = some pt →
      pt.t = curr.t → (∀ i, pt.src ≠ .arg i) → missingOf s.index (depsOf pt.src) = [] →
      (argIdx s.index (depsOf pt.src)).any Option.isNone = false →
      mkCall curr.t pt.src ((argIdx s.index (depsOf pt.src)).filterMap id) = some c →
      Step pm sm ng s { s with used := usedOf sm curr.t s.used, stk := rest,
                               index := (curr.t, some (ng + s.calls.length)) :: s.index,
                               calls := s.calls ++ [c] }

theorem step_eq {pm sm ng s s'} (h : Step pm sm ng s s') : svStep pm sm ng s = some s' := by
  cases h with
  | pop curr rest i hs hli => simp [svStep, hs, hli]
  | noProv curr rest hs hli hlp => simp [svStep, hs, hli, hlp]
  | bindPush curr rest pt hs hli hlp hb hlc =>
    simp only [svStep, hs, hli, hlp, hb, hlc, usedOf, ne_eq, not_false_eq_true, if_true]
    cases look curr.t sm <;> rfl
  | bindDone curr rest pt i hs hli hlp hb hlc =>
    simp only [svStep, hs, hli, hlp, hb, hlc, usedOf, ne_eq, not_false_eq_true, if_true]
    cases look curr.t sm <;> rfl
  | argPop curr rest pt i hs hli hlp hb hsrc =>
    simp only [svStep, hs, hli, hlp, hb, hsrc, usedOf, ne_eq, not_true_eq_false, if_false]
    cases look curr.t sm <;> rfl
  | depPush curr rest pt hs hli hlp hb hna hm =>
    unfold missingOf at hm
    cases hsrc : pt.src with
    | arg i => exact absurd hsrc (hna i)
    | _ =>
      rw [hsrc] at hm
      simp only [svStep, hs, hli, hlp, hb, hsrc, usedOf, missingOf, ne_eq, not_true_eq_false,
        if_false, hm, not_false_eq_true, if_true]
      cases look curr.t sm <;> rfl
  | abort curr rest pt hs hli hlp hb hna hm ha =>
    unfold missingOf at hm
    unfold argIdx at ha
    cases hsrc : pt.src with
    | arg i => exact absurd hsrc (hna i)
    | _ =>
      rw [hsrc] at hm ha
      simp only [svStep, hs, hli, hlp, hb, hsrc, usedOf, ne_eq, not_true_eq_false, if_false, hm, ha,
        if_true]
      cases look curr.t sm <;> rfl
  | call curr rest pt c hs hli hlp hb hna hm ha hc =>
    unfold missingOf at hm
    unfold argIdx at ha hc
    cases hsrc : pt.src with
    | arg i => exact absurd hsrc (hna i)
    | _ =>
      rw [hsrc] at hm ha hc
      simp only [svStep, hs, hli, hlp, hb, hsrc, usedOf, ne_eq, not_true_eq_false, if_false, hm, ha,
        hc, Bool.false_eq_true]
      cases look curr.t sm <;> rfl

theorem mkCall_isSome {t : Ty} {src : Payload} (args : List Nat) (h : ∀ i, src ≠ .arg i) :
    ∃ c, mkCall t src args = some c := by
  cases src with
  | arg i => exact absurd rfl (h i)
  | _ => simp [mkCall]

theorem svStep_cases {pm sm ng s s'} (h : svStep pm sm ng s = some s') : Step pm sm ng s s' := by
  have key : ∀ s'', Step pm sm ng s s'' → Step pm sm ng s s' := fun s'' hs => by
    have := step_eq hs; rw [h] at this; cases this; exact hs
  cases hs : s.stk with
  | nil => simp [svStep, hs] at h
  | cons curr rest =>
    cases hli : look curr.t s.index with
    | some i => exact key _ (.pop curr rest i hs hli)
    | none =>
      cases hlp : look curr.t pm with
      | none => exact key _ (.noProv curr rest hs hli hlp)
      | some pt =>
        by_cases hb : pt.t = curr.t
        · by_cases hna : ∀ i, pt.src ≠ .arg i
          · by_cases hm : missingOf s.index (depsOf pt.src) = []
            · cases ha : (argIdx s.index (depsOf pt.src)).any Option.isNone with
              | true => exact key _ (.abort curr rest pt hs hli hlp hb hna hm ha)
              | false =>
                obtain ⟨c, hc⟩ := mkCall_isSome (t := curr.t)
                  ((argIdx s.index (depsOf pt.src)).filterMap id) hna
                exact key _ (.call curr rest pt c hs hli hlp hb hna hm ha hc)
            · exact key _ (.depPush curr rest pt hs hli hlp hb hna hm)
          · have : ∃ i, pt.src = .arg i := by
              cases hsrc : pt.src with
              | arg i => exact ⟨i, rfl⟩
              | _ => exact absurd (fun i => by simp [hsrc]) hna
            obtain ⟨i, hi⟩ := this
            exact key _ (.argPop curr rest pt i hs hli hlp hb hi)
        · cases hlc : look pt.t s.index with
          | none => exact key _ (.bindPush curr rest pt hs hli hlp hb hlc)
          | some i => exact key _ (.bindDone curr rest pt i hs hli hlp hb hlc)

/-! ## iteration -/

def iterO (pm : PMap) (sm : SMap) (ng : Nat) : Nat → SvSt → Option SvSt
  | 0, s => some s
  | n + 1, s => (svStep pm sm ng s).bind (iterO pm sm ng n)

theorem iterO_add (pm sm ng) (m n : Nat) (s : SvSt) :
    iterO pm sm ng (m + n) s = (iterO pm sm ng m s).bind (iterO pm sm ng n) := by
  induction m generalizing s with
  | zero => simp [iterO]
  | succ m ih =>
    have : m + 1 + n = (m + n) + 1 := by omega
    rw [this]
    simp only [iterO]
    cases svStep pm sm ng s with
    | none => simp
    | some s' => simp [ih]

theorem iterO_one (pm sm ng) (s : SvSt) : iterO pm sm ng 1 s = svStep pm sm ng s := by
  simp [iterO]

theorem iterO_comp {pm sm ng m n} {s s1 s2 : SvSt} (h1 : iterO pm sm ng m s = some s1)
    (h2 : iterO pm sm ng n s1 = some s2) : iterO pm sm ng (m + n) s = some s2 := by
  rw [iterO_add, h1]; exact h2

theorem iterO_step {pm sm ng} {s s1 : SvSt} (h : Step pm sm ng s s1) :
    iterO pm sm ng 1 s = some s1 := by
  rw [iterO_one]; exact step_eq h

/-- once the stack is empty the machine stays where it is -/
theorem svIter_of_iterO {pm sm ng} : ∀ (n m : Nat) (s s' : SvSt),
    iterO pm sm ng n s = some s' → s'.stk = [] → n ≤ m → svIter pm sm ng m s = s' := by
  intro n
  induction n with
  | zero =>
    intro m s s' h hs _
    simp [iterO] at h
    subst h
    cases m with
    | zero => rfl
    | succ m => simp [svIter, svStep, hs]
  | succ n ih =>
    intro m s s' h hs hle
    cases m with
    | zero => omega
    | succ m =>
      simp only [iterO] at h
      cases hst : svStep pm sm ng s with
      | none => simp [hst] at h
      | some s1 =>
        rw [hst] at h
        simp only [svIter, hst]
        exact ih m s1 s' h hs (by omega)

/-- a property preserved by every step holds after any number of steps -/
theorem iterO_induct {pm sm ng} (P : SvSt → Prop)
    (hP : ∀ s s', P s → Step pm sm ng s s' → P s') :
    ∀ (n : Nat) (s s' : SvSt), iterO pm sm ng n s = some s' → P s → P s' := by
  intro n
  induction n with
  | zero => intro s s' h hp; simp [iterO] at h; subst h; exact hp
  | succ n ih =>
    intro s s' h hp
    simp only [iterO] at h
    cases hst : svStep pm sm ng s with
    | none => simp [hst] at h
    | some s1 =>
      rw [hst] at h
      exact ih s1 s' h (hP s s1 hp (svStep_cases hst))

theorem svIter_induct {pm sm ng} (P : SvSt → Prop)
    (hP : ∀ s s', P s → Step pm sm ng s s' → P s') :
    ∀ (n : Nat) (s : SvSt), P s → P (svIter pm sm ng n s) := by
  intro n
  induction n with
  | zero => intro s hp; exact hp
  | succ n ih =>
    intro s hp
    simp only [svIter]
    cases hst : svStep pm sm ng s with
    | none => exact hp
    | some s1 => exact ih s1 (hP s s1 hp (svStep_cases hst))

end WireP.Solve
