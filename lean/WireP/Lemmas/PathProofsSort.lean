import WireV.Path
/-! # Lemmas for C16, part 2 — `sortS` and the import block (`frameImports`) -/
namespace WireP.PathProofs
open WireV

/-! ## insertion sort -/

theorem insertS_perm (x : String) (l : List String) : (insertS x l).Perm (x :: l) := by
  induction l with
  | nil => exact List.Perm.refl _
  | cons y ys ih =>
    simp only [insertS]
    split
    · exact List.Perm.refl _
    · exact (List.Perm.cons y ih).trans (List.Perm.swap x y ys)

theorem sortS_perm (l : List String) : (sortS l).Perm l := by
  induction l with
  | nil => exact List.Perm.refl _
  | cons x xs ih =>
    simp only [sortS]
    exact (insertS_perm x _).trans (List.Perm.cons x ih)

theorem insertS_sorted (x : String) {l : List String} (h : l.Pairwise (· ≤ ·)) :
    (insertS x l).Pairwise (· ≤ ·) := by
  induction l with
  | nil => simp [insertS]
  | cons y ys ih =>
    rw [List.pairwise_cons] at h
    simp only [insertS]
    split
    · rename_i hxy
      rw [List.pairwise_cons]
      refine ⟨?_, List.pairwise_cons.mpr h⟩
      intro z hz
      rcases List.mem_cons.mp hz with rfl | hz
      · exact hxy
      · exact String.le_trans hxy (h.1 z hz)
    · rename_i hxy
      have hyx : y ≤ x := (String.le_total x y).resolve_left hxy
      rw [List.pairwise_cons]
      refine ⟨?_, ih h.2⟩
      intro z hz
      rcases List.mem_cons.mp ((insertS_perm x ys).subset hz) with rfl | hz
      · exact hyx
      · exact h.1 z hz

theorem sortS_sorted (l : List String) : (sortS l).Pairwise (· ≤ ·) := by
  induction l with
  | nil => exact List.Pairwise.nil
  | cons x xs ih => exact insertS_sorted x ih

/-- `sort.Strings` does not depend on the order of its input -/
theorem sortS_eq_of_perm {l l' : List String} (h : l.Perm l') : sortS l = sortS l' :=
  List.Perm.eq_of_pairwise (le := (· ≤ ·)) (fun _ _ _ _ hab hba => String.le_antisymm hab hba)
    (sortS_sorted l) (sortS_sorted l') ((sortS_perm l).trans (h.trans (sortS_perm l').symm))

theorem sortS_mem {l : List String} {x : String} : x ∈ sortS l ↔ x ∈ l :=
  (sortS_perm l).mem_iff

theorem sortS_length (l : List String) : (sortS l).length = l.length :=
  (sortS_perm l).length_eq

theorem sortS_nodup {l : List String} : (sortS l).Nodup ↔ l.Nodup :=
  (sortS_perm l).nodup_iff

/-- a sorted list is a fixed point -/
theorem sortS_of_sorted {l : List String} (h : l.Pairwise (· ≤ ·)) : sortS l = l :=
  List.Perm.eq_of_pairwise (le := (· ≤ ·)) (fun _ _ _ _ hab hba => String.le_antisymm hab hba)
    (sortS_sorted l) h (sortS_perm l)

theorem sortS_idem (l : List String) : sortS (sortS l) = sortS l :=
  sortS_of_sorted (sortS_sorted l)

/-! ## lookup by path -/

theorem find_path_some {imps : List ImportEnt} {p : String} {e : ImportEnt}
    (h : imps.find? (fun e => e.path == p) = some e) : e ∈ imps ∧ e.path = p := by
  refine ⟨List.mem_of_find?_eq_some h, ?_⟩
  have := List.find?_some h
  simpa using this

theorem find_path_none {imps : List ImportEnt} {p : String} :
    imps.find? (fun e => e.path == p) = none ↔ ∀ e ∈ imps, e.path ≠ p := by
  simp [List.find?_eq_none]

theorem path_inj {imps : List ImportEnt} (hnd : (imps.map (·.path)).Nodup) {e g : ImportEnt}
    (he : e ∈ imps) (hg : g ∈ imps) (h : e.path = g.path) : e = g := by
  induction imps with
  | nil => cases he
  | cons a rest ih =>
    simp only [List.map_cons, List.nodup_cons, List.mem_map, not_exists, not_and] at hnd
    rcases List.mem_cons.mp he with rfl | he' <;> rcases List.mem_cons.mp hg with rfl | hg'
    · rfl
    · exact absurd h.symm (hnd.1 g hg')
    · exact absurd h (hnd.1 e he')
    · exact ih hnd.2 he' hg'

/-- with distinct paths, the entry found for a path is *the* entry with that path -/
theorem find_path_iff {imps : List ImportEnt} (hnd : (imps.map (·.path)).Nodup) {p : String}
    {e : ImportEnt} : imps.find? (fun e => e.path == p) = some e ↔ e ∈ imps ∧ e.path = p := by
  constructor
  · exact find_path_some
  · rintro ⟨he, rfl⟩
    cases hf : imps.find? (fun g => g.path == e.path) with
    | none => exact absurd rfl (find_path_none.mp hf e he)
    | some g =>
      obtain ⟨hg, hn⟩ := find_path_some hf
      rw [path_inj hnd hg he hn]

theorem find_path_perm {imps imps' : List ImportEnt} (hp : imps.Perm imps')
    (hnd : (imps.map (·.path)).Nodup) (p : String) :
    imps.find? (fun e => e.path == p) = imps'.find? (fun e => e.path == p) := by
  have hnd' : (imps'.map (·.path)).Nodup := (hp.map _).nodup_iff.mp hnd
  cases hf : imps.find? (fun e => e.path == p) with
  | none =>
    symm
    rw [find_path_none] at hf ⊢
    intro e he
    exact hf e (hp.mem_iff.mpr he)
  | some e =>
    symm
    rw [find_path_iff hnd] at hf
    rw [find_path_iff hnd']
    exact ⟨hp.mem_iff.mp hf.1, hf.2⟩

/-! ## the import block -/

/-- the line printed for path `p` -/
def importLine (imps : List ImportEnt) (p : String) : String :=
  match imps.find? (fun e => e.path == p) with
  | some e => if e.differs then s!"{e.name} \"{p}\"" else s!"\"{p}\""
  | none => ""

theorem frameImports_eq (imps : List ImportEnt) :
    frameImports imps = (sortS (imps.map (·.path))).map (importLine imps) := rfl

theorem importLine_perm {imps imps' : List ImportEnt} (hp : imps.Perm imps')
    (hnd : (imps.map (·.path)).Nodup) (p : String) : importLine imps p = importLine imps' p := by
  simp only [importLine, find_path_perm hp hnd p]

theorem frame_perm {imps imps' : List ImportEnt} (hp : imps.Perm imps')
    (hnd : (imps.map (·.path)).Nodup) : frameImports imps = frameImports imps' := by
  rw [frameImports_eq, frameImports_eq, sortS_eq_of_perm (hp.map _)]
  exact List.map_congr_left (fun p _ => importLine_perm hp hnd p)

/-- one line per import, in sorted path order -/
theorem frameImports_length (imps : List ImportEnt) : (frameImports imps).length = imps.length := by
  simp [frameImports_eq, sortS_length]

/-- the `i`-th line is the line of the `i`-th smallest path, and that entry is in the map -/
theorem frameImports_get {imps : List ImportEnt} (hnd : (imps.map (·.path)).Nodup) {i : Nat} {p : String}
    (hi : (sortS (imps.map (·.path)))[i]? = some p) :
    ∃ e ∈ imps, e.path = p ∧
      (frameImports imps)[i]? = some (if e.differs then s!"{e.name} \"{p}\"" else s!"\"{p}\"") := by
  have hm : p ∈ imps.map (·.path) := sortS_mem.mp (List.mem_of_getElem? hi)
  obtain ⟨e, he, hep⟩ := List.mem_map.mp hm
  refine ⟨e, he, hep, ?_⟩
  have hf := (find_path_iff hnd).mpr ⟨he, hep⟩
  rw [frameImports_eq, List.getElem?_map, hi]
  simp only [Option.map_some, importLine, hf]

end WireP.PathProofs
