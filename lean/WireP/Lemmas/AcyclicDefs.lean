import Batteries.Data.List.Basic
import WireV.Acyclic
/-! # C07 vocabulary: paths, cycles, cycle trails (moved here from `WireP/Props/C07.lean`, same text,
so that the lemma files can state their results with them without an import cycle) -/
namespace WireP.C07
open WireV

/-- a non-empty path in the graph the detector walks -/
inductive Path (succ : Ty → List Ty) : Ty → Ty → Prop
  | single {a b : Ty} : b ∈ succ a → Path succ a b
  | cons {a b c : Ty} : b ∈ succ a → Path succ b c → Path succ a c

/-- the provider graph has a cycle -/
def Cyclic (succ : Ty → List Ty) : Prop := ∃ a, Path succ a a

/-- what a cycle diagnostic prints is a closed walk: first = last, consecutive elements are edges -/
def IsCycleTrail (succ : Ty → List Ty) (tr : List Ty) : Prop :=
  2 ≤ tr.length ∧ tr.head? = tr.getLast? ∧ List.IsChain (fun x y => y ∈ succ x) tr

end WireP.C07
