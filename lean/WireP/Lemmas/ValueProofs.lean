import WireV.Value
/-! # Lemmas for C13 — the expression whitelist of `processValue` -/
namespace WireP.ValueProofs
open WireV

theorem callAccepted_isType (fc : FunClass) : callAccepted "isType" fc = (fc == .typeExpr) := by
  simp [callAccepted]

mutual
theorem whitelist_sound_aux (w : WL) (hr : w.rule = "isType") (ha : w.arrowRejected = true) :
    ∀ e : VExpr, whitelistOk w e = true → evaluatesCall e = false
  | .node kind children => by
    intro h
    simp only [whitelistOk, Bool.and_eq_true] at h
    simp only [evaluatesCall]
    exact whitelist_sound_all w hr ha children h.2
  | .unary isArrow x => by
    intro h
    simp only [whitelistOk, Bool.and_eq_true, ha, Bool.true_and] at h
    simp only [evaluatesCall, Bool.or_eq_false_iff]
    refine ⟨?_, whitelist_sound_aux w hr ha x h.2⟩
    cases isArrow <;> simp_all
  | .call fc fn args => by
    intro h
    simp only [whitelistOk, Bool.and_eq_true, hr, callAccepted_isType] at h
    simp only [evaluatesCall, Bool.or_eq_false_iff]
    refine ⟨⟨?_, whitelist_sound_aux w hr ha fn h.1.2⟩, whitelist_sound_all w hr ha args h.2⟩
    cases fc <;> simp_all
theorem whitelist_sound_all (w : WL) (hr : w.rule = "isType") (ha : w.arrowRejected = true) :
    ∀ es : List VExpr, whitelistAll w es = true → evaluatesCallAny es = false
  | [] => by intro _; simp [evaluatesCallAny]
  | e :: es => by
    intro h
    simp only [whitelistAll, Bool.and_eq_true] at h
    simp only [evaluatesCallAny, Bool.or_eq_false_iff]
    exact ⟨whitelist_sound_aux w hr ha e h.1, whitelist_sound_all w hr ha es h.2⟩
end

theorem whitelist_sound (w : WL) (e : VExpr) (hr : w.rule = "isType") (ha : w.arrowRejected = true)
    (h : whitelistOk w e = true) : evaluatesCall e = false :=
  whitelist_sound_aux w hr ha e h

mutual
theorem whitelist_no_funclit_aux (w : WL) (hd : w.defaultRejects = true) (hg : "FuncLit" ∉ w.good) :
    ∀ e : VExpr, whitelistOk w e = true → hasFuncLit e = false
  | .node kind children => by
    intro h
    simp only [whitelistOk, Bool.and_eq_true, hd, Bool.not_true, Bool.or_false] at h
    simp only [hasFuncLit, Bool.or_eq_false_iff]
    refine ⟨?_, whitelist_no_funclit_all w hd hg children h.2⟩
    have h1 : kind ∈ w.good := by simpa using h.1
    apply Bool.eq_false_iff.mpr
    intro hk
    have : kind = "FuncLit" := by simpa using hk
    exact hg (this ▸ h1)
  | .unary isArrow x => by
    intro h
    simp only [whitelistOk, Bool.and_eq_true] at h
    simp only [hasFuncLit]
    exact whitelist_no_funclit_aux w hd hg x h.2
  | .call fc fn args => by
    intro h
    simp only [whitelistOk, Bool.and_eq_true] at h
    simp only [hasFuncLit, Bool.or_eq_false_iff]
    exact ⟨whitelist_no_funclit_aux w hd hg fn h.1.2, whitelist_no_funclit_all w hd hg args h.2⟩
theorem whitelist_no_funclit_all (w : WL) (hd : w.defaultRejects = true) (hg : "FuncLit" ∉ w.good) :
    ∀ es : List VExpr, whitelistAll w es = true → hasFuncLitAny es = false
  | [] => by intro _; simp [hasFuncLitAny]
  | e :: es => by
    intro h
    simp only [whitelistAll, Bool.and_eq_true] at h
    simp only [hasFuncLitAny, Bool.or_eq_false_iff]
    exact ⟨whitelist_no_funclit_aux w hd hg e h.1, whitelist_no_funclit_all w hd hg es h.2⟩
end

theorem whitelist_no_funclit (w : WL) (e : VExpr) (hd : w.defaultRejects = true) (hg : "FuncLit" ∉ w.good)
    (h : whitelistOk w e = true) : hasFuncLit e = false :=
  whitelist_no_funclit_aux w hd hg e h

end WireP.ValueProofs
