import WireP.Lemmas.SolveBigStep
/-! # What holds of `final pm sm given out`, the state `solve` inspects

`run` : the big-step lemma at the initial state, with the fuel bound;
then the corollaries that the property files `C02`, `C06`, `C08`, `C11` quote. -/
namespace WireP.Solve
open WireV

/-! ## the fuel bound -/

theorem wt_cons (k : Ty) (v : PT) (pm : PMap) (u : Ty) :
    wt ((k, v) :: pm) u = if u = k then 1 + degOf (k, v) else wt pm u := by
  unfold wt
  by_cases e : u = k
  · subst e; simp [look]
  · simp [look, e]

theorem sum_wt_cons (k : Ty) (v : PT) (pm : PMap) : ∀ (l : List Ty), l.Nodup →
    (l.map (wt ((k, v) :: pm))).sum ≤
      (if k ∈ l then 1 + degOf (k, v) else 0) + (l.map (wt pm)).sum := by
  intro l
  induction l with
  | nil => simp
  | cons x l ih =>
    intro hnd
    simp only [List.nodup_cons] at hnd
    have ih' := ih hnd.2
    simp only [List.map_cons, List.sum_cons, wt_cons, List.mem_cons]
    by_cases e : x = k
    · subst e
      have hnot : ¬ x ∈ l := hnd.1
      simp only [hnot, if_false] at ih'
      simp only [true_or, if_true]
      omega
    · have e' : ¬ k = x := fun h => e h.symm
      simp only [e, e', if_false, false_or]
      omega

/-- the weights of distinct types sum to at most the fuel's sum over the map -/
theorem sum_wt_le (pm : PMap) : ∀ (l : List Ty), l.Nodup →
    (l.map (wt pm)).sum ≤ (pm.map (fun kv => 1 + degOf kv)).sum := by
  induction pm with
  | nil =>
    intro l hnd
    clear hnd
    have hz : ∀ u, wt ([] : PMap) u = 0 := fun u => by simp [wt, look]
    have : (l.map (wt ([] : PMap))).sum = 0 := by
      induction l with
      | nil => rfl
      | cons x l ih => simp only [List.map_cons, List.sum_cons, hz, ih, Nat.zero_add]
    omega
  | cons kv pm ih =>
    obtain ⟨k, v⟩ := kv
    intro l hnd
    have h1 := sum_wt_cons k v pm l hnd
    have h2 := ih l hnd
    simp only [List.map_cons, List.sum_cons]
    split at h1 <;> omega

theorem cost_le_fuel {pm : PMap} {ext : List (Ty × Idx)} (hnd : (ext.map (·.1)).Nodup) :
    cost pm ext + 2 ≤ svFuel pm := by
  have := sum_wt_le pm (ext.map (·.1)) hnd
  unfold cost svFuel
  simp only [List.map_map, Function.comp_def] at this
  omega

/-! ## running the machine from the initial state -/

/-- everything the big-step lemma says about a complete run -/
structure Run (pm : PMap) (sm : SMap) (given : List Ty) (out : Ty) (s : SvSt) : Prop where
  inv : Inv pm sm given out s
  stk : s.stk = []
  outIdx : (look out s.index).isSome
  noCall : (look out (svInit given out).index).isSome ∨
    (look (resolveTy pm out) (svInit given out).index).isSome → s.calls = []
  lastCall : look out (svInit given out).index = none →
    look (resolveTy pm out) (svInit given out).index = none → s.errs = [] →
    (s.calls.getLast?).map (·.out) = some (resolveTy pm out)

theorem run {pm : PMap} (sm : SMap) {given : List Ty} (hH : H pm given) (out : Ty) :
    ∃ n s, iterO pm sm given.length n (svInit given out) = some s ∧ n + 1 ≤ svFuel pm ∧
      Run pm sm given out s := by
  have hI0 := Inv.init pm sm hH.givenNodup out
  obtain ⟨n, s, hn, hs, ho, _, ⟨ext, hx, hc⟩, hL1, hL2⟩ :=
    big (sm := sm) (out := out) hH out (svInit given out) ⟨out, []⟩ [] rfl rfl hI0
  have hI := Inv.iterO hH.concClosed hn hI0
  have hnd : (ext.map (·.1)).Nodup := by
    have := hI.idxND
    rw [hx, List.map_append] at this
    exact (List.nodup_append.mp this).1
  have := cost_le_fuel (pm := pm) hnd
  exact ⟨n, s, hn, by omega, hI, hs, ho, hL1, hL2⟩

theorem final_run {pm : PMap} (sm : SMap) {given : List Ty} (hH : H pm given) (out : Ty) :
    Run pm sm given out (final pm sm given out) := by
  obtain ⟨n, s, hn, hle, hr⟩ := run sm hH out
  have : final pm sm given out = s := svIter_of_iterO n (svFuel pm) _ s hn hr.stk (by omega)
  rw [this]; exact hr

section
variable {pm : PMap} {sm : SMap} {given : List Ty} {out : Ty}

/-! ## C02 -/

theorem solve_terminates (hH : H pm given) : (final pm sm given out).stk = [] :=
  (final_run sm hH out).stk

/-- one unit of fuel less would do: the stack is empty after `n < svFuel pm` steps -/
theorem solve_steps (hH : H pm given) :
    ∃ n, n + 1 ≤ svFuel pm ∧ (svIter pm sm given.length n (svInit given out)).stk = [] := by
  obtain ⟨n, s, hn, hle, hr⟩ := run sm hH out
  refine ⟨n, hle, ?_⟩
  rw [svIter_of_iterO n n _ s hn hr.stk (Nat.le_refl _)]
  exact hr.stk

theorem mkCall_ins {t : Ty} {src : Payload} {args : List Nat} {c : Call}
    (h : mkCall t src args = some c) (hf : ∀ f, src ≠ .fld f) : c.ins = depsOf src := by
  cases src with
  | arg i => simp [mkCall] at h
  | prov p => simp [mkCall] at h; subst h; rfl
  | val v => simp [mkCall] at h; subst h; rfl
  | fld f => exact absurd rfl (hf f)

theorem mkCall_ins_fld {t : Ty} {f : Fld} {args : List Nat} {c : Call}
    (h : mkCall t (.fld f) args = some c) : c.ins = [] := by
  simp [mkCall] at h; subst h; rfl

theorem solve_args_sound_partial (hcc : ConcClosed pm) (hnd : given.Nodup)
    (hg : GivenSelf pm given) :
    ∀ (p : Nat) c, (final pm sm given out).calls[p]? = some c →
      ∃ pt, look c.out pm = some pt ∧ pt.t = c.out ∧
        ((∀ f, pt.src ≠ .fld f) → c.ins = depsOf pt.src) ∧
        c.args.length = (depsOf pt.src).length ∧
        ∀ (j : Nat) a d, c.args[j]? = some a → (depsOf pt.src)[j]? = some d →
          a < given.length + p ∧
          produced given (final pm sm given out).calls a = some (resolveTy pm d) := by
  intro p c hpc
  have hI := Inv.final sm hcc hnd out
  obtain ⟨pt, hlp, hb, hmk, hlen⟩ := hI.callPay c (List.mem_of_getElem? hpc)
  exact ⟨pt, hlp, hb, mkCall_ins hmk, hlen, hI.callArgs hg p c pt hpc hlp⟩

theorem solve_call_payload (hcc : ConcClosed pm) (hnd : given.Nodup) :
    ∀ c ∈ (final pm sm given out).calls, ∃ pt, look c.out pm = some pt ∧ pt.t = c.out ∧
      (∀ i, pt.src ≠ .arg i) ∧ mkCall c.out pt.src c.args = some c := by
  intro c hc
  obtain ⟨pt, hlp, hb, hmk, _⟩ := (Inv.final sm hcc hnd out).callPay c hc
  refine ⟨pt, hlp, hb, ?_, hmk⟩
  intro i hi
  rw [hi] at hmk
  simp [mkCall] at hmk

theorem call_not_given {s : SvSt} (hI : Inv pm sm given out s) {p : Nat} {c : Call}
    (hpc : s.calls[p]? = some c) : c.out ∉ given := by
  intro hg
  obtain ⟨i, hi⟩ := List.getElem?_of_mem hg
  have h1 := hI.givenIdx i c.out hi
  rw [hI.callIdx p c hpc] at h1
  have := (List.getElem?_eq_some_iff.mp hi).1
  simp only [Option.some.injEq] at h1
  omega

theorem solve_outs_nodup (hcc : ConcClosed pm) (hnd : given.Nodup) :
    ((final pm sm given out).calls.map (·.out)).Nodup ∧
    ∀ c ∈ (final pm sm given out).calls, c.out ∉ given := by
  have hI := Inv.final sm hcc hnd out
  refine ⟨?_, ?_⟩
  · unfold List.Nodup
    rw [List.pairwise_map, List.pairwise_iff_getElem]
    intro i j hi hj hij heq
    have h1 := hI.callIdx i _ (List.getElem?_eq_getElem hi)
    have h2 := hI.callIdx j _ (List.getElem?_eq_getElem hj)
    rw [heq, h2] at h1
    simp only [Option.some.injEq] at h1
    omega
  · intro c hc
    obtain ⟨p, hp⟩ := List.getElem?_of_mem hc
    exact call_not_given hI hp

theorem solve_only_needed (hcc : ConcClosed pm) (hnd : given.Nodup) :
    ∀ c ∈ (final pm sm given out).calls, Reach pm out c.out := by
  intro c hc
  have hI := Inv.final sm hcc hnd out
  obtain ⟨p, hp⟩ := List.getElem?_of_mem hc
  rcases hI.idxReach c.out (by rw [hI.callIdx p c hp]; rfl) with h | h
  · exact absurd h (call_not_given hI hp)
  · exact h

/-- with no error, the requested type is indexed with a variable (not an abort marker) -/
theorem out_index (hH : H pm given) (he : (final pm sm given out).errs = []) :
    ∃ n, look out (final pm sm given out).index = some (some n) := by
  have hr := final_run sm hH out
  obtain ⟨i, hi⟩ := Option.isSome_iff_exists.mp hr.outIdx
  cases i with
  | none => exact absurd he (hr.inv.abortErr out hi)
  | some n => exact ⟨n, hi⟩

theorem solve_result_partial (hH : H pm given) (hg : GivenSelf pm given)
    (he : (final pm sm given out).errs = []) :
    ∃ n, look out (final pm sm given out).index = some (some n) ∧
      produced given (final pm sm given out).calls n = some (resolveTy pm out) := by
  obtain ⟨n, hn⟩ := out_index hH he
  exact ⟨n, hn, (final_run sm hH out).inv.idxSound hg out n hn⟩

theorem solve_result_last (hH : H pm given) (hc : (final pm sm given out).calls ≠ [])
    (he : (final pm sm given out).errs = []) :
    ((final pm sm given out).calls.getLast?).map (·.out) = some (resolveTy pm out) := by
  have hr := final_run sm hH out
  cases h1 : look out (svInit given out).index with
  | some i => exact absurd (hr.noCall (Or.inl (by simp [h1]))) hc
  | none =>
    cases h2 : look (resolveTy pm out) (svInit given out).index with
    | some i => exact absurd (hr.noCall (Or.inr (by simp [h2]))) hc
    | none => exact hr.lastCall h1 h2 he

/-! ## C06 -/

/-- under `GivenLeaf`, everything reachable from an indexed type is indexed -/
theorem reach_indexed {s : SvSt} (hI : Inv pm sm given out s) (hl : GivenLeaf pm given) :
    ∀ a u, Reach pm a u → (look a s.index).isSome → (look u s.index).isSome := by
  intro a u h
  induction h with
  | refl _ => exact id
  | @step a' b' c' hab _ ih =>
    intro ha
    by_cases hg : a' ∈ given
    · exact absurd hab (hl a' hg b')
    · exact ih (hI.closed a' ha hg b' hab)

theorem solve_missing_named (hcc : ConcClosed pm) (hnd : given.Nodup) :
    ∀ e ∈ (final pm sm given out).errs, ∃ t up, e = Err.noProvider t up ∧ look t pm = none ∧
      t ∉ given ∧ Reach pm out t :=
  (Inv.final sm hcc hnd out).errsNamed

theorem solve_missing_if (hcc : ConcClosed pm) (hnd : given.Nodup)
    (h : ∀ u, Reach pm out u → u ∈ given ∨ (look u pm).isSome) :
    (final pm sm given out).errs = [] := by
  cases he : (final pm sm given out).errs with
  | nil => rfl
  | cons e es =>
    obtain ⟨t, up, _, hlp, hng, hr⟩ :=
      solve_missing_named (sm := sm) (out := out) hcc hnd e (by rw [he]; exact List.mem_cons_self)
    rcases h t hr with h' | h'
    · exact absurd h' hng
    · rw [hlp] at h'; cases h'

theorem no_implicit_iface_partial (hH : H pm given) (hl : GivenLeaf pm given) {t : Ty}
    (hlp : look t pm = none) (hng : t ∉ given) (hr : Reach pm out t) :
    (final pm sm given out).errs ≠ [] := by
  have hfr := final_run sm hH out
  have hidx := reach_indexed hfr.inv hl out t hr hfr.outIdx
  exact hfr.inv.abortErr t (hfr.inv.noProvIdx t hidx hng hlp)

theorem solve_missing_iff_partial (hH : H pm given) (hl : GivenLeaf pm given) :
    (final pm sm given out).errs = [] ↔
      ∀ u, Reach pm out u → u ∈ given ∨ (look u pm).isSome := by
  refine ⟨?_, solve_missing_if hH.concClosed hH.givenNodup⟩
  intro he u hr
  by_cases hg : u ∈ given
  · exact Or.inl hg
  · cases hlp : look u pm with
    | some _ => exact Or.inr rfl
    | none => exact absurd he (no_implicit_iface_partial hH hl hlp hg hr)

/-! ## C08 -/

theorem used_sound (hcc : ConcClosed pm) (hnd : given.Nodup) :
    ∀ src ∈ (final pm sm given out).used,
      ∃ t, Reach pm out t ∧ t ∉ given ∧ look t sm = some src :=
  (Inv.final sm hcc hnd out).usedSound

theorem used_spec_partial (hH : H pm given) (hl : GivenLeaf pm given)
    (he : (final pm sm given out).errs = []) (src : SrcId) :
    src ∈ (final pm sm given out).used ↔
      ∃ t, Reach pm out t ∧ t ∉ given ∧ look t sm = some src := by
  refine ⟨used_sound hH.concClosed hH.givenNodup src, ?_⟩
  rintro ⟨t, hr, hng, hsm⟩
  have hfr := final_run sm hH out
  have hidx := reach_indexed hfr.inv hl out t hr hfr.outIdx
  have hpm : (look t pm).isSome := by
    rcases (solve_missing_iff_partial hH hl).mp he t hr with h | h
    · exact absurd h hng
    · exact h
  exact hfr.inv.usedCompl t hidx hng hpm src hsm

/-! ## C11 -/

theorem bind_no_call (hcc : ConcClosed pm) (hnd : given.Nodup) {k : Ty} {pt : PT}
    (hlp : look k pm = some pt) (hb : pt.t ≠ k) :
    ∀ c ∈ (final pm sm given out).calls, c.out ≠ k := by
  intro c hc e
  obtain ⟨pt', hlp', hb', _⟩ := (Inv.final sm hcc hnd out).callPay c hc
  rw [e, hlp] at hlp'
  cases hlp'
  exact hb (by rw [hb', e])

theorem bind_same_index_partial (hH : H pm given) (hl : GivenLeaf pm given) {k : Ty} {pt : PT}
    (hlp : look k pm = some pt) (hb : pt.t ≠ k) (hr : Reach pm out k) :
    look k (final pm sm given out).index = look pt.t (final pm sm given out).index := by
  have hfr := final_run sm hH out
  have hidx := reach_indexed hfr.inv hl out k hr hfr.outIdx
  have hng : k ∉ given := fun hg => hl k hg pt.t ⟨pt, hlp, Or.inl ⟨hb, rfl⟩⟩
  exact hfr.inv.bindIdx k pt hlp hb hng hidx

/-- a request for a bound interface is answered with the variable that holds the concrete value -/
theorem bind_value_partial (hH : H pm given) (hl : GivenLeaf pm given)
    (he : (final pm sm given out).errs = []) {k : Ty} {pt : PT}
    (hlp : look k pm = some pt) (hb : pt.t ≠ k) (hr : Reach pm out k) :
    ∃ n, look k (final pm sm given out).index = some (some n) ∧
      look pt.t (final pm sm given out).index = some (some n) ∧
      produced given (final pm sm given out).calls n = some pt.t := by
  have hfr := final_run sm hH out
  have hidx := reach_indexed hfr.inv hl out k hr hfr.outIdx
  obtain ⟨i, hi⟩ := Option.isSome_iff_exists.mp hidx
  cases i with
  | none => exact absurd he (hfr.inv.abortErr k hi)
  | some n =>
    refine ⟨n, hi, ?_, ?_⟩
    · rw [← bind_same_index_partial hH hl hlp hb hr]; exact hi
    · rw [← resolveTy_some hlp]; exact hfr.inv.idxSound hl.self k n hi

end

end WireP.Solve
