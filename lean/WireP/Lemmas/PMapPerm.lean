import WireP.Lemmas.PMapLookup
/-! # PMapPerm — C10: acceptance and content of `buildProviderMap` do not depend on declaration order -/

namespace WireP.C10
open WireV

/-- no binding's concrete type is the interface type of a binding of the same set -/
def NoChainedBind (bnds : List Bnd) : Prop := ∀ b ∈ bnds, b.provided ∉ bnds.map (·.iface)

/-- same set identities position by position, each imported map enumerated in a possibly different order -/
inductive ImportsEach : List (Nat × PMap) → List (Nat × PMap) → Prop
  | nil : ImportsEach [] []
  | cons {a b : Nat × PMap} {l l' : List (Nat × PMap)} :
      a.1 = b.1 → a.2.Perm b.2 → ImportsEach l l' → ImportsEach (a :: l) (b :: l')

/-- the imports are listed in a different order and each map is iterated in a different order -/
def ImportsPerm (imports imports' : List (Nat × PMap)) : Prop :=
  ∃ mid, imports.Perm mid ∧ ImportsEach mid imports'

end WireP.C10

namespace WireP.PMapProofs
open WireV WireP.C05 WireP.C10

section
variable {args : Option (List Ty)} {imports : List (Nat × PMap)} {provs : List Prov}
  {vals : List Val} {flds : List Fld} {bnds : List Bnd}

theorem mem_keys_item {l : List Item} {t : Ty} (h : t ∈ keys l) : ∃ v src, (t, v, src) ∈ l := by
  obtain ⟨⟨t', v, src⟩, hx, rfl⟩ := List.mem_map.mp h
  exact ⟨v, src, hx⟩

theorem item_mem_keys {l : List Item} {t : Ty} {v : PT} {src : SrcId} (h : (t, v, src) ∈ l) : t ∈ keys l :=
  List.mem_map.mpr ⟨_, h, rfl⟩

/-- sufficiency half of `bpm_ok_iff` (needs no hypothesis on chaining) -/
theorem bpm_ok_of (hnd : (allSources args imports provs vals flds bnds).Nodup)
    (hp : ∀ b ∈ bnds, b.provided ∈ baseSources args imports provs vals flds) :
    ∃ r, buildProviderMap args imports provs vals flds bnds = .ok r := by
  rw [allSources, List.nodup_append] at hnd
  obtain ⟨hb, hi, hd⟩ := hnd
  have h6 : (s6of args imports provs vals flds bnds).errs = [] := by
    rw [s6_clean_iff]
    refine ⟨hb, bErrs_eq_nil_of hi ?_ ?_⟩
    · intro b hbm hm
      exact hd _ (List.mem_reverse.mp hm) _ (List.mem_map.mpr ⟨b, hbm, rfl⟩) rfl
    · exact fun b hbm => List.mem_reverse.mpr (hp b hbm)
  exact ⟨_, (bpm_ok_iff_s6 ..).mpr ⟨h6, rfl, rfl⟩⟩

theorem ok_bind_provided {pm : PMap} {sm : SMap} (hnc : NoChainedBind bnds)
    (h : buildProviderMap args imports provs vals flds bnds = .ok (pm, sm)) :
    ∀ b ∈ bnds, b.provided ∈ baseSources args imports provs vals flds := by
  intro b hb
  have hl := bpm_ok_lookup h
  obtain ⟨c, hc, -⟩ := hl.bnd b hb
  have := (hl.pm_keys _).mp (by rw [hc]; rfl)
  rw [allSources, List.mem_append] at this
  exact this.resolve_right (hnc b hb)

theorem bpm_ok_iff (hnc : NoChainedBind bnds) :
    (∃ r, buildProviderMap args imports provs vals flds bnds = .ok r) ↔
      (allSources args imports provs vals flds bnds).Nodup ∧
      ∀ b ∈ bnds, b.provided ∈ baseSources args imports provs vals flds := by
  constructor
  · rintro ⟨⟨pm, sm⟩, h⟩
    exact ⟨bpm_never_picks _ _ _ _ _ _ h, ok_bind_provided hnc h⟩
  · rintro ⟨hnd, hp⟩
    exact bpm_ok_of hnd hp

/-- order-free description of the provider map of an accepted set without chained bindings -/
theorem ok_look_pm_iff {pm : PMap} {sm : SMap} (hnc : NoChainedBind bnds)
    (h : buildProviderMap args imports provs vals flds bnds = .ok (pm, sm)) (t : Ty) (v : PT) :
    look t pm = some v ↔
      (∃ src, (t, v, src) ∈ baseItems args imports provs vals flds) ∨
      (∃ b ∈ bnds, b.iface = t ∧ ∃ src, (b.provided, v, src) ∈ baseItems args imports provs vals flds) := by
  have hl := bpm_ok_lookup h
  constructor
  · intro hv
    have ht := (hl.pm_keys t).mp (by rw [hv]; rfl)
    rw [allSources, List.mem_append] at ht
    rcases ht with ht | ht
    · rw [← keys_baseItems] at ht
      obtain ⟨v', src, hx⟩ := mem_keys_item ht
      have := (ok_base_item h hx).1
      simp only at this
      rw [hv, Option.some.injEq] at this
      subst this
      exact Or.inl ⟨src, hx⟩
    · obtain ⟨b, hb, rfl⟩ := List.mem_map.mp ht
      obtain ⟨c, hc1, hc2, -⟩ := hl.bnd b hb
      have hcv : c = v := by rw [hv] at hc2; exact (Option.some.inj hc2).symm
      subst hcv
      have hp := ok_bind_provided hnc h b hb
      rw [← keys_baseItems] at hp
      obtain ⟨v', src, hx⟩ := mem_keys_item hp
      have := (ok_base_item h hx).1
      simp only at this
      rw [hc1, Option.some.injEq] at this
      subst this
      exact Or.inr ⟨b, hb, rfl, src, hx⟩
  · rintro (⟨src, hx⟩ | ⟨b, hb, rfl, src, hx⟩)
    · exact (ok_base_item h hx).1
    · obtain ⟨c, hc1, hc2, -⟩ := hl.bnd b hb
      have := (ok_base_item h hx).1
      simp only at this
      rw [hc1] at this
      rw [hc2, this]

/-- order-free description of the source map of an accepted set -/
theorem ok_look_sm_iff {pm : PMap} {sm : SMap}
    (h : buildProviderMap args imports provs vals flds bnds = .ok (pm, sm)) (t : Ty) (src : SrcId) :
    look t sm = some src ↔
      (∃ v, (t, v, src) ∈ baseItems args imports provs vals flds) ∨
      (∃ b ∈ bnds, b.iface = t ∧ src = .bnd b.id) := by
  have hl := bpm_ok_lookup h
  constructor
  · intro hv
    have ht := (hl.sm_keys t).mp (by rw [hv]; rfl)
    rw [allSources, List.mem_append] at ht
    rcases ht with ht | ht
    · rw [← keys_baseItems] at ht
      obtain ⟨v', src', hx⟩ := mem_keys_item ht
      have := (ok_base_item h hx).2
      simp only at this
      rw [hv, Option.some.injEq] at this
      subst this
      exact Or.inl ⟨v', hx⟩
    · obtain ⟨b, hb, rfl⟩ := List.mem_map.mp ht
      obtain ⟨c, -, -, hc⟩ := hl.bnd b hb
      rw [hv, Option.some.injEq] at hc
      exact Or.inr ⟨b, hb, rfl, hc⟩
  · rintro (⟨v, hx⟩ | ⟨b, hb, rfl, rfl⟩)
    · exact (ok_base_item h hx).2
    · obtain ⟨c, -, -, hc⟩ := hl.bnd b hb
      exact hc

end

/-! ### permutations -/

theorem impItems_perm {a b : Nat × PMap} (h1 : a.1 = b.1) (h2 : a.2.Perm b.2) :
    (impItems a).Perm (impItems b) := by
  unfold impItems
  rw [h1]
  exact h2.map _

theorem importsEach_items {l l' : List (Nat × PMap)} (h : ImportsEach l l') :
    (l.flatMap impItems).Perm (l'.flatMap impItems) := by
  induction h with
  | nil => exact List.Perm.refl _
  | cons h1 h2 _ ih =>
    simp only [List.flatMap_cons]
    exact (impItems_perm h1 h2).append ih

theorem importsPerm_items {l l' : List (Nat × PMap)} (h : ImportsPerm l l') :
    (l.flatMap impItems).Perm (l'.flatMap impItems) := by
  obtain ⟨mid, h1, h2⟩ := h
  exact (h1.flatMap_right _).trans (importsEach_items h2)

theorem baseItems_perm {args : Option (List Ty)} {imports imports' : List (Nat × PMap)}
    {provs provs' : List Prov} {vals vals' : List Val} {flds flds' : List Fld}
    (hi : ImportsPerm imports imports') (hp : provs.Perm provs') (hv : vals.Perm vals')
    (hf : flds.Perm flds') :
    (baseItems args imports provs vals flds).Perm (baseItems args imports' provs' vals' flds') := by
  unfold baseItems items1 items2
  exact ((List.Perm.refl _).append (importsPerm_items hi)).append
    (((hp.flatMap_right _).append (hv.map _)).append (hf.flatMap_right _))

theorem baseSources_perm {args : Option (List Ty)} {imports imports' : List (Nat × PMap)}
    {provs provs' : List Prov} {vals vals' : List Val} {flds flds' : List Fld}
    (hi : ImportsPerm imports imports') (hp : provs.Perm provs') (hv : vals.Perm vals')
    (hf : flds.Perm flds') :
    (baseSources args imports provs vals flds).Perm (baseSources args imports' provs' vals' flds') := by
  rw [← keys_baseItems, ← keys_baseItems]
  exact (baseItems_perm hi hp hv hf).map _

theorem noChainedBind_perm {bnds bnds' : List Bnd} (hb : bnds.Perm bnds') (h : NoChainedBind bnds) :
    NoChainedBind bnds' := by
  intro b hbm hm
  exact h b (hb.mem_iff.mpr hbm) ((hb.map _).mem_iff.mpr hm)

section
variable {args : Option (List Ty)} {imports imports' : List (Nat × PMap)}
  {provs provs' : List Prov} {vals vals' : List Val} {flds flds' : List Fld} {bnds bnds' : List Bnd}

theorem bpm_perm_ok (hi : ImportsPerm imports imports') (hp : provs.Perm provs') (hv : vals.Perm vals')
    (hf : flds.Perm flds') (hb : bnds.Perm bnds') (hnc : NoChainedBind bnds) :
    (∃ r, buildProviderMap args imports provs vals flds bnds = .ok r) ↔
    (∃ r, buildProviderMap args imports' provs' vals' flds' bnds' = .ok r) := by
  rw [bpm_ok_iff hnc, bpm_ok_iff (noChainedBind_perm hb hnc)]
  have hbase := baseSources_perm (args := args) hi hp hv hf
  have hall : (allSources args imports provs vals flds bnds).Perm
      (allSources args imports' provs' vals' flds' bnds') := hbase.append (hb.map _)
  rw [hall.nodup_iff]
  constructor
  · rintro ⟨h1, h2⟩
    exact ⟨h1, fun b hbm => hbase.mem_iff.mp (h2 b (hb.mem_iff.mpr hbm))⟩
  · rintro ⟨h1, h2⟩
    exact ⟨h1, fun b hbm => hbase.mem_iff.mpr (h2 b (hb.mem_iff.mp hbm))⟩

theorem bpm_perm_look (hi : ImportsPerm imports imports') (hp : provs.Perm provs') (hv : vals.Perm vals')
    (hf : flds.Perm flds') (hb : bnds.Perm bnds') (hnc : NoChainedBind bnds)
    {pm pm' : PMap} {sm sm' : SMap}
    (h : buildProviderMap args imports provs vals flds bnds = .ok (pm, sm))
    (h' : buildProviderMap args imports' provs' vals' flds' bnds' = .ok (pm', sm')) :
    ∀ t, look t pm = look t pm' ∧ look t sm = look t sm' := by
  have hitems := baseItems_perm (args := args) hi hp hv hf
  intro t
  constructor
  · apply Option.ext
    intro v
    rw [ok_look_pm_iff hnc h, ok_look_pm_iff (noChainedBind_perm hb hnc) h']
    simp only [hitems.mem_iff, hb.mem_iff]
  · apply Option.ext
    intro src
    rw [ok_look_sm_iff h, ok_look_sm_iff h']
    simp only [hitems.mem_iff, hb.mem_iff]

theorem bpm_perm (hi : ImportsPerm imports imports') (hp : provs.Perm provs') (hv : vals.Perm vals')
    (hf : flds.Perm flds') (hb : bnds.Perm bnds') (hnc : NoChainedBind bnds) :
    ((∃ r, buildProviderMap args imports provs vals flds bnds = .ok r) ↔
     (∃ r, buildProviderMap args imports' provs' vals' flds' bnds' = .ok r)) ∧
    ∀ pm sm pm' sm', buildProviderMap args imports provs vals flds bnds = .ok (pm, sm) →
      buildProviderMap args imports' provs' vals' flds' bnds' = .ok (pm', sm') →
      ∀ t, look t pm = look t pm' ∧ look t sm = look t sm' :=
  ⟨bpm_perm_ok hi hp hv hf hb hnc, fun _ _ _ _ h h' => bpm_perm_look hi hp hv hf hb hnc h h'⟩

end

/-- with a chained binding the order of the bindings matters: `Bind(I,J), Bind(J,C)` is rejected,
    `Bind(J,C), Bind(I,J)` is accepted (I = 0, J = 1, C = 2) -/
theorem bpm_perm_fails_chained :
    ∃ (provs : List Prov) (bnds bnds' : List Bnd), bnds.Perm bnds' ∧ ¬ NoChainedBind bnds ∧
      buildProviderMap none [] provs [] [] bnds = .error [Err.bindMissing 0 1] ∧
      ∃ r, buildProviderMap none [] provs [] [] bnds' = .ok r := by
  refine ⟨[{ id := 7, args := [], outs := [2] }], [⟨1, 0, 1⟩, ⟨2, 1, 2⟩], [⟨2, 1, 2⟩, ⟨1, 0, 1⟩],
    List.Perm.swap _ _ _, ?_, rfl, _, rfl⟩
  intro h
  exact h ⟨1, 0, 1⟩ (by simp) (by simp)

end WireP.PMapProofs
