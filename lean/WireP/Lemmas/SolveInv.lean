import WireP.Lemmas.SolveEff
/-! # The invariant of the planner machine

`Inv pm sm given out s` holds of `svInit given out` and is preserved by every step, for every map
(no acyclicity needed): it is the "safety" half of the planner theorems. -/
namespace WireP.Solve
open WireV

structure Inv (pm : PMap) (sm : SMap) (given : List Ty) (out : Ty) (s : SvSt) : Prop where
  idxND : (s.index.map (·.1)).Nodup
  givenIdx : ∀ (i : Nat) g, given[i]? = some g → look g s.index = some (some i)
  stkReach : ∀ f ∈ s.stk, Reach pm out f.t
  idxReach : ∀ u, (look u s.index).isSome → u ∈ given ∨ Reach pm out u
  closed : ∀ t, (look t s.index).isSome → t ∉ given → ∀ u, dep pm t u → (look u s.index).isSome
  errsNamed : ∀ e ∈ s.errs, ∃ t up, e = Err.noProvider t up ∧ look t pm = none ∧ t ∉ given ∧
    Reach pm out t
  abortErr : ∀ u, look u s.index = some none → s.errs ≠ []
  noProvIdx : ∀ u, (look u s.index).isSome → u ∉ given → look u pm = none →
    look u s.index = some none
  usedSound : ∀ src ∈ s.used, ∃ t, Reach pm out t ∧ t ∉ given ∧ look t sm = some src
  usedCompl : ∀ t, (look t s.index).isSome → t ∉ given → (look t pm).isSome →
    ∀ src, look t sm = some src → src ∈ s.used
  bindIdx : ∀ k pt, look k pm = some pt → pt.t ≠ k → k ∉ given → (look k s.index).isSome →
    look k s.index = look pt.t s.index
  callIdx : ∀ (p : Nat) c, s.calls[p]? = some c →
    look c.out s.index = some (some (given.length + p))
  callPay : ∀ c ∈ s.calls, ∃ pt, look c.out pm = some pt ∧ pt.t = c.out ∧
    mkCall c.out pt.src c.args = some c ∧ c.args.length = (depsOf pt.src).length
  idxSound : GivenSelf pm given → ∀ u n, look u s.index = some (some n) →
    produced given s.calls n = some (resolveTy pm u)
  callArgs : GivenSelf pm given → ∀ (p : Nat) c pt, s.calls[p]? = some c →
    look c.out pm = some pt → ∀ (j : Nat) a d, c.args[j]? = some a →
      (depsOf pt.src)[j]? = some d →
      a < given.length + p ∧ produced given s.calls a = some (resolveTy pm d)

/-! ## the initial state -/

theorem init_keys (given : List Ty) (out : Ty) :
    (svInit given out).index.map (·.1) = given.reverse := by
  simp [svInit, List.map_reverse, Function.comp_def]

theorem init_mem {given : List Ty} {out : Ty} {u : Ty} {v : Idx}
    (h : (u, v) ∈ (svInit given out).index) : ∃ i, v = some i ∧ given[i]? = some u := by
  simp only [svInit, List.mem_reverse, List.mem_map] at h
  obtain ⟨⟨g, i⟩, hm, he⟩ := h
  cases he
  exact ⟨i, rfl, List.mem_zipIdx_iff_getElem?.mp hm⟩

theorem init_look {given : List Ty} (hnd : given.Nodup) (out : Ty) {i : Nat} {g : Ty}
    (h : given[i]? = some g) : look g (svInit given out).index = some (some i) := by
  apply look_of_mem_nodup
  · rw [init_keys]; exact (List.reverse_perm given).nodup_iff.mpr hnd
  · simp only [svInit, List.mem_reverse, List.mem_map]
    exact ⟨(g, i), List.mem_zipIdx_iff_getElem?.mpr h, rfl⟩

theorem init_isSome {given : List Ty} {out : Ty} {u : Ty}
    (h : (look u (svInit given out).index).isSome) : u ∈ given := by
  have := (look_isSome_iff _ _).mp h
  rw [init_keys] at this
  exact List.mem_reverse.mp this

theorem Inv.init (pm : PMap) (sm : SMap) {given : List Ty} (hnd : given.Nodup) (out : Ty) :
    Inv pm sm given out (svInit given out) where
  idxND := by rw [init_keys]; exact (List.reverse_perm given).nodup_iff.mpr hnd
  givenIdx := fun i g h => init_look hnd out h
  stkReach := by
    intro f hf
    simp [svInit] at hf
    subst hf
    exact Reach.refl _
  idxReach := fun u h => Or.inl (init_isSome h)
  closed := fun t h hn => absurd (init_isSome h) hn
  errsNamed := by intro e he; simp [svInit] at he
  abortErr := by
    intro u h
    obtain ⟨i, hi, _⟩ := init_mem (look_mem h)
    cases hi
  noProvIdx := fun u h hn => absurd (init_isSome h) hn
  usedSound := by intro src h; simp [svInit] at h
  usedCompl := fun t h hn => absurd (init_isSome h) hn
  bindIdx := fun k pt _ _ hn h => absurd (init_isSome h) hn
  callIdx := by intro p c h; simp [svInit] at h
  callPay := by intro c h; simp [svInit] at h
  idxSound := by
    intro hg u n h
    obtain ⟨i, hi, hgi⟩ := init_mem (look_mem h)
    cases hi
    rw [hg u (List.mem_of_getElem? hgi)]
    exact produced_given hgi
  callArgs := by intro _ p c pt h; simp [svInit] at h

/-! ## preservation -/

theorem Inv.not_given {pm sm given out s} (hI : Inv pm sm given out s) {t : Ty}
    (h : look t s.index = none) : t ∉ given := by
  intro hg
  obtain ⟨i, hi⟩ := List.getElem?_of_mem hg
  rw [hI.givenIdx i t hi] at h
  cases h

theorem isSome_keep {β : Type} {t u : Ty} {v : β} {l : List (Ty × β)} (hn : look t l = none)
    (hu : (look u l).isSome) : (look u ((t, v) :: l)).isSome := by
  obtain ⟨i, hi⟩ := Option.isSome_iff_exists.mp hu
  rw [look_keep hn hi]; rfl

section
variable {pm : PMap} {sm : SMap} {given : List Ty} {out : Ty} {s s' : SvSt}

theorem pres_idxND (hI : Inv pm sm given out s) (he : Eff pm sm given.length s s') :
    (s'.index.map (·.1)).Nodup := by
  cases he with
  | quiet hi hc he hu hk => rw [hi]; exact hI.idxND
  | add curr v hin hfresh hi hk hdeps hfl =>
    rw [hi]
    simp only [List.map_cons, List.nodup_cons]
    exact ⟨(look_none_iff _ _).mp hfresh, hI.idxND⟩

theorem pres_givenIdx (hI : Inv pm sm given out s) (he : Eff pm sm given.length s s') :
    ∀ (i : Nat) g, given[i]? = some g → look g s'.index = some (some i) := by
  intro i g hg
  cases he with
  | quiet hi hc he hu hk => rw [hi]; exact hI.givenIdx i g hg
  | add curr v hin hfresh hi hk hdeps hfl =>
    rw [hi]; exact look_keep hfresh (hI.givenIdx i g hg)

theorem pres_stkReach (hI : Inv pm sm given out s) (he : Eff pm sm given.length s s') :
    ∀ f ∈ s'.stk, Reach pm out f.t := by
  intro f hf
  cases he with
  | quiet hi hc he hu hk =>
    rcases hk f hf with h | ⟨curr, hc, hd⟩
    · exact hI.stkReach f h
    · exact (hI.stkReach curr hc).snoc hd
  | add curr v hin hfresh hi hk hdeps hfl => exact hI.stkReach f (hk f hf)

theorem pres_idxReach (hI : Inv pm sm given out s) (he : Eff pm sm given.length s s') :
    ∀ u, (look u s'.index).isSome → u ∈ given ∨ Reach pm out u := by
  intro u hu
  cases he with
  | quiet hi hc he hu' hk => rw [hi] at hu; exact hI.idxReach u hu
  | add curr v hin hfresh hi hk hdeps hfl =>
    rw [hi] at hu
    by_cases e : u = curr.t
    · subst e; exact Or.inr (hI.stkReach curr hin)
    · rw [look_cons_ne _ _ e] at hu; exact hI.idxReach u hu

theorem pres_closed (hI : Inv pm sm given out s) (he : Eff pm sm given.length s s') :
    ∀ t, (look t s'.index).isSome → t ∉ given → ∀ u, dep pm t u → (look u s'.index).isSome := by
  intro t ht hng u hd
  cases he with
  | quiet hi hc he hu' hk => rw [hi] at ht ⊢; exact hI.closed t ht hng u hd
  | add curr v hin hfresh hi hk hdeps hfl =>
    rw [hi] at ht ⊢
    by_cases e : t = curr.t
    · subst e; exact isSome_keep hfresh (hdeps u hd)
    · rw [look_cons_ne _ _ e] at ht
      exact isSome_keep hfresh (hI.closed t ht hng u hd)

theorem pres_errsNamed (hI : Inv pm sm given out s) (he : Eff pm sm given.length s s') :
    ∀ e ∈ s'.errs, ∃ t up, e = Err.noProvider t up ∧ look t pm = none ∧ t ∉ given ∧
      Reach pm out t := by
  intro e hm
  cases he with
  | quiet hi hc he hu' hk => rw [he] at hm; exact hI.errsNamed e hm
  | add curr v hin hfresh hi hk hdeps hfl =>
    cases hfl with
    | noProv hlp _ he _ _ =>
      rw [he] at hm
      rcases List.mem_append.mp hm with h | h
      · exact hI.errsNamed e h
      · simp only [List.mem_singleton] at h
        exact ⟨curr.t, curr.up, h, hlp, hI.not_given hfresh, hI.stkReach curr hin⟩
    | bind pt _ _ _ he _ _ => rw [he] at hm; exact hI.errsNamed e hm
    | abort pt a _ _ _ _ he _ _ => rw [he] at hm; exact hI.errsNamed e hm
    | call pt c _ _ _ _ _ _ _ _ he _ => rw [he] at hm; exact hI.errsNamed e hm

theorem pres_abortErr (hI : Inv pm sm given out s) (he : Eff pm sm given.length s s') :
    ∀ u, look u s'.index = some none → s'.errs ≠ [] := by
  intro u hu
  have hmono : s.errs ≠ [] → s'.errs ≠ [] := by
    intro h
    obtain ⟨l, hl⟩ := he.errs_mono
    rw [hl]; simp [h]
  cases he with
  | quiet hi hc he hu' hk => rw [hi] at hu; exact hmono (hI.abortErr u hu)
  | add curr v hin hfresh hi hk hdeps hfl =>
    rw [hi] at hu
    by_cases e : u = curr.t
    · subst e
      rw [look_cons_self] at hu
      cases hu
      cases hfl with
      | noProv _ _ he _ _ => rw [he]; simp
      | bind pt _ _ hlc _ _ _ => exact hmono (hI.abortErr _ hlc)
      | abort pt a _ _ _ ha _ _ _ => exact hmono (hI.abortErr _ ha)
      | call pt c _ _ hv _ _ _ _ _ _ _ => cases hv
    · rw [look_cons_ne _ _ e] at hu; exact hmono (hI.abortErr u hu)

theorem pres_noProvIdx (hI : Inv pm sm given out s) (he : Eff pm sm given.length s s') :
    ∀ u, (look u s'.index).isSome → u ∉ given → look u pm = none →
      look u s'.index = some none := by
  intro u hu hng hlp
  cases he with
  | quiet hi hc he hu' hk => rw [hi] at hu ⊢; exact hI.noProvIdx u hu hng hlp
  | add curr v hin hfresh hi hk hdeps hfl =>
    rw [hi] at hu ⊢
    by_cases e : u = curr.t
    · subst e
      rw [look_cons_self]
      cases hfl with
      | noProv _ hv _ _ _ => rw [hv]
      | bind pt h _ _ _ _ _ => rw [hlp] at h; cases h
      | abort pt a h _ _ _ _ _ _ => rw [hlp] at h; cases h
      | call pt c h _ _ _ _ _ _ _ _ _ => rw [hlp] at h; cases h
    · rw [look_cons_ne _ _ e] at hu ⊢; exact hI.noProvIdx u hu hng hlp

theorem usedOf_sound (hI : Inv pm sm given out s) {curr : Frame} (hin : curr ∈ s.stk)
    (hfresh : look curr.t s.index = none) :
    ∀ src ∈ usedOf sm curr.t s.used, ∃ t, Reach pm out t ∧ t ∉ given ∧ look t sm = some src := by
  intro src hm
  rcases mem_usedOf hm with h | h
  · exact hI.usedSound src h
  · exact ⟨curr.t, hI.stkReach curr hin, hI.not_given hfresh, h⟩

theorem pres_usedSound (hI : Inv pm sm given out s) (he : Eff pm sm given.length s s') :
    ∀ src ∈ s'.used, ∃ t, Reach pm out t ∧ t ∉ given ∧ look t sm = some src := by
  intro src hm
  cases he with
  | quiet hi hc he hu hk =>
    rcases hu with hu | ⟨curr, hin, hfresh, _, hu⟩
    · rw [hu] at hm; exact hI.usedSound src hm
    · rw [hu] at hm; exact usedOf_sound hI hin hfresh src hm
  | add curr v hin hfresh hi hk hdeps hfl =>
    cases hfl with
    | noProv _ _ _ _ hu => rw [hu] at hm; exact hI.usedSound src hm
    | bind pt _ _ _ _ _ hu => rw [hu] at hm; exact usedOf_sound hI hin hfresh src hm
    | abort pt a _ _ _ _ _ _ hu => rw [hu] at hm; exact usedOf_sound hI hin hfresh src hm
    | call pt c _ _ _ _ _ _ _ _ _ hu => rw [hu] at hm; exact usedOf_sound hI hin hfresh src hm

theorem pres_usedCompl (hI : Inv pm sm given out s) (he : Eff pm sm given.length s s') :
    ∀ t, (look t s'.index).isSome → t ∉ given → (look t pm).isSome →
      ∀ src, look t sm = some src → src ∈ s'.used := by
  intro t ht hng hlp src hsrc
  have hmono := he.used_mono
  cases he with
  | quiet hi hc he hu hk =>
    rw [hi] at ht; exact hmono src (hI.usedCompl t ht hng hlp src hsrc)
  | add curr v hin hfresh hi hk hdeps hfl =>
    rw [hi] at ht
    by_cases e : t = curr.t
    · subst e
      cases hfl with
      | noProv h _ _ _ _ => rw [h] at hlp; cases hlp
      | bind pt _ _ _ _ _ hu => rw [hu]; exact mem_usedOf_self hsrc
      | abort pt a _ _ _ _ _ _ hu => rw [hu]; exact mem_usedOf_self hsrc
      | call pt c _ _ _ _ _ _ _ _ _ hu => rw [hu]; exact mem_usedOf_self hsrc
    · rw [look_cons_ne _ _ e] at ht
      exact hmono src (hI.usedCompl t ht hng hlp src hsrc)

theorem pres_bindIdx (hI : Inv pm sm given out s) (he : Eff pm sm given.length s s') :
    ∀ k pt, look k pm = some pt → pt.t ≠ k → k ∉ given → (look k s'.index).isSome →
      look k s'.index = look pt.t s'.index := by
  intro k pt hlp hb hng hk'
  cases he with
  | quiet hi hc he hu hk => rw [hi] at hk' ⊢; exact hI.bindIdx k pt hlp hb hng hk'
  | add curr v hin hfresh hi hk hdeps hfl =>
    rw [hi] at hk' ⊢
    by_cases e : k = curr.t
    · subst e
      rw [look_cons_self, look_cons_ne _ _ hb]
      cases hfl with
      | noProv h _ _ _ _ => rw [h] at hlp; cases hlp
      | bind pt' h _ hlc _ _ _ => rw [hlp] at h; cases h; exact hlc.symm
      | abort pt' a h hb' _ _ _ _ _ => rw [hlp] at h; cases h; exact absurd hb' hb
      | call pt' c h hb' _ _ _ _ _ _ _ _ => rw [hlp] at h; cases h; exact absurd hb' hb
    · rw [look_cons_ne _ _ e] at hk' ⊢
      have h1 := hI.bindIdx k pt hlp hb hng hk'
      have hne : pt.t ≠ curr.t := by
        intro e'
        rw [e', hfresh] at h1
        rw [h1] at hk'; cases hk'
      rw [look_cons_ne _ _ hne]; exact h1

theorem pres_callIdx (hI : Inv pm sm given out s) (he : Eff pm sm given.length s s') :
    ∀ (p : Nat) c, s'.calls[p]? = some c →
      look c.out s'.index = some (some (given.length + p)) := by
  intro p c hpc
  cases he with
  | quiet hi hc he hu hk => rw [hi]; rw [hc] at hpc; exact hI.callIdx p c hpc
  | add curr v hin hfresh hi hk hdeps hfl =>
    rw [hi]
    cases hfl with
    | noProv _ _ _ hc _ => rw [hc] at hpc; exact look_keep hfresh (hI.callIdx p c hpc)
    | bind pt _ _ _ _ hc _ => rw [hc] at hpc; exact look_keep hfresh (hI.callIdx p c hpc)
    | abort pt a _ _ _ _ _ hc _ => rw [hc] at hpc; exact look_keep hfresh (hI.callIdx p c hpc)
    | call pt c' _ _ hv hc _ hout _ _ _ _ =>
      rw [hc] at hpc
      by_cases hp : p < s.calls.length
      · rw [List.getElem?_append_left hp] at hpc
        exact look_keep hfresh (hI.callIdx p c hpc)
      · have hp' : s.calls.length ≤ p := by omega
        rw [List.getElem?_append_right hp'] at hpc
        have : p - s.calls.length = 0 := by
          cases hq : p - s.calls.length with
          | zero => rfl
          | succ q => rw [hq] at hpc; simp at hpc
        rw [this] at hpc
        simp only [List.getElem?_cons_zero, Option.some.injEq] at hpc
        subst hpc
        have hpe : p = s.calls.length := by omega
        rw [hout, look_cons_self, hv, hpe]

theorem pres_callPay (hI : Inv pm sm given out s) (he : Eff pm sm given.length s s') :
    ∀ c ∈ s'.calls, ∃ pt, look c.out pm = some pt ∧ pt.t = c.out ∧
      mkCall c.out pt.src c.args = some c ∧ c.args.length = (depsOf pt.src).length := by
  intro c hm
  cases he with
  | quiet hi hc he hu hk => rw [hc] at hm; exact hI.callPay c hm
  | add curr v hin hfresh hi hk hdeps hfl =>
    cases hfl with
    | noProv _ _ _ hc _ => rw [hc] at hm; exact hI.callPay c hm
    | bind pt _ _ _ _ hc _ => rw [hc] at hm; exact hI.callPay c hm
    | abort pt a _ _ _ _ _ hc _ => rw [hc] at hm; exact hI.callPay c hm
    | call pt c' hlp hb hv hc hmk hout hlen _ _ _ =>
      rw [hc] at hm
      rcases List.mem_append.mp hm with h | h
      · exact hI.callPay c h
      · simp only [List.mem_singleton] at h
        subst h
        exact ⟨pt, by rw [hout]; exact hlp, by rw [hout]; exact hb, hmk, hlen⟩

theorem pres_idxSound (hcc : ConcClosed pm) (hI : Inv pm sm given out s)
    (he : Eff pm sm given.length s s') :
    GivenSelf pm given → ∀ u n, look u s'.index = some (some n) →
      produced given s'.calls n = some (resolveTy pm u) := by
  intro hg u n hu
  obtain ⟨l, hl⟩ := he.calls_mono
  have hold : ∀ u n, look u s.index = some (some n) →
      produced given s'.calls n = some (resolveTy pm u) := by
    intro u n h
    rw [hl]; exact produced_append l (hI.idxSound hg u n h)
  cases he with
  | quiet hi hc he hu' hk => rw [hi] at hu; exact hold u n hu
  | add curr v hin hfresh hi hk hdeps hfl =>
    rw [hi] at hu
    by_cases e : u = curr.t
    · subst e
      rw [look_cons_self] at hu
      cases hu
      cases hfl with
      | noProv _ hv _ _ _ => cases hv
      | bind pt hlp _ hlc _ _ _ =>
        rw [resolveTy_some hlp, ← resolveTy_conc hcc hlp]
        exact hold _ _ hlc
      | abort pt a _ _ hv _ _ _ _ => cases hv
      | call pt c hlp hb hv hc _ hout _ _ _ _ =>
        cases hv
        rw [hc, produced_new, hout, resolveTy_some hlp, hb]
    · rw [look_cons_ne _ _ e] at hu; exact hold u n hu

theorem pres_callArgs (hI : Inv pm sm given out s) (he : Eff pm sm given.length s s') :
    GivenSelf pm given → ∀ (p : Nat) c pt, s'.calls[p]? = some c →
      look c.out pm = some pt → ∀ (j : Nat) a d, c.args[j]? = some a →
        (depsOf pt.src)[j]? = some d →
        a < given.length + p ∧ produced given s'.calls a = some (resolveTy pm d) := by
  intro hg p c pt hpc hlp j a d haj hdj
  cases he with
  | quiet hi hc he hu hk =>
    rw [hc] at hpc ⊢; exact hI.callArgs hg p c pt hpc hlp j a d haj hdj
  | add curr v hin hfresh hi hk hdeps hfl =>
    cases hfl with
    | noProv _ _ _ hc _ => rw [hc] at hpc ⊢; exact hI.callArgs hg p c pt hpc hlp j a d haj hdj
    | bind pt' _ _ _ _ hc _ => rw [hc] at hpc ⊢; exact hI.callArgs hg p c pt hpc hlp j a d haj hdj
    | abort pt' a' _ _ _ _ _ hc _ =>
      rw [hc] at hpc ⊢; exact hI.callArgs hg p c pt hpc hlp j a d haj hdj
    | call pt' c' hlp' hb hv hc _ hout _ hargs _ _ =>
      rw [hc] at hpc ⊢
      by_cases hp : p < s.calls.length
      · rw [List.getElem?_append_left hp] at hpc
        have := hI.callArgs hg p c pt hpc hlp j a d haj hdj
        exact ⟨this.1, produced_append _ this.2⟩
      · have hp' : s.calls.length ≤ p := by omega
        rw [List.getElem?_append_right hp'] at hpc
        have h0 : p - s.calls.length = 0 := by
          cases hq : p - s.calls.length with
          | zero => rfl
          | succ q => rw [hq] at hpc; simp at hpc
        rw [h0] at hpc
        simp only [List.getElem?_cons_zero, Option.some.injEq] at hpc
        subst hpc
        rw [hout, hlp'] at hlp
        cases hlp
        have hpe : p = s.calls.length := by omega
        have h1 := hI.idxSound hg d a (hargs j a d haj hdj)
        have h2 := produced_lt h1
        exact ⟨by omega, produced_append _ h1⟩

/-- **the invariant is preserved by every step** -/
theorem Inv.step (hcc : ConcClosed pm) (hI : Inv pm sm given out s)
    (h : Step pm sm given.length s s') : Inv pm sm given out s' :=
  have he := h.eff
  { idxND := pres_idxND hI he
    givenIdx := pres_givenIdx hI he
    stkReach := pres_stkReach hI he
    idxReach := pres_idxReach hI he
    closed := pres_closed hI he
    errsNamed := pres_errsNamed hI he
    abortErr := pres_abortErr hI he
    noProvIdx := pres_noProvIdx hI he
    usedSound := pres_usedSound hI he
    usedCompl := pres_usedCompl hI he
    bindIdx := pres_bindIdx hI he
    callIdx := pres_callIdx hI he
    callPay := pres_callPay hI he
    idxSound := pres_idxSound hcc hI he
    callArgs := pres_callArgs hI he }

end

theorem Inv.iterO {pm sm given out} (hcc : ConcClosed pm) {n : Nat} {s s' : SvSt}
    (h : iterO pm sm given.length n s = some s') (hI : Inv pm sm given out s) :
    Inv pm sm given out s' :=
  iterO_induct (Inv pm sm given out) (fun _ _ hi hs => hi.step hcc hs) n s s' h hI

/-- the invariant holds in the state `solve` inspects, whatever the fuel -/
theorem Inv.final {pm : PMap} (sm : SMap) {given : List Ty} (hcc : ConcClosed pm)
    (hnd : given.Nodup) (out : Ty) : Inv pm sm given out (final pm sm given out) :=
  svIter_induct (Inv pm sm given out) (fun _ _ hi hs => hi.step hcc hs) _ _
    (Inv.init pm sm hnd out)

end WireP.Solve
