import WireV.Driver
open WireV

partial def loop (h : IO.FS.Stream) (out : IO.FS.Stream) : IO Unit := do
  let line ← h.getLine
  if line.isEmpty then return ()
  let l := ((line.splitOn "\n").headD "")
  out.putStrLn (handleLine l)
  loop h out

def main : IO Unit := do
  let out ← IO.getStdout
  loop (← IO.getStdin) out
  out.flush
