#!/bin/bash
# confirm_seed.sh Cxx [name] — verify a sub-agent's change in its scratch worktree and store it under /verif/seeded/
set -u
ID=$1; NAME=${2:-$1-a}
W=/tmp/mut-$ID; O=/tmp/mutout-$ID
export GOFLAGS=-mod=mod GOPROXY=off GOSUMDB=off GOTOOLCHAIN=local
cd $W || exit 2
git diff > /tmp/confirm.diff
[ -s /tmp/confirm.diff ] || { echo "no change in $W"; exit 2; }
go build ./... || { echo "BUILD FAILS"; exit 2; }
T=$(go test -vet=off -count=1 ./... 2>&1 | grep -E "^\s+--- FAIL|^--- FAIL" | tr -d ' ' | sort | tr '\n' ' ')
echo "failing tests: $T"
case "$T" in "---FAIL:TestWire(0."*"---FAIL:TestWire/UnexportedStruct("*) ;; *) echo "TESTS DIFFER"; exit 2;; esac
[ "$(echo $T | wc -w)" = "2" ] || { echo "TESTS DIFFER (count)"; exit 2; }
bash $O/demo/run.sh /tmp/mut-base > /tmp/confirm.base.log 2>&1; B=$?
bash $O/demo/run.sh $W > /tmp/confirm.mut.log 2>&1; M=$?
echo "demo: base=$B mutant=$M"
[ $B = 0 ] && [ $M != 0 ] || { echo "DEMO DOES NOT DISCRIMINATE"; tail -5 /tmp/confirm.base.log /tmp/confirm.mut.log; exit 2; }
D=/verif/seeded/$NAME
rm -rf $D; mkdir -p $D
cp /tmp/confirm.diff $D/patch.diff
cp -r $O/demo $D/demo
[ -f $O/README.md ] && cp $O/README.md $D/README.md
python3 - "$ID" "$D" "$B" "$M" <<'PY'
import json,sys
id_,d,b,m=sys.argv[1:]
readme=open(d+'/README.md').read() if __import__('os').path.exists(d+'/README.md') else ''
json.dump({"property":id_,"origin":"fresh sub-agent given only the property text and a scratch worktree",
  "needs_to_manifest": readme[:1500],
  "confirmed":{"compiles":True,"pinned_suite":"same results as the unchanged tree (only TestWire/UnexportedStruct fails)",
               "demo_exit_on_base":int(b),"demo_exit_with_change":int(m),
               "ran":["go build ./...","go test -vet=off -count=1 ./...","demo/run.sh /tmp/mut-base","demo/run.sh /tmp/mut-%s"%id_]}},
  open(d+'/meta.json','w'),indent=1)
PY
echo "stored $D"
