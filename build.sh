#!/bin/bash
# Build everything the checks need from /repo's current working tree (idempotent, offline).
set -e
export GOFLAGS=-mod=mod GOPROXY=off GOSUMDB=off GOTOOLCHAIN=local
V=/verif
mkdir -p $V/.build
python3 - <<PY
import json,os,glob
rep={}
for f in glob.glob('$V/harness/overlay/wire/*.go'):
    rep['/repo/internal/wire/'+os.path.basename(f)]=f
rep['/repo/cmd/wireverif/main.go']='$V/harness/overlay/wireverif/main.go'
for f in glob.glob('$V/harness/overlay/cmdwire/*.go'):
    rep['/repo/cmd/wire/'+os.path.basename(f)]=f
json.dump({'Replace':rep},open('$V/.build/overlay.json','w'),indent=1)
PY
(cd /repo && go build -o $V/.build/wire ./cmd/wire) || echo "BUILD-FAIL wire" 
(cd /repo && go build -tags verif -overlay $V/.build/overlay.json -o $V/.build/wireverif ./cmd/wireverif) || { rm -f $V/.build/wireverif; echo "BUILD-FAIL wireverif"; }
if [ "$1" != "--no-lean" ]; then
  (cd $V/lean && lake build 2>&1 | grep -v '^✔' | tail -30)
fi
