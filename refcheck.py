#!/usr/bin/env python3
"""refcheck.py <patch.diff> [props…] — run the checks (all 20 by default, quick tier) against a behaviour-preserving
refactoring of google/wire; every VIOLATION line is a false alarm of the machinery.

Nothing is done in /repo or /verif: the patch is applied in a scratch worktree of /repo's HEAD and the checks run from a
snapshot copy of /verif (VERIF_HOME / VERIF_REPO), so that this can run next to other work.  Both are removed afterwards."""
import json
import os
import shutil
import subprocess
import sys
import tempfile
import time


def sh(cmd, **kw):
    return subprocess.run(cmd, shell=True, capture_output=True, text=True, **kw)


def main():
    patch = os.path.abspath(sys.argv[1])
    props = sys.argv[2:] or ["C%02d" % i for i in range(1, 21)]
    base = tempfile.mkdtemp(prefix="refcheck.")
    wt, home = base + "/repo", base + "/verif"
    res = {}
    try:
        # the refactorings under /verif/refactors were written against this commit of /repo
        r = sh("git -C /repo worktree add -q --detach %s %s" % (wt, os.environ.get("REF_BASE", "3397c34")))
        if r.returncode != 0:
            print("cannot create worktree:", r.stderr)
            return 2
        r = sh("git -C %s apply %s" % (wt, patch))
        if r.returncode != 0:
            print("patch does not apply:", r.stderr)
            return 2
        sh("cp -r /verif %s" % home)
        shutil.rmtree(home + "/replays", ignore_errors=True)
        env = dict(os.environ, VERIF_HOME=home, VERIF_REPO=wt)
        for p in props:
            t = time.time()
            r = subprocess.run([home + "/check", p, "--tier", "quick"], capture_output=True, text=True, env=env, cwd=home)
            lines = [l for l in r.stdout.split("\n") if l.startswith("VIOLATION")]
            why = []
            for l in lines[:2]:
                try:
                    d = json.load(open(l.split("replay=")[1].split()[0]))
                    why.append(str({k: d.get(k) for k in ("kind", "what", "why", "theorem", "first") if d.get(k)})[:600])
                except Exception as e:
                    why.append(str(e))
            res[p] = {"exit": r.returncode, "violations": lines[:3], "why": why, "wall_s": round(time.time() - t, 1)}
            print(p, "exit", r.returncode, lines[:2], why[:1], flush=True)
    finally:
        sh("git -C /repo worktree remove --force %s" % wt)
        shutil.rmtree(base, ignore_errors=True)
        sh("git -C /repo worktree prune")
    json.dump(res, open(patch + ".refcheck.json", "w"), indent=1)
    return 0


if __name__ == "__main__":
    sys.exit(main())
