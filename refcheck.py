#!/usr/bin/env python3
"""refcheck.py <patch.diff> [props…] — apply a behaviour-preserving refactoring to /repo, run the checks (all 20 by
default, quick tier), undo it; every VIOLATION line is a false alarm of the machinery."""
import json
import subprocess
import sys
import time


def sh(cmd):
    return subprocess.run(cmd, shell=True, capture_output=True, text=True)


def main():
    patch = sys.argv[1]
    props = sys.argv[2:] or ["C%02d" % i for i in range(1, 21)]
    assert sh("git -C /repo status --porcelain").stdout.strip() == "", "/repo is not clean"
    r = sh("git -C /repo apply %s" % patch)
    if r.returncode != 0:
        print("patch does not apply:", r.stderr)
        return 2
    res = {}
    try:
        for p in props:
            t = time.time()
            r = sh("cd /verif && ./check %s --tier quick" % p)
            lines = [l for l in r.stdout.split("\n") if l.startswith("VIOLATION")]
            res[p] = {"exit": r.returncode, "violations": lines[:3], "wall_s": round(time.time() - t, 1)}
            print(p, "exit", r.returncode, lines[:2], flush=True)
    finally:
        sh("git -C /repo checkout -- .")
        sh("git -C /repo clean -fdq -- internal cmd")
    json.dump(res, open(patch + ".refcheck.json", "w"), indent=1)
    return 0


if __name__ == "__main__":
    sys.exit(main())
