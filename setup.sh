#!/bin/bash
# Offline setup after a fresh restore: build the Lean model, proofs and driver, and the Go tools.
set -e
cd /verif
export GOFLAGS=-mod=mod GOPROXY=off GOSUMDB=off GOTOOLCHAIN=local
mkdir -p .build
(cd extract && go build -o ../.build/extract . && ../.build/extract /repo /verif/lean/WireV/Generated/Tables.lean)
(cd harness/irparse && go build -o ../../.build/irparse .)
(cd lean && lake build 2>&1 | grep -v '^✔' | tail -20)
python3 -c "
import sys; sys.path.insert(0,'/verif')
from vlib import common
st=common.build_go(); print('wire', st.wire_ok, 'harness', st.harness_ok)
"
