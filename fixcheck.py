#!/usr/bin/env python3
"""fixcheck.py <fix-commit> <prop> [prop…] — take one `fix:` commit of /repo back (working tree only), run the named checks
and restore the tree: each repaired defect must be reported again if it returns."""
import subprocess
import sys


def sh(cmd):
    return subprocess.run(cmd, shell=True, capture_output=True, text=True)


def main():
    c, props = sys.argv[1], sys.argv[2:]
    assert sh("git -C /repo status --porcelain").stdout.strip() == "", "/repo is not clean"
    r = sh("git -C /repo diff %s~1 %s > /tmp/fixcheck.diff && git -C /repo apply -R --3way /tmp/fixcheck.diff" % (c, c))
    if r.returncode != 0:
        print("cannot take the commit back:", r.stderr[-300:])
        sh("git -C /repo checkout -- . ; git -C /repo reset -q")
        return 2
    try:
        for p in props:
            r = sh("cd /verif && ./check %s --tier quick" % p)
            lines = [l for l in r.stdout.split("\n") if l.startswith("VIOLATION")]
            print(c, p, "exit", r.returncode, lines[:2], flush=True)
    finally:
        sh("git -C /repo reset -q; git -C /repo checkout -- .")
    return 0


if __name__ == "__main__":
    sys.exit(main())
