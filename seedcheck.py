#!/usr/bin/env python3
"""seedcheck.py <seed-dir> [props…]  — apply /verif/seeded/<id>/patch.diff to /repo, run the named checks
(default: the property in meta.json), undo the patch, report which checks raised VIOLATION."""
import json
import subprocess
import sys
import time

def sh(cmd, **kw):
    return subprocess.run(cmd, shell=True, capture_output=True, text=True, **kw)

def main():
    d = sys.argv[1].rstrip("/")
    meta = json.load(open(d + "/meta.json"))
    props = sys.argv[2:] or [meta["property"]]
    tier = "quick"
    assert sh("git -C /repo status --porcelain").stdout.strip() == "", "/repo is not clean"
    r = sh("git -C /repo apply %s/patch.diff" % d)
    if r.returncode != 0:
        print("patch does not apply:", r.stderr)
        return 2
    res = {}
    try:
        for p in props:
            t = time.time()
            r = sh("cd /verif && ./check %s --tier %s" % (p, tier))
            lines = [l for l in r.stdout.split("\n") if l.startswith("VIOLATION")]
            res[p] = {"exit": r.returncode, "violations": lines[:3], "wall_s": round(time.time() - t, 1)}
            print(p, "exit", r.returncode, lines[:2])
    finally:
        sh("git -C /repo checkout -- .")
        sh("git -C /repo clean -fdq -- internal cmd")   # files added by a patch
    meta.setdefault("detection", {}).update(res)
    json.dump(meta, open(d + "/meta.json", "w"), indent=1)
    return 0

if __name__ == "__main__":
    sys.exit(main())
