//go:build verif

// Command wireverif is the unit-tier correspondence harness.  It is compiled into the
// repository with `go build -tags verif -overlay …` and never committed there.
package main

import (
	"os"

	"github.com/google/wire/internal/wire"
)

func main() { os.Exit(wire.VerifMain(os.Args[1:])) }
