//go:build verif

package main

import (
	"bufio"
	"fmt"
	"go/types"
	"os"
	"sort"
	"strconv"
	"strings"

	"github.com/google/wire/internal/wire"
)

// With WIREVERIF_GATHER=<seed>,<n>,<dir> the binary runs the gather correspondence stream instead of
// the command line: req.txt holds the model requests, impl.txt what the real gather answers.
func init() {
	spec := os.Getenv("WIREVERIF_GATHER")
	if spec == "" {
		return
	}
	parts := strings.Split(spec, ",")
	seed, _ := strconv.ParseInt(parts[0], 10, 64)
	n, _ := strconv.Atoi(parts[1])
	dir := parts[2]
	fr, _ := os.Create(dir + "/req.txt")
	fi, _ := os.Create(dir + "/impl.txt")
	wr, wi := bufio.NewWriter(fr), bufio.NewWriter(fi)
	for _, c := range wire.VerifGatherCases(seed, n, 10) {
		reply := func() (s string) {
			defer func() {
				if r := recover(); r != nil {
					s = fmt.Sprintf("panic %q", fmt.Sprint(r))
				}
			}()
			groups, _ := gather(c.Info, c.Key)
			var strs []string
			for _, g := range groups {
				var ins, outs []int
				g.inputs.Iterate(func(k types.Type, _ interface{}) { ins = append(ins, c.TypeID(k)) })
				g.outputs.Iterate(func(k types.Type, _ interface{}) { outs = append(outs, c.TypeID(k)) })
				sort.Ints(ins)
				sort.Ints(outs)
				strs = append(strs, join(ins)+"|"+join(outs))
			}
			sort.Strings(strs)
			return strings.TrimSpace("groups " + strings.Join(strs, " "))
		}()
		fmt.Fprintln(wr, c.Req)
		fmt.Fprintln(wi, reply)
	}
	wr.Flush()
	wi.Flush()
	fr.Close()
	fi.Close()
	os.Exit(0)
}

func join(xs []int) string {
	ss := make([]string, len(xs))
	for i, x := range xs {
		ss[i] = strconv.Itoa(x)
	}
	return strings.Join(ss, ",")
}
