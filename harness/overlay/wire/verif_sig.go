//go:build verif

package wire

import (
	"fmt"
	"go/token"
	"go/types"
	"regexp"
	"strings"
)

// Result-type varieties for the exhaustive signature stream, with the abstract kind the model
// is told (0 other, 1 identical to error, 2 identical to func()).
type sigVariety struct {
	name string
	abs  int
	mk   func(pkg *types.Package) types.Type
}

func sigVarieties() []sigVariety {
	named := func(name string, under types.Type) func(*types.Package) types.Type {
		return func(pkg *types.Package) types.Type {
			return types.NewNamed(types.NewTypeName(token.NoPos, pkg, name, nil), under, nil)
		}
	}
	return []sigVariety{
		{"value", 0, named("V", types.NewStruct(nil, nil))},
		{"error", 1, func(*types.Package) types.Type { return types.Universe.Lookup("error").Type() }},
		{"func()", 2, func(*types.Package) types.Type { return types.NewSignature(nil, nil, nil, false) }},
		{"namedFn", 0, named("Fn", types.NewSignature(nil, nil, nil, false))},
		{"aliasFn", 2, func(pkg *types.Package) types.Type {
			// type A = func(): an alias denotes the very same type
			tn := types.NewTypeName(token.NoPos, pkg, "A", types.NewSignature(nil, nil, nil, false))
			return tn.Type()
		}},
		{"otherFn", 0, func(pkg *types.Package) types.Type {
			return types.NewSignature(nil, types.NewTuple(types.NewParam(token.NoPos, pkg, "x", types.Typ[types.Int])), nil, false)
		}},
		{"namedErr", 0, named("MyErr", types.Universe.Lookup("error").Type().Underlying())},
		{"basic", 0, func(*types.Package) types.Type { return types.Typ[types.String] }},
	}
}

var (
	reSecond = regexp.MustCompile(`^second return type is .*; must be`)
	reThird  = regexp.MustCompile(`^third return type is .*; must be error`)
	reDupArg = regexp.MustCompile(`provider (?:struct )?has multiple (?:parameters|fields) of type (.*?)(?: \(\S+ and \S+\))?$`)
)

func sigErrStr(err error) string {
	msg := err.Error()
	switch {
	case msg == "no return values":
		return "err noreturn"
	case msg == "too many return values":
		return "err toomany"
	case reSecond.MatchString(msg):
		return "err second"
	case reThird.MatchString(msg):
		return "err third"
	}
	return "unparsed:" + msg
}

// runSigStreams: every result list of length 0..maxLen over the varieties through the real
// funcOutput (via processFuncProvider, which also exercises the duplicate-parameter rule), then
// every parameter list of length <= 4 over 3 types (spelled afresh each time).
func runSigStreams(out *vOut, maxLen int) {
	pkg := types.NewPackage("example.com/p", "p")
	vs := sigVarieties()
	fset := token.NewFileSet()
	var rec func(prefix []int)
	rec = func(prefix []int) {
		vars := make([]*types.Var, len(prefix))
		abs := make([]string, len(prefix))
		for i, k := range prefix {
			vars[i] = types.NewParam(token.NoPos, pkg, "", vs[k].mk(pkg))
			abs[i] = fmt.Sprint(vs[k].abs)
		}
		sig := types.NewSignature(nil, nil, types.NewTuple(vars...), false)
		req := strings.TrimSpace("sig " + strings.Join(abs, " "))
		_, reply := guarded(func() (string, string) {
			o, err := funcOutput(sig)
			if err != nil {
				return req, sigErrStr(err)
			}
			// the provider path must agree with the bare function
			fn := types.NewFunc(token.NoPos, pkg, "F", sig)
			p, errs := processFuncProvider(fset, fn)
			if len(errs) > 0 || p.HasCleanup != o.cleanup || p.HasErr != o.err || !types.Identical(p.Out[0], vars[0].Type()) {
				return req, fmt.Sprintf("provider-path-disagrees %v", errs)
			}
			return req, fmt.Sprintf("ok %d%d", b2i(o.cleanup), b2i(o.err))
		}, func() string { return req })
		out.emit(req, reply)
		if len(prefix) < maxLen {
			for k := range vs {
				rec(append(append([]int(nil), prefix...), k))
			}
		}
	}
	rec(nil)
	// duplicate parameters: types 0,1,2 = *T, []T, T built afresh per occurrence
	tn := types.NewNamed(types.NewTypeName(token.NoPos, pkg, "T", nil), types.NewStruct(nil, nil), nil)
	mk := func(k int) types.Type {
		switch k {
		case 0:
			return types.NewPointer(tn)
		case 1:
			return types.NewSlice(tn)
		}
		return tn
	}
	strID := map[string]int{}
	for k := 0; k < 3; k++ {
		strID[types.TypeString(mk(k), nil)] = k
	}
	var rec2 func(prefix []int)
	rec2 = func(prefix []int) {
		vars := make([]*types.Var, len(prefix))
		abs := make([]string, len(prefix))
		for i, k := range prefix {
			vars[i] = types.NewParam(token.NoPos, pkg, fmt.Sprintf("a%d", i), mk(k))
			abs[i] = fmt.Sprint(k)
		}
		res := types.NewTuple(types.NewParam(token.NoPos, pkg, "", tn))
		req := strings.TrimSpace("dupparam " + strings.Join(abs, " "))
		// a trailing []T parameter is also written as a variadic ...T: the same input list, the same verdict
		variants := []bool{false}
		if n := len(prefix); n > 0 && prefix[n-1] == 1 {
			variants = append(variants, true)
		}
		for _, variadic := range variants {
			sig := types.NewSignature(nil, types.NewTuple(vars...), res, variadic)
			_, reply := guarded(func() (string, string) {
				_, errs := processFuncProvider(fset, types.NewFunc(token.NoPos, pkg, "F", sig))
				if len(errs) == 0 {
					return req, "ok"
				}
				msg := errs[0].Error()
				if m := reDupArg.FindStringSubmatch(msg); m != nil {
					return req, fmt.Sprintf("err dup:%d", strID[m[1]])
				}
				return req, "unparsed:" + msg
			}, func() string { return req })
			out.emit(req, reply)
		}
		if len(prefix) < 4 {
			for k := 0; k < 3; k++ {
				rec2(append(append([]int(nil), prefix...), k))
			}
		}
	}
	rec2(nil)
}
