//go:build verif

package wire

import (
	"bufio"
	"flag"
	"fmt"
	"strings"
	"math/rand"
	"os"
	"runtime"
	"runtime/debug"
	"time"
)

// vOut writes the request stream (for the Lean model) and the implementation's reply stream.
type vOut struct {
	req, impl, meta *bufio.Writer
	n               int
	label           string
}

func openOut(dir string) (*vOut, func()) {
	fr, err := os.Create(dir + "/req.txt")
	if err != nil {
		fmt.Fprintln(os.Stderr, err)
		os.Exit(2)
	}
	fi, err := os.Create(dir + "/impl.txt")
	if err != nil {
		fmt.Fprintln(os.Stderr, err)
		os.Exit(2)
	}
	fm, err := os.Create(dir + "/meta.txt")
	if err != nil {
		fmt.Fprintln(os.Stderr, err)
		os.Exit(2)
	}
	o := &vOut{req: bufio.NewWriter(fr), impl: bufio.NewWriter(fi), meta: bufio.NewWriter(fm)}
	return o, func() { o.req.Flush(); o.impl.Flush(); o.meta.Flush(); fr.Close(); fi.Close(); fm.Close() }
}

// guarded runs f with panic recovery and a watchdog (time and heap): a hang or a blow-up of the
// code under test must not take the harness down silently.
func guarded(f func() (string, string), fallbackReq func() string) (req, reply string) {
	type res struct{ req, reply string }
	ch := make(chan res, 1)
	go func() {
		defer func() {
			if r := recover(); r != nil {
				ch <- res{fallbackReq(), fmt.Sprintf("panic %q", fmt.Sprint(r))}
			}
		}()
		a, b := f()
		ch <- res{a, b}
	}()
	tick := time.NewTicker(50 * time.Millisecond)
	defer tick.Stop()
	deadline := time.After(10 * time.Second)
	for {
		select {
		case r := <-ch:
			return r.req, r.reply
		case <-tick.C:
			var ms runtime.MemStats
			runtime.ReadMemStats(&ms)
			if ms.HeapAlloc > 3<<30 {
				return fallbackReq(), "blowup heap"
			}
		case <-deadline:
			return fallbackReq(), "timeout"
		}
	}
}

func (o *vOut) emit(req, reply string) {
	fmt.Fprintln(o.req, req)
	fmt.Fprintln(o.impl, reply)
	fmt.Fprintln(o.meta, o.label)
	o.n++
}

// VerifMain is the entry point of cmd/wireverif.
func VerifMain(args []string) int {
	debug.SetGCPercent(200)
	if len(args) == 0 {
		fmt.Fprintln(os.Stderr, "usage: wireverif <mode> [flags]")
		return 2
	}
	fs := flag.NewFlagSet(args[0], flag.ExitOnError)
	seed := fs.Int64("seed", 1, "PRNG seed")
	n := fs.Int("n", 1000, "number of random cases")
	maxT := fs.Int("maxt", 10, "maximum number of types per random case")
	dir := fs.String("out", ".", "output directory for req.txt / impl.txt")
	nodes := fs.Int("nodes", 3, "graph size for exhaustive modes")
	src := fs.String("src", "", "directory of Go sources (rename mode)")
	fs.Parse(args[1:])
	out, closeOut := openOut(*dir)
	defer closeOut()
	r := rand.New(rand.NewSource(*seed))
	fatal := false
	run := func(c *vCase) {
		req, reply := guarded(func() (string, string) { return runPlannerCase(c) },
			func() string { return c.request(newWorld(c).order()) })
		out.emit(req, reply)
		if reply == "timeout" || reply == "blowup heap" {
			fatal = true
		}
	}
	switch args[0] {
	case "planner":
		for i := 0; i < *n && !fatal; i++ {
			mt := *maxT
			if i%50 == 49 {
				mt = 4 * *maxT
			}
			run(genRandomCase(r, mt))
		}
	case "multi":
		for i := 0; i < *n && !fatal; i++ {
			c := genRandomCase(r, *maxT)
			var reqs, reps []string
			_, rep := guarded(func() (string, string) {
				runMultiCase(r, c, func(a, b string) { reqs = append(reqs, a); reps = append(reps, b) })
				return "", "done"
			}, func() string { return "" })
			for k := range reqs {
				out.emit(reqs[k], reps[k])
			}
			if rep != "done" {
				out.emit(c.request(newWorld(c).order()), rep)
				if rep == "timeout" || rep == "blowup heap" {
					fatal = true
				}
			}
		}
	case "perm":
		// accepted programs with permuted and regrouped variants (C10); a variant is only derived
		// from a base the implementation accepts
		g := 0
		for i := 0; i < *n && !fatal; i++ {
			c := genRandomCase(r, *maxT)
			c.plan = true
			_, reply := runPlannerCase(c)
			if !strings.HasPrefix(reply, "ok") {
				continue
			}
			g++
			out.label = fmt.Sprintf("g%d base", g)
			run(c)
			for k := 0; k < 3; k++ {
				out.label = fmt.Sprintf("g%d perm", g)
				run(permVariant(r, c))
			}
			out.label = fmt.Sprintf("g%d flat", g)
			run(flatVariant(c))
			if v := splitVariant(r, c); v != nil {
				out.label = fmt.Sprintf("g%d split", g)
				run(v)
			}
			out.label = ""
		}
	case "graphs":
		// every digraph (self-loops included) on 1..nodes nodes, all three node-kind assignments
		// uniform per graph plus one mixed assignment derived from the graph number
		for k := 1; k <= *nodes && !fatal; k++ {
			total := uint(1) << uint(k*k)
			for g := uint(0); g < total && !fatal; g++ {
				adj := make([]uint, k)
				for i := 0; i < k; i++ {
					adj[i] = (g >> uint(i*k)) & ((1 << uint(k)) - 1)
				}
				kinds := [][]int{make([]int, k)}
				if k <= 3 || g%7 == uint(*seed%7) {
					mixed := make([]int, k)
					flds := make([]int, k)
					for i := range mixed {
						mixed[i] = int((g>>uint(i))+uint(i)+uint(*seed)) % 3
						flds[i] = 1
					}
					bn := make([]int, k)
					for i := range bn {
						bn[i] = 2
					}
					kinds = append(kinds, mixed, flds, bn)
				}
				for _, nk := range kinds {
					run(genGraphCase(k, adj, nk))
				}
			}
		}
	case "stress":
		// deep chains and wide diamond lattices: the number of paths is exponential, the
		// analysis must stay linear (C07)
		for _, depth := range []int{10, 20, 30} {
			run(genLattice(depth, 2))
		}
		run(genLattice(12, 4))
		run(genChain(2000))
	case "paths":
		runPathStreams(out, r, *n)
	case "fields":
		runFieldStreams(out, r, *n)
	case "bind":
		runBindStreams(out, r, *n)
	case "access":
		runAccessStreams(out, r, *n)
	case "nameable":
		runNameableStreams(out, r, *n)
	case "rename":
		runRenameStreams(out, *src)
	case "names":
		runNameStreams(out, r, *n)
	case "sig":
		runSigStreams(out, *nodes)
	default:
		fmt.Fprintln(os.Stderr, "unknown mode", args[0])
		return 2
	}
	if fatal {
		return 3
	}
	return 0
}

// genLattice: `depth` layers of `width` nodes, every node depending on every node of the next
// layer (width^depth paths), plus a root over the first layer.
func genLattice(depth, width int) *vCase {
	nT := depth*width + 1
	c := &vCase{nT: nT, kind: make([]int, nT), base: make([]int, nT), plan: true, out: 0}
	s := vSet{id: 100, hasArgs: true}
	layer := func(l int) []int {
		ids := make([]int, width)
		for j := range ids {
			ids[j] = 1 + l*width + j
		}
		return ids
	}
	s.provs = append(s.provs, vProv{id: 1, args: layer(0), outs: []int{0}})
	for l := 0; l < depth; l++ {
		for _, t := range layer(l) {
			p := vProv{id: 1 + t, outs: []int{t}}
			if l+1 < depth {
				p.args = layer(l + 1)
			}
			s.provs = append(s.provs, p)
		}
	}
	c.sets = []vSet{s}
	return c
}

func genChain(n int) *vCase {
	c := &vCase{nT: n, kind: make([]int, n), base: make([]int, n), plan: true, out: 0}
	s := vSet{id: 100, hasArgs: true}
	for i := 0; i < n; i++ {
		p := vProv{id: 1 + i, outs: []int{i}}
		if i+1 < n {
			p.args = []int{i + 1}
		}
		s.provs = append(s.provs, p)
	}
	c.sets = []vSet{s}
	return c
}
