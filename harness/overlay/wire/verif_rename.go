//go:build verif

package wire

import (
	"bytes"
	"fmt"
	"go/ast"
	"go/importer"
	"go/parser"
	"go/printer"
	"go/token"
	"go/types"
	"os"
	"path/filepath"
	"sort"
	"strings"

	"golang.org/x/tools/go/ast/astutil"
	"golang.org/x/tools/go/packages"
)

// runRenameStreams: every declaration of every single-file package in dir goes through the real
// rewritePkgRefs (in source order, one gen per file, as generateInjectors does).  For each declaration
// the request is the sequence of identifier occurrences the second pass sees (name, object, renamable)
// together with the names in file scope; the reply is the sequence of identifier names of the copy,
// followed by the verdict of the binding oracle: the copies, printed under the generated file's import
// block and type-checked afresh, must resolve every identifier to the entity the original resolved to.
func runRenameStreams(out *vOut, dir string) {
	files, _ := filepath.Glob(dir + "/*.go")
	sort.Strings(files)
	fset := token.NewFileSet()
	imp := importer.ForCompiler(fset, "source", nil)
	for _, fn := range files {
		out.label = filepath.Base(fn)
		renameFile(out, fset, imp, fn)
	}
}

type renOcc struct {
	obj   types.Object // what the identifier denotes (an embedded field stands for its type)
	name  string       // "" = taken from the output (written by the first pass)
	key   string // object key, "" = none
	flags string
	id    *ast.Ident
	qual  int // 0 plain, 1 qualifier X, 2 selected name
}

func objKey(obj types.Object) string {
	if obj == nil {
		return ""
	}
	return fmt.Sprintf("%d/%s", obj.Pos(), obj.Name())
}

func renameFile(out *vOut, fset *token.FileSet, imp types.Importer, fn string) {
	src, err := os.ReadFile(fn)
	if err != nil {
		out.emit("rename-skip", "readerror "+err.Error())
		return
	}
	f, err := parser.ParseFile(fset, fn, src, parser.ParseComments)
	if err != nil {
		out.emit("rename-skip", "parseerror "+strings.ReplaceAll(err.Error(), "\n", " "))
		return
	}
	info := &types.Info{
		Types:      make(map[ast.Expr]types.TypeAndValue),
		Defs:       make(map[*ast.Ident]types.Object),
		Uses:       make(map[*ast.Ident]types.Object),
		Implicits:  make(map[ast.Node]types.Object),
		Scopes:     make(map[ast.Node]*types.Scope),
		Selections: make(map[*ast.SelectorExpr]*types.Selection),
	}
	conf := types.Config{Importer: imp}
	tpkg, err := conf.Check("example.com/p", fset, []*ast.File{f}, info)
	if err != nil {
		out.emit("rename-skip", "typeerror "+strings.ReplaceAll(err.Error(), "\n", " "))
		return
	}
	pkg := &packages.Package{PkgPath: "example.com/p", Name: tpkg.Name(), Types: tpkg, TypesInfo: info, Fset: fset, Syntax: []*ast.File{f}}
	g := newGen(pkg)
	pkgScope := tpkg.Scope()
	type done struct {
		orig, copy ast.Node
		occs       []renOcc
		req        string
		names      []string
		label      string
	}
	var all []done
	for _, decl := range f.Decls {
		if gd, ok := decl.(*ast.GenDecl); ok && gd.Tok == token.IMPORT {
			continue
		}
		label := "decl"
		switch d := decl.(type) {
		case *ast.FuncDecl:
			label = d.Name.Name
		case *ast.GenDecl:
			if len(d.Specs) > 0 {
				switch s := d.Specs[0].(type) {
				case *ast.TypeSpec:
					label = s.Name.Name
				case *ast.ValueSpec:
					label = s.Names[0].Name
				}
			}
		}
		// occurrences as the second pass will see them
		start, end := decl.Pos(), decl.End()
		var occs []renOcc
		symbolic := map[*ast.Ident]string{}
		embeddedOf := map[types.Object]types.Object{}
		astutil.Apply(decl, func(c *astutil.Cursor) bool {
			switch n := c.Node().(type) {
			case *ast.TypeSwitchStmt:
				if as, ok := n.Assign.(*ast.AssignStmt); ok && len(as.Lhs) == 1 {
					if id, ok := as.Lhs[0].(*ast.Ident); ok {
						key := fmt.Sprintf("%d/%s", id.Pos(), id.Name)
						symbolic[id] = key
						occs = append(occs, renOcc{name: id.Name, key: key, flags: "s"})
					}
				}
				return true
			case *ast.SelectorExpr:
				if x, ok := n.X.(*ast.Ident); ok {
					if _, ok := info.ObjectOf(x).(*types.PkgName); ok {
						occs = append(occs, renOcc{id: x, qual: 1}, renOcc{id: n.Sel, qual: 2})
						return false
					}
				}
				return true
			case *ast.Ident:
				if key, ok := symbolic[n]; ok {
					occs = append(occs, renOcc{name: n.Name, key: key, flags: "r", id: n})
					return true
				}
				obj := info.ObjectOf(n)
				if obj == nil {
					occs = append(occs, renOcc{name: n.Name, flags: "n", id: n})
					return true
				}
				if v, ok := obj.(*types.Var); ok && v.Embedded() {
					// an embedded field is named after its type: declaration and uses follow the type
					if info.Defs[n] == obj {
						if tn := info.Uses[n]; tn != nil {
							embeddedOf[obj] = tn
						}
					}
					if tn, ok := embeddedOf[obj]; ok {
						obj = tn
					}
				}
				if p := obj.Pkg(); p != nil && obj.Parent() == p.Scope() && p.Path() != tpkg.Path() {
					// dot-imported: the first pass writes pkg.Name
					occs = append(occs, renOcc{id: n, qual: 1}, renOcc{id: n, qual: 2})
					return true
				}
				fl := "n"
				if par := obj.Parent(); par != nil && par != pkgScope && start <= obj.Pos() && obj.Pos() < end {
					fl = "r"
				}
				occs = append(occs, renOcc{name: n.Name, key: objKey(obj), flags: fl, id: n, obj: obj})
				return true
			}
			return true
		}, nil)
		var cp ast.Node
		_, reply := guarded(func() (string, string) {
			cp = g.rewritePkgRefs(info, decl)
			return "", "done"
		}, func() string { return "rename-panic " + label })
		if reply != "done" {
			out.label = filepath.Base(fn) + ":" + label
			out.emit("rename-panic "+label, reply)
			return
		}
		var names []string
		astutil.Apply(cp, func(c *astutil.Cursor) bool {
			if id, ok := c.Node().(*ast.Ident); ok {
				names = append(names, id.Name)
			}
			return true
		}, nil)
		nvis := 0
		for _, o := range occs {
			if o.flags != "s" {
				nvis++
			}
		}
		if nvis != len(names) {
			out.label = filepath.Base(fn) + ":" + label
			out.emit("rename-skip", fmt.Sprintf("misaligned %d occurrences, %d identifiers in the copy", nvis, len(names)))
			continue
		}
		// file scope as nameInFileScope sees it now
		fsSet := map[string]bool{}
		for _, n := range types.Universe.Names() {
			fsSet[n] = true
		}
		for _, n := range pkgScope.Names() {
			fsSet[n] = true
		}
		for _, ii := range g.imports {
			fsSet[ii.name] = true
		}
		for _, v := range g.values {
			fsSet[v] = true
		}
		var fsNames []string
		for n := range fsSet {
			fsNames = append(fsNames, n)
		}
		sort.Strings(fsNames)
		ids := map[string]int{}
		var toks []string
		k := 0
		for i := range occs {
			o := &occs[i]
			if o.flags != "s" {
				if o.qual != 0 {
					o.name = names[k]
					o.flags = "n"
				}
				k++
			}
			key := "-"
			if o.key != "" {
				if _, ok := ids[o.key]; !ok {
					ids[o.key] = len(ids)
				}
				key = fmt.Sprint(ids[o.key])
			}
			toks = append(toks, eq(o.name), key, o.flags)
		}
		req := fmt.Sprintf("rename %d %s %d %s", len(fsNames), strings.Join(mapEq(fsNames), " "), len(occs), strings.Join(toks, " "))
		all = append(all, done{orig: decl, copy: cp, occs: occs, req: req, names: names, label: label})
	}
	// binding oracle: the copies under the generated import block, type-checked afresh
	var buf bytes.Buffer
	fmt.Fprintf(&buf, "package %s\n\nimport (\n", tpkg.Name())
	var paths []string
	for p := range g.imports {
		paths = append(paths, p)
	}
	sort.Strings(paths)
	for _, p := range paths {
		fmt.Fprintf(&buf, "\t%s %q\n", g.imports[p].name, p)
	}
	fmt.Fprintf(&buf, ")\n\n")
	for _, d := range all {
		printer.Fprint(&buf, fset, d.copy)
		buf.WriteString("\n\n")
	}
	verdicts := make([]string, len(all))
	fset2 := fset
	f2, err := parser.ParseFile(fset2, "copy.go", buf.Bytes(), 0)
	info2 := &types.Info{Defs: make(map[*ast.Ident]types.Object), Uses: make(map[*ast.Ident]types.Object), Implicits: make(map[ast.Node]types.Object)}
	var tpkg2 *types.Package
	if err == nil {
		conf2 := types.Config{Importer: imp, Error: func(error) {}}
		var errs []string
		conf2.Error = func(e error) { errs = append(errs, e.Error()) }
		tpkg2, _ = conf2.Check("example.com/p", fset2, []*ast.File{f2}, info2)
		if len(errs) > 0 {
			if len(errs) > 3 {
				errs = errs[:3]
			}
			err = fmt.Errorf("%s", strings.Join(errs, "; "))
		}
	}
	if err != nil {
		// attribute to the declarations the messages point into
		msg := strings.ReplaceAll(err.Error(), "\n", " ")
		for i := range verdicts {
			verdicts[i] = "bind ok"
		}
		attributed := false
		if f2 != nil {
			var decls2 []ast.Decl
			for _, d := range f2.Decls {
				if gd, ok := d.(*ast.GenDecl); ok && gd.Tok == token.IMPORT {
					continue
				}
				decls2 = append(decls2, d)
			}
			for i, d := range decls2 {
				if i >= len(all) {
					break
				}
				lo, hi := fset2.Position(d.Pos()).Line, fset2.Position(d.End()).Line
				for _, part := range strings.Split(msg, "; ") {
					var ln, col int
					var rest string
					if n, _ := fmt.Sscanf(part, "copy.go:%d:%d:", &ln, &col); n == 2 && lo <= ln && ln <= hi {
						rest = part
						verdicts[i] = "bind bad the copy does not type-check: " + rest
						attributed = true
					}
				}
			}
		}
		if !attributed {
			for i := range verdicts {
				verdicts[i] = "bind bad the copied file does not type-check: " + msg
			}
		}
	} else {
		var decls2 []ast.Decl
		for _, d := range f2.Decls {
			if gd, ok := d.(*ast.GenDecl); ok && gd.Tok == token.IMPORT {
				continue
			}
			decls2 = append(decls2, d)
		}
		for i, d := range all {
			if i >= len(decls2) {
				verdicts[i] = "bind bad copy missing"
				continue
			}
			verdicts[i] = bindVerdict(info, tpkg, info2, tpkg2, d.occs, decls2[i])
		}
	}
	for i, d := range all {
		out.label = filepath.Base(fn) + ":" + d.label
		out.emit(d.req, "ok "+strings.Join(mapEq(d.names), " ")+" | "+verdicts[i])
	}
}

func mapEq(xs []string) []string {
	out := make([]string, len(xs))
	for i, x := range xs {
		out[i] = eq(x)
	}
	return out
}

// bindVerdict walks the identifiers of the original (as occurrences) and of the re-checked copy in step.
func bindVerdict(info *types.Info, tpkg *types.Package, info2 *types.Info, tpkg2 *types.Package, occs []renOcc, copyDecl ast.Decl) string {
	var ids2 []*ast.Ident
	ast.Inspect(copyDecl, func(n ast.Node) bool {
		if id, ok := n.(*ast.Ident); ok {
			ids2 = append(ids2, id)
		}
		return true
	})
	var vis []renOcc
	for _, o := range occs {
		if o.flags != "s" {
			vis = append(vis, o)
		}
	}
	if len(vis) != len(ids2) {
		return fmt.Sprintf("bind bad identifier count differs after printing (%d vs %d)", len(vis), len(ids2))
	}
	fwd := map[string]string{}
	bwd := map[string]string{}
	emb2 := map[types.Object]types.Object{}
	local := func(obj types.Object, p *types.Package) bool {
		par := obj.Parent()
		return par != nil && par != p.Scope() && par != types.Universe
	}
	for i, o := range vis {
		id2 := ids2[i]
		n := info2.ObjectOf(id2)
		switch o.qual {
		case 1:
			// the qualifier must denote the package the original meant
			var want string
			if pn, ok := info.ObjectOf(o.id).(*types.PkgName); ok {
				want = pn.Imported().Path()
			} else if obj := info.ObjectOf(o.id); obj != nil && obj.Pkg() != nil {
				want = obj.Pkg().Path()
			}
			pn2, ok := n.(*types.PkgName)
			if !ok {
				return fmt.Sprintf("bind bad qualifier %s of the copy does not denote a package (it denotes %v): captured", id2.Name, n)
			}
			if pn2.Imported().Path() != want {
				return fmt.Sprintf("bind bad qualifier %s denotes %s, the original meant %s", id2.Name, pn2.Imported().Path(), want)
			}
			continue
		case 2:
			continue
		}
		oobj := o.obj
		if v, ok := n.(*types.Var); ok && v.Embedded() {
			if info2.Defs[id2] == n {
				if tn := info2.Uses[id2]; tn != nil {
					emb2[n] = tn
				}
			}
			if tn, ok := emb2[n]; ok {
				n = tn
			}
		}
		if o.key != "" && oobj == nil {
			// symbolic variable of a type switch: no object on either side
			if n != nil {
				return fmt.Sprintf("bind bad %s declares an object in the copy only", id2.Name)
			}
			continue
		}
		if (oobj == nil) != (n == nil) {
			return fmt.Sprintf("bind bad %s -> %s: resolved on one side only", o.name, id2.Name)
		}
		if oobj == nil {
			continue
		}
		switch {
		case local(oobj, tpkg):
			if !local(n, tpkg2) {
				return fmt.Sprintf("bind bad local %s became %s which denotes the non-local %v", o.name, id2.Name, n)
			}
			a, b := objKey(oobj), objKey(n)
			if x, ok := fwd[a]; ok && x != b {
				return fmt.Sprintf("bind bad two occurrences of the local %s denote different entities in the copy (%s)", o.name, id2.Name)
			}
			if x, ok := bwd[b]; ok && x != a {
				return fmt.Sprintf("bind bad %s of the copy stands for two different locals of the original (%s)", id2.Name, o.name)
			}
			fwd[a], bwd[b] = b, a
		case oobj.Parent() == types.Universe:
			if n.Parent() != types.Universe || n.Name() != oobj.Name() {
				return fmt.Sprintf("bind bad predeclared %s became %v", o.name, n)
			}
		case oobj.Parent() == tpkg.Scope():
			if n.Parent() != tpkg2.Scope() || n.Name() != oobj.Name() {
				return fmt.Sprintf("bind bad package-level %s became %v", o.name, n)
			}
		default:
			// fields, methods, objects of other packages
			if local(n, tpkg2) || n.Name() != oobj.Name() {
				return fmt.Sprintf("bind bad %s became %v", o.name, n)
			}
			if (oobj.Pkg() == nil) != (n.Pkg() == nil) || (oobj.Pkg() != nil && oobj.Pkg().Path() != n.Pkg().Path()) {
				return fmt.Sprintf("bind bad %s now belongs to another package", o.name)
			}
		}
	}
	return "bind ok"
}
