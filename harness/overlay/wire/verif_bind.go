//go:build verif

package wire

import (
	"fmt"
	"go/ast"
	"go/parser"
	"go/token"
	"go/types"
	"math/rand"
	"regexp"
	"strings"
)

var (
	reBindArgCount = regexp.MustCompile(`takes exactly two arguments`)
	reBindIfacePtr = regexp.MustCompile(`first argument to (Bind|InterfaceValue) must be a pointer to an interface type`)
	reBindNotPtr   = regexp.MustCompile(`second argument to Bind must be a pointer or a pointer to a pointer`)
	reBindSelf     = regexp.MustCompile(`cannot bind interface to itself`)
	reBindNotImpl  = regexp.MustCompile(`does not implement`)
	reBindNil      = regexp.MustCompile(`must not be untyped nil`)
)

type mapImporter map[string]*types.Package

func (m mapImporter) Import(path string) (*types.Package, error) {
	if p, ok := m[path]; ok {
		return p, nil
	}
	return nil, fmt.Errorf("no package %q", path)
}

func checkSrc(fset *token.FileSet, path, src string, imp types.Importer, info *types.Info) (*types.Package, *ast.File, error) {
	f, err := parser.ParseFile(fset, path+".go", src, 0)
	if err != nil {
		return nil, nil, err
	}
	conf := types.Config{Importer: imp}
	pkg, err := conf.Check(path, fset, []*ast.File{f}, info)
	return pkg, f, err
}

const fakeWireSrc = `package wire
type Binding struct{}
type ProvidedValue struct{}
func Bind(iface, to interface{}) Binding { return Binding{} }
func InterfaceValue(typ interface{}, x interface{}) ProvidedValue { return ProvidedValue{} }
func Bind0() Binding { return Binding{} }
func Bind1(a interface{}) Binding { return Binding{} }
func Bind3(a, b, c interface{}) Binding { return Binding{} }
`

// runBindStreams: random method declarations (value and pointer receivers, methods promoted from embedded fields,
// shadowed and ambiguous names), random interfaces and random argument types through the real processBind and
// processInterfaceValue, both with and without `bindToUsePointer` in the wire package.
func runBindStreams(out *vOut, r *rand.Rand, n int) {
	fset := token.NewFileSet()
	wirePkgs := map[bool]*types.Package{}
	for _, use := range []bool{false, true} {
		src := fakeWireSrc
		if use {
			src += "const bindToUsePointer = true\n"
		}
		p, _, err := checkSrc(fset, "github.com/google/wire", src, nil, nil)
		if err != nil {
			panic(err)
		}
		wirePkgs[use] = p
	}
	sigs := []string{"()", "() int", "(string)"}
	bodies := []string{"{}", "{ return 0 }", "{}"}
	var tokOf func(t types.Type) string
	tokOf = func(t types.Type) string {
		switch t := t.(type) {
		case *types.Pointer:
			return "p" + tokOf(t.Elem())
		case *types.Named:
			name := t.Obj().Name()
			if name[0] == 'I' {
				return "i" + name[1:]
			}
			return "n" + name[1:]
		case *types.Basic:
			if t.Kind() == types.UntypedNil {
				return "nil"
			}
			return "b"
		}
		return "?" + t.String()
	}
	for i := 0; i < n; i++ {
		var src strings.Builder
		var req []string
		mode := r.Intn(3) / 2 // two thirds Bind
		usePtr := r.Intn(4) != 0
		req = append(req, "bind", fmt.Sprint(mode), fmt.Sprint(b2i(usePtr)))
		src.WriteString("package p\nimport \"github.com/google/wire\"\n")
		nBase := 1 + r.Intn(2)
		nNamed := nBase + 1 + r.Intn(2)
		req = append(req, fmt.Sprint(nNamed))
		for k := 0; k < nNamed; k++ {
			fmt.Fprintf(&src, "type T%d struct {", k)
			var es []string
			if k >= nBase {
				for e := 0; e < nBase; e++ {
					switch r.Intn(3) {
					case 0:
						fmt.Fprintf(&src, " T%d;", e)
						es = append(es, fmt.Sprintf("%d 0", e))
					case 1:
						fmt.Fprintf(&src, " *T%d;", e)
						es = append(es, fmt.Sprintf("%d 1", e))
					}
				}
			}
			src.WriteString(" }\n")
			var ms []string
			for _, m := range r.Perm(3)[:r.Intn(4)] {
				s := r.Intn(len(sigs))
				if r.Intn(3) != 0 {
					s = m % len(sigs) // mostly the signature the interfaces ask for
				}
				ptr := r.Intn(2) == 0
				recv := fmt.Sprintf("T%d", k)
				if ptr {
					recv = "*" + recv
				}
				fmt.Fprintf(&src, "func (%s) M%d%s %s\n", recv, m, sigs[s], bodies[s])
				ms = append(ms, fmt.Sprintf("%d %d %d", m, s, b2i(ptr)))
			}
			req = append(req, fmt.Sprint(len(ms)))
			req = append(req, ms...)
			req = append(req, fmt.Sprint(len(es)))
			req = append(req, es...)
		}
		nIface := 1 + r.Intn(3)
		req = append(req, fmt.Sprint(nIface))
		ifaceMeths := make([]map[int]int, nIface)
		for k := 0; k < nIface; k++ {
			ifaceMeths[k] = map[int]int{}
			fmt.Fprintf(&src, "type I%d interface {", k)
			// an earlier interface embedded when that cannot conflict
			if k > 0 && r.Intn(3) == 0 {
				e := r.Intn(k)
				fmt.Fprintf(&src, " I%d;", e)
				for m, s := range ifaceMeths[e] {
					ifaceMeths[k][m] = s
				}
			}
			for _, m := range r.Perm(3)[:r.Intn(3)] {
				s := m % len(sigs)
				if r.Intn(6) == 0 {
					s = r.Intn(len(sigs))
				}
				if old, ok := ifaceMeths[k][m]; ok && old != s {
					continue
				}
				ifaceMeths[k][m] = s
				fmt.Fprintf(&src, " M%d%s;", m, sigs[s])
			}
			src.WriteString(" }\n")
			var ms []string
			for m := 0; m < 3; m++ {
				if s, ok := ifaceMeths[k][m]; ok {
					ms = append(ms, fmt.Sprintf("%d %d", m, s))
				}
			}
			req = append(req, fmt.Sprint(len(ms)))
			req = append(req, ms...)
		}
		nargs := 2
		if r.Intn(12) == 0 {
			nargs = []int{0, 1, 3}[r.Intn(3)]
		}
		if mode == 1 && nargs != 2 {
			nargs = 2 // the arity of InterfaceValue is exercised by the type checker already
		}
		req = append(req, fmt.Sprint(nargs))
		var exprs []string
		for a := 0; a < nargs; a++ {
			depth, kind, id := 0, 0, 0
			switch {
			case a == 0 && r.Intn(8) != 0:
				depth, kind, id = 1, 1, r.Intn(nIface)
			case a == 1 && r.Intn(8) != 0:
				depth, kind, id = r.Intn(3), 0, r.Intn(nNamed)
				if mode == 0 && usePtr {
					depth = 1 + r.Intn(2)
				}
			default:
				depth = r.Intn(3)
				kind = r.Intn(4)
				switch kind {
				case 0:
					id = r.Intn(nNamed)
				case 1:
					id = r.Intn(nIface)
				case 3:
					depth = 0
				}
			}
			base := []string{fmt.Sprintf("T%d", id), fmt.Sprintf("I%d", id), "int", ""}[kind]
			var e string
			switch {
			case kind == 3:
				e = "nil"
			case depth == 0 && kind == 0:
				e = base + "{}"
			case depth == 0 && kind == 1:
				e = base + "(nil)"
			case depth == 0:
				e = "int(0)"
			default:
				e = "new(" + strings.Repeat("*", depth-1) + base + ")"
			}
			exprs = append(exprs, e)
			req = append(req, fmt.Sprintf("%d %d %d", depth, kind, id))
		}
		fn := "Bind"
		if mode == 1 {
			fn = "InterfaceValue"
		} else if nargs != 2 {
			fn = fmt.Sprintf("Bind%d", nargs)
		}
		fmt.Fprintf(&src, "var X = wire.%s(%s)\n", fn, strings.Join(exprs, ", "))
		reqLine := strings.Join(strings.Fields(strings.Join(req, " ")), " ")
		info := &types.Info{
			Types: map[ast.Expr]types.TypeAndValue{},
			Uses:  map[*ast.Ident]types.Object{},
			Defs:  map[*ast.Ident]types.Object{},
		}
		_, f, err := checkSrc(fset, "example.com/p", src.String(), mapImporter{"github.com/google/wire": wirePkgs[usePtr]}, info)
		if err != nil {
			out.emit("bind-skip "+strings.ReplaceAll(err.Error(), "\n", " "), "skip")
			continue
		}
		var call *ast.CallExpr
		for _, d := range f.Decls {
			if gd, ok := d.(*ast.GenDecl); ok && gd.Tok == token.VAR {
				call = gd.Specs[0].(*ast.ValueSpec).Values[0].(*ast.CallExpr)
			}
		}
		classify := func(err error) string {
			msg := err.Error()
			switch {
			case reBindArgCount.MatchString(msg):
				return "err argcount"
			case reBindIfacePtr.MatchString(msg):
				return "err notifaceptr"
			case reBindNotPtr.MatchString(msg):
				return "err notptr"
			case reBindSelf.MatchString(msg):
				return "err self"
			case reBindNil.MatchString(msg):
				return "err nil"
			case reBindNotImpl.MatchString(msg):
				return "err notimpl"
			}
			return "unparsed:" + msg
		}
		_, reply := guarded(func() (string, string) {
			if mode == 0 {
				b, err := processBind(fset, info, call)
				if err != nil {
					return reqLine, classify(err)
				}
				return reqLine, fmt.Sprintf("ok %s %s", tokOf(b.Iface), tokOf(b.Provided))
			}
			v, err := processInterfaceValue(fset, info, call)
			if err != nil {
				return reqLine, classify(err)
			}
			return reqLine, fmt.Sprintf("ok %s %s", tokOf(v.Out), tokOf(info.TypeOf(v.expr)))
		}, func() string { return reqLine })
		out.emit(reqLine, reply)
	}
}
