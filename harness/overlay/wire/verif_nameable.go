//go:build verif

package wire

import (
	"fmt"
	"go/token"
	"go/types"
	"math/rand"
	"strings"
)

// runNameableStreams: random type trees over defined types of three packages (exported and unexported, generic instances) and
// every composite kind, through the real unnameableType for each of the three packages as the injector's package.
func runNameableStreams(out *vOut, r *rand.Rand, n int) {
	pkgs := []*types.Package{types.NewPackage("example.com/a", "a"), types.NewPackage("example.com/b", "b"), types.NewPackage("example.com/b/internal/c", "c")}
	type def struct {
		t   *types.Named
		id  int
		pkg int
	}
	var defs []def
	ids := map[*types.TypeName]int{}
	for pi, p := range pkgs {
		for _, name := range []string{"T", "t", "U", "u", "Box", "box"} {
			tn := types.NewTypeName(token.NoPos, p, name, nil)
			nt := types.NewNamed(tn, types.NewStruct(nil, nil), nil)
			if strings.EqualFold(name, "box") {
				tp := types.NewTypeParam(types.NewTypeName(token.NoPos, p, "E", nil), types.Universe.Lookup("any").Type())
				nt.SetTypeParams([]*types.TypeParam{tp})
			}
			ids[tn] = len(defs) + 1
			defs = append(defs, def{nt, len(defs) + 1, pi})
		}
	}
	var gen func(depth int) (types.Type, string)
	gen = func(depth int) (types.Type, string) {
		k := r.Intn(10)
		if depth <= 0 && k > 2 {
			k = r.Intn(3)
		}
		switch k {
		case 0:
			return types.Typ[types.Int], "2"
		case 1:
			return types.NewInterfaceType(nil, nil).Complete(), "2"
		case 2, 3:
			d := defs[r.Intn(len(defs))]
			if d.t.TypeParams().Len() > 0 {
				at, as := gen(depth - 1)
				inst, err := types.Instantiate(nil, d.t, []types.Type{at}, false)
				if err != nil {
					return types.Typ[types.Int], "2"
				}
				return inst, fmt.Sprintf("0 %d %d %d 1 %s", d.id, d.pkg, b2i(d.t.Obj().Exported()), as)
			}
			return d.t, fmt.Sprintf("0 %d %d %d 0", d.id, d.pkg, b2i(d.t.Obj().Exported()))
		case 4:
			t, s := gen(depth - 1)
			return types.NewPointer(t), "1 1 " + s
		case 5:
			t, s := gen(depth - 1)
			if r.Intn(2) == 0 {
				return types.NewSlice(t), "1 1 " + s
			}
			return types.NewArray(t, 3), "1 1 " + s
		case 6:
			t, s := gen(depth - 1)
			return types.NewChan(types.ChanDir(r.Intn(3)), t), "1 1 " + s
		case 7:
			kt, ks := gen(0)
			if !types.Comparable(kt) {
				kt, ks = types.Typ[types.String], "2"
			}
			vt, vs := gen(depth - 1)
			return types.NewMap(kt, vt), "1 2 " + ks + " " + vs
		case 8:
			np, nr := r.Intn(3), r.Intn(3)
			var ps, rs []*types.Var
			var ss []string
			for i := 0; i < np; i++ {
				t, s := gen(depth - 1)
				ps = append(ps, types.NewVar(token.NoPos, nil, "", t))
				ss = append(ss, s)
			}
			for i := 0; i < nr; i++ {
				t, s := gen(depth - 1)
				rs = append(rs, types.NewVar(token.NoPos, nil, "", t))
				ss = append(ss, s)
			}
			return types.NewSignature(nil, types.NewTuple(ps...), types.NewTuple(rs...), false), strings.TrimSpace(fmt.Sprintf("1 %d %s", np+nr, strings.Join(ss, " ")))
		default:
			nf := r.Intn(3)
			var fs []*types.Var
			var ss []string
			for i := 0; i < nf; i++ {
				t, s := gen(depth - 1)
				fs = append(fs, types.NewField(token.NoPos, pkgs[0], fmt.Sprintf("F%d", i), t, false))
				ss = append(ss, s)
			}
			return types.NewStruct(fs, nil), strings.TrimSpace(fmt.Sprintf("1 %d %s", nf, strings.Join(ss, " ")))
		}
	}
	for i := 0; i < n; i++ {
		t, enc := gen(3)
		want := r.Intn(len(pkgs))
		req := strings.Join(strings.Fields(fmt.Sprintf("nameable %d %s", want, enc)), " ")
		_, reply := guarded(func() (string, string) {
			tn := unnameableType(t, pkgs[want].Path())
			if tn == nil {
				return req, "ok"
			}
			return req, fmt.Sprintf("err %d", ids[tn])
		}, func() string { return req })
		out.label = types.TypeString(t, nil)
		out.emit(req, reply)
	}
}
