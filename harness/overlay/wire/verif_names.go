//go:build verif

package wire

import (
	"fmt"
	"go/token"
	"go/types"
	"math/rand"
	"strings"
)

var namePool = []string{
	"err", "err2", "err3", "cleanup", "cleanup2", "cleanup3", "foo", "foo1", "foo2", "foo_2", "bar", "Bar", "BAR",
	"select", "Select", "var", "Var", "type", "Type", "func", "range", "go", "Go", "nil", "Nil", "true", "error", "Error",
	"string", "String", "int", "Int", "len", "Len", "new", "New", "make", "a", "A", "x1", "X1", "_", "v", "arg", "arg2",
	"HTTPServer", "httpServer", "URL", "url", "iD", "ID", "Id", "aB", "AB", "ABc", "ABC1", "wire", "Wire", "context",
	"fooBar", "FooBar", "foobar", "pkgFoo", "pkgfoo", "p", "pFoo", "_wireFooValue", "_wireFooValue2", "break", "default",
	"Default", "map", "Map", "chan", "bool", "Bool", "bool2", "boolsuffix", "i", "I", "case", "Case", "z9", "z9_2", "z9_3",
}

func eq(s string) string { return "=" + s }

func runNameStreams(out *vOut, r *rand.Rand, n int) {
	pick := func() string { return namePool[r.Intn(len(namePool))] }
	takenSet := func() (map[string]bool, []string) {
		m := map[string]bool{}
		var l []string
		k := r.Intn(8)
		if r.Intn(10) == 0 {
			k = 20 + r.Intn(30)
		}
		for i := 0; i < k; i++ {
			s := pick()
			if r.Intn(3) == 0 {
				s = fmt.Sprintf("%s%d", pick(), 2+r.Intn(4))
			}
			if r.Intn(12) == 0 {
				s = fmt.Sprintf("%s_%d", pick(), 2+r.Intn(3))
			}
			if !m[s] {
				m[s] = true
				l = append(l, s)
			}
		}
		return m, l
	}
	eqs := func(l []string) string {
		ss := make([]string, len(l))
		for i, s := range l {
			ss[i] = eq(s)
		}
		return strings.Join(ss, " ")
	}
	pkgNames := []string{"", "pkg", "p", "foo", "err", "HTTP"}
	basics := []*types.Basic{types.Typ[types.Bool], types.Typ[types.String], types.Typ[types.Int], types.Typ[types.Float64],
		types.Typ[types.UnsafePointer], types.Typ[types.Complex128], types.Typ[types.Uint8]}
	for i := 0; i < n; i++ {
		switch r.Intn(5) {
		case 0:
			name := pick()
			m, l := takenSet()
			if r.Intn(2) == 0 && !m[name] {
				m[name] = true
				l = append(l, name)
			}
			req := strings.TrimSpace("disamb " + eq(name) + " " + eqs(l))
			_, reply := guarded(func() (string, string) {
				return req, eq(disambiguate(name, func(s string) bool { return m[s] }))
			}, func() string { return req })
			out.emit(req, reply)
		case 1:
			s := pick()
			if r.Intn(6) == 0 {
				s = ""
			}
			req := "export " + eq(s)
			out.emit(req, eq(export(s)))
			req = "unexport " + eq(s)
			out.emit(req, eq(unexport(s)))
		default:
			// typeVariableName over basic / named (with and without package) / other, pointer or not
			var t types.Type
			kind, a, b := "o", "", ""
			switch r.Intn(4) {
			case 0:
				bt := basics[r.Intn(len(basics))]
				t, kind, a = bt, "b", bt.Name()
			case 1:
				a = pick()
				kind = "n"
				t = types.NewNamed(types.NewTypeName(token.NoPos, nil, a, nil), types.NewStruct(nil, nil), nil)
			case 2:
				a, b = pick(), pkgNames[r.Intn(len(pkgNames))]
				kind = "np"
				t = types.NewNamed(types.NewTypeName(token.NoPos, types.NewPackage("example.com/"+b, b), a, nil), types.NewStruct(nil, nil), nil)
			default:
				t = types.NewSlice(types.Typ[types.Int])
			}
			if r.Intn(2) == 0 {
				t = types.NewPointer(t)
			}
			dflt := []string{"arg", "v", "", "select"}[r.Intn(4)]
			tr := "u"
			tf := unexport
			if r.Intn(3) == 0 {
				tr = "v"
				tf = func(name string) string { return "_wire" + export(name) + "Value" }
			}
			m, l := takenSet()
			req := strings.TrimSpace(fmt.Sprintf("tvn %s %s %s %s %s %s", kind, eq(a), eq(b), eq(dflt), tr, eqs(l)))
			tt := t
			_, reply := guarded(func() (string, string) {
				return req, eq(typeVariableName(tt, dflt, tf, func(s string) bool { return m[s] }))
			}, func() string { return req })
			out.emit(req, reply)
		}
	}
	// the repository's own table tests, as a corpus
	for _, c := range [][2]string{{"foo", ""}, {"foo", "foo"}, {"foo", "foo foo1 foo2"}, {"foo1", "foo foo1 foo2"}, {"select", ""}, {"var", ""}} {
		m := map[string]bool{}
		var l []string
		for _, s := range strings.Fields(c[1]) {
			m[s] = true
			l = append(l, s)
		}
		req := strings.TrimSpace("disamb " + eq(c[0]) + " " + eqs(l))
		out.emit(req, eq(disambiguate(c[0], func(s string) bool { return m[s] })))
	}
}
