//go:build verif

package wire

import (
	"fmt"
	"go/types"
	"math/rand"
	"strings"
)

// VerifGatherCase is one synthetic Info for cmd/wire's gather (which lives in package main and is
// reached through the overlay file cmd/wire/verif_show.go).
type VerifGatherCase struct {
	Req    string
	Info   *Info
	Key    ProviderSetID
	TypeID func(types.Type) int
}

// VerifGatherCases builds n random accepted provider sets (the last set of a random planner case,
// without injector arguments) and the matching request line for the model.
func VerifGatherCases(seed int64, n int, maxT int) []VerifGatherCase {
	r := rand.New(rand.NewSource(seed))
	var out []VerifGatherCase
	for len(out) < n {
		c := genRandomCase(r, maxT)
		c.plan = false
		last := len(c.sets) - 1
		c.sets[last].hasArgs = false
		c.sets[last].args = nil
		w := newWorld(c)
		var done []setResult
		for _, s := range c.sets {
			done = append(done, w.buildSet(s, done))
		}
		if done[last].set == nil {
			continue
		}
		set := done[last].set
		keys := set.Outputs()
		ids := make([]string, len(keys))
		for i, k := range keys {
			ids[i] = fmt.Sprint(w.tid(k))
		}
		base := strings.TrimPrefix(c.request(w.order()), "sets ")
		req := fmt.Sprintf("gather %s %d %s", base, len(ids), strings.Join(ids, " "))
		key := ProviderSetID{ImportPath: set.PkgPath, VarName: set.VarName}
		info := &Info{Fset: w.fset, Sets: map[ProviderSetID]*ProviderSet{key: set}}
		ww := w
		out = append(out, VerifGatherCase{Req: strings.Join(strings.Fields(req), " "), Info: info, Key: key, TypeID: func(t types.Type) int { return ww.tid(t) }})
	}
	return out
}
