//go:build verif

package wire

import (
	"fmt"
	"go/types"
	"math/rand"
	"regexp"
	"strings"

	"golang.org/x/tools/go/packages"
)

var reImportLine = regexp.MustCompile(`(?m)^\t(?:(\S+) )?"([^"]+)"$`)

// runPathStreams: vendor stripping on paths assembled from a pool of segments (vendor, govendor,
// vendored, ...), and the import block printed by frame for randomly ordered import tables.
func runPathStreams(out *vOut, r *rand.Rand, n int) {
	segs := []string{"vendor", "govendor", "vendored", "myvendor", "a", "b.com", "github.com", "google", "wire", "x", "vendor2", "v"}
	for i := 0; i < n; i++ {
		k := 1 + r.Intn(6)
		parts := make([]string, k)
		for j := range parts {
			parts[j] = segs[r.Intn(len(segs))]
		}
		p := strings.Join(parts, "/")
		switch r.Intn(6) {
		case 0:
			p = "vendor/" + p
		case 1:
			p = p + "/vendor/github.com/google/wire"
		case 2:
			p = "github.com/google/wire"
		}
		req := "path unvendor " + eq(p)
		_, reply := guarded(func() (string, string) { return req, eq(unvendor(p)) }, func() string { return req })
		out.emit(req, reply)
		req2 := "path iswire " + eq(p)
		out.emit(req2, fmt.Sprint(b2i(isWireImport(p))))
	}
	// importableFrom: Go's rule for internal packages on paths with internal-like segments
	isegs := []string{"internal", "internal", "internals", "xinternal", "a", "b.com", "lib", "sub", "vendor", "x"}
	mk := func() string {
		k := 1 + r.Intn(5)
		parts := make([]string, k)
		for j := range parts {
			parts[j] = isegs[r.Intn(len(isegs))]
		}
		return strings.Join(parts, "/")
	}
	for i := 0; i < n/2; i++ {
		p := mk()
		from := mk()
		switch r.Intn(5) {
		case 0:
			// inside the tree of p's last internal element
			if k := strings.LastIndex(p, "/internal"); k > 0 {
				from = p[:k] + "/" + mk()
			}
		case 1:
			if k := strings.LastIndex(p, "/internal"); k > 0 {
				from = p[:k]
			}
		case 2:
			from = p + "x"
		}
		if r.Intn(25) == 0 {
			from = "command-line-arguments" // a package named by a list of files
		}
		req := "path importable " + eq(p) + " " + eq(from)
		_, reply := guarded(func() (string, string) { return req, fmt.Sprint(b2i(importableFrom(p, from))) }, func() string { return req })
		out.emit(req, reply)
	}
	// frame: the import block must not depend on map iteration order
	for i := 0; i < n/10; i++ {
		g := &gen{pkg: &packages.Package{Name: "p", PkgPath: "example.com/p", Types: types.NewPackage("example.com/p", "p")},
			imports: map[string]importInfo{}, anonImports: map[string]bool{}, values: nil}
		k := 1 + r.Intn(8)
		var toks []string
		for j := 0; j < k; j++ {
			path := fmt.Sprintf("example.com/%s/%s%d", segs[r.Intn(len(segs))], segs[r.Intn(len(segs))], r.Intn(3))
			if _, dup := g.imports[path]; dup {
				continue
			}
			name := segs[r.Intn(len(segs))]
			differs := r.Intn(2) == 0
			g.imports[path] = importInfo{name: name, differs: differs}
			toks = append(toks, eq(path), eq(name), fmt.Sprint(b2i(differs)))
		}
		g.p("x")
		req := "path frame " + strings.Join(toks, " ")
		src := string(g.frame(""))
		var lines []string
		for _, m := range reImportLine.FindAllStringSubmatch(src, -1) {
			if m[1] != "" {
				lines = append(lines, m[1]+` "`+m[2]+`"`)
			} else {
				lines = append(lines, `"`+m[2]+`"`)
			}
		}
		out.emit(req, strings.Join(lines, " ; "))
	}
}
